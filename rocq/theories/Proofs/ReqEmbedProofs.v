(* Lemmas about Model/ReqEmbed.v (property C14).  Everything here is proved inside a Section over
   the abstract Lua text stack, file lookup and constants, i.e. for every instantiation. *)
From PV Require Import Base.Prelude Model.ReqEmbed.

Lemma mem_name_In n l : mem_name n l = true <-> In n l.
Proof.
  unfold mem_name. rewrite existsb_exists. split.
  - intros (x & Hx & E). apply zlist_eqb_eq in E. subst. exact Hx.
  - intros H. exists n. split; [exact H | apply zlist_eqb_eq; reflexivity].
Qed.

Lemma mem_name_false n l : mem_name n l = false <-> ~ In n l.
Proof.
  rewrite <- mem_name_In. destruct (mem_name n l); split; intros H.
  - discriminate.
  - exfalso. apply H. reflexivity.
  - discriminate.
  - reflexivity.
Qed.

Lemma ends_with_nl_app a b : b <> [] -> ends_with_nl (a ++ b) = ends_with_nl b.
Proof.
  intros Hb. induction a as [|x a IH]; [reflexivity|].
  cbn [app]. destruct (a ++ b) as [|y l] eqn:E.
  - exfalso. destruct a; cbn in E; [apply Hb; exact E | discriminate].
  - change (ends_with_nl (x :: y :: l)) with (ends_with_nl (y :: l)). exact IH.
Qed.

Lemma ends_with_nl_last s : ends_with_nl s = true <-> exists r, s = r ++ [10].
Proof.
  split.
  - induction s as [|c s IH]; [discriminate|].
    destruct s as [|d s].
    + cbn. intros H. apply Z.eqb_eq in H. subst. exists []. reflexivity.
    + intros H. destruct (IH H) as (r & E). exists (c :: r). rewrite E. reflexivity.
  - intros (r & ->). rewrite ends_with_nl_app by discriminate. reflexivity.
Qed.

Lemma NoDup_snoc {A} (l : list A) x : NoDup l -> ~ In x l -> NoDup (l ++ [x]).
Proof.
  intros Hl Hx. induction Hl as [|y l Hy Hl IH]; cbn.
  - constructor; [intros []|constructor].
  - constructor.
    + rewrite in_app_iff. intros [H|[H|[]]]; [auto|]. subst. apply Hx. left. reflexivity.
    + apply IH. intros H. apply Hx. right. exact H.
Qed.

Section EmbedProofs.
Variable P : Type.
Variable parse_lines : list bytes -> result P.
Variable echo : P -> list bytes.
Variable strip : P -> result P.
Variable walk : P -> list (bytes * bool) * option err.
Variable file_lines : bytes -> list bytes.
Variable check_name : bytes -> result unit.
Variable find : bytes -> bytes -> option (bytes * bytes).
Variable preamble_package preamble_require : list bytes.
Variable header_line : bytes -> bytes.
Variable end_line nl_line : bytes.

Notation pkgs := (pkgs P).
Notation names := (@names P).
Notation load := (load P parse_lines strip file_lines find).
Notation step := (step P parse_lines strip file_lines check_name find).
Notation fold_reqs := (fold_reqs P parse_lines strip file_lines check_name find).
Notation eval := (eval P parse_lines strip walk file_lines check_name find).
Notation block := (block P echo header_line end_line nl_line).
Notation prepend_lines := (prepend_lines P echo preamble_package preamble_require header_line end_line nl_line).
Notation prepend := (prepend P parse_lines echo preamble_package preamble_require header_line end_line nl_line).
Notation build_lua := (build_lua P parse_lines echo strip walk file_lines check_name find
                                 preamble_package preamble_require header_line end_line nl_line).
Notation lua_section := (lua_section P parse_lines echo).
Notation build_code := (build_code P parse_lines echo strip walk file_lines check_name find
                                   preamble_package preamble_require header_line end_line nl_line).

(* the require strings a Lua object asks for *)
Definition req_names (p : P) : list bytes := map fst (fst (walk p)).

(* ------------------------------------------------------------------------------------------
   The depth-first search as a relation, without fuel:  Run p path pk new  says that evaluating
   the require() calls of p (a file at [path]) with package table pk succeeds and appends [new].
   [new] has the shape of a preorder traversal: for each require of a name not yet in the table,
   the package itself followed by everything its own evaluation appended. *)
Inductive Run : P -> bytes -> pkgs -> pkgs -> Prop :=
| Run_intro p path pk new :
    RunReqs path (fst (walk p)) pk new -> snd (walk p) = None -> Run p path pk new
with RunReqs : bytes -> list (bytes * bool) -> pkgs -> pkgs -> Prop :=
| RR_nil path pk : RunReqs path [] pk []
| RR_seen path n gl rest pk new :
    check_name n = Ok tt -> In n (names pk) ->
    RunReqs path rest pk new -> RunReqs path ((n, gl) :: rest) pk new
| RR_new path n gl rest pk qpath q new1 new2 :
    check_name n = Ok tt -> ~ In n (names pk) ->
    load path n gl = Ok (qpath, q) ->
    Run q qpath (pk ++ [(n, q)]) new1 ->
    RunReqs path rest (pk ++ (n, q) :: new1) new2 ->
    RunReqs path ((n, gl) :: rest) pk ((n, q) :: new1 ++ new2).

Scheme Run_mut := Minimality for Run Sort Prop
  with RunReqs_mut := Minimality for RunReqs Sort Prop.
Combined Scheme Run_both from Run_mut, RunReqs_mut.

(* ---------- the function computes the relation ---------- *)
Lemma fold_reqs_sound (rec : P -> bytes -> pkgs -> result pkgs) :
  (forall q path pk pk', rec q path pk = Ok pk' -> exists new, pk' = pk ++ new /\ Run q path pk new) ->
  forall path rs pk pk', fold_reqs rec path rs pk = Ok pk' ->
  exists new, pk' = pk ++ new /\ RunReqs path rs pk new.
Proof.
  intros Hrec path rs. induction rs as [|[n gl] rest IH]; intros pk pk' H.
  - cbn in H. injection H as <-. exists []. rewrite app_nil_r. split; [reflexivity | constructor].
  - cbn [ReqEmbed.fold_reqs ReqEmbed.step bind] in H.
    destruct (check_name n) as [[]|e] eqn:Hc; [|discriminate].
    cbn [bind] in H.
    destruct (mem_name n (names pk)) eqn:Hm.
    + cbn [bind] in H. destruct (IH _ _ H) as (new & -> & HR).
      exists new. split; [reflexivity|]. apply RR_seen; auto. apply mem_name_In, Hm.
    + destruct (load path n gl) as [[qpath q]|e] eqn:Hl; [|discriminate].
      cbn [bind] in H.
      destruct (rec q qpath (pk ++ [(n, q)])) as [pk1|e] eqn:Hr; [|discriminate].
      cbn [bind] in H.
      destruct (Hrec _ _ _ _ Hr) as (new1 & -> & HR1).
      destruct (IH _ _ H) as (new2 & -> & HR2).
      exists ((n, q) :: new1 ++ new2). split.
      * rewrite <- !app_assoc. reflexivity.
      * eapply RR_new; eauto.
        -- apply mem_name_false, Hm.
        -- rewrite <- app_assoc in HR2. exact HR2.
Qed.

Lemma eval_sound fuel : forall p path pk pk',
  eval fuel p path pk = Ok pk' -> exists new, pk' = pk ++ new /\ Run p path pk new.
Proof.
  induction fuel as [|f IH]; intros p path pk pk' H; [discriminate|].
  cbn [ReqEmbed.eval bind] in H.
  destruct (fold_reqs (eval f) path (fst (walk p)) pk) as [pk1|e] eqn:Hf; [|discriminate].
  cbn [bind] in H.
  destruct (snd (walk p)) eqn:Hw; [discriminate|]. injection H as <-.
  destruct (fold_reqs_sound (eval f) IH _ _ _ _ Hf) as (new & -> & HR).
  exists new. split; [reflexivity|]. constructor; assumption.
Qed.

(* ---------- facts about a successful search ---------- *)
(* 1. names stay distinct *)
Lemma names_app (a b : pkgs) : names (a ++ b) = names a ++ names b.
Proof. unfold ReqEmbed.names. apply map_app. Qed.

Lemma Run_NoDup :
  (forall p path pk new, Run p path pk new -> NoDup (names pk) -> NoDup (names (pk ++ new))) /\
  (forall path rs pk new, RunReqs path rs pk new -> NoDup (names pk) -> NoDup (names (pk ++ new))).
Proof.
  apply Run_both.
  - intros p path pk new _ IH _ H. auto.
  - intros path pk H. rewrite app_nil_r. exact H.
  - intros path n gl rest pk new _ _ _ IH H. auto.
  - intros path n gl rest pk qpath q new1 new2 _ Hn _ _ IH1 _ IH2 H.
    assert (H1 : NoDup (names (pk ++ [(n, q)]))).
    { rewrite names_app. cbn. apply NoDup_snoc; assumption. }
    specialize (IH1 H1). rewrite <- app_assoc in IH1. cbn [app] in IH1.
    specialize (IH2 IH1). rewrite <- app_assoc in IH2. cbn [app] in IH2.
    exact IH2.
Qed.
End EmbedProofs.
