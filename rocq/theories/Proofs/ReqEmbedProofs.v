(* Lemmas about Model/ReqEmbed.v (property C14).  Everything here is proved inside a Section over
   the abstract Lua text stack, file lookup and constants, i.e. for every instantiation. *)
From PV Require Import Base.Prelude Model.ReqEmbed.

Lemma mem_name_In n l : mem_name n l = true <-> In n l.
Proof.
  unfold mem_name. rewrite existsb_exists. split.
  - intros (x & Hx & E). apply zlist_eqb_eq in E. subst. exact Hx.
  - intros H. exists n. split; [exact H | apply zlist_eqb_eq; reflexivity].
Qed.

Lemma mem_name_false n l : mem_name n l = false <-> ~ In n l.
Proof.
  rewrite <- mem_name_In. destruct (mem_name n l); split; intros H.
  - discriminate.
  - exfalso. apply H. reflexivity.
  - discriminate.
  - reflexivity.
Qed.

Lemma ends_with_nl_app a b : b <> [] -> ends_with_nl (a ++ b) = ends_with_nl b.
Proof.
  intros Hb. induction a as [|x a IH]; [reflexivity|].
  cbn [app]. destruct (a ++ b) as [|y l] eqn:E.
  - exfalso. destruct a; cbn in E; [apply Hb; exact E | discriminate].
  - change (ends_with_nl (x :: y :: l)) with (ends_with_nl (y :: l)). exact IH.
Qed.

Lemma ends_with_nl_last s : ends_with_nl s = true <-> exists r, s = r ++ [10].
Proof.
  split.
  - induction s as [|c s IH]; [discriminate|].
    destruct s as [|d s].
    + cbn. intros H. apply Z.eqb_eq in H. subst. exists []. reflexivity.
    + intros H. destruct (IH H) as (r & E). exists (c :: r). rewrite E. reflexivity.
  - intros (r & ->). rewrite ends_with_nl_app by discriminate. reflexivity.
Qed.

Lemma NoDup_snoc {A} (l : list A) x : NoDup l -> ~ In x l -> NoDup (l ++ [x]).
Proof.
  intros Hl Hx. induction Hl as [|y l Hy Hl IH]; cbn.
  - constructor; [intros []|constructor].
  - constructor.
    + rewrite in_app_iff. intros [H|[H|[]]]; [auto|]. subst. apply Hx. left. reflexivity.
    + apply IH. intros H. apply Hx. right. exact H.
Qed.

Ltac names_tac :=
  unfold ReqEmbed.names in *;
  repeat first [ progress rewrite map_app in * | progress cbn [map fst] in *
               | progress rewrite in_app_iff in * | progress cbn [In] in * ];
  tauto.

Section EmbedProofs.
Variable P : Type.
Variable parse_lines : list bytes -> result P.
Variable echo : P -> list bytes.
Variable strip : P -> result P.
Variable walk : P -> list (bytes * bool) * option err.
Variable file_lines : bytes -> list bytes.
Variable check_name : bytes -> result unit.
Variable find : bytes -> bytes -> option (bytes * bytes).
Variable preamble_package preamble_require : list bytes.
Variable header_line : bytes -> bytes.
Variable end_line nl_line : bytes.

Notation pkgs := (pkgs P).
Notation names := (@names P).
Notation load := (load P parse_lines strip file_lines find).
Notation step := (step P parse_lines strip file_lines check_name find).
Notation fold_reqs := (fold_reqs P parse_lines strip file_lines check_name find).
Notation eval := (eval P parse_lines strip walk file_lines check_name find).
Notation block := (block P echo header_line end_line nl_line).
Notation prepend_lines := (prepend_lines P echo preamble_package preamble_require header_line end_line nl_line).
Notation prepend := (prepend P parse_lines echo preamble_package preamble_require header_line end_line nl_line).
Notation build_lua := (build_lua P parse_lines echo strip walk file_lines check_name find
                                 preamble_package preamble_require header_line end_line nl_line).
Notation lua_section := (lua_section P parse_lines echo).
Notation build_code := (build_code P parse_lines echo strip walk file_lines check_name find
                                   preamble_package preamble_require header_line end_line nl_line).

(* the require strings a Lua object asks for *)
Definition req_names (p : P) : list bytes := map fst (fst (walk p)).

(* ------------------------------------------------------------------------------------------
   The depth-first search as a relation, without fuel:  Run p path pk new  says that evaluating
   the require() calls of p (a file at [path]) with package table pk succeeds and appends [new].
   [new] has the shape of a preorder traversal: for each require of a name not yet in the table,
   the package itself followed by everything its own evaluation appended. *)
Inductive Run : P -> bytes -> pkgs -> pkgs -> Prop :=
| Run_intro p path pk new :
    RunReqs path (fst (walk p)) pk new -> snd (walk p) = None -> Run p path pk new
with RunReqs : bytes -> list (bytes * bool) -> pkgs -> pkgs -> Prop :=
| RR_nil path pk : RunReqs path [] pk []
| RR_seen path n gl rest pk new :
    check_name n = Ok tt -> In n (names pk) ->
    RunReqs path rest pk new -> RunReqs path ((n, gl) :: rest) pk new
| RR_new path n gl rest pk qpath q new1 new2 :
    check_name n = Ok tt -> ~ In n (names pk) ->
    load path n gl = Ok (qpath, q) ->
    Run q qpath (pk ++ [(n, q)]) new1 ->
    RunReqs path rest (pk ++ (n, q) :: new1) new2 ->
    RunReqs path ((n, gl) :: rest) pk ((n, q) :: new1 ++ new2).

Scheme Run_mut := Minimality for Run Sort Prop
  with RunReqs_mut := Minimality for RunReqs Sort Prop.
Combined Scheme Run_both from Run_mut, RunReqs_mut.

(* ---------- the function computes the relation ---------- *)
Lemma fold_reqs_sound (rec : P -> bytes -> pkgs -> result pkgs) :
  (forall q path pk pk', rec q path pk = Ok pk' -> exists new, pk' = pk ++ new /\ Run q path pk new) ->
  forall path rs pk pk', fold_reqs rec path rs pk = Ok pk' ->
  exists new, pk' = pk ++ new /\ RunReqs path rs pk new.
Proof.
  intros Hrec path rs. induction rs as [|[n gl] rest IH]; intros pk pk' H.
  - cbn in H. injection H as <-. exists []. rewrite app_nil_r. split; [reflexivity | constructor].
  - cbn [ReqEmbed.fold_reqs ReqEmbed.step bind] in H.
    destruct (check_name n) as [[]|e] eqn:Hc; [|discriminate].
    cbn [bind] in H.
    destruct (mem_name n (names pk)) eqn:Hm.
    + cbn [bind] in H. destruct (IH _ _ H) as (new & -> & HR).
      exists new. split; [reflexivity|]. apply RR_seen; auto. apply mem_name_In, Hm.
    + destruct (load path n gl) as [[qpath q]|e] eqn:Hl; [|discriminate].
      cbn [bind] in H.
      destruct (rec q qpath (pk ++ [(n, q)])) as [pk1|e] eqn:Hr; [|discriminate].
      cbn [bind] in H.
      destruct (Hrec _ _ _ _ Hr) as (new1 & -> & HR1).
      destruct (IH _ _ H) as (new2 & -> & HR2).
      exists ((n, q) :: new1 ++ new2). split.
      * rewrite <- !app_assoc. reflexivity.
      * eapply RR_new; eauto.
        -- apply mem_name_false, Hm.
        -- rewrite <- app_assoc in HR2. exact HR2.
Qed.

Lemma eval_sound fuel : forall p path pk pk',
  eval fuel p path pk = Ok pk' -> exists new, pk' = pk ++ new /\ Run p path pk new.
Proof.
  induction fuel as [|f IH]; intros p path pk pk' H; [discriminate|].
  cbn [ReqEmbed.eval bind] in H.
  destruct (fold_reqs (eval f) path (fst (walk p)) pk) as [pk1|e] eqn:Hf; [|discriminate].
  cbn [bind] in H.
  destruct (snd (walk p)) eqn:Hw; [discriminate|]. injection H as <-.
  destruct (fold_reqs_sound (eval f) IH _ _ _ _ Hf) as (new & -> & HR).
  exists new. split; [reflexivity|]. constructor; assumption.
Qed.

(* ---------- facts about a successful search ---------- *)
(* 1. names stay distinct *)
Lemma names_app (a b : pkgs) : names (a ++ b) = names a ++ names b.
Proof. unfold ReqEmbed.names. apply map_app. Qed.

Lemma Run_NoDup :
  (forall p path pk new, Run p path pk new -> NoDup (names pk) -> NoDup (names (pk ++ new))) /\
  (forall path rs pk new, RunReqs path rs pk new -> NoDup (names pk) -> NoDup (names (pk ++ new))).
Proof.
  apply Run_both.
  - intros p path pk new _ IH _ H. auto.
  - intros path pk H. rewrite app_nil_r. exact H.
  - intros path n gl rest pk new _ _ _ IH H. auto.
  - intros path n gl rest pk qpath q new1 new2 _ Hn _ _ IH1 _ IH2 H.
    assert (H1 : NoDup (names (pk ++ [(n, q)]))).
    { rewrite names_app. cbn. apply NoDup_snoc; assumption. }
    specialize (IH1 H1). rewrite <- app_assoc in IH1. cbn [app] in IH1.
    specialize (IH2 IH1). rewrite <- app_assoc in IH2. cbn [app] in IH2.
    exact IH2.
Qed.

(* 2. what holds at every node the search visited (p itself and every package it appended): the walker
   did not raise, every require string passed the name check, and every required name is in the table *)
Definition node_ok (final : list bytes) (q : P) : Prop :=
  snd (walk q) = None /\
  forall n gl, In (n, gl) (fst (walk q)) -> check_name n = Ok tt /\ In n final.

Lemma Run_nodes :
  (forall p path pk new, Run p path pk new ->
     forall final, incl (names (pk ++ new)) final ->
     node_ok final p /\ Forall (fun e => node_ok final (snd e)) new) /\
  (forall path rs pk new, RunReqs path rs pk new ->
     forall final, incl (names (pk ++ new)) final ->
     (forall n gl, In (n, gl) rs -> check_name n = Ok tt /\ In n final) /\
     Forall (fun e => node_ok final (snd e)) new).
Proof.
  apply Run_both.
  - intros p path pk new _ IH Hw final Hi. destruct (IH final Hi) as [H1 H2].
    split; [split; assumption | assumption].
  - intros path pk final _. split; [intros n gl [] | constructor].
  - intros path n gl rest pk new Hc Hn _ IH final Hi. destruct (IH final Hi) as [H1 H2].
    split; [|exact H2]. intros n' gl' [E|Hin]; [|eauto].
    injection E as <- <-. split; [exact Hc|]. apply Hi. rewrite names_app. apply in_or_app. left. exact Hn.
  - intros path n gl rest pk qpath q new1 new2 Hc Hn Hl _ IH1 _ IH2 final Hi.
    assert (Hi1 : incl (names ((pk ++ [(n, q)]) ++ new1)) final).
    { intros x Hx. apply Hi. names_tac. }
    assert (Hi2 : incl (names ((pk ++ (n, q) :: new1) ++ new2)) final).
    { intros x Hx. apply Hi. names_tac. }
    destruct (IH1 final Hi1) as [Hq H1]. destruct (IH2 final Hi2) as [Hr H2].
    split.
    + intros n' gl' [E|Hin]; [|eauto]. injection E as <- <-. split; [exact Hc|].
      apply Hi. rewrite names_app. apply in_or_app. right. left. reflexivity.
    + constructor; [exact Hq|]. apply Forall_app. split; assumption.
Qed.

(* 3. where every appended package comes from: a located, lexed, parsed and (unless the requirer asked
   for the game loop) stripped file *)
Definition loaded (e : bytes * P) : Prop :=
  exists rpath gl qpath, load rpath (fst e) gl = Ok (qpath, snd e).

Lemma Run_loaded :
  (forall p path pk new, Run p path pk new -> Forall loaded new) /\
  (forall path rs pk new, RunReqs path rs pk new -> Forall loaded new).
Proof.
  apply Run_both; intros; auto.
  constructor; [exists path, gl, qpath; assumption|]. apply Forall_app. split; assumption.
Qed.

(* 4. order of first use: every appended package was asked for by the root or by a package appended
   before it.  [disc avail new]: walking down [new], each name is among the names asked for so far. *)
Fixpoint disc (avail : list bytes) (new : pkgs) : Prop :=
  match new with
  | [] => True
  | e :: r => In (fst e) avail /\ disc (avail ++ req_names (snd e)) r
  end.

Lemma disc_mono new : forall a b, incl a b -> disc a new -> disc b new.
Proof.
  induction new as [|e r IH]; intros a b Hi H; [exact I|].
  destruct H as [H1 H2]. split; [apply Hi, H1|].
  apply (IH (a ++ req_names (snd e))); [|exact H2].
  intros x Hx. apply in_app_iff in Hx. apply in_app_iff. destruct Hx; [left; auto | right; assumption].
Qed.

Lemma disc_app x : forall a y, disc a x -> disc a y -> disc a (x ++ y).
Proof.
  induction x as [|e r IH]; intros a y Hx Hy; [exact Hy|].
  destruct Hx as [H1 H2]. split; [exact H1|]. apply IH; [exact H2|].
  apply (disc_mono y a); [|exact Hy]. intros z Hz. apply in_app_iff. left. exact Hz.
Qed.

Lemma Run_disc :
  (forall p path pk new, Run p path pk new -> forall avail, incl (req_names p) avail -> disc avail new) /\
  (forall path rs pk new, RunReqs path rs pk new -> forall avail, incl (map fst rs) avail -> disc avail new).
Proof.
  apply Run_both.
  - intros p path pk new _ IH _ avail Hi. apply IH. exact Hi.
  - intros. exact I.
  - intros path n gl rest pk new _ _ _ IH avail Hi. apply IH. intros x Hx. apply Hi. right. exact Hx.
  - intros path n gl rest pk qpath q new1 new2 _ _ _ _ IH1 _ IH2 avail Hi.
    split; [apply Hi; left; reflexivity|]. cbn [snd]. apply disc_app.
    + apply IH1. intros x Hx. apply in_app_iff. right. exact Hx.
    + apply IH2. intros x Hx. apply in_app_iff. left. apply Hi. right. exact Hx.
Qed.

(* 5. all names come from a universe U that contains every name any walk can yield *)
Section Universe.
Variable U : list bytes.
Hypothesis U_load : forall rpath n gl qpath q, load rpath n gl = Ok (qpath, q) -> incl (req_names q) U.

Lemma Run_in_U :
  (forall p path pk new, Run p path pk new -> incl (req_names p) U -> incl (names new) U) /\
  (forall path rs pk new, RunReqs path rs pk new -> incl (map fst rs) U -> incl (names new) U).
Proof.
  apply Run_both.
  - intros p path pk new _ IH _ Hi. apply IH, Hi.
  - intros path pk _ x [].
  - intros path n gl rest pk new _ _ _ IH Hi. apply IH. intros x Hx. apply Hi. right. exact Hx.
  - intros path n gl rest pk qpath q new1 new2 _ _ Hl _ IH1 _ IH2 Hi x Hx.
    assert (Hx' : n = x \/ In x (names new1) \/ In x (names new2)) by names_tac.
    clear Hx. destruct Hx' as [<-|[Hx|Hx]].
    + apply Hi. left. reflexivity.
    + apply IH1; [|exact Hx]. eapply U_load, Hl.
    + apply IH2; [|exact Hx]. intros y Hy. apply Hi. right. exact Hy.
Qed.

(* ---------- fuel: more than (|U| - |table|) levels are never needed ---------- *)
Lemma fold_reqs_fuel (rec rec' : P -> bytes -> pkgs -> result pkgs) k :
  (forall q qpath pk pk', rec q qpath pk = Ok pk' -> exists new, pk' = pk ++ new /\ Run q qpath pk new) ->
  (forall q qpath pk, incl (req_names q) U -> NoDup (names pk) -> incl (names pk) U ->
                      (length U < k + length pk)%nat -> rec' q qpath pk = rec q qpath pk) ->
  forall path rs pk, incl (map fst rs) U -> NoDup (names pk) -> incl (names pk) U ->
                     (length U < S k + length pk)%nat ->
                     fold_reqs rec' path rs pk = fold_reqs rec path rs pk.
Proof.
  intros Hsound Hrec path rs. induction rs as [|[n gl] rest IH]; intros pk Hrs Hnd Hin Hlen; [reflexivity|].
  cbn [ReqEmbed.fold_reqs ReqEmbed.step bind].
  destruct (check_name n) as [[]|e]; [|reflexivity]. cbn [bind].
  destruct (mem_name n (names pk)) eqn:Hm.
  - cbn [bind]. apply IH; auto. intros x Hx. apply Hrs. right. exact Hx.
  - destruct (load path n gl) as [[qpath q]|e] eqn:Hl; [|reflexivity]. cbn [bind].
    assert (Hn : ~ In n (names pk)) by (apply mem_name_false, Hm).
    assert (Hnd1 : NoDup (names (pk ++ [(n, q)]))).
    { rewrite names_app. apply NoDup_snoc; assumption. }
    assert (Hin1 : incl (names (pk ++ [(n, q)])) U).
    { rewrite names_app. intros x Hx. apply in_app_iff in Hx. destruct Hx as [Hx|[<-|[]]]; [auto|].
      apply Hrs. left. reflexivity. }
    assert (Hq : incl (req_names q) U) by (eapply U_load, Hl).
    rewrite (Hrec q qpath (pk ++ [(n, q)]) Hq Hnd1 Hin1).
    2:{ rewrite app_length. cbn [length]. lia. }
    destruct (rec q qpath (pk ++ [(n, q)])) as [pk1|e] eqn:Hr; [|reflexivity]. cbn [bind].
    destruct (Hsound _ _ _ _ Hr) as (new1 & -> & HR).
    apply IH.
    + intros x Hx. apply Hrs. right. exact Hx.
    + apply (proj1 Run_NoDup _ _ _ _ HR Hnd1).
    + rewrite names_app. intros x Hx. apply in_app_iff in Hx. destruct Hx as [Hx|Hx]; [auto|].
      apply (proj1 Run_in_U _ _ _ _ HR Hq). exact Hx.
    + rewrite !app_length. cbn [length]. lia.
Qed.

Lemma eval_fuel k : forall k' p path pk,
  (k <= k')%nat -> incl (req_names p) U -> NoDup (names pk) -> incl (names pk) U ->
  (length U < k + length pk)%nat ->
  eval k' p path pk = eval k p path pk.
Proof.
  induction k as [|k IH]; intros k' p path pk Hk Hp Hnd Hin Hlen.
  - exfalso. pose proof (NoDup_incl_length Hnd Hin) as H. unfold ReqEmbed.names in *.
    rewrite map_length in H. cbn in Hlen. lia.
  - destruct k' as [|k']; [lia|]. cbn [ReqEmbed.eval].
    rewrite (fold_reqs_fuel (eval k) (eval k') k); auto.
    + intros q qpath pk0 pk' H. eapply eval_sound, H.
    + intros q qpath pk0 Hq Hnd0 Hin0 Hlen0. apply IH; auto. lia.
Qed.
End Universe.

(* a successful search is never changed by more fuel, whatever the universe *)
Lemma fold_reqs_more (rec rec' : P -> bytes -> pkgs -> result pkgs) :
  (forall q qpath pk pk', rec q qpath pk = Ok pk' -> rec' q qpath pk = Ok pk') ->
  forall path rs pk pk', fold_reqs rec path rs pk = Ok pk' -> fold_reqs rec' path rs pk = Ok pk'.
Proof.
  intros Hrec path rs. induction rs as [|[n gl] rest IH]; intros pk pk' H; [exact H|].
  cbn [ReqEmbed.fold_reqs ReqEmbed.step bind] in *.
  destruct (check_name n) as [[]|e]; [|discriminate]. cbn [bind] in *.
  destruct (mem_name n (names pk)).
  - cbn [bind] in *. apply IH, H.
  - destruct (load path n gl) as [[qpath q]|e]; [|discriminate]. cbn [bind] in *.
    destruct (rec q qpath (pk ++ [(n, q)])) as [pk1|e] eqn:Hr; [|discriminate].
    rewrite (Hrec _ _ _ _ Hr). cbn [bind] in *. apply IH, H.
Qed.

Lemma eval_more k : forall k' p path pk pk',
  (k <= k')%nat -> eval k p path pk = Ok pk' -> eval k' p path pk = Ok pk'.
Proof.
  induction k as [|k IH]; intros k' p path pk pk' Hk H; [discriminate|].
  destruct k' as [|k']; [lia|]. cbn [ReqEmbed.eval bind] in *.
  destruct (fold_reqs (eval k) path (fst (walk p)) pk) as [pk1|e] eqn:Hf; [|discriminate].
  rewrite (fold_reqs_more (eval k) (eval k')) with (pk' := pk1); [exact H| |exact Hf].
  intros q qpath pk0 pk0' H0. apply (IH k'); [lia | exact H0].
Qed.

(* ---------- conversely, every run of the relation is computed, with enough fuel: the relation is
   exactly what the function computes ---------- *)
Lemma Run_complete :
  (forall p path pk new, Run p path pk new ->
     exists k, forall k', (k <= k')%nat -> eval k' p path pk = Ok (pk ++ new)) /\
  (forall path rs pk new, RunReqs path rs pk new ->
     exists k, forall k', (k <= k')%nat -> fold_reqs (eval k') path rs pk = Ok (pk ++ new)).
Proof.
  apply Run_both.
  - intros p path pk new _ [k Hk] Hw. exists (S k). intros k' Hle.
    destruct k' as [|k']; [lia|]. cbn [ReqEmbed.eval]. rewrite Hk by lia. cbn [bind]. rewrite Hw. reflexivity.
  - intros path pk. exists O. intros k' _. cbn. rewrite app_nil_r. reflexivity.
  - intros path n gl rest pk new Hc Hn _ [k Hk]. exists k. intros k' Hle.
    cbn [ReqEmbed.fold_reqs ReqEmbed.step bind]. rewrite Hc. cbn [bind].
    apply mem_name_In in Hn. rewrite Hn. cbn [bind]. apply Hk, Hle.
  - intros path n gl rest pk qpath q new1 new2 Hc Hn Hl _ [k1 Hk1] _ [k2 Hk2].
    exists (Nat.max k1 k2). intros k' Hle.
    cbn [ReqEmbed.fold_reqs ReqEmbed.step bind]. rewrite Hc. cbn [bind].
    apply mem_name_false in Hn. rewrite Hn, Hl. cbn [bind].
    rewrite Hk1 by lia. cbn [bind]. rewrite <- app_assoc. cbn [app].
    rewrite Hk2 by lia. rewrite <- app_assoc. reflexivity.
Qed.

Lemma eval_iff_Run p path pk pk' :
  (exists k, eval k p path pk = Ok pk') <-> (exists new, pk' = pk ++ new /\ Run p path pk new).
Proof.
  split.
  - intros [k H]. eapply eval_sound, H.
  - intros (new & -> & HR). destruct (proj1 Run_complete _ _ _ _ HR) as [k Hk].
    exists k. apply Hk. lia.
Qed.

(* ------------------------------------------------------------------------------------------
   The build as a whole *)
Lemma build_lua_inv fuel mp mc r pk :
  build_lua fuel mp mc = Ok (r, pk) ->
  exists m, parse_lines (file_lines mc) = Ok m /\ eval fuel m mp [] = Ok pk /\ prepend m pk = Ok r.
Proof.
  unfold ReqEmbed.build_lua. intros H.
  destruct (parse_lines (file_lines mc)) as [m|e]; [|discriminate]. cbn [bind] in H.
  destruct (eval fuel m mp []) as [pk0|e] eqn:He; [|discriminate]. cbn [bind] in H.
  destruct (prepend m pk0) as [r0|e] eqn:Hp; [|discriminate]. cbn [bind] in H.
  injection H as <- <-. exists m. auto.
Qed.

(* structure: what is handed to the final Lua.from_lines *)
Lemma build_structure fuel mp mc r pk :
  build_lua fuel mp mc = Ok (r, pk) ->
  exists m, parse_lines (file_lines mc) = Ok m /\ eval fuel m mp [] = Ok pk /\
    match pk with
    | [] => r = m
    | _ => parse_lines (preamble_package ++ flat_map block pk ++ preamble_require ++ echo m) = Ok r
    end.
Proof.
  intros H. destruct (build_lua_inv _ _ _ _ _ H) as (m & Hm & He & Hp).
  exists m. split; [exact Hm|]. split; [exact He|].
  unfold ReqEmbed.prepend in Hp. destruct pk; [injection Hp as <-; reflexivity | exact Hp].
Qed.

(* reachability through require(), over the packages of the table *)
Inductive reachable (m : P) (pk : pkgs) : bytes -> Prop :=
| reach_main n : In n (req_names m) -> reachable m pk n
| reach_pkg n0 q n : reachable m pk n0 -> In (n0, q) pk -> In n (req_names q) -> reachable m pk n.

Lemma In_req_names q n : In n (req_names q) <-> exists gl, In (n, gl) (fst (walk q)).
Proof.
  unfold req_names. rewrite in_map_iff. split.
  - intros ([n' gl] & E & H). cbn in E. subst. exists gl. exact H.
  - intros (gl & H). exists (n, gl). split; [reflexivity | exact H].
Qed.

Lemma closed_reachable m pk :
  node_ok (names pk) m -> Forall (fun e => node_ok (names pk) (snd e)) pk ->
  forall n, reachable m pk n -> In n (names pk).
Proof.
  intros Hm Hpk n H. induction H as [n Hn | n0 q n _ _ Hq Hn].
  - apply In_req_names in Hn. destruct Hn as (gl & Hn). apply (proj2 Hm) in Hn. apply Hn.
  - rewrite Forall_forall in Hpk. specialize (Hpk _ Hq). cbn in Hpk.
    apply In_req_names in Hn. destruct Hn as (gl & Hn). apply (proj2 Hpk) in Hn. apply Hn.
Qed.

Lemma disc_reachable m pk : forall new pre avail,
  pk = pre ++ new -> (forall n, In n avail -> reachable m pk n) -> disc avail new ->
  forall e, In e new -> reachable m pk (fst e).
Proof.
  induction new as [|e0 r IH]; intros pre avail Hpk Hav Hd e He; [destruct He|].
  destruct Hd as [H1 H2]. destruct He as [<-|He]; [apply Hav, H1|].
  apply (IH (pre ++ [e0]) (avail ++ req_names (snd e0))); auto.
  - rewrite <- app_assoc. exact Hpk.
  - intros n Hn. apply in_app_iff in Hn. destruct Hn as [Hn|Hn]; [auto|].
    apply (reach_pkg m pk (fst e0) (snd e0)); [apply Hav, H1 | | exact Hn].
    rewrite Hpk. apply in_or_app. right. left. destruct e0; reflexivity.
Qed.

(* once: distinct names, exactly the reachable ones, each after something that asked for it *)
Lemma build_once fuel mp mc r pk :
  build_lua fuel mp mc = Ok (r, pk) ->
  exists m, parse_lines (file_lines mc) = Ok m /\
    NoDup (names pk) /\
    (forall n, In n (names pk) <-> reachable m pk n) /\
    disc (req_names m) pk /\
    Forall loaded pk.
Proof.
  intros H. destruct (build_lua_inv _ _ _ _ _ H) as (m & Hm & He & _).
  destruct (eval_sound _ _ _ _ _ He) as (new & E & HR). cbn [app] in E. subst new.
  exists m. split; [exact Hm|].
  pose proof (proj1 Run_NoDup _ _ _ _ HR (NoDup_nil _)) as Hnd. cbn [app] in Hnd.
  pose proof (proj1 Run_nodes _ _ _ _ HR (names pk) (incl_refl _)) as [Hnm Hnp].
  pose proof (proj1 Run_disc _ _ _ _ HR (req_names m) (incl_refl _)) as Hd.
  pose proof (proj1 Run_loaded _ _ _ _ HR) as Hl.
  split; [exact Hnd|]. split; [|split; assumption].
  intros n. split.
  - intros Hn. unfold ReqEmbed.names in Hn. apply in_map_iff in Hn. destruct Hn as (e & <- & He').
    apply (disc_reachable m pk pk [] (req_names m)); auto. intros n' Hn'. constructor. exact Hn'.
  - apply closed_reachable; assumption.
Qed.

(* errors, stated on success: a build that succeeds met no walker exception (bad require arguments),
   no refused name and no missing file, in the main program and in every embedded package *)
Lemma build_no_errors fuel mp mc r pk :
  build_lua fuel mp mc = Ok (r, pk) ->
  exists m, parse_lines (file_lines mc) = Ok m /\
    forall q, (q = m \/ exists n, In (n, q) pk) ->
      snd (walk q) = None /\
      forall n gl, In (n, gl) (fst (walk q)) ->
        check_name n = Ok tt /\
        exists q' rpath gl' qpath, In (n, q') pk /\ load rpath n gl' = Ok (qpath, q').
Proof.
  intros H. destruct (build_lua_inv _ _ _ _ _ H) as (m & Hm & He & _).
  destruct (eval_sound _ _ _ _ _ He) as (new & E & HR). cbn [app] in E. subst new.
  exists m. split; [exact Hm|].
  pose proof (proj1 Run_nodes _ _ _ _ HR (names pk) (incl_refl _)) as [Hnm Hnp].
  pose proof (proj1 Run_loaded _ _ _ _ HR) as Hl. rewrite Forall_forall in Hl, Hnp.
  assert (Hq : forall q, (q = m \/ exists n, In (n, q) pk) -> node_ok (names pk) q).
  { intros q [->|(n & Hn)]; [exact Hnm|]. apply (Hnp _ Hn). }
  intros q Hq'. destruct (Hq q Hq') as [Hw Hr]. split; [exact Hw|].
  intros n gl Hn. destruct (Hr n gl Hn) as [Hc Hin]. split; [exact Hc|].
  unfold ReqEmbed.names in Hin. apply in_map_iff in Hin. destruct Hin as ([n' q'] & E & Hin).
  cbn in E. subst n'. destruct (Hl _ Hin) as (rpath & gl' & qpath & Hload).
  exists q', rpath, gl', qpath. split; assumption.
Qed.

(* errors, stated directly for the main program *)
Lemma build_fails_or_ok fuel mp mc :
  (exists e, build_lua fuel mp mc = Err e) \/ exists r pk, build_lua fuel mp mc = Ok (r, pk).
Proof. destruct (build_lua fuel mp mc) as [[r pk]|e]; [right; eauto | left; eauto]. Qed.

Lemma build_bad_arguments fuel mp mc m e :
  parse_lines (file_lines mc) = Ok m -> snd (walk m) = Some e ->
  exists e', build_lua fuel mp mc = Err e'.
Proof.
  intros Hm Hw. destruct (build_fails_or_ok fuel mp mc) as [H|(r & pk & H)]; [exact H|].
  destruct (build_no_errors _ _ _ _ _ H) as (m' & Hm' & Hall). rewrite Hm in Hm'. injection Hm' as <-.
  destruct (Hall m (or_introl eq_refl)) as [Hn _]. congruence.
Qed.

Lemma build_bad_name fuel mp mc m n gl e :
  parse_lines (file_lines mc) = Ok m -> In (n, gl) (fst (walk m)) -> check_name n = Err e ->
  exists e', build_lua fuel mp mc = Err e'.
Proof.
  intros Hm Hin Hc. destruct (build_fails_or_ok fuel mp mc) as [H|(r & pk & H)]; [exact H|].
  destruct (build_no_errors _ _ _ _ _ H) as (m' & Hm' & Hall). rewrite Hm in Hm'. injection Hm' as <-.
  destruct (Hall m (or_introl eq_refl)) as [_ Hr]. destruct (Hr _ _ Hin) as [Hc' _]. congruence.
Qed.

Lemma build_missing_file fuel mp mc m n gl :
  parse_lines (file_lines mc) = Ok m -> In (n, gl) (fst (walk m)) ->
  (forall rpath, find rpath n = None) ->
  exists e', build_lua fuel mp mc = Err e'.
Proof.
  intros Hm Hin Hf. destruct (build_fails_or_ok fuel mp mc) as [H|(r & pk & H)]; [exact H|].
  destruct (build_no_errors _ _ _ _ _ H) as (m' & Hm' & Hall). rewrite Hm in Hm'. injection Hm' as <-.
  destruct (Hall m (or_introl eq_refl)) as [_ Hr].
  destruct (Hr _ _ Hin) as [_ (q' & rpath & gl' & qpath & _ & Hl)].
  unfold ReqEmbed.load in Hl. rewrite Hf in Hl. discriminate.
Qed.

(* termination: with a universe U of require strings, |U| + 1 levels of recursion are enough, in
   the sense that no larger fuel changes the result (so a result Err OutOfFuel can then only come
   from the abstract lexer / parser / walker, never from the search) *)
Lemma build_fuel (U : list bytes) fuel fuel' mp mc :
  (forall rpath n gl qpath q, load rpath n gl = Ok (qpath, q) -> incl (req_names q) U) ->
  (forall m, parse_lines (file_lines mc) = Ok m -> incl (req_names m) U) ->
  (length U < fuel)%nat -> (fuel <= fuel')%nat ->
  build_lua fuel' mp mc = build_lua fuel mp mc.
Proof.
  intros HU Hm Hlen Hle. unfold ReqEmbed.build_lua.
  destruct (parse_lines (file_lines mc)) as [m|e] eqn:E; [|reflexivity]. cbn [bind].
  rewrite (eval_fuel U HU fuel fuel' m mp []); auto.
  - constructor.
  - intros x [].
  - cbn. lia.
Qed.

(* ---------- the bytes of the result, for a lexer whose echo is faithful ---------- *)
Section Bytes.
Hypothesis echo_faithful : forall ls q, parse_lines ls = Ok q -> concat (echo q) = concat ls.
Hypothesis file_lines_concat : forall c, concat (file_lines c) = c.

Lemma concat_flat_map {A B} (f : A -> list (list B)) l :
  concat (flat_map f l) = concat (map (fun x => concat (f x)) l).
Proof. induction l as [|x l IH]; [reflexivity|]. cbn. rewrite concat_app, IH. reflexivity. Qed.

Lemma build_code_bytes fuel mp mc out :
  build_code fuel mp mc = Ok out ->
  exists r pk tail, build_lua fuel mp mc = Ok (r, pk) /\ (tail = [] \/ tail = [10]) /\
    out = match pk with
          | [] => mc
          | _ => concat preamble_package ++ concat (map (fun e => concat (block e)) pk)
                 ++ concat preamble_require ++ mc
          end ++ tail.
Proof.
  unfold ReqEmbed.build_code. intros H.
  destruct (build_lua fuel mp mc) as [[r pk]|e] eqn:Hb; [|discriminate]. cbn [bind] in H.
  unfold ReqEmbed.lua_section in H.
  destruct (parse_lines (echo r)) as [r2|e]; [|discriminate]. cbn [bind] in H. injection H as <-.
  destruct (build_structure _ _ _ _ _ Hb) as (m & Hm & He & Hs).
  pose proof (echo_faithful _ _ Hm) as Em. rewrite file_lines_concat in Em.
  exists r, pk, (if ends_with_nl (last (echo r) []) then [] else [10]).
  split; [reflexivity|]. split; [destruct (ends_with_nl _); auto|].
  f_equal. destruct pk as [|e0 pk0].
  - subst r. exact Em.
  - rewrite (echo_faithful _ _ Hs). rewrite !concat_app. f_equal. f_equal; [apply concat_flat_map | f_equal; exact Em].
Qed.

(* a package required with {use_game_loop=true} is embedded byte for byte *)
Lemma block_of_unstripped rpath n qpath q :
  load rpath n true = Ok (qpath, q) ->
  exists content, find rpath n = Some (qpath, content) /\ concat (echo q) = content.
Proof.
  unfold ReqEmbed.load. destruct (find rpath n) as [[path content]|]; [|discriminate].
  destruct (parse_lines (file_lines content)) as [q0|e] eqn:Hq; [|discriminate]. cbn [bind].
  intros H. injection H as <- <-. exists content. split; [reflexivity|].
  rewrite (echo_faithful _ _ Hq). apply file_lines_concat.
Qed.
End Bytes.

(* ---------- the significant tokens of the result, for a reference tokenizer with the chunking
   property (the token-level clause of C14, relative to hypotheses about the lexer stack) ---------- *)
Lemma concat_flat_map' {A B} (f : A -> list (list B)) l :
  concat (flat_map f l) = concat (map (fun x => concat (f x)) l).
Proof. induction l as [|x l IH]; [reflexivity|]. cbn. rewrite concat_app, IH. reflexivity. Qed.

Section Tokens.
Variable T : Type.
Variable sigt : bytes -> option (list T).      (* the significant tokens of a text, if it lexes *)
(* a text that ends in a newline lexes independently of what follows it *)
Hypothesis chunking : forall a b ta tb,
  ends_with_nl a = true -> sigt a = Some ta -> sigt b = Some tb -> sigt (a ++ b) = Some (ta ++ tb).
(* a newline at the very end adds no significant token *)
Hypothesis final_nl : forall a ta, sigt a = Some ta -> sigt (a ++ [10]) = Some ta.
Hypothesis sigt_nil : sigt [] = Some [].
(* the echo of a lexed text of the dialect has the text's significant tokens (quoted strings may be
   spelled differently, with the same denotation: this is what C06 states) *)
(* ... for the line lists [good] singles out (e.g. lines that end in a line feed, made of bytes) *)
Variable good : list bytes -> Prop.
Hypothesis echo_tokens : forall ls q t, good ls -> parse_lines ls = Ok q -> sigt (concat ls) = Some t ->
  sigt (concat (echo q)) = Some t.
Hypothesis file_lines_concat : forall c, concat (file_lines c) = c.

Definition toks (x : bytes) : list T := match sigt x with Some t => t | None => [] end.
Definition lexes (x : bytes) : Prop := sigt x <> None.

Lemma lexes_toks x : lexes x -> sigt x = Some (toks x).
Proof. unfold lexes, toks. destruct (sigt x); [reflexivity | congruence]. Qed.

(* chunks that are empty or end in a newline, followed by a last text *)
Lemma sigt_chunks (cs : list bytes) (z : bytes) :
  Forall (fun c => (c = [] \/ ends_with_nl c = true) /\ lexes c) cs -> lexes z ->
  sigt (concat cs ++ z) = Some (concat (map toks cs) ++ toks z).
Proof.
  intros Hcs Hz. induction Hcs as [|c cs [Hc Hl] _ IH]; [apply lexes_toks, Hz|].
  cbn [concat map]. rewrite <- !app_assoc. destruct Hc as [->|Hc].
  - cbn [app]. unfold toks at 1. rewrite sigt_nil. exact IH.
  - apply chunking; [exact Hc | apply lexes_toks, Hl | exact IH].
Qed.

Lemma ends_with_nl_concat_last (ls : list bytes) d :
  ls <> [] -> ends_with_nl (last ls d) = true -> ends_with_nl (concat ls) = true.
Proof.
  induction ls as [|l ls IH]; [congruence|]. intros _ H. destruct ls as [|l2 ls].
  - cbn in *. rewrite app_nil_r. exact H.
  - change (last (l :: l2 :: ls) d) with (last (l2 :: ls) d) in H.
    assert (IH' : ends_with_nl (concat (l2 :: ls)) = true) by (apply IH; [discriminate | exact H]).
    change (concat (l :: l2 :: ls)) with (l ++ concat (l2 :: ls)).
    rewrite ends_with_nl_app; [exact IH'|]. intros E. rewrite E in IH'. discriminate.
Qed.

(* the bytes a block puts between its header line and its `end` line *)
Definition block_body (e : bytes * P) : bytes :=
  concat (echo (snd e)) ++
  (if ends_with_nl (last (echo (snd e)) (header_line (fst e))) then [] else nl_line).

Lemma block_concat e :
  concat (block e) = header_line (fst e) ++ block_body e ++ end_line.
Proof.
  unfold ReqEmbed.block, block_body. cbn [concat]. rewrite !concat_app.
  destruct (ends_with_nl _); cbn [concat]; rewrite ?app_nil_r, <- ?app_assoc; reflexivity.
Qed.

Hypothesis nl_line_is_nl : nl_line = [10].
Hypothesis header_nl : forall n, ends_with_nl (header_line n) = true.
Hypothesis end_line_nl : ends_with_nl end_line = true.
Hypothesis preamble_package_nl : Forall (fun l => ends_with_nl l = true) preamble_package.
Hypothesis preamble_require_nl : Forall (fun l => ends_with_nl l = true) preamble_require.

Lemma block_body_chunk e :
  lexes (concat (echo (snd e))) ->
  (block_body e = [] \/ ends_with_nl (block_body e) = true) /\ lexes (block_body e) /\
  toks (block_body e) = toks (concat (echo (snd e))).
Proof.
  intros Hl. unfold block_body.
  destruct (ends_with_nl (last (echo (snd e)) (header_line (fst e)))) eqn:E.
  - rewrite app_nil_r. split; [|split; [exact Hl | reflexivity]].
    destruct (echo (snd e)) as [|l ls] eqn:Ee; [left; reflexivity|].
    right. apply (ends_with_nl_concat_last (l :: ls) (header_line (fst e))); [discriminate | exact E].
  - rewrite nl_line_is_nl. split; [right; apply ends_with_nl_app; discriminate|].
    pose proof (final_nl _ _ (lexes_toks _ Hl)) as H.
    split; [unfold lexes; rewrite H; discriminate|]. unfold toks at 1. rewrite H. reflexivity.
Qed.

Definition block_toks (e : bytes * P) : list T :=
  toks (header_line (fst e)) ++ toks (concat (echo (snd e))) ++ toks end_line.

Definition block_chunks (e : bytes * P) : list bytes := [header_line (fst e); block_body e; end_line].

Lemma blocks_bytes pk :
  concat (map (fun e => concat (block e)) pk) = concat (flat_map block_chunks pk).
Proof.
  induction pk as [|e pk IH]; [reflexivity|]. cbn [map concat flat_map].
  rewrite concat_app, block_concat, IH. unfold block_chunks. cbn [concat]. rewrite app_nil_r, <- !app_assoc.
  reflexivity.
Qed.

Definition block_lexes (e : bytes * P) : Prop :=
  lexes (header_line (fst e)) /\ lexes (concat (echo (snd e))).

Lemma blocks_toks pk : Forall block_lexes pk ->
  concat (map toks (flat_map block_chunks pk)) = concat (map block_toks pk).
Proof.
  intros H. induction H as [|e pk [Hh Hbd] _ IH]; [reflexivity|]. cbn [map concat flat_map].
  rewrite map_app, concat_app, IH. unfold block_toks, block_chunks. cbn [map concat].
  rewrite (proj2 (proj2 (block_body_chunk e Hbd))). rewrite app_nil_r, <- !app_assoc.
  reflexivity.
Qed.

Lemma blocks_chunks_ok pk : Forall block_lexes pk -> lexes end_line ->
  Forall (fun c => (c = [] \/ ends_with_nl c = true) /\ lexes c) (flat_map block_chunks pk).
Proof.
  intros H Hend. induction H as [|e pk [Hh Hbd] _ IH]; [constructor|]. cbn [flat_map]. unfold block_chunks at 1.
  destruct (block_body_chunk e Hbd) as (Hc & Hl & _). cbn [app].
  constructor; [split; [right; apply header_nl | exact Hh]|].
  constructor; [split; assumption|].
  constructor; [split; [right; exact end_line_nl | exact Hend]|]. exact IH.
Qed.

Lemma build_code_tokens fuel mp mc out :
  build_code fuel mp mc = Ok out ->
  exists r pk, build_lua fuel mp mc = Ok (r, pk) /\
    (Forall lexes preamble_package -> Forall lexes preamble_require -> lexes end_line ->
     Forall block_lexes pk -> lexes mc ->
     good (file_lines mc) ->
     (forall m, parse_lines (file_lines mc) = Ok m -> good (prepend_lines m pk)) ->
     sigt out = Some match pk with
                     | [] => toks mc
                     | _ => concat (map toks preamble_package) ++ concat (map block_toks pk)
                            ++ concat (map toks preamble_require) ++ toks mc
                     end).
Proof.
  unfold ReqEmbed.build_code. intros H.
  destruct (build_lua fuel mp mc) as [[r pk]|e] eqn:Hb; [|discriminate]. cbn [bind] in H.
  unfold ReqEmbed.lua_section in H.
  destruct (parse_lines (echo r)) as [r2|e]; [|discriminate]. cbn [bind] in H. injection H as <-.
  exists r, pk. split; [reflexivity|]. intros Hpp Hpr Hend Hpk Hmc Hg1 Hg2.
  destruct (build_structure _ _ _ _ _ Hb) as (m & Hm & He & Hs). specialize (Hg2 m Hm). unfold ReqEmbed.prepend_lines in Hg2.
  assert (Em : sigt (concat (echo m)) = Some (toks mc)).
  { apply (echo_tokens _ _ _ Hg1 Hm). rewrite file_lines_concat. apply lexes_toks, Hmc. }
  assert (Hmain : forall x tx, sigt x = Some tx ->
            sigt (x ++ (if ends_with_nl (last (echo r) []) then [] else [10])) = Some tx).
  { intros x tx Hx. destruct (ends_with_nl (last (echo r) [])); [rewrite app_nil_r; exact Hx | apply final_nl, Hx]. }
  apply Hmain. destruct pk as [|e0 pk0].
  - subst r. exact Em.
  - apply (echo_tokens _ _ _ Hg2 Hs). remember (e0 :: pk0) as pk eqn:Epk. clear Epk Hb Hs He Hg2.
    assert (Hz : lexes (concat (echo m))) by (unfold lexes; rewrite Em; discriminate).
    assert (Tz : toks (concat (echo m)) = toks mc) by (unfold toks at 1; rewrite Em; reflexivity).
    replace (concat (preamble_package ++ flat_map block pk ++ preamble_require ++ echo m))
      with (concat (preamble_package ++ flat_map block_chunks pk ++ preamble_require) ++ concat (echo m)).
    2:{ rewrite !concat_app, <- !app_assoc. f_equal. f_equal.
        rewrite <- blocks_bytes. symmetry. apply concat_flat_map'. }
    rewrite sigt_chunks; [| |exact Hz].
    + rewrite !map_app, !concat_app, <- !app_assoc, (blocks_toks pk Hpk), Tz. reflexivity.
    + apply Forall_app. split; [|apply Forall_app; split].
      * rewrite Forall_forall in *. intros l Hl. split; [right; apply preamble_package_nl, Hl | apply Hpp, Hl].
      * apply blocks_chunks_ok; assumption.
      * rewrite Forall_forall in *. intros l Hl. split; [right; apply preamble_require_nl, Hl | apply Hpr, Hl].
Qed.

(* the tokens of one embedded package, for a stripping step that acts on the significant tokens as
   [sstrip] does: the file's tokens, or the file's tokens without what [sstrip] removes *)
Section Strip.
Variable sstrip : list T -> list T.
Hypothesis strip_tokens : forall q q', strip q = Ok q' ->
  sigt (concat (echo q')) = option_map sstrip (sigt (concat (echo q))).

Lemma loaded_block_tokens e : loaded e ->
  exists rpath (gl : bool) qpath content, find rpath (fst e) = Some (qpath, content) /\
    (lexes content -> good (file_lines content) ->
     lexes (concat (echo (snd e))) /\
     toks (concat (echo (snd e))) = if gl then toks content else sstrip (toks content)).
Proof.
  intros (rpath & gl & qpath & Hl). exists rpath, gl.
  unfold ReqEmbed.load in Hl. destruct (find rpath (fst e)) as [[path content]|]; [|discriminate].
  destruct (parse_lines (file_lines content)) as [q0|e0] eqn:Hq; [|discriminate]. cbn [bind] in Hl.
  assert (E0 : lexes content -> good (file_lines content) -> sigt (concat (echo q0)) = Some (toks content)).
  { intros Hc Hg. apply (echo_tokens _ _ _ Hg Hq). rewrite file_lines_concat. apply lexes_toks, Hc. }
  exists path, content. destruct gl.
  - cbn [bind] in Hl. injection Hl as <- <-. split; [reflexivity|]. intros Hc Hg. specialize (E0 Hc Hg).
    split; [unfold lexes; rewrite E0; discriminate | unfold toks at 1; rewrite E0; reflexivity].
  - destruct (strip q0) as [q1|e1] eqn:Hs; [|discriminate]. cbn [bind] in Hl. injection Hl as <- <-.
    split; [reflexivity|]. intros Hc Hg. specialize (E0 Hc Hg). pose proof (strip_tokens _ _ Hs) as H. rewrite E0 in H.
    cbn [option_map] in H.
    split; [unfold lexes; rewrite H; discriminate | unfold toks at 1; rewrite H; reflexivity].
Qed.

Lemma build_block_tokens fuel mp mc r pk :
  build_lua fuel mp mc = Ok (r, pk) ->
  Forall (fun e => exists rpath (gl : bool) qpath content, find rpath (fst e) = Some (qpath, content) /\
            (lexes content -> good (file_lines content) ->
             lexes (concat (echo (snd e))) /\
             toks (concat (echo (snd e))) = if gl then toks content else sstrip (toks content))) pk.
Proof.
  intros H. destruct (build_once _ _ _ _ _ H) as (m & _ & _ & _ & _ & Hl).
  eapply Forall_impl; [|exact Hl]. intros e. apply loaded_block_tokens.
Qed.
End Strip.
End Tokens.
End EmbedProofs.
