(* Corollaries of Proofs/ParserSpecs.v in the form used by Properties/C08.v, for the parser instantiated
   with the regenerated operator tables (Model/ParserInst.v); pins of the node class table. *)
From PV Require Import Base.Prelude Spec.LuaTokens Spec.LuaGrammar Generated.T_parser Model.Tokens Model.Parser
  Model.ParserInst Proofs.ParserProofs Proofs.ParserSpecs.
From Coq Require Import ZifyBool.
Ltac Zify.zify_post_hook ::= Z.to_euclidean_division_equations.

(* ---- regenerated side conditions: no operator pattern is a white-space / comment pattern ---- *)
Lemma lua_binops_nontrivia : forallb pat_nontrivia lua_binops = true.
Proof. vm_compute. reflexivity. Qed.
Lemma lua_unops_nontrivia : forallb pat_nontrivia lua_unops = true.
Proof. vm_compute. reflexivity. Qed.

(* the class indices used by the model are the positions in parser._ast_node_types, with the same arities *)
Lemma pin_node_class_names : map fst ast_node_types = node_class_names.
Proof. vm_compute. reflexivity. Qed.
Lemma pin_node_class_arity : map (fun r => zlen (snd r)) ast_node_types = node_class_arity.
Proof. vm_compute. reflexivity. Qed.

Lemma lua_parse_spec ts :
  match lua_parse ts with
  | Ok (root, e) => 0 <= e <= zlen ts /\ leaves root = sig ts 0 e /\ wf ts e root /\
                    exists fs, root = Node tChunk 0 e false [Lst fs]
  | Err err => err <> OutOfFuel
  end.
Proof. apply parse_spec; [exact lua_binops_nontrivia | exact lua_unops_nontrivia]. Qed.

(* ---- positions ---- *)
Lemma wf_ranges_ok ts t : forall hi, wf ts hi t -> ranges_ok hi t = true.
Proof.
  induction t as [tag s e sh fs IH| | l IH| | | | |i j x IH|x IH] using tree_ind'; intros hi H; try reflexivity.
  - apply wf_node_inv in H. destruct H as (H1 & H2 & H3 & _). cbn [ranges_ok].
    apply andb_true_iff. split; [apply andb_true_iff; split; lia|].
    induction IH as [|x r Hx Hr IH2]; [reflexivity|]. cbn [forallb wfl] in *.
    apply andb_true_iff. split; [apply Hx, H3 | apply IH2, H3].
  - apply wf_lst_inv in H. cbn [ranges_ok].
    induction IH as [|x r Hx Hr IH2]; [reflexivity|]. cbn [forallb wfl] in *.
    apply andb_true_iff. split; [apply Hx, H | apply IH2, H].
  - cbn [ranges_ok wf] in *. apply IH, H.
  - cbn [ranges_ok wf] in *. apply IH, H.
Qed.

(* ---- every node of a tree ---- *)
Fixpoint nodes (t : tree) : list tree :=
  match t with
  | Node _ _ _ _ fs => t :: flat_map nodes fs
  | Lst l => flat_map nodes l
  | Paren _ _ x => nodes x
  | Hid x => nodes x
  | _ => []
  end.

Lemma wf_nodes ts t : forall hi, wf ts hi t ->
  forall tag s e sh fs, In (Node tag s e sh fs) (nodes t) -> s <= e /\ e <= hi /\ fence_cond ts tag sh e fs.
Proof.
  induction t as [tag0 s0 e0 sh0 fs0 IH| | l IH| | | | |i j x IH|x IH] using tree_ind';
    intros hi H tag s e sh fs Hin; cbn [nodes] in Hin; try contradiction.
  - apply wf_node_inv in H. destruct H as (H1 & H2 & H3 & H4). destruct Hin as [Heq|Hin].
    + injection Heq as <- <- <- <- <-. repeat split; assumption.
    + apply in_flat_map in Hin. destruct Hin as (x & Hx & Hin).
      assert (Hw : wf ts e0 x).
      { clear -H3 Hx. induction fs0 as [|y r IHr]; [contradiction|]. cbn [wfl] in H3.
        destruct Hx as [->|Hx]; [apply H3 | apply IHr; [apply H3 | exact Hx]]. }
      rewrite Forall_forall in IH. destruct (IH x Hx e0 Hw _ _ _ _ _ Hin) as (Ha & Hb & Hc).
      repeat split; try assumption. lia.
  - apply wf_lst_inv in H. apply in_flat_map in Hin. destruct Hin as (x & Hx & Hin).
    assert (Hw : wf ts hi x).
    { clear -H Hx. induction l as [|y r IHr]; [contradiction|]. cbn [wfl] in H.
      destruct Hx as [->|Hx]; [apply H | apply IHr; [apply H | exact Hx]]. }
    rewrite Forall_forall in IH. exact (IH x Hx hi Hw _ _ _ _ _ Hin).
  - cbn [wf] in H. exact (IH hi H _ _ _ _ _ Hin).
  - cbn [wf] in H. exact (IH hi H _ _ _ _ _ Hin).
Qed.

(* ---- source order ---- *)
Lemma increasing_filter_zrange (f : Z -> bool) n : forall a,
  increasing (filter f (zrange a n)) = true /\ (forall x, In x (filter f (zrange a n)) -> a <= x).
Proof.
  induction n as [|n IH]; intros a; cbn [zrange filter]; [split; [reflexivity | intros x []]|].
  destruct (IH (a + 1)) as [H1 H2]. destruct (f a).
  - split.
    + cbn [increasing]. destruct (filter f (zrange (a + 1) n)) as [|b r] eqn:E; [reflexivity|].
      apply andb_true_iff. split; [|exact H1]. specialize (H2 b (or_introl eq_refl)). lia.
    + intros x [<-|Hx]; [lia | specialize (H2 x Hx); lia].
  - split; [exact H1 | intros x Hx; specialize (H2 x Hx); lia].
Qed.

Lemma increasing_sig ts a b : increasing (sig ts a b) = true.
Proof. unfold sig. apply increasing_filter_zrange. Qed.
