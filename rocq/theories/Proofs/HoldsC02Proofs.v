(* Soundness and completeness of the executable instance predicate holds_C02
   (Instances/HoldsC02.v, tries keyed by byte strings) with respect to the Prop C02_spec, and the
   theorem that the model of MinifyNameFactory satisfies it for every request sequence. *)
From PV Require Import Base.Prelude Instances.HoldsC02.
From PV Require Import Generated.T_luanames Generated.T_lexer Model.NameFactory Proofs.NameFactoryProofs.

(* ---------- tries ---------- *)
Lemma find_set_same c t kids : find_kid c (set_kid c t kids) = Some t.
Proof.
  induction kids as [|[c' t'] r IH]; cbn [set_kid find_kid].
  - rewrite Z.eqb_refl. reflexivity.
  - destruct (c' =? c) eqn:E; cbn [find_kid].
    + rewrite Z.eqb_refl. reflexivity.
    + rewrite E. exact IH.
Qed.

Lemma find_set_other c c' t kids : c <> c' -> find_kid c' (set_kid c t kids) = find_kid c' kids.
Proof.
  intros Hne. induction kids as [|[c0 t0] r IH]; cbn [set_kid find_kid].
  - destruct (c =? c') eqn:E; [apply Z.eqb_eq in E; contradiction | reflexivity].
  - destruct (c0 =? c) eqn:E; cbn [find_kid].
    + apply Z.eqb_eq in E. subst c0.
      destruct (c =? c') eqn:E'; [apply Z.eqb_eq in E'; contradiction | reflexivity].
    + destruct (c0 =? c'); [reflexivity | exact IH].
Qed.

Lemma tlookup_tempty k : tlookup k tempty = None.
Proof. destruct k; reflexivity. Qed.

Lemma tlookup_tinsert_same k v : forall t, tlookup k (tinsert k v t) = Some v.
Proof.
  induction k as [|c k IH]; intros t; cbn [tinsert tlookup tval tkids]; [reflexivity|].
  rewrite find_set_same. apply IH.
Qed.

Lemma tlookup_tinsert_other k v : forall k' t, k <> k' -> tlookup k' (tinsert k v t) = tlookup k' t.
Proof.
  induction k as [|c k IH]; intros [|c' k'] t Hne; cbn [tinsert tlookup tval tkids];
    try reflexivity; [congruence|].
  destruct (Z.eq_dec c c') as [<-|Hc].
  - rewrite find_set_same. rewrite IH by congruence.
    destruct (find_kid c (tkids t)); [reflexivity | apply tlookup_tempty].
  - rewrite find_set_other by exact Hc. reflexivity.
Qed.

Definition bytes_eq_dec : forall a b : list Z, {a = b} + {a <> b} := list_eq_dec Z.eq_dec.

Lemma tmem_tset_from l n : forall t0,
  tmem n (fold_left (fun t x => tinsert x [] t) l t0) = true <-> In n l \/ tmem n t0 = true.
Proof.
  induction l as [|x r IH]; intros t0; cbn [fold_left In].
  - tauto.
  - rewrite IH. unfold tmem. destruct (bytes_eq_dec x n) as [->|Hne].
    + rewrite tlookup_tinsert_same. tauto.
    + rewrite tlookup_tinsert_other by exact Hne. tauto.
Qed.

Lemma tmem_tset l n : tmem n (tset l) = true <-> In n l.
Proof.
  unfold tset. rewrite tmem_tset_from. unfold tmem. rewrite tlookup_tempty.
  split; [intros [H|H]; [exact H | discriminate] | tauto].
Qed.

Lemma tmem_tset_false l n : tmem n (tset l) = false <-> ~ In n l.
Proof. rewrite <- tmem_tset. destruct (tmem n (tset l)); split; intros H; congruence. Qed.

(* ---------- functional ---------- *)
Definition fun_rel (m : trie) (pairs : list (list Z * list Z)) : Prop :=
  (forall a b b', In (a, b) pairs -> tlookup a m = Some b' -> b = b') /\
  (forall a b b', In (a, b) pairs -> In (a, b') pairs -> b = b').

Lemma functional_from_iff pairs : forall m, functional_from m pairs = true <-> fun_rel m pairs.
Proof.
  induction pairs as [|[a b] r IH]; intros m; cbn [functional_from].
  - split; [intros _; split; intros ? ? ? [] | reflexivity].
  - destruct (tlookup a m) as [b0|] eqn:El.
    + rewrite andb_true_iff, zlist_eqb_eq, IH. split.
      * intros (-> & H1 & H2). split.
        -- intros x y y' [E|Hin] Hl; [injection E as <- <-; congruence | eapply H1; eassumption].
        -- intros x y y' [E|Hin] [E'|Hin'].
           ++ congruence.
           ++ injection E as <- <-. symmetry. eapply H1; eassumption.
           ++ injection E' as <- <-. eapply H1; eassumption.
           ++ eapply H2; eassumption.
      * intros (H1 & H2). split; [eapply H1; [left; reflexivity | exact El]|]. split.
        -- intros x y y' Hin. apply H1. right. exact Hin.
        -- intros x y y' Hin Hin'. eapply H2; right; eassumption.
    + rewrite IH. split.
      * intros (H1 & H2). split.
        -- intros x y y' [E|Hin] Hl; [injection E as <- <-; congruence|].
           destruct (bytes_eq_dec a x) as [<-|Hne]; [congruence|].
           eapply H1; [exact Hin|]. rewrite tlookup_tinsert_other by exact Hne. exact Hl.
        -- intros x y y' [E|Hin] [E'|Hin'].
           ++ congruence.
           ++ injection E as <- <-. symmetry. eapply H1; [exact Hin'|]. apply tlookup_tinsert_same.
           ++ injection E' as <- <-. eapply H1; [exact Hin|]. apply tlookup_tinsert_same.
           ++ eapply H2; eassumption.
      * intros (H1 & H2). split.
        -- intros x y y' Hin Hl. destruct (bytes_eq_dec a x) as [<-|Hne].
           ++ rewrite tlookup_tinsert_same in Hl. injection Hl as <-.
              eapply H2; [right; exact Hin | left; reflexivity].
           ++ rewrite tlookup_tinsert_other in Hl by exact Hne. eapply H1; [right; exact Hin | exact Hl].
        -- intros x y y' Hin Hin'. eapply H2; right; eassumption.
Qed.

Lemma functional_iff pairs :
  functional pairs = true <-> (forall a b b', In (a, b) pairs -> In (a, b') pairs -> b = b').
Proof.
  unfold functional. rewrite functional_from_iff. unfold fun_rel. split; [intros [_ H]; exact H|].
  intros H. split; [|exact H]. intros a b b' _ Hl. rewrite tlookup_tempty in Hl. discriminate.
Qed.

Lemma in_combine_swap {A C} (l1 : list A) (l2 : list C) a b :
  In (a, b) (combine l1 l2) <-> In (b, a) (combine l2 l1).
Proof.
  revert l2. induction l1 as [|x r IH]; intros [|y s]; cbn [combine In]; try tauto.
  rewrite IH. split; (intros [E|H]; [left; congruence | right; exact H]).
Qed.

Lemma same_length_iff {A C} (a : list A) (b : list C) : same_length a b = true <-> length b = length a.
Proof.
  revert b. induction a as [|x r IH]; intros [|y s]; cbn [same_length length];
    try (split; [reflexivity | reflexivity]); try (split; discriminate).
  rewrite IH. split; [intros ->; reflexivity | intros [= H]; exact H].
Qed.

(* ---------- holds_C02 <-> C02_spec ---------- *)
Section Obs.
Variable keep_all : bool.
Variables keep reserved names outs : list (list Z).

Lemma kept_in_iff n :
  kept_in keep_all (tset reserved) (tset keep) n = true <-> obs_kept keep_all keep reserved n.
Proof.
  unfold kept_in, obs_kept. rewrite !orb_true_iff, !tmem_tset. tauto.
Qed.

Lemma kept_in_false n :
  kept_in keep_all (tset reserved) (tset keep) n = false <-> ~ obs_kept keep_all keep reserved n.
Proof. rewrite <- kept_in_iff. destruct (kept_in _ _ _ n); split; intros H; congruence. Qed.

Lemma holds_consistent_iff : holds_consistent names outs = true <-> spec_consistent names outs.
Proof. unfold holds_consistent, spec_consistent, written. apply functional_iff. Qed.

Lemma holds_injective_iff : holds_injective names outs = true <-> spec_injective names outs.
Proof.
  unfold holds_injective, spec_injective, written. rewrite functional_iff. split.
  - intros H n1 n2 o H1 H2. apply in_combine_swap in H1, H2. eapply H; eassumption.
  - intros H o n1 n2 H1 H2. apply in_combine_swap in H1, H2. eapply H; eassumption.
Qed.

Lemma holds_kept_iff :
  holds_kept keep_all keep reserved names outs = true <-> spec_kept keep_all keep reserved names outs.
Proof.
  unfold holds_kept, spec_kept, written. rewrite forallb_forall. split.
  - intros H n o Hin Hk. specialize (H (n, o) Hin). cbn [fst snd] in H.
    apply kept_in_iff in Hk. rewrite Hk in H. cbn [negb orb] in H. apply zlist_eqb_eq in H. exact H.
  - intros H [n o] Hin. cbn [fst snd].
    destruct (kept_in keep_all (tset reserved) (tset keep) n) eqn:E; cbn [negb orb]; [|reflexivity].
    apply zlist_eqb_eq. apply H; [exact Hin | apply kept_in_iff, E].
Qed.

Lemma holds_fresh_iff :
  holds_fresh keep_all keep reserved names outs = true <-> spec_fresh keep_all keep reserved names outs.
Proof.
  unfold holds_fresh, spec_fresh, written. rewrite forallb_forall. split.
  - intros H n o Hin Hk. specialize (H (n, o) Hin). cbn [fst snd] in H.
    apply kept_in_false in Hk. rewrite Hk in H. cbn [orb] in H.
    apply andb_true_iff in H. destruct H as [H H3]. apply andb_true_iff in H. destruct H as [H1 H2].
    apply negb_true_iff in H1, H2. apply tmem_tset_false in H1, H2. tauto.
  - intros H [n o] Hin. cbn [fst snd].
    destruct (kept_in keep_all (tset reserved) (tset keep) n) eqn:E; cbn [orb]; [reflexivity|].
    apply kept_in_false in E. destruct (H n o Hin E) as (H1 & H2 & H3).
    apply tmem_tset_false in H1, H2. rewrite H1, H2, H3. reflexivity.
Qed.

Lemma holds_C02_iff :
  holds_C02 keep_all keep reserved names outs = true <-> C02_spec keep_all keep reserved names outs.
Proof.
  unfold holds_C02, C02_spec, holds_length, spec_length.
  rewrite !andb_true_iff, same_length_iff, holds_consistent_iff, holds_injective_iff,
    holds_kept_iff, holds_fresh_iff. tauto.
Qed.
End Obs.

(* ---------- the model satisfies the instance predicate, for every request sequence ---------- *)
Lemma obs_kept_is_kept cfg n :
  obs_kept (keep_all cfg) (keep_list cfg) preserved_names n <-> is_kept cfg n.
Proof.
  unfold obs_kept, is_kept, keep_list. rewrite preserved_spec.
  destruct (names_to_keep cfg) as [ks|]; split.
  - intros [H|[[H|H]|H]]; auto. right. right. right. exists ks. auto.
  - intros [H|[H|[H|(ks' & [= <-] & H)]]]; auto.
  - intros [H|[[H|H]|[]]]; auto.
  - intros [H|[H|[H|(ks' & E & _)]]]; auto. discriminate.
Qed.

Lemma is_name_of_ident n : n <> [] -> Forall (fun c => ident_start c = true) n -> is_name n = true.
Proof.
  intros Hne Hall. destruct n as [|c r]; [congruence|]. inversion Hall as [|? ? Hc Hr]; subst.
  cbn [is_name]. change (name_start c) with (ident_start c). rewrite Hc. cbn [andb].
  apply forallb_forall. intros x Hx. rewrite Forall_forall in Hr. unfold name_char.
  change (name_start x) with (ident_start x). rewrite (Hr x Hx). reflexivity.
Qed.

Lemma model_satisfies_spec cfg names outs : run_factory cfg names = Ok outs ->
  C02_spec (keep_all cfg) (keep_list cfg) preserved_names names outs.
Proof.
  intros H. pose proof H as Hst. apply run_factory_st_of in Hst. destruct Hst as (st' & Hst).
  split; [|split; [|split; [|split]]].
  - apply run_factory_st_spec in Hst. apply Hst.
  - intros n o1 o2. apply (consistent _ _ _ _ _ _ H).
  - intros n1 n2 o. apply (injective _ _ _ H).
  - intros n o Hw Hk. apply obs_kept_is_kept in Hk. exact (kept_unchanged _ _ _ _ _ H Hw Hk).
  - intros n o Hw Hk. rewrite obs_kept_is_kept in Hk.
    destruct (generated_not_preserved _ _ _ _ _ _ Hst Hw Hk) as (H1 & H2 & H3 & id & Hid & Hn).
    split; [|split].
    + rewrite preserved_spec. tauto.
    + unfold keep_list. destruct (names_to_keep cfg) as [ks|] eqn:E; [exact (H3 ks eq_refl) | intros []].
    + destruct (name_for_id_identifier id o) as (Hne & Hall); [lia | exact Hn|].
      apply is_name_of_ident; assumption.
Qed.

Lemma model_satisfies_holds cfg names outs : run_factory cfg names = Ok outs ->
  holds_C02 (keep_all cfg) (keep_list cfg) preserved_names names outs = true.
Proof. intros H. apply holds_C02_iff, model_satisfies_spec, H. Qed.
