(* Statement extents of the parser model, part 1: block depth of token sequences.

   The reference description of "top-level game-loop function definitions" (Spec/RequireSpec.strip_from) scans the
   significant tokens with a block depth (function / do / then / repeat open, end / until / elseif close).  Here the
   same scan is defined on the parser model's tokens:

     scan chk l d pl = Some d'   the depth never becomes negative along l, starting at d it ends at d', l does not
                                 end in `local` and - if chk - no token of l at depth 0 starts what strip_from takes
                                 for a game-loop definition (`function` <game-loop name> `(`, not after `local`); a
                                 `function` whose next two tokens are not both inside l counts as a start unless the one
                                 that is inside is not a name (so that the scan of l1 ++ l2 is the scan of l1, then of l2)
     seg a b                     the significant tokens with indices in [a, b)

   Part 2 shows, by one specification per parse function, what the scan of the tokens consumed by that function is. *)
From PV Require Import Base.Prelude Spec.LuaTokens Spec.LuaGrammar Model.Tokens Model.Parser Proofs.ParserProofs.
From Coq Require Import ZifyBool.
Ltac Zify.zify_post_hook ::= Z.to_euclidean_division_equations.

Definition is_fun (t : token) : bool := is_kw "function"%bs t.
Definition is_loc (t : token) : bool := is_kw "local"%bs t.
Definition is_nm (t : token) : bool := kclass_eqb (tk t) CName.

Definition tdelta (t : token) : Z :=
  if is_kw "function"%bs t || is_kw "do"%bs t || is_kw "then"%bs t || is_kw "repeat"%bs t then 1
  else if is_kw "end"%bs t || is_kw "until"%bs t || is_kw "elseif"%bs t then -1
  else 0.

(* a token that neither changes the depth nor is `function` / `local` *)
Definition plain (t : token) : bool := (tdelta t =? 0) && negb (is_fun t) && negb (is_loc t).

Section Scan.
Variable gl : list (list Z).            (* the game-loop names *)

Definition in_gl (t : token) : bool := existsb (zlist_eqb (tdata t)) gl.

Definition trig (t : token) (r : list token) : bool :=
  is_fun t && match r with
              | n :: p :: _ => is_nm n && in_gl n && is_sym "("%bs p
              | [n] => is_nm n
              | [] => true
              end.

Fixpoint scan (chk : bool) (l : list token) (d : Z) (pl : bool) : option Z :=
  match l with
  | [] => if pl then None else Some d
  | t :: r =>
      if (d + tdelta t <? 0) || (chk && (d =? 0) && negb pl && trig t r) then None
      else scan chk r (d + tdelta t) (is_loc t)
  end.

Definition S (chk : bool) (d : Z) (l : list token) (d' : Z) : Prop := scan chk l d false = Some d'.
Definition W (l : list token) : Prop := S false 0 l 0.
Definition Q0 (l : list token) : Prop := S true 0 l 0.

Lemma trig_app t r l2 : trig t r = false -> r <> [] -> trig t (r ++ l2) = false.
Proof.
  unfold trig. destruct (is_fun t); [|reflexivity]. cbn [andb].
  destruct r as [|n [|p r]]; [congruence| |]; intros H _.
  - cbn [app]. rewrite H. destruct l2; reflexivity.
  - exact H.
Qed.

Lemma scan_app chk l1 : forall l2 d pl d1, scan chk l1 d pl = Some d1 -> scan chk (l1 ++ l2) d pl = scan chk l2 d1 false.
Proof.
  induction l1 as [|t r IH]; intros l2 d pl d1 H.
  - cbn [scan] in H. destruct pl; [discriminate|]. injection H as <-. reflexivity.
  - cbn [scan app] in *. destruct (d + tdelta t <? 0); [discriminate|]. cbn [orb] in *.
    destruct (chk && (d =? 0) && negb pl) eqn:E; cbn [andb] in *.
    + destruct (trig t r) eqn:Et; [discriminate|].
      destruct r as [|n r'].
      * (* t is the last token: it is not `function` *)
        cbn [scan] in H. unfold trig in Et. destruct (is_fun t) eqn:Ef; [discriminate Et|].
        unfold trig. rewrite Ef. cbn [andb]. apply (IH l2 _ _ _ H).
      * rewrite (trig_app _ _ l2 Et) by discriminate. apply IH, H.
    + apply IH, H.
Qed.

Lemma S_nil chk d : S chk d [] d.
Proof. reflexivity. Qed.

Lemma S_app chk d l1 d1 l2 d2 : S chk d l1 d1 -> S chk d1 l2 d2 -> S chk d (l1 ++ l2) d2.
Proof. unfold S. intros H1 H2. rewrite (scan_app _ _ _ _ _ _ H1). exact H2. Qed.

Lemma S_plain chk d t : plain t = true -> 0 <= d -> S chk d [t] d.
Proof.
  unfold plain, S. intros H Hd. apply andb_true_iff in H. destruct H as [H Hl]. apply andb_true_iff in H. destruct H as [H0 Hf].
  apply Z.eqb_eq in H0. apply negb_true_iff in Hf, Hl. cbn [scan]. unfold trig. rewrite H0, Hf, Hl. cbn [andb].
  rewrite andb_false_r. replace (d + 0 <? 0) with false by lia. cbn [orb]. f_equal. lia.
Qed.

(* a token that is not `function` / `local` and keeps the depth non-negative *)
Lemma S_tok chk d t : is_fun t = false -> is_loc t = false -> 0 <= d + tdelta t -> S chk d [t] (d + tdelta t).
Proof.
  unfold S. intros Hf Hl Hd. cbn [scan]. unfold trig. rewrite Hf, Hl. cbn [andb]. rewrite andb_false_r.
  replace (d + tdelta t <? 0) with false by lia. reflexivity.
Qed.

Lemma scan_weaken l : forall d pl d', scan true l d pl = Some d' -> scan false l d pl = Some d'.
Proof.
  induction l as [|t r IH]; intros d pl d' H; [exact H|]. cbn [scan] in *.
  destruct (d + tdelta t <? 0); [discriminate|]. cbn [orb andb] in *.
  destruct ((d =? 0) && negb pl && trig t r); [discriminate|]. apply IH, H.
Qed.

Lemma scan_nonneg chk l : forall d pl d', scan chk l d pl = Some d' -> 0 <= d -> 0 <= d'.
Proof.
  induction l as [|t r IH]; intros d pl d' H Hd.
  - cbn [scan] in H. destruct pl; [discriminate|]. injection H as <-. exact Hd.
  - cbn [scan] in H. destruct (d + tdelta t <? 0) eqn:E; [discriminate|]. cbn [orb] in H.
    destruct (chk && (d =? 0) && negb pl && trig t r); [discriminate|]. eapply IH; [exact H | lia].
Qed.

(* without the check the scan may start deeper *)
Lemma scan_shift l : forall d pl d' k, scan false l d pl = Some d' -> 0 <= k -> scan false l (d + k) pl = Some (d' + k).
Proof.
  induction l as [|t r IH]; intros d pl d' k H Hk.
  - cbn [scan] in *. destruct pl; [discriminate|]. injection H as <-. reflexivity.
  - cbn [scan] in *. cbn [andb orb] in *. rewrite orb_false_r in *.
    destruct (d + tdelta t <? 0) eqn:E; [discriminate|]. replace (d + k + tdelta t <? 0) with false by lia.
    replace (d + k + tdelta t) with (d + tdelta t + k) by lia. apply IH; assumption.
Qed.

(* ... and one level deeper nothing is at depth 0, so the check passes *)
Lemma scan_lift l : forall d pl d' k, scan false l d pl = Some d' -> 0 <= d -> 1 <= k -> scan true l (d + k) pl = Some (d' + k).
Proof.
  induction l as [|t r IH]; intros d pl d' k H Hd Hk.
  - cbn [scan] in *. destruct pl; [discriminate|]. injection H as <-. reflexivity.
  - cbn [scan] in *. cbn [andb orb] in *. rewrite orb_false_r in H.
    destruct (d + tdelta t <? 0) eqn:E; [discriminate|]. replace (d + k + tdelta t <? 0) with false by lia.
    replace (d + k =? 0) with false by lia. cbn [andb orb].
    replace (d + k + tdelta t) with (d + tdelta t + k) by lia. apply IH; [exact H | lia | exact Hk].
Qed.

Lemma Q0_W l : Q0 l -> W l.
Proof. apply scan_weaken. Qed.

Lemma S_weaken d l d' : S true d l d' -> S false d l d'.
Proof. apply scan_weaken. Qed.

(* a balanced sequence, scanned from any depth >= 0 without the check / from any depth >= 1 with it *)
Lemma W_S_false l d : W l -> 0 <= d -> S false d l d.
Proof. intros H Hd. pose proof (scan_shift l 0 false 0 d H Hd) as H'. exact H'. Qed.

Lemma W_S_deep l chk d : W l -> 1 <= d -> S chk d l d.
Proof.
  intros H Hd. destruct chk; [|apply W_S_false; [exact H | lia]].
  pose proof (scan_lift l 0 false 0 d H ltac:(lia) Hd) as H'. exact H'.
Qed.

Lemma Q0_S l chk d : Q0 l -> 0 <= d -> S chk d l d.
Proof.
  intros H Hd. destruct (Z.eq_dec d 0) as [->|Hne].
  - destruct chk; [exact H | apply Q0_W, H].
  - apply W_S_deep; [apply Q0_W, H | lia].
Qed.

(* all tokens plain *)
Lemma S_plains chk l : forall d, forallb plain l = true -> 0 <= d -> S chk d l d.
Proof.
  induction l as [|t r IH]; intros d H Hd; [apply S_nil|]. cbn [forallb] in H. apply andb_true_iff in H. destruct H as [H1 H2].
  change (t :: r) with ([t] ++ r). eapply S_app; [apply S_plain; assumption | apply IH; assumption].
Qed.

(* `function` in front of a sequence that does not start with a name: an anonymous function *)
Lemma S_fun_anon chk d tf tp l d' : is_fun tf = true -> is_nm tp = false -> 0 <= d ->
  S chk (d + 1) (tp :: l) d' -> S chk d (tf :: tp :: l) d'.
Proof.
  unfold S. intros Hf Hn Hd H. cbn [scan] in *.
  assert (Ed : tdelta tf = 1) by (unfold tdelta; unfold is_fun in Hf; rewrite Hf; reflexivity).
  assert (El : is_loc tf = false).
  { unfold is_loc, is_fun, is_kw in *. apply andb_true_iff in Hf. destruct Hf as [Hk Hz]. rewrite Hk. cbn [andb].
    apply zlist_eqb_eq in Hz. rewrite Hz. reflexivity. }
  rewrite Ed, El. replace (d + 1 <? 0) with false by lia. cbn [orb].
  assert (Et : trig tf (tp :: l) = false).
  { unfold trig. rewrite Hf. cbn [andb]. destruct l; rewrite Hn; reflexivity. }
  rewrite Et, !andb_false_r. exact H.
Qed.

(* `local` in front of a non-empty sequence: what follows is scanned as "after local" *)
Lemma S_local chk d tl t r d' : is_loc tl = true -> 0 <= d -> S chk d (t :: r) d' -> S chk d (tl :: t :: r) d'.
Proof.
  unfold S. intros Hl Hd H.
  assert (Ef : is_fun tl = false).
  { unfold is_loc, is_fun, is_kw in *. apply andb_true_iff in Hl. destruct Hl as [Hk Hz]. rewrite Hk. cbn [andb].
    apply zlist_eqb_eq in Hz. rewrite Hz. reflexivity. }
  assert (Ed : tdelta tl = 0).
  { unfold tdelta, is_loc, is_kw in *. apply andb_true_iff in Hl. destruct Hl as [Hk Hz]. rewrite Hk. cbn [andb].
    apply zlist_eqb_eq in Hz. rewrite Hz. reflexivity. }
  cbn [scan]. rewrite Ed, Hl. unfold trig at 1. rewrite Ef. cbn [andb]. rewrite andb_false_r. replace (d + 0 <? 0) with false by lia.
  cbn [orb]. replace (d + 0) with d by lia.
  cbn [scan] in *. destruct (d + tdelta t <? 0); [cbv beta iota delta [orb] in H; discriminate H|]. cbn [orb negb andb] in *. rewrite andb_false_r. cbn [andb].
  rewrite andb_true_r in H. destruct (chk && (d =? 0) && trig t r); [discriminate H | exact H].
Qed.

(* `local function` name ... : the `function` is not looked at *)
Lemma S_local_fun chk d tl tf r d' : is_loc tl = true -> is_fun tf = true -> 0 <= d ->
  S chk (d + 1) r d' -> S chk d (tl :: tf :: r) d'.
Proof.
  unfold S. intros Hl Hf Hd H.
  assert (Ef : is_fun tl = false).
  { unfold is_loc, is_fun, is_kw in *. apply andb_true_iff in Hl. destruct Hl as [Hk Hz]. rewrite Hk. cbn [andb].
    apply zlist_eqb_eq in Hz. rewrite Hz. reflexivity. }
  assert (Ed : tdelta tl = 0).
  { unfold tdelta, is_loc, is_kw in *. apply andb_true_iff in Hl. destruct Hl as [Hk Hz]. rewrite Hk. cbn [andb].
    apply zlist_eqb_eq in Hz. rewrite Hz. reflexivity. }
  assert (Ed2 : tdelta tf = 1) by (unfold tdelta; unfold is_fun in Hf; rewrite Hf; reflexivity).
  assert (El2 : is_loc tf = false).
  { unfold is_loc, is_fun, is_kw in *. apply andb_true_iff in Hf. destruct Hf as [Hk Hz]. rewrite Hk. cbn [andb].
    apply zlist_eqb_eq in Hz. rewrite Hz. reflexivity. }
  cbn [scan]. rewrite Ed, Hl, Ed2, El2. unfold trig at 1. rewrite Ef. cbn [andb negb]. rewrite !andb_false_r. cbn [andb].
  replace (d + 0 <? 0) with false by lia. replace (d + 0 + 1 <? 0) with false by lia. cbn [orb].
  replace (d + 0 + 1) with (d + 1) by lia. exact H.
Qed.

(* `function` name ... (a function statement): not checked / deeper than 0 / a head that is no game-loop head *)
Lemma S_fun_stat chk d tf r d' : is_fun tf = true -> 0 <= d -> (chk = false \/ 1 <= d \/ trig tf r = false) ->
  S chk (d + 1) r d' -> S chk d (tf :: r) d'.
Proof.
  unfold S. intros Hf Hd Hc H.
  assert (Ed : tdelta tf = 1) by (unfold tdelta; unfold is_fun in Hf; rewrite Hf; reflexivity).
  assert (El : is_loc tf = false).
  { unfold is_loc, is_fun, is_kw in *. apply andb_true_iff in Hf. destruct Hf as [Hk Hz]. rewrite Hk. cbn [andb].
    apply zlist_eqb_eq in Hz. rewrite Hz. reflexivity. }
  cbn [scan]. rewrite Ed, El. replace (d + 1 <? 0) with false by lia. cbn [orb negb].
  replace (chk && (d =? 0) && true && trig tf r) with false; [exact H|].
  destruct Hc as [->|[Hc|Hc]]; [reflexivity | replace (d =? 0) with false by lia; rewrite andb_false_r; reflexivity |].
  rewrite Hc. rewrite andb_false_r. reflexivity.
Qed.

End Scan.

(* ------------------------------------------------------------------ the tokens of a range *)
Section Seg.
Variable ts : list token.

Definition toks_at (l : list Z) : list token :=
  flat_map (fun i => match tok_at ts i with Some t => [t] | None => [] end) l.

Definition seg (a b : Z) : list token := toks_at (sig ts a b).

Lemma toks_at_app l1 l2 : toks_at (l1 ++ l2) = toks_at l1 ++ toks_at l2.
Proof. unfold toks_at. apply flat_map_app. Qed.

Lemma seg_app a b c : a <= b -> b <= c -> seg a c = seg a b ++ seg b c.
Proof. intros H1 H2. unfold seg. rewrite <- toks_at_app, sig_app by assumption. reflexivity. Qed.

Lemma seg_nil a b : b <= a -> seg a b = [].
Proof. intros H. unfold seg. rewrite sig_nil by exact H. reflexivity. Qed.

Lemma seg_single p i t : [i] = sig ts p (i + 1) -> tok_at ts i = Some t -> seg p (i + 1) = [t].
Proof. intros H Ht. unfold seg. rewrite <- H. cbn [toks_at flat_map]. rewrite Ht. reflexivity. Qed.

Lemma sig_single_sigb p i : [i] = sig ts p (i + 1) -> sigb ts i = true.
Proof.
  intros H. assert (Hin : In i (sig ts p (i + 1))) by (rewrite <- H; left; reflexivity).
  unfold sig in Hin. apply filter_In in Hin. apply Hin.
Qed.

(* every index of sig is a valid token index *)
Lemma toks_at_length l : Forall (fun i => sigb ts i = true) l -> length (toks_at l) = length l.
Proof.
  induction 1 as [|i l Hi _ IH]; [reflexivity|]. cbn [toks_at flat_map]. unfold sigb in Hi.
  destruct (tok_at ts i); [|discriminate]. cbn [app length]. f_equal. exact IH.
Qed.

Lemma sig_sigb a b : Forall (fun i => sigb ts i = true) (sig ts a b).
Proof. apply Forall_forall. intros i Hi. unfold sig in Hi. apply filter_In in Hi. apply Hi. Qed.

End Seg.

(* ------------------------------------------------------------------ what an accepted token is *)
Lemma matches_kw_cls t d : matches t (pkw d) = true -> tk t = CKeyword /\ lower (tdata t) = lower d.
Proof.
  unfold matches, pkw, tok_eqb. cbn [tk tdata]. intros H. apply andb_true_iff in H. destruct H as [Hk H].
  apply kclass_eqb_eq in Hk. rewrite Hk in H. apply zlist_eqb_eq in H. split; assumption.
Qed.

Lemma matches_sym_cls t d : matches t (psym d) = true -> tk t = CSymbol /\ tdata t = d.
Proof.
  unfold matches, psym, tok_eqb. cbn [tk tdata]. intros H. apply andb_true_iff in H. destruct H as [Hk H].
  apply kclass_eqb_eq in Hk. rewrite Hk in H. apply zlist_eqb_eq in H. split; assumption.
Qed.

Lemma is_kw_of_kw t d d' : matches t (pkw d) = true -> is_kw d' t = zlist_eqb (lower d) (lower d').
Proof. intros H. destruct (matches_kw_cls _ _ H) as [Hk Hd]. unfold is_kw. rewrite Hk, Hd. reflexivity. Qed.

Lemma is_kw_nonkw t d : tk t <> CKeyword -> is_kw d t = false.
Proof. intros H. unfold is_kw. destruct (tk t); try reflexivity. congruence. Qed.

(* facts about a token, from the pattern it matched: the value of every token test used in this development *)
Record tfacts (t : token) (dl : Z) (f l n : bool) : Prop := mkTF {
  tf_delta : tdelta t = dl; tf_fun : is_fun t = f; tf_loc : is_loc t = l; tf_nm : is_nm t = n }.

Lemma facts_kw t d : matches t (pkw d) = true ->
  tfacts t (tdelta (mkTok CKeyword 0 d d)) (is_fun (mkTok CKeyword 0 d d)) (is_loc (mkTok CKeyword 0 d d)) false.
Proof.
  intros H. destruct (matches_kw_cls _ _ H) as [Hk Hd].
  constructor; unfold tdelta, is_fun, is_loc, is_nm, is_kw; cbn [tk tdata]; rewrite ?Hk, ?Hd; reflexivity.
Qed.

Lemma facts_nonkw t : tk t <> CKeyword -> tfacts t 0 false false (is_nm t).
Proof.
  intros H. constructor; unfold tdelta, is_fun, is_loc; rewrite ?is_kw_nonkw by exact H; reflexivity.
Qed.

Lemma facts_sym t d : matches t (psym d) = true -> tfacts t 0 false false false.
Proof.
  intros H. destruct (matches_sym_cls _ _ H) as [Hk _].
  assert (Hn : tk t <> CKeyword) by (rewrite Hk; discriminate).
  destruct (facts_nonkw t Hn) as [H1 H2 H3 H4]. constructor; try assumption. unfold is_nm. rewrite Hk. reflexivity.
Qed.

Lemma facts_class t k : matches t (PClass k) = true -> k <> CKeyword -> tfacts t 0 false false (kclass_eqb k CName).
Proof.
  unfold matches. intros H Hk. apply kclass_eqb_eq in H.
  assert (Hn : tk t <> CKeyword) by (rewrite H; exact Hk).
  destruct (facts_nonkw t Hn) as [H1 H2 H3 H4]. constructor; try assumption. unfold is_nm. rewrite H. reflexivity.
Qed.

Lemma is_sym_of_sym t d d' : matches t (psym d) = true -> is_sym d' t = zlist_eqb d d'.
Proof. intros H. destruct (matches_sym_cls _ _ H) as [Hk Hd]. unfold is_sym. rewrite Hk, Hd. reflexivity. Qed.

Lemma is_sym_paren_of_sym t d b : matches t (psym d) = true -> zlist_eqb d "("%bs = b -> is_sym "("%bs t = b.
Proof. intros H <-. apply is_sym_of_sym, H. Qed.

Lemma tfacts_plain t n : tfacts t 0 false false n -> plain t = true.
Proof. intros [H1 H2 H3 _]. unfold plain. rewrite H1, H2, H3. reflexivity. Qed.

Lemma is_sym_of_kw t d d' : matches t (pkw d) = true -> is_sym d' t = false.
Proof. intros H. destruct (matches_kw_cls _ _ H) as [Hk _]. unfold is_sym. rewrite Hk. reflexivity. Qed.

(* operator patterns: symbols and keywords that are no block keywords *)
Definition pat_plain (p : pat) : bool :=
  match p with
  | PClass k => negb (kclass_eqb k CKeyword)
  | PTok k d => negb (kclass_eqb k CKeyword) || plain (mkTok CKeyword 0 d d)
  end.

Lemma matches_plain t p : pat_plain p = true -> matches t p = true -> plain t = true.
Proof.
  destruct p as [k|k d]; cbn [pat_plain]; intros Hp Hm.
  - assert (Hk : k <> CKeyword) by (intros ->; discriminate Hp).
    destruct (facts_class t k Hm Hk) as [H1 H2 H3 _]. unfold plain. rewrite H1, H2, H3. reflexivity.
  - destruct (kclass_eqb k CKeyword) eqn:Ek.
    + apply kclass_eqb_eq in Ek. subst k. cbn [negb orb] in Hp. destruct (facts_kw t d Hm) as [H1 H2 H3 _].
      unfold plain in *. rewrite H1, H2, H3. exact Hp.
    + assert (Hn : tk t <> CKeyword).
      { unfold matches, tok_eqb in Hm. cbn [tk] in Hm. apply andb_true_iff in Hm. destruct Hm as [Hm _].
        apply kclass_eqb_eq in Hm. rewrite Hm. intros ->. discriminate Ek. }
      destruct (facts_nonkw t Hn) as [H1 H2 H3 _]. unfold plain. rewrite H1, H2, H3. reflexivity.
Qed.

Lemma existsb_matches_plain t ps : forallb pat_plain ps = true -> existsb (matches t) ps = true -> plain t = true.
Proof.
  intros Hp He. apply existsb_exists in He. destruct He as (p & Hin & Hm). rewrite forallb_forall in Hp.
  exact (matches_plain t p (Hp p Hin) Hm).
Qed.

(* accept_first, keeping what was matched *)
Lemma wpx_accept_first_m ts ps (Q : post (option (Z * token))) p mx :
  forallb pat_nontrivia ps = true -> 0 <= p ->
  Q None p mx ->
  (forall i t, p <= i -> i < zlen ts -> i < lim ts mx -> [i] = sig ts p (i + 1) -> tok_at ts i = Some t ->
               existsb (matches t) ps = true -> Q (Some (i, t)) (i + 1) mx) ->
  wpx (accept_first ts ps) Q p mx.
Proof.
  intros Hps Hq Hn Hs. induction ps as [|pt r IH]; cbn [accept_first].
  - apply wpx_ret, Hn.
  - cbn [forallb] in Hps. apply andb_true_iff in Hps. destruct Hps as [Hp Hr].
    apply wpx_bind. apply wpx_accept; [exact Hp | exact Hq | |].
    + apply IH; [exact Hr|]. intros i t H1 H2 H3 H4 H5 H6. apply Hs; try assumption. cbn [existsb]. rewrite H6. apply orb_true_r.
    + intros i t H1 H2 H3 H4 H5 H6. apply wpx_ret. apply Hs; try assumption. cbn [existsb]. rewrite H6. reflexivity.
Qed.

Lemma wpx_conj {A} (m : M A) (Q1 Q2 : post A) p mx :
  wpx m Q1 p mx -> wpx m Q2 p mx -> wpx m (fun a p1 mx1 => Q1 a p1 mx1 /\ Q2 a p1 mx1) p mx.
Proof. unfold wpx. destruct (m (p, mx)) as [[a [p1 mx1]]|e]; intros H1 H2; [split; assumption | exact H1]. Qed.
