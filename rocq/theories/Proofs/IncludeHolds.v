(* C12, include side: for a cart outside every PICO-8 carts folder, the accesses of the model of one include
   line satisfy the instance predicate the monitor evaluates (whose root is computed by the Spec from the
   cart's name, independently of the model). *)
From PV Require Import Base.Prelude Model.Paths Model.Include Model.FilesInst Spec.PathSpec
  Proofs.PathProofs Proofs.IncludeProofs Proofs.RequireProofs Instances.HoldsC12 Generated.T_files_p8.

(* the last component of the path is an ordinary name *)
Definition proper_name (p : bytes) : Prop := comp_kind (base_part p) = 2.

Lemma ends_with_slash_snoc a : ends_with_slash (a ++ [47]) = true.
Proof.
  induction a as [|c a IH]; [reflexivity|]. cbn [app]. destruct (a ++ [47]) eqn:E; [destruct a; discriminate|].
  exact IH.
Qed.

Lemma walk_one loc b : comp_kind b = 2 -> walk loc [b] = b :: loc.
Proof. intros H. rewrite walk_step, H. reflexivity. Qed.

Lemma stack_split cwd p : proper_name p -> stack cwd p = base_part p :: stack cwd (dir_part p).
Proof.
  intros H. transitivity (stack cwd (dir_part p ++ base_part p)); [rewrite dir_base; reflexivity|].
  destruct (dir_part_shape p) as [E|(a & E)]; rewrite E.
  - cbn [app]. rewrite stack_relative by (apply noslash_relative, base_part_noslash).
    rewrite (components_noslash_one _ (base_part_noslash p)). apply walk_one. exact H.
  - rewrite stack_app_endslash by apply ends_with_slash_snoc.
    rewrite (components_noslash_one _ (base_part_noslash p)). apply walk_one. exact H.
Qed.

Lemma components_last q : exists l, components q = l ++ [base_part q].
Proof.
  assert (Hq : components q = components (dir_part q ++ base_part q)) by (rewrite dir_base; reflexivity).
  rewrite Hq. destruct (dir_part_shape q) as [E|(a & E)]; rewrite E.
  - exists []. cbn [app]. apply components_noslash_one, base_part_noslash.
  - exists (components a). rewrite <- app_assoc. cbn [app]. rewrite components_app_slash.
    rewrite (components_noslash_one _ (base_part_noslash q)). reflexivity.
Qed.

Lemma last_split {A} (l : list A) : l <> [] -> exists t z, l = t ++ [z].
Proof.
  induction l as [|x l IH]; [congruence|]. intros _. destruct l as [|y l'].
  - exists [], x. reflexivity.
  - destruct (IH ltac:(discriminate)) as (t & z & E). exists (x :: t), z. rewrite E. reflexivity.
Qed.

(* a normalised absolute path that is not the root ends in an ordinary name *)
Lemma abspath_proper cwd x :
  absolute cwd = true -> stack cwd (abspath cwd x) <> [] -> proper_name (abspath cwd x).
Proof.
  intros Hc Hs. pose proof (abspath_no_parent cwd x Hc) as Hnp. pose proof (abspath_absolute cwd x Hc) as Habs.
  unfold abspath in *. rewrite isabs_absolute in *.
  set (y := if absolute x then x else join cwd x) in *.
  assert (Hy : y <> []).
  { unfold y. destruct (absolute x) eqn:Hx; [destruct x; discriminate|].
    assert (Hne : cwd <> []) by (destruct cwd; discriminate).
    intros E. pose proof (join_absolute cwd x Hx Hne) as H. rewrite E, Hc in H. discriminate. }
  destruct (normpath_components y Hy) as (k & tailc & Hcomp & Htail & _).
  assert (Hst : stack cwd (normpath y) = walk [] (components (normpath y))).
  { unfold stack. rewrite Habs. reflexivity. }
  rewrite Hst, Hcomp, walk_repeat_empty in Hs.
  destruct (components_last (normpath y)) as (l & Hl).
  unfold proper_name.
  destruct Htail as [Ht|(_ & Hstay)].
  2:{ exfalso. apply Hs. apply walk_stays. exact Hstay. }
  assert (Hns : Forall nonstay tailc).
  { rewrite Ht. apply Forall_rev'. unfold norm_stack. apply norm_nonstay. constructor. }
  destruct tailc as [|t0 t1] eqn:Et; [exfalso; apply Hs; reflexivity|].
  destruct (last_split (t0 :: t1) ltac:(discriminate)) as (t & z & Ez). rewrite Ez in *.
  rewrite Hl, app_assoc in Hcomp. apply app_inj_tail in Hcomp as [_ Hb]. rewrite Hb.
  apply Forall_app in Hns as [_ Hz]. assert (Hz1 : nonstay z) by (inversion Hz; assumption).
  assert (Hzp : not_parent z).
  { rewrite Hl, Hb in Hnp. apply Forall_app in Hnp as [_ H]. inversion H; assumption. }
  destruct (comp_kind_cases z) as [H|[H|H]]; [contradiction|contradiction|exact H].
Qed.

(* the cart's own directory: the model's dirname(full path) is located where the Spec's dir_part(cart) is *)
Lemma own_dir_same cwd home cart :
  absolute cwd = true -> proper_name cart -> expanduser home cart = cart ->
  stack cwd (dirname (full_path cwd home cart)) = stack cwd (dir_part cart).
Proof.
  intros Hc Hp He. unfold full_path. rewrite He. set (q := abspath cwd (normpath cart)).
  assert (Hq : stack cwd q = stack cwd cart).
  { unfold q. rewrite stack_abspath by exact Hc. apply stack_normpath. }
  rewrite (stack_split cwd cart Hp) in Hq.
  assert (Hqp : proper_name q).
  { apply abspath_proper; [exact Hc|]. fold q. rewrite Hq. discriminate. }
  rewrite (stack_split cwd q Hqp) in Hq. injection Hq as _ Hq.
  rewrite stack_dirname. exact Hq.
Qed.

Lemma relevant_nil' tr : relevant [] tr = tr.
Proof.
  unfold relevant. induction tr as [|e r IH]; [reflexivity|]. cbn [filter]. unfold mentions at 1. cbn [existsb negb]. f_equal. exact IH.
Qed.

Definition acc_event (e : bool * bytes) : event := (if fst e then OpenRead else Probe, snd e).

Section Holds.
Variable cwd home : bytes.
Variable isfile : bytes -> bool.
Hypothesis cwd_abs : absolute cwd = true.

Notation carts := (map (expanduser home) pico8_cart_paths).

(* no carts folder passes the model's test when none contains the cart *)
Lemma no_folder_root cart :
  expanduser home cart = cart ->
  (forall c, In c pico8_cart_paths -> underb cwd (expanduser home c) cart = false) ->
  inc_root_now cwd home cart = dirname (full_path cwd home cart).
Proof.
  intros He Hno. unfold inc_root_now, get_root_include_path.
  assert (G : forall cands, (forall c, In c cands -> In c pico8_cart_paths) ->
            root_scan root_detection_kind cwd home (full_path cwd home cart) cands None = None).
  { induction cands as [|c cs IH]; intros Hin; [reflexivity|]. cbn [root_scan].
    destruct (contain_test root_detection_kind (full_path cwd home c) (full_path cwd home cart)) eqn:E.
    - exfalso.
      assert (Hu : under cwd (full_path cwd home c) (full_path cwd home cart)).
      { apply sep_aligned_under; [apply abspath_no_parent; exact cwd_abs|].
        apply (contain_test_aligned root_detection_kind); [right; reflexivity|apply full_path_abs; exact cwd_abs|exact E]. }
      unfold under, full_path in Hu. rewrite !locate_abspath, !locate_normpath in Hu by exact cwd_abs.
      rewrite He in Hu. apply (proj2 (underb_spec cwd _ _)) in Hu.
      rewrite (Hno c (Hin c (or_introl eq_refl))) in Hu. discriminate.
    - apply IH. intros c' Hc'. apply Hin. right. exact Hc'. }
  rewrite (G pico8_cart_paths (fun c H => H)). reflexivity.
Qed.

Lemma spec_root_own cart :
  (forall c, In c pico8_cart_paths -> underb cwd (expanduser home c) cart = false) ->
  include_root cwd carts cart = dir_part cart.
Proof.
  intros Hno. unfold include_root.
  assert (E : filter (fun c => underb cwd c cart) carts = []).
  { induction pico8_cart_paths as [|c cs IH]; [reflexivity|]. cbn [map filter].
    rewrite (Hno c (or_introl eq_refl)). apply IH. intros c' Hc'. apply Hno. right. exact Hc'. }
  rewrite E. reflexivity.
Qed.

Lemma include_target_location cart inc :
  locate cwd (include_target cart inc) = locate cwd (join (dirname cart) inc).
Proof.
  rewrite !locate_stack. f_equal. unfold include_target, join. rewrite isabs_absolute.
  destruct (absolute inc) eqn:Ha; [reflexivity|].
  pose proof (stack_dirname cwd cart) as Hd.
  destruct (dir_part_shape cart) as [E|(a & E)].
  - (* no directory part: dirname cart = [] *)
    assert (Hdn : dirname cart = []).
    { unfold dirname. rewrite dir_prefix_dir_part, E. reflexivity. }
    rewrite E, Hdn. reflexivity.
  - rewrite E. rewrite stack_app_endslash by apply ends_with_slash_snoc. rewrite <- E, <- Hd.
    destruct (dirname cart) as [|d0 d1] eqn:Edn.
    + cbn [is_empty orb app]. rewrite (stack_relative cwd inc Ha). reflexivity.
    + cbn [is_empty orb]. destruct (ends_with_slash (d0 :: d1)) eqn:Es.
      * symmetry. apply stack_app_endslash. exact Es.
      * symmetry. apply (stack_app_slash cwd (d0 :: d1) inc). discriminate.
Qed.

(* the accesses of the model of one include line satisfy the monitor's predicate *)
Lemma include_model_holds cart inc :
  proper_name cart -> expanduser home cart = cart ->
  (forall c, In c pico8_cart_paths -> underb cwd (expanduser home c) cart = false) ->
  let r := include_accesses_now cwd home isfile cart inc in
  holds_C12_include cwd carts cart inc (snd r) [] (map acc_event (fst r)) = true.
Proof.
  intros Hp He Hno. cbv zeta. unfold holds_C12_include. rewrite (spec_root_own cart Hno).
  unfold include_accesses_now, include_accesses. fold (inc_root_now cwd home cart).
  rewrite (no_folder_root cart He Hno).
  set (root := dirname (full_path cwd home cart)). set (p := include_full_path cwd cart inc).
  assert (Hroot : locate cwd root = locate cwd (dir_part cart)).
  { rewrite !locate_stack. f_equal. apply own_dir_same; assumption. }
  assert (Habs : absolute root = true) by (apply dirname_absolute, full_path_abs; exact cwd_abs).
  destruct (contain_test include_containment_kind root p) eqn:Ec; cbn [negb].
  2:{ cbn [fst snd map]. rewrite orb_true_r. reflexivity. }
  assert (Hu : under cwd (dir_part cart) p).
  { assert (H : under cwd root p).
    { apply sep_aligned_under; [apply abspath_no_parent; exact cwd_abs|].
      apply (contain_test_aligned include_containment_kind); [left; reflexivity|exact Habs|exact Ec]. }
    unfold under in *. rewrite <- Hroot. exact H. }
  assert (Hub : underb cwd (dir_part cart) p = true) by (apply underb_spec; exact Hu).
  assert (Ht : underb cwd (dir_part cart) (include_target cart inc) = true).
  { apply underb_spec. unfold under in *. rewrite include_target_location.
    unfold p, include_full_path in Hu. rewrite locate_abspath, locate_normpath in Hu by exact cwd_abs. exact Hu. }
  destruct (isfile p); cbn [negb fst snd map acc_event].
  - rewrite relevant_nil'. cbn [all_opens_under forallb snd fst acc_event under_any existsb]. rewrite Hub, Ht. reflexivity.
  - rewrite relevant_nil'. cbn [all_opens_under forallb snd fst acc_event under_any existsb]. rewrite Hub, orb_true_r. reflexivity.
Qed.
End Holds.

(* the accesses are those of the resolution *)
Lemma include_accesses_resolve cwd home isfile cart inc :
  match resolve_include_now cwd home isfile cart inc with
  | Ok p => include_accesses_now cwd home isfile cart inc = ([(false, p); (true, p)], false)
  | Err IncludeNotFound =>
    include_accesses_now cwd home isfile cart inc = ([(false, include_full_path cwd cart inc)], true)
  | Err _ => include_accesses_now cwd home isfile cart inc = ([], true)
  end.
Proof.
  unfold resolve_include_now, resolve_include, include_accesses_now, include_accesses.
  destruct (contain_test _ _ _); cbn [negb]; [|reflexivity].
  destruct (isfile _); reflexivity.
Qed.
