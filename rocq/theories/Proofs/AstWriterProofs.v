(* Lemmas about Model/AstWriter.v (no property theorems here).

   The cursor discipline: whatever the tree, every action of the walk extends the output by a list of
   chunks that tiles the token list between the old and the new cursor - a Trivia chunk carries exactly the
   run of white-space / comment tokens the cursor passed, a Code chunk stands for exactly one token. *)
From PV Require Import Base.Prelude Spec.LuaTokens Spec.LuaGrammar Model.Tokens Model.WriterChunks Model.AstWriter.
From Coq Require Import ZifyBool.
Ltac Zify.zify_post_hook ::= Z.to_euclidean_division_equations.

Section T.
Variable ts : list token.

(* the chunks cs account for the tokens with indices q .. p-1, in order, each exactly once *)
Inductive tiling : Z -> list chunk -> Z -> Prop :=
| til_nil q : tiling q [] q
| til_trivia q ind e run cs p :
    run = firstn (length run) (skipn (Z.to_nat q) ts) -> forallb is_trivia run = true ->
    e = (q + zlen run =? zlen ts) ->
    tiling (q + zlen run) cs p -> tiling q (Trivia q ind e run :: cs) p
| til_code q text cs p : tiling (q + 1) cs p -> tiling q (Code q text :: cs) p.

Lemma tiling_app q cs p cs' p' : tiling q cs p -> tiling p cs' p' -> tiling q (cs ++ cs') p'.
Proof.
  induction 1 as [q|q ind e run cs p H1 H2 H3 H4 IH|q text cs p H IH]; intros H'; cbn [app].
  - exact H'.
  - apply til_trivia; try assumption. apply IH, H'.
  - apply til_code. apply IH, H'.
Qed.

Lemma tiling_mono q cs p : tiling q cs p -> q <= p.
Proof. induction 1; unfold zlen in *; lia. Qed.

(* an action extends the output by chunks that tile [old cursor, new cursor) *)
Definition ext (m : WM) : Prop :=
  forall st st', 0 <= w_pos st -> m st = Ok st' ->
  exists cs, w_out st' = rev cs ++ w_out st /\ tiling (w_pos st) cs (w_pos st').

Lemma ext_seq a b : ext a -> ext b -> ext (a >> b).
Proof.
  intros Ha Hb st st' H0 H. unfold seq in H. destruct (a st) as [st1|e] eqn:E; [|discriminate].
  destruct (Ha st st1 H0 E) as (c1 & Ho1 & Ht1).
  assert (H1 : 0 <= w_pos st1) by (apply tiling_mono in Ht1; lia).
  destruct (Hb st1 st' H1 H) as (c2 & Ho2 & Ht2).
  exists (c1 ++ c2). split.
  - rewrite Ho2, Ho1, rev_app_distr, app_assoc. reflexivity.
  - eapply tiling_app; eassumption.
Qed.

Lemma ext_skip : ext skip.
Proof. intros st st' _ [= <-]. exists []. split; [reflexivity | apply til_nil]. Qed.

Lemma ext_fail e : ext (fail_with e).
Proof. intros st st' _ H. discriminate H. Qed.

Lemma ext_indent d : ext (indent_by d).
Proof. intros st st' _ [= <-]. exists []. split; [reflexivity | apply til_nil]. Qed.

Lemma trivia_run_spec l n :
  trivia_run l n = firstn (length (trivia_run l n)) l /\ forallb is_trivia (trivia_run l n) = true.
Proof.
  revert l; induction n as [|n IH]; intros l.
  - destruct l; split; reflexivity.
  - destruct l as [|t r]; [split; reflexivity|]. cbn [trivia_run]. destruct (is_trivia t) eqn:E; [|split; reflexivity].
    destruct (IH r) as [H1 H2]. cbn [length firstn forallb]. rewrite E, H2. split; [f_equal; exact H1 | reflexivity].
Qed.

Lemma ext_spaces_to b : ext (spaces_to ts b).
Proof.
  intros st st' H0 [= <-]. cbn [w_pos w_out].
  set (run := trivia_run (skipn (Z.to_nat (w_pos st)) ts) (Z.to_nat (b - w_pos st))).
  exists [Trivia (w_pos st) (w_ind st) (w_pos st + zlen run =? ntok ts) run]. split; [reflexivity|].
  destruct (trivia_run_spec (skipn (Z.to_nat (w_pos st)) ts) (Z.to_nat (b - w_pos st))) as [H1 H2].
  apply til_trivia; [exact H1 | exact H2 | reflexivity | apply til_nil].
Qed.

Lemma ext_spaces node : ext (spaces ts node).
Proof. unfold spaces. destruct (bound_of ts node); [apply ext_spaces_to | apply ext_fail]. Qed.

Lemma ext_advance text : ext (advance_emit text).
Proof.
  intros st st' _ [= <-]. cbn [w_pos w_out]. exists [Code (w_pos st) text]. split; [reflexivity|].
  apply til_code, til_nil.
Qed.

Lemma ext_with_cur k : (forall t, ext (k t)) -> ext (with_cur ts k).
Proof.
  intros Hk st st' H0 H. unfold with_cur in H. destruct (cur ts st) as [t|e]; [|discriminate].
  exact (Hk t st st' H0 H).
Qed.

Lemma ext_with_peek k : (forall o, ext (k o)) -> ext (with_peek ts k).
Proof. intros Hk st st' H0 H. exact (Hk _ st st' H0 H). Qed.

Lemma ext_with_st k : (forall s, ext (k s)) -> ext (with_st k).
Proof. intros Hk st st' H0 H. exact (Hk st st st' H0 H). Qed.

Ltac ext_step :=
  lazymatch goal with
  | H : ext ?m |- ext ?m => exact H
  | |- ext (_ >> _) => apply ext_seq
  | |- ext skip => apply ext_skip
  | |- ext (fail_with _) => apply ext_fail
  | |- ext (indent_by _) => apply ext_indent
  | |- ext (spaces _ _) => apply ext_spaces
  | |- ext (spaces_to _ _) => apply ext_spaces_to
  | |- ext (advance_emit _) => apply ext_advance
  | |- ext (with_cur _ _) => apply ext_with_cur; intros ?
  | |- ext (with_peek _ _) => apply ext_with_peek; intros ?
  | |- ext (with_st _) => apply ext_with_st; intros ?
  | |- ext (if ?b then _ else _) => destruct b
  | |- ext (match ?x with _ => _ end) => destruct x
  | |- ext (let _ := _ in _) => cbv zeta
  end.
Ltac ext_tac := repeat ext_step.

Lemma ext_get_text node kw : ext (get_text ts node kw).
Proof. unfold get_text. ext_tac. Qed.

Lemma ext_get_name node t : ext (get_name ts node t).
Proof. unfold get_name. ext_tac. Qed.

Lemma ext_get_semis n node : ext (get_semis ts n node).
Proof. induction n as [|n IH]; cbn [get_semis]; ext_tac. Qed.

Lemma ext_semis node : ext (semis ts node).
Proof. unfold semis. apply ext_with_st. intros s. apply ext_get_semis. Qed.

Lemma ext_with_code t k : (forall c, ext (k c)) -> ext (with_code t k).
Proof. intros Hk. unfold with_code. destruct t; try apply ext_fail. apply Hk. Qed.

Lemma ext_name_tok t k : (forall x, ext (k x)) -> ext (name_tok t k).
Proof. intros Hk. unfold name_tok. destruct t; try apply ext_fail. apply Hk. Qed.

Section Loops.
Variable w : tree -> WM.
Hypothesis Hw : forall x, ext (w x).
Variable node : tree.

Ltac lp IH :=
  repeat first [ ext_step | apply ext_get_text | apply ext_get_name | apply ext_semis | apply Hw | apply IH ].

Lemma ext_sep_rest sep l : ext (sep_rest ts w node sep l).
Proof. induction l as [|x r IH]; cbn [sep_rest]; lp IH. Qed.

Lemma ext_name_rest sep l : ext (name_rest ts node sep l).
Proof. induction l as [|x r IH]; cbn [name_rest]; lp IH. Qed.

Lemma ext_field_rest l : ext (field_rest ts w node l).
Proof. induction l as [|x r IH]; cbn [field_rest]; lp IH. Qed.

Lemma ext_stats l : ext (stats ts w node l).
Proof. induction l as [|x r IH]; cbn [stats]; lp IH. Qed.

Lemma ext_if_pairs sh : forall l first, ext (if_pairs ts w node sh first l).
Proof. induction l as [|x r IH]; intros first; cbn [if_pairs]; lp IH. Qed.
End Loops.

Lemma ext_dropped_else node pairs : ext (dropped_else ts node pairs).
Proof.
  unfold dropped_else.
  repeat first
    [ ext_step | apply ext_get_text | apply ext_semis
    | match goal with |- ext (match ?x with _ => _ end) => destruct x end
    | match goal with |- ext (if ?x then _ else _) => destruct x end ].
Qed.

Lemma ext_walk n : forall node, ext (walk ts n node).
Proof.
  induction n as [|n IH]; intros node; cbn [walk]; [apply ext_fail|].
  apply ext_seq; [apply ext_spaces|].
  destruct node as [tag s e sh fs| | | | | | | |]; try apply ext_skip.
  cbv zeta.
  repeat first
    [ ext_step | apply ext_get_text | apply ext_get_name | apply ext_semis | apply IH
    | apply ext_stats | apply ext_sep_rest | apply ext_name_rest | apply ext_field_rest | apply ext_if_pairs
    | apply ext_dropped_else
    | apply ext_with_code; intros ? | apply ext_name_tok; intros ? ].
Qed.

(* the end-of-input check of to_lines *)
Lemma writer_refuses_unparsed_tail W tag s e sh fs :
  AstWriter.all_trivia (skipn (Z.to_nat e) ts) = false ->
  writer_chunks ts (Node tag s e sh fs) = Err ParserError /\ writer_text W ts (Node tag s e sh fs) = Err ParserError.
Proof.
  intros H. unfold writer_text, writer_chunks. rewrite H. cbn [negb]. split; reflexivity.
Qed.

(* a successful run: the chunks tile the token list up to the final cursor *)
Lemma writer_chunks_tiling root cs p :
  writer_chunks ts root = Ok (cs, p) -> tiling 0 cs p.
Proof.
  unfold writer_chunks. destruct root as [tag s e sh fs| | | | | | | |]; try discriminate.
  destruct (negb _); [discriminate|].
  destruct ((walk ts _ _ >> spaces_to ts (ntok ts)) (mkW 0 0 [])) as [st|err] eqn:E; [|discriminate].
  intros [= <- <-].
  assert (Hx : ext (walk ts (2 * tdepth (Node tag s e sh fs) + 2) (Node tag s e sh fs) >> spaces_to ts (ntok ts)))
    by (apply ext_seq; [apply ext_walk | apply ext_spaces_to]).
  destruct (Hx (mkW 0 0 []) st (Z.le_refl 0) E) as (cs & Ho & Ht). cbn [w_pos w_out] in *.
  rewrite app_nil_r in Ho. rewrite Ho. unfold rev'. rewrite <- rev_alt, rev_involutive. exact Ht.
Qed.

End T.
