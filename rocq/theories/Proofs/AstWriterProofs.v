(* Lemmas about Model/AstWriter.v (no property theorems here). *)
From PV Require Import Base.Prelude Spec.LuaTokens Spec.LuaGrammar Model.Tokens Model.WriterChunks Model.AstWriter.
From Coq Require Import ZifyBool.
Ltac Zify.zify_post_hook ::= Z.to_euclidean_division_equations.

(* the end-of-input check of to_lines *)
Lemma writer_refuses_unparsed_tail ts W tag s e sh fs :
  AstWriter.all_trivia (skipn (Z.to_nat e) ts) = false ->
  writer_chunks ts (Node tag s e sh fs) = Err ParserError /\ writer_text W ts (Node tag s e sh fs) = Err ParserError.
Proof.
  intros H. unfold writer_text, writer_chunks. rewrite H. cbn [negb]. split; reflexivity.
Qed.
