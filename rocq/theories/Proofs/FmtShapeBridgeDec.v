(* From the equality FmtShape.same_modulo_line_edges decides to the relation Mrel on marks.

   Two texts whose FmtShape token lists agree after FmtShape.edge_norm have token lists that are cut by their code tokens into
   runs of white-space / comment tokens; the code tokens are equal, the runs agree after [enr].  Given what is known of two
   such runs (run_norm, run_hd, run_nil of Proofs/FmtShapeBridgeRun.v), the marks of the token lists are
   related by [Mrel].

     lex1_inv      what one step of FmtShape.lex1 returns (a non-empty prefix of the text, and its shape for the trivia kinds)
     wfl           what FmtShape.lex guarantees of a token list (wftok of every trivia token, the adjacency conditions of wfrun)
     lex_wfl       FmtShape.lex s = Some ts -> crlf_only s = true -> wfl ts
     cut_code      a token list is a trivia run, or a trivia run, a code token and a rest
     edge_norm_cut / edge_norm_noncode   FmtShape.edge_norm through enr
     mrel_gen / edges_mrel               the relation on marks *)
From PV Require Import Base.Prelude Spec.LuaLex Proofs.LuaLexFacts Model.FmtSpaces Proofs.FmtLinesProofs Proofs.FmtShapeBridgeLines Proofs.FmtShapeBridge Proofs.FmtShapeBridgeRun.
From PV Require Spec.FmtShape.
From Coq Require Import Lia ZifyBool.

(* ====================================================================== stoks_eqb decides equality *)
Lemma tkind_code_inj k1 k2 : F.tkind_code k1 = F.tkind_code k2 -> k1 = k2.
Proof. destruct k1, k2; cbn [F.tkind_code]; intros H; try reflexivity; discriminate H. Qed.

Lemma stoks_eqb_eq a : forall b, F.stoks_eqb a b = true -> a = b.
Proof.
  induction a as [|[k x] a IH]; intros [|[k' y] b] H; cbn [F.stoks_eqb fst snd] in H; try discriminate H; [reflexivity|].
  apply andb_true_iff in H. destruct H as [H H3]. apply andb_true_iff in H. destruct H as [H1 H2].
  apply Z.eqb_eq, tkind_code_inj in H1. apply zlist_eqb_eq in H2. subst. f_equal. apply IH, H3.
Qed.

(* ====================================================================== the pieces of FmtShape.lex1 *)
Lemma fspan_stop p s : forall a b, F.span p s = (a, b) -> match b with c :: _ => p c = false | [] => True end.
Proof.
  induction s as [|c r IH]; intros a b H; cbn [F.span] in H; [injection H as <- <-; exact I|].
  destruct (p c) eqn:Ec; [|injection H as <- <-; exact Ec].
  destruct (F.span p r) as [a' b'] eqn:E. injection H as <- <-. apply (IH _ _ eq_refl).
Qed.

Lemma fspan_cons p c r : p c = true -> F.span p (c :: r) = (c :: fst (F.span p r), snd (F.span p r)).
Proof. intros Hc. cbn [F.span]. rewrite Hc. destruct (F.span p r) as [a b]. reflexivity. Qed.

Lemma fspan_head p c r a b : p c = true -> F.span p (c :: r) = (a, b) -> exists a', a = c :: a'.
Proof. intros Hc H. rewrite (fspan_cons _ _ _ Hc) in H. injection H as <- <-. eauto. Qed.

Lemma scan_quoted_split_n q : forall n s a b, (length s <= n)%nat -> F.scan_quoted q s = Some (a, b) -> s = a ++ b.
Proof.
  induction n as [|n IH]; intros s a b Hn H.
  - destruct s; [discriminate H | cbn [length] in Hn; lia].
  - destruct s as [|c r]; [discriminate H|]. cbn [F.scan_quoted] in H. cbn [length] in Hn.
    destruct (c =? F.cBSL).
    + destruct r as [|d r']; [discriminate H|]. destruct (F.scan_quoted q r') as [[x y]|] eqn:E; [|discriminate H].
      injection H as <- <-. cbn [app]. do 2 f_equal. apply (IH r'); [cbn [length] in Hn; lia | exact E].
    + destruct (c =? q); [injection H as <- <-; reflexivity|].
      destruct ((c =? F.cNL) || (c =? F.cCR)); [discriminate H|].
      destruct (F.scan_quoted q r) as [[x y]|] eqn:E; [|discriminate H]. injection H as <- <-. cbn [app]. f_equal.
      apply (IH r); [lia | exact E].
Qed.

Lemma scan_quoted_split q s a b : F.scan_quoted q s = Some (a, b) -> s = a ++ b.
Proof. apply (scan_quoted_split_n q (length s)). apply le_n. Qed.

Lemma skipn_len_app {A} (a b : list A) : skipn (length a) (a ++ b) = b.
Proof. induction a as [|x a IH]; [reflexivity | exact IH]. Qed.

Lemma find_long_close_split cl s : forall a b, F.find_long_close cl s = Some (a, b) -> s = a ++ b /\ exists body, a = body ++ cl.
Proof.
  induction s as [|c r IH]; intros a b H; [discriminate H|]. cbn [F.find_long_close] in H.
  destruct (starts_with cl (c :: r)) eqn:E.
  - injection H as <- <-. apply starts_with_app in E. destruct E as (t & E). split; [|exists []; reflexivity].
    rewrite E, skipn_len_app. reflexivity.
  - destruct (F.find_long_close cl r) as [[x y]|] eqn:E2; [|discriminate H]. injection H as <- <-.
    destruct (IH _ _ eq_refl) as (E1 & body & E3). split; [cbn [app]; f_equal; exact E1|].
    exists (c :: body). rewrite E3. reflexivity.
Qed.

Lemma long_open_split s n op t : F.long_open s = Some (n, op, t) ->
  s = op ++ t /\ (exists e, op = 91 :: e) /\ (n = O -> op = [91; 91]).
Proof.
  unfold F.long_open. destruct s as [|c r]; [discriminate|]. destruct (c =? F.cLBR) eqn:Ec; [|discriminate].
  destruct (F.span (fun x => x =? F.cEQ) r) as [eqs t0] eqn:E. destruct t0 as [|d t']; [discriminate|].
  destruct (d =? F.cLBR) eqn:Ed; [|discriminate]. intros H. injection H as <- <- <-.
  apply fspan_split in E. unfold F.cLBR in *. apply Z.eqb_eq in Ec, Ed. subst c d r. split; [|split].
  - cbn [app]. rewrite <- app_assoc. reflexivity.
  - exists (eqs ++ [91]). reflexivity.
  - intros Hn. destruct eqs; [reflexivity | discriminate Hn].
Qed.

(* ====================================================================== one step of FmtShape.lex1 *)
Definition lex1_post (k : F.tkind) (a r : list Z) : Prop :=
  match k with
  | F.KBlank => forallb F.is_blank a = true /\ match r with c :: _ => F.is_blank c = false | [] => True end
  | F.KNl => a = [10] \/ a = [13; 10]
  | F.KLineComment =>
    (starts2 45 a = true \/ starts2 47 a = true) /\ forallb F.not_eol a = true /\
    match r with c :: _ => F.not_eol c = false | [] => True end
  | F.KBlockComment => exists b, a = 45 :: 45 :: 91 :: 91 :: b ++ [93]
  | _ => True
  end.

Lemma line_comment_inv x t0 a r : F.not_eol x = true -> F.span F.not_eol (x :: x :: t0) = (a, r) ->
  x :: x :: t0 = a ++ r /\ a <> [] /\ starts2 x a = true /\ forallb F.not_eol a = true /\
  match r with c :: _ => F.not_eol c = false | [] => True end.
Proof.
  intros Hx E. split; [apply (fspan_split _ _ _ _ E)|]. split; [|split; [|split]].
  - destruct (fspan_head _ _ _ _ _ Hx E) as (a' & ->). discriminate.
  - rewrite !(fspan_cons _ _ _ Hx) in E. injection E as <- <-. cbn [starts2 fst]. rewrite Z.eqb_refl. reflexivity.
  - apply (fspan_all _ _ _ _ E).
  - apply (fspan_stop _ _ _ _ E).
Qed.

Lemma lex1_inv s k a r : F.lex1 s = Some ((k, a), r) -> s = a ++ r /\ a <> [] /\ lex1_post k a r.
Proof.
  intros H. unfold F.lex1 in H. destruct s as [|c s']; [discriminate H|].
  destruct (F.is_blank c) eqn:Eb.
  { destruct (F.span F.is_blank (c :: s')) as [x y] eqn:E. injection H as <- <- <-.
    destruct (fspan_head _ _ _ _ _ Eb E) as (x' & ->).
    split; [apply (fspan_split _ _ _ _ E)|]. split; [discriminate|].
    split; [apply (fspan_all _ _ _ _ E) | apply (fspan_stop _ _ _ _ E)]. }
  destruct (c =? F.cNL) eqn:Enl.
  { injection H as <- <- <-. apply Z.eqb_eq in Enl. unfold F.cNL in Enl. subst c.
    split; [reflexivity|]. split; [discriminate|]. left; reflexivity. }
  destruct (c =? F.cCR) eqn:Ecr.
  { destruct s' as [|d r']; [discriminate H|]. destruct (d =? F.cNL) eqn:Ed; [|discriminate H]. injection H as <- <- <-.
    apply Z.eqb_eq in Ecr, Ed. unfold F.cCR, F.cNL in *. subst c d. split; [reflexivity|]. split; [discriminate|]. right; reflexivity. }
  destruct ((c =? F.cDASH) && starts_with [F.cDASH; F.cDASH] (c :: s')) eqn:Edd.
  { apply andb_true_iff in Edd. destruct Edd as [_ Edd]. apply starts_with_app in Edd. destruct Edd as (t0 & Edd).
    cbn [app] in Edd. injection Edd as -> ->. unfold F.cDASH in *. cbn [skipn] in H.
    destruct (F.long_open t0) as [[[n op] t]|] eqn:Elo.
    - destruct n; [|discriminate H]. destruct (F.find_long_close (F.long_closer 0) t) as [[x y]|] eqn:Efc; [|discriminate H].
      injection H as <- <- <-. apply long_open_split in Elo. destruct Elo as (E1 & _ & E2). rewrite (E2 eq_refl) in *.
      apply find_long_close_split in Efc. destruct Efc as (E3 & body & E4). subst t0 t x.
      change (F.long_closer 0) with [93; 93]. split; [cbn [app]; rewrite <- !app_assoc; reflexivity|]. split; [discriminate|].
      exists (body ++ [93]). cbn [app]. rewrite <- app_assoc. reflexivity.
    - destruct (F.span F.not_eol (45 :: 45 :: t0)) as [x y] eqn:E. injection H as <- <- <-.
      destruct (line_comment_inv 45 t0 x y eq_refl E) as (H1 & H2 & H3 & H4 & H5).
      split; [exact H1|]. split; [exact H2|]. split; [left; exact H3|]. split; [exact H4 | exact H5]. }
  destruct ((c =? F.cSLASH) && starts_with [F.cSLASH; F.cSLASH] (c :: s')) eqn:Ess.
  { apply andb_true_iff in Ess. destruct Ess as [_ Ess]. apply starts_with_app in Ess. destruct Ess as (t0 & Ess).
    cbn [app] in Ess. injection Ess as -> ->. unfold F.cSLASH in *.
    destruct (F.span F.not_eol (47 :: 47 :: t0)) as [x y] eqn:E. injection H as <- <- <-.
    destruct (line_comment_inv 47 t0 x y eq_refl E) as (H1 & H2 & H3 & H4 & H5).
    split; [exact H1|]. split; [exact H2|]. split; [right; exact H3|]. split; [exact H4 | exact H5]. }
  destruct ((c =? 34) || (c =? 39)).
  { destruct (F.scan_quoted c s') as [[x y]|] eqn:E; [|discriminate H]. injection H as <- <- <-.
    apply scan_quoted_split in E. subst s'. split; [reflexivity|]. split; [discriminate | exact I]. }
  destruct (c =? F.cLBR).
  { destruct (F.long_open (c :: s')) as [[[n op] t]|] eqn:Elo.
    - destruct (F.find_long_close (F.long_closer n) t) as [[x y]|] eqn:Efc; [|discriminate H]. injection H as <- <- <-.
      apply long_open_split in Elo. destruct Elo as (E1 & (e & E2) & _).
      apply find_long_close_split in Efc. destruct Efc as (E3 & _). rewrite E1, E3, app_assoc.
      split; [reflexivity|]. split; [rewrite E2; discriminate | exact I].
    - injection H as <- <- <-. split; [reflexivity|]. split; [discriminate | exact I]. }
  destruct (F.is_name_start c) eqn:Ens.
  { destruct (F.span F.is_name_char (c :: s')) as [x y] eqn:E. injection H as Hk <- <-.
    assert (Hc : F.is_name_char c = true) by (unfold F.is_name_char; rewrite Ens; reflexivity).
    destruct (fspan_head _ _ _ _ _ Hc E) as (x' & ->).
    split; [apply (fspan_split _ _ _ _ E)|]. split; [discriminate|]. rewrite <- Hk. destruct (F.is_keyword _); exact I. }
  destruct (F.is_digit c || _) eqn:Ed.
  { destruct (F.span F.is_num_char (c :: s')) as [x y] eqn:E. injection H as <- <- <-.
    assert (Hc : F.is_num_char c = true).
    { unfold F.is_num_char, F.is_name_char. apply orb_true_iff in Ed. destruct Ed as [Ed|Ed].
      - rewrite Ed, orb_true_r. reflexivity.
      - apply andb_true_iff in Ed. destruct Ed as [Ed _]. rewrite Ed. apply orb_true_r. }
    destruct (fspan_head _ _ _ _ _ Hc E) as (x' & ->).
    split; [apply (fspan_split _ _ _ _ E)|]. split; [discriminate | exact I]. }
  injection H as <- <- <-. split; [reflexivity|]. split; [discriminate | exact I].
Qed.

Lemma lex1_split s k a r : F.lex1 s = Some ((k, a), r) -> s = a ++ r /\ a <> [].
Proof. intros H. destruct (lex1_inv _ _ _ _ H) as (H1 & H2 & _). split; assumption. Qed.

(* a text that begins with a line end is read as a line end *)
Lemma lex1_nl_head c r t r2 : F.lex1 (c :: r) = Some (t, r2) -> F.not_eol c = false -> is_nlt t = true.
Proof.
  intros H Hc. assert (E : c = 10 \/ c = 13) by (unfold F.not_eol, F.cNL, F.cCR in Hc; lia). destruct E as [-> | ->].
  - change (F.lex1 (10 :: r)) with (Some ((F.KNl, [10]), r)) in H. injection H as <- _. reflexivity.
  - change (F.lex1 (13 :: r)) with
      (match r with d :: r' => if d =? F.cNL then Some ((F.KNl, [13; d]), r') else None | [] => None end) in H.
    destruct r as [|d r']; [discriminate H|]. destruct (d =? F.cNL); [|discriminate H]. injection H as <- _. reflexivity.
Qed.

(* a blank token begins with a blank *)
Lemma lex1_blank_head c r t r2 : F.lex1 (c :: r) = Some (t, r2) -> is_blankt t = true -> F.is_blank c = true.
Proof.
  destruct t as [k a]. intros H Hk. destruct (lex1_inv _ _ _ _ H) as (H1 & H2 & H3).
  destruct k; try discriminate Hk. cbn [lex1_post] in H3. destruct H3 as [H3 _].
  destruct a as [|x a]; [congruence|]. cbn [app] in H1. injection H1 as <- _. cbn [forallb] in H3.
  apply andb_true_iff in H3. apply H3.
Qed.

(* ====================================================================== what FmtShape.lex guarantees of the token list *)
Fixpoint wfl (ts : list ftok) : Prop :=
  match ts with
  | [] => True
  | t :: r' =>
    (if F.is_code t then snd t <> [] else wftok t) /\
    match fst t with
    | F.KBlank => match r' with n :: _ => is_blankt n = false | [] => True end
    | F.KLineComment => match r' with n :: _ => is_nlt n = true | [] => True end
    | _ => True
    end /\ wfl r'
  end.

Lemma lex_fuel_nil f : F.lex_fuel f [] = Some [].
Proof. destruct f; reflexivity. Qed.

Lemma lex_fuel_head f r n ts : F.lex_fuel f r = Some (n :: ts) -> exists c r' r2, r = c :: r' /\ F.lex1 (c :: r') = Some (n, r2).
Proof.
  destruct r as [|c r']; [rewrite lex_fuel_nil; discriminate|]. destruct f as [|f]; [discriminate|]. cbn [F.lex_fuel].
  destruct (F.lex1 (c :: r')) as [[t r2]|] eqn:E; [|discriminate]. destruct (F.lex_fuel f r2); [|discriminate].
  intros H. injection H as <- _. eauto.
Qed.

Lemma lex_fuel_wfl : forall f s ts, F.lex_fuel f s = Some ts -> crlf_only s = true -> wfl ts.
Proof.
  induction f as [|f IH]; intros s ts H Hcr.
  - destruct s; [|discriminate H]. injection H as <-. exact I.
  - destruct s as [|c s']; [injection H as <-; exact I|]. cbn [F.lex_fuel] in H.
    destruct (F.lex1 (c :: s')) as [[[k a] r]|] eqn:E; [|discriminate H].
    destruct (F.lex_fuel f r) as [ts'|] eqn:E2; [|discriminate H]. injection H as <-.
    destruct (lex1_inv _ _ _ _ E) as (Hs & Ha & Hp). rewrite Hs in Hcr.
    pose proof (crlf_only_suffix _ _ Hcr) as Hcr'. cbn [wfl fst snd]. split; [|split; [|apply (IH _ _ E2 Hcr')]].
    + destruct k; cbn [F.is_code fst snd wftok]; cbn [lex1_post] in Hp; try exact Ha.
      * split; [exact Ha | apply Hp].
      * exact Hp.
      * split; apply Hp.
      * split; [exact Hp|]. destruct Hp as (b & Hb). apply (crlf_only_prefix _ _ Hcr). rewrite Hb.
        change (45 :: 45 :: 91 :: 91 :: b ++ [93]) with ((45 :: 45 :: 91 :: 91 :: b) ++ [93]). apply no_final_cr_last. discriminate.
    + destruct k; try exact I; cbn [lex1_post] in Hp.
      * destruct ts' as [|n ts']; [exact I|]. destruct (lex_fuel_head _ _ _ _ E2) as (c2 & r' & r2 & -> & E3).
        destruct Hp as [_ Hp]. destruct (is_blankt n) eqn:Hn; [|reflexivity].
        rewrite (lex1_blank_head _ _ _ _ E3 Hn) in Hp. discriminate Hp.
      * destruct ts' as [|n ts']; [exact I|]. destruct (lex_fuel_head _ _ _ _ E2) as (c2 & r' & r2 & -> & E3).
        destruct Hp as (_ & _ & Hp). apply (lex1_nl_head _ _ _ _ E3 Hp).
Qed.

Theorem lex_wfl s ts : F.lex s = Some ts -> crlf_only s = true -> wfl ts.
Proof. apply lex_fuel_wfl. Qed.

(* ====================================================================== cutting at the first code token *)
Definition noncode (r : list ftok) : Prop := Forall (fun t => F.is_code t = false) r.

Lemma cut_code ts : noncode ts \/ exists r c rest, ts = r ++ c :: rest /\ noncode r /\ F.is_code c = true.
Proof.
  induction ts as [|t ts IH]; [left; constructor|]. destruct (F.is_code t) eqn:Et.
  - right. exists [], t, ts. split; [reflexivity|]. split; [constructor | exact Et].
  - destruct IH as [IH | (r & c & rest & -> & Hr & Hc)].
    + left. constructor; assumption.
    + right. exists (t :: r), c, rest. split; [reflexivity|]. split; [constructor; assumption | exact Hc].
Qed.

Lemma code_not_nlt c : F.is_code c = true -> is_nlt c = false.
Proof. destruct c as [[] x]; cbn; intros H; try reflexivity; discriminate H. Qed.

Lemma wfl_noncode ts : wfl ts -> noncode ts -> wfrun true ts.
Proof.
  induction ts as [|t ts IH]; intros Hw Hn; [exact I|]. inversion Hn as [|t0 ts0 Ht Hn']; subst.
  cbn [wfl] in Hw. rewrite Ht in Hw. destruct Hw as (H1 & H2 & H3). cbn [wfrun]. split; [exact H1|]. split; [|apply IH; assumption].
  destruct (fst t); try exact I; [exact H2|]. destruct ts; [reflexivity | exact H2].
Qed.

Lemma wfl_cut r c rest : wfl (r ++ c :: rest) -> noncode r -> F.is_code c = true -> wfrun false r /\ snd c <> [] /\ wfl rest.
Proof.
  intros Hw Hn Hc. induction r as [|t r IH].
  - cbn [app wfl] in Hw. rewrite Hc in Hw. destruct Hw as (H1 & _ & H3). split; [exact I|]. split; assumption.
  - inversion Hn as [|t0 ts0 Ht Hn']; subst. cbn [app wfl] in Hw. rewrite Ht in Hw. destruct Hw as (H1 & H2 & H3).
    destruct (IH H3 Hn') as (I1 & I2 & I3). split; [|split; assumption]. cbn [wfrun]. split; [exact H1|]. split; [|exact I1].
    destruct (fst t); try exact I.
    + destruct r; [exact I | exact H2].
    + destruct r; [|exact H2]. cbn [app] in H2. rewrite (code_not_nlt _ Hc) in H2. discriminate H2.
Qed.

(* ====================================================================== FmtShape.edge_norm through enr *)
Definition eolF (r : list ftok) : bool :=
  match r with [] => true | n :: _ => match fst n with F.KNl => true | _ => false end end.
Definition eolR (e : bool) (r : list ftok) : bool := match r with [] => e | n :: _ => is_nlt n end.

Lemma edge_norm_blank b x r :
  F.edge_norm b ((F.KBlank, x) :: r) = if b || eolF r then F.edge_norm b r else (F.KBlank, x) :: F.edge_norm false r.
Proof. reflexivity. Qed.

Lemma enr_blank e b x r :
  enr e b ((F.KBlank, x) :: r) = if b || eolR e r then enr e b r else (F.KBlank, x) :: enr e false r.
Proof. reflexivity. Qed.

Lemma eolF_cut r c rest : F.is_code c = true -> eolF (r ++ c :: rest) = eolR false r.
Proof. intros Hc. destruct r; [|reflexivity]. apply (code_not_nlt _ Hc). Qed.

Lemma eolF_eolR r : eolF r = eolR true r.
Proof. destruct r; reflexivity. Qed.

Lemma edge_norm_cut r : forall b c rest, noncode r -> F.is_code c = true ->
  F.edge_norm b (r ++ c :: rest) = enr false b r ++ c :: F.edge_norm false rest.
Proof.
  induction r as [|[k x] r IH]; intros b c rest Hn Hc.
  - cbn [app enr]. destruct c as [[] y]; try discriminate Hc; reflexivity.
  - inversion Hn as [|t0 ts0 Ht Hn']; subst. cbn [app].
    destruct k; try discriminate Ht.
    + rewrite edge_norm_blank, enr_blank, (eolF_cut _ _ _ Hc). destruct (b || eolR false r).
      * apply IH; assumption.
      * cbn [app]. f_equal. apply IH; assumption.
    + cbn [F.edge_norm enr fst snd app]. f_equal. apply IH; assumption.
    + cbn [F.edge_norm enr fst snd app]. f_equal. apply IH; assumption.
    + cbn [F.edge_norm enr fst snd app]. f_equal. apply IH; assumption.
Qed.

Lemma edge_norm_noncode r : forall b, noncode r -> F.edge_norm b r = enr true b r.
Proof.
  induction r as [|[k x] r IH]; intros b Hn; [reflexivity|].
  inversion Hn as [|t0 ts0 Ht Hn']; subst. destruct k; try discriminate Ht.
  - rewrite edge_norm_blank, enr_blank, eolF_eolR. destruct (b || eolR true r).
    + apply IH; assumption.
    + f_equal. apply IH; assumption.
  - cbn [F.edge_norm enr fst snd]. f_equal. apply IH; assumption.
  - cbn [F.edge_norm enr fst snd]. f_equal. apply IH; assumption.
  - cbn [F.edge_norm enr fst snd]. f_equal. apply IH; assumption.
Qed.

Lemma enr_noncode e r : forall b, noncode r -> noncode (enr e b r).
Proof.
  induction r as [|[k x] r IH]; intros b Hn; [constructor|].
  inversion Hn as [|t0 ts0 Ht Hn']; subst. destruct k; try discriminate Ht.
  - rewrite enr_blank. destruct (b || eolR e r); [apply IH; assumption|]. constructor; [reflexivity | apply IH; assumption].
  - cbn [enr fst snd]. constructor; [reflexivity | apply IH; assumption].
  - cbn [enr fst snd]. constructor; [reflexivity | apply IH; assumption].
  - cbn [enr fst snd]. constructor; [reflexivity | apply IH; assumption].
Qed.

(* the first code token of a list *)
Lemma first_code_eq (p1 : list ftok) : forall p2 c1 c2 e1 e2, noncode p1 -> noncode p2 -> F.is_code c1 = true -> F.is_code c2 = true ->
  p1 ++ c1 :: e1 = p2 ++ c2 :: e2 -> p1 = p2 /\ c1 = c2 /\ e1 = e2.
Proof.
  induction p1 as [|t p1 IH]; intros [|t' p2] c1 c2 e1 e2 H1 H2 Hc1 Hc2 E; cbn [app] in E.
  - injection E as <- <-. auto.
  - injection E as -> _. inversion H2 as [|? ? Ht _]; subst. congruence.
  - injection E as -> _. inversion H1 as [|? ? Ht _]; subst. congruence.
  - injection E as <- E. apply Forall_inv_tail in H1. apply Forall_inv_tail in H2.
    destruct (IH _ _ _ _ _ H1 H2 Hc1 Hc2 E) as (-> & -> & ->). auto.
Qed.

Lemma noncode_no_code p c e : noncode (p ++ c :: e) -> F.is_code c = true -> False.
Proof.
  intros H Hc. apply Forall_app in H. destruct H as [_ H]. inversion H as [|? ? Ht _]; subst. congruence.
Qed.

(* ====================================================================== marks *)
Lemma marksF_cons t ts : marksF (t :: ts) = fmark t ++ marksF ts.
Proof. reflexivity. Qed.

Lemma marksF_noncode r : noncode r -> marksF r = map Tr (map snd r).
Proof.
  induction 1 as [|t r Ht _ IH]; [reflexivity|]. rewrite marksF_cons, IH. unfold fmark. rewrite Ht. reflexivity.
Qed.

Lemma marksF_cut r c rest : noncode r -> F.is_code c = true ->
  marksF (r ++ c :: rest) = map Tr (map snd r) ++ map Cb (snd c) ++ marksF rest.
Proof.
  intros Hn Hc. rewrite marksF_app, marksF_cons, (marksF_noncode _ Hn). unfold fmark. rewrite Hc. reflexivity.
Qed.

Lemma map_snd_nil (r : list ftok) : map snd r = [] <-> r = [].
Proof. destruct r; split; intros H; try reflexivity; discriminate H. Qed.

(* the bytes of a code token after the first *)
Lemma Mrel_bytes w m1 m2 : Mrel false m1 m2 -> Mrel false (map Cb w ++ m1) (map Cb w ++ m2).
Proof.
  intros H. induction w as [|y w IH]; [exact H|]. cbn [map app].
  apply (Mrel_code false [] [] y _ _).
  - reflexivity.
  - intros _. split; [|split; reflexivity]. right. split; left; reflexivity.
  - exact IH.
Qed.

(* ====================================================================== the decision against Mrel *)

Lemma mrel_gen : forall n a ts1 ts2, (length ts1 < n)%nat -> wfl ts1 -> wfl ts2 -> F.edge_norm a ts1 = F.edge_norm a ts2 ->
  Mrel a (marksF ts1) (marksF ts2).
Proof.
  induction n as [|n IH]; intros a ts1 ts2 Hlen W1 W2 E; [lia|].
  destruct (cut_code ts1) as [N1 | (r1 & c1 & rest1 & -> & N1 & C1)];
  destruct (cut_code ts2) as [N2 | (r2 & c2 & rest2 & -> & N2 & C2)].
  - rewrite (edge_norm_noncode _ _ N1), (edge_norm_noncode _ _ N2) in E.
    rewrite (marksF_noncode _ N1), (marksF_noncode _ N2).
    pose proof (wfl_noncode _ W1 N1) as R1. pose proof (wfl_noncode _ W2 N2) as R2.
    apply Mrel_end.
    + apply (run_norm a true _ _ R1 R2 E).
    + intros ->. apply (run_hd true _ _ R1 R2 E).
  - exfalso. rewrite (edge_norm_noncode _ _ N1), (edge_norm_cut _ _ _ _ N2 C2) in E.
    pose proof (enr_noncode true _ a N1) as H. rewrite E in H. apply (noncode_no_code _ _ _ H C2).
  - exfalso. rewrite (edge_norm_noncode _ _ N2), (edge_norm_cut _ _ _ _ N1 C1) in E.
    pose proof (enr_noncode true _ a N2) as H. rewrite <- E in H. apply (noncode_no_code _ _ _ H C1).
  - rewrite (edge_norm_cut _ _ _ _ N1 C1), (edge_norm_cut _ _ _ _ N2 C2) in E.
    apply first_code_eq in E; [|apply enr_noncode; assumption|apply enr_noncode; assumption|assumption|assumption].
    destruct E as (Er & <- & Erest).
    destruct (wfl_cut _ _ _ W1 N1 C1) as (R1 & Hc1 & W1'). destruct (wfl_cut _ _ _ W2 N2 C2) as (R2 & _ & W2').
    rewrite (marksF_cut _ _ _ N1 C1), (marksF_cut _ _ _ N2 C1).
    destruct (snd c1) as [|x w]; [congruence|]. cbn [map app].
    apply (Mrel_code a (map snd r1) (map snd r2) x).
    + apply (run_norm a false _ _ R1 R2 Er).
    + intros ->. split; [apply (run_hd false _ _ R1 R2 Er)|]. rewrite !map_snd_nil. apply (run_nil _ _ R1 R2 Er).
    + apply Mrel_bytes. apply IH; [|assumption|assumption|exact Erest].
      rewrite app_length in Hlen. cbn [length] in Hlen. lia.
Qed.

(* two texts the monitor relates: the marks of their FmtShape token lists are related by Mrel *)
Theorem edges_mrel s1 s2 ts1 ts2 : crlf_only s1 = true -> crlf_only s2 = true -> F.lex s1 = Some ts1 -> F.lex s2 = Some ts2 ->
  F.stoks_eqb (F.edge_norm true ts1) (F.edge_norm true ts2) = true -> Mrel true (marksF ts1) (marksF ts2).
Proof.
  intros Hc1 Hc2 L1 L2 E. apply stoks_eqb_eq in E.
  apply (mrel_gen (S (length ts1)) true ts1 ts2); [apply le_n | apply (lex_wfl _ _ L1 Hc1) | apply (lex_wfl _ _ L2 Hc2) | exact E].
Qed.

