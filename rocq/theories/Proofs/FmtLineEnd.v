(* When does a formatted white-space run end in "line feed, blanks" - i.e. when can the token after it begin a line?
   (lemmas for Properties/C10.v, whole-program indentation)

     fmt_run_ends_line   if fmt_run's output (not the run that ends the file) ends in a line feed followed by blanks only,
                         then so does the run itself after the tab / line-end normalisation canon_ws
     trivia_tidy ts      a computable check on the white-space / comment tokens of a token list: a token that is not a
                         newline token does not END a line, i.e. no CR / LF byte of its code is followed by blanks only up
                         to the end of the code (true of picotool's lexer: space tokens are [ \t]+, `--` / `//` comments
                         stop before the line end, block comments end in `]]`)
     tidy_run_newline    hence: a run of tidy tokens whose formatted text ends in "line feed, blanks" holds a newline TOKEN *)
From PV Require Import Base.Prelude Spec.LuaTokens Model.FmtSpaces Model.FmtSpacesInst
  Proofs.FmtSpacesProofs Proofs.FmtLinesProofs Proofs.FmtChunksProofs.
From Coq Require Import Lia.

(* ------------------------------------------------------------------ the last line of the run *)
Lemma last_map {A B} (g : A -> B) l d d' : l <> [] -> last (map g l) d = g (last l d').
Proof.
  induction l as [|x r IH]; [congruence|]. intros _. destruct r as [|y r]; [reflexivity|].
  change (last (map g (x :: y :: r)) d) with (last (map g (y :: r)) d). rewrite IH by discriminate. reflexivity.
Qed.

Lemma last_map_init g L d : last (map_init g L) d = last L d.
Proof.
  unfold map_init. induction L as [|l r IH]; [reflexivity|]. destruct r as [|l' r'].
  - reflexivity.
  - change (map_last (fun (last : bool) (l0 : list Z) => if last then l0 else g l0) (l :: l' :: r'))
      with (g l :: map_last (fun (last : bool) (l0 : list Z) => if last then l0 else g l0) (l' :: r')).
    rewrite last_cons by (apply map_last_nonempty; discriminate). rewrite IH. reflexivity.
Qed.

Theorem fmt_run_ends_line cfg r p q : f_at_end cfg = false ->
  fmt_run cfg r = p ++ NL :: q -> noNL q -> forallb is_sp q = true ->
  exists p' q', canon_ws r = p' ++ NL :: q' /\ noNL q' /\ forallb is_sp q' = true.
Proof.
  intros He Ho Hq Hsp.
  destruct (split_nl (canon_ws r)) as [|l0 ls] eqn:HS; [destruct (split_nl_nonempty _ HS)|].
  rewrite (fmt_run_lines cfg r l0 ls HS), He in Ho.
  pose proof (split_nl_noNL (canon_ws r)) as HN. rewrite HS in HN.
  pose proof (noNL_fmt_lines cfg l0 ls HN) as HM.
  apply (f_equal split_nl) in Ho.
  unfold fmt_lines in Ho, HM. rewrite split_joinl in Ho by exact HM.
  rewrite split_nl_app_nl, (split_nl_noNL_line q Hq) in Ho.
  destruct (split_nl p) as [|p0 pt] eqn:EP; [destruct (split_nl_nonempty _ EP)|].
  cbn [app] in Ho. injection Ho as _ Ho.
  assert (Hl : last (sq (fmt_tail cfg ls)) [] = q) by (rewrite Ho; apply last_last).
  assert (Hne : fmt_tail cfg ls <> []).
  { intros E. rewrite E in Ho. cbn in Ho. destruct pt; discriminate. }
  assert (Hls : ls <> []) by (intros E; apply Hne; rewrite E; reflexivity).
  rewrite last_sq in Hl by exact Hne. unfold fmt_tail in Hl.
  rewrite last_map_last in Hl by (intros E; apply map_eq_nil in E; apply map_eq_nil in E; destruct ls; [congruence | discriminate E]).
  assert (Hbl : forallb is_sp (last ls []) = true).
  { set (x := last (map (reind SLASH (indent_bytes cfg)) (map (reind DASH (indent_bytes cfg)) (map_init rstrip ls))) []) in *.
    assert (Hx : forallb is_sp x = true).
    { unfold indent_last in Hl. cbn [andb] in Hl. destruct (forallb is_sp x) eqn:F; [reflexivity | rewrite Hl in F; congruence]. }
    unfold x in Hx.
    rewrite (last_map _ _ _ []) in Hx by (intros E; apply map_eq_nil in E; destruct ls; [congruence | discriminate E]).
    rewrite (last_map _ _ _ []) in Hx by (destruct ls; [congruence | discriminate]).
    rewrite last_map_init in Hx. unfold indent_bytes in Hx.
    change (reind SLASH ?i (reind DASH ?i ?l)) with (reind2 i l) in Hx. rewrite all_sp_reind2 in Hx. exact Hx. }
  destruct (exists_last Hls) as (ls' & lz & Els). rewrite Els, last_last in Hbl.
  exists (joinl (l0 :: ls')), lz. split; [|split; [|exact Hbl]].
  - rewrite <- (joinl_split (canon_ws r)), HS, Els. change (l0 :: ls' ++ [lz]) with ((l0 :: ls') ++ [lz]).
    apply joinl_snoc. discriminate.
  - inversion HN as [|? ? _ HN']; subst. rewrite Forall_forall in HN'. apply HN'. apply in_or_app. right. left. reflexivity.
Qed.

(* ------------------------------------------------------------------ tokens that do not end a line *)
Definition is_eolb (c : Z) : bool := (c =? NL) || (c =? CR).
Definition is_blankb (c : Z) : bool := (c =? SP) || (c =? TAB).

(* some CR / LF byte of s is followed by blanks only, up to the end of s *)
Fixpoint ends_line (s : list Z) : bool :=
  match s with
  | [] => false
  | c :: r => (is_eolb c && forallb is_blankb r) || ends_line r
  end.

(* every white-space / comment token that is not a newline token does not end a line *)
Definition trivia_tidy (ts : list token) : bool :=
  forallb (fun t => negb (is_trivia t) || is_newline t || negb (ends_line (tcode t))) ts.

Definition eolfree (s : list Z) : Prop := forallb (fun c => negb (is_eolb c)) s = true.
(* after the last CR / LF byte comes a byte that is neither blank nor line end *)
Definition codetail (s : list Z) : Prop :=
  exists a c b, s = a ++ c :: b /\ is_eolb c = false /\ is_blankb c = false /\ eolfree b.

Lemma eolfree_app a b : eolfree (a ++ b) <-> eolfree a /\ eolfree b.
Proof. unfold eolfree. rewrite forallb_app, andb_true_iff. reflexivity. Qed.

Lemma first_nonblank r : eolfree r -> forallb is_blankb r = false ->
  exists a x b, r = a ++ x :: b /\ is_eolb x = false /\ is_blankb x = false /\ eolfree b.
Proof.
  induction r as [|x r IH]; intros Hr H; [discriminate H|].
  unfold eolfree in Hr. cbn [forallb] in Hr, H. apply andb_true_iff in Hr. destruct Hr as [Hx Hr]. apply negb_true_iff in Hx.
  destruct (is_blankb x) eqn:Ex.
  - cbn [andb] in H. destruct (IH Hr H) as (a & y & b & -> & H1 & H2 & H3).
    exists (x :: a), y, b. split; [reflexivity|]. split; [exact H1|]. split; [exact H2 | exact H3].
  - exists [], x, r. split; [reflexivity|]. split; [exact Hx|]. split; [exact Ex | exact Hr].
Qed.

Lemma ends_line_false s : ends_line s = false -> eolfree s \/ codetail s.
Proof.
  induction s as [|c r IH]; intros H; [left; reflexivity|]. cbn [ends_line] in H. apply orb_false_iff in H. destruct H as [H1 H2].
  destruct (IH H2) as [Hr | (a & c' & b & -> & Hc1 & Hc2 & Hb)].
  - destruct (is_eolb c) eqn:Ec.
    + cbn [andb] in H1. right. destruct (first_nonblank r Hr H1) as (a & x & b & -> & Hx1 & Hx2 & Hb).
      exists (c :: a), x, b. split; [reflexivity|]. split; [exact Hx1|]. split; [exact Hx2 | exact Hb].
    + left. unfold eolfree. cbn [forallb]. rewrite Ec. exact Hr.
  - right. exists (c :: a), c', b. split; [reflexivity|]. split; [exact Hc1|]. split; [exact Hc2 | exact Hb].
Qed.

Lemma concat_tail (L : list (list Z)) : Forall (fun s => ends_line s = false) L -> eolfree (concat L) \/ codetail (concat L).
Proof.
  induction 1 as [|s L Hs HL IH]; [left; reflexivity|]. cbn [concat].
  destruct IH as [Hr | (a & c & b & E & Hc1 & Hc2 & Hb)].
  - destruct (ends_line_false s Hs) as [Hs1 | (a & c & b & -> & Hc1 & Hc2 & Hb)].
    + left. apply eolfree_app. split; assumption.
    + right. exists a, c, (b ++ concat L). rewrite <- app_assoc. split; [reflexivity|]. split; [exact Hc1|]. split; [exact Hc2|].
      apply eolfree_app. split; assumption.
  - right. exists (s ++ a), c, b. rewrite E, <- app_assoc. split; [reflexivity|]. split; [exact Hc1|]. split; [exact Hc2 | exact Hb].
Qed.

(* ------------------------------------------------------------------ canon_ws on such texts *)
Lemma resub_byte_map a b s : resub (m_byte a b) 0 s = map (fun c => if c =? a then b else c) s.
Proof.
  induction s as [|c r IH]; [reflexivity|]. cbn [resub map]. unfold m_byte at 1. destruct (c =? a); cbn [app]; rewrite IH; reflexivity.
Qed.

Lemma resub_none m c r : m (c :: r) = None -> resub m 0 (c :: r) = c :: resub m 0 r.
Proof. intros H. cbn [resub]. rewrite H. reflexivity. Qed.

Lemma resub_some m c r rep k : m (c :: r) = Some (rep, S k) -> resub m 0 (c :: r) = rep ++ resub m k r.
Proof. intros H. cbn [resub]. rewrite H. reflexivity. Qed.

Lemma resub_pair_split x y z c b : c <> x -> c <> y -> forall n a, (length a <= n)%nat ->
  resub (m_pair x y z) 0 (a ++ c :: b) = resub (m_pair x y z) 0 a ++ c :: resub (m_pair x y z) 0 b.
Proof.
  intros Hx Hy.
  assert (Ex : (c =? x) = false) by (apply Z.eqb_neq; exact Hx). assert (Ey : (c =? y) = false) by (apply Z.eqb_neq; exact Hy).
  assert (H0 : resub (m_pair x y z) 0 (c :: b) = c :: resub (m_pair x y z) 0 b).
  { apply resub_none. unfold m_pair. destruct b; [reflexivity|]. rewrite Ex. reflexivity. }
  induction n as [|n IH]; intros a Hn.
  - destruct a; [|cbn in Hn; lia]. exact H0.
  - destruct a as [|u [|v a']].
    + exact H0.
    + change ([u] ++ c :: b) with (u :: c :: b). rewrite resub_none by (unfold m_pair; rewrite Ey, andb_false_r; reflexivity).
      rewrite H0. reflexivity.
    + change ((u :: v :: a') ++ c :: b) with (u :: v :: a' ++ c :: b).
      destruct ((u =? x) && (v =? y)) eqn:E.
      * rewrite (resub_some _ _ _ [z] 1) by (unfold m_pair; rewrite E; reflexivity).
        rewrite (resub_some _ u (v :: a') [z] 1) by (unfold m_pair; rewrite E; reflexivity).
        cbn [resub app]. f_equal. apply IH. cbn in Hn. lia.
      * rewrite resub_none by (unfold m_pair; rewrite E; reflexivity).
        rewrite (resub_none _ u (v :: a')) by (unfold m_pair; rewrite E; reflexivity).
        cbn [app]. f_equal. apply (IH (v :: a')). cbn in Hn |- *. lia.
Qed.

Definition t2s (c : Z) : Z := if c =? TAB then SP else c.
Definition c2n (c : Z) : Z := if c =? CR then NL else c.

Lemma resub_t2s s : resub (m_byte TAB SP) 0 s = map t2s s.
Proof. apply resub_byte_map. Qed.
Lemma resub_c2n s : resub (m_byte CR NL) 0 s = map c2n s.
Proof. apply resub_byte_map. Qed.

Lemma eolfree_no x s : eolfree s -> is_eolb x = true -> ~ In x s.
Proof.
  unfold eolfree. rewrite forallb_forall. intros H Hx Hin. specialize (H x Hin). rewrite Hx in H. discriminate H.
Qed.

Lemma eolfree_t2s s : eolfree s -> eolfree (map t2s s).
Proof.
  unfold eolfree. rewrite !forallb_forall. intros H x Hx. apply in_map_iff in Hx. destruct Hx as (y & <- & Hy).
  specialize (H y Hy). unfold t2s. destruct (y =? TAB); [reflexivity | exact H].
Qed.

Lemma map_c2n_id s : ~ In CR s -> map c2n s = s.
Proof.
  induction s as [|c r IH]; intros H; [reflexivity|]. cbn [map]. rewrite IH by (intros Hr; apply H; right; exact Hr).
  unfold c2n. destruct (c =? CR) eqn:E; [apply Z.eqb_eq in E; subst; exfalso; apply H; left; reflexivity | reflexivity].
Qed.

Lemma canon_eolfree s : eolfree s -> noNL (canon_ws s).
Proof.
  intros H. unfold canon_ws. rewrite resub_t2s. pose proof (eolfree_t2s s H) as H1.
  rewrite (resub_pair_id CR NL NL) by (left; apply eolfree_no; [exact H1 | reflexivity]).
  rewrite (resub_pair_id NL CR NL) by (left; apply eolfree_no; [exact H1 | reflexivity]).
  rewrite resub_byte_id by (apply eolfree_no; [exact H1 | reflexivity]).
  unfold noNL. apply Forall_forall. intros x Hx ->. exact (eolfree_no NL _ H1 eq_refl Hx).
Qed.

Lemma canon_codetail s : codetail s -> exists X c b, canon_ws s = X ++ c :: b /\ c <> SP /\ c <> NL /\ noNL b.
Proof.
  intros (a & c & b & -> & Hc1 & Hc2 & Hb). unfold is_eolb in Hc1. unfold is_blankb in Hc2.
  apply orb_false_iff in Hc1. destruct Hc1 as [HcN HcC]. apply orb_false_iff in Hc2. destruct Hc2 as [HcS HcT].
  apply Z.eqb_neq in HcN, HcC, HcS, HcT.
  pose proof (eolfree_t2s b Hb) as Hb1. set (b1 := map t2s b) in *.
  assert (HbN : ~ In NL b1) by (apply eolfree_no; [exact Hb1 | reflexivity]).
  assert (HbC : ~ In CR b1) by (apply eolfree_no; [exact Hb1 | reflexivity]).
  unfold canon_ws. rewrite resub_t2s. rewrite map_app. cbn [map]. fold b1.
  replace (t2s c) with c by (unfold t2s; destruct (c =? TAB) eqn:E; [apply Z.eqb_eq in E; congruence | reflexivity]).
  rewrite (resub_pair_split CR NL NL c b1 HcC HcN _ _ (le_n _)).
  rewrite (resub_pair_id CR NL NL b1) by (left; exact HbC).
  rewrite (resub_pair_split NL CR NL c b1 HcN HcC _ _ (le_n _)).
  rewrite (resub_pair_id NL CR NL b1) by (left; exact HbN).
  rewrite resub_c2n. rewrite map_app. cbn [map]. rewrite (map_c2n_id b1 HbC).
  replace (c2n c) with c by (unfold c2n; destruct (c =? CR) eqn:E; [apply Z.eqb_eq in E; congruence | reflexivity]).
  eexists _, c, b1. split; [reflexivity|]. split; [exact HcS|]. split; [exact HcN|].
  unfold noNL. apply Forall_forall. intros x Hx ->. exact (HbN Hx).
Qed.

(* a run of tokens none of which ends a line: its normalised text does not end in "line feed, blanks" *)
Lemma tidy_codes_no_line_end (run : list token) p q :
  Forall (fun t => ends_line (tcode t) = false) run ->
  canon_ws (run_code run) = p ++ NL :: q -> noNL q -> forallb is_sp q = true -> False.
Proof.
  intros Hr E Hq Hsp. unfold run_code in E.
  assert (HL : Forall (fun s => ends_line s = false) (map tcode run)).
  { apply Forall_forall. intros s Hs. apply in_map_iff in Hs. destruct Hs as (t & <- & Ht). rewrite Forall_forall in Hr. exact (Hr t Ht). }
  destruct (concat_tail _ HL) as [Hf | Hc].
  - pose proof (canon_eolfree _ Hf) as Hn. rewrite E in Hn. unfold noNL in Hn. rewrite Forall_forall in Hn.
    apply (Hn NL); [apply in_or_app; right; left; reflexivity | reflexivity].
  - destruct (canon_codetail _ Hc) as (X & c & b & E2 & HcS & HcN & Hb). rewrite E2 in E.
    apply (f_equal lastline) in E. rewrite lastline_nl in E by exact Hq.
    rewrite lastline_app_noNL in E by (constructor; assumption). rewrite <- E, all_sp_app in Hsp.
    apply andb_true_iff in Hsp. destruct Hsp as [_ Hsp]. cbn [forallb] in Hsp. apply andb_true_iff in Hsp. destruct Hsp as [Hsp _].
    unfold is_sp in Hsp. apply Z.eqb_eq in Hsp. contradiction.
Qed.

(* hence: tidy white-space tokens whose formatted text lets the next token begin a line include a newline token *)
Theorem tidy_run_newline w s ind (run : list token) p q :
  Forall (fun t => is_newline t = true \/ ends_line (tcode t) = false) run ->
  fmt_spaces w s ind false run = p ++ NL :: q -> noNL q -> forallb is_sp q = true ->
  existsb is_newline run = true.
Proof.
  intros Hr E Hq Hsp. destruct (existsb is_newline run) eqn:Ex; [reflexivity|]. exfalso.
  unfold fmt_spaces in E. destruct (fmt_run_ends_line (mk_fcfg (s =? 0) false w ind) _ _ _ eq_refl E Hq Hsp) as (p' & q' & E' & Hq' & Hsp').
  apply (tidy_codes_no_line_end run p' q'); [|exact E' | exact Hq' | exact Hsp'].
  apply Forall_forall. intros t Ht. rewrite Forall_forall in Hr. destruct (Hr t Ht) as [Hn | Hn]; [|exact Hn].
  exfalso. assert (Hx : existsb is_newline run = true) by (apply existsb_exists; exists t; split; assumption). congruence.
Qed.
