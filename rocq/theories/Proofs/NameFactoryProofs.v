(* Lemmas about Model/NameFactory.v (MinifyNameFactory of pico8/lua/lua.py). *)
From PV Require Import Base.Prelude Generated.T_luanames Generated.T_lexer Model.NameFactory.
From PV Require Import Generated.T_minwiring_lua Generated.T_minwiring_tool Generated.T_minwiring_build.
From Coq Require Import ZifyBool.
Ltac Zify.zify_post_hook ::= Z.to_euclidean_division_equations.

(* ---------- pins: source text of the parts of _name_for_id that are not integer kernels ---------- *)
Lemma pin_nfi_quotient_src :
  nfi_quotient_src = "int(id / len(MinifyNameFactory.NAME_CHARS))"%bs.
Proof. reflexivity. Qed.

Lemma pin_nfi_return_src :
  nfi_return_src = "first + bytes([MinifyNameFactory.NAME_CHARS[id % len(MinifyNameFactory.NAME_CHARS)]])"%bs.
Proof. reflexivity. Qed.

(* the control flow Model.get_short_name mirrors (docstring and util.debug call dropped) *)
Lemma pin_gsn_body_src : gsn_body_src =
"if self._keep_all_names:
    return name
if name in MinifyNameFactory.PRESERVED_NAMES:
    return name
if self._names_to_keep is not None and name in self._names_to_keep:
    return name
if name not in self._name_map:
    new_name = None
    while True:
        new_name = self._name_for_id(self._next_name_id)
        self._next_name_id += 1
        if new_name not in MinifyNameFactory.PRESERVED_NAMES and (self._names_to_keep is None or new_name not in self._names_to_keep):
            break
    self._name_map[name] = new_name
return self._name_map[name]"%bs.
Proof. reflexivity. Qed.

(* the writer: one factory per run, names and labels (without their colons) go through it *)
Lemma pin_mtw_factory_src : mtw_factory_src =
"MinifyNameFactory(keep_property_names=self._args.get('keep_property_names', False), keep_all_names=self._args.get('keep_all_names', False), keep_names_from_file=self._args.get('keep_names_from_file'))"%bs.
Proof. reflexivity. Qed.
Lemma pin_mtw_name_call_src : mtw_name_call_src = "self._name_factory.get_short_name(token.code)"%bs.
Proof. reflexivity. Qed.
Lemma pin_mtw_label_call_src : mtw_label_call_src = "self._name_factory.get_short_name(token.code[2:-2])"%bs.
Proof. reflexivity. Qed.
Lemma pin_mtw_branch_tests_src :
  mtw_branch_tests_src = "token.matches(lexer.TokName) | token.matches(lexer.TokLabel)"%bs.
Proof. reflexivity. Qed.

(* the command-line wiring modelled by luamin_config / build_minify_config *)
Lemma pin_luamin_writer_src : luamin_writer_src =
"lua_writer_cls=lua.LuaMinifyTokenWriter, lua_writer_args={'keep_all_names': args.keep_all_names, 'keep_names_from_file': args.keep_names_from_file}"%bs.
Proof. reflexivity. Qed.
Lemma pin_build_writer_selection_src : build_writer_selection_src =
"lua_writer_cls = None
lua_writer_args = None
if getattr(args, 'lua_format', False):
    lua_writer_cls = (lua.LuaFormatterWriter,)
    lua_writer_args = {'indentwidth': args.indentwidth, 'keep_all_names': args.keep_all_names, 'keep_names_from_file': args.keep_names_from_file}
elif getattr(args, 'lua_minify', False):
    lua_writer_cls = lua.LuaMinifyTokenWriter
    lua_writer_args = {'keep_all_names': args.keep_all_names, 'keep_names_from_file': args.keep_names_from_file}
file.to_file(result, filename=args.filename, lua_writer_cls=lua_writer_cls, lua_writer_args=lua_writer_args)"%bs.
Proof. reflexivity. Qed.

(* ---------- the regenerated kernels and tables, as the proofs use them ---------- *)
Local Notation B := (zlen name_chars).

Lemma base_ge_2 : 2 <= B.
Proof. apply Z.leb_le. vm_compute. reflexivity. Qed.

Lemma nfi_recurse_spec id : nfi_recurse id = (B <=? id).
Proof. unfold nfi_recurse. rewrite Z.geb_leb. reflexivity. Qed.

Lemma nfi_digit_idx_spec id : nfi_digit_idx id = id mod B.
Proof. reflexivity. Qed.

Lemma chars_ok_now : chars_ok = true.
Proof. vm_compute. reflexivity. Qed.

Lemma chars_ident_ok_now : chars_ident_ok = true.
Proof. vm_compute. reflexivity. Qed.

Lemma preserved_ok_now : preserved_ok = true.
Proof. vm_compute. reflexivity. Qed.

Lemma in_names_In n l : in_names n l = true <-> In n l.
Proof.
  unfold in_names. rewrite existsb_exists. split.
  - intros (x & Hx & E). apply zlist_eqb_eq in E. subst x. exact Hx.
  - intros H. exists n. split; [exact H | apply zlist_eqb_eq; reflexivity].
Qed.

Lemma in_names_false n l : in_names n l = false <-> ~ In n l.
Proof.
  rewrite <- in_names_In. destruct (in_names n l); split; intros H; congruence.
Qed.

Lemma preserved_spec n : In n preserved_names <-> In n lua_keywords \/ In n pico8_builtins.
Proof.
  pose proof preserved_ok_now as H. unfold preserved_ok in H.
  apply andb_true_iff in H. destruct H as [H1 H2].
  rewrite forallb_forall in H1, H2. rewrite <- in_app_iff. split; intros Hn.
  - apply in_names_In, H1, Hn.
  - apply in_names_In, H2, Hn.
Qed.

Lemma name_char_at_ok k : 0 <= k < B ->
  exists c, name_char_at k = Ok c /\ index_of c name_chars = k /\ In c name_chars.
Proof.
  intros Hk. pose proof (sweep_upto _ _ chars_ok_now k Hk) as H. cbv beta in H.
  unfold name_char_at. destruct (k <? 0) eqn:E; [lia|].
  destruct (nth_error name_chars (Z.to_nat k)) as [c|] eqn:En; [|discriminate].
  exists c. split; [reflexivity|]. split; [lia|]. eapply nth_error_In, En.
Qed.

(* ---------- _name_for_id: total, decodable, hence injective ---------- *)

Lemma divmod_eq b x : 0 < b -> x / b * b + x mod b = x.
Proof. intros Hb. rewrite Z.mul_comm. symmetry. apply Z.div_mod. lia. Qed.

Lemma id_of_name_snoc first c :
  id_of_name (first ++ [c]) = id_of_name first * B + index_of c name_chars.
Proof. unfold id_of_name. rewrite fold_left_app. reflexivity. Qed.

Lemma name_for_id_fuel_S f id :
  name_for_id_fuel (S f) id =
  (first <- (if B <=? id then name_for_id_fuel f (nfi_quotient id) else Ok []) ;;
   c <- name_char_at (id mod B) ;; Ok (first ++ [c])).
Proof. cbn [name_for_id_fuel]. rewrite nfi_recurse_spec, nfi_digit_idx_spec. reflexivity. Qed.

Lemma name_for_id_fuel_decode f : forall id n, 0 <= id ->
  name_for_id_fuel f id = Ok n ->
  id_of_name n = id /\ n <> [] /\ Forall (fun c => In c name_chars) n.
Proof.
  pose proof base_ge_2 as HB.
  induction f as [|f IH]; intros id n Hid H; [discriminate|].
  rewrite name_for_id_fuel_S in H.
  destruct (name_char_at_ok (id mod B)) as (c & Hc & Hi & Hin); [apply Z.mod_pos_bound; lia|].
  destruct (B <=? id) eqn:E.
  - destruct (name_for_id_fuel f (nfi_quotient id)) as [first|e] eqn:Ef; cbn [bind] in H; [|discriminate].
    rewrite Hc in H. cbn [bind] in H. injection H as <-.
    apply IH in Ef; [|unfold nfi_quotient; apply Z.div_pos; lia].
    destruct Ef as (Hd & _ & Hall). split; [|split].
    + rewrite id_of_name_snoc, Hd, Hi. unfold nfi_quotient. apply divmod_eq. lia.
    + destruct first; discriminate.
    + apply Forall_app. split; [exact Hall | constructor; [exact Hin | constructor]].
  - cbn [bind] in H. rewrite Hc in H. cbn [bind] in H. injection H as <-. split; [|split].
    + change ([] ++ [c]) with [c]. unfold id_of_name. cbn [fold_left]. rewrite Hi.
      rewrite Z.mul_0_l, Z.add_0_l. apply Z.mod_small. lia.
    + discriminate.
    + constructor; [exact Hin | constructor].
Qed.

Lemma name_for_id_fuel_total f : forall id, 0 <= id < 2 ^ Z.of_nat f ->
  exists n, name_for_id_fuel (S f) id = Ok n.
Proof.
  pose proof base_ge_2 as HB.
  induction f as [|f IH]; intros id Hid.
  - change (2 ^ Z.of_nat 0) with 1 in Hid. assert (id = 0) by lia. subst id.
    rewrite name_for_id_fuel_S.
    destruct (B <=? 0) eqn:E; [lia|]. cbn [bind].
    destruct (name_char_at_ok (0 mod B)) as (c & Hc & _); [apply Z.mod_pos_bound; lia|].
    rewrite Hc. cbn [bind]. eexists. reflexivity.
  - rewrite name_for_id_fuel_S.
    destruct (name_char_at_ok (id mod B)) as (c & Hc & _); [apply Z.mod_pos_bound; lia|].
    destruct (B <=? id) eqn:E.
    + destruct (IH (nfi_quotient id)) as (first & Hf).
      * unfold nfi_quotient. split; [apply Z.div_pos; lia|].
        apply Z.div_lt_upper_bound; [lia|].
        rewrite Nat2Z.inj_succ, Z.pow_succ_r in Hid by lia.
        assert (0 < 2 ^ Z.of_nat f) by (apply Z.pow_pos_nonneg; lia).
        apply Z.lt_le_trans with (2 * 2 ^ Z.of_nat f); [lia|].
        apply Z.mul_le_mono_nonneg_r; lia.
      * rewrite Hf. cbn [bind]. rewrite Hc. cbn [bind]. eexists. reflexivity.
    + cbn [bind]. rewrite Hc. cbn [bind]. eexists. reflexivity.
Qed.

Lemma name_for_id_total id : 0 <= id -> exists n, name_for_id id = Ok n.
Proof.
  intros Hid. unfold name_for_id, nfi_fuel. apply name_for_id_fuel_total.
  split; [exact Hid|]. rewrite Nat2Z.inj_succ, Z2Nat.id by apply Z.log2_nonneg.
  destruct (Z.eq_dec id 0) as [->|Hn]; [reflexivity|].
  apply Z.log2_spec. lia.
Qed.

Lemma name_for_id_decode id n : 0 <= id -> name_for_id id = Ok n ->
  id_of_name n = id /\ n <> [] /\ Forall (fun c => In c name_chars) n.
Proof. intros Hid H. eapply name_for_id_fuel_decode; eassumption. Qed.

Lemma name_for_id_injective i j : 0 <= i -> 0 <= j -> name_for_id i = name_for_id j -> i = j.
Proof.
  intros Hi Hj E. destruct (name_for_id_total i Hi) as (n & Hn).
  pose proof Hn as Hn'. rewrite E in Hn'.
  apply name_for_id_decode in Hn; [|exact Hi]. apply name_for_id_decode in Hn'; [|exact Hj].
  destruct Hn as [<- _]. destruct Hn' as [<- _]. reflexivity.
Qed.

Lemma name_for_id_never_runs_out id : 0 <= id -> name_for_id id <> Err OutOfFuel.
Proof. intros Hid. destruct (name_for_id_total id Hid) as (n & ->). discriminate. Qed.

Lemma ident_start_chars c : In c name_chars -> ident_start c = true.
Proof.
  pose proof chars_ident_ok_now as H. unfold chars_ident_ok in H. rewrite forallb_forall in H. apply H.
Qed.

Lemma name_for_id_identifier id n : 0 <= id -> name_for_id id = Ok n ->
  n <> [] /\ Forall (fun c => ident_start c = true) n.
Proof.
  intros Hid H. destruct (name_for_id_decode id n Hid H) as (_ & Hne & Hall).
  split; [exact Hne|]. eapply Forall_impl; [|exact Hall]. intros c. apply ident_start_chars.
Qed.

Lemma name_for_id_total_identifier id : 0 <= id ->
  exists n, name_for_id id = Ok n /\ n <> [] /\ Forall (fun c => ident_start c = true) n.
Proof.
  intros Hid. destruct (name_for_id_total id Hid) as (n & Hn). exists n. split; [exact Hn|].
  exact (name_for_id_identifier id n Hid Hn).
Qed.

(* ---------- the `while True` loop of get_short_name ---------- *)

Lemma in_keep_file_In cfg n : in_keep_file cfg n = true <-> In n (keep_list cfg).
Proof.
  unfold in_keep_file, keep_list. destruct (names_to_keep cfg) as [ks|].
  - apply in_names_In.
  - split; [discriminate | intros []].
Qed.

Lemma fresh_name_ok cfg fuel : forall id nn id', 0 <= id ->
  fresh_name cfg fuel id = Ok (nn, id') ->
  id < id' /\ name_for_id (id' - 1) = Ok nn /\ in_names nn preserved_names = false
  /\ in_keep_file cfg nn = false.
Proof.
  induction fuel as [|f IH]; intros id nn id' Hid H; [discriminate|].
  cbn [fresh_name] in H. destruct (name_for_id id) as [cand|e] eqn:En; cbn [bind] in H; [|discriminate].
  destruct (in_names cand preserved_names) eqn:Ep; cbn [negb andb] in H.
  - apply IH in H; [|lia]. destruct H as (Hlt & Hn & Hp). split; [lia|]. split; assumption.
  - destruct (in_keep_file cfg cand) eqn:Ek; cbn [negb] in H.
    + apply IH in H; [|lia]. destruct H as (Hlt & Hn & Hp). split; [lia|]. split; assumption.
    + injection H as <- <-. split; [lia|]. split; [|split; [exact Ep | exact Ek]].
      replace (id + 1 - 1) with id by lia. exact En.
Qed.

(* the name of an id, for ids >= 0 where name_for_id is total *)
Definition gen_name (id : Z) : list Z := match name_for_id id with Ok n => n | Err _ => [] end.

Lemma gen_name_injective i j : 0 <= i -> 0 <= j -> gen_name i = gen_name j -> i = j.
Proof.
  intros Hi Hj E. apply name_for_id_injective; try assumption. unfold gen_name in E.
  destruct (name_for_id_total i Hi) as (a & Ha). destruct (name_for_id_total j Hj) as (b & Hb).
  rewrite Ha, Hb in *. congruence.
Qed.

(* either the loop stops, or all `fuel` candidates were preserved or keep-file names *)
Lemma fresh_name_cases cfg fuel : forall id, 0 <= id ->
  (exists nn id', fresh_name cfg fuel id = Ok (nn, id')) \/
  (forall t, (t < fuel)%nat -> In (gen_name (id + Z.of_nat t)) (preserved_names ++ keep_list cfg)).
Proof.
  induction fuel as [|f IH]; intros id Hid; [right; intros t Ht; lia|].
  cbn [fresh_name]. destruct (name_for_id_total id Hid) as (cand & Hc). rewrite Hc. cbn [bind].
  destruct (negb (in_names cand preserved_names) && negb (in_keep_file cfg cand)) eqn:Ep.
  - left. eexists. eexists. reflexivity.
  - destruct (IH (id + 1)) as [Hl|Hr]; [lia | left; exact Hl | right].
    intros [|t] Ht.
    + rewrite Z.add_0_r. unfold gen_name. rewrite Hc. apply in_or_app.
      apply andb_false_iff in Ep. destruct Ep as [Ep|Ep]; apply negb_false_iff in Ep.
      * left. apply in_names_In, Ep.
      * right. apply in_keep_file_In, Ep.
    + replace (id + Z.of_nat (S t)) with (id + 1 + Z.of_nat t) by lia. apply Hr. lia.
Qed.

Lemma NoDup_map_inj_on {A C} (f : A -> C) (l : list A) :
  (forall x y, In x l -> In y l -> f x = f y -> x = y) -> NoDup l -> NoDup (map f l).
Proof.
  intros Hinj Hnd. induction Hnd as [|x l Hx Hnd IH]; [constructor|].
  cbn [map]. constructor.
  - intros Hin. apply in_map_iff in Hin. destruct Hin as (y & Hy & Hyl).
    assert (y = x) by (apply Hinj; [right; exact Hyl | left; reflexivity | exact Hy]).
    subst y. exact (Hx Hyl).
  - apply IH. intros a b Ha Hb. apply Hinj; right; assumption.
Qed.

(* pigeonhole: more candidates than preserved + keep-file names -> one of them is neither *)
Lemma fresh_name_total cfg id : 0 <= id ->
  exists nn id', fresh_name cfg (fresh_fuel cfg) id = Ok (nn, id').
Proof.
  intros Hid. destruct (fresh_name_cases cfg (fresh_fuel cfg) id Hid) as [H|H]; [exact H|exfalso].
  set (f := fun t : nat => gen_name (id + Z.of_nat t)) in *.
  assert (Hnd : NoDup (map f (seq 0 (fresh_fuel cfg)))).
  { apply NoDup_map_inj_on; [|apply seq_NoDup].
    intros x y _ _ E. unfold f in E. apply gen_name_injective in E; lia. }
  assert (Hincl : incl (map f (seq 0 (fresh_fuel cfg))) (preserved_names ++ keep_list cfg)).
  { intros n Hn. apply in_map_iff in Hn. destruct Hn as (t & <- & Ht). apply in_seq in Ht.
    apply H. lia. }
  pose proof (NoDup_incl_length Hnd Hincl) as Hlen.
  rewrite map_length, seq_length, app_length in Hlen. unfold fresh_fuel in Hlen. lia.
Qed.

(* ---------- get_short_name: invariant of the factory state ---------- *)

Definition generated_upto (cfg : config) (N : Z) (v : list Z) : Prop :=
  exists id, 0 <= id < N /\ name_for_id id = Ok v /\ in_names v preserved_names = false
             /\ in_keep_file cfg v = false.

Record inv (cfg : config) (st : state) : Prop := {
  inv_next : 0 <= next_id st;
  inv_vals : forall k v, lookup k (name_map st) = Some v ->
             kept cfg k = false /\ generated_upto cfg (next_id st) v;
  inv_inj : forall k1 k2 v, lookup k1 (name_map st) = Some v ->
            lookup k2 (name_map st) = Some v -> k1 = k2 }.

(* what the factory answers for name n once its map is m *)
Definition answer (cfg : config) (m : list (list Z * list Z)) (n : list Z) : option (list Z) :=
  if kept cfg n then Some n else lookup n m.

Definition ext (m m' : list (list Z * list Z)) : Prop :=
  forall k v, lookup k m = Some v -> lookup k m' = Some v.

Lemma ext_refl m : ext m m.
Proof. intros k v H. exact H. Qed.

Lemma ext_trans m1 m2 m3 : ext m1 m2 -> ext m2 m3 -> ext m1 m3.
Proof. intros H1 H2 k v H. apply H2, H1, H. Qed.

Lemma answer_ext cfg m m' n o : ext m m' -> answer cfg m n = Some o -> answer cfg m' n = Some o.
Proof. unfold answer. intros He H. destruct (kept cfg n); [exact H | apply He, H]. Qed.

Lemma lookup_cons k n v m :
  lookup k ((n, v) :: m) = if zlist_eqb n k then Some v else lookup k m.
Proof. reflexivity. Qed.

Lemma zlist_eqb_refl a : zlist_eqb a a = true.
Proof. apply zlist_eqb_eq. reflexivity. Qed.

Lemma zlist_eqb_neq a b : zlist_eqb a b = false <-> a <> b.
Proof.
  rewrite <- zlist_eqb_eq. destruct (zlist_eqb a b); split; intros H; congruence.
Qed.

Lemma inv_init cfg : inv cfg init_state.
Proof.
  constructor; cbn [init_state next_id name_map lookup].
  - lia.
  - intros k v H. discriminate.
  - intros k1 k2 v H. discriminate.
Qed.

Lemma generated_upto_mono cfg N N' v : N <= N' -> generated_upto cfg N v -> generated_upto cfg N' v.
Proof. intros Hle (id & Hid & H). exists id. split; [lia | exact H]. Qed.

Lemma unchanged_state_spec cfg st n o :
  inv cfg st -> answer cfg (name_map st) n = Some o ->
  inv cfg st /\ ext (name_map st) (name_map st) /\ answer cfg (name_map st) n = Some o
  /\ next_id st <= next_id st.
Proof.
  intros Hinv Ha. split; [exact Hinv|]. split; [apply ext_refl|]. split; [exact Ha | lia].
Qed.

Lemma get_short_name_spec cfg st n st' o :
  get_short_name cfg st n = Ok (st', o) -> inv cfg st ->
  inv cfg st' /\ ext (name_map st) (name_map st') /\ answer cfg (name_map st') n = Some o
  /\ next_id st <= next_id st'.
Proof.
  intros H Hinv. unfold get_short_name in H.
  destruct (keep_all cfg) eqn:Eka.
  { injection H as <- <-. apply unchanged_state_spec; [exact Hinv|].
    unfold answer, kept. rewrite Eka. reflexivity. }
  destruct (in_names n preserved_names) eqn:Epr.
  { injection H as <- <-. apply unchanged_state_spec; [exact Hinv|].
    unfold answer, kept. rewrite Eka, Epr. reflexivity. }
  destruct (in_keep_file cfg n) eqn:Ekf.
  { injection H as <- <-. apply unchanged_state_spec; [exact Hinv|].
    unfold answer, kept. rewrite Eka, Epr, Ekf. reflexivity. }
  assert (Hnk : kept cfg n = false) by (unfold kept; rewrite Eka, Epr, Ekf; reflexivity).
  destruct (lookup n (name_map st)) as [v|] eqn:El.
  { injection H as <- <-.
    apply unchanged_state_spec; [exact Hinv|]. unfold answer. rewrite Hnk. exact El. }
  unfold answer. rewrite Hnk.
  destruct (fresh_name cfg (fresh_fuel cfg) (next_id st)) as [[nn id']|e] eqn:Ef; cbn [bind] in H; [|discriminate].
  injection H as <- <-. cbn [name_map next_id].
  destruct Hinv as [Hnext Hvals Hinj].
  apply fresh_name_ok in Ef; [|exact Hnext]. destruct Ef as (Hlt & Hnn & Hnp & Hnkf).
  assert (Hgen : generated_upto cfg id' nn).
  { exists (id' - 1). split; [lia|]. split; [assumption|]. split; assumption. }
  assert (Hold : forall k v, lookup k (name_map st) = Some v -> v <> nn).
  { intros k v Hk ->. apply Hvals in Hk. destruct Hk as (_ & id & Hid & Hn & _).
    assert (id = id' - 1) by (apply name_for_id_injective; [lia | lia | congruence]). lia. }
  split; [|split; [|split]].
  - constructor; cbn [name_map next_id].
    + lia.
    + intros k v Hk. rewrite lookup_cons in Hk. destruct (zlist_eqb n k) eqn:E.
      * apply zlist_eqb_eq in E. subst k. injection Hk as <-. split; [exact Hnk | exact Hgen].
      * apply Hvals in Hk. destruct Hk as (Hk & Hg). split; [exact Hk|].
        eapply generated_upto_mono; [|exact Hg]. lia.
    + intros k1 k2 v H1 H2. rewrite lookup_cons in H1, H2.
      destruct (zlist_eqb n k1) eqn:E1; destruct (zlist_eqb n k2) eqn:E2.
      * apply zlist_eqb_eq in E1, E2. congruence.
      * injection H1 as <-. exfalso. exact (Hold _ _ H2 eq_refl).
      * injection H2 as <-. exfalso. exact (Hold _ _ H1 eq_refl).
      * eapply Hinj; eassumption.
  - intros k v Hk. rewrite lookup_cons. destruct (zlist_eqb n k) eqn:E; [|exact Hk].
    apply zlist_eqb_eq in E. subst k. congruence.
  - rewrite lookup_cons, zlist_eqb_refl. reflexivity.
  - lia.
Qed.

Lemma get_short_name_total cfg st n : 0 <= next_id st ->
  exists st' o, get_short_name cfg st n = Ok (st', o).
Proof.
  intros Hn. unfold get_short_name.
  destruct (keep_all cfg); [eexists; eexists; reflexivity|].
  destruct (in_names n preserved_names); [eexists; eexists; reflexivity|].
  destruct (in_keep_file cfg n); [eexists; eexists; reflexivity|].
  destruct (lookup n (name_map st)); [eexists; eexists; reflexivity|].
  destruct (fresh_name_total cfg (next_id st) Hn) as (nn & id' & ->). cbn [bind].
  eexists. eexists. reflexivity.
Qed.

(* ---------- a whole run ---------- *)

Lemma run_from_spec cfg : forall names st st' outs,
  run_from cfg st names = Ok (st', outs) -> inv cfg st ->
  inv cfg st' /\ ext (name_map st) (name_map st')
  /\ Forall2 (fun n o => answer cfg (name_map st') n = Some o) names outs
  /\ next_id st <= next_id st'.
Proof.
  induction names as [|n r IH]; intros st st' outs H Hinv.
  - injection H as <- <-. split; [exact Hinv|]. split; [apply ext_refl|]. split; [constructor | lia].
  - cbn [run_from] in H.
    destruct (get_short_name cfg st n) as [[st1 o]|e] eqn:E1; cbn [bind] in H; [|discriminate].
    destruct (run_from cfg st1 r) as [[st2 os]|e] eqn:E2; cbn [bind] in H; [|discriminate].
    injection H as <- <-.
    apply get_short_name_spec in E1; [|exact Hinv]. destruct E1 as (Hinv1 & Hext1 & Hans1 & Hle1).
    apply IH in E2; [|exact Hinv1]. destruct E2 as (Hinv2 & Hext2 & Hall2 & Hle2).
    split; [exact Hinv2|]. split; [eapply ext_trans; eassumption|]. split; [|lia].
    constructor; [|exact Hall2]. eapply answer_ext; eassumption.
Qed.

Lemma run_from_total cfg : forall names st, inv cfg st ->
  exists st' outs, run_from cfg st names = Ok (st', outs).
Proof.
  induction names as [|n r IH]; intros st Hinv; [eexists; eexists; reflexivity|].
  cbn [run_from]. destruct (get_short_name_total cfg st n (inv_next _ _ Hinv)) as (st1 & o & E1).
  rewrite E1. cbn [bind]. apply get_short_name_spec in E1; [|exact Hinv].
  destruct E1 as (Hinv1 & _). destruct (IH st1 Hinv1) as (st2 & os & ->). cbn [bind].
  eexists. eexists. reflexivity.
Qed.

Lemma Forall2_combine_In {A C} (R : A -> C -> Prop) l1 l2 a b :
  Forall2 R l1 l2 -> In (a, b) (combine l1 l2) -> R a b.
Proof.
  intros H. induction H as [|x y l1 l2 Hxy H IH]; cbn [combine In]; [tauto|].
  intros [E|Hin]; [injection E as <- <-; exact Hxy | apply IH, Hin].
Qed.

Lemma Forall2_same_length {A C} (R : A -> C -> Prop) l1 l2 : Forall2 R l1 l2 -> length l2 = length l1.
Proof. intros H. induction H as [|x y l1 l2 _ _ IH]; cbn [length]; [reflexivity | rewrite IH; reflexivity]. Qed.

Lemma run_factory_st_spec cfg names st' outs :
  run_factory_st cfg names = Ok (st', outs) ->
  inv cfg st' /\ (forall n o, observed names outs n o -> answer cfg (name_map st') n = Some o)
  /\ length outs = length names.
Proof.
  intros H. unfold run_factory_st in H. apply run_from_spec in H; [|apply inv_init].
  destruct H as (Hinv & _ & Hall & _). split; [exact Hinv|]. split.
  - intros n o Hobs. exact (Forall2_combine_In _ _ _ _ _ Hall Hobs).
  - eapply Forall2_same_length, Hall.
Qed.

Lemma run_factory_st_of cfg names outs :
  run_factory cfg names = Ok outs <-> exists st', run_factory_st cfg names = Ok (st', outs).
Proof.
  unfold run_factory. destruct (run_factory_st cfg names) as [[st os]|e]; cbn [bind]; split.
  - intros [= <-]. exists st. reflexivity.
  - intros (st' & [= <- <-]). reflexivity.
  - discriminate.
  - intros (st' & H). discriminate.
Qed.

Lemma run_factory_total cfg names :
  exists outs, run_factory cfg names = Ok outs /\ length outs = length names.
Proof.
  destruct (run_from_total cfg names init_state (inv_init cfg)) as (st' & outs & H).
  exists outs. split.
  - apply run_factory_st_of. exists st'. exact H.
  - apply run_factory_st_spec in H. apply H.
Qed.

(* ---------- kept, in words ---------- *)

Lemma kept_iff cfg n : kept cfg n = true <-> is_kept cfg n.
Proof.
  unfold kept, is_kept, in_keep_file. rewrite !orb_true_iff, in_names_In, preserved_spec.
  destruct (names_to_keep cfg) as [ks|]; [rewrite in_names_In|]; split.
  - intros [[H|[H|H]]|H]; auto. right. right. right. exists ks. auto.
  - intros [H|[H|[H|(ks' & [= <-] & H)]]]; auto.
  - intros [[H|[H|H]]|H]; auto. discriminate.
  - intros [H|[H|[H|(ks' & E & _)]]]; auto. discriminate.
Qed.

Lemma kept_false_iff cfg n : kept cfg n = false <-> ~ is_kept cfg n.
Proof. rewrite <- kept_iff. destruct (kept cfg n); split; intros H; congruence. Qed.

(* ---------- the clauses of C02 ---------- *)

Lemma consistent cfg names outs n o1 o2 :
  run_factory cfg names = Ok outs ->
  observed names outs n o1 -> observed names outs n o2 -> o1 = o2.
Proof.
  intros H H1 H2. apply run_factory_st_of in H. destruct H as (st' & H).
  apply run_factory_st_spec in H. destruct H as (_ & Hans & _).
  apply Hans in H1, H2. congruence.
Qed.

Lemma kept_unchanged cfg names outs n o :
  run_factory cfg names = Ok outs -> observed names outs n o -> is_kept cfg n -> o = n.
Proof.
  intros H Hobs Hk. apply run_factory_st_of in H. destruct H as (st' & H).
  apply run_factory_st_spec in H. destruct H as (_ & Hans & _).
  apply Hans in Hobs. unfold answer in Hobs. apply kept_iff in Hk. rewrite Hk in Hobs. congruence.
Qed.

(* a renamed identifier gets a name of the enumeration, below the final counter, that is
   neither a keyword nor a builtin nor a keep-file name *)
Lemma generated_not_preserved cfg names st' outs n o :
  run_factory_st cfg names = Ok (st', outs) -> observed names outs n o -> ~ is_kept cfg n ->
  ~ In o lua_keywords /\ ~ In o pico8_builtins /\
  (forall ks, names_to_keep cfg = Some ks -> ~ In o ks) /\
  exists id, 0 <= id < next_id st' /\ name_for_id id = Ok o.
Proof.
  intros H Hobs Hk. apply run_factory_st_spec in H. destruct H as (Hinv & Hans & _).
  apply Hans in Hobs. unfold answer in Hobs. apply kept_false_iff in Hk. rewrite Hk in Hobs.
  apply (inv_vals _ _ Hinv) in Hobs. destruct Hobs as (_ & id & Hid & Hn & Hp & Hkf).
  apply in_names_false in Hp. rewrite preserved_spec in Hp.
  split; [tauto|]. split; [tauto|]. split.
  - intros ks Eks Hin. unfold in_keep_file in Hkf. rewrite Eks in Hkf.
    apply in_names_false in Hkf. exact (Hkf Hin).
  - exists id. split; assumption.
Qed.

Lemma generated_not_kept cfg names outs n o :
  run_factory cfg names = Ok outs -> observed names outs n o -> ~ is_kept cfg n -> ~ is_kept cfg o.
Proof.
  intros H Hobs Hk. apply run_factory_st_of in H. destruct H as (st' & H).
  destruct (generated_not_preserved _ _ _ _ _ _ H Hobs Hk) as (H1 & H2 & H3 & _).
  intros [Hka|[Hkw|[Hb|(ks & Eks & Hin)]]].
  - apply Hk. left. exact Hka.
  - exact (H1 Hkw).
  - exact (H2 Hb).
  - exact (H3 ks Eks Hin).
Qed.

Lemma observed_In names outs n o : observed names outs n o -> In n names.
Proof. unfold observed. apply in_combine_l. Qed.

(* injective: two different identifiers never get the same output, whether kept or generated,
   for every configuration and every keep file *)
Lemma injective cfg names outs :
  run_factory cfg names = Ok outs ->
  forall n1 n2 o, observed names outs n1 o -> observed names outs n2 o -> n1 = n2.
Proof.
  intros H n1 n2 o H1 H2. apply run_factory_st_of in H. destruct H as (st' & H).
  apply run_factory_st_spec in H. destruct H as (Hinv & Hans & _).
  apply Hans in H1, H2. unfold answer in H1, H2.
  assert (Hmixed : forall a b, kept cfg a = true -> kept cfg b = false ->
                               lookup b (name_map st') = Some a -> False).
  { intros a b Ha Hb Hl. apply (inv_vals _ _ Hinv) in Hl.
    destruct Hl as (_ & id & Hid & Hn & Hp & Hkf).
    unfold kept in Ha, Hb. apply orb_false_iff in Hb. destruct Hb as [Hb _].
    apply orb_false_iff in Hb. destruct Hb as [Hka _].
    rewrite Hka, Hp, Hkf in Ha. discriminate. }
  destruct (kept cfg n1) eqn:E1; destruct (kept cfg n2) eqn:E2.
  - congruence.
  - injection H1 as <-. exfalso. eapply Hmixed; [exact E1 | exact E2 | exact H2].
  - injection H2 as <-. exfalso. eapply Hmixed; [exact E2 | exact E1 | exact H1].
  - eapply (inv_inj _ _ Hinv); eassumption.
Qed.

(* the pre-fix witness of S2 (keep file "a", requests foo, a): foo now skips the candidate a *)
Lemma keepfile_collision_fixed :
  run_factory (mk_config false (Some (unBS "a"%bs))) [unBS "foo"%bs; unBS "a"%bs]
  = Ok [unBS "b"%bs; unBS "a"%bs].
Proof. vm_compute. reflexivity. Qed.

(* tool.luamin and build --lua-minify hand both options to the factory *)
Lemma luamin_config_spec ka kf : luamin_config ka kf = mk_config ka kf.
Proof. reflexivity. Qed.
Lemma build_minify_config_spec ka kf : build_minify_config ka kf = luamin_config ka kf.
Proof. reflexivity. Qed.
Lemma cli_configs ka kf :
  luamin_config ka kf = mk_config ka kf /\ build_minify_config ka kf = mk_config ka kf.
Proof. split; reflexivity. Qed.

(* ---------- DESIGN 8 C02_renaming, positional form ---------- *)
Lemma nth_observed names outs i d : (i < length names)%nat -> length outs = length names ->
  observed names outs (nth i names d) (nth i outs d).
Proof.
  intros Hi Hl. unfold observed. rewrite <- (combine_nth names outs i d d) by (symmetry; exact Hl).
  apply nth_In. rewrite combine_length, Hl, Nat.min_id. exact Hi.
Qed.

Lemma renaming cfg names outs : run_factory cfg names = Ok outs ->
  length outs = length names /\
  (forall i j, (i < length names)%nat -> (j < length names)%nat ->
     (nth i names [] = nth j names [] <-> nth i outs [] = nth j outs [])) /\
  (forall i, (i < length names)%nat -> is_kept cfg (nth i names []) -> nth i outs [] = nth i names []) /\
  (forall i, (i < length names)%nat -> ~ is_kept cfg (nth i names []) -> ~ is_kept cfg (nth i outs [])).
Proof.
  intros H. pose proof H as Hst. apply run_factory_st_of in Hst. destruct Hst as (st' & Hst).
  apply run_factory_st_spec in Hst. destruct Hst as (_ & _ & Hlen).
  split; [exact Hlen|]. split; [|split].
  - intros i j Hi Hj. pose proof (nth_observed names outs i [] Hi Hlen) as Oi.
    pose proof (nth_observed names outs j [] Hj Hlen) as Oj. split; intros E.
    + rewrite E in Oi. eapply consistent; eassumption.
    + rewrite E in Oi. eapply injective; eassumption.
  - intros i Hi Hk. eapply kept_unchanged; [exact H | apply nth_observed; assumption | exact Hk].
  - intros i Hi Hk. eapply generated_not_kept; [exact H | apply nth_observed; assumption | exact Hk].
Qed.
