(* C20: the splice performed by process_includes (Model/Include.v, part 2). *)
From PV Require Import Base.Prelude Model.Paths Model.Include Model.FilesInst Spec.SpliceSpec
  Spec.PathSpec Proofs.PathProofs Proofs.IncludeProofs Generated.T_files_p8.

Lemma pin_newline_kind : include_newline_kind = 1 /\ include_cart_lines_kind = 1 /\ include_name_decode_kind = 1.
Proof. repeat split; reflexivity. Qed.

(* ------------------------------------------------------------------ A. the splice equation *)
Fixpoint collect (rs : list (result (list bytes))) : result (list bytes) :=
  match rs with
  | [] => Ok []
  | r :: t => x <- r ;; y <- collect t ;; Ok (x ++ y)
  end.

Section SpliceA.
Variable nl_kind : Z.
Variable have_root : bool.
Variable decode : bytes -> result bytes.
Variable resolve : bytes -> result bytes.
Variable target : bytes -> bytes -> option (list bytes).

(* what one line of the including cart turns into *)
Definition expand_line (l : bytes) : result (list bytes) :=
  match match_include_line l with
  | None => Ok [l]
  | Some (path, ext, tab) => include_lines nl_kind have_root decode resolve target path ext tab
  end.

Lemma process_includes_collect lines :
  process_includes nl_kind have_root decode resolve target lines = collect (map expand_line lines).
Proof.
  induction lines as [|l r IH]; [reflexivity|].
  cbn [process_includes map collect]. unfold expand_line at 1.
  destruct (match_include_line l) as [[[p e] t]|]; rewrite IH; [reflexivity|].
  cbn [bind]. destruct (collect (map expand_line r)); reflexivity.
Qed.

Lemma collect_ok rs : forall out, collect rs = Ok out ->
  exists chunks, rs = map Ok chunks /\ out = concat chunks.
Proof.
  induction rs as [|r t IH]; intros out H.
  - injection H as <-. exists []. split; reflexivity.
  - cbn [collect] in H. destruct r as [x|e]; cbn [bind] in H; [|discriminate].
    destruct (collect t) as [y|e] eqn:E; cbn [bind] in H; [|discriminate].
    injection H as <-. destruct (IH y eq_refl) as (ch & -> & ->).
    exists (x :: ch). split; reflexivity.
Qed.

Lemma collect_all_ok chunks : collect (map Ok chunks) = Ok (concat chunks).
Proof.
  induction chunks as [|c t IH]; [reflexivity|].
  cbn [map collect bind concat]. rewrite IH. reflexivity.
Qed.

Lemma collect_err_first pre e post :
  collect (map Ok pre ++ Err e :: post) = Err e.
Proof.
  induction pre as [|c t IH]; [reflexivity|].
  cbn [map app collect bind]. rewrite IH. reflexivity.
Qed.

Lemma collect_some_err rs e : In (Err e) rs -> exists e', collect rs = Err e'.
Proof.
  induction rs as [|r t IH]; intros H; [destruct H|].
  cbn [collect]. destruct r as [x|e0]; cbn [bind]; [|exists e0; reflexivity].
  destruct H as [H|H]; [discriminate|]. destruct (IH H) as (e' & ->). exists e'. reflexivity.
Qed.

(* C20_splice: a successful run is the concatenation, in order, of what each line expands to;
   a line that is not an include line expands to itself *)
Lemma splice_ok lines out :
  process_includes nl_kind have_root decode resolve target lines = Ok out ->
  exists chunks, Forall2 (fun l c => expand_line l = Ok c) lines chunks /\ out = concat chunks.
Proof.
  rewrite process_includes_collect. intros H. apply collect_ok in H as (ch & Hm & ->).
  exists ch. split; [|reflexivity].
  revert ch Hm. induction lines as [|l r IH]; intros [|c t] Hm; try discriminate; constructor.
  - cbn [map] in Hm. injection Hm as H1 _. exact H1.
  - apply IH. cbn [map] in Hm. injection Hm as _ H2. exact H2.
Qed.

Lemma splice_complete lines chunks :
  Forall2 (fun l c => expand_line l = Ok c) lines chunks ->
  process_includes nl_kind have_root decode resolve target lines = Ok (concat chunks).
Proof.
  intros H. rewrite process_includes_collect.
  assert (E : map expand_line lines = map Ok chunks).
  { induction H as [|l c r t H1 _ IH]; [reflexivity|]. cbn [map]. rewrite H1, IH. reflexivity. }
  rewrite E. apply collect_all_ok.
Qed.

Lemma plain_line_expands l : match_include_line l = None -> expand_line l = Ok [l].
Proof. unfold expand_line. intros ->. reflexivity. Qed.

(* a line whose expansion fails makes the whole run fail; the first such line decides the error *)
Lemma splice_error lines l e :
  In l lines -> expand_line l = Err e -> exists e', process_includes nl_kind have_root decode resolve target lines = Err e'.
Proof.
  intros Hin He. rewrite process_includes_collect. apply (collect_some_err _ e).
  rewrite <- He. apply in_map. exact Hin.
Qed.

Lemma splice_first_error pre l post chunks e :
  Forall2 (fun l c => expand_line l = Ok c) pre chunks -> expand_line l = Err e ->
  process_includes nl_kind have_root decode resolve target (pre ++ l :: post) = Err e.
Proof.
  intros Hp He. rewrite process_includes_collect, map_app. cbn [map]. rewrite He.
  assert (E : map expand_line pre = map Ok chunks).
  { induction Hp as [|a c r t H1 _ IH]; [reflexivity|]. cbn [map]. rewrite H1, IH. reflexivity. }
  rewrite E. apply collect_err_first.
Qed.
End SpliceA.

(* ------------------------------------------------------------------ tabs *)
Fixpoint split_at_tabs (ls : list bytes) : list (list bytes) :=
  match ls with
  | [] => [[]]
  | l :: r =>
    if is_tab_line l then [] :: split_at_tabs r
    else match split_at_tabs r with
         | h :: t => (l :: h) :: t
         | [] => [[l]]
         end
  end.

Lemma split_at_tabs_nonnil ls : split_at_tabs ls <> [].
Proof.
  destruct ls as [|l r]; [discriminate|]. cbn [split_at_tabs].
  destruct (is_tab_line l); [discriminate|]. destruct (split_at_tabs r); discriminate.
Qed.

Lemma lines_for_tab_below ls : forall cur t, t < cur -> lines_for_tab_go cur ls (Some t) = [].
Proof.
  induction ls as [|l r IH]; intros cur t H; [reflexivity|].
  cbn [lines_for_tab_go]. destruct (is_tab_line l); [apply IH; lia|].
  destruct (Z.eqb_spec t cur); [lia|]. apply IH. exact H.
Qed.

Lemma lines_for_tab_go_spec ls : forall cur t, cur <= t ->
  lines_for_tab_go cur ls (Some t) = nth (Z.to_nat (t - cur)) (split_at_tabs ls) [].
Proof.
  induction ls as [|l r IH]; intros cur t H.
  - cbn [lines_for_tab_go split_at_tabs]. destruct (Z.to_nat (t - cur)) as [|[|k]]; reflexivity.
  - cbn [lines_for_tab_go split_at_tabs]. destruct (is_tab_line l).
    + destruct (Z.eqb_spec t cur) as [->|N].
      * rewrite Z.sub_diag. cbn [Z.to_nat nth]. apply lines_for_tab_below. lia.
      * rewrite IH by lia. replace (Z.to_nat (t - cur)) with (S (Z.to_nat (t - (cur + 1)))) by lia.
        reflexivity.
    + pose proof (split_at_tabs_nonnil r) as Hn.
      destruct (split_at_tabs r) as [|h tl] eqn:E; [congruence|].
      destruct (Z.eqb_spec t cur) as [->|N].
      * rewrite Z.sub_diag. cbn [Z.to_nat nth]. f_equal.
        rewrite IH by lia. rewrite Z.sub_diag. reflexivity.
      * rewrite IH by lia. replace (Z.to_nat (t - cur)) with (S (Z.to_nat (t - cur - 1))) by lia.
        cbn [nth]. reflexivity.
Qed.

Lemma lines_for_tab_all ls : forall cur, lines_for_tab_go cur ls None = ls.
Proof.
  induction ls as [|l r IH]; intros cur; [reflexivity|].
  cbn [lines_for_tab_go]. destruct (is_tab_line l); rewrite IH; reflexivity.
Qed.

(* C20_tab *)
Lemma lines_for_tab_spec ls :
  lines_for_tab ls None = ls /\
  (forall n, 0 <= n -> lines_for_tab ls (Some n) = nth (Z.to_nat n) (split_at_tabs ls) []) /\
  (forall n, n < 0 -> lines_for_tab ls (Some n) = []).
Proof.
  unfold lines_for_tab. split; [apply lines_for_tab_all|]. split.
  - intros n H. rewrite lines_for_tab_go_spec by exact H. rewrite Z.sub_0_r. reflexivity.
  - intros n H. apply lines_for_tab_below. exact H.
Qed.

(* the selector the regex can produce is never negative *)
Lemma int_of_digits_nonneg ds : forallb is_digit ds = true -> forall acc, 0 <= acc -> 0 <= fold_left (fun a d => a * 10 + (d - 48)) ds acc.
Proof.
  induction ds as [|d r IH]; intros H acc Ha; [exact Ha|].
  cbn [forallb] in H. apply andb_true_iff in H as [Hd Hr]. cbn [fold_left]. apply IH; [exact Hr|].
  unfold is_digit in Hd. lia.
Qed.

Lemma take_digits_digits s : forallb is_digit (take_digits s) = true.
Proof.
  induction s as [|c r IH]; [reflexivity|]. cbn [take_digits].
  destruct (is_digit c) eqn:E; [|reflexivity]. cbn [forallb]. rewrite E, IH. reflexivity.
Qed.

Lemma scan_tab_nonneg s n : scan_tab s = Some n -> 0 <= n.
Proof.
  unfold scan_tab. destruct s as [|c r]; [discriminate|].
  assert (G : forall x, match take_digits r with [] => None | z :: l => Some (int_of_digits (z :: l)) end = Some x -> 0 <= x).
  { intros x. destruct (take_digits r) eqn:E; [intros; discriminate|]. intros [= <-].
    unfold int_of_digits. apply int_of_digits_nonneg; [|lia]. rewrite <- E. apply take_digits_digits. }
  destruct c as [|p|p]; try discriminate.
  do 6 (destruct p as [p|p|]; try discriminate). exact (G n).
Qed.
