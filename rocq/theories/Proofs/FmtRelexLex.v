(* The automaton of Proofs/FmtRelexAuto.v and the reference lexer (Spec/LuaLex.v) agree on trivia text:

     seg_arun   a stretch of white-space / newline / comment tokens of the reference lexer is accepted by the
                automaton, which reports exactly the comments of the stretch (bytes outside white space);
     arun_seg   a text the automaton accepts is read by the reference lexer, in front of any text that starts a
                code token (or of nothing), as white-space / newline / comment tokens with exactly the comments
                the automaton reported; an end-of-line comment that ends the text swallows nothing because
                nothing may follow it.

   And for code tokens ([sig_relex]): the code of a token that is not trivia is read back as that token in
   front of the same first byte as before, in front of a blank / line feed, and at the end of the text. *)
From PV Require Import Base.Prelude Spec.LuaLex Instances.HoldsC02 Instances.HoldsC01 Proofs.LuaLexFacts Proofs.SpecLexChunk
  Proofs.MinifyRelex.
From PV Require Import Model.FmtSpaces Proofs.FmtSpacesProofs Proofs.FmtRelexAuto.
From PV Require Model.Lexer.
From Coq Require Import Lia.

(* ====================================================================== small facts *)
Lemma is_ws_be c : is_ws c = blankb c || eolb c.
Proof.
  unfold is_ws, blankb, eolb, SP, TAB, NL, CR.
  destruct (c =? 32), (c =? 9), (c =? 10), (c =? 13); reflexivity.
Qed.

Lemma nonws_cons_ws c r : is_ws c = true -> nonws (c :: r) = nonws r.
Proof. intros H. unfold nonws. cbn [filter]. rewrite H. reflexivity. Qed.

Lemma nonws_cons_nws c r : is_ws c = false -> nonws (c :: r) = c :: nonws r.
Proof. intros H. unfold nonws. cbn [filter]. rewrite H. reflexivity. Qed.

Lemma not_eol_eolb c : not_eol c = true -> eolb c = false.
Proof. unfold not_eol, is_eol, eolb. intros H. apply negb_true_iff in H. exact H. Qed.

Lemma delta_N_blank V c : is_blank c = true -> delta (V, AN) c = (V, AN).
Proof.
  intros H. unfold is_blank in H. apply orb_true_iff in H. destruct H as [H|H]; apply Z.eqb_eq in H; subst c; reflexivity.
Qed.

Lemma delta_N_eol V c : is_eol c = true -> delta (V, AN) c = (emitn V, AN).
Proof. intros H. unfold delta. change (eolb c) with (is_eol c). rewrite H. reflexivity. Qed.

Lemma afold_cons c s cf : afold (c :: s) cf = afold s (delta cf c).
Proof. reflexivity. Qed.

Lemma afold_blanks a V : forallb is_blank a = true -> afold a (V, AN) = (V, AN).
Proof.
  induction a as [|c r IH]; intros H; [reflexivity|]. cbn [forallb] in H. apply andb_true_iff in H. destruct H as [Hc Hr].
  rewrite afold_cons, delta_N_blank by exact Hc. apply IH, Hr.
Qed.

(* ---------- states in which the text read so far is an end-of-line comment ---------- *)
Definition lineish (st : ast) (a : list Z) : Prop := st = AC2 a \/ st = AC3 a \/ st = AC3e a \/ st = AL a.

Lemma lineish_eol V st a c : lineish st a -> eolb c = true -> delta (V, st) c = (emitn (emitc V a), AN).
Proof. intros [->|[->|[->| ->]]] H; unfold delta, lstep; rewrite H; reflexivity. Qed.

Lemma lineish_final V st a : lineish st a -> afinal (V, st) = Some (emitc V a, EL).
Proof. intros [->|[->|[->| ->]]]; reflexivity. Qed.

Lemma afold_L p : forall V a, forallb not_eol p = true -> afold p (V, AL a) = (V, AL (a ++ nonws p)).
Proof.
  induction p as [|c r IH]; intros V a H; [cbn [nonws filter]; rewrite app_nil_r; reflexivity|].
  cbn [forallb] in H. apply andb_true_iff in H. destruct H as [Hc Hr]. apply not_eol_eolb in Hc.
  rewrite afold_cons. unfold delta, lstep. rewrite Hc. destruct (blankb c) eqn:Eb.
  - rewrite IH by exact Hr. rewrite nonws_cons_ws by (rewrite is_ws_be, Eb; reflexivity). reflexivity.
  - rewrite IH by exact Hr. rewrite nonws_cons_nws by (rewrite is_ws_be, Eb, Hc; reflexivity).
    rewrite <- app_assoc. reflexivity.
Qed.

(* one byte that is not a line end, read in a lineish state that moves to AL *)
Lemma lstep_other V a c o : eolb c = false -> lstep V a c o = if blankb c then (V, AL a) else (V, o).
Proof. intros H. unfold lstep. rewrite H. reflexivity. Qed.

(* ====================================================================== what follows `--` *)
Definition is61 (c : Z) : bool := c =? 61.

Inductive ocls : Set := OLine | OBlock | OUndef.

Definition oclass (Y : list Z) : ocls :=
  match Y with
  | c :: p1 =>
    if c =? 91 then
      let '(e, r) := span is61 p1 in
      match r with
      | d :: _ => if d =? 91 then (match e with [] => OBlock | _ => OUndef end) else OLine
      | [] => OLine
      end
    else OLine
  | [] => OLine
  end.

Definition lo (Y : list Z) : option (Z * list Z) :=
  match Y with c :: r3 => if c =? 91 then long_open r3 0 else None | [] => None end.

Lemma long_open_eqs e : forall r n, forallb is61 e = true -> long_open (e ++ r) n = long_open r (n + Z.of_nat (length e)).
Proof.
  induction e as [|c e IH]; intros r n H; [cbn [app length]; f_equal; lia|].
  cbn [forallb] in H. apply andb_true_iff in H. destruct H as [Hc He]. unfold is61 in Hc.
  cbn [app]. rewrite long_open_eq, Hc. rewrite IH by exact He. f_equal. cbn [length]. lia.
Qed.

Lemma lo_class Y :
  match oclass Y with
  | OLine => lo Y = None
  | OBlock => exists Y4, Y = 91 :: 91 :: Y4
  | OUndef => exists lvl r, lo Y = Some (lvl, r) /\ lvl <> 0
  end.
Proof.
  destruct Y as [|c p1]; [reflexivity|]. unfold oclass, lo. destruct (c =? 91) eqn:Ec; [|reflexivity].
  apply Z.eqb_eq in Ec. subst c. destruct (span is61 p1) as [e r] eqn:E.
  pose proof (span_split _ _ _ _ E) as Hs. pose proof (span_all _ _ _ _ E) as Ha. pose proof (span_stop _ _ _ _ E) as Hst.
  subst p1. rewrite (long_open_eqs e r 0 Ha). destruct r as [|d r'].
  - reflexivity.
  - cbn [stops] in Hst. unfold is61 in Hst. rewrite long_open_eq, Hst. destruct (d =? 91) eqn:Ed; [|reflexivity].
    apply Z.eqb_eq in Ed. subst d. destruct e as [|x e'].
    + exists r'. reflexivity.
    + eexists. eexists. split; [reflexivity|]. cbn [length]. lia.
Qed.

(* the class is decided before the first line end *)
Lemma oclass_app p rest : forallb not_eol p = true -> stops not_eol rest -> oclass (p ++ rest) = oclass p.
Proof.
  intros Hp Hr. destruct p as [|c p1].
  - cbn [app]. destruct rest as [|d rest']; [reflexivity|]. cbn [stops] in Hr. unfold oclass.
    destruct (d =? 91) eqn:Ed; [|reflexivity]. apply Z.eqb_eq in Ed. subst d. discriminate Hr.
  - cbn [app]. unfold oclass. destruct (c =? 91); [|reflexivity].
    cbn [forallb] in Hp. apply andb_true_iff in Hp. destruct Hp as [_ Hp].
    destruct (span is61 p1) as [e r] eqn:E.
    pose proof (span_split _ _ _ _ E) as Hs. pose proof (span_all _ _ _ _ E) as Ha. pose proof (span_stop _ _ _ _ E) as Hst.
    destruct r as [|d r'].
    + rewrite app_nil_r in Hs. subst p1.
      assert (E2 : span is61 (e ++ rest) = (e, rest)).
      { apply span_ctx; [exact Ha|]. destruct rest as [|x rest']; [exact I|]. cbn [stops] in *. unfold is61.
        destruct (x =? 61) eqn:Ex; [|reflexivity]. apply Z.eqb_eq in Ex. subst x. discriminate Hr. }
      rewrite E2. destruct rest as [|x rest']; [reflexivity|]. cbn [stops] in Hr.
      destruct (x =? 91) eqn:Ex; [|reflexivity]. apply Z.eqb_eq in Ex. subst x. discriminate Hr.
    + subst p1. rewrite <- app_assoc. cbn [app].
      rewrite (span_ctx is61 e (d :: r' ++ rest) Ha Hst). reflexivity.
Qed.

Lemma afold_eqs e : forall V a, forallb is61 e = true -> afold e (V, AC3e a) = (V, AC3e (a ++ e)).
Proof.
  induction e as [|c e IH]; intros V a H; [rewrite app_nil_r; reflexivity|].
  cbn [forallb] in H. apply andb_true_iff in H. destruct H as [Hc He]. unfold is61 in Hc. apply Z.eqb_eq in Hc. subst c.
  rewrite afold_cons. change (delta (V, AC3e a) 61) with (V, AC3e (a ++ [61])). rewrite IH by exact He.
  rewrite <- app_assoc. reflexivity.
Qed.

Lemma nonws_61s e : forallb is61 e = true -> nonws e = e.
Proof.
  induction e as [|c e IH]; intros H; [reflexivity|]. cbn [forallb] in H. apply andb_true_iff in H. destruct H as [Hc He].
  unfold is61 in Hc. apply Z.eqb_eq in Hc. subst c. rewrite nonws_cons_nws by reflexivity. rewrite IH by exact He. reflexivity.
Qed.

(* an end-of-line comment opener: the automaton stays lineish up to the line end *)
Lemma auto_class_line p V : oclass p = OLine -> forallb not_eol p = true ->
  exists st, lineish st ([45; 45] ++ nonws p) /\ afold p (V, AC2 [45; 45]) = (V, st).
Proof.
  intros Hc Hp. destruct p as [|c p1].
  - exists (AC2 [45; 45]). split; [left; reflexivity | reflexivity].
  - cbn [forallb] in Hp. apply andb_true_iff in Hp. destruct Hp as [Hce Hp1]. apply not_eol_eolb in Hce.
    unfold oclass in Hc. rewrite afold_cons. unfold delta. rewrite lstep_other by exact Hce.
    destruct (c =? 91) eqn:Ec.
    + apply Z.eqb_eq in Ec. subst c. change (blankb 91) with false. cbv iota.
      rewrite nonws_cons_nws by reflexivity.
      destruct (span is61 p1) as [e r] eqn:E.
      pose proof (span_split _ _ _ _ E) as Hs. pose proof (span_all _ _ _ _ E) as Ha. pose proof (span_stop _ _ _ _ E) as Hst.
      subst p1. rewrite forallb_app in Hp1. apply andb_true_iff in Hp1. destruct Hp1 as [_ Hr].
      rewrite nonws_app, (nonws_61s e Ha).
      destruct e as [|x e'].
      * cbn [app] in *. destruct r as [|d r'].
        -- exists (AC3 [45; 45; 91]). split; [right; left; reflexivity | reflexivity].
        -- cbn [stops] in Hst. unfold is61 in Hst. cbn [forallb] in Hr. apply andb_true_iff in Hr. destruct Hr as [Hde Hr'].
           apply not_eol_eolb in Hde. destruct (d =? 91) eqn:Ed; [discriminate Hc|].
           rewrite afold_cons. unfold delta. rewrite lstep_other by exact Hde. rewrite Ed, Hst.
           destruct (blankb d) eqn:Eb.
           ++ rewrite afold_L by exact Hr'. eexists. split; [right; right; right; reflexivity|].
              rewrite nonws_cons_ws by (rewrite is_ws_be, Eb; reflexivity). reflexivity.
           ++ rewrite afold_L by exact Hr'. eexists. split; [right; right; right; reflexivity|].
              rewrite nonws_cons_nws by (rewrite is_ws_be, Eb, Hde; reflexivity). rewrite <- app_assoc. reflexivity.
      * cbn [forallb] in Ha. apply andb_true_iff in Ha. destruct Ha as [Hx Ha']. unfold is61 in Hx. apply Z.eqb_eq in Hx. subst x.
        cbn [app]. rewrite afold_cons. change (delta (V, AC3 [45; 45; 91]) 61) with (V, AC3e [45; 45; 91; 61]).
        rewrite afold_app, afold_eqs by exact Ha'.
        destruct r as [|d r'].
        -- rewrite app_nil_r. eexists. split; [right; right; left; reflexivity | reflexivity].
        -- cbn [stops] in Hst. unfold is61 in Hst. cbn [forallb] in Hr. apply andb_true_iff in Hr. destruct Hr as [Hde Hr'].
           apply not_eol_eolb in Hde. destruct (d =? 91) eqn:Ed; [discriminate Hc|].
           rewrite afold_cons. unfold delta. rewrite lstep_other by exact Hde. rewrite Ed, Hst.
           destruct (blankb d) eqn:Eb.
           ++ rewrite afold_L by exact Hr'. eexists. split; [right; right; right; reflexivity|].
              rewrite nonws_cons_ws by (rewrite is_ws_be, Eb; reflexivity). cbn [app]. rewrite <- ?app_assoc. reflexivity.
           ++ rewrite afold_L by exact Hr'. eexists. split; [right; right; right; reflexivity|].
              rewrite nonws_cons_nws by (rewrite is_ws_be, Eb, Hde; reflexivity). cbn [app]. rewrite <- ?app_assoc. reflexivity.
    + destruct (blankb c) eqn:Eb.
      * rewrite afold_L by exact Hp1. eexists. split; [right; right; right; reflexivity|].
        rewrite nonws_cons_ws by (rewrite is_ws_be, Eb; reflexivity). reflexivity.
      * rewrite afold_L by exact Hp1. eexists. split; [right; right; right; reflexivity|].
        rewrite nonws_cons_nws by (rewrite is_ws_be, Eb, Hce; reflexivity). rewrite <- app_assoc. reflexivity.
Qed.

Lemma auto_class_undef Y V : oclass Y = OUndef -> arun (V, AC2 [45; 45]) Y = None.
Proof.
  intros Hc. destruct Y as [|c p1]; [discriminate|]. unfold oclass in Hc. destruct (c =? 91) eqn:Ec; [|discriminate].
  apply Z.eqb_eq in Ec. subst c. destruct (span is61 p1) as [e r] eqn:E.
  pose proof (span_split _ _ _ _ E) as Hs. pose proof (span_all _ _ _ _ E) as Ha. subst p1.
  destruct r as [|d r']; [discriminate|]. destruct (d =? 91) eqn:Ed; [|discriminate]. apply Z.eqb_eq in Ed. subst d.
  destruct e as [|x e']; [discriminate|].
  cbn [forallb] in Ha. apply andb_true_iff in Ha. destruct Ha as [Hx Ha']. unfold is61 in Hx. apply Z.eqb_eq in Hx. subst x.
  rewrite arun_cons. change (delta (V, AC2 [45; 45]) 91) with (V, AC3 [45; 45; 91]).
  cbn [app]. rewrite arun_cons. change (delta (V, AC3 [45; 45; 91]) 61) with (V, AC3e [45; 45; 91; 61]).
  rewrite arun_app, afold_eqs by exact Ha'. rewrite arun_cons.
  change (delta (V, AC3e ([45; 45; 91; 61] ++ e')) 91) with (V, AFail). apply arun_fail.
Qed.

(* ====================================================================== block comments *)
Lemma d_AB1_AB V a d : (d =? 93) = false -> delta (V, AB1 a) d = delta (V, AB a) d.
Proof. intros H. unfold delta. rewrite H. reflexivity. Qed.

Lemma long_close_here_0 s : long_close_here 0 s = match s with c :: r => if c =? 93 then Some r else None | [] => None end.
Proof. rewrite long_close_here_eq. destruct s as [|c r]; reflexivity. Qed.

(* the lexer's scan for `]]` and the automaton's *)
Lemma B_fwd s : forall b cl rest V a, long_body 0 s = Some (b, cl, rest) ->
  afold (b ++ cl) (V, AB a) = (emitc V (a ++ nonws (b ++ cl)), AN).
Proof.
  induction s as [|c s IH]; intros b cl rest V a H; [discriminate|]. cbn [long_body] in H.
  destruct (if c =? 93 then long_close_here 0 s else None) as [r0|] eqn:E.
  - injection H as <- <- <-. destruct (c =? 93) eqn:Ec; [|discriminate]. apply Z.eqb_eq in Ec. subst c.
    cbn [repeat app]. change (afold [93; 93] (V, AB a)) with (emitc V ((a ++ [93]) ++ [93]), AN). rewrite <- app_assoc. reflexivity.
  - destruct (long_body 0 s) as [[[b' cl'] rest0]|] eqn:El; [|discriminate]. injection H as <- <- <-.
    cbn [app]. rewrite afold_cons. destruct (long_body_ctx _ _ _ _ _ El) as (Hcl & Hs & _).
    destruct (c =? 93) eqn:Ec.
    + apply Z.eqb_eq in Ec. subst c. change (delta (V, AB a) 93) with (V, AB1 (a ++ [93])).
      rewrite long_close_here_0 in E.
      assert (Hd : exists d tl, b' ++ cl' = d :: tl /\ (d =? 93) = false).
      { destruct (b' ++ cl') as [|d tl] eqn:Eb.
        - apply app_eq_nil in Eb. destruct Eb as [_ Eb]. subst cl'. discriminate Eb.
        - exists d, tl. split; [reflexivity|]. rewrite Hs, app_assoc, Eb in E. cbn [app] in E.
          destruct (d =? 93); [discriminate | reflexivity]. }
      destruct Hd as (d & tl & Eb & Hd).
      assert (Hsw : afold (b' ++ cl') (V, AB1 (a ++ [93])) = afold (b' ++ cl') (V, AB (a ++ [93]))).
      { rewrite Eb, !afold_cons, d_AB1_AB by exact Hd. reflexivity. }
      rewrite Hsw, (IH _ _ _ V (a ++ [93]) eq_refl). rewrite nonws_cons_nws by reflexivity.
      rewrite <- app_assoc. reflexivity.
    + unfold delta. rewrite Ec. destruct (eolb c || blankb c) eqn:Ew.
      * rewrite (IH _ _ _ V a eq_refl). rewrite nonws_cons_ws by (rewrite is_ws_be, orb_comm; exact Ew). reflexivity.
      * rewrite (IH _ _ _ V (a ++ [c]) eq_refl). rewrite nonws_cons_nws by (rewrite is_ws_be, orb_comm; exact Ew).
        rewrite <- app_assoc. reflexivity.
Qed.

Lemma B_none Y : long_body 0 Y = None -> forall V a, arun (V, AB a) Y = None.
Proof.
  induction Y as [|c Y IH]; intros H V a; [reflexivity|]. cbn [long_body] in H.
  destruct (if c =? 93 then long_close_here 0 Y else None) as [r0|] eqn:E; [discriminate|].
  destruct (long_body 0 Y) as [[[b' cl'] rest0]|] eqn:El; [discriminate|].
  rewrite arun_cons. destruct (c =? 93) eqn:Ec.
  - apply Z.eqb_eq in Ec. subst c. change (delta (V, AB a) 93) with (V, AB1 (a ++ [93])).
    rewrite long_close_here_0 in E. destruct Y as [|d Y']; [reflexivity|].
    destruct (d =? 93) eqn:Ed; [discriminate|]. rewrite arun_cons, d_AB1_AB by exact Ed. rewrite <- arun_cons.
    apply IH. reflexivity.
  - unfold delta. rewrite Ec. destruct (eolb c || blankb c); apply IH; reflexivity.
Qed.

(* ====================================================================== segments of the reference token chain *)
Inductive seg : list Z -> list stok -> list Z -> Prop :=
| seg_nil s : seg s [] s
| seg_cons s t s' T r : spec_step s = Some (t, s') -> seg s' T r -> seg s (t :: T) r.

Lemma seg_chain s T r ts : seg s T r -> chain r ts -> chain s (T ++ ts).
Proof. induction 1; intros Hc; [exact Hc|]. cbn [app]. econstructor; [eassumption | auto]. Qed.

Definition rawtxt (T : list stok) : list Z := concat (map s_raw T).

Lemma seg_txt s T r : seg s T r -> s = rawtxt T ++ r.
Proof.
  induction 1 as [|s t s' T r Hs _ IH]; [reflexivity|]. destruct (spec_step_split _ _ _ Hs) as [E _].
  unfold rawtxt. cbn [map concat]. rewrite <- app_assoc. fold (rawtxt T). rewrite <- IH. exact E.
Qed.

Lemma chain_seg s A B : chain s (A ++ B) -> seg s A (rawtxt B) /\ chain (rawtxt B) B.
Proof.
  revert s. induction A as [|t A IH]; intros s H; cbn [app] in H.
  - assert (E : s = rawtxt B).
    { clear -H. induction H as [|s t rest ts Hs _ IH]; [reflexivity|]. destruct (spec_step_split _ _ _ Hs) as [E _].
      unfold rawtxt. cbn [map concat]. fold (rawtxt ts). rewrite <- IH. exact E. }
    subst s. split; [constructor | exact H].
  - inversion H; subst. destruct (IH _ H4) as [H1 H2]. split; [econstructor; eassumption | exact H2].
Qed.

Definition tview (t : stok) : list (list Z) :=
  match s_kind t with SComment => [nonws (s_raw t)] | _ => [] end.
Definition views (T : list stok) : list (list Z) := flat_map tview T.

Definition trivial (t : stok) : Prop := LuaLex.is_trivia t = true.

(* what a trivia token adds to the automaton's report *)
Definition addtok (O : aout) (t : stok) : aout :=
  match s_kind t with
  | SComment => emitc O (nonws (s_raw t))
  | SNewline => emitn O
  | _ => O
  end.
Definition addtoks (O : aout) (T : list stok) : aout := fold_left addtok T O.

Definition is_nlk (t : stok) : bool := match s_kind t with SNewline => true | _ => false end.

Lemma addtoks_spec T : forall O, addtoks O T = (fst O ++ views T, snd O || existsb is_nlk T).
Proof.
  induction T as [|t T IH]; intros [V b]; [cbn; rewrite app_nil_r, orb_false_r; reflexivity|].
  unfold addtoks. cbn [fold_left]. fold (addtoks (addtok (V, b) t) T). rewrite IH.
  cbn [views flat_map existsb]. fold (views T). unfold addtok, tview, is_nlk. destruct (s_kind t); cbn [fst snd emitc emitn orb app];
    rewrite ?app_nil_r, <- ?app_assoc, ?orb_true_r; reflexivity.
Qed.

Lemma line_comment_stop a rest : forallb not_eol a = true -> stops not_eol rest ->
  line_comment (a ++ rest) = Some (mk SComment a a, rest).
Proof. intros Ha Hr. unfold line_comment. fold not_eol. rewrite (span_ctx not_eol a rest Ha Hr). reflexivity. Qed.

Lemma span_cons_true (p : Z -> bool) c r a b : p c = true -> span p (c :: r) = (a, b) ->
  exists a', a = c :: a' /\ span p r = (a', b).
Proof.
  intros Hc H. cbn [span] in H. rewrite Hc in H. destruct (span p r) as [a' b']. injection H as <- <-. eauto.
Qed.

(* ---------- one trivia token ---------- *)
Lemma tok_afold s t s' V : spec_step s = Some (t, s') -> trivial t ->
  afold (s_raw t) (V, AN) = (addtok V t, AN) \/
  (exists st, lineish st (nonws (s_raw t)) /\ afold (s_raw t) (V, AN) = (V, st) /\ s_kind t = SComment /\ stops not_eol s').
Proof.
  intros H Ht. pose proof (spec_step_shape _ _ _ H) as Sh. unfold trivial in Ht. destruct Sh.
  - (* space *) left. unfold addtok. cbn [s_raw mk s_kind]. apply afold_blanks. eapply span_all; eassumption.
  - left. reflexivity.
  - left. reflexivity.
  - (* block *) left. destruct (long_open_spec _ _ _ _ H0) as (k & Hk & ->). assert (k = O) by lia. subst k. cbn [repeat app] in *.
    unfold addtok. cbn [s_raw mk s_kind].
    change (45 :: 45 :: 91 :: 91 :: b ++ cl) with ([45; 45; 91; 91] ++ (b ++ cl)).
    rewrite afold_app. change (afold [45; 45; 91; 91] (V, AN)) with (V, AB [45; 45; 91; 91]).
    rewrite (B_fwd _ _ _ _ V [45; 45; 91; 91] H1). reflexivity.
  - (* -- *) right. fold not_eol in H1.
    destruct (span_cons_true not_eol 45 _ _ _ eq_refl H1) as (a1 & -> & H2).
    destruct (span_cons_true not_eol 45 _ _ _ eq_refl H2) as (p & -> & H3).
    pose proof (span_split _ _ _ _ H3) as Hs. pose proof (span_all _ _ _ _ H3) as Ha. pose proof (span_stop _ _ _ _ H3) as Hst.
    assert (Hcl : oclass p = OLine).
    { rewrite <- (oclass_app p rest Ha Hst), <- Hs. pose proof (lo_class r2) as L. destruct (oclass r2); [reflexivity | |].
      - destruct L as (Y4 & ->). cbn in H0. discriminate H0.
      - destruct L as (lvl & r & L & _). unfold lo in L. destruct r2 as [|c r3]; [discriminate|].
        destruct (c =? 91) eqn:Ec; [|discriminate]. apply Z.eqb_eq in Ec. subst c. rewrite L in H0. discriminate H0. }
    destruct (auto_class_line p V Hcl Ha) as (st & Hl & Hf).
    exists st. cbn [s_raw mk s_kind].
    assert (Hn : nonws (45 :: 45 :: p) = [45; 45] ++ nonws p) by reflexivity.
    rewrite Hn. split; [exact Hl|]. split; [|split; [reflexivity | exact Hst]].
    change (45 :: 45 :: p) with ([45; 45] ++ p). rewrite afold_app. exact Hf.
  - (* // *) right. fold not_eol in H0.
    destruct (span_cons_true not_eol 47 _ _ _ eq_refl H0) as (a1 & -> & H2).
    destruct (span_cons_true not_eol 47 _ _ _ eq_refl H2) as (p & -> & H3).
    pose proof (span_all _ _ _ _ H3) as Ha. pose proof (span_stop _ _ _ _ H3) as Hst.
    exists (AL ([47; 47] ++ nonws p)). cbn [s_raw mk s_kind].
    assert (Hn : nonws (47 :: 47 :: p) = [47; 47] ++ nonws p) by reflexivity.
    rewrite Hn. split; [right; right; right; reflexivity|]. split; [|split; [reflexivity | exact Hst]].
    change (47 :: 47 :: p) with ([47; 47] ++ p). rewrite afold_app. change (afold [47; 47] (V, AN)) with (V, AL [47; 47]).
    apply afold_L, Ha.
  - discriminate Ht.
  - discriminate Ht.
  - apply spec_number_kind in H1. unfold LuaLex.is_trivia in Ht. rewrite H1 in Ht. discriminate Ht.
  - unfold LuaLex.is_trivia in Ht. cbn [s_kind mk] in Ht. destruct (mem_bytes a spec_keywords); discriminate Ht.
  - discriminate Ht.
  - discriminate Ht.
  - apply spec_symbol_kind in H0. unfold LuaLex.is_trivia in Ht. rewrite H0 in Ht. discriminate Ht.
Qed.

(* ---------- (A) a stretch of trivia tokens is accepted, with its comments ---------- *)
Lemma seg_arun s T r : seg s T r -> Forall trivial T ->
  (r = [] \/ exists c r', r = c :: r' /\ is_eol c = false) ->
  forall (V : aout) (cf : acfg),
    (cf = (V, AN) \/ exists V0 st a, lineish st a /\ cf = (V0, st) /\ V = emitc V0 a /\ stops not_eol s) ->
    exists E, arun cf (rawtxt T) = Some (addtoks V T, E) /\ (E = EL -> r = []).
Proof.
  induction 1 as [s|s t s' T r Hs Hseg IH]; intros HT Hr V cf Hcf.
  - cbn [rawtxt map concat]. destruct Hcf as [->|(V0 & st & a & Hl & -> & -> & Hst)].
    + exists EN. split; [reflexivity | discriminate].
    + exists EL. split; [apply lineish_final, Hl|]. intros _. destruct Hr as [->|(c & r' & -> & Hc)]; [reflexivity|].
      cbn [stops] in Hst. unfold not_eol in Hst. rewrite Hc in Hst. discriminate Hst.
  - inversion HT as [|? ? Ht HT']; subst. unfold rawtxt. cbn [map concat]. fold (rawtxt T).
    change (addtoks V (t :: T)) with (addtoks (addtok V t) T). rewrite arun_app.
    destruct Hcf as [->|(V0 & st & a & Hl & -> & -> & Hst)].
    + destruct (tok_afold s t s' V Hs Ht) as [Hf|(st & Hl & Hf & Hk & Hst)].
      * rewrite Hf. exact (IH HT' Hr (addtok V t) _ (or_introl eq_refl)).
      * rewrite Hf. apply (IH HT' Hr (addtok V t) (V, st)).
        right. exists V, st, (nonws (s_raw t)). unfold addtok. rewrite Hk. auto.
    + (* after an end-of-line comment: the next token is a line break *)
      destruct (spec_step_split _ _ _ Hs) as [Esp Hne]. destruct s as [|c s1]; [destruct (s_raw t); [congruence | discriminate Esp]|].
      cbn [stops] in Hst. unfold not_eol in Hst. apply negb_false_iff in Hst.
      unfold is_eol in Hst. apply orb_true_iff in Hst. destruct Hst as [Hc|Hc]; apply Z.eqb_eq in Hc; subst c.
      * change (spec_step (10 :: s1)) with (Some (mk SNewline [10] [10], s1)) in Hs. injection Hs as <- <-.
        cbn [s_raw mk]. rewrite afold_cons, (lineish_eol V0 st a 10 Hl eq_refl).
        exact (IH HT' Hr _ _ (or_introl eq_refl)).
      * destruct s1 as [|d s2]; [discriminate Hs|]. destruct (d =? 10) eqn:Ed.
        -- apply Z.eqb_eq in Ed. subst d.
           change (spec_step (13 :: 10 :: s2)) with (Some (mk SNewline [13; 10] [13; 10], s2)) in Hs. injection Hs as <- <-.
           cbn [s_raw mk]. rewrite !afold_cons, (lineish_eol V0 st a 13 Hl eq_refl).
           exact (IH HT' Hr _ _ (or_introl eq_refl)).
        -- exfalso. unfold spec_step in Hs. cbn -[spec_symbol] in Hs. apply Z.eqb_neq in Ed.
           destruct d as [|d|d]; try discriminate Hs. repeat (destruct d as [d|d|]; try discriminate Hs). congruence.
Qed.

(* ---------- (C) an accepted text is read as trivia tokens with the reported comments ---------- *)
Definition starts_code (R : list Z) : Prop :=
  R = [] \/ exists c r', R = c :: r' /\ is_blank c = false /\ is_eol c = false.

Lemma starts_code_stops_blank R : starts_code R -> stops is_blank R.
Proof. intros [->|(c & r' & -> & Hb & _)]; [exact I | exact Hb]. Qed.

Lemma stops_not_eol_cons c r : is_eol c = true -> stops not_eol (c :: r).
Proof. intros H. cbn [stops]. unfold not_eol. rewrite H. reflexivity. Qed.

Definition arun_seg_stmt (X : list Z) : Prop :=
  forall V R V' E, arun (V, AN) X = Some (V', E) -> crlf_only (X ++ R) = true -> starts_code R -> (E = EL -> R = []) ->
  exists toks, seg (X ++ R) toks R /\ Forall trivial toks /\ V' = addtoks V toks.

(* the end of an end-of-line comment: o = `--` / `//`, p the rest of the comment, Y what follows it in the text *)
Lemma line_finish n (IH : forall X, (length X <= n)%nat -> arun_seg_stmt X) o p Y V R V' E st :
  (length Y <= n)%nat -> forallb not_eol p = true -> (Y = [] \/ exists e Y1, Y = e :: Y1 /\ is_eol e = true) ->
  lineish st (nonws (o ++ p)) -> arun (V, st) Y = Some (V', E) ->
  (stops not_eol (Y ++ R) -> spec_step ((o ++ p) ++ Y ++ R) = Some (mk SComment (o ++ p) (o ++ p), Y ++ R)) ->
  crlf_only (Y ++ R) = true -> starts_code R -> (E = EL -> R = []) ->
  exists toks, seg ((o ++ p) ++ Y ++ R) toks R /\ Forall trivial toks /\ V' = addtoks V toks.
Proof.
  intros Hlen Hp HY Hl Hrun Hspec Hcr HR HE. destruct HY as [->|(e & Y1 & -> & He)].
  - unfold arun in Hrun. cbn [afold fold_left] in Hrun. rewrite (lineish_final V st _ Hl) in Hrun. injection Hrun as <- <-.
    rewrite (HE eq_refl) in *. cbn [app] in *. exists [mk SComment (o ++ p) (o ++ p)]. split; [|split].
    + econstructor; [apply Hspec; exact I | constructor].
    + constructor; [reflexivity | constructor].
    + reflexivity.
  - assert (Hrun' : arun (emitc V (nonws (o ++ p)), AN) (e :: Y1) = Some (V', E)).
    { rewrite arun_cons in Hrun. rewrite (lineish_eol V st _ e Hl He) in Hrun. rewrite arun_cons, delta_N_eol by exact He. exact Hrun. }
    destruct (IH (e :: Y1) Hlen _ R _ _ Hrun' Hcr HR HE) as (toks & Hseg & Htr & Hv).
    exists (mk SComment (o ++ p) (o ++ p) :: toks). split; [|split].
    + econstructor; [apply Hspec; cbn [app]; apply stops_not_eol_cons, He | exact Hseg].
    + constructor; [reflexivity | exact Htr].
    + rewrite Hv. reflexivity.
Qed.

Lemma span_not_eol_tail p Y : LuaLex.span not_eol (p ++ Y) = (p, Y) -> Y = [] \/ exists e Y1, Y = e :: Y1 /\ is_eol e = true.
Proof.
  intros H. pose proof (span_stop _ _ _ _ H) as Hst. destruct Y as [|e Y1]; [left; reflexivity|].
  right. exists e, Y1. split; [reflexivity|]. cbn [stops] in Hst. unfold not_eol in Hst. apply negb_false_iff in Hst. exact Hst.
Qed.

Lemma arun_seg : forall n X, (length X <= n)%nat -> arun_seg_stmt X.
Proof.
  induction n as [|n IH]; intros X Hlen V R V' E Hrun Hcr HR HE.
  - destruct X; [|cbn in Hlen; lia]. unfold arun in Hrun. cbn in Hrun. injection Hrun as <- <-.
    exists []. split; [constructor|]. split; [constructor | reflexivity].
  - destruct X as [|c X1].
    { unfold arun in Hrun. cbn in Hrun. injection Hrun as <- <-.
      exists []. split; [constructor|]. split; [constructor | reflexivity]. }
    cbn [length] in Hlen.
    destruct (is_blank c) eqn:Eb.
    { (* a stretch of blanks *)
      destruct (LuaLex.span is_blank (c :: X1)) as [a b] eqn:Es.
      pose proof (span_split _ _ _ _ Es) as Hs. pose proof (span_all _ _ _ _ Es) as Ha. pose proof (span_stop _ _ _ _ Es) as Hst.
      pose proof (span_head _ _ _ _ _ Eb Es) as Hne.
      assert (Hlb : (length b <= n)%nat).
      { pose proof (f_equal (@length Z) Hs) as Hl2. cbn [length] in Hl2. rewrite app_length in Hl2.
        destruct a; [congruence | cbn [length] in Hl2; lia]. }
      rewrite Hs in *. rewrite arun_app, afold_blanks in Hrun by exact Ha.
      rewrite <- app_assoc in Hcr. pose proof (crlf_only_suffix _ _ Hcr) as Hcr'.
      destruct (IH b Hlb V R V' E Hrun Hcr' HR HE) as (toks & Hseg & Htr & Hv).
      exists (mk SSpace a a :: toks). split; [|split].
      - rewrite <- app_assoc. econstructor; [|exact Hseg]. apply spec_step_space; [exact Hne | exact Ha|].
        destruct b as [|x b']; [cbn [app]; apply starts_code_stops_blank, HR | exact Hst].
      - constructor; [reflexivity | exact Htr].
      - exact Hv. }
    destruct (c =? 10) eqn:E10.
    { apply Z.eqb_eq in E10. subst c. rewrite arun_cons in Hrun. change (delta (V, AN) 10) with (emitn V, AN) in Hrun.
      cbn [app] in Hcr. rewrite crlf_only_cons in Hcr. cbn in Hcr.
      destruct (IH X1 ltac:(lia) _ R V' E Hrun Hcr HR HE) as (toks & Hseg & Htr & Hv).
      exists (mk SNewline [10] [10] :: toks). split; [|split].
      - cbn [app]. econstructor; [reflexivity | exact Hseg].
      - constructor; [reflexivity | exact Htr].
      - exact Hv. }
    destruct (c =? 13) eqn:E13.
    { apply Z.eqb_eq in E13. subst c. rewrite arun_cons in Hrun. change (delta (V, AN) 13) with (emitn V, AN) in Hrun.
      cbn [app] in Hcr. rewrite crlf_only_cons in Hcr. cbn [Z.eqb Pos.eqb] in Hcr. apply andb_true_iff in Hcr. destruct Hcr as [Hh Hcr].
      destruct X1 as [|d X2].
      - exfalso. cbn [app] in Hh. destruct HR as [->|(x & r' & -> & _ & Hx)]; [discriminate Hh|]. cbn [hd10] in Hh.
        apply Z.eqb_eq in Hh. subst x. discriminate Hx.
      - cbn [app hd10] in Hh. apply Z.eqb_eq in Hh. subst d. rewrite arun_cons in Hrun. change (delta (emitn V, AN) 10) with (emitn V, AN) in Hrun.
        cbn [app] in Hcr. rewrite crlf_only_cons in Hcr. cbn in Hcr. cbn [length] in Hlen.
        destruct (IH X2 ltac:(lia) _ R V' E Hrun Hcr HR HE) as (toks & Hseg & Htr & Hv).
        exists (mk SNewline [13; 10] [13; 10] :: toks). split; [|split].
        + cbn [app]. econstructor; [reflexivity | exact Hseg].
        + constructor; [reflexivity | exact Htr].
        + exact Hv. }
    assert (Hws : eolb c = false) by (unfold eolb; rewrite E10, E13; reflexivity).
    rewrite arun_cons in Hrun. unfold delta in Hrun. rewrite Hws in Hrun. change (blankb c) with (is_blank c) in Hrun. rewrite Eb in Hrun.
    destruct (c =? 45) eqn:E45.
    { (* -- *)
      apply Z.eqb_eq in E45. subst c. destruct X1 as [|d X2]; [discriminate Hrun|].
      rewrite arun_cons in Hrun. unfold delta in Hrun. destruct (d =? 45) eqn:Ed; [|rewrite arun_fail in Hrun; discriminate Hrun].
      apply Z.eqb_eq in Ed. subst d. cbn [length] in Hlen.
      assert (Hcr2 : crlf_only (X2 ++ R) = true) by (apply (crlf_only_suffix [45; 45]); exact Hcr).
      pose proof (lo_class X2) as Lc. destruct (oclass X2) eqn:Ecl.
      - (* end-of-line comment *)
        destruct (LuaLex.span not_eol X2) as [p Y] eqn:Es.
        pose proof (span_split _ _ _ _ Es) as Hs. pose proof (span_all _ _ _ _ Es) as Ha. subst X2.
        pose proof (span_not_eol_tail _ _ Es) as HY.
        assert (Hst0 : stops not_eol Y) by (destruct HY as [->|(e & Y1 & -> & He)]; [exact I | apply stops_not_eol_cons, He]).
        rewrite (oclass_app p Y Ha Hst0) in Ecl.
        destruct (auto_class_line p V Ecl Ha) as (st & Hl & Hf).
        rewrite arun_app, Hf in Hrun.
        rewrite <- app_assoc in Hcr2. pose proof (crlf_only_suffix _ _ Hcr2) as Hcr3.
        rewrite app_length in Hlen.
        destruct (line_finish n IH [45; 45] p Y V R V' E st ltac:(lia) Ha HY Hl Hrun) as (toks & Hseg & Htr & Hv); try assumption.
        + intros Hst. cbn [app]. rewrite dash_eq. fold (lo (p ++ Y ++ R)).
          pose proof (lo_class (p ++ Y ++ R)) as L2. rewrite (oclass_app p (Y ++ R) Ha Hst), Ecl in L2. rewrite L2.
          change (45 :: 45 :: p ++ Y ++ R) with ((45 :: 45 :: p) ++ Y ++ R). apply line_comment_stop; [exact Ha | exact Hst].
        + exists toks. split; [|split; assumption]. cbn [app] in *. rewrite <- app_assoc. exact Hseg.
      - (* block comment *)
        destruct Lc as (Y4 & ->). rewrite !arun_cons in Hrun. change (delta (delta (V, AC2 [45; 45]) 91) 91) with (V, AB [45; 45; 91; 91]) in Hrun.
        destruct (long_body 0 Y4) as [[[b cl] Y']|] eqn:El; [|rewrite (B_none Y4 El) in Hrun; discriminate Hrun].
        destruct (long_body_ctx _ _ _ _ _ El) as (Hcl & HsY & Hctx). subst Y4.
        rewrite app_assoc, arun_app, (B_fwd _ _ _ _ V [45; 45; 91; 91] El) in Hrun.
        assert (HlY : (length Y' <= n)%nat).
        { cbn [length] in Hlen. rewrite !app_length in Hlen. lia. }
        assert (Hcr4 : crlf_only (Y' ++ R) = true).
        { cbn [app] in Hcr2. apply (crlf_only_suffix ([91; 91] ++ b ++ cl)). rewrite <- !app_assoc. cbn [app]. rewrite <- !app_assoc in Hcr2. exact Hcr2. }
        destruct (IH Y' HlY _ R V' E Hrun Hcr4 HR HE) as (toks & Hseg & Htr & Hv).
        exists (mk SComment (45 :: 45 :: 91 :: 91 :: b ++ cl) (45 :: 45 :: 91 :: 91 :: b ++ cl) :: toks). split; [|split].
        + econstructor; [|exact Hseg]. cbn [app]. rewrite dash_eq. cbn [Z.eqb Pos.eqb]. rewrite long_open_eq. cbn [Z.eqb Pos.eqb].
          rewrite <- !app_assoc. rewrite Hctx. reflexivity.
        + constructor; [reflexivity | exact Htr].
        + rewrite Hv. reflexivity.
      - (* --[=[ : outside the dialect *)
        rewrite (auto_class_undef X2 V Ecl) in Hrun. discriminate Hrun. }
    destruct (c =? 47) eqn:E47.
    { (* // *)
      apply Z.eqb_eq in E47. subst c. destruct X1 as [|d X2]; [discriminate Hrun|].
      rewrite arun_cons in Hrun. unfold delta in Hrun. destruct (d =? 47) eqn:Ed; [|rewrite arun_fail in Hrun; discriminate Hrun].
      apply Z.eqb_eq in Ed. subst d. cbn [length] in Hlen.
      assert (Hcr2 : crlf_only (X2 ++ R) = true) by (apply (crlf_only_suffix [47; 47]); exact Hcr).
      destruct (LuaLex.span not_eol X2) as [p Y] eqn:Es.
      pose proof (span_split _ _ _ _ Es) as Hs. pose proof (span_all _ _ _ _ Es) as Ha. subst X2.
      pose proof (span_not_eol_tail _ _ Es) as HY.
      rewrite arun_app, afold_L in Hrun by exact Ha.
      rewrite <- app_assoc in Hcr2. pose proof (crlf_only_suffix _ _ Hcr2) as Hcr3.
      rewrite app_length in Hlen.
      destruct (line_finish n IH [47; 47] p Y V R V' E (AL ([47; 47] ++ nonws p)) ltac:(lia) Ha HY) as (toks & Hseg & Htr & Hv); try assumption.
      + right. right. right. reflexivity.
      + intros Hst. cbn [app]. change (spec_step (47 :: 47 :: p ++ Y ++ R)) with (line_comment ((47 :: 47 :: p) ++ Y ++ R)).
        apply line_comment_stop; [exact Ha | exact Hst].
      + exists toks. split; [|split; assumption]. cbn [app] in *. rewrite <- app_assoc. exact Hseg. }
    rewrite arun_fail in Hrun. discriminate Hrun.
Qed.

(* ====================================================================== code tokens *)
(* the token the code of t is read as: t itself, except that a quoted string is spelled the way TokString.code spells it *)
Definition norm_tok (t : stok) : stok :=
  match s_kind t with
  | SString => if s_long t <? 0 then mk_stok SString (spec_code t) (s_text t) 0 1 (-1) 0 0 else t
  | _ => t
  end.

Definition hdrel (old out : list Z) : Prop :=
  (exists c o1 o2, old = c :: o1 /\ out = c :: o2) \/ out = [] \/ (exists c o2, out = c :: o2 /\ (c = 32 \/ c = 10)).

Lemma symbols_safe_sp : forallb (fun x => sym_safe x 32) spec_symbols = true.
Proof. vm_compute. reflexivity. Qed.

Lemma sig_kind_cases t : LuaLex.is_trivia t = false ->
  s_kind t = SString \/ s_kind t = SNumber \/ s_kind t = SName \/ s_kind t = SLabel \/ s_kind t = SKeyword \/ s_kind t = SSymbol.
Proof. unfold LuaLex.is_trivia. destruct (s_kind t); intros H; try discriminate H; tauto. Qed.

Lemma sig_relex s t old out : spec_step s = Some (t, old) -> LuaLex.is_trivia t = false -> hdrel old out ->
  spec_step (spec_code t ++ out) = Some (norm_tok t, out).
Proof.
  intros Hs Ht Hrel. assert (Hsh : shaped t) by (exists s, old; apply spec_step_shape, Hs).
  destruct (sig_kind_cases t Ht) as [K|K].
  { (* strings: any context *)
    destruct (shaped_string t Hsh K) as (_ & Hu). rewrite (Hu out). f_equal. f_equal. unfold out_tok, norm_tok. rewrite K. reflexivity. }
  assert (Hcode : spec_code t = s_raw t) by (unfold spec_code; destruct K as [K|[K|[K|[K|K]]]]; rewrite K; reflexivity).
  assert (Hnorm : norm_tok t = t) by (unfold norm_tok; destruct K as [K|[K|[K|[K|K]]]]; rewrite K; reflexivity).
  rewrite Hcode, Hnorm. destruct Hrel as [(c & o1 & o2 & -> & ->)|Hrel].
  { (* the same first byte follows *) eapply step_ctx, Hs. }
  assert (Hstop : stops is_name_char out /\ num_stops false out /\
                  match out with [] => True | c :: _ => forall x, In x spec_symbols -> sym_safe x c = true end).
  { destruct Hrel as [->|(c & o2 & -> & Hc)]; [repeat split|].
    destruct Hc as [-> | ->]; (split; [reflexivity|]; split; [split; reflexivity|]); intros x Hx.
    - pose proof symbols_safe_sp as S. rewrite forallb_forall in S. exact (S x Hx).
    - pose proof symbols_safe_lf as S. rewrite forallb_forall in S. exact (S x Hx). }
  destruct Hstop as (Hn & Hnum & Hsym).
  destruct K as [K|[K|[K|[K|K]]]].
  - destruct (shaped_number t Hsh K) as (_ & Hu). apply Hu, Hnum.
  - destruct (shaped_name t Hsh K) as [->|(Hname & Hkw & E)]; [reflexivity|]. rewrite E at 2. cbn [s_raw mk].
    apply name_unit; assumption.
  - destruct (shaped_label t Hsh K) as (n & Hname & ->). cbn [s_raw mk app]. rewrite <- app_assoc. cbn [app].
    apply (spec_step_label n out Hname).
  - destruct (shaped_keyword t Hsh K) as (_ & Hu). apply Hu, Hn.
  - destruct (shaped_symbol t Hsh K) as (Hin & E). rewrite E at 2. cbn [s_raw mk]. destruct out as [|c o2].
    + rewrite app_nil_r. apply spec_step_symbol_end, Hin.
    + apply spec_step_symbol; [exact Hin | apply Hsym, Hin].
Qed.

(* a code token does not begin with a blank or a line end, and its code begins with the byte its text begins with *)
Lemma sig_head s t rest : spec_step s = Some (t, rest) -> LuaLex.is_trivia t = false ->
  exists c s1, s = c :: s1 /\ is_blank c = false /\ is_eol c = false.
Proof.
  intros H Ht. destruct s as [|c s1]; [discriminate H|]. exists c, s1. split; [reflexivity|].
  unfold spec_step in H. destruct (is_blank c) eqn:Eb.
  { destruct (LuaLex.span is_blank (c :: s1)) as [a b]. injection H as <- _. discriminate Ht. }
  destruct (c =? 10) eqn:E10; [injection H as <- _; discriminate Ht|].
  destruct (c =? 13) eqn:E13.
  { destruct s1 as [|d s2]; [discriminate H|]. destruct d as [|d|d]; try discriminate H.
    repeat (destruct d as [d|d|]; try discriminate H). injection H as <- _. discriminate Ht. }
  split; [reflexivity|]. unfold is_eol. rewrite E10, E13. reflexivity.
Qed.

Lemma code_head s t rest : spec_step s = Some (t, rest) ->
  exists c r1 r2, s_raw t = c :: r1 /\ spec_code t = c :: r2.
Proof.
  intros H. destruct (spec_step_split _ _ _ H) as [_ Hne]. pose proof (spec_step_shape _ _ _ H) as Sh.
  destruct (s_raw t) as [|c r1] eqn:Er; [congruence|]. exists c, r1.
  assert (Hd : spec_code t = s_raw t \/ exists q raw v, (q = 34 \/ q = 39) /\ t = mk_stok SString (q :: raw) v 0 1 (-1) 0 0).
  { destruct Sh; try (left; reflexivity).
    - left. unfold spec_code. cbn [s_kind s_long s_raw]. destruct (long_open_spec _ _ _ _ H0) as (k & Hk & _).
      replace (lvl <? 0) with false by lia. reflexivity.
    - right. eauto.
    - left. unfold spec_code. apply spec_number_kind in H1. rewrite H1. reflexivity.
    - left. unfold spec_code. cbn [s_kind mk]. destruct (mem_bytes a spec_keywords); reflexivity.
    - left. unfold spec_code. apply spec_symbol_kind in H0. rewrite H0. reflexivity. }
  destruct Hd as [Hd|(q & raw & v & Hq & ->)].
  - rewrite Hd, Er. eauto.
  - cbn [s_raw] in Er. injection Er as <- <-. unfold spec_code. cbn [s_kind s_long s_raw s_text firstn].
    change (-1 <? 0) with true. cbv iota. unfold Lexer.reencode. cbn [app]. eauto.
Qed.
