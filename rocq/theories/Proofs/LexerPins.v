(* Source pins of pico8/lua/lexer.py: the lexer (Model/Lexer.v).
   WRITTEN BY gen/mkpins.py (developer step) from the sources the hand-written model was compared with;
   each lemma fails when the function it names has been edited since (digest of ast.unparse, docstrings
   dropped; regenerated on every run into Generated/T_pins_lexer.v). *)
From Coq Require Import ZArith List.
Import ListNotations.
Open Scope Z_scope.
From PV Require Import Generated.T_pins_lexer.

Lemma pin__LexerError____init___ok : pin__LexerError____init__ = [243; 220; 151; 134; 247; 195; 232; 89].
Proof. reflexivity. Qed.
Lemma pin__Token____init___ok : pin__Token____init__ = [242; 94; 85; 230; 221; 200; 57; 106].
Proof. reflexivity. Qed.
Lemma pin__Token____len___ok : pin__Token____len__ = [231; 245; 25; 15; 84; 155; 220; 136].
Proof. reflexivity. Qed.
Lemma pin__Token____eq___ok : pin__Token____eq__ = [218; 162; 121; 71; 101; 24; 161; 164].
Proof. reflexivity. Qed.
Lemma pin__Token__matches_ok : pin__Token__matches = [38; 114; 175; 16; 99; 242; 4; 36].
Proof. reflexivity. Qed.
Lemma pin__Token__value_ok : pin__Token__value = [184; 188; 16; 70; 131; 73; 18; 12].
Proof. reflexivity. Qed.
Lemma pin__Token__code_ok : pin__Token__code = [87; 116; 76; 87; 245; 167; 232; 181].
Proof. reflexivity. Qed.
Lemma pin__Token__code_2_ok : pin__Token__code_2 = [32; 101; 8; 193; 139; 244; 224; 84].
Proof. reflexivity. Qed.
Lemma pin__TokString____init___ok : pin__TokString____init__ = [81; 9; 209; 97; 96; 222; 88; 238].
Proof. reflexivity. Qed.
Lemma pin__TokString__value_ok : pin__TokString__value = [97; 144; 1; 124; 217; 126; 182; 114].
Proof. reflexivity. Qed.
Lemma pin__TokString__code_ok : pin__TokString__code = [185; 43; 85; 181; 1; 162; 182; 174].
Proof. reflexivity. Qed.
Lemma pin__TokString__code_2_ok : pin__TokString__code_2 = [32; 101; 8; 193; 139; 244; 224; 84].
Proof. reflexivity. Qed.
Lemma pin__TokNumber__value_ok : pin__TokNumber__value = [114; 227; 245; 243; 32; 194; 61; 211].
Proof. reflexivity. Qed.
Lemma pin__Lexer____init___ok : pin__Lexer____init__ = [48; 161; 61; 37; 158; 149; 77; 225].
Proof. reflexivity. Qed.
Lemma pin__Lexer___debug_lexer_state_ok : pin__Lexer___debug_lexer_state = [145; 32; 70; 111; 118; 253; 98; 23].
Proof. reflexivity. Qed.
Lemma pin__Lexer___process_token_ok : pin__Lexer___process_token = [137; 243; 101; 0; 14; 15; 101; 2].
Proof. reflexivity. Qed.
Lemma pin__Lexer___process_line_ok : pin__Lexer___process_line = [56; 192; 202; 228; 90; 119; 141; 116].
Proof. reflexivity. Qed.
Lemma pin__Lexer__process_lines_ok : pin__Lexer__process_lines = [30; 71; 18; 105; 227; 222; 108; 192].
Proof. reflexivity. Qed.
Lemma pin__Lexer__tokens_ok : pin__Lexer__tokens = [33; 119; 109; 17; 248; 153; 20; 40].
Proof. reflexivity. Qed.

(* no function was added to or removed from the pinned classes *)
Lemma pin_names__lexer_ok : pin_names__lexer =
  [[112; 105; 110; 95; 95; 76; 101; 120; 101; 114; 69; 114; 114; 111; 114; 95; 95; 95; 95; 105; 110; 105; 116; 95; 95]; [112; 105; 110; 95; 95; 84; 111; 107; 101; 110; 95; 95; 95; 95; 105; 110; 105; 116; 95; 95]; [112; 105; 110; 95; 95; 84; 111; 107; 101; 110; 95; 95; 95; 95; 108; 101; 110; 95; 95]; [112; 105; 110; 95; 95; 84; 111; 107; 101; 110; 95; 95; 95; 95; 101; 113; 95; 95]; [112; 105; 110; 95; 95; 84; 111; 107; 101; 110; 95; 95; 109; 97; 116; 99; 104; 101; 115]; [112; 105; 110; 95; 95; 84; 111; 107; 101; 110; 95; 95; 118; 97; 108; 117; 101]; [112; 105; 110; 95; 95; 84; 111; 107; 101; 110; 95; 95; 99; 111; 100; 101]; [112; 105; 110; 95; 95; 84; 111; 107; 101; 110; 95; 95; 99; 111; 100; 101; 95; 50]; [112; 105; 110; 95; 95; 84; 111; 107; 83; 116; 114; 105; 110; 103; 95; 95; 95; 95; 105; 110; 105; 116; 95; 95]; [112; 105; 110; 95; 95; 84; 111; 107; 83; 116; 114; 105; 110; 103; 95; 95; 118; 97; 108; 117; 101]; [112; 105; 110; 95; 95; 84; 111; 107; 83; 116; 114; 105; 110; 103; 95; 95; 99; 111; 100; 101]; [112; 105; 110; 95; 95; 84; 111; 107; 83; 116; 114; 105; 110; 103; 95; 95; 99; 111; 100; 101; 95; 50]; [112; 105; 110; 95; 95; 84; 111; 107; 78; 117; 109; 98; 101; 114; 95; 95; 118; 97; 108; 117; 101]; [112; 105; 110; 95; 95; 76; 101; 120; 101; 114; 95; 95; 95; 95; 105; 110; 105; 116; 95; 95]; [112; 105; 110; 95; 95; 76; 101; 120; 101; 114; 95; 95; 95; 100; 101; 98; 117; 103; 95; 108; 101; 120; 101; 114; 95; 115; 116; 97; 116; 101]; [112; 105; 110; 95; 95; 76; 101; 120; 101; 114; 95; 95; 95; 112; 114; 111; 99; 101; 115; 115; 95; 116; 111; 107; 101; 110]; [112; 105; 110; 95; 95; 76; 101; 120; 101; 114; 95; 95; 95; 112; 114; 111; 99; 101; 115; 115; 95; 108; 105; 110; 101]; [112; 105; 110; 95; 95; 76; 101; 120; 101; 114; 95; 95; 112; 114; 111; 99; 101; 115; 115; 95; 108; 105; 110; 101; 115]; [112; 105; 110; 95; 95; 76; 101; 120; 101; 114; 95; 95; 116; 111; 107; 101; 110; 115]].
Proof. reflexivity. Qed.
