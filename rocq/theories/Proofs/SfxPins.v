(* Source pins of pico8/sfx/sfx.py: the sound effects section.
   WRITTEN BY gen/mkpins.py (developer step) from the sources the hand-written model was compared with;
   each lemma fails when the function it names has been edited since (digest of ast.unparse, docstrings
   dropped; regenerated on every run into Generated/T_pins_sfx.v). *)
From Coq Require Import ZArith List.
Import ListNotations.
Open Scope Z_scope.
From PV Require Import Generated.T_pins_sfx.

Lemma pin__Sfx__empty_ok : pin__Sfx__empty = [81; 8; 156; 2; 29; 216; 91; 211].
Proof. reflexivity. Qed.
Lemma pin__Sfx__from_lines_ok : pin__Sfx__from_lines = [240; 73; 16; 158; 201; 213; 80; 190].
Proof. reflexivity. Qed.
Lemma pin__Sfx__to_lines_ok : pin__Sfx__to_lines = [30; 225; 219; 197; 48; 0; 122; 106].
Proof. reflexivity. Qed.
Lemma pin__Sfx__get_note_ok : pin__Sfx__get_note = [198; 171; 37; 65; 232; 165; 138; 69].
Proof. reflexivity. Qed.
Lemma pin__Sfx__set_note_ok : pin__Sfx__set_note = [106; 171; 242; 89; 105; 157; 172; 16].
Proof. reflexivity. Qed.
Lemma pin__Sfx__get_properties_ok : pin__Sfx__get_properties = [135; 124; 154; 18; 83; 135; 220; 78].
Proof. reflexivity. Qed.
Lemma pin__Sfx__set_properties_ok : pin__Sfx__set_properties = [94; 29; 118; 41; 17; 161; 160; 99].
Proof. reflexivity. Qed.

(* no function was added to or removed from the pinned classes *)
Lemma pin_names__sfx_ok : pin_names__sfx =
  [[112; 105; 110; 95; 95; 83; 102; 120; 95; 95; 101; 109; 112; 116; 121]; [112; 105; 110; 95; 95; 83; 102; 120; 95; 95; 102; 114; 111; 109; 95; 108; 105; 110; 101; 115]; [112; 105; 110; 95; 95; 83; 102; 120; 95; 95; 116; 111; 95; 108; 105; 110; 101; 115]; [112; 105; 110; 95; 95; 83; 102; 120; 95; 95; 103; 101; 116; 95; 110; 111; 116; 101]; [112; 105; 110; 95; 95; 83; 102; 120; 95; 95; 115; 101; 116; 95; 110; 111; 116; 101]; [112; 105; 110; 95; 95; 83; 102; 120; 95; 95; 103; 101; 116; 95; 112; 114; 111; 112; 101; 114; 116; 105; 101; 115]; [112; 105; 110; 95; 95; 83; 102; 120; 95; 95; 115; 101; 116; 95; 112; 114; 111; 112; 101; 114; 116; 105; 101; 115]].
Proof. reflexivity. Qed.
