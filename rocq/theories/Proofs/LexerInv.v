(* The invariant of the lexer loop (Model/Lexer.v): coverage (nothing dropped, nothing duplicated),
   positions (every token's line/column is the position of its first byte), fuel. Any chunking. *)
From PV Require Import Base.Prelude Generated.T_lexer Model.Lexer Proofs.LexerProofs.
From Coq Require Import ZifyBool.

Lemma advance_app lc a b : advance lc (a ++ b) = advance (advance lc a) b.
Proof. unfold advance. apply fold_left_app. Qed.

Lemma advance_nil lc : advance lc [] = lc.
Proof. reflexivity. Qed.

(* the source bytes consumed for a multi-line token that is still open *)
Definition pending (ms : mstate) : list Z :=
  match ms with
  | Normal => []
  | InString _ _ _ _ ext => rev ext
  | InComment acc _ _ => rev acc
  | InLongString _ _ _ _ ext => rev ext
  end.

Definition state_start (ms : mstate) : option (Z * Z) :=
  match ms with
  | Normal => None
  | InString _ _ l c _ => Some (l, c)
  | InComment _ l c => Some (l, c)
  | InLongString _ _ l c _ => Some (l, c)
  end.

Definition exts (ts : list tok) : list Z := concat (map t_ext ts).

Lemma exts_app a b : exts (a ++ b) = exts a ++ exts b.
Proof. unfold exts. rewrite map_app, concat_app. reflexivity. Qed.

Lemma exts_one t : exts [t] = t_ext t.
Proof. unfold exts. cbn. apply app_nil_r. Qed.

(* every token carries the position reached after the extents before it *)
Fixpoint pos_ok (lc : Z * Z) (ts : list tok) : Prop :=
  match ts with
  | [] => True
  | t :: r => (t_line t, t_col t) = lc /\ pos_ok (advance lc (t_ext t)) r
  end.

Lemma pos_ok_app lc a : forall b, pos_ok lc (a ++ b) <-> pos_ok lc a /\ pos_ok (advance lc (exts a)) b.
Proof.
  revert lc. induction a as [|t a IH]; intros lc b; cbn [app pos_ok].
  - unfold exts. cbn. tauto.
  - rewrite IH. change (exts (t :: a)) with (t_ext t ++ exts a). rewrite advance_app. tauto.
Qed.

Record Inv (st : lexst) (pre : list Z) : Prop := mk_Inv {
  inv_cover : pre = exts (rev (l_toks_rev st)) ++ pending (l_state st);
  inv_pos : pos_ok (0, 0) (rev (l_toks_rev st));
  inv_cur : (l_line st, l_col st) = advance (0, 0) pre;
  inv_start : match state_start (l_state st) with
              | Some lc => lc = advance (0, 0) (exts (rev (l_toks_rev st)))
              | None => True
              end
}.

Lemma Inv_init : Inv init_lexst [].
Proof. split; cbn; auto. Qed.

Definition step_state (st : lexst) (ms : mstate) (ot : option tok) (piece : list Z) : lexst :=
  let '(l', c') := advance (l_line st, l_col st) piece in
  mk_lexst ms l' c' (match ot with Some t => t :: l_toks_rev st | None => l_toks_rev st end).

(* emitting a token whose extent is the pending text plus the piece *)
Lemma Inv_emit st pre piece t :
  Inv st pre ->
  t_ext t = pending (l_state st) ++ piece ->
  (t_line t, t_col t) = match state_start (l_state st) with Some lc => lc | None => (l_line st, l_col st) end ->
  Inv (step_state st Normal (Some t) piece) (pre ++ piece).
Proof.
  intros [Hc Hp Hcur Hs] He Hpos. unfold step_state.
  destruct (advance (l_line st, l_col st) piece) as [l' c'] eqn:Ea.
  split; cbn [l_state l_toks_rev l_line l_col pending state_start rev].
  - rewrite exts_app, exts_one, He, Hc, <- !app_assoc, app_nil_r. reflexivity.
  - apply pos_ok_app. split; [exact Hp|]. cbn [pos_ok]. split; [|exact I].
    rewrite Hpos. destruct (state_start (l_state st)) as [lc|] eqn:Es.
    + exact Hs.
    + rewrite Hcur, Hc. destruct (l_state st); cbn in Es; try discriminate. cbn [pending]. rewrite app_nil_r. reflexivity.
  - rewrite advance_app, <- Hcur. symmetry. exact Ea.
  - exact I.
Qed.

(* staying in / entering a multi-line state *)
Lemma Inv_pend st pre piece ms :
  Inv st pre ->
  pending ms = pending (l_state st) ++ piece ->
  state_start ms = Some (match state_start (l_state st) with Some lc => lc | None => (l_line st, l_col st) end) ->
  Inv (step_state st ms None piece) (pre ++ piece).
Proof.
  intros [Hc Hp Hcur Hs] He Hst. unfold step_state.
  destruct (advance (l_line st, l_col st) piece) as [l' c'] eqn:Ea.
  split; cbn [l_state l_toks_rev l_line l_col].
  - rewrite He, Hc, <- !app_assoc. reflexivity.
  - exact Hp.
  - rewrite advance_app, <- Hcur. symmetry. exact Ea.
  - rewrite Hst. destruct (state_start (l_state st)) as [lc|] eqn:Es.
    + exact Hs.
    + rewrite Hcur, Hc. destruct (l_state st); cbn in Es; try discriminate. cbn [pending]. rewrite app_nil_r. reflexivity.
Qed.

Lemma process_token_inv st pre s ms ot piece rest :
  Inv st pre ->
  process_token (l_state st) (l_line st) (l_col st) s = Ok (Some (ms, ot, piece, rest)) ->
  s = piece ++ rest /\ Inv (step_state st ms ot piece) (pre ++ piece).
Proof.
  intros HI H. destruct (l_state st) as [|delim acc sl sc ext|acc sl sc|eqs acc sl sc ext] eqn:Est;
    cbn [process_token] in H.
  - (* Normal *)
    destruct (drop_prefix [45; 45; 91; 91] s) as [r0|] eqn:E0.
    { inversion H; subst. apply drop_prefix_split in E0. split; [exact E0|].
      apply Inv_pend; [exact HI | rewrite Est; reflexivity | rewrite Est; reflexivity]. }
    destruct (match_long_open s) as [[eqs r1]|] eqn:E1.
    { inversion H; subst. apply match_long_open_split in E1. split.
      - rewrite E1. cbn. rewrite <- app_assoc. reflexivity.
      - apply Inv_pend; [exact HI | | rewrite Est; reflexivity].
        rewrite Est. cbn [pending app]. rewrite rev'_eq, rev_involutive. reflexivity. }
    destruct s as [|c r]; [discriminate|].
    destruct ((c =? 39) || (c =? 34)).
    { inversion H; subst. split; [reflexivity|].
      apply Inv_pend; [exact HI | rewrite Est; reflexivity | rewrite Est; reflexivity]. }
    destruct (first_matcher token_matchers (c :: r)) as [[[k a] r']|] eqn:E2; [|discriminate].
    inversion H; subst. apply first_matcher_split in E2. split; [exact E2|].
    apply Inv_emit; [exact HI | rewrite Est; reflexivity | rewrite Est; reflexivity].
  - (* InString *)
    destruct s as [|c0 r0]; [discriminate|].
    destruct (scan_string (length (c0 :: r0)) delim (c0 :: r0) acc []) as [[acc' pc rest'|acc' pc]|e] eqn:E; [| |discriminate].
    + inversion H; subst. apply scan_string_split in E. cbn [rev app sscan_piece_rev sscan_rest] in E.
      rewrite rev'_eq. split; [exact E|].
      apply Inv_emit; [exact HI | | rewrite Est; reflexivity].
      rewrite Est. cbn [t_ext pending]. rewrite rev_append_rev. reflexivity.
    + inversion H; subst. apply scan_string_split in E. cbn [rev app sscan_piece_rev sscan_rest] in E.
      rewrite rev'_eq. split; [exact E|].
      apply Inv_pend; [exact HI | | rewrite Est; reflexivity].
      rewrite Est. cbn [pending]. rewrite rev_app_distr. reflexivity.
  - (* InComment *)
    destruct (find_rbrackets s) as [[a rest']|] eqn:E.
    + inversion H; subst. apply find_rbrackets_split in E. split; [exact E|].
      apply Inv_emit; [exact HI | | rewrite Est; reflexivity].
      rewrite Est. cbn [t_ext pending]. rewrite rev_append_rev. reflexivity.
    + destruct s as [|c0 r0]; [discriminate|]. remember (c0 :: r0) as s0 eqn:Es0. inversion H; subst ms ot piece rest.
      split; [rewrite app_nil_r; reflexivity|].
      apply Inv_pend; [exact HI | | rewrite Est; reflexivity].
      rewrite Est. cbn [pending]. rewrite rev_append_rev, rev_app_distr, rev_involutive. reflexivity.
  - (* InLongString *)
    destruct (find_long_close (93 :: eqs ++ [93]) s) as [[a rest']|] eqn:E.
    + inversion H; subst. apply find_long_close_split in E. split; [rewrite E, <- app_assoc; reflexivity|].
      apply Inv_emit; [exact HI | | rewrite Est; reflexivity].
      rewrite Est. cbn [t_ext pending]. rewrite rev_append_rev. reflexivity.
    + destruct s as [|c0 r0]; [discriminate|]. remember (c0 :: r0) as s0 eqn:Es0. inversion H; subst ms ot piece rest.
      split; [rewrite app_nil_r; reflexivity|].
      apply Inv_pend; [exact HI | | rewrite Est; reflexivity].
      rewrite Est. cbn [pending]. rewrite rev_append_rev, rev_app_distr, rev_involutive. reflexivity.
Qed.

Lemma is_nil_true {A} (l : list A) : is_nil l = true -> l = [].
Proof. destruct l; [reflexivity | discriminate]. Qed.

Lemma process_line_inv fuel : forall st pre s st',
  Inv st pre -> process_line fuel st s = Ok st' -> Inv st' (pre ++ s).
Proof.
  induction fuel as [|f IH]; intros st pre s st' HI H; [discriminate|]. cbn [process_line] in H.
  destruct (process_token (l_state st) (l_line st) (l_col st) s) as [[[[[ms ot] piece] rest]|]|e] eqn:E; [| |discriminate].
  - destruct (is_nil piece) eqn:Np.
    + destruct (is_nil s) eqn:Ns; [|discriminate]. inversion H; subst. apply is_nil_true in Ns. subst.
      rewrite app_nil_r. exact HI.
    + destruct (process_token_inv _ _ _ _ _ _ _ HI E) as [Hs HI'].
      unfold step_state in HI'. destruct (advance (l_line st, l_col st) piece) as [l' c'].
      apply IH with (pre := pre ++ piece) in H; [|exact HI']. rewrite Hs, app_assoc. exact H.
  - destruct (is_nil s) eqn:Ns; [|discriminate]. inversion H; subst. apply is_nil_true in Ns. subst.
    rewrite app_nil_r. exact HI.
Qed.

Lemma process_chunks_inv cs : forall st pre st',
  Inv st pre -> process_chunks st cs = Ok st' -> Inv st' (pre ++ concat cs).
Proof.
  induction cs as [|c cs IH]; intros st pre st' HI H; cbn [process_chunks concat] in *.
  - inversion H; subst. rewrite app_nil_r. exact HI.
  - destruct (process_line (S (length c)) st c) as [st1|e] eqn:E; [|discriminate].
    apply (process_line_inv _ _ _ _ _ HI) in E. apply (IH _ _ _ E) in H. rewrite app_assoc. exact H.
Qed.

(* ---------- the two theorems *)
Lemma model_lex_cover chunks ts : model_lex chunks = Ok ts -> concat (map t_ext ts) = concat chunks.
Proof.
  unfold model_lex. destruct (process_chunks init_lexst chunks) as [st|e] eqn:E; [|discriminate].
  apply (process_chunks_inv _ _ _ _ Inv_init) in E. destruct E as [Hc _ _ _].
  destruct (l_state st); try discriminate. intros H; inversion H; subst.
  cbn [pending app] in Hc. rewrite app_nil_r in Hc. rewrite rev'_eq. symmetry. exact Hc.
Qed.

Lemma model_lex_pos_ok chunks ts : model_lex chunks = Ok ts -> pos_ok (0, 0) ts.
Proof.
  unfold model_lex. destruct (process_chunks init_lexst chunks) as [st|e] eqn:E; [|discriminate].
  apply (process_chunks_inv _ _ _ _ Inv_init) in E. destruct E as [_ Hp _ _].
  destruct (l_state st); try discriminate. intros H; inversion H; subst. rewrite rev'_eq. exact Hp.
Qed.

Lemma pos_ok_nth lc ts : forall i t, pos_ok lc ts -> nth_error ts i = Some t ->
  (t_line t, t_col t) = advance lc (exts (firstn i ts)).
Proof.
  revert lc. induction ts as [|t0 ts IH]; intros lc i t Hp Hn; [destruct i; discriminate|].
  destruct i as [|i]; cbn in Hn.
  - inversion Hn; subst. destruct Hp as [Hp _]. exact Hp.
  - destruct Hp as [_ Hp]. cbn [firstn]. change (exts (t0 :: firstn i ts)) with (t_ext t0 ++ exts (firstn i ts)).
    rewrite advance_app. apply IH; assumption.
Qed.

Lemma model_lex_positions chunks ts i t :
  model_lex chunks = Ok ts -> nth_error ts i = Some t ->
  (t_line t, t_col t) = advance (0, 0) (concat (map t_ext (firstn i ts))).
Proof. intros H Hn. apply (pos_ok_nth _ _ _ _ (model_lex_pos_ok _ _ H) Hn). Qed.

(* the line counter is the number of line feeds, the column the number of bytes since the last one *)
Fixpoint count_lf (bs : list Z) : Z :=
  match bs with [] => 0 | c :: r => (if c =? 10 then 1 else 0) + count_lf r end.

Lemma advance_line bs : forall l c, fst (advance (l, c) bs) = l + count_lf bs.
Proof.
  induction bs as [|b bs IH]; intros l c; cbn [advance fold_left count_lf]; [cbn; lia|].
  unfold advance in IH. unfold advance1 at 2. destruct (b =? 10); rewrite IH; lia.
Qed.
