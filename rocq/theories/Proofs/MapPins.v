(* Source pins of pico8/map/map.py: the map section (Model/Sections.v, Model/Accessors.v).
   WRITTEN BY gen/mkpins.py (developer step) from the sources the hand-written model was compared with;
   each lemma fails when the function it names has been edited since (digest of ast.unparse, docstrings
   dropped; regenerated on every run into Generated/T_pins_map.v). *)
From Coq Require Import ZArith List.
Import ListNotations.
Open Scope Z_scope.
From PV Require Import Generated.T_pins_map.

Lemma pin__Map____init___ok : pin__Map____init__ = [224; 223; 195; 223; 205; 119; 255; 250].
Proof. reflexivity. Qed.
Lemma pin__Map__empty_ok : pin__Map__empty = [119; 160; 170; 104; 144; 219; 2; 69].
Proof. reflexivity. Qed.
Lemma pin__Map__from_lines_ok : pin__Map__from_lines = [17; 21; 230; 0; 233; 70; 1; 114].
Proof. reflexivity. Qed.
Lemma pin__Map__from_bytes_ok : pin__Map__from_bytes = [48; 180; 198; 117; 133; 228; 220; 12].
Proof. reflexivity. Qed.
Lemma pin__Map__get_cell_ok : pin__Map__get_cell = [32; 227; 142; 228; 226; 101; 192; 237].
Proof. reflexivity. Qed.
Lemma pin__Map__set_cell_ok : pin__Map__set_cell = [164; 7; 169; 121; 41; 118; 211; 165].
Proof. reflexivity. Qed.
Lemma pin__Map__get_rect_tiles_ok : pin__Map__get_rect_tiles = [56; 43; 251; 218; 106; 194; 41; 255].
Proof. reflexivity. Qed.
Lemma pin__Map__set_rect_tiles_ok : pin__Map__set_rect_tiles = [75; 185; 190; 253; 110; 101; 46; 223].
Proof. reflexivity. Qed.
Lemma pin__Map__get_rect_pixels_ok : pin__Map__get_rect_pixels = [217; 103; 147; 244; 48; 67; 238; 215].
Proof. reflexivity. Qed.

(* no function was added to or removed from the pinned classes *)
Lemma pin_names__map_ok : pin_names__map =
  [[112; 105; 110; 95; 95; 77; 97; 112; 95; 95; 95; 95; 105; 110; 105; 116; 95; 95]; [112; 105; 110; 95; 95; 77; 97; 112; 95; 95; 101; 109; 112; 116; 121]; [112; 105; 110; 95; 95; 77; 97; 112; 95; 95; 102; 114; 111; 109; 95; 108; 105; 110; 101; 115]; [112; 105; 110; 95; 95; 77; 97; 112; 95; 95; 102; 114; 111; 109; 95; 98; 121; 116; 101; 115]; [112; 105; 110; 95; 95; 77; 97; 112; 95; 95; 103; 101; 116; 95; 99; 101; 108; 108]; [112; 105; 110; 95; 95; 77; 97; 112; 95; 95; 115; 101; 116; 95; 99; 101; 108; 108]; [112; 105; 110; 95; 95; 77; 97; 112; 95; 95; 103; 101; 116; 95; 114; 101; 99; 116; 95; 116; 105; 108; 101; 115]; [112; 105; 110; 95; 95; 77; 97; 112; 95; 95; 115; 101; 116; 95; 114; 101; 99; 116; 95; 116; 105; 108; 101; 115]; [112; 105; 110; 95; 95; 77; 97; 112; 95; 95; 103; 101; 116; 95; 114; 101; 99; 116; 95; 112; 105; 120; 101; 108; 115]].
Proof. reflexivity. Qed.
