From PV Require Import Base.Prelude Base.ListX Base.PySlice Base.Hex Model.HexSection Model.Gfx Model.Gff
  Model.Sfx Generated.K_sfx Spec.P8Format Proofs.HexSectionProofs Proofs.RowLemmas.
From Coq Require Import ZifyBool.
Ltac Zify.zify_post_hook ::= Z.to_euclidean_division_equations.

(* ================= note-word level: sweeps on the regenerated kernels ================= *)

(* the two bytes of a note from its four fields (PICO-8 layout, cf. Spec/P8Format) *)
Definition enc_lsb (p w : Z) : Z := p + 64 * (w mod 4).
Definition enc_msb (w v e : Z) : Z := (w / 4) mod 2 + 2 * v + 16 * e + 128 * (w / 8).

(* set_note with all four fields given overwrites both bytes completely *)
Definition lsb_facts (l p w : Z) : bool :=
  (sfx_sn_lsb_waveform (sfx_sn_lsb_pitch l p) w =? enc_lsb p w) && byteb (enc_lsb p w) &&
  sfx_sn_assert_pitch p && sfx_sn_assert_waveform w.
Lemma lsb_facts_all :
  forallb (fun l => forallb (fun p => forallb (fun w => lsb_facts l p w) (upto 16)) (upto 64)) (upto 256) = true.
Proof. vm_compute. reflexivity. Qed.

Definition msb_facts (m w v e : Z) : bool :=
  (sfx_sn_msb_effect (sfx_sn_msb_volume (sfx_sn_msb_waveform m w) v) e =? enc_msb w v e) &&
  byteb (enc_msb w v e) && sfx_sn_assert_volume v && sfx_sn_assert_effect e.
Lemma msb_facts_all :
  forallb (fun m => forallb (fun w => forallb (fun v => forallb (fun e => msb_facts m w v e)
    (upto 8)) (upto 8)) (upto 16)) (upto 256) = true.
Proof. vm_compute. reflexivity. Qed.

Lemma set_note_bytes l m p w v e :
  byte l -> byte m -> 0 <= p < 64 -> 0 <= w < 16 -> 0 <= v < 8 -> 0 <= e < 8 ->
  sfx_sn_lsb_waveform (sfx_sn_lsb_pitch l p) w = enc_lsb p w /\
  sfx_sn_msb_effect (sfx_sn_msb_volume (sfx_sn_msb_waveform m w) v) e = enc_msb w v e /\
  byte (enc_lsb p w) /\ byte (enc_msb w v e) /\
  sfx_sn_assert_pitch p = true /\ sfx_sn_assert_waveform w = true /\
  sfx_sn_assert_volume v = true /\ sfx_sn_assert_effect e = true.
Proof.
  intros Hl Hm Hp Hw Hv He.
  pose proof (sweep_upto _ _ (sweep_upto _ _ (sweep_upto _ _ lsb_facts_all l Hl) p Hp) w Hw) as A.
  pose proof (sweep_upto _ _ (sweep_upto _ _ (sweep_upto _ _ (sweep_upto _ _ msb_facts_all m Hm) w Hw) v Hv) e He) as B.
  cbv beta in A, B. unfold lsb_facts in A. unfold msb_facts in B.
  repeat (apply andb_true_iff in A; destruct A as [A ?]).
  repeat (apply andb_true_iff in B; destruct B as [B ?]).
  repeat split; try assumption; try (apply Z.eqb_eq; assumption); apply byteb_spec; assumption.
Qed.

(* every 16-bit note word: decoding, text, and re-encoding, against the format *)
Definition word_facts (x : Z) : bool :=
  let lsb := x mod 256 in let msb := x / 256 in
  let p := sfx_gn_pitch lsb in let w := sfx_gn_waveform msb lsb in
  let v := sfx_gn_volume msb in let e := sfx_gn_effect msb in
  let wd := note_word lsb msb in
  (p =? w_pitch wd) && (w =? w_waveform wd) && (v =? w_volume wd) && (e =? w_effect wd) &&
  (0 <=? p) && (p <? 64) && (0 <=? w) && (w <? 16) && (0 <=? v) && (v <? 8) && (0 <=? e) && (e <? 8) &&
  (enc_lsb p w =? lsb) && (enc_msb w v e =? msb) &&
  byteb (sfx_tl_wv_byte w v) &&
  zlist_eqb (to_hex [p; sfx_tl_wv_byte w v] ++ skipn 1 (to_hex [e])) (spec_note_text lsb msb) &&
  zlist_eqb (spec_note_text lsb msb) (hexbyte p ++ [hexd w; hexd v; hexd e]).
Lemma word_facts_all : forallb word_facts (upto_fast 65536) = true.
Proof. vm_compute. reflexivity. Qed.

Lemma note_word_spec lsb msb : byte lsb -> byte msb ->
  let p := sfx_gn_pitch lsb in let w := sfx_gn_waveform msb lsb in
  let v := sfx_gn_volume msb in let e := sfx_gn_effect msb in
  let wd := note_word lsb msb in
  p = w_pitch wd /\ w = w_waveform wd /\ v = w_volume wd /\ e = w_effect wd /\
  0 <= p < 64 /\ 0 <= w < 16 /\ 0 <= v < 8 /\ 0 <= e < 8 /\
  enc_lsb p w = lsb /\ enc_msb w v e = msb /\ byte (sfx_tl_wv_byte w v) /\
  to_hex [p; sfx_tl_wv_byte w v] ++ skipn 1 (to_hex [e]) = spec_note_text lsb msb /\
  spec_note_text lsb msb = hexbyte p ++ [hexd w; hexd v; hexd e].
Proof.
  intros Hl Hm. unfold byte in *.
  assert (Hx : 0 <= lsb + 256 * msb < 65536) by lia.
  pose proof (sweep_upto_fast _ _ word_facts_all _ Hx) as H. unfold word_facts in H.
  replace ((lsb + 256 * msb) mod 256) with lsb in H by lia.
  replace ((lsb + 256 * msb) / 256) with msb in H by lia.
  cbv zeta in H |- *.
  repeat (apply andb_true_iff in H; destruct H as [H ?]).
  repeat match goal with
         | Hz : zlist_eqb _ _ = true |- _ => apply zlist_eqb_eq in Hz
         | Hb : byteb _ = true |- _ => apply byteb_spec in Hb
         end.
  repeat split; try assumption; unfold byte in *; lia.
Qed.
