(* Completeness of the parser model, part 5: the one-line if.
   - a derivation consumes exactly its leaves, in order (cons_all);
   - index facts about the significant stream; newline facts relating the line scope of the reference grammar
     (newline_in / line_ends_after) to the parser's fence (newline_after);
   - the short-if case of _stat. *)
From PV Require Import Base.Prelude Spec.LuaTokens Spec.LuaGrammar Model.Tokens Model.Parser Model.ParserInst
  Model.AstWriter Proofs.ParserProofs Proofs.ParserSpecs Proofs.ParserTheorems Proofs.ParserComplete1 Proofs.ParserComplete2
  Proofs.ParserComplete3 Proofs.ParserComplete4.
From Coq Require Import ZifyBool.
Ltac Zify.zify_post_hook ::= Z.to_euclidean_division_equations.

(* ------------------------------------------------------------------ a derivation consumes its leaves *)
Definition cons_eq (s s' : stream) (lv : list Z) : Prop := exists pre, s = pre ++ s' /\ map fst pre = lv.

Lemma cons_eat pr i s s' : eat pr i s = Some s' -> cons_eq s s' [i].
Proof. intros H. apply eat_inv in H. destruct H as (t & -> & _). exists [(i, t)]. split; reflexivity. Qed.
Lemma cons_kw d g s s' : kw d g s = Some s' -> cons_eq s s' (leaves g).
Proof. unfold kw. destruct g; try discriminate. apply cons_eat. Qed.
Lemma cons_sym d g s s' : sym d g s = Some s' -> cons_eq s s' (leaves g).
Proof. unfold sym. destruct g; try discriminate. apply cons_eat. Qed.
Lemma cons_tokc c g s s' : tokc c g s = Some s' -> cons_eq s s' (leaves g).
Proof. unfold tokc. destruct g; try discriminate. apply cons_eat. Qed.
Lemma cons_tokp pr g s s' : tokp pr g s = Some s' -> cons_eq s s' (leaves g).
Proof. unfold tokp. destruct g; try discriminate. apply cons_eat. Qed.
Lemma cons_refl s : cons_eq s s [].
Proof. exists []. split; reflexivity. Qed.
Lemma cons_trans s s1 s' l1 l2 : cons_eq s s1 l1 -> cons_eq s1 s' l2 -> cons_eq s s' (l1 ++ l2).
Proof.
  intros (p1 & -> & E1) (p2 & -> & E2). exists (p1 ++ p2). split; [apply app_assoc|]. rewrite map_app, E1, E2. reflexivity.
Qed.

Lemma cons_sep_tail (item sep : tree -> stream -> option stream) :
  (forall g s s', sep g s = Some s' -> cons_eq s s' (leaves g)) ->
  forall l, (forall g s s', In g l -> item g s = Some s' -> cons_eq s s' (leaves g)) ->
  forall s s', sep_tail item sep l s = Some s' -> cons_eq s s' (flat_map leaves l).
Proof.
  intros Hsep. fix IH 1. intros l Hitem s s' H. destruct l as [|c [|x r]]; cbn [sep_tail] in H.
  - injection H as <-. apply cons_refl.
  - discriminate.
  - apply obind_some in H. destruct H as (s1 & E1 & H). apply obind_some in H. destruct H as (s2 & E2 & H).
    cbn [flat_map]. eapply cons_trans; [eapply Hsep, E1|]. eapply cons_trans; [eapply Hitem; [right; left; reflexivity | exact E2]|].
    apply IH; [|exact H]. intros g s3 s4 Hin. apply Hitem. right; right; exact Hin.
Qed.

Lemma cons_sep_list (item sep : tree -> stream -> option stream) :
  (forall g s s', sep g s = Some s' -> cons_eq s s' (leaves g)) ->
  forall l, (forall g s s', In g l -> item g s = Some s' -> cons_eq s s' (leaves g)) ->
  forall s s', sep_list item sep l s = Some s' -> cons_eq s s' (flat_map leaves l).
Proof.
  intros Hsep l Hitem s s' H. destruct l as [|x r]; [discriminate|]. cbn [sep_list] in H.
  apply obind_some in H. destruct H as (s1 & E1 & H). cbn [flat_map].
  eapply cons_trans; [eapply Hitem; [left; reflexivity | exact E1]|].
  eapply cons_sep_tail; [exact Hsep | | exact H]. intros g s3 s4 Hin. apply Hitem. right; exact Hin.
Qed.

Lemma cons_namelist g s s' : namelist g s = Some s' -> cons_eq s s' (leaves g).
Proof.
  intros H. unfold namelist in H. destruct g as [tag a b sh fs| | | | | | | |]; try discriminate.
  destruct fs as [|[| |l| | | | | |] [|? ?]]; try discriminate. destruct (tag =? tNameList); [|discriminate].
  cbn [leaves flat_map]. rewrite app_nil_r. eapply cons_sep_list; [| |exact H].
  - intros; eapply cons_sym; eassumption.
  - intros; eapply cons_tokc; eassumption.
Qed.

Lemma cons_semis l : forall s s', g_semis l s = Some s' -> cons_eq s s' (flat_map leaves l).
Proof.
  induction l as [|x l IH]; intros s s' H; cbn [g_semis] in H.
  - injection H as <-. apply cons_refl.
  - apply obind_some in H. destruct H as (s1 & E & H). cbn [flat_map]. eapply cons_trans; [eapply cons_sym, E | apply IH, H].
Qed.

Lemma cons_eq_conv s s' L L' : cons_eq s s' L' -> L' = L -> cons_eq s s' L.
Proof. intros H <-. exact H. Qed.

Definition CONS (f : tree -> stream -> option stream) : Prop :=
  forall g s s', f g s = Some s' -> cons_eq s s' (leaves g).
Definition CONSL (f : list tree -> stream -> option stream) : Prop :=
  forall l s s', f l s = Some s' -> cons_eq s s' (flat_map leaves l).

Record ALL (n : nat) : Prop := mkALL {
  a_exp : CONS (g_exp n);
  a_chain : forall w seen, CONSL (g_chain n w seen);
  a_operand : CONS (g_operand n);
  a_prefix : CONS (g_prefix n);
  a_args : CONS (g_args n);
  a_explist : CONS (g_explist n);
  a_table : CONS (g_table n);
  a_fields : CONSL (g_fields n);
  a_field : CONS (g_field n);
  a_funcbody : CONS (g_funcbody n);
  a_chunk : CONS (g_chunk n);
  a_stats : CONSL (g_stats n);
  a_stat : CONS (g_stat n);
  a_elseifs : CONSL (g_elseifs n);
  a_var : CONS (g_var n)
}.

Ltac lnorm := repeat progress (cbn [leaves flat_map app]; rewrite ?app_nil_r; repeat rewrite <- app_assoc); reflexivity.

Lemma cons_all n : ALL n.
Proof.
  induction n as [|n IH].
  { constructor; repeat intro; discriminate. }
  destruct IH as [I_exp I_chain I_operand I_prefix I_args I_explist I_table I_fields I_field I_funcbody I_chunk
                  I_stats I_stat I_elseifs I_var].
  assert (I_explist_sep : forall l s s', sep_list (g_exp n) (sym ","%bs) l s = Some s' -> cons_eq s s' (flat_map leaves l)).
  { intros l s s' H. eapply cons_sep_list; [| |exact H]; intros; first [eapply cons_sym; eassumption | eapply I_exp; eassumption]. }
  assert (I_var_sep : forall l s s', sep_list (g_var n) (sym ","%bs) l s = Some s' -> cons_eq s s' (flat_map leaves l)).
  { intros l s s' H. eapply cons_sep_list; [| |exact H]; intros; first [eapply cons_sym; eassumption | eapply I_var; eassumption]. }
  assert (I_names : forall d l s s', sep_list (tokc CName) (sym d) l s = Some s' -> cons_eq s s' (flat_map leaves l)).
  { intros d l s s' H. eapply cons_sep_list; [| |exact H]; intros; first [eapply cons_sym; eassumption | eapply cons_tokc; eassumption]. }
  Ltac cchain H :=
    lazymatch type of H with
    | obind _ _ = Some _ =>
        let s1 := fresh "s" in let E := fresh "E" in
        apply obind_some in H; destruct H as (s1 & E & H); eapply cons_trans; [cchain E | cchain H]
    | Some _ = Some _ => injection H as <-; apply cons_refl
    | None = Some _ => discriminate H
    | (if ?c then _ else _) = Some _ => destruct c; cchain H
    | _ =>
      first [ apply cons_kw in H | apply cons_sym in H | apply cons_tokc in H | apply cons_tokp in H | apply cons_eat in H
            | apply cons_namelist in H | apply cons_semis in H
            | match goal with I : CONS _ |- _ => apply I in H end
            | match goal with I : CONSL _ |- _ => apply I in H end
            | match goal with I : forall w seen, CONSL _ |- _ => apply I in H end
            | match goal with I : forall (l : list tree) (s s' : stream), _ = Some s' -> cons_eq s s' _ |- _ => apply I in H end
            | match goal with I : forall (d : list Z) (l : list tree) (s s' : stream), _ = Some s' -> cons_eq s s' _ |- _ => apply I in H end ];
      exact H
    end.
  Ltac okill H :=
    lazymatch type of H with
    | obind _ _ = Some _ => let E := fresh in apply obind_some in H; destruct H as (? & E & H); first [discriminate E | okill H]
    | None = Some _ => discriminate H
    end.
  Ltac fin H := first [ exfalso; okill H | eapply cons_eq_conv; [cchain H | lnorm] ].
  constructor.
  - (* exp *) intros g s s' H. cbn [g_exp] in H. destruct g; try discriminate. destruct (tag =? tChain).
    + cbn [leaves]. eapply I_chain, H.
    + eapply I_operand, H.
  - (* chain *) intros w seen items s s' H. cbn [g_chain] in H. destruct items as [|x r].
    + destruct (w || negb seen); [discriminate|]. injection H as <-. apply cons_refl.
    + cbn [flat_map]. destruct w.
      * destruct x; try (fin H). destruct (tokp is_unop (Tok i t) s) eqn:E; [|discriminate].
        eapply cons_trans; [eapply cons_tokp, E | eapply I_chain, H].
      * fin H.
  - (* operand *) intros g s s' H. cbn [g_operand] in H. destruct g; try discriminate.
    destruct (tag =? tVarargDots). { gmatch H. fin H. }
    destruct (tag =? tExpValue); [|discriminate].
    destruct fields as [|x [|y [|? ?]]]; try discriminate.
    + destruct x; try discriminate.
      * destruct (tag0 =? tFunction). { gmatch H. fin H. }
        destruct (tag0 =? tTableConstructor). { rewrite leaves_node1. eapply I_table, H. }
        rewrite leaves_node1. eapply I_prefix, H.
      * destruct (tokc CNumber (Tok i t) s) eqn:E.
        { injection H as <-. rewrite leaves_node1. eapply cons_tokc, E. }
        rewrite leaves_node1. eapply cons_tokc, H.
      * rewrite leaves_node1. eapply I_prefix, H.
    + destruct x, y as [| | | |bb| | | |]; cbv beta iota in H; try discriminate H; try destruct bb; fin H.
    + destruct x, y; cbv beta iota in H; try discriminate H;
        match type of H with context [if ?b then _ else _] => destruct b end; discriminate H.
  - (* prefix *) intros g s s' H. cbn [g_prefix] in H. destruct g; try discriminate.
    + destruct (tag =? tVarName). { gmatch H. fin H. }
      destruct (tag =? tVarIndex). { gmatch H. fin H. }
      destruct (tag =? tVarAttribute). { gmatch H. fin H. }
      destruct (tag =? tFunctionCall). { gmatch H. fin H. }
      destruct (tag =? tFunctionCallMethod); [|discriminate]. gmatch H. fin H.
    + fin H.
  - (* args *) intros g s s' H. cbn [g_args] in H. destruct g; try discriminate.
    + destruct (tag =? tFunctionArgs). { gmatch H; fin H. }
      destruct (tag =? tTableConstructor); [|discriminate]. eapply I_table, H.
    + eapply cons_tokc, H.
  - (* explist *) intros g s s' H. cbn [g_explist] in H. gmatch H. destruct (_ =? tExpList); [|discriminate].
    cbn [leaves flat_map]. rewrite app_nil_r. eapply I_explist_sep, H.
  - (* table *) intros g s s' H. cbn [g_table] in H. gmatch H. destruct (_ =? tTableConstructor); [|discriminate]. fin H.
  - (* fields *) intros l s s' H. cbn [g_fields] in H. destruct l as [|f r]; [injection H as <-; apply cons_refl|].
    apply obind_some in H. destruct H as (s1 & E & H). cbn [flat_map]. eapply cons_trans; [eapply I_field, E|].
    destruct r as [|c r']; [injection H as <-; apply cons_refl|].
    apply obind_some in H. destruct H as (s2 & E2 & H). cbn [flat_map]. eapply cons_trans; [|eapply I_fields, H].
    destruct (sym ","%bs c s1) eqn:E3; [injection E2 as <-; eapply cons_sym, E3 | eapply cons_sym, E2].
  - (* field *) intros g s s' H. cbn [g_field] in H. destruct g; try discriminate.
    destruct (tag =? tFieldExpKey). { gmatch H. fin H. }
    destruct (tag =? tFieldNamedKey). { gmatch H. fin H. }
    destruct (tag =? tFieldExp); [|discriminate]. gmatch H. fin H.
  - (* funcbody *) intros g s s' H. destruct g as [tag a b sh fs| | | | | | | |]; try discriminate H.
    destruct fs as [|o r]; [discriminate H|].
    assert (Ht : tag = tFunctionBody).
    { cbn [g_funcbody] in H. destruct (tag =? tFunctionBody) eqn:E; [apply Z.eqb_eq in E; exact E | discriminate]. }
    subst tag. apply funcbody_inv in H. destruct H as (s1 & E0 & nl & dd & c & bd & e & tl & -> & Hcases).
    assert (Hd : forall d s2 s3, g_dots d s2 = Some s3 -> cons_eq s2 s3 (leaves d)).
    { intros d s2 s3 Hd. unfold g_dots in Hd. gmatch Hd. destruct (_ =? tVarargDots); [|discriminate]. fin Hd. }
    destruct Hcases as [(-> & -> & -> & H)|[(-> & -> & _ & H)|[(_ & -> & -> & H)|(_ & _ & cm & -> & H)]]].
    + eapply cons_eq_conv; [eapply cons_trans; [eapply cons_sym, E0 | cchain H] | lnorm].
    + apply obind_some in H. destruct H as (s2 & E1 & H). apply Hd in E1.
      eapply cons_eq_conv; [eapply cons_trans; [eapply cons_sym, E0 | eapply cons_trans; [exact E1 | cchain H]] | lnorm].
    + eapply cons_eq_conv; [eapply cons_trans; [eapply cons_sym, E0 | cchain H] | lnorm].
    + apply obind_some in H. destruct H as (s2 & E1 & H). apply obind_some in H. destruct H as (s3 & E2 & H).
      apply obind_some in H. destruct H as (s4 & E3 & H). apply Hd in E3.
      eapply cons_eq_conv; [eapply cons_trans; [eapply cons_sym, E0 | eapply cons_trans; [eapply cons_namelist, E1 |
        eapply cons_trans; [eapply cons_sym, E2 | eapply cons_trans; [exact E3 | cchain H]]]] | lnorm].
  - (* chunk *) intros g s s' H. cbn [g_chunk] in H. gmatch H. destruct (_ =? tChunk); [|discriminate].
    cbn [leaves flat_map]. rewrite app_nil_r. eapply I_stats, H.
  - (* stats *) intros l s s' H. cbn [g_stats] in H. destruct l as [|x r]; [injection H as <-; apply cons_refl|].
    cbn [flat_map]. destruct x; try (cbn [is_tag] in H; fin H).
    destruct (is_tag (Node tag s0 e short fields) tStatReturn); [|fin H].
    gmatch H; (eapply cons_eq_conv; [cchain H | lnorm]).
  - (* stat *) intros g s s' H. cbn [g_stat] in H. destruct g as [tag a b sh fs| | | | | | | |]; try discriminate.
    destruct (tag =? tStatAssignment). { gmatch H. destruct (_ =? tVarList); [|discriminate]. fin H. }
    destruct (tag =? tStatFunctionCall).
    { gmatch H. match type of H with (if ?c then _ else _) = _ => destruct c; [|discriminate] end. rewrite leaves_node1. eapply I_prefix, H. }
    destruct (tag =? tStatDo). { gmatch H. fin H. }
    destruct (tag =? tStatWhile). { gmatch H. fin H. }
    destruct (tag =? tStatRepeat). { gmatch H. fin H. }
    destruct (tag =? tStatIf). { destruct sh; gmatch H; fin H. }
    destruct (tag =? tStatForStep). { cbv zeta in H. gmatch H; fin H. }
    destruct (tag =? tStatForIn). { gmatch H. fin H. }
    destruct (tag =? tStatFunction). { gmatch H; (destruct (_ =? tFunctionName); [|discriminate]); fin H. }
    destruct (tag =? tStatLocalFunction). { gmatch H. fin H. }
    destruct (tag =? tStatLocalAssignment). { gmatch H; fin H. }
    destruct (tag =? tStatGoto). { gmatch H; fin H. }
    destruct (tag =? tStatLabel). { gmatch H; fin H. }
    destruct (tag =? tStatBreak); [|discriminate]. gmatch H. fin H.
  - (* elseifs *) intros l s s' H. apply elseifs_inv in H.
    destruct H as [[-> ->]|[(el & b & -> & H)|(ei & c & t & b & r & -> & H)]]; [apply cons_refl | fin H | fin H].
  - (* var *) intros g s s' H. cbn [g_var] in H. destruct (_ || _); [|discriminate]. eapply I_prefix, H.
Qed.
