(* Completeness of the parser model, part 5: the one-line if.
   - a derivation consumes exactly its leaves, in order (cons_all);
   - index facts about the significant stream; newline facts relating the line scope of the reference grammar
     (newline_in / line_ends_after) to the parser's fence (newline_after);
   - the short-if case of _stat. *)
From PV Require Import Base.Prelude Spec.LuaTokens Spec.LuaGrammar Model.Tokens Model.Parser Model.ParserInst
  Model.AstWriter Proofs.ParserProofs Proofs.ParserSpecs Proofs.ParserTheorems Proofs.ParserComplete1 Proofs.ParserComplete2
  Proofs.ParserComplete3 Proofs.ParserComplete4.
From Coq Require Import ZifyBool.
Ltac Zify.zify_post_hook ::= Z.to_euclidean_division_equations.

(* ------------------------------------------------------------------ a derivation consumes its leaves *)
Definition cons_eq (s s' : stream) (lv : list Z) : Prop := exists pre, s = pre ++ s' /\ map fst pre = lv.

Lemma cons_eat pr i s s' : eat pr i s = Some s' -> cons_eq s s' [i].
Proof. intros H. apply eat_inv in H. destruct H as (t & -> & _). exists [(i, t)]. split; reflexivity. Qed.
Lemma cons_kw d g s s' : kw d g s = Some s' -> cons_eq s s' (leaves g).
Proof. unfold kw. destruct g; try discriminate. apply cons_eat. Qed.
Lemma cons_sym d g s s' : sym d g s = Some s' -> cons_eq s s' (leaves g).
Proof. unfold sym. destruct g; try discriminate. apply cons_eat. Qed.
Lemma cons_tokc c g s s' : tokc c g s = Some s' -> cons_eq s s' (leaves g).
Proof. unfold tokc. destruct g; try discriminate. apply cons_eat. Qed.
Lemma cons_tokp pr g s s' : tokp pr g s = Some s' -> cons_eq s s' (leaves g).
Proof. unfold tokp. destruct g; try discriminate. apply cons_eat. Qed.
Lemma cons_refl s : cons_eq s s [].
Proof. exists []. split; reflexivity. Qed.
Lemma cons_trans s s1 s' l1 l2 : cons_eq s s1 l1 -> cons_eq s1 s' l2 -> cons_eq s s' (l1 ++ l2).
Proof.
  intros (p1 & -> & E1) (p2 & -> & E2). exists (p1 ++ p2). split; [apply app_assoc|]. rewrite map_app, E1, E2. reflexivity.
Qed.

Lemma cons_sep_tail (item sep : tree -> stream -> option stream) :
  (forall g s s', sep g s = Some s' -> cons_eq s s' (leaves g)) ->
  forall l, (forall g s s', In g l -> item g s = Some s' -> cons_eq s s' (leaves g)) ->
  forall s s', sep_tail item sep l s = Some s' -> cons_eq s s' (flat_map leaves l).
Proof.
  intros Hsep. fix IH 1. intros l Hitem s s' H. destruct l as [|c [|x r]]; cbn [sep_tail] in H.
  - injection H as <-. apply cons_refl.
  - discriminate.
  - apply obind_some in H. destruct H as (s1 & E1 & H). apply obind_some in H. destruct H as (s2 & E2 & H).
    cbn [flat_map]. eapply cons_trans; [eapply Hsep, E1|]. eapply cons_trans; [eapply Hitem; [right; left; reflexivity | exact E2]|].
    apply IH; [|exact H]. intros g s3 s4 Hin. apply Hitem. right; right; exact Hin.
Qed.

Lemma cons_sep_list (item sep : tree -> stream -> option stream) :
  (forall g s s', sep g s = Some s' -> cons_eq s s' (leaves g)) ->
  forall l, (forall g s s', In g l -> item g s = Some s' -> cons_eq s s' (leaves g)) ->
  forall s s', sep_list item sep l s = Some s' -> cons_eq s s' (flat_map leaves l).
Proof.
  intros Hsep l Hitem s s' H. destruct l as [|x r]; [discriminate|]. cbn [sep_list] in H.
  apply obind_some in H. destruct H as (s1 & E1 & H). cbn [flat_map].
  eapply cons_trans; [eapply Hitem; [left; reflexivity | exact E1]|].
  eapply cons_sep_tail; [exact Hsep | | exact H]. intros g s3 s4 Hin. apply Hitem. right; exact Hin.
Qed.

Lemma cons_namelist g s s' : namelist g s = Some s' -> cons_eq s s' (leaves g).
Proof.
  intros H. unfold namelist in H. destruct g as [tag a b sh fs| | | | | | | |]; try discriminate.
  destruct fs as [|[| |l| | | | | |] [|? ?]]; try discriminate. destruct (tag =? tNameList); [|discriminate].
  cbn [leaves flat_map]. rewrite app_nil_r. eapply cons_sep_list; [| |exact H].
  - intros; eapply cons_sym; eassumption.
  - intros; eapply cons_tokc; eassumption.
Qed.

Lemma cons_semis l : forall s s', g_semis l s = Some s' -> cons_eq s s' (flat_map leaves l).
Proof.
  induction l as [|x l IH]; intros s s' H; cbn [g_semis] in H.
  - injection H as <-. apply cons_refl.
  - apply obind_some in H. destruct H as (s1 & E & H). cbn [flat_map]. eapply cons_trans; [eapply cons_sym, E | apply IH, H].
Qed.

Lemma cons_eq_conv s s' L L' : cons_eq s s' L' -> L' = L -> cons_eq s s' L.
Proof. intros H <-. exact H. Qed.

Definition CONS (f : tree -> stream -> option stream) : Prop :=
  forall g s s', f g s = Some s' -> cons_eq s s' (leaves g).
Definition CONSL (f : list tree -> stream -> option stream) : Prop :=
  forall l s s', f l s = Some s' -> cons_eq s s' (flat_map leaves l).

Record ALL (n : nat) : Prop := mkALL {
  a_exp : CONS (g_exp n);
  a_chain : forall w seen, CONSL (g_chain n w seen);
  a_operand : CONS (g_operand n);
  a_prefix : CONS (g_prefix n);
  a_args : CONS (g_args n);
  a_explist : CONS (g_explist n);
  a_table : CONS (g_table n);
  a_fields : CONSL (g_fields n);
  a_field : CONS (g_field n);
  a_funcbody : CONS (g_funcbody n);
  a_chunk : CONS (g_chunk n);
  a_stats : CONSL (g_stats n);
  a_stat : CONS (g_stat n);
  a_elseifs : CONSL (g_elseifs n);
  a_var : CONS (g_var n)
}.

Ltac lnorm := repeat progress (cbn [leaves flat_map app]; rewrite ?app_nil_r; repeat rewrite <- app_assoc); reflexivity.

Lemma cons_all n : ALL n.
Proof.
  induction n as [|n IH].
  { constructor; repeat intro; discriminate. }
  destruct IH as [I_exp I_chain I_operand I_prefix I_args I_explist I_table I_fields I_field I_funcbody I_chunk
                  I_stats I_stat I_elseifs I_var].
  assert (I_explist_sep : forall l s s', sep_list (g_exp n) (sym ","%bs) l s = Some s' -> cons_eq s s' (flat_map leaves l)).
  { intros l s s' H. eapply cons_sep_list; [| |exact H]; intros; first [eapply cons_sym; eassumption | eapply I_exp; eassumption]. }
  assert (I_var_sep : forall l s s', sep_list (g_var n) (sym ","%bs) l s = Some s' -> cons_eq s s' (flat_map leaves l)).
  { intros l s s' H. eapply cons_sep_list; [| |exact H]; intros; first [eapply cons_sym; eassumption | eapply I_var; eassumption]. }
  assert (I_names : forall d l s s', sep_list (tokc CName) (sym d) l s = Some s' -> cons_eq s s' (flat_map leaves l)).
  { intros d l s s' H. eapply cons_sep_list; [| |exact H]; intros; first [eapply cons_sym; eassumption | eapply cons_tokc; eassumption]. }
  Ltac cchain H :=
    lazymatch type of H with
    | obind _ _ = Some _ =>
        let s1 := fresh "s" in let E := fresh "E" in
        apply obind_some in H; destruct H as (s1 & E & H); eapply cons_trans; [cchain E | cchain H]
    | Some _ = Some _ => injection H as <-; apply cons_refl
    | None = Some _ => discriminate H
    | (if ?c then _ else _) = Some _ => destruct c; cchain H
    | _ =>
      first [ apply cons_kw in H | apply cons_sym in H | apply cons_tokc in H | apply cons_tokp in H | apply cons_eat in H
            | apply cons_namelist in H | apply cons_semis in H
            | match goal with I : CONS _ |- _ => apply I in H end
            | match goal with I : CONSL _ |- _ => apply I in H end
            | match goal with I : forall w seen, CONSL _ |- _ => apply I in H end
            | match goal with I : forall (l : list tree) (s s' : stream), _ = Some s' -> cons_eq s s' _ |- _ => apply I in H end
            | match goal with I : forall (d : list Z) (l : list tree) (s s' : stream), _ = Some s' -> cons_eq s s' _ |- _ => apply I in H end ];
      exact H
    end.
  Ltac okill H :=
    lazymatch type of H with
    | obind _ _ = Some _ => let E := fresh in apply obind_some in H; destruct H as (? & E & H); first [discriminate E | okill H]
    | None = Some _ => discriminate H
    end.
  Ltac fin H := first [ exfalso; okill H | eapply cons_eq_conv; [cchain H | lnorm] ].
  constructor.
  - (* exp *) intros g s s' H. cbn [g_exp] in H. destruct g; try discriminate. destruct (tag =? tChain).
    + cbn [leaves]. eapply I_chain, H.
    + eapply I_operand, H.
  - (* chain *) intros w seen items s s' H. cbn [g_chain] in H. destruct items as [|x r].
    + destruct (w || negb seen); [discriminate|]. injection H as <-. apply cons_refl.
    + cbn [flat_map]. destruct w.
      * destruct x; try (fin H). destruct (tokp is_unop (Tok i t) s) eqn:E; [|discriminate].
        eapply cons_trans; [eapply cons_tokp, E | eapply I_chain, H].
      * fin H.
  - (* operand *) intros g s s' H. cbn [g_operand] in H. destruct g; try discriminate.
    destruct (tag =? tVarargDots). { gmatch H. fin H. }
    destruct (tag =? tExpValue); [|discriminate].
    destruct fields as [|x [|y [|? ?]]]; try discriminate.
    + destruct x; try discriminate.
      * destruct (tag0 =? tFunction). { gmatch H. fin H. }
        destruct (tag0 =? tTableConstructor). { rewrite leaves_node1. eapply I_table, H. }
        rewrite leaves_node1. eapply I_prefix, H.
      * destruct (tokc CNumber (Tok i t) s) eqn:E.
        { injection H as <-. rewrite leaves_node1. eapply cons_tokc, E. }
        rewrite leaves_node1. eapply cons_tokc, H.
      * rewrite leaves_node1. eapply I_prefix, H.
    + destruct x, y as [| | | |bb| | | |]; cbv beta iota in H; try discriminate H; try destruct bb; fin H.
    + destruct x, y; cbv beta iota in H; try discriminate H;
        match type of H with context [if ?b then _ else _] => destruct b end; discriminate H.
  - (* prefix *) intros g s s' H. cbn [g_prefix] in H. destruct g; try discriminate.
    + destruct (tag =? tVarName). { gmatch H. fin H. }
      destruct (tag =? tVarIndex). { gmatch H. fin H. }
      destruct (tag =? tVarAttribute). { gmatch H. fin H. }
      destruct (tag =? tFunctionCall). { gmatch H. fin H. }
      destruct (tag =? tFunctionCallMethod); [|discriminate]. gmatch H. fin H.
    + fin H.
  - (* args *) intros g s s' H. cbn [g_args] in H. destruct g; try discriminate.
    + destruct (tag =? tFunctionArgs). { gmatch H; fin H. }
      destruct (tag =? tTableConstructor); [|discriminate]. eapply I_table, H.
    + eapply cons_tokc, H.
  - (* explist *) intros g s s' H. cbn [g_explist] in H. gmatch H. destruct (_ =? tExpList); [|discriminate].
    cbn [leaves flat_map]. rewrite app_nil_r. eapply I_explist_sep, H.
  - (* table *) intros g s s' H. cbn [g_table] in H. gmatch H. destruct (_ =? tTableConstructor); [|discriminate]. fin H.
  - (* fields *) intros l s s' H. cbn [g_fields] in H. destruct l as [|f r]; [injection H as <-; apply cons_refl|].
    apply obind_some in H. destruct H as (s1 & E & H). cbn [flat_map]. eapply cons_trans; [eapply I_field, E|].
    destruct r as [|c r']; [injection H as <-; apply cons_refl|].
    apply obind_some in H. destruct H as (s2 & E2 & H). cbn [flat_map]. eapply cons_trans; [|eapply I_fields, H].
    destruct (sym ","%bs c s1) eqn:E3; [injection E2 as <-; eapply cons_sym, E3 | eapply cons_sym, E2].
  - (* field *) intros g s s' H. cbn [g_field] in H. destruct g; try discriminate.
    destruct (tag =? tFieldExpKey). { gmatch H. fin H. }
    destruct (tag =? tFieldNamedKey). { gmatch H. fin H. }
    destruct (tag =? tFieldExp); [|discriminate]. gmatch H. fin H.
  - (* funcbody *) intros g s s' H. destruct g as [tag a b sh fs| | | | | | | |]; try discriminate H.
    destruct fs as [|o r]; [discriminate H|].
    assert (Ht : tag = tFunctionBody).
    { cbn [g_funcbody] in H. destruct (tag =? tFunctionBody) eqn:E; [apply Z.eqb_eq in E; exact E | discriminate]. }
    subst tag. apply funcbody_inv in H. destruct H as (s1 & E0 & nl & dd & c & bd & e & tl & -> & Hcases).
    assert (Hd : forall d s2 s3, g_dots d s2 = Some s3 -> cons_eq s2 s3 (leaves d)).
    { intros d s2 s3 Hd. unfold g_dots in Hd. gmatch Hd. destruct (_ =? tVarargDots); [|discriminate]. fin Hd. }
    destruct Hcases as [(-> & -> & -> & H)|[(-> & -> & _ & H)|[(_ & -> & -> & H)|(_ & _ & cm & -> & H)]]].
    + eapply cons_eq_conv; [eapply cons_trans; [eapply cons_sym, E0 | cchain H] | lnorm].
    + apply obind_some in H. destruct H as (s2 & E1 & H). apply Hd in E1.
      eapply cons_eq_conv; [eapply cons_trans; [eapply cons_sym, E0 | eapply cons_trans; [exact E1 | cchain H]] | lnorm].
    + eapply cons_eq_conv; [eapply cons_trans; [eapply cons_sym, E0 | cchain H] | lnorm].
    + apply obind_some in H. destruct H as (s2 & E1 & H). apply obind_some in H. destruct H as (s3 & E2 & H).
      apply obind_some in H. destruct H as (s4 & E3 & H). apply Hd in E3.
      eapply cons_eq_conv; [eapply cons_trans; [eapply cons_sym, E0 | eapply cons_trans; [eapply cons_namelist, E1 |
        eapply cons_trans; [eapply cons_sym, E2 | eapply cons_trans; [exact E3 | cchain H]]]] | lnorm].
  - (* chunk *) intros g s s' H. cbn [g_chunk] in H. gmatch H. destruct (_ =? tChunk); [|discriminate].
    cbn [leaves flat_map]. rewrite app_nil_r. eapply I_stats, H.
  - (* stats *) intros l s s' H. cbn [g_stats] in H. destruct l as [|x r]; [injection H as <-; apply cons_refl|].
    cbn [flat_map]. destruct x; try (cbn [is_tag] in H; fin H).
    destruct (is_tag (Node tag s0 e short fields) tStatReturn); [|fin H].
    gmatch H; (eapply cons_eq_conv; [cchain H | lnorm]).
  - (* stat *) intros g s s' H. cbn [g_stat] in H. destruct g as [tag a b sh fs| | | | | | | |]; try discriminate.
    destruct (tag =? tStatAssignment). { gmatch H. destruct (_ =? tVarList); [|discriminate]. fin H. }
    destruct (tag =? tStatFunctionCall).
    { gmatch H. match type of H with (if ?c then _ else _) = _ => destruct c; [|discriminate] end. rewrite leaves_node1. eapply I_prefix, H. }
    destruct (tag =? tStatDo). { gmatch H. fin H. }
    destruct (tag =? tStatWhile). { gmatch H. fin H. }
    destruct (tag =? tStatRepeat). { gmatch H. fin H. }
    destruct (tag =? tStatIf). { destruct sh; gmatch H; fin H. }
    destruct (tag =? tStatForStep). { cbv zeta in H. gmatch H; fin H. }
    destruct (tag =? tStatForIn). { gmatch H. fin H. }
    destruct (tag =? tStatFunction). { gmatch H; (destruct (_ =? tFunctionName); [|discriminate]); fin H. }
    destruct (tag =? tStatLocalFunction). { gmatch H. fin H. }
    destruct (tag =? tStatLocalAssignment). { gmatch H; fin H. }
    destruct (tag =? tStatGoto). { gmatch H; fin H. }
    destruct (tag =? tStatLabel). { gmatch H; fin H. }
    destruct (tag =? tStatBreak); [|discriminate]. gmatch H. fin H.
  - (* elseifs *) intros l s s' H. apply elseifs_inv in H.
    destruct H as [[-> ->]|[(el & b & -> & H)|(ei & c & t & b & r & -> & H)]]; [apply cons_refl | fin H | fin H].
  - (* var *) intros g s s' H. cbn [g_var] in H. destruct (_ || _); [|discriminate]. eapply I_prefix, H.
Qed.

(* ------------------------------------------------------------------ indices of the significant stream *)
Section Idx.
Variable ts : list token.
Local Notation SS := (sstream ts).
Local Notation tok_at := (ParserProofs.tok_at ts).
Local Notation len := (zlen ts).

Lemma last_default (l : list Z) a b : l <> [] -> last l a = last l b.
Proof.
  induction l as [|x l IH]; [contradiction|]. intros _. destruct l as [|y l]; [reflexivity|].
  change (last (y :: l) a = last (y :: l) b). apply IH. discriminate.
Qed.

Lemma sstream_app (pre : stream) : forall p s', 0 <= p -> SS p = pre ++ s' ->
  exists q, p <= q /\ SS q = s' /\
    (forall j, In j (map fst pre) -> p <= j < q /\ j < len /\ exists t, tok_at j = Some t /\ is_trivia t = false) /\
    (pre = [] -> q = p) /\ (pre <> [] -> q = last (map fst pre) 0 + 1).
Proof.
  induction pre as [|[i t] pre IH]; intros p s' Hp H.
  - exists p. split; [lia|]. split; [exact H|]. split; [intros j []|]. split; [reflexivity | intros Hn; contradiction].
  - cbn [app] in H. destruct (sstream_cons ts p i t _ Hp H) as (H1 & H2 & H3 & H4 & H5 & _).
    assert (Hi : 0 <= i + 1) by lia.
    destruct (IH (i + 1) s' Hi H3) as (q & Q1 & Q2 & Q3 & Q4 & Q5). exists q. split; [lia|]. split; [exact Q2|]. split.
    + intros j Hj. cbn [map fst In] in Hj. destruct Hj as [<-|Hj]; [split; [lia|]; split; [lia|]; exists t; split; assumption|].
      destruct (Q3 j Hj) as (A1 & A2 & A3). split; [lia|]. split; assumption.
    + split; [discriminate|]. intros _. cbn [map fst]. destruct pre as [|x pre].
      * rewrite (Q4 eq_refl). reflexivity.
      * rewrite Q5 by discriminate. reflexivity.
Qed.
End Idx.

(* ------------------------------------------------------------------ newlines: line scope vs fence *)
Section Newlines.
Variable ts : list token.
Local Notation SS := (sstream ts).
Local Notation tok_at := (ParserProofs.tok_at ts).
Local Notation len := (zlen ts).

Lemma newline_trivia t : is_newline t = true -> is_trivia t = true.
Proof. unfold is_newline, is_trivia. destruct (tk t); intros H; first [reflexivity | discriminate H]. Qed.

Lemma newline_in_false l : forall i a b, newline_in l i a b = false ->
  forall m t, a <= m < b -> i <= m -> nth_error l (Z.to_nat (m - i)) = Some t -> is_newline t = false.
Proof.
  induction l as [|u l IH]; intros i a b H m t Hm Hi Ht; [destruct (Z.to_nat (m - i)); discriminate Ht|].
  cbn [newline_in] in H. apply orb_false_iff in H. destruct H as [H1 H2].
  destruct (Z.eq_dec m i) as [->|Hne].
  - replace (Z.to_nat (i - i)) with O in Ht by lia. cbn in Ht. injection Ht as <-.
    destruct (is_newline u); [|reflexivity]. rewrite andb_true_r in H1. lia.
  - assert (Hib : (i <? b) = true) by lia. rewrite Hib in H2. cbn [andb] in H2.
    apply (IH (i + 1) a b H2 m t Hm); [lia|]. replace (Z.to_nat (m - i)) with (S (Z.to_nat (m - (i + 1)))) in Ht by lia. exact Ht.
Qed.

Lemma lea_false l : forall i a j t, i <= j -> a < j -> nth_error l (Z.to_nat (j - i)) = Some t -> is_trivia t = false ->
  (forall m u, a < m < j -> i <= m -> nth_error l (Z.to_nat (m - i)) = Some u -> is_newline u = false /\ is_trivia u = true) ->
  line_ends_after l i a = false.
Proof.
  induction l as [|u l IH]; intros i a j t Hij Haj Ht Htr Hall; [destruct (Z.to_nat (j - i)); discriminate Ht|].
  cbn [line_ends_after]. destruct (i <=? a) eqn:Eia.
  - apply (IH (i + 1) a j t); [lia | lia | | exact Htr |].
    + replace (Z.to_nat (j - i)) with (S (Z.to_nat (j - (i + 1)))) in Ht by lia. exact Ht.
    + intros m v Hm Him Hv. apply (Hall m v Hm); [lia|]. replace (Z.to_nat (m - i)) with (S (Z.to_nat (m - (i + 1)))) by lia. exact Hv.
  - destruct (Z.eq_dec i j) as [->|Hne].
    + replace (Z.to_nat (j - j)) with O in Ht by lia. cbn in Ht. injection Ht as <-.
      destruct (is_newline u) eqn:En; [rewrite (newline_trivia _ En) in Htr; discriminate|]. rewrite Htr. reflexivity.
    + destruct (Hall i u ltac:(lia) ltac:(lia)) as [H1 H2]; [replace (Z.to_nat (i - i)) with O by lia; reflexivity|].
      rewrite H1, H2. apply (IH (i + 1) a j t); [lia | lia | | exact Htr |].
      * replace (Z.to_nat (j - i)) with (S (Z.to_nat (j - (i + 1)))) in Ht by lia. exact Ht.
      * intros m v Hm Him Hv. apply (Hall m v Hm); [lia|]. replace (Z.to_nat (m - i)) with (S (Z.to_nat (m - (i + 1)))) by lia. exact Hv.
Qed.

Lemma tok_at_nth m t : 0 <= m -> tok_at m = Some t -> nth_error ts (Z.to_nat (m - 0)) = Some t.
Proof. intros Hm H. unfold ParserProofs.tok_at in H. destruct (m <? 0) eqn:E; [lia|]. rewrite Z.sub_0_r. exact H. Qed.
Lemma nth_tok_at m t : 0 <= m -> nth_error ts (Z.to_nat (m - 0)) = Some t -> tok_at m = Some t.
Proof. intros Hm H. unfold ParserProofs.tok_at. destruct (m <? 0) eqn:E; [lia|]. rewrite Z.sub_0_r in H. exact H. Qed.

Lemma fence_facts p pre s' ii c : 0 <= p -> ii < p -> 0 <= ii -> SS p = pre ++ s' -> In c (map fst pre) ->
  negb (newline_in ts 0 ii (last (map fst pre) 0)) && line_ends_after ts 0 (last (map fst pre) 0) = true ->
  (forall j, In j (map fst pre) -> c < j -> j < newline_after ts (c + 1)) /\ peek (Some (newline_after ts (c + 1))) s' = None.
Proof.
  intros Hp Hii Hii0 Hs Hc HLS. apply andb_true_iff in HLS. destruct HLS as [Hnl Hle]. apply negb_true_iff in Hnl.
  destruct (sstream_app ts pre p s' Hp Hs) as (qe & Q1 & Q2 & Q3 & _ & Q5).
  assert (Hne : pre <> []) by (destruct pre; [contradiction Hc | discriminate]). specialize (Q5 Hne).
  set (lst := last (map fst pre) 0) in *. destruct (Q3 c Hc) as (C1 & C2 & _).
  change (newline_after ts (c + 1)) with (next_newline ts (c + 1)).
  destruct (next_newline_spec ts (c + 1) ltac:(lia)) as (N1 & N2 & N3). set (f := next_newline ts (c + 1)) in *.
  assert (Hnonl : forall m u, ii <= m < lst -> tok_at m = Some u -> is_newline u = false).
  { intros m u Hm Hu. eapply (newline_in_false ts 0 ii lst Hnl m u Hm); [lia|]. apply tok_at_nth; [lia | exact Hu]. }
  split.
  - intros j Hj Hcj. destruct (Q3 j Hj) as (J1 & J2 & tj & J3 & J4).
    destruct (Z_lt_ge_dec j f) as [Hlt|Hge]; [exact Hlt|]. exfalso.
    destruct N2 as [Hf|(u & Hu & Hun)]; [lia|].
    destruct (Z.eq_dec f j) as [E|E].
    + rewrite E in Hu. rewrite J3 in Hu. injection Hu as <-. rewrite (newline_trivia _ Hun) in J4. discriminate.
    + rewrite (Hnonl f u ltac:(lia) Hu) in Hun. discriminate.
  - destruct s' as [|[j t] r]; [reflexivity|]. unfold peek, fence_ok.
    destruct (sstream_cons ts qe j t r ltac:(lia) Q2) as (S1 & S2 & _ & S4 & S5 & S6).
    destruct (j <? f) eqn:Ej; [|reflexivity]. exfalso.
    assert (Hfalse : line_ends_after ts 0 lst = false).
    { apply (lea_false ts 0 lst j t); [lia | lia | apply tok_at_nth; [lia | exact S4] | exact S5 |].
      intros m u Hm _ Hu. apply nth_tok_at in Hu; [|lia]. split.
      - apply (N3 m u); [lia | exact Hu].
      - apply (S6 m u); [lia | exact Hu]. }
    rewrite Hfalse in Hle. discriminate.
Qed.

End Newlines.

(* ------------------------------------------------------------------ helpers for the one-line if *)
Lemma RT_bind2 {A B} ts (m : M A) (f : A -> M B) st mx1 mx2 (Q : A -> Z -> Prop) (Q' : B -> Z -> Prop) :
  RT ts (m st) mx1 Q -> (forall a p', p' <= zlen ts -> Q a p' -> RT ts (f a (p', mx1)) mx2 Q') -> RT ts (bindM m f st) mx2 Q'.
Proof. intros (a & p' & E & Hl & H) Hf. rewrite (bind_ok _ _ _ _ _ E). apply Hf; assumption. Qed.

Lemma views_hidden hs : forallb is_hidden hs = true -> views hs = [].
Proof.
  induction hs as [|x r IH]; [reflexivity|]. cbn [forallb]. intros H. apply andb_true_iff in H. destruct H as [H1 H2].
  rewrite views_cons, H1. apply IH, H2.
Qed.

Lemma all2v_hidden_app gs hs l : forallb is_hidden hs = true -> all2v gs (hs ++ l) = all2v gs l.
Proof. intros H. unfold all2v. rewrite views_app, (views_hidden _ H). reflexivity. Qed.

Lemma all2v_single g v : all2v [g] [v] = true -> is_hidden v = false -> den g v = true.
Proof.
  unfold all2v, den. intros H Hv. rewrite views_cons, Hv, views_nil, all2d_cons in H.
  destruct (is_hidden g); [discriminate H|]. apply andb_true_iff in H. apply H.
Qed.

Lemma all2d_nil_hidden l : all2d l [] = true -> forallb is_hidden l = true.
Proof.
  induction l as [|x l IH]; [reflexivity|]. rewrite all2d_cons. cbn [forallb]. destruct (is_hidden x); [exact IH | discriminate].
Qed.

Lemma views_visible l : views l = [] -> visible l = [].
Proof.
  unfold visible. induction l as [|x l IH]; [reflexivity|]. rewrite views_cons. cbn [filter].
  destruct (is_hidden x); cbn [negb]; [exact IH | discriminate].
Qed.

Lemma chunk_has_stats_den a b sh l2 p p' fs :
  den (Node tChunk a b sh [Lst l2]) (Node tChunk p p' false [Lst fs]) = true ->
  existsb (fun y => negb (is_hidden y)) l2 = true -> chunk_has_stats (Node tChunk p p' false [Lst fs]) = true.
Proof.
  intros Hd He. unfold chunk_has_stats, first_field, visible. cbn [strip_paren filter is_hidden negb].
  destruct (filter (fun x => negb (is_hidden x)) fs) eqn:Ev; [|reflexivity]. exfalso.
  unfold den in Hd. rewrite view_node, denotes_node in Hd. change (tChunk =? tChain) with false in Hd. cbv iota in Hd.
  apply andb_true_iff in Hd. destruct Hd as [_ Hd]. rewrite views_cons in Hd. cbn [is_hidden] in Hd. rewrite view_lst, views_nil in Hd.
  rewrite all2d_cons in Hd. cbn [is_hidden] in Hd. apply andb_true_iff in Hd. destruct Hd as [Hd _]. rewrite denotes_lst in Hd.
  assert (Hvs : views fs = []).
  { clear -Ev. induction fs as [|x fs IH]; [reflexivity|]. rewrite views_cons. cbn [filter] in Ev.
    destruct (is_hidden x); cbn [negb] in Ev; [apply IH, Ev | discriminate Ev]. }
  rewrite Hvs in Hd. apply all2d_nil_hidden in Hd. apply existsb_exists in He. destruct He as (y & Hin & Hy).
  rewrite forallb_forall in Hd. rewrite (Hd y Hin) in Hy. discriminate.
Qed.

Definition body_first : list pat := psym ";"%bs :: pkw "return"%bs :: stat_first_nodo.

Lemma shortif_body_head n a b sh x r s s' : g_chunk n (Node tChunk a b sh [Lst (x :: r)]) s = Some s' ->
  pguard false (x :: r) = true -> is_tag x tStatDo = false -> hd_in body_first s.
Proof.
  intros H Hp Hd. destruct n; [discriminate|]. cbn [g_chunk] in H. change (tChunk =? tChunk) with true in H. cbv iota in H.
  destruct n; [discriminate|]. cbn [g_stats] in H. destruct x; try (cbn [is_tag] in H; apply obind_some in H; destruct H as (s1 & H & _); destruct n; discriminate H).
  - destruct (is_tag (Node tag s0 e short fields) tStatReturn).
    + gmatch H; hd_first H.
    + apply obind_some in H. destruct H as (s1 & H & _). cbn [pguard orb] in Hp. apply andb_true_iff in Hp. destruct Hp as [Hp _].
      apply negb_true_iff in Hp. pose proof (g_stat_head_nodo _ _ _ _ H Hp Hd) as Hh. eapply hd_sub; [|exact Hh]. vm_compute. reflexivity.
  - hd_first H.
Qed.

Lemma last_cons_ne (x : Z) l d : l <> [] -> last (x :: l) d = last l d.
Proof. destruct l; [contradiction | reflexivity]. Qed.

(* ------------------------------------------------------------------ the one-line if *)
Section ShortIf.
Variable ts : list token.
Local Notation SS := (sstream ts).
Local Notation len := (zlen ts).
Local Notation CTX := (CTX ts).
Local Notation CTXL := (CTXL ts).
Variable R : funs.
Variable k : Z.
Local Notation G := (G ts k).
Hypothesis HR : comp ts G R.

Ltac gd := unfold ParserComplete3.G, ParserComplete3.G' in *; lia.

Lemma CTX_sub g mx mx' : CTX g mx -> (forall j, In j (leaves g) -> fence_ok mx' j = true) -> CTX g mx'.
Proof. apply CTX_refence. Qed.

Lemma L_shortif : shortif_stmt ts R k.
Proof.
  intros pos ii q tif p mx n a b o c ex bk rest s' HG Hpos Hii Hq Hsq Hg HC. destruct HG as [Hp0 HGk].
  destruct (spos ts q ii tif _ Hq Hsq) as (Hqi & Hilen & _).
  (* the fragment conditions and the line scope of this node *)
  pose proof HC as (Hfrag & _ & HLS & _).
  assert (Hls : LS ts (Node tStatIf a b true [Kw ii; Lst (Lst [Paren o c ex; bk] :: rest)]) = true).
  { apply HLS. cbn [short_ifs]. change ((tStatIf =? tStatIf) && true) with true. cbv iota. left. reflexivity. }
  cbn [in_frag] in Hfrag. change (tStatIf =? tStatIf) with true in Hfrag. change (tStatIf =? tChunk) with false in Hfrag.
  cbn [negb orb andb] in Hfrag. apply andb_true_iff in Hfrag. destruct Hfrag as [Hsok _].
  unfold shortif_ok in Hsok. destruct bk as [btag ba bb bsh bfs| | | | | | | |]; try discriminate Hsok.
  destruct bfs as [|[| |bl| | | | | |] [|? ?]]; cbv beta iota in Hsok; try discriminate Hsok; try (destruct bl; discriminate Hsok).
  destruct bl as [|bx br]; [discriminate Hsok|].
  apply andb_true_iff in Hsok. destruct Hsok as [Hnodo Hrest]. apply andb_true_iff in Hnodo. destruct Hnodo as [Hnodo Hpg].
  apply negb_true_iff in Hnodo.
  (* contexts of the parts *)
  pose proof HC as HC'. apply CTX_node in HC'. ctx_split HC'. open_lst. open_lst.
  match goal with HCp : ParserComplete2.CTX ts (Paren o c ex) mx |- _ => rename HCp into HCP end.
  match goal with HCb : ParserComplete2.CTX ts (Node btag ba bb bsh [Lst (bx :: br)]) mx |- _ => rename HCb into HCB end.
  match goal with HCr : ParserComplete2.CTXL ts rest mx |- _ => rename HCr into HCR end.
  (* the derivation, piece by piece *)
  osplit Hg E1. osplit Hg E2. rename s into s1. rename s0 into s2.
  assert (Hbt : btag = tChunk).
  { destruct n; [discriminate E2|]. cbn [g_chunk] in E2. destruct (btag =? tChunk) eqn:E; [apply Z.eqb_eq in E; exact E | discriminate]. }
  subst btag.
  pose proof (shortif_body_head _ _ _ _ _ _ _ _ E2 Hpg Hnodo) as Hbh.
  (* the closing parenthesis *)
  pose proof E1 as E1'. destruct n; [discriminate E1'|]. cbn [g_prefix] in E1'.
  apply obind_some in E1'. destruct E1' as (sa & Ea & E1'). apply obind_some in E1'. destruct E1' as (sb & Eb & Ec).
  apply eat_sym_inv in Ea. destruct Ea as (to & Hso & Hko). destruct (spos ts p o to sa Hp0 Hso) as (Hpo & Holen & Hsa). subst sa.
  destruct (a_exp _ (cons_all n) _ _ _ Eb) as (pre_ex & Hpre_ex & _).
  destruct (sstream_app ts pre_ex (o + 1) sb ltac:(lia) Hpre_ex) as (qm & Qm1 & Qm2 & _).
  apply eat_sym_inv in Ec. destruct Ec as (tc & Hsc & Hkc). rewrite <- Qm2 in Hsc.
  destruct (sstream_cons ts qm c tc s1 ltac:(lia) Hsc) as (Hqc & Hclen & Hs1 & Htc & _).
  (* consumption: the leaves after `if` *)
  assert (Hcons : cons_eq (SS p) s' (leaves (Paren o c ex) ++ leaves (Node tChunk ba bb bsh [Lst (bx :: br)]) ++ flat_map leaves rest)).
  { eapply cons_trans; [eapply (a_prefix _ (cons_all (S n))), E1|]. eapply cons_trans; [eapply (a_chunk _ (cons_all (S n))), E2|].
    destruct rest as [|el [|[| |el2| | | | | |] [|? ?]]]; try discriminate Hg; try (exfalso; gmatch Hg; fail).
    - injection Hg as <-. apply cons_refl.
    - gmatch Hg. apply obind_some in Hg. destruct Hg as (s3 & Eel & Hg). eapply cons_eq_conv;
        [eapply cons_trans; [eapply cons_kw, Eel | eapply (a_chunk _ (cons_all (S n))), Hg] | lnorm]. }
  destruct Hcons as (pre & Hpre & Hlv).
  assert (Hcin : In c (map fst pre)).
  { rewrite Hlv. apply in_or_app. left. cbn [leaves app]. right. apply in_or_app. right. left. reflexivity. }
  assert (HLS2 : negb (newline_in ts 0 ii (last (map fst pre) 0)) && line_ends_after ts 0 (last (map fst pre) 0) = true).
  { unfold LS in Hls. cbn [leaves flat_map] in Hls. cbn [app] in Hls. unfold first_last in Hls.
    match type of Hls with context [last ?l ii] =>
      assert (El : last l ii = last (map fst pre) 0); [|rewrite El in Hls; exact Hls] end.
    rewrite Hlv. rewrite !app_nil_r.
    match goal with |- last (ii :: ?l) ii = _ => rewrite (last_cons_ne ii l ii) by (cbn [app]; discriminate) end.
    rewrite (last_default _ ii 0) by (cbn [app]; discriminate). f_equal. cbn [leaves flat_map app]. rewrite ?app_nil_r.
    repeat rewrite <- app_assoc. reflexivity. }
  destruct (fence_facts ts p pre s' ii c Hp0 ltac:(lia) ltac:(lia) Hpre Hcin HLS2) as (Fa & Fb).
  set (f := newline_after ts (c + 1)) in *.
  (* the leaves of the body and of the else part lie behind the parenthesis *)
  destruct (a_chunk _ (cons_all (S n)) _ _ _ E2) as (pre_b & Hpre_b & Hlv_b). rewrite <- Hs1 in Hpre_b.
  destruct (sstream_app ts pre_b (c + 1) s2 ltac:(lia) Hpre_b) as (q2 & Qb1 & Qb2 & Qb3 & _).
  assert (HCBf : CTX (Node tChunk ba bb bsh [Lst (bx :: br)]) (Some f)).
  { apply (CTX_sub _ mx); [exact HCB|]. intros j Hj. unfold fence_ok. apply Z.ltb_lt. apply Fa.
    - rewrite Hlv. apply in_or_app. right. apply in_or_app. left. exact Hj.
    - rewrite <- Hlv_b in Hj. destruct (Qb3 j Hj) as (A1 & _). lia. }
  (* run the parser *)
  unfold if_def.
  eapply RT_bind; [eapply R_exp_paren; [exact HR | split; [assumption | gd] | exact E1 | exact HCP | fhd Hbh]|].
  cbv beta. intros e1 p1 Hl_p1 (Q1 & Q2 & Q3 & Q4 & Q5 & Q6). subst p1.
  assert (Hfb : follow (anyof body_first) mx (SS (c + 1))) by (rewrite Hs1; fhd Hbh).
  prim. miss. miss. destruct Q4 as (etag & es & efs & ->).
  assert (Het : etag = tExpValue) by (pose proof (den_tag_of _ _ _ _ _ _ Q3 eq_refl) as Ht; exact Ht). subst etag.
  cbn [end_of strip_paren]. destruct (c + 1 - 1 <? 0) eqn:Ec0; [lia|].
  replace (Z.to_nat (c + 1 - 1)) with (Z.to_nat c) by lia.
  unfold ParserProofs.tok_at in Htc. destruct (c <? 0) eqn:Ec1; [lia|]. rewrite Htc.
  change (tok_eqb tc (mkTok CSymbol 0 ")"%bs ")"%bs)) with (matches tc (psym ")"%bs)). rewrite matches_kd, Hkc.
  prim. fold f.
  destruct (Q5 eq_refl) as (hs & v & -> & Hhs & Hv).
  assert (Hhid : hidden_of (Node tExpValue es (c + 1) false (hs ++ [v])) = hs /\ first_field (Node tExpValue es (c + 1) false (hs ++ [v])) = v).
  { unfold hidden_of, first_field, visible. cbn [strip_paren]. rewrite !filter_app. cbn [filter]. rewrite Hv. cbn [negb].
    rewrite filter_hidden_all by exact Hhs. fold (visible hs). rewrite visible_hidden_all by exact Hhs. rewrite app_nil_r. split; reflexivity. }
  destruct Hhid as [Hh1 Hh2].
  assert (HdP : den (Paren o c ex) v = true).
  { rewrite den_node in Q3 by reflexivity. rewrite all2v_hidden_app in Q3 by exact Hhs. apply all2v_single; assumption. }
  (* body *)
  assert (Hfol_b : follow fblock (Some f) s2).
  { destruct rest as [|el [|[| |el2| | | | | |] [|? ?]]]; try discriminate Hg; try (exfalso; gmatch Hg; fail).
    - injection Hg as <-. unfold follow. rewrite Fb. exact I.
    - gmatch Hg. apply obind_some in Hg. destruct Hg as (s3 & Eel & _). pose proof (hd_kw _ _ _ _ Eel) as Hh. fhd Hh. }
  eapply RT_bind2; [eapply (c_chunk _ _ _ HR (c + 1) (Some f)); [gd | rewrite Hs1; exact E2 | exact HCBf | exact Hfol_b]|].
  cbv beta. intros b1 p2 Hl_p2 (Q7 & Q8 & Q9 & fsb & ->). rewrite bind_assert by reflexivity.
  destruct rest as [|el [|[| |el2| | | | | |] [|? ?]]]; try discriminate Hg; try (exfalso; gmatch Hg; fail).
  - (* no else *)
    injection Hg as <-. assert (Hf0 : follow (anyof []) (Some f) (SS p2)) by (unfold follow; rewrite Q7, Fb; exact I).
    miss. prim. cbn [tag_of strip_paren]. change (tExpValue =? tExpValue) with true. cbv iota. prim.
    rewrite ret_eq. apply RT_ok; [lia|]. unfold QS. split; [exact Q7|]. split; [lia|]. split; [|split; reflexivity].
    rewrite Hh1, Hh2. rewrite den_node by reflexivity. all2v_tac. rewrite all2v_cons; [exact all2v_nil | | reflexivity].
    rewrite den_lst. rewrite all2v_cons; [exact all2v_nil | | reflexivity].
    rewrite den_lst. rewrite all2v_hidden_app by exact Hhs. rewrite all2v_cons by assumption.
    rewrite all2v_cons; [exact all2v_nil | exact Q9 | reflexivity].
  - (* else *)
    gmatch Hg. apply obind_some in Hg. destruct Hg as (s3 & Eel & Hg).
    match type of Hg with g_chunk _ ?bb2 _ = _ => set (b2 := bb2) in * end.
    ctx_split HCR. open_lst.
    match goal with HCe : ParserComplete2.CTX ts b2 mx |- _ => rename HCe into HCE end.
    destruct (a_chunk _ (cons_all (S n)) _ _ _ Hg) as (pre_e & Hpre_e & Hlv_e).
    apply kw_inv in Eel. destruct Eel as (ie & te & Eq & Hse & Hke). subst el. rewrite <- Q7 in Hse.
    destruct (spos ts p2 ie te s3 ltac:(lia) Hse) as (Hle_e & Hlt_e & Hs3). rewrite <- Hs3 in Hpre_e.
    destruct (sstream_app ts pre_e (ie + 1) s' ltac:(lia) Hpre_e) as (q3 & Qe1 & Qe2 & Qe3 & _).
    assert (Hie : fence_ok (Some f) ie = true).
    { unfold fence_ok. apply Z.ltb_lt. apply Fa; [|lia]. rewrite Hlv. apply in_or_app. right. apply in_or_app. right.
      cbn [flat_map leaves app]. left. reflexivity. }
    assert (HCEf : CTX b2 (Some f)).
    { apply (CTX_sub _ mx); [exact HCE|]. intros j Hj. unfold fence_ok. apply Z.ltb_lt. apply Fa.
      - rewrite Hlv. apply in_or_app. right. apply in_or_app. right. cbn [flat_map leaves app]. right. rewrite !app_nil_r. exact Hj.
      - rewrite <- Hlv_e in Hj. destruct (Qe3 j Hj) as (A1 & _). lia. }
    rewrite (bind_accept_hit ts (pkw "else"%bs) _ p2 (Some f) ie te s3 eq_refl ltac:(lia) Hse Hke Hie). cbv beta iota zeta. prim.
    eapply RT_bind2; [eapply (c_chunk _ _ _ HR (ie + 1) (Some f)); [gd | rewrite Hs3; exact Hg | exact HCEf | unfold follow; rewrite Fb; exact I]|].
    cbv beta. intros eb p3 Hl_p3 (Q10 & Q11 & Q12 & fse & ->).
    assert (Hb2 : exists ea eb' esh l2, b2 = Node tChunk ea eb' esh [Lst l2] /\ existsb (fun y => negb (is_hidden y)) l2 = true).
    { subst b2. match goal with |- exists _ _ _ _, ?bb = _ /\ _ => destruct bb as [t2 ea eb' esh efs2| | | | | | | |]; try discriminate Hrest end.
      destruct efs2 as [|[| |l2| | | | | |] [|? ?]]; try discriminate Hrest.
      assert (t2 = tChunk).
      { cbn [g_chunk] in Hg. destruct (t2 =? tChunk) eqn:E; [apply Z.eqb_eq in E; exact E | discriminate]. }
      subst t2. eexists _, _, _, _. split; [reflexivity | exact Hrest]. }
    destruct Hb2 as (ea & eb' & esh & l2 & Eb2 & Hex).
    rewrite Eb2 in Q12. rewrite (chunk_has_stats_den _ _ _ _ _ _ _ Q12 Hex). prim.
    cbn [tag_of strip_paren]. change (tExpValue =? tExpValue) with true. cbv iota. prim.
    rewrite ret_eq. apply RT_ok; [lia|]. unfold QS. split; [exact Q10|]. split; [lia|]. split; [|split; reflexivity].
    rewrite Hh1, Hh2. rewrite den_node by reflexivity. all2v_tac. rewrite all2v_cons; [exact all2v_nil | | reflexivity].
    rewrite den_lst. rewrite all2v_cons; [| | reflexivity].
    + all2v_tac. rewrite all2v_cons; [exact all2v_nil | | reflexivity]. rewrite den_lst.
      rewrite all2v_cons; [| apply den_pnone | reflexivity]. rewrite all2v_cons; [exact all2v_nil | | reflexivity].
      fold b2. rewrite Eb2. exact Q12.
    + rewrite den_lst. rewrite all2v_hidden_app by exact Hhs. rewrite all2v_cons by assumption.
      rewrite all2v_cons; [exact all2v_nil | exact Q9 | reflexivity].
Qed.

End ShortIf.
