(* Agreement of the lexer model with the reference grammar, part 3: every first-byte class, the whole
   token list, and the monitor predicate holds_C07 on the model's own output. *)
From PV Require Import Base.Prelude Generated.T_lexer Model.Lexer Spec.LuaLex Instances.HoldsC07
  Proofs.LexerProofs Proofs.LexerInv Proofs.LexerSpec Proofs.LexerStr Proofs.LexerNum Proofs.LexerAgree.
From Coq Require Import ZifyBool.

(* ---------- numbers *)
Lemma num_run_chars h : forall s ae run rest, num_run h ae s = (run, rest) ->
  forallb (fun c => is_alnum c || (c =? 46) || (c =? 43) || (c =? 45)) run = true.
Proof.
  induction s as [|c r IH]; intros ae run rest H; cbn [num_run] in H; [inversion H; reflexivity|].
  destruct (is_hex c || (c =? 46) || (h && ((c =? 112) || (c =? 80)))) eqn:C.
  - destruct (num_run h _ r) as [a b] eqn:E in H. inversion H; subst. cbn [forallb].
    rewrite (IH _ _ _ E). rewrite andb_true_r.
    unfold is_hex, is_lower_hex, is_upper_hex, is_alnum, is_alpha, is_digit in *. destruct h; cbn [andb] in C; lia.
  - destruct (ae && ((c =? 43) || (c =? 45))) eqn:C2.
    + destruct (num_run h false r) as [a b] eqn:E in H. inversion H; subst. cbn [forallb].
      rewrite (IH _ _ _ E). apply andb_true_iff in C2. destruct C2 as [_ C2].
      destruct (is_alnum c), (c =? 46), (c =? 43), (c =? 45); try discriminate; reflexivity.
    + inversion H; reflexivity.
Qed.

Lemma num_split_chars s run rest : num_split s = (run, rest) ->
  forallb (fun c => is_alnum c || (c =? 46) || (c =? 43) || (c =? 45)) run = true.
Proof.
  assert (B : forall s run rest, num_body s = (run, rest) ->
    forallb (fun c => is_alnum c || (c =? 46) || (c =? 43) || (c =? 45)) run = true).
  { intros s0 run0 rest0. unfold num_body. destruct s0 as [|z [|x r]]; try apply num_run_chars.
    assert (Eh : is_hex_prefix (z :: x :: r) = pfx 120 88 (z :: x :: r)) by apply is_hex_prefix_pfx. rewrite Eh.
    destruct (pfx 120 88 (z :: x :: r)) eqn:P; [|apply num_run_chars].
    destruct (num_run true false r) as [a b] eqn:E. intros H. inversion H; subst. cbn [forallb].
    rewrite (num_run_chars _ _ _ _ _ E). unfold pfx in P.
    assert (Hz : is_alnum z = true) by (unfold is_alnum, is_alpha, is_digit; lia).
    assert (Hx : is_alnum x = true) by (unfold is_alnum, is_alpha, is_digit; lia).
    rewrite Hz, Hx. reflexivity. }
  unfold num_split. destruct s as [|c r]; [intros H; inversion H; reflexivity|].
  destruct (c =? 46) eqn:Ec; [|apply B].
  destruct (num_body r) as [a b] eqn:E. intros H. inversion H; subst. cbn [forallb].
  rewrite (B _ _ _ E), Ec. rewrite orb_true_r. reflexivity.
Qed.

Lemma tok_diff_number t tk l c :
  s_kind t = SNumber -> t_kind tk = KNumber -> t_data tk = s_raw t ->
  tok_value (s_raw t) = Ok (s_num t, s_den t) -> 0 < s_den t ->
  t_line tk = l -> t_col tk = c ->
  tok_diff (at_pos t l c) (observe tk) = 0.
Proof.
  intros Hk Hks Hd Hv Hden Hl Hc. unfold tok_diff, at_pos, observe.
  cbn [s_kind s_raw s_text s_num s_den s_long s_line s_col i_kind i_data i_line i_col i_quote i_ml i_val i_sval].
  rewrite Hk, Hks, Hd, Hv, Hl, Hc. cbn [skind_code kind_code]. change (4 =? 4) with true. cbn [negb].
  rewrite zlist_eqb_refl. cbn [negb].
  replace (s_num t * s_den t - s_num t * s_den t) with 0 by lia. cbn [Z.abs Z.mul].
  assert (E1 : (0 <? s_den t) = true) by lia. assert (E2 : (0 <=? Z.abs (s_num t * s_den t)) = true) by lia.
  rewrite E1, E2. cbn [andb]. rewrite !Z.eqb_refl. reflexivity.
Qed.

Lemma first_matcher_cons m k tbl s : first_matcher ((m, k) :: tbl) s =
  match run_matcher m s with Some (a, r) => Some (k, a, r) | None => first_matcher tbl s end.
Proof. reflexivity. Qed.

Lemma num_rows_filter_46 : filter (row_ok 46) num_rows = [(MNumDecFrac, KNumber)].
Proof. reflexivity. Qed.

Lemma step_number l col c r t rest :
  byte c -> is_digit c = true \/ c = 46 -> spec_number (c :: r) = Some (t, rest) -> s_raw t <> [] ->
  exists tk, Step l col (c :: r) tk rest /\ t_ext tk = s_raw t /\
             tok_diff (at_pos t l col) (observe tk) = 0 /\ last (s_raw t) 0 <> 13.
Proof.
  intros Hb Hc Hs Hne. destruct (spec_number_agrees _ _ _ Hs) as (Hm & Hk & Htx & Hv & Hd).
  change number_rows with num_rows in Hm.
  assert (Hm' : first_matcher (expected c) (c :: r) = Some (KNumber, s_raw t, rest)).
  { destruct Hc as [Hc | ->].
    - unfold expected. assert (E1 : m_name_start c = false) by (clear -Hc; cls). rewrite E1.
      change (m_digit c) with (is_digit c). rewrite Hc. rewrite <- first_matcher_filter. exact Hm.
    - rewrite first_matcher_filter in Hm. rewrite num_rows_filter_46 in Hm. rewrite first_matcher_cons in Hm.
      rewrite expected_46, first_matcher_cons.
      destruct (run_matcher MNumDecFrac (46 :: r)) as [[a b]|]; [exact Hm | discriminate]. }
  assert (Hl : last (s_raw t) 0 <> 13).
  { unfold spec_number in Hs. destruct (num_split (c :: r)) as [run rest0] eqn:E.
    destruct (spec_numeral run) as [[n d]|]; [|discriminate]. inversion Hs; subst. cbn [s_raw] in *.
    pose proof (last_forallb _ _ Hne (num_split_chars _ _ _ E)) as P. cbv beta in P.
    intros C. rewrite C in P. discriminate. }
  exists (mk_tok KNumber (s_raw t) l col [] None (s_raw t)). split; [|split; [|split]].
  - apply (Step_one l col (c :: r) _ (s_raw t) rest); try reflexivity; [|exact Hne].
    assert (N0 : 46 <= c <= 57) by (clear -Hc; destruct Hc as [Hc | ->]; [unfold is_digit in Hc|]; lia).
    assert (N1 : c <> 39) by lia. assert (N2 : c <> 34) by lia.
    assert (N3 : c <> 45) by lia. assert (N4 : c <> 91) by lia.
    rewrite (normal_matchers l col c r Hb N1 N2 (drop4_ne c r N3) (long_open_ne c r N4)), Hm'. reflexivity.
  - reflexivity.
  - apply tok_diff_number; try reflexivity; assumption.
  - exact Hl.
Qed.

(* ---------- every class *)
Definition StepOK (l col : Z) (s : list Z) (t : stok) (rest : list Z) : Prop :=
  exists tk, Step l col s tk rest /\ t_ext tk = s_raw t /\
             tok_diff (at_pos t l col) (observe tk) = 0 /\ last (s_raw t) 0 <> 13.

Lemma spec_sym_last_sweep : forallb (fun x => negb (last x 0 =? 13)) spec_symbols = true.
Proof. vm_compute. reflexivity. Qed.

Lemma step_symbol_ok l col c r t rest :
  byte c -> m_name_start c = false -> m_digit c = false -> m_blank c = false ->
  c <> 10 -> c <> 13 -> c <> 63 -> c <> 39 -> c <> 34 ->
  drop_prefix [45; 45; 91; 91] (c :: r) = None -> match_long_open (c :: r) = None ->
  first_matcher (pre_rows c) (c :: r) = None ->
  spec_symbol (c :: r) = Some (t, rest) -> StepOK l col (c :: r) t rest.
Proof.
  intros Hb E1 E2 E3 N10 N13 N63 N39 N34 H1 H2 Hp Hs.
  destruct (step_symbol l col c r t rest Hb E1 E2 E3 N10 N13 N63 N39 N34 H1 H2 Hp Hs) as (tk & S1 & S2 & S3).
  exists tk. split; [exact S1 | split; [exact S2 | split; [exact S3|]]].
  destruct (spec_symbol_inv _ _ _ Hs) as (x & L & _ & -> & _). cbn [s_raw mk].
  destruct (longest_match_some _ _ _ L) as (Hin & _ & _).
  pose proof spec_sym_last_sweep as Sw. rewrite forallb_forall in Sw. specialize (Sw x Hin). lia.
Qed.

Lemma pre_rows_other c : c <> 45 -> c <> 47 -> c <> 46 -> c <> 58 -> pre_rows c = [].
Proof.
  intros. unfold pre_rows.
  assert (E1 : (c =? 45) = false) by lia. assert (E2 : (c =? 47) = false) by lia.
  assert (E3 : (c =? 46) = false) by lia. assert (E4 : (c =? 58) = false) by lia.
  rewrite E1, E2, E3, E4. reflexivity.
Qed.

(* side conditions of the symbol case for the first bytes that also start another token class *)
Lemma drop4_2 c y r2 : y <> 45 -> drop_prefix [45; 45; 91; 91] (c :: y :: r2) = None.
Proof.
  intros N. cbn [drop_prefix]. destruct (45 =? c); [|reflexivity].
  assert (E : (45 =? y) = false) by lia. rewrite E. reflexivity.
Qed.

Lemma drop4_1 c : drop_prefix [45; 45; 91; 91] [c] = None.
Proof. cbn [drop_prefix]. destruct (45 =? c); reflexivity. Qed.

Lemma drop4_3 z r3 : z <> 91 -> drop_prefix [45; 45; 91; 91] (45 :: 45 :: z :: r3) = None.
Proof.
  intros N. change (drop_prefix [45; 45; 91; 91] (45 :: 45 :: z :: r3)) with (drop_prefix [91; 91] (z :: r3)).
  apply drop_prefix_hd_ne. lia.
Qed.

Lemma drop4_4 r3 : long_open r3 0 = None -> drop_prefix [45; 45; 91; 91] (45 :: 45 :: 91 :: r3) = None.
Proof.
  intros Lo. change (drop_prefix [45; 45; 91; 91] (45 :: 45 :: 91 :: r3)) with (drop_prefix [91] r3).
  destruct r3 as [|w r5]; [reflexivity|]. apply drop_prefix_hd_ne. cbn [long_open] in Lo.
  destruct (w =? 61) eqn:E1; [lia|]. destruct (w =? 91) eqn:E2; [discriminate | lia].
Qed.

Lemma pre_fail_2 c m k y r2 : pre_rows c = [(m, k)] -> run_matcher m (c :: y :: r2) = None ->
  first_matcher (pre_rows c) (c :: y :: r2) = None.
Proof. intros -> H. rewrite first_matcher_cons, H. reflexivity. Qed.

Lemma dash_fail y r2 : y <> 45 -> run_matcher MCommentDash (45 :: y :: r2) = None.
Proof.
  intros N. cbn [run_matcher]. change (drop_prefix [45; 45] (45 :: y :: r2)) with (drop_prefix [45] (y :: r2)).
  rewrite drop_prefix_hd_ne by lia. reflexivity.
Qed.

Lemma slash_fail y r2 : y <> 47 -> run_matcher MCommentSlash (47 :: y :: r2) = None.
Proof.
  intros N. cbn [run_matcher]. change (drop_prefix [47; 47] (47 :: y :: r2)) with (drop_prefix [47] (y :: r2)).
  rewrite drop_prefix_hd_ne by lia. reflexivity.
Qed.

Lemma label_fail y r2 : y <> 58 -> run_matcher MLabel (58 :: y :: r2) = None.
Proof.
  intros N. cbn [run_matcher]. unfold scan_label.
  change (drop_prefix [58; 58] (58 :: y :: r2)) with (drop_prefix [58] (y :: r2)).
  rewrite drop_prefix_hd_ne by lia. reflexivity.
Qed.

Lemma decfrac_fail d r' : is_digit d = false -> run_matcher MNumDecFrac (46 :: d :: r') = None.
Proof.
  intros N. cbn [run_matcher]. unfold scan_decimal_frac. change (hd_is 46 (46 :: d :: r')) with true. cbv iota.
  unfold take_while1. cbn [tl take_while]. change (m_digit d) with (is_digit d). rewrite N. reflexivity.
Qed.

Lemma pre_fail_1 c : first_matcher (pre_rows c) [c] = None.
Proof.
  unfold pre_rows. destruct (c =? 45) eqn:E1; [apply Z.eqb_eq in E1; subst; reflexivity|].
  destruct (c =? 47) eqn:E2; [apply Z.eqb_eq in E2; subst; reflexivity|].
  destruct (c =? 46) eqn:E3; [apply Z.eqb_eq in E3; subst; reflexivity|].
  destruct (c =? 58) eqn:E4; [apply Z.eqb_eq in E4; subst; reflexivity|]. reflexivity.
Qed.

Lemma Forall_byte_cons c r : Forall byte (c :: r) -> byte c /\ Forall byte r.
Proof. intros H. inversion H; subst. split; assumption. Qed.

Lemma step_agrees s t rest l col :
  Forall byte s -> crlf_only s = true -> spec_step s = Some (t, rest) -> s_raw t <> [] ->
  StepOK l col s t rest.
Proof.
  intros HB Hcr H Hne. destruct s as [|c r]; [discriminate|].
  destruct (Forall_byte_cons _ _ HB) as [Hb HBr]. pose proof (crlf_only_cons _ _ Hcr) as Hcr'.
  unfold spec_step in H.
  destruct (is_blank c) eqn:Cb.
  { (* blanks *)
    pose proof (step_blank l col c r Hb Cb) as P. destruct (span is_blank (c :: r)) as [a b] eqn:E.
    inversion H; subst. destruct P as (tk & S1 & S2 & S3). exists tk.
    split; [exact S1 | split; [exact S2 | split; [exact S3|]]].
    change (s_raw (mk SSpace a a)) with a in *.
    pose proof (last_forallb _ _ Hne (span_all _ _ _ _ E)) as P. intros C. rewrite C in P. discriminate. }
  destruct (Z.eqb_spec c 10) as [->|N10].
  { inversion H; subst. destruct (step_lf l col rest) as (tk & S1 & S2 & S3). exists tk.
    split; [exact S1 | split; [exact S2 | split; [exact S3 | cbn; clear; lia]]]. }
  destruct (Z.eqb_spec c 13) as [->|N13].
  { destruct r as [|y r']; [discriminate|]. rewrite match10 in H.
    destruct (Z.eqb_spec y 10) as [->|Ny]; [|discriminate]. inversion H; subst.
    destruct (step_crlf l col rest) as (tk & S1 & S2 & S3). exists tk.
    split; [exact S1 | split; [exact S2 | split; [exact S3 | cbn; clear; lia]]]. }
  assert (Sym : spec_symbol (c :: r) = Some (t, rest) ->
            m_name_start c = false -> m_digit c = false -> c <> 63 -> c <> 39 -> c <> 34 ->
            drop_prefix [45; 45; 91; 91] (c :: r) = None -> match_long_open (c :: r) = None ->
            first_matcher (pre_rows c) (c :: r) = None -> StepOK l col (c :: r) t rest).
  { intros Hs F1 F2 F3 F4 F5 F6 F7 F8.
    apply step_symbol_ok; first [assumption | exact Cb]. }
  destruct (Z.eqb_spec c 45) as [->|N45].
  { (* minus, comments *)
    assert (LineCase : forall r2, r = 45 :: r2 -> drop_prefix [45; 45; 91; 91] (45 :: 45 :: r2) = None ->
              line_comment (45 :: 45 :: r2) = Some (t, rest) -> StepOK l col (45 :: 45 :: r2) t rest).
    { intros r2 _ D Hl. unfold line_comment in Hl.
      pose proof (step_line_comment l col 45 r2 (or_introl eq_refl) D) as P.
      change (fun c => negb (is_eol c)) with not_eol in Hl.
      destruct (span not_eol (45 :: 45 :: r2)) as [a b]. inversion Hl; subst. exact P. }
    destruct r as [|y r2].
    - apply Sym; [exact H | reflexivity | reflexivity | clear; lia | clear; lia | clear; lia | apply drop4_1 | apply long_open_ne; clear; lia | apply pre_fail_1].
    - rewrite match45 in H. destruct (Z.eqb_spec y 45) as [->|Ny].
      2: { apply Sym; [exact H | reflexivity | reflexivity | clear; lia | clear; lia | clear; lia | apply drop4_2; exact Ny
                      | apply long_open_ne; clear; lia | apply (pre_fail_2 45 MCommentDash KComment); [reflexivity | apply dash_fail; exact Ny]]. }
      destruct r2 as [|z r3].
      + apply (LineCase [] eq_refl eq_refl H).
      + rewrite match91 in H. destruct (Z.eqb_spec z 91) as [->|Nz].
        * destruct (long_open r3 0) as [[lvl r4]|] eqn:Lo.
          -- destruct (Z.eqb_spec lvl 0) as [->|Nl]; [|discriminate].
             destruct (long_body 0 r4) as [[[b cl] rest0]|] eqn:Lb; [|discriminate]. inversion H; subst.
             destruct (long_open_match _ _ _ _ (Z.le_refl 0) Lo) as [_ Sp]. apply span_split in Sp. cbn in Sp. subst r3.
             exact (step_block_comment l col r4 b cl rest Lb).
          -- apply (LineCase (91 :: r3) eq_refl (drop4_4 r3 Lo) H).
        * apply (LineCase (z :: r3) eq_refl (drop4_3 z r3 Nz) H). }
  destruct (Z.eqb_spec c 47) as [->|N47].
  { destruct r as [|y r2].
    - apply Sym; [exact H | reflexivity | reflexivity | clear; lia | clear; lia | clear; lia | apply drop4_1 | apply long_open_ne; clear; lia | apply pre_fail_1].
    - rewrite match47 in H. destruct (Z.eqb_spec y 47) as [->|Ny].
      + unfold line_comment in H. pose proof (step_line_comment l col 47 r2 (or_intror eq_refl) eq_refl) as P.
        change (fun c => negb (is_eol c)) with not_eol in H.
        destruct (span not_eol (47 :: 47 :: r2)) as [a b]. inversion H; subst. exact P.
      + apply Sym; [exact H | reflexivity | reflexivity | clear; lia | clear; lia | clear; lia | apply drop4_ne; clear; lia
                   | apply long_open_ne; clear; lia | apply (pre_fail_2 47 MCommentSlash KComment); [reflexivity | apply slash_fail; exact Ny]]. }
  destruct (Z.eqb_spec c 91) as [->|N91].
  { destruct (long_open r 0) as [[lvl r2]|] eqn:Lo.
    - destruct (long_body (Z.to_nat lvl) r2) as [[[b cl] rest0]|] eqn:Lb; [|discriminate]. inversion H; subst.
      apply (step_long_string l col r lvl r2 b cl rest Lo Lb).
      destruct (long_open_match _ _ _ _ (Z.le_refl 0) Lo) as [_ Sp]. apply span_split in Sp.
      destruct (long_body_find _ _ _ _ _ Lb) as [-> F]. apply find_long_close_split in F.
      subst r. rewrite F in Hcr'. apply crlf_only_app in Hcr'. apply (crlf_only_cons 91) in Hcr'.
      cbn [app] in Hcr'. apply (crlf_only_before b 93 _ Hcr'). lia.
    - assert (Hs : spec_symbol (91 :: r) = Some (t, rest)).
      { destruct r as [|y r2]; [exact H|]. rewrite match61 in H. destruct (y =? 61); [discriminate | exact H]. }
      apply Sym; [exact Hs | reflexivity | reflexivity | clear; lia | clear; lia | clear; lia | apply drop4_ne; clear; lia
                 | apply long_open_none_match; exact Lo | reflexivity]. }
  destruct ((c =? 34) || (c =? 39)) eqn:Cq.
  { destruct (unescape_until c r) as [[[v raw] rest0]|] eqn:U; [|discriminate]. inversion H; subst.
    apply (step_quoted l col c r v raw rest); try assumption. lia. }
  destruct (is_digit c) eqn:Cd.
  { apply (step_number l col c r t rest Hb (or_introl Cd) H Hne). }
  destruct (Z.eqb_spec c 46) as [->|N46].
  { destruct r as [|d r'].
    - apply Sym; [exact H | reflexivity | reflexivity | clear; lia | clear; lia | clear; lia | apply drop4_1 | apply long_open_ne; clear; lia | apply pre_fail_1].
    - destruct (is_digit d) eqn:Cd2.
      + apply (step_number l col 46 (d :: r') t rest Hb (or_intror eq_refl) H Hne).
      + apply Sym; [exact H | reflexivity | reflexivity | clear; lia | clear; lia | clear; lia | apply drop4_ne; clear; lia
                   | apply long_open_ne; clear; lia | apply (pre_fail_2 46 MNumDecFrac KNumber); [reflexivity | apply decfrac_fail; exact Cd2]]. }
  destruct (is_name_start c) eqn:Cn.
  { pose proof (step_name l col c r Hb Cn) as P. destruct (span is_name_char (c :: r)) as [a b] eqn:E.
    inversion H; subst. destruct P as (tk & S1 & S2 & S3). exists tk.
    split; [exact S1 | split; [exact S2 | split; [exact S3|]]].
    change (s_raw (mk (if mem_bytes a spec_keywords then SKeyword else SName) a a)) with a in *.
    pose proof (last_forallb _ _ Hne (span_all _ _ _ _ E)) as P. intros C. rewrite C in P. discriminate. }
  destruct (Z.eqb_spec c 58) as [->|N58].
  { destruct r as [|y r2].
    - apply Sym; [exact H | reflexivity | reflexivity | clear; lia | clear; lia | clear; lia | apply drop4_1 | apply long_open_ne; clear; lia | apply pre_fail_1].
    - rewrite match58 in H. destruct (Z.eqb_spec y 58) as [->|Ny].
      2: { apply Sym; [exact H | reflexivity | reflexivity | clear; lia | clear; lia | clear; lia | apply drop4_ne; clear; lia
                      | apply long_open_ne; clear; lia | apply (pre_fail_2 58 MLabel KLabel); [reflexivity | apply label_fail; exact Ny]]. }
      destruct (span is_name_char r2) as [a b] eqn:E. destruct a as [|n0 a']; [discriminate|].
      destruct (strip_prefix [58; 58] b) as [rest0|] eqn:Sp; [|discriminate].
      destruct (is_name_start n0) eqn:Hn; [|discriminate]. inversion H; subst.
      exact (step_label l col r2 (n0 :: a') b rest n0 a' E eq_refl Hn Sp). }
  destruct (Z.eqb_spec c 63) as [->|N63].
  { inversion H; subst. destruct (step_qmark l col rest) as (tk & S1 & S2 & S3). exists tk.
    split; [exact S1 | split; [exact S2 | split; [exact S3 | cbn; clear; lia]]]. }
  apply Sym; [exact H | exact Cn | exact Cd | exact N63 | clear -Cq; lia | clear -Cq; lia | apply drop4_ne; exact N45
             | apply long_open_ne; exact N91 | rewrite pre_rows_other by assumption; reflexivity].
Qed.

(* ---------- the whole token list *)
Inductive spec_toks : Z -> Z -> list Z -> list stok -> Prop :=
| st_nil l c : spec_toks l c [] []
| st_cons l c s t rest l' c' ts :
    spec_step s = Some (t, rest) -> s_raw t <> [] ->
    spec_advance l c (s_raw t) = (l', c') -> spec_toks l' c' rest ts ->
    spec_toks l c s (at_pos t l c :: ts).

Lemma spec_lex_fuel_toks fuel : forall l c s acc ss, spec_lex_fuel fuel l c s acc = Some ss ->
  exists ts, ss = rev acc ++ ts /\ spec_toks l c s ts.
Proof.
  induction fuel as [|f IH]; intros l c s acc ss H; destruct s as [|x r]; cbn [spec_lex_fuel] in H.
  - inversion H; subst. exists []. rewrite rev'_eq, app_nil_r. split; [reflexivity | constructor].
  - discriminate.
  - inversion H; subst. exists []. rewrite rev'_eq, app_nil_r. split; [reflexivity | constructor].
  - destruct (spec_step (x :: r)) as [[t rest]|] eqn:Es; [|discriminate].
    destruct (s_raw t) as [|y raw'] eqn:Er; [discriminate|].
    destruct (spec_advance l c (y :: raw')) as [l' c'] eqn:Ea.
    destruct (IH _ _ _ _ _ H) as (ts & -> & Hts).
    exists (at_pos t l c :: ts). split.
    + cbn [rev]. rewrite <- app_assoc. reflexivity.
    + apply (st_cons l c (x :: r) t rest l' c' ts Es); [rewrite Er; discriminate | rewrite Er; exact Ea | exact Hts].
Qed.

Lemma Forall_app_l {A} (P : A -> Prop) a b : Forall P (a ++ b) -> Forall P a.
Proof. intros H. apply Forall_app in H. tauto. Qed.
Lemma Forall_app_r' {A} (P : A -> Prop) a b : Forall P (a ++ b) -> Forall P b.
Proof. intros H. apply Forall_app in H. tauto. Qed.

Definition agree (s : stok) (t : tok) : Prop := tok_diff s (observe t) = 0.

Lemma process_line_nil fuel st : l_state st = Normal -> process_line (S fuel) st [] = Ok st.
Proof. intros H. rewrite process_line_S, H. reflexivity. Qed.

Lemma sim l c s ts : spec_toks l c s ts -> Forall byte s -> crlf_only s = true ->
  forall st fuel, l_state st = Normal -> l_line st = l -> l_col st = c -> (length s < fuel)%nat ->
  exists tks st', process_line fuel st s = Ok st' /\ l_state st' = Normal /\
                  l_toks_rev st' = rev tks ++ l_toks_rev st /\ Forall2 agree ts tks.
Proof.
  induction 1 as [l c | l c s t rest l' c' ts Es Hne Ha Hts IH]; intros HB Hcr st fuel Hst Hl Hc Hf.
  - destruct fuel as [|f]; [cbn in Hf; lia|]. exists [], st. rewrite (process_line_nil f st Hst).
    split; [reflexivity | split; [exact Hst | split; [reflexivity | constructor]]].
  - destruct (step_agrees s t rest l c HB Hcr Es Hne) as (tk & St & Hext & Hd & Hlast).
    destruct St as [Hsplit Hne' Htl Htc Hrun].
    rewrite Hext in Hsplit.
    assert (Hcr_raw : crlf_only (s_raw t) = true) by (apply (crlf_only_prefix _ rest); [rewrite <- Hsplit; exact Hcr | exact Hlast]).
    assert (Hcr_rest : crlf_only rest = true) by (apply (crlf_only_app (s_raw t)); rewrite <- Hsplit; exact Hcr).
    assert (HB_rest : Forall byte rest) by (apply (Forall_app_r' _ (s_raw t)); rewrite <- Hsplit; exact HB).
    rewrite (spec_advance_eq _ _ _ Hcr_raw) in Ha.
    assert (Hlen : (length rest < fuel)%nat).
    { rewrite Hsplit, app_length in Hf. lia. }
    destruct (IH HB_rest Hcr_rest (next_state st tk) fuel) as (tks & st' & Hp & Hs' & Ht' & Hag).
    + unfold next_state. destruct (advance (l_line st, l_col st) (t_ext tk)); reflexivity.
    + unfold next_state. rewrite Hl, Hc, Hext, Ha. reflexivity.
    + unfold next_state. rewrite Hl, Hc, Hext, Ha. reflexivity.
    + exact Hlen.
    + exists (tk :: tks), st'. rewrite (Hrun st fuel Hst Hl Hc Hf). split; [exact Hp|]. split; [exact Hs'|]. split.
      * rewrite Ht'. unfold next_state. destruct (advance (l_line st, l_col st) (t_ext tk)).
        cbn [l_toks_rev rev]. rewrite <- app_assoc. reflexivity.
      * constructor; [exact Hd | exact Hag].
Qed.

Theorem lex_agrees src ss : Forall byte src -> spec_lex src = Some ss ->
  exists ts, model_lex [src] = Ok ts /\ Forall2 agree ss ts.
Proof.
  intros HB H. unfold spec_lex in H. destruct (crlf_only src) eqn:Hcr; [|discriminate].
  destruct (spec_lex_fuel_toks _ _ _ _ _ _ H) as (ts & -> & Hts). cbn [rev app].
  destruct (sim 0 0 src ts Hts HB Hcr init_lexst (S (length src)) eq_refl eq_refl eq_refl (Nat.lt_succ_diag_r _))
    as (tks & st' & Hp & Hs' & Ht' & Hag).
  exists tks. split; [|exact Hag].
  unfold model_lex. cbn [process_chunks]. rewrite Hp, Hs', Ht'. cbn [init_lexst l_toks_rev].
  rewrite app_nil_r, rev'_eq, rev_involutive. reflexivity.
Qed.

Lemma first_diff_none ss : forall is_ k, Forall2 (fun s i => tok_diff s i = 0) ss is_ -> first_diff ss is_ k = None.
Proof.
  induction ss as [|s ss IH]; intros is_ k H; inversion H; subst; [reflexivity|].
  cbn [first_diff]. match goal with E : tok_diff s _ = 0 |- _ => rewrite E end. cbn. apply IH. assumption.
Qed.

Lemma Forall2_map_r {A B C} (R : A -> C -> Prop) (f : B -> C) la : forall lb,
  Forall2 (fun a b => R a (f b)) la lb -> Forall2 R la (map f lb).
Proof. induction la; intros lb H; inversion H; subst; constructor; auto. Qed.

(* the monitor predicate, evaluated on the model's own token list, holds for EVERY byte string:
   in the dialect the lexer succeeds and every field the monitor compares agrees with the reference;
   outside the dialect no claim is made *)
Theorem model_holds_C07 src : Forall byte src ->
  match model_lex [src] with
  | Ok ts => holds_C07 src (map observe ts) = true
  | Err _ => holds_C07_error src = true
  end.
Proof.
  intros HB. unfold holds_C07, holds_C07_error, diff_C07. destruct (spec_lex src) as [ss|] eqn:Es.
  - destruct (lex_agrees src ss HB Es) as (ts & -> & Hag).
    rewrite (first_diff_none ss (map observe ts) 0); [reflexivity|]. apply Forall2_map_r. exact Hag.
  - destruct (model_lex [src]); reflexivity.
Qed.
