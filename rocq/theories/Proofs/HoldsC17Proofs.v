(* C17: the instance predicate holds_C17 / holds_C17_seq (Instances/HoldsC17.v, the extracted
   monitor) means what it should, and the code's model satisfies it on every input. *)
From PV Require Import Base.Prelude Model.Accessors Spec.PlainMem Instances.HoldsC17
  Proofs.AccessorsBase Proofs.AccessorsSimple Proofs.AccessorsLoops Proofs.C17Proofs.

Lemma wf_memb_spec s : wf_memb s = true <-> wf_mem s.
Proof.
  unfold wf_memb, wf_mem. rewrite !andb_true_iff, !Z.eqb_eq, !all_bytes_Forall. tauto.
Qed.

Lemma rows_eqb_eq a : forall b, rows_eqb a b = true <-> a = b.
Proof.
  induction a as [|x a IH]; intros [|y b]; cbn [rows_eqb]; split; try congruence; try reflexivity.
  - rewrite andb_true_iff, zlist_eqb_eq, IH. intros [-> ->]. reflexivity.
  - intros [= -> ->]. rewrite andb_true_iff, zlist_eqb_eq, IH. split; reflexivity.
Qed.

Lemma ozeqb_eq a b : ozeqb a b = true <-> a = b.
Proof.
  destruct a as [x|], b as [y|]; cbn [ozeqb]; split; try congruence; try reflexivity.
  - rewrite Z.eqb_eq. intros ->. reflexivity.
  - intros [= ->]. apply Z.eqb_refl.
Qed.

Lemma val_eqb_eq a b : val_eqb a b = true <-> a = b.
Proof.
  destruct a, b; cbn [val_eqb]; split; try congruence; try reflexivity.
  - rewrite Z.eqb_eq. intros ->. reflexivity.
  - intros [= ->]. apply Z.eqb_refl.
  - rewrite ozeqb_eq. intros ->. reflexivity.
  - intros [= ->]. apply ozeqb_eq. reflexivity.
  - rewrite rows_eqb_eq. intros ->. reflexivity.
  - intros [= ->]. apply rows_eqb_eq. reflexivity.
  - rewrite zlist_eqb_eq. intros ->. reflexivity.
  - intros [= ->]. apply zlist_eqb_eq. reflexivity.
  - rewrite !andb_true_iff. intros [[H1 H2] H3]. apply eqb_prop in H1, H2, H3. subst. reflexivity.
  - intros [= -> -> ->]. rewrite !eqb_reflx. reflexivity.
Qed.

Lemma mem_eqb_eq a b : mem_eqb a b = true <-> a = b.
Proof.
  unfold mem_eqb. rewrite !andb_true_iff, !zlist_eqb_eq.
  destruct a as [a1 a2 a3 a4 a5], b as [b1 b2 b3 b4 b5]. cbn [m_gfx m_map m_gff m_music m_sfx]. split.
  - intros [[[[-> ->] ->] ->] ->]. reflexivity.
  - intros [= -> -> -> -> ->]. repeat split.
Qed.

(* what the monitor's verdict `true` means for one call *)
Lemma holds_C17_sound s o raised v s' :
  wf_mem s -> in_contract o = true ->
  (holds_C17 s o raised v s' = true <-> raised = false /\ s' = fst (spec_step s o) /\ v = snd (spec_step s o)).
Proof.
  intros W C. unfold holds_C17. apply wf_memb_spec in W. rewrite W, C. cbn [andb].
  destruct (spec_step s o) as [es ev]. cbn [fst snd].
  rewrite !andb_true_iff, negb_true_iff, mem_eqb_eq, val_eqb_eq. tauto.
Qed.

(* the code's model passes the monitor on every call it completes (out-of-contract calls are
   outside the claim, so the predicate is vacuously true there) *)
Lemma model_holds_C17 s o s' v : step_model true s o = Ok (s', v) -> holds_C17 s o false v s' = true.
Proof.
  intros E. unfold holds_C17. destruct (wf_memb s && in_contract o) eqn:G; [|reflexivity].
  apply andb_true_iff in G. destruct G as [W C]. apply wf_memb_spec in W.
  destruct (c17_refines s o W C) as (E2 & _). rewrite E2 in E. injection E as E.
  rewrite E. cbn [negb andb]. apply andb_true_iff. split; [apply mem_eqb_eq | apply val_eqb_eq]; reflexivity.
Qed.

Lemma model_holds_C17_hist ops : forall s final vs, wf_mem s ->
  run_model true s ops = Ok (final, vs) ->
  holds_C17_hist s ops (map (fun v => (false, v)) vs) final = true.
Proof.
  induction ops as [|o ops IH]; intros s final vs W E.
  - cbn [run_model] in E. injection E as <- <-. cbn [map holds_C17_hist]. apply mem_eqb_eq. reflexivity.
  - cbn [run_model] in E.
    destruct (step_model true s o) as [[s1 v]|e] eqn:E1; cbn [bind] in E; [|discriminate].
    destruct (run_model true s1 ops) as [[s2 vs2]|e] eqn:E2; cbn [bind] in E; [|discriminate].
    injection E as <- <-. cbn [map holds_C17_hist].
    destruct (in_contract o) eqn:C; [|reflexivity].
    destruct (c17_refines s o W C) as (E3 & W1). rewrite E3 in E1. injection E1 as E1.
    rewrite E1. cbn [negb andb fst] in *. rewrite E1 in W1. cbn [fst] in W1.
    apply andb_true_iff. split; [apply val_eqb_eq; reflexivity|]. apply IH; assumption.
Qed.

Lemma model_holds_C17_seq ops s final vs :
  run_model true s ops = Ok (final, vs) ->
  holds_C17_seq s ops (map (fun v => (false, v)) vs) final = true.
Proof.
  intros E. unfold holds_C17_seq. destruct (wf_memb s) eqn:W; [|reflexivity].
  apply wf_memb_spec in W. apply model_holds_C17_hist; assumption.
Qed.
