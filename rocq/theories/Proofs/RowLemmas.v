(* Index-free access to row-structured data: the code indexes a flat bytearray with
   id*rowlen + j; the proofs work on a list of rows. *)
From PV Require Import Base.Prelude Base.ListX Base.PySlice Model.HexSection Model.Gfx Model.Gff.
From Coq Require Import ZifyBool.

Lemma py_get_inrange (l : list Z) i :
  0 <= i -> py_get l i =
  if zlen l <=? i then Err IndexError
  else match nth_error l (Z.to_nat i) with Some x => Ok x | None => Err IndexError end.
Proof.
  intros H. unfold py_get. cbv zeta.
  assert (E : (i <? 0) = false) by lia. rewrite E. cbv iota. rewrite E. cbn [orb]. reflexivity.
Qed.

Lemma py_get_nth (l : list Z) i v :
  0 <= i -> nth_error l (Z.to_nat i) = Some v -> py_get l i = Ok v.
Proof.
  intros Hi H.
  assert (Hlt : (Z.to_nat i < length l)%nat) by (apply nth_error_Some; congruence).
  rewrite py_get_inrange by exact Hi.
  assert (E : (zlen l <=? i) = false) by (unfold zlen; lia). rewrite E, H. reflexivity.
Qed.

Lemma py_get_ok_arr (l : list Z) i v : py_get l i = Ok v -> arr l i = v.
Proof. unfold arr. intros ->. reflexivity. Qed.

Lemma py_get_app_l (a b : list Z) i :
  0 <= i < zlen a -> py_get (a ++ b) i = py_get a i.
Proof.
  intros H. rewrite !py_get_inrange by lia. rewrite zlen_app. pose proof (zlen_nonneg b) as Hb.
  assert (E1 : (zlen a + zlen b <=? i) = false) by lia.
  assert (E2 : (zlen a <=? i) = false) by lia. rewrite E1, E2.
  rewrite nth_error_app1 by (unfold zlen in *; lia). reflexivity.
Qed.

Lemma py_get_app_r (a b : list Z) i :
  0 <= i -> py_get (a ++ b) (zlen a + i) = py_get b i.
Proof.
  intros H. pose proof (zlen_nonneg a) as Ha.
  rewrite !py_get_inrange by lia. rewrite zlen_app.
  destruct (zlen b <=? i) eqn:E1.
  - assert (E2 : (zlen a + zlen b <=? zlen a + i) = true) by lia. rewrite E2. reflexivity.
  - assert (E2 : (zlen a + zlen b <=? zlen a + i) = false) by lia. rewrite E2.
    rewrite nth_error_app2 by (unfold zlen in *; lia).
    replace (Z.to_nat (zlen a + i) - length a)%nat with (Z.to_nat i) by (unfold zlen; lia). reflexivity.
Qed.

(* element j of row k of a concatenation of equal-length rows *)
Lemma py_get_concat_rows n (rows : list (list Z)) : 0 <= n ->
  Forall (fun r => zlen r = n) rows ->
  forall k j r, nth_error rows k = Some r -> 0 <= j < n ->
  py_get (concat rows) (Z.of_nat k * n + j) = py_get r j.
Proof.
  intros Hn. induction 1 as [|r0 rows Hr0 Hrows IH]; intros k j r Hk Hj.
  - destruct k; discriminate.
  - destruct k as [|k]; cbn [nth_error concat] in *.
    + injection Hk as ->. replace (Z.of_nat 0 * n + j) with j by lia.
      apply py_get_app_l. lia.
    + replace (Z.of_nat (S k) * n + j) with (zlen r0 + (Z.of_nat k * n + j)) by nia.
      rewrite py_get_app_r by nia. apply IH; assumption.
Qed.

Lemma mapM_seq {B C} (f : Z -> result B) (g : C -> B) (rows : list C) : forall s,
  (forall i r, nth_error rows i = Some r -> f (Z.of_nat (s + i)) = Ok (g r)) ->
  mapM f (map Z.of_nat (seq s (length rows))) = Ok (map g rows).
Proof.
  induction rows as [|r rows IH]; intros s H; [reflexivity|].
  cbn [length seq map mapM].
  rewrite <- (Nat.add_0_r s) at 1. rewrite (H 0%nat r eq_refl). cbn [bind].
  rewrite IH; [reflexivity|].
  intros i r' Hi. replace (S s + i)%nat with (s + S i)%nat by lia. apply H. exact Hi.
Qed.

Lemma mapM_upto_rows {B C} (f : Z -> result B) (g : C -> B) (rows : list C) :
  (forall i r, nth_error rows i = Some r -> f (Z.of_nat i) = Ok (g r)) ->
  mapM f (upto (zlen rows)) = Ok (map g rows).
Proof.
  intros H. unfold upto, zlen. rewrite Nat2Z.id. apply mapM_seq. exact H.
Qed.

Lemma mapM_ext_in {A B} (f g : A -> result B) l :
  (forall x, In x l -> f x = g x) -> mapM f l = mapM g l.
Proof.
  induction l as [|x l IH]; intros H; [reflexivity|].
  cbn [mapM]. rewrite (H x (or_introl eq_refl)). rewrite IH; [reflexivity|].
  intros y Hy. apply H. right. exact Hy.
Qed.

Lemma zlen_concat_rows n (rows : list (list Z)) :
  Forall (fun r => zlen r = n) rows -> zlen (concat rows) = zlen rows * n.
Proof.
  induction 1 as [|r rows Hr Hrows IH]; [reflexivity|].
  cbn [concat]. rewrite zlen_app, zlen_cons, IH, Hr. lia.
Qed.

(* ---- framing: reading / writing the element right after a prefix ---- *)
Lemma py_get_mid (pre post : list Z) x : py_get (pre ++ x :: post) (zlen pre) = Ok x.
Proof.
  apply py_get_nth; [apply zlen_nonneg|].
  unfold zlen. rewrite Nat2Z.id, nth_error_app2 by lia. rewrite Nat.sub_diag. reflexivity.
Qed.

Lemma set_nth_mid (pre post : list Z) x v : set_nth (pre ++ x :: post) (length pre) v = pre ++ v :: post.
Proof. induction pre as [|y pre IH]; cbn; [reflexivity | rewrite IH; reflexivity]. Qed.

Lemma py_set_mid (pre post : list Z) x v : py_set (pre ++ x :: post) (zlen pre) v = Ok (pre ++ v :: post).
Proof.
  unfold py_set. cbv zeta. pose proof (zlen_nonneg pre) as H.
  assert (E : (zlen pre <? 0) = false) by lia. rewrite E. cbv iota. rewrite E. cbn [orb].
  assert (E2 : (zlen (pre ++ x :: post) <=? zlen pre) = false) by (rewrite zlen_app, zlen_cons; pose proof (zlen_nonneg post); lia).
  rewrite E2. unfold zlen. rewrite Nat2Z.id, set_nth_mid. reflexivity.
Qed.

Lemma py_set_byte_mid (pre post : list Z) x v : byte v ->
  py_set_byte (pre ++ x :: post) (zlen pre) v = Ok (pre ++ v :: post).
Proof.
  intros Hv. unfold py_set_byte. rewrite py_set_mid. cbn [bind].
  apply byteb_spec in Hv. rewrite Hv. reflexivity.
Qed.

(* ---- slices of concatenations ---- *)
Lemma py_slice_app_l (l post : list Z) a b :
  0 <= a <= b -> b <= zlen l -> py_slice (l ++ post) a b = py_slice l a b.
Proof.
  intros H1 H2. pose proof (zlen_nonneg post) as Hp.
  rewrite !py_slice_inrange by (try rewrite zlen_app; lia).
  rewrite skipn_app, firstn_app, skipn_length.
  replace (Z.to_nat (b - a) - (length l - Z.to_nat a))%nat with 0%nat by (unfold zlen in *; lia).
  rewrite firstn_O, app_nil_r. reflexivity.
Qed.

Lemma py_slice_app_r (pre l : list Z) a b :
  0 <= a <= b -> b <= zlen l ->
  py_slice (pre ++ l) (zlen pre + a) (zlen pre + b) = py_slice l a b.
Proof.
  intros H1 H2. pose proof (zlen_nonneg pre) as Hp.
  rewrite !py_slice_inrange by (try rewrite zlen_app; lia).
  replace (zlen pre + b - (zlen pre + a)) with (b - a) by lia.
  rewrite skipn_app.
  replace (Z.to_nat (zlen pre + a) - length pre)%nat with (Z.to_nat a) by (unfold zlen; lia).
  rewrite skipn_all2 by (unfold zlen; lia). reflexivity.
Qed.

Lemma py_slice_concat_rows n (rows : list (list Z)) (post : list Z) : 0 <= n ->
  Forall (fun r => zlen r = n) rows ->
  forall k a b r, nth_error rows k = Some r -> 0 <= a <= b -> b <= n ->
  py_slice (concat rows ++ post) (Z.of_nat k * n + a) (Z.of_nat k * n + b) = py_slice r a b.
Proof.
  intros Hn. induction 1 as [|r0 rows Hr0 Hrows IH]; intros k a b r Hk Ha Hb.
  - destruct k; discriminate.
  - destruct k as [|k]; cbn [nth_error concat] in *.
    + injection Hk as ->. replace (Z.of_nat 0 * n + a) with a by lia. replace (Z.of_nat 0 * n + b) with b by lia.
      rewrite <- app_assoc. apply py_slice_app_l; lia.
    + rewrite <- app_assoc.
      replace (Z.of_nat (S k) * n + a) with (zlen r0 + (Z.of_nat k * n + a)) by nia.
      replace (Z.of_nat (S k) * n + b) with (zlen r0 + (Z.of_nat k * n + b)) by nia.
      assert (Hlen : Z.of_nat k * n + b <= zlen (concat rows ++ post)).
      { rewrite zlen_app, (zlen_concat_rows n rows Hrows). pose proof (zlen_nonneg post).
        assert (Z.of_nat k < zlen rows) by (unfold zlen; apply Nat2Z.inj_lt; apply nth_error_Some; congruence). nia. }
      rewrite py_slice_app_r by nia. apply IH; assumption.
Qed.
