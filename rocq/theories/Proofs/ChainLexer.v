(* C04, last clause with the Lua object instantiated by the lexer model and the echo writer:
   .p8 -> .p8.png -> .p8 with lua = token list, Lua.from_lines = model_lex, Lua.to_lines() = echo.
   The lexer-stack hypotheses of ChainProofs.chain (sanity re-lex, ended flag, re-lexing of the written text at
   each of the three readings, bytes of the echoed lines, code_in_format / clean / magic of the intermediate
   texts) are discharged from Proofs/EchoStable.v, as Proofs/P8FileLua.v does for C03.
   Restriction, visible in the statement: the code text contains no carriage return.  (The .p8.png reader
   replaces CR by a space before lexing; that the lexer accepts the replaced text is a statement about lexing a
   DIFFERENT text, not covered by the fixed-point theorems of the echo writer: chain_lexer_cr keeps it as a
   hypothesis.) *)
From Coq Require Import ZArith List Bool Lia ZifyBool.
From PV Require Import Base.Prelude Base.ListX Base.PySlice Spec.P8Format Spec.P8FileSpec Model.P8File
  Generated.T_lexer Model.Lexer Model.EchoWriter Proofs.LexerProofs Proofs.LexerChunk Proofs.EchoProofs Proofs.EchoStable
  Proofs.C16Proofs Proofs.P8FileLines Proofs.P8FileWrite Proofs.P8FileRoundtrip Proofs.P8FileRewrite Proofs.P8FileLua
  Generated.K_compress Model.Compress Model.P8Png Proofs.CompressProofs Proofs.P8PngProofs Proofs.ChainProofs.
Ltac Zify.zify_post_hook ::= Z.to_euclidean_division_equations.

Notation ltoks := (list tok).

(* ---------- texts without carriage return *)
Definition no_cr (t : list Z) : bool := forallb (fun b => negb (b =? 13)) t.

Lemma cr2sp_no_cr t : no_cr t = true -> cr2sp t = t.
Proof.
  unfold no_cr, cr2sp. induction t as [|c r IH]; [reflexivity|]. cbn [forallb map]. intros H.
  apply andb_true_iff in H. destruct H as [Hc Hr]. rewrite (IH Hr). destruct (c =? 13); [discriminate | reflexivity].
Qed.

Lemma no_cr_app a b : no_cr (a ++ b) = no_cr a && no_cr b.
Proof. apply forallb_app. Qed.

Lemma no_cr_supply t : no_cr t = true -> no_cr (supply_nl t) = true.
Proof. intros H. unfold supply_nl. destruct (ends_nl t); [exact H|]. rewrite no_cr_app, H. reflexivity. Qed.

Lemma no_cr_tokens ts : no_cr (concat (echo ts)) = true -> no_lone_cr_newline ts.
Proof.
  rewrite echo_concat. unfold no_lone_cr_newline. induction ts as [|t r IH]; [constructor|]. cbn [map concat].
  rewrite no_cr_app. intros H. apply andb_true_iff in H. destruct H as [Ht Hr]. constructor; [|apply IH, Hr].
  intros _ E. rewrite E in Ht. discriminate.
Qed.

(* ---------- supply_nl *)
Lemma supply_nl_ended t : ends_with_nl (supply_nl t) = true.
Proof.
  unfold supply_nl. destruct (ends_nl t) eqn:E; [rewrite <- ends_nl_eq; exact E | apply ends_with_nl_app].
Qed.

Lemma supply_nl_of_ended t : ends_with_nl t = true -> supply_nl t = t.
Proof. intros H. unfold supply_nl. rewrite ends_nl_eq, H. reflexivity. Qed.

Lemma supply_nl_idem t : supply_nl (supply_nl t) = supply_nl t.
Proof. apply supply_nl_of_ended, supply_nl_ended. Qed.

Lemma supply_nl_bytes t : Forall byte t -> Forall byte (supply_nl t).
Proof.
  intros H. unfold supply_nl. destruct (ends_nl t); [exact H|]. apply Forall_app. split; [exact H|].
  constructor; [unfold byte; lia | constructor].
Qed.

Lemma supply_nl_no_nul t : no_nul t -> no_nul (supply_nl t).
Proof.
  intros H. unfold supply_nl, no_nul in *. destruct (ends_nl t); [exact H|]. apply Forall_app. split; [exact H|].
  constructor; [lia | constructor].
Qed.

Lemma code_in_format_supply t : code_in_format (supply_nl t) = code_in_format t.
Proof. unfold code_in_format. rewrite supply_nl_idem. reflexivity. Qed.

(* one more newline after a text that ends in a newline *)
Lemma code_in_format_extra_nl t : ends_with_nl t = true -> code_in_format t = true -> code_in_format (t ++ [10]) = true.
Proof.
  intros He Hf. unfold code_in_format in *.
  rewrite (supply_nl_of_ended t He) in Hf. rewrite (supply_nl_of_ended (t ++ [10]) (ends_with_nl_app t)).
  rewrite text_lines_eq in *. destruct (split_lines_text t (or_intror He)) as (F & C).
  assert (E : split_lines (t ++ [10]) = split_lines t ++ [[10]]).
  { rewrite <- C at 1. replace (concat (split_lines t) ++ [10]) with (concat (split_lines t ++ [[10]]))
      by (rewrite concat_app; cbn [concat]; rewrite app_nil_r; reflexivity).
    apply split_lines_concat_all. apply Forall_app. split; [exact F|]. constructor; [|constructor].
    exists []. split; [reflexivity | constructor]. }
  rewrite E, forallb_app, Hf. reflexivity.
Qed.

(* ---------- a text that ends in a newline and has no NUL is clean and is not the compressed-area magic *)
Lemma ended_clean t : ends_with_nl t = true -> no_nul t -> clean t = true /\ t <> [58; 99; 58].
Proof.
  intros He Hn. destruct (ends_with_nl_split t He) as (b & ->). split.
  - unfold clean, clean_ends, ends_with. rewrite !rev'_eq, rev_app_distr. cbn [rev app].
    assert (H1 : match b ++ [10] with [] => true | x :: _ => negb (in_set dc_strip_bytes x) end = true).
    { destruct b as [|x b']; [reflexivity|]. cbn [app]. inversion Hn; subst. unfold in_set, dc_strip_bytes. cbn [existsb].
      destruct (x =? 0) eqn:E; [lia | reflexivity]. }
    rewrite H1. reflexivity.
  - intros E. apply (f_equal (@rev Z)) in E. rewrite rev_app_distr in E. cbn in E. discriminate.
Qed.

Lemma Forall_concat_bytes (L : list (list Z)) : Forall byte (concat L) -> Forall (Forall byte) L.
Proof.
  induction L as [|x L IH]; [constructor|]. cbn [concat]. intros H. apply Forall_app in H. destruct H as [Hx HL].
  constructor; [exact Hx | apply IH, HL].
Qed.

Lemma concat_bytes (L : list (list Z)) : Forall (Forall byte) L -> Forall byte (concat L).
Proof. induction 1 as [|x L Hx _ IH]; [constructor|]. cbn [concat]. apply Forall_app. split; assumption. Qed.

(* ---------- the lexer stack: what a cart that came out of the lexer gives *)
Lemma lexer_cart_facts (c : lex_cart) : from_lexer c -> no_lone_cr_newline (c_lua c) ->
  (exists l0, model_lex (echo (c_lua c)) = Ok l0) /\
  ended_flag (echo (c_lua c)) = ends_with_nl (code_text ltoks echo c).
Proof.
  intros (ls0 & HF0 & HL0) Hn. split; [apply (sanity_relex ls0 _ HF0 HL0 Hn)|].
  apply ended_flag_text. apply last_nonempty. apply (echo_chunks_nonempty ls0). unfold echo_source. rewrite HL0. reflexivity.
Qed.

(* reading the written file back re-lexes the written text, and the re-read object echoes it *)
Lemma relex_code_lines (c : lex_cart) : Forall (Forall byte) (echo (c_lua c)) -> from_lexer c ->
  exists l', model_lex (code_lines ltoks echo c) = Ok l' /\ concat (echo l') = supply_nl (code_text ltoks echo c) /\
             from_lexer (norm_cart ltoks c l').
Proof.
  intros Hch (ls0 & HF0 & HL0).
  assert (E0 : echo_source ls0 = Ok (echo (c_lua c))) by (unfold echo_source; rewrite HL0; reflexivity).
  destruct (code_lines_facts ltoks echo c Hch) as (FN & CC & _).
  assert (HF' : Forall ends_lf (removelast (code_lines ltoks echo c))).
  { apply Forall_removelast. eapply Forall_impl; [|exact FN]. intros a Ha. apply nl_line_ends_lf. exact Ha. }
  assert (X : exists lines', echo_source (code_lines ltoks echo c) = Ok lines' /\
                             concat lines' = supply_nl (code_text ltoks echo c)).
  { unfold supply_nl in *. destruct (ends_nl (code_text ltoks echo c)) eqn:En.
    - apply (echo_idempotent ls0 _ HF0 E0); [exact CC | exact HF'].
    - apply (echo_idempotent_lf ls0 _ HF0 E0); [exact CC | exact HF']. }
  destruct X as (lines' & X1 & X2). unfold echo_source in X1.
  destruct (model_lex (code_lines ltoks echo c)) as [l'|e] eqn:EL; [|discriminate]. injection X1 as <-.
  exists l'. split; [reflexivity|]. split; [exact X2|]. exists (code_lines ltoks echo c). split; [exact HF' | exact EL].
Qed.

(* lexing the echoed text again as ONE chunk (the .p8.png reader), with or without one more line feed *)
Lemma relex_one_chunk (l1 : ltoks) (extra : bool) : (exists ls, Forall ends_lf (removelast ls) /\ model_lex ls = Ok l1) ->
  exists l2, model_lex [concat (echo l1) ++ (if extra then [10] else [])] = Ok l2 /\
             concat (echo l2) = concat (echo l1) ++ (if extra then [10] else []).
Proof.
  intros (ls & HF & HL).
  assert (E : echo_source ls = Ok (echo l1)) by (unfold echo_source; rewrite HL; reflexivity).
  assert (X : exists lines', echo_source [concat (echo l1) ++ (if extra then [10] else [])] = Ok lines' /\
                             concat lines' = concat (echo l1) ++ (if extra then [10] else [])).
  { destruct extra.
    - apply (echo_idempotent_lf ls _ HF E); [cbn [concat]; rewrite app_nil_r; reflexivity | constructor].
    - rewrite app_nil_r. apply (echo_idempotent ls _ HF E); [cbn [concat]; rewrite app_nil_r; reflexivity | constructor]. }
  destruct X as (lines' & X1 & X2). unfold echo_source in X1.
  destruct (model_lex [concat (echo l1) ++ (if extra then [10] else [])]) as [l2|e]; [|discriminate]. injection X1 as <-.
  exists l2. split; [reflexivity | exact X2].
Qed.

Definition cart2 (c0 : lex_cart) (l2 : ltoks) : lex_cart :=
  {| P8File.c_version := P8File.c_version c0; P8File.c_lua := l2; P8File.c_gfx := P8File.c_gfx c0;
     P8File.c_label := None; P8File.c_gff := P8File.c_gff c0; P8File.c_map := P8File.c_map c0;
     P8File.c_sfx := P8File.c_sfx c0; P8File.c_music := music_norm (P8File.c_music c0) |}.

(* ---------- the chain, general in carriage returns: the one re-lex after CR -> space stays a hypothesis *)
Theorem chain_lexer_cr (c0 : lex_cart) img l2 :
  P8FileWrite.wf_cart ltoks echo c0 -> from_lexer c0 -> no_lone_cr_newline (P8File.c_lua c0) ->
  let T0 := concat (echo (P8File.c_lua c0)) in
  let t1 := supply_nl T0 in
  code_in_format T0 = true ->
  P8File.c_version c0 < 256 -> wf_img img -> fits t1 -> no_nul T0 ->
  (* the .p8.png reader lexes the text with CR replaced by space (plus a newline for plain storage) *)
  model_lex [norm_code t1 (is_compressed t1)] = Ok l2 ->
  Forall (Forall byte) (echo l2) -> no_lone_cr_newline l2 -> code_in_format (concat (echo l2)) = true ->
  exists l1 l3 file1 rows file2,
    let c1 := norm_cart ltoks c0 l1 in
    let c2 := cart2 c0 l2 in
    let c3 := norm_cart ltoks c2 l3 in
    lex_write c0 = Ok file1 /\ lex_read file1 = Ok c1 /\ concat (echo l1) = t1 /\
    write_png_pixels (png_cart_of ltoks echo c1) 4 img = Ok rows /\ upper6 rows = upper6 img /\
    (pc' <- read_png_pixels 160 205 4 rows ;; game_of_png ltoks model_lex pc') = Ok c2 /\
    lex_write c2 = Ok file2 /\ lex_read file2 = Ok c3 /\ concat (echo l3) = supply_nl (concat (echo l2)) /\
    P8File.c_gfx c3 = P8File.c_gfx c1 /\ P8File.c_map c3 = P8File.c_map c1 /\
    P8File.c_gff c3 = P8File.c_gff c1 /\ P8File.c_music c3 = P8File.c_music c1 /\
    P8File.c_sfx c3 = P8File.c_sfx c1 /\ P8File.c_version c3 = P8File.c_version c1.
Proof.
  intros W0 FL0 Hn0 T0 t1 Hf0 Hv Himg Hfit Hnn Hl2 Hb2 Hn2 Hf2.
  pose proof W0 as (V0 & Lg & Lf & Lm & Ls & Lmu & Bg & Bf & Bm & Bs & Bmu & _ & Hch0).
  destruct (lexer_cart_facts c0 FL0 Hn0) as ((l0 & Hs0) & He0).
  destruct (relex_code_lines c0 Hch0 FL0) as (l1 & Hl1 & Ht1 & FL1).
  change (code_text ltoks echo c0) with T0 in Ht1. fold t1 in Ht1.
  assert (Hend1 : ends_with_nl t1 = true) by apply supply_nl_ended.
  assert (Hb1 : Forall byte t1) by (apply supply_nl_bytes, concat_bytes, Hch0).
  assert (Hnn1 : no_nul t1) by (apply supply_nl_no_nul, Hnn).
  destruct (ended_clean t1 Hend1 Hnn1) as (Hcl1 & Hmag1).
  set (c2 := cart2 c0 l2).
  assert (FL2 : from_lexer c2).
  { exists [norm_code t1 (is_compressed t1)]. split; [constructor | exact Hl2]. }
  destruct (lexer_cart_facts c2 FL2 Hn2) as ((l20 & Hs2) & He2).
  pose proof (chain ltoks model_lex echo [] c0 l0 l1 img l2 l20 W0 Hs0 He0 Hf0 Hl1 Hv Himg) as CH.
  cbv zeta in CH. rewrite Ht1 in CH.
  specialize (CH Hb1 Hfit Hnn1 Hcl1 Hmag1 Hl2 Hb2 Hs2 He2 Hf2).
  destruct CH as (file1 & rows & file2 & A1 & A2 & A3 & A4 & A5 & A6 & A7 & _ & A9).
  destruct (relex_code_lines c2 Hb2 FL2) as (l3 & Hl3 & Ht3 & _).
  exists l1, l3, file1, rows, file2. cbv zeta.
  split; [exact A1|]. split; [exact A2|]. split; [exact Ht1|]. split; [exact A3|]. split; [exact A4|].
  split; [exact A5|]. split; [exact A6|].
  split; [unfold lex_read; unfold c2, cart2 in Hl3 |- *; rewrite A7, Hl3; reflexivity|].
  split; [exact Ht3|]. exact (A9 l3).
Qed.

(* ---------- the chain for code without carriage returns: no lexer-stack hypothesis left *)
Theorem chain_lexer (c0 : lex_cart) img :
  P8FileWrite.wf_cart ltoks echo c0 -> from_lexer c0 ->
  let T0 := concat (echo (P8File.c_lua c0)) in
  let t1 := supply_nl T0 in
  no_cr T0 = true -> code_in_format T0 = true ->
  P8File.c_version c0 < 256 -> wf_img img -> fits t1 -> no_nul T0 ->
  exists l1 l2 l3 file1 rows file2,
    let c1 := norm_cart ltoks c0 l1 in
    let c2 := cart2 c0 l2 in
    let c3 := norm_cart ltoks c2 l3 in
    lex_write c0 = Ok file1 /\ lex_read file1 = Ok c1 /\
    write_png_pixels (png_cart_of ltoks echo c1) 4 img = Ok rows /\ upper6 rows = upper6 img /\
    (pc' <- read_png_pixels 160 205 4 rows ;; game_of_png ltoks model_lex pc') = Ok c2 /\
    lex_write c2 = Ok file2 /\ lex_read file2 = Ok c3 /\
    (* the code: the echoed text of the first cart with a final newline supplied; plain storage adds one more *)
    concat (echo l1) = t1 /\
    concat (echo l2) = t1 ++ (if is_compressed t1 then [] else [10]) /\
    concat (echo l3) = concat (echo l2) /\
    (* the data regions *)
    P8File.c_gfx c3 = P8File.c_gfx c1 /\ P8File.c_map c3 = P8File.c_map c1 /\
    P8File.c_gff c3 = P8File.c_gff c1 /\ P8File.c_music c3 = P8File.c_music c1 /\
    P8File.c_sfx c3 = P8File.c_sfx c1 /\ P8File.c_version c3 = P8File.c_version c1.
Proof.
  intros W0 FL0 T0 t1 Hcr Hf0 Hv Himg Hfit Hnn.
  pose proof W0 as (_ & _ & _ & _ & _ & _ & _ & _ & _ & _ & _ & _ & Hch0).
  assert (Hn0 : no_lone_cr_newline (P8File.c_lua c0)) by (apply no_cr_tokens, Hcr).
  destruct (relex_code_lines c0 Hch0 FL0) as (l1 & Hl1 & Ht1 & (ls1 & HF1 & HL1)).
  change (code_text ltoks echo c0) with T0 in Ht1. fold t1 in Ht1. cbn [norm_cart P8File.c_lua] in HL1.
  assert (Hcr1 : no_cr t1 = true) by (apply no_cr_supply, Hcr).
  assert (Hend1 : ends_with_nl t1 = true) by apply supply_nl_ended.
  (* the text the .p8.png reader lexes *)
  assert (En : norm_code t1 (is_compressed t1) = concat (echo l1) ++ (if negb (is_compressed t1) then [10] else [])).
  { rewrite Ht1. unfold norm_code. destruct (is_compressed t1); cbn [negb].
    - rewrite app_nil_r. apply cr2sp_no_cr, Hcr1.
    - apply cr2sp_no_cr. rewrite no_cr_app, Hcr1. reflexivity. }
  destruct (relex_one_chunk l1 (negb (is_compressed t1)) (ex_intro _ ls1 (conj HF1 HL1))) as (l2 & Hl2 & Ht2).
  rewrite <- En in Hl2. rewrite Ht1 in Ht2.
  assert (Ht2' : concat (echo l2) = t1 ++ (if is_compressed t1 then [] else [10])) by (rewrite Ht2; destruct (is_compressed t1); reflexivity).
  assert (Hb1 : Forall byte t1) by (apply supply_nl_bytes, concat_bytes, Hch0).
  assert (Hb2 : Forall byte (concat (echo l2))).
  { rewrite Ht2'. apply Forall_app. split; [exact Hb1|]. destruct (is_compressed t1); [constructor|]. constructor; [unfold byte; lia | constructor]. }
  assert (Hcr2 : no_cr (concat (echo l2)) = true) by (rewrite Ht2', no_cr_app, Hcr1; destruct (is_compressed t1); reflexivity).
  assert (Hend2 : ends_with_nl (concat (echo l2)) = true).
  { rewrite Ht2'. destruct (is_compressed t1); [rewrite app_nil_r; exact Hend1 | apply ends_with_nl_app]. }
  assert (Hf2 : code_in_format (concat (echo l2)) = true).
  { assert (Hft1 : code_in_format t1 = true) by (unfold t1; rewrite code_in_format_supply; exact Hf0).
    rewrite Ht2'. destruct (is_compressed t1); [rewrite app_nil_r; exact Hft1 | apply code_in_format_extra_nl; assumption]. }
  destruct (chain_lexer_cr c0 img l2 W0 FL0 Hn0 Hf0 Hv Himg Hfit Hnn Hl2 (Forall_concat_bytes _ Hb2) (no_cr_tokens _ Hcr2) Hf2)
    as (l1' & l3 & file1 & rows & file2 & B1 & B2 & B3 & B4 & B5 & B6 & B7 & B8 & B9 & B10).
  exists l1', l2, l3, file1, rows, file2. cbv zeta in *.
  split; [exact B1|]. split; [exact B2|]. split; [exact B4|]. split; [exact B5|]. split; [exact B6|]. split; [exact B7|].
  split; [exact B8|]. split; [exact B3|]. split; [exact Ht2'|].
  split; [rewrite B9; apply supply_nl_of_ended, Hend2 | exact B10].
Qed.
Print Assumptions chain_lexer.
Print Assumptions chain_lexer_cr.
