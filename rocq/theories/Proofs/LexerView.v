(* What C07_lex_agrees means for the writers (C01 C02 C06 C19): class and Token.code of every token of the
   model, in terms of the reference tokens. *)
From PV Require Import Base.Prelude Generated.T_lexer Model.Lexer Spec.LuaLex Instances.HoldsC07
  Proofs.LexerProofs Proofs.LexerSpec Proofs.LexerAgree Proofs.LexerMain.
From Coq Require Import ZifyBool.

Definition kind_of (k : skind) : tok_kind :=
  match k with
  | SSpace => KSpace | SNewline => KNewline | SComment => KComment | SString => KString | SNumber => KNumber
  | SName => KName | SLabel => KLabel | SKeyword => KKeyword | SSymbol => KSymbol
  end.

(* Token.code of the picotool token that corresponds to a reference token: the source text, except
   for a quoted string, which is re-spelled from the bytes it denotes *)
Definition spec_code (t : stok) : list Z :=
  match s_kind t with
  | SString => if s_long t <? 0 then reencode (firstn 1 (s_raw t)) (s_text t) else s_raw t
  | _ => s_raw t
  end.

Lemma kind_codes k tk : skind_code k = kind_code tk -> tk = kind_of k.
Proof. destruct k, tk; cbn; intros H; try discriminate; reflexivity. Qed.

Lemma opt_list_eqb_eq a b : opt_list_eqb a b = true -> a = b.
Proof.
  destruct a, b; cbn; intros H; try discriminate; [|reflexivity]. apply zlist_eqb_eq in H. subst. reflexivity.
Qed.

(* the fields of a model token that passes the monitor's comparison *)
Lemma agree_fields s t : agree s t ->
  t_kind t = kind_of (s_kind s) /\ t_line t = s_line s /\ t_col t = s_col s /\
  match s_kind s with
  | SString =>
    tok_str_value t = s_text s /\
    (if s_long s <? 0 then t_quote t = firstn 1 (s_raw s) /\ t_ml t = None
     else t_ml t = Some (repeat 61 (Z.to_nat (s_long s))) /\
          s_raw s = 91 :: repeat 61 (Z.to_nat (s_long s)) ++ 91 :: t_data t ++ 93 :: repeat 61 (Z.to_nat (s_long s)) ++ [93])
  | SNumber => t_data t = s_raw s /\ exists n d, tok_value (t_data t) = Ok (n, d) /\ 0 < d /\
                 Z.abs (n * s_den s - s_num s * d) * 2 ^ 53 <= Z.abs (s_num s * d)
  | _ => t_data t = s_raw s
  end.
Proof.
  unfold agree, tok_diff, observe.
  cbn [i_kind i_data i_line i_col i_quote i_ml i_val i_sval].
  destruct (skind_code (s_kind s) =? kind_code (t_kind t)) eqn:Ek; cbn [negb]; [|discriminate].
  apply Z.eqb_eq in Ek. apply kind_codes in Ek.
  set (d := match s_kind s with SString => _ | SNumber => _ | _ => _ end).
  destruct (d =? 0) eqn:Ed; cbn [negb]; [|intros H; rewrite H in Ed; discriminate].
  apply Z.eqb_eq in Ed.
  destruct (s_line s =? t_line t) eqn:El; cbn [negb]; [|discriminate].
  destruct (s_col s =? t_col t) eqn:Ec; cbn [negb]; [|discriminate]. intros _.
  apply Z.eqb_eq in El, Ec. split; [exact Ek|]. split; [symmetry; exact El|]. split; [symmetry; exact Ec|].
  subst d. rewrite Ek in Ed. destruct (s_kind s); cbn [kind_of] in Ed;
    try (destruct (zlist_eqb (s_raw s) (t_data t)) eqn:Er; [apply zlist_eqb_eq in Er; symmetry; exact Er | discriminate]).
  - (* string *)
    destruct (zlist_eqb (s_text s) (tok_str_value t)) eqn:Et; cbn [negb] in Ed; [|discriminate].
    apply zlist_eqb_eq in Et. split; [symmetry; exact Et|].
    destruct (s_long s <? 0).
    + destruct (zlist_eqb (t_quote t) (firstn 1 (s_raw s)) && opt_list_eqb (t_ml t) None) eqn:Eq; [|discriminate].
      apply andb_true_iff in Eq. destruct Eq as [E1 E2]. apply zlist_eqb_eq in E1. apply opt_list_eqb_eq in E2. tauto.
    + destruct (opt_list_eqb (t_ml t) (Some (repeat 61 (Z.to_nat (s_long s))))) eqn:Em; cbn [negb] in Ed; [|discriminate].
      apply opt_list_eqb_eq in Em.
      destruct (zlist_eqb (s_raw s) _) eqn:Er in Ed; [|discriminate]. apply zlist_eqb_eq in Er. tauto.
  - (* number *)
    destruct (zlist_eqb (s_raw s) (t_data t)) eqn:Er; cbn [negb] in Ed; [|discriminate].
    apply zlist_eqb_eq in Er. split; [symmetry; exact Er|].
    destruct (tok_value (t_data t)) as [[n dd]|e]; [|discriminate].
    destruct ((0 <? dd) && (Z.abs (n * s_den s - s_num s * dd) * 2 ^ 53 <=? Z.abs (s_num s * dd))) eqn:Ev; [|discriminate].
    exists n, dd. split; [reflexivity|]. lia.
Qed.

Lemma agree_code s t : agree s t -> (t_kind t, tok_code t) = (kind_of (s_kind s), spec_code s).
Proof.
  intros H. destruct (agree_fields s t H) as (Hk & _ & _ & Hf). f_equal; [exact Hk|].
  unfold tok_code, spec_code. rewrite Hk. destruct (s_kind s); cbn [kind_of]; try exact Hf.
  - destruct Hf as [Hv Hf]. unfold tok_str_value in Hv. destruct (s_long s <? 0).
    + destruct Hf as [Hq Hm]. rewrite Hm in *. rewrite Hq, Hv. reflexivity.
    + destruct Hf as [Hm Hr]. rewrite Hm. symmetry. exact Hr.
  - destruct Hf as [Hd _]. exact Hd.
Qed.

(* for the writers: every source of the dialect, given as one chunk, is lexed, and the classes and codes of
   the tokens are those of the reference tokens *)
Theorem lex_agrees_code src ss : Forall byte src -> spec_lex src = Some ss ->
  exists ts, model_lex [src] = Ok ts /\
    map (fun t => (t_kind t, tok_code t)) ts = map (fun s => (kind_of (s_kind s), spec_code s)) ss /\
    Forall2 agree ss ts.
Proof.
  intros HB H. destruct (lex_agrees src ss HB H) as (ts & Hm & Hag). exists ts. split; [exact Hm|]. split; [|exact Hag].
  clear -Hag. induction Hag as [|s t ss ts Hst _ IH]; [reflexivity|]. cbn [map]. rewrite IH, (agree_code s t Hst). reflexivity.
Qed.
Print Assumptions lex_agrees_code.

(* ---------- Lua.get_token_count on the model's tokens = the counting rule on the reference tokens *)
Lemma kw_lower_sweep : forallb (fun k => zlist_eqb (map (fun c => if (65 <=? c) && (c <=? 90) then c + 32 else c) k) k) spec_keywords = true.
Proof. vm_compute. reflexivity. Qed.

Lemma token_weight_agree s t : agree s t -> In (s_raw s) spec_keywords \/ s_kind s <> SKeyword ->
  token_weight t = spec_token_weight_e s.
Proof.
  intros H Hkw. destruct (agree_fields s t H) as (Hk & _ & _ & Hf).
  unfold token_weight, is_free_token, spec_token_weight_e, spec_token_weight. rewrite Hk.
  destruct (s_kind s) eqn:K; cbn [kind_of]; try reflexivity.
  - (* number *) destruct Hf as [Hd _]. rewrite Hd. unfold mem_byte. reflexivity.
  - (* keyword *)
    rewrite Hf. destruct Hkw as [Hin|N]; [|congruence].
    pose proof kw_lower_sweep as Sw. rewrite forallb_forall in Sw. specialize (Sw _ Hin). apply zlist_eqb_eq in Sw. rewrite Sw.
    unfold mem_bytes, free_keywords. cbn [existsb]. rewrite !orb_false_r.
    destruct (zlist_eqb (s_raw s) (bs_ "local") || zlist_eqb (s_raw s) (bs_ "end")) eqn:E;
      change [108; 111; 99; 97; 108] with (bs_ "local"); change [101; 110; 100] with (bs_ "end"); rewrite E; reflexivity.
  - (* symbol *)
    rewrite Hf. unfold mem_bytes, free_symbols. cbn [existsb]. rewrite !orb_false_r.
    change [58] with (bs_ ":"); change [46] with (bs_ "."); change [41] with (bs_ ")"); change [93] with (bs_ "]");
      change [125] with (bs_ "}").
    destruct (zlist_eqb (s_raw s) (bs_ ":") || zlist_eqb (s_raw s) (bs_ ".") || zlist_eqb (s_raw s) (bs_ ")")
              || zlist_eqb (s_raw s) (bs_ "]") || zlist_eqb (s_raw s) (bs_ "}")); reflexivity.
Qed.
