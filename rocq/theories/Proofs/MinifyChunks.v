(* C01 / C19 for sources that reach the lexer as chunk lists (the .p8 reader and Lua.from_lines feed lines; build.py
   feeds the prepended package lines, possibly with a separate newline line): everything that Proofs/MinifyEndToEnd.v
   and MinifyCount.v prove for one chunk, for every chunk list on which the lexer model gives what it gives on the
   concatenated text - in particular lines ending after line feeds (LexerChunk.model_lex_chunking) and the line lists
   of LexerChunkNl.chunk_ok. *)
From PV Require Import Base.Prelude Spec.LuaLex Instances.HoldsC02 Instances.HoldsC01
  Generated.T_lexer Generated.T_luanames Model.NameFactory Model.Lexer Model.TokWriters
  Proofs.LuaLexFacts Proofs.TokWritersProofs Proofs.MinifyRelex Proofs.MinifyRelations Proofs.MinifyEndToEnd Proofs.MinifyCount.
From PV Require Proofs.LexerChunk Proofs.LexerChunkNl.

(* the condition: chunk-wise lexing = whole-text lexing *)
Definition same_as_joined (ls : list (list Z)) : Prop := model_lex ls = model_lex [concat ls].

Lemma lines_same_as_joined ls : Forall LexerChunk.ends_lf (removelast ls) -> same_as_joined ls.
Proof. apply LexerChunk.model_lex_chunking. Qed.

Lemma chunk_ok_same_as_joined ls : LexerChunkNl.chunk_ok ls -> same_as_joined ls.
Proof. apply LexerChunkNl.chunk_ok_model_lex. Qed.

Lemma luamin_text_joined cfg ls : same_as_joined ls -> luamin_text cfg ls = luamin_text cfg [concat ls].
Proof. intros H. unfold luamin_text. rewrite H. reflexivity. Qed.

Theorem luamin_chunks cfg ls ss : same_as_joined ls -> Forall byte (concat ls) -> spec_toks (concat ls) = Some ss ->
  exists out, luamin_text cfg ls = Ok out /\ holds_C01 (concat ls) out = true /\ holds_C19 (concat ls) out = true.
Proof. intros Hl HB H. rewrite (luamin_text_joined cfg ls Hl). apply (luamin_end_to_end cfg (concat ls) ss HB H). Qed.

Theorem luamin_chunks_all cfg ls out : same_as_joined ls -> Forall byte (concat ls) -> luamin_text cfg ls = Ok out ->
  holds_C01 (concat ls) out = true /\ holds_C19 (concat ls) out = true.
Proof. intros Hl HB H. rewrite (luamin_text_joined cfg ls Hl) in H. apply (luamin_holds_all cfg (concat ls) out HB H). Qed.

Theorem luamin_chunks_count cfg ls ss : same_as_joined ls -> Forall byte (concat ls) -> spec_toks (concat ls) = Some ss ->
  exists ts out ts', model_lex ls = Ok ts /\ luamin_text cfg ls = Ok out /\ model_lex [out] = Ok ts' /\
    token_count ts' = token_count ts.
Proof.
  intros Hl HB H. rewrite (luamin_text_joined cfg ls Hl). unfold same_as_joined in Hl. rewrite Hl.
  apply (luamin_stats_count cfg (concat ls) ss HB H).
Qed.

Theorem luamin_chunks_identifiers cfg ls ss : same_as_joined ls -> Forall byte (concat ls) -> spec_toks (concat ls) = Some ss ->
  exists out ss', luamin_text cfg ls = Ok out /\ spec_toks out = Some ss' /\
    length (sig_toks ss') = length (sig_toks ss) /\
    holds_C02 (keep_all cfg) (keep_list cfg) preserved_names
      (ident_names (sig_toks ss)) (ident_names (sig_toks ss')) = true.
Proof. intros Hl HB H. rewrite (luamin_text_joined cfg ls Hl). apply (luamin_identifiers cfg (concat ls) ss HB H). Qed.

(* the full relational statement of C01 and the header statement of C19, from the chunks *)
Theorem luamin_chunks_preserves cfg ls ss : same_as_joined ls -> Forall byte (concat ls) -> spec_toks (concat ls) = Some ss ->
  exists ts chunks ss', model_lex ls = Ok ts /\ minify cfg ts = Ok chunks /\ luamin_text cfg ls = Ok (concat chunks) /\
    spec_toks (concat chunks) = Some ss'
    /\ all2 same_view (sig_toks ss) (sig_toks ss') = true
    /\ run_factory cfg (ident_names (sig_toks ss)) = Ok (ident_names (sig_toks ss'))
    /\ line_groups ss' = line_groups ss
    /\ spec_count ss' = spec_count ss.
Proof.
  intros Hl HB H. destruct (lexer_agrees_model _ _ HB H) as (ts & Hm & Ha).
  destruct (minify_total cfg ts) as (chunks & Hc).
  destruct (luamin_preserves cfg _ ss ts chunks H Ha Hc) as (ss' & P1 & P2 & P3 & P4 & P5).
  unfold same_as_joined in Hl. exists ts, chunks, ss'. split; [rewrite Hl; exact Hm|]. split; [exact Hc|].
  split; [unfold luamin_text; rewrite Hl, Hm; cbn [bind]; rewrite Hc; reflexivity|]. repeat split; assumption.
Qed.

Theorem luamin_chunks_header cfg ls ss : same_as_joined ls -> Forall byte (concat ls) -> spec_toks (concat ls) = Some ss ->
  exists out ss' rest body, luamin_text cfg ls = Ok out /\ spec_toks out = Some ss'
    /\ out = header_text (firstn 2 (leading_comments ss)) ++ body
    /\ after_header (firstn 2 (leading_comments ss)) ss' = Some rest /\ no_comments rest = true
    /\ titles_ok ss ss' = true
    /\ length (sig_toks ss') = length (sig_toks ss).
Proof.
  intros Hl HB H. destruct (lexer_agrees_model _ _ HB H) as (ts & Hm & Ha).
  destruct (minify_total cfg ts) as (chunks & Hc).
  destruct (luamin_header_text cfg _ ss ts chunks H Ha Hc) as (ss' & rest & body & P1 & P2 & P3 & P4 & P5 & P6).
  unfold same_as_joined in Hl. exists (concat chunks), ss', rest, body.
  split; [unfold luamin_text; rewrite Hl, Hm; cbn [bind]; rewrite Hc; reflexivity|]. repeat split; assumption.
Qed.

(* a decidable form of the premise, for examples *)
Lemma ends_lf_check ls :
  forallb (fun l => match rev l with 10 :: _ => true | _ => false end) (removelast ls) = true ->
  Forall LexerChunk.ends_lf (removelast ls).
Proof.
  intros H. apply Forall_forall. intros x Hx. rewrite forallb_forall in H. specialize (H x Hx).
  destruct (rev x) as [|c r] eqn:E; [discriminate|]. exists (rev r). rewrite <- (rev_involutive x), E. cbn [rev].
  destruct c as [|p|p]; try discriminate. do 4 (destruct p as [p|p|]; try discriminate). reflexivity.
Qed.
