(* Source pins of pico8/tool.py: the command line wiring.
   WRITTEN BY gen/mkpins.py (developer step) from the sources the hand-written model was compared with;
   each lemma fails when the function it names has been edited since (digest of ast.unparse, docstrings
   dropped; regenerated on every run into Generated/T_pins_tool.v). *)
From Coq Require Import ZArith List.
Import ListNotations.
Open Scope Z_scope.
From PV Require Import Generated.T_pins_tool.

Lemma pin__mod___games_for_filenames_ok : pin__mod___games_for_filenames = [161; 233; 84; 206; 189; 172; 228; 106].
Proof. reflexivity. Qed.
Lemma pin__mod___as_friendly_string_ok : pin__mod___as_friendly_string = [247; 154; 89; 67; 161; 25; 71; 112].
Proof. reflexivity. Qed.
Lemma pin__mod__stats_ok : pin__mod__stats = [186; 108; 134; 99; 108; 134; 149; 22].
Proof. reflexivity. Qed.
Lemma pin__mod__listlua_ok : pin__mod__listlua = [68; 203; 91; 242; 50; 25; 167; 141].
Proof. reflexivity. Qed.
Lemma pin__mod__listrawlua_ok : pin__mod__listrawlua = [18; 126; 202; 63; 196; 188; 249; 8].
Proof. reflexivity. Qed.
Lemma pin__mod__listtokens_ok : pin__mod__listtokens = [50; 168; 147; 155; 254; 238; 71; 251].
Proof. reflexivity. Qed.
Lemma pin__mod__process_game_files_ok : pin__mod__process_game_files = [21; 214; 162; 205; 158; 204; 43; 125].
Proof. reflexivity. Qed.
Lemma pin__mod__writep8_ok : pin__mod__writep8 = [166; 171; 80; 72; 170; 120; 149; 11].
Proof. reflexivity. Qed.
Lemma pin__mod__luamin_ok : pin__mod__luamin = [19; 175; 50; 197; 189; 188; 252; 107].
Proof. reflexivity. Qed.
Lemma pin__mod__luafmt_ok : pin__mod__luafmt = [77; 67; 65; 151; 83; 135; 64; 3].
Proof. reflexivity. Qed.
Lemma pin__mod___printast_node_ok : pin__mod___printast_node = [164; 212; 101; 69; 1; 65; 24; 182].
Proof. reflexivity. Qed.
Lemma pin__mod__printast_ok : pin__mod__printast = [89; 61; 200; 109; 106; 134; 220; 246].
Proof. reflexivity. Qed.
Lemma pin__mod__luafind_ok : pin__mod__luafind = [131; 67; 31; 43; 230; 110; 94; 89].
Proof. reflexivity. Qed.
Lemma pin__mod__do_writep8_ok : pin__mod__do_writep8 = [233; 86; 68; 203; 61; 100; 35; 79].
Proof. reflexivity. Qed.
Lemma pin__mod__do_luamin_ok : pin__mod__do_luamin = [114; 43; 15; 36; 65; 175; 218; 26].
Proof. reflexivity. Qed.
Lemma pin__mod__do_luafmt_ok : pin__mod__do_luafmt = [25; 4; 46; 192; 233; 51; 219; 229].
Proof. reflexivity. Qed.
Lemma pin__mod___get_argparser_ok : pin__mod___get_argparser = [106; 129; 217; 75; 218; 42; 70; 148].
Proof. reflexivity. Qed.
Lemma pin__mod__main_ok : pin__mod__main = [159; 181; 77; 57; 136; 175; 30; 88].
Proof. reflexivity. Qed.

(* no function was added to or removed from the pinned classes *)
Lemma pin_names__tool_ok : pin_names__tool =
  [[112; 105; 110; 95; 95; 109; 111; 100; 95; 95; 95; 103; 97; 109; 101; 115; 95; 102; 111; 114; 95; 102; 105; 108; 101; 110; 97; 109; 101; 115]; [112; 105; 110; 95; 95; 109; 111; 100; 95; 95; 95; 97; 115; 95; 102; 114; 105; 101; 110; 100; 108; 121; 95; 115; 116; 114; 105; 110; 103]; [112; 105; 110; 95; 95; 109; 111; 100; 95; 95; 115; 116; 97; 116; 115]; [112; 105; 110; 95; 95; 109; 111; 100; 95; 95; 108; 105; 115; 116; 108; 117; 97]; [112; 105; 110; 95; 95; 109; 111; 100; 95; 95; 108; 105; 115; 116; 114; 97; 119; 108; 117; 97]; [112; 105; 110; 95; 95; 109; 111; 100; 95; 95; 108; 105; 115; 116; 116; 111; 107; 101; 110; 115]; [112; 105; 110; 95; 95; 109; 111; 100; 95; 95; 112; 114; 111; 99; 101; 115; 115; 95; 103; 97; 109; 101; 95; 102; 105; 108; 101; 115]; [112; 105; 110; 95; 95; 109; 111; 100; 95; 95; 119; 114; 105; 116; 101; 112; 56]; [112; 105; 110; 95; 95; 109; 111; 100; 95; 95; 108; 117; 97; 109; 105; 110]; [112; 105; 110; 95; 95; 109; 111; 100; 95; 95; 108; 117; 97; 102; 109; 116]; [112; 105; 110; 95; 95; 109; 111; 100; 95; 95; 95; 112; 114; 105; 110; 116; 97; 115; 116; 95; 110; 111; 100; 101]; [112; 105; 110; 95; 95; 109; 111; 100; 95; 95; 112; 114; 105; 110; 116; 97; 115; 116]; [112; 105; 110; 95; 95; 109; 111; 100; 95; 95; 108; 117; 97; 102; 105; 110; 100]; [112; 105; 110; 95; 95; 109; 111; 100; 95; 95; 100; 111; 95; 119; 114; 105; 116; 101; 112; 56]; [112; 105; 110; 95; 95; 109; 111; 100; 95; 95; 100; 111; 95; 108; 117; 97; 109; 105; 110]; [112; 105; 110; 95; 95; 109; 111; 100; 95; 95; 100; 111; 95; 108; 117; 97; 102; 109; 116]; [112; 105; 110; 95; 95; 109; 111; 100; 95; 95; 95; 103; 101; 116; 95; 97; 114; 103; 112; 97; 114; 115; 101; 114]; [112; 105; 110; 95; 95; 109; 111; 100; 95; 95; 109; 97; 105; 110]].
Proof. reflexivity. Qed.
