(* C14, packages embedded WITHOUT their game loop (the default): the lexer-stack half.
   strip_lua = remove the token ranges of the game-loop statements (last one first, each replaced by one space token),
   write the codes out, lex and parse again.  For a package file of the reference dialect the re-lexed text is in the
   dialect, its echoed lines are bytes ending in LF, and its significant token views are those of the file's tokens
   outside the removed ranges (StripRelex.cuts_sig_views) - relative to ONE hypothesis about the ranges
   (ranges_ok: each range is non-empty, lies below the previous one, and starts at a word token), which is a
   statement about the parser's statement ranges. *)
From PV Require Import Base.Prelude Spec.LuaLex Instances.HoldsC01 Instances.HoldsC06 Generated.T_lexer Generated.T_require
  Model.Lexer Model.Tokens Model.Parser Model.EchoWriter Proofs.LexerProofs Proofs.LexerChunk Proofs.LexerView Proofs.EchoProofs Proofs.LuaLexFacts
  Model.ReqEmbed Model.ReqEmbedInst Proofs.ReqEmbedProofs Proofs.ReqEmbedInstProofs Proofs.SpecLexChunk
  Proofs.ReqEmbedEchoGood Proofs.ReqEmbedSpecTokens Proofs.SpecLexCut Proofs.StripRelex.
Close Scope pm_scope.

(* ---------- the ranges strip_stats cuts, in the order it cuts them ---------- *)
Fixpoint strip_ranges (stats_rev : list tree) (ts : list tok) : result (list (nat * nat)) :=
  match stats_rev with
  | [] => Ok []
  | s :: r =>
    if is_game_loop_stat s then
      match start_of s, end_of s with
      | Some a, Some b =>
        a' <- skip_trivia (skipn (Z.to_nat a) ts) a ;;
        rest <- strip_ranges r (splice ts a' b) ;;
        Ok ((Z.to_nat a', Z.to_nat (Z.max a' b)) :: rest)
      | _, _ => Err AttributeError
      end
    else strip_ranges r ts
  end.

Lemma strip_stats_cuts stats : forall ts,
  strip_stats stats ts = (r <- strip_ranges stats ts ;; Ok (cuts space_tok ts r)).
Proof.
  induction stats as [|s r IH]; intros ts; [reflexivity|]. cbn [strip_stats strip_ranges].
  destruct (is_game_loop_stat s); [|apply IH].
  destruct (start_of s) as [a|]; [|reflexivity]. destruct (end_of s) as [b|]; [|reflexivity].
  destruct (skip_trivia (skipn (Z.to_nat a) ts) a) as [a'|e]; [|reflexivity]. cbn [bind]. rewrite IH.
  destruct (strip_ranges r (splice ts a' b)) as [rest|e]; reflexivity.
Qed.

(* ---------- the echoed lines of a token list whose newline codes end in LF ---------- *)
Definition tok_good (t : tok) : Prop := (t_kind t = KNewline -> ends_lf (tok_code t)) /\ Forall byte (tok_code t).

Lemma echo_toks_good ts : Forall tok_good ts -> good_lines (echo_toks ts [] false).
Proof.
  intros H. rewrite echo_toks_pairs. split.
  - apply echo_pairs_lf. rewrite Forall_map. eapply Forall_impl; [|exact H]. intros t [Hn _]. exact Hn.
  - rewrite echo_pairs_concat by reflexivity. cbn [app]. rewrite map_map. cbn [snd]. apply Forall_concat. rewrite Forall_map.
    eapply Forall_impl; [|exact H]. intros t [_ Hb]. exact Hb.
Qed.

Lemma Forall_firstn' {A} (P : A -> Prop) n l : Forall P l -> Forall P (firstn n l).
Proof. intros H. apply Forall_forall. intros x Hx. rewrite Forall_forall in H. apply H. eapply In_firstn, Hx. Qed.
Lemma Forall_skipn' {A} (P : A -> Prop) n l : Forall P l -> Forall P (skipn n l).
Proof. intros H. apply Forall_forall. intros x Hx. rewrite Forall_forall in H. apply H. eapply In_skipn, Hx. Qed.

Lemma Forall_cuts {A} (P : A -> Prop) sp ranges : P sp -> forall l, Forall P l -> Forall P (cuts sp l ranges).
Proof.
  intros Hsp. induction ranges as [|[a b] r IH]; intros l Hl; [exact Hl|]. cbn [cuts]. apply IH. unfold cut1.
  apply Forall_app. split; [apply Forall_firstn', Hl|]. constructor; [exact Hsp | apply Forall_skipn', Hl].
Qed.

Lemma dialect_toks_good c ss0 ts : Forall byte c -> spec_lex c = Some ss0 -> model_lex [c] = Ok ts -> Forall tok_good ts.
Proof.
  intros HB Es Hm. destruct (lex_agrees_code c ss0 HB Es) as (ts' & Hm' & Hcodes & _). rewrite Hm in Hm'. injection Hm' as <-.
  assert (Hc : chain c (map unpos ss0)) by (apply (spec_toks_chain c); unfold HoldsC01.spec_toks; rewrite Es; reflexivity).
  pose proof (chain_newlines _ _ Hc) as Hnl. pose proof (chain_raw_bytes _ _ Hc HB) as Hrb.
  pose proof (spec_lex_qs _ _ HB Es) as Hqs.
  rewrite Forall_map in Hnl, Hrb. cbn [unpos s_kind s_raw] in Hnl, Hrb.
  clear Hm Hc Es. revert ts Hcodes. induction ss0 as [|s ss IH]; intros ts Hcodes; destruct ts as [|t ts]; try discriminate; [constructor|].
  cbn [map] in Hcodes. injection Hcodes as Hk Hcode Hrest.
  inversion Hnl; subst. inversion Hrb; subst. inversion Hqs; subst.
  constructor; [|apply IH; assumption]. split.
  - intros K. rewrite Hk in K. apply kind_of_newline in K. rewrite Hcode. unfold spec_code. rewrite K.
    match goal with H : s_kind s = SNewline -> _ |- _ => destruct (H K) as [-> | ->] end; [exists [] | exists [13]]; reflexivity.
  - rewrite Hcode. apply spec_code_bytes; assumption.
Qed.

Lemma space_tok_code : tok_code space_tok = [32].
Proof. reflexivity. Qed.

Lemma space_tok_good : tok_good space_tok.
Proof. split; [discriminate|]. rewrite space_tok_code. constructor; [unfold byte; lia | constructor]. Qed.

(* ---------- THE statement for one package embedded without its game loop ---------- *)
Theorem stripped_pkg c ss0 q q' ranges :
  Forall byte c -> spec_lex c = Some ss0 -> from_lines (file_lines c) = Ok q -> strip_lua q = Ok q' ->
  strip_ranges (rev' (root_stats (l_root q))) (l_toks q) = Ok ranges ->
  ranges_ok (map recode (map unpos ss0)) (length (map unpos ss0)) ranges ->
  sig_views (concat (ReqEmbedInst.echo_lines q')) = Some (map tview (nontriv (drops (map unpos ss0) ranges))) /\
  good_lines (ReqEmbedInst.echo_lines q').
Proof.
  intros HB Es Hq Hstrip Hrng Hok.
  pose proof (from_lines_model_lex _ _ Hq) as Hm.
  pose proof (file_lines_good c HB) as [Hg _]. rewrite (model_lex_chunking _ Hg), file_lines_concat in Hm.
  unfold strip_lua in Hstrip. rewrite strip_stats_cuts, Hrng in Hstrip. cbn [bind] in Hstrip.
  set (ts' := cuts space_tok (l_toks q) ranges) in *. set (lines := echo_toks ts' [] false) in *.
  pose proof (dialect_toks_good c ss0 _ HB Es Hm) as Hgood.
  assert (Hlines : good_lines lines) by (apply echo_toks_good, Forall_cuts; [exact space_tok_good | exact Hgood]).
  assert (Hcat : concat lines = concat (cuts [32] (map spec_code (map unpos ss0)) ranges)).
  { unfold lines. rewrite echo_toks_concat by reflexivity. cbn [app]. unfold ts'. rewrite map_cuts, space_tok_code. f_equal. f_equal.
    destruct (lex_agrees_code c ss0 HB Es) as (ts0 & Hm0 & Hcodes & _). rewrite Hm in Hm0. injection Hm0 as <-.
    apply (f_equal (map snd)) in Hcodes. rewrite !map_map in Hcodes. cbn [snd] in Hcodes. rewrite map_map.
    etransitivity; [exact Hcodes|]. apply map_ext. intros s. reflexivity. }
  pose proof (cuts_sig_views c ss0 ranges HB Es Hok) as Hv. cbv zeta in Hv. rewrite <- Hcat in Hv.
  split.
  - exact (echo_views lines q' _ Hlines Hstrip Hv).
  - unfold ReqEmbedInst.echo_lines. apply (dialect_echo_good lines); [exact Hlines | | apply from_lines_model_lex, Hstrip].
    unfold sig_views, HoldsC01.spec_toks in Hv. destruct (spec_lex (concat lines)); [discriminate | discriminate].
Qed.
Print Assumptions stripped_pkg.

(* a decidable form of the hypothesis about the ranges *)
Fixpoint ranges_okb (rs : list stok) (p : nat) (ranges : list (nat * nat)) : bool :=
  match ranges with
  | [] => true
  | (a, b) :: r =>
    Nat.ltb a b && Nat.leb b p &&
    match nth_error rs a with Some k => is_name_start (hd 0 (s_raw k)) | None => false end &&
    ranges_okb rs (bound_after rs a) r
  end.

Lemma ranges_okb_ok rs ranges : forall p, ranges_okb rs p ranges = true -> ranges_ok rs p ranges.
Proof.
  induction ranges as [|[a b] r IH]; intros p H; [exact I|]. cbn [ranges_okb] in H.
  apply andb_true_iff in H. destruct H as [H H4]. apply andb_true_iff in H. destruct H as [H H3].
  apply andb_true_iff in H. destruct H as [H1 H2]. apply Nat.ltb_lt in H1. apply Nat.leb_le in H2.
  cbn [ranges_ok]. split; [exact H1|]. split; [exact H2|]. split; [|apply IH, H4].
  destruct (nth_error rs a) as [k|]; [|discriminate]. exists k. split; [reflexivity | exact H3].
Qed.

(* with the second half of the parser's obligation - the tokens outside the ranges are those the reference
   description keeps - the package's tokens are the file's tokens minus the top-level game-loop definitions *)
From PV Require Spec.RequireSpec.
Theorem stripped_pkg_spec c ss0 q q' ranges :
  Forall byte c -> spec_lex c = Some ss0 -> from_lines (file_lines c) = Ok q -> strip_lua q = Ok q' ->
  strip_ranges (rev' (root_stats (l_root q))) (l_toks q) = Ok ranges ->
  ranges_ok (map recode (map unpos ss0)) (length (map unpos ss0)) ranges ->
  nontriv (drops (map unpos ss0) ranges) = RequireSpec.spec_strip (nontriv (map unpos ss0)) ->
  sig_views (concat (ReqEmbedInst.echo_lines q')) = Some (map tview (RequireSpec.spec_strip (nontriv (map unpos ss0)))) /\
  good_lines (ReqEmbedInst.echo_lines q').
Proof.
  intros HB Es Hq Hs Hr Hok Hsem. rewrite <- Hsem. exact (stripped_pkg c ss0 q q' ranges HB Es Hq Hs Hr Hok).
Qed.
