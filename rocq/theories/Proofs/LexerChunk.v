(* C07_chunking: tokenisation does not depend on whether the text arrives as one chunk or split after line
   feeds.  "The line feed is a hard boundary": no single-line matcher consumes or looks past a line feed
   (except the newline matchers, which end with it), and the three multi-line scanners are compositional
   at a line feed.  Every lexer state, every input (also outside the reference dialect). *)
From PV Require Import Base.Prelude Generated.T_lexer Model.Lexer Proofs.LexerProofs Proofs.LexerInv Proofs.LexerSpec Proofs.LexerAgree.
From Coq Require Import ZifyBool.

Definition ends_lf (s : list Z) : Prop := exists a, s = a ++ [10].

Lemma ends_lf_ne s : ends_lf s -> s <> [].
Proof. intros [a ->]. destruct a; discriminate. Qed.

Lemma ends_lf_suffix x : forall y, ends_lf (x ++ y) -> y <> [] -> ends_lf y.
Proof.
  intros y [a E] Hy. destruct (exists_last Hy) as (y' & z & ->).
  rewrite app_assoc in E. apply app_inj_tail in E. destruct E as [_ ->]. exists y'. reflexivity.
Qed.

Lemma ends_lf_tl c s : ends_lf (c :: s) -> s <> [] -> ends_lf s.
Proof. intros H. apply (ends_lf_suffix [c] s H). Qed.

Lemma ends_lf_single c : ends_lf [c] -> c = 10.
Proof. intros [a E]. destruct a as [|x a]; [inversion E; reflexivity | destruct a; discriminate]. Qed.

(* a chunk that ends with LF and starts with another byte has a tail that ends with LF *)
Lemma ends_lf_tl_ne c s : ends_lf (c :: s) -> c <> 10 -> ends_lf s.
Proof.
  intros H N. apply (ends_lf_tl c s H). intros ->. apply ends_lf_single in H. congruence.
Qed.

Definition map_rest (r : list Z) (o : option (list Z * list Z)) : option (list Z * list Z) :=
  match o with Some (x, y) => Some (x, y ++ r) | None => None end.

(* ---------- primitives *)
Lemma tw_local p : p 10 = false -> forall s r, ends_lf s ->
  take_while p (s ++ r) = (fst (take_while p s), snd (take_while p s) ++ r) /\ ends_lf (snd (take_while p s)).
Proof.
  intros Hp s r. induction s as [|c s IH]; intros He; [destruct (ends_lf_ne _ He eq_refl)|].
  cbn [app take_while]. destruct (p c) eqn:Pc.
  - assert (N : c <> 10) by (intros ->; congruence).
    destruct (IH (ends_lf_tl_ne _ _ He N)) as [E1 E2]. rewrite E1.
    destruct (take_while p s) as [a b]. cbn [fst snd] in *. split; [reflexivity | exact E2].
  - cbn [fst snd]. split; [reflexivity | exact He].
Qed.

Lemma dp_local lit : forall s r, ~ In 10 (removelast lit) -> ends_lf s ->
  drop_prefix lit (s ++ r) = match drop_prefix lit s with Some y => Some (y ++ r) | None => None end.
Proof.
  induction lit as [|x lit IH]; intros s r Hn He; [reflexivity|].
  destruct s as [|c s]; [destruct (ends_lf_ne _ He eq_refl)|]. cbn [app drop_prefix].
  destruct (Z.eqb_spec x c) as [<-|N]; [|reflexivity].
  destruct lit as [|y lit]; [reflexivity|].
  assert (Nx : x <> 10) by (intros ->; apply Hn; left; reflexivity).
  apply IH; [intros Hin; apply Hn; right; exact Hin | apply (ends_lf_tl_ne _ _ He Nx)].
Qed.

Lemma dp_ends lit : forall s y, ~ In 10 lit -> ends_lf s -> drop_prefix lit s = Some y -> ends_lf y.
Proof.
  induction lit as [|x lit IH]; intros s y Hn He H; cbn [drop_prefix] in H.
  - inversion H; subst. exact He.
  - destruct s as [|c s]; [discriminate|]. destruct (Z.eqb_spec x c) as [<-|N]; [|discriminate].
    assert (Nx : x <> 10) by (intros ->; apply Hn; left; reflexivity).
    apply (IH s y); [intros Hin; apply Hn; right; exact Hin | apply (ends_lf_tl_ne _ _ He Nx) | exact H].
Qed.

Lemma removelast_sub {A} (l : list A) x : In x (removelast l) -> In x l.
Proof.
  induction l as [|a l IH]; [intros []|]. cbn [removelast]. destruct l as [|b l]; [intros []|].
  intros [->|H]; [left; reflexivity | right; apply IH; exact H].
Qed.

Lemma hd_is_app k s r : s <> [] -> hd_is k (s ++ r) = hd_is k s.
Proof. destruct s; [congruence | reflexivity]. Qed.

Lemma tl_app s (r : list Z) : s <> [] -> tl (s ++ r) = tl s ++ r.
Proof. destruct s; [congruence | reflexivity]. Qed.

(* locality of a scanner: on a text that ends with LF, appending more text only extends the rest *)
Definition Loc (f : list Z -> option (list Z * list Z)) : Prop :=
  forall s r, ends_lf s -> f (s ++ r) = map_rest r (f s).

Lemma tw1_local p : p 10 = false -> forall s r, ends_lf s ->
  take_while1 p (s ++ r) = map_rest r (take_while1 p s) /\
  (forall a b, take_while1 p s = Some (a, b) -> ends_lf b).
Proof.
  intros Hp s r He. unfold take_while1. destruct (tw_local p Hp s r He) as [E1 E2]. rewrite E1.
  destruct (take_while p s) as [a b]. cbn [fst snd] in *. split.
  - destruct (is_nil a); reflexivity.
  - intros a' b' H. destruct (is_nil a); [discriminate|]. inversion H; subst. exact E2.
Qed.

Lemma hd_is_tl_ends k s : k <> 10 -> ends_lf s -> hd_is k s = true -> ends_lf (tl s).
Proof.
  intros Nk He H. destruct s as [|c s]; [discriminate|]. cbn [hd_is] in H. apply Z.eqb_eq in H. subst c.
  cbn [tl]. apply (ends_lf_tl_ne _ _ He Nk).
Qed.

Lemma opt_frac_local p : p 10 = false -> forall s r, ends_lf s ->
  opt_frac p (s ++ r) = (fst (opt_frac p s), snd (opt_frac p s) ++ r) /\ ends_lf (snd (opt_frac p s)).
Proof.
  intros Hp s r He. unfold opt_frac. rewrite (hd_is_app 46 s r (ends_lf_ne _ He)).
  destruct (hd_is 46 s) eqn:H46; [|split; [reflexivity | exact He]].
  rewrite (tl_app s r (ends_lf_ne _ He)).
  pose proof (hd_is_tl_ends 46 s ltac:(lia) He H46) as Ht.
  destruct (tw1_local p Hp (tl s) r Ht) as [E1 E2]. rewrite E1.
  destruct (take_while1 p (tl s)) as [[a b]|] eqn:T; cbn [map_rest fst snd].
  - split; [reflexivity | apply (E2 a b eq_refl)].
  - split; [reflexivity | exact He].
Qed.

Lemma opt_exp_local : forall s r, ends_lf s ->
  opt_exp (s ++ r) = (fst (opt_exp s), snd (opt_exp s) ++ r) /\ ends_lf (snd (opt_exp s)).
Proof.
  intros s r He. destruct s as [|e s']; [destruct (ends_lf_ne _ He eq_refl)|]. cbn [app]. unfold opt_exp.
  destruct ((e =? 101) || (e =? 69)) eqn:Ce; [|split; [reflexivity | exact He]].
  assert (Ne : e <> 10) by lia. pose proof (ends_lf_tl_ne _ _ He Ne) as Hs'.
  rewrite (hd_is_app 45 s' r (ends_lf_ne _ Hs')).
  destruct (hd_is 45 s') eqn:H45.
  - rewrite (tl_app s' r (ends_lf_ne _ Hs')).
    pose proof (hd_is_tl_ends 45 s' ltac:(lia) Hs' H45) as Ht.
    destruct (tw1_local m_digit eq_refl (tl s') r Ht) as [E1 E2]. rewrite E1.
    destruct (take_while1 m_digit (tl s')) as [[a b]|] eqn:T; cbn [map_rest fst snd].
    + split; [reflexivity | apply (E2 a b eq_refl)].
    + split; [reflexivity | exact He].
  - destruct (tw1_local m_digit eq_refl s' r Hs') as [E1 E2]. rewrite E1.
    destruct (take_while1 m_digit s') as [[a b]|] eqn:T; cbn [map_rest fst snd].
    + split; [reflexivity | apply (E2 a b eq_refl)].
    + split; [reflexivity | exact He].
Qed.

Lemma num_prefix_local l u : l <> 10 -> u <> 10 -> forall s r, ends_lf s ->
  num_prefix l u (s ++ r) = map_rest r (num_prefix l u s) /\
  (forall a b, num_prefix l u s = Some (a, b) -> ends_lf b).
Proof.
  intros Nl Nu s r He. unfold num_prefix. destruct s as [|z [|x s'']].
  - destruct (ends_lf_ne _ He eq_refl).
  - apply ends_lf_single in He. subst z. cbn [app]. split; [|intros a b H; discriminate].
    destruct r as [|x r]; reflexivity.
  - cbn [app]. destruct ((z =? 48) && ((x =? l) || (x =? u))) eqn:C.
    + split; [reflexivity|]. intros a b H. inversion H; subst.
      assert (z <> 10) by lia. assert (x <> 10) by lia.
      apply (ends_lf_tl_ne x); [apply (ends_lf_tl_ne z); assumption | assumption].
    + split; [reflexivity | intros a b H; discriminate].
Qed.

Lemma scan_based_local l u p : l <> 10 -> u <> 10 -> p 10 = false -> Loc (scan_based l u p).
Proof.
  intros Nl Nu Hp s r He. unfold scan_based. destruct (num_prefix_local l u Nl Nu s r He) as [E1 E2]. rewrite E1.
  destruct (num_prefix l u s) as [[pre r1]|]; [|reflexivity]. cbn [map_rest]. specialize (E2 pre r1 eq_refl).
  destruct (tw1_local p Hp r1 r E2) as [F1 F2]. rewrite F1.
  destruct (take_while1 p r1) as [[a r2]|]; [|reflexivity]. cbn [map_rest]. specialize (F2 a r2 eq_refl).
  destruct (opt_frac_local p Hp r2 r F2) as [G1 _]. rewrite G1. destruct (opt_frac p r2) as [f r3]. reflexivity.
Qed.

Lemma scan_based_frac_local l u p : l <> 10 -> u <> 10 -> p 10 = false -> Loc (scan_based_frac l u p).
Proof.
  intros Nl Nu Hp s r He. unfold scan_based_frac. destruct (num_prefix_local l u Nl Nu s r He) as [E1 E2]. rewrite E1.
  destruct (num_prefix l u s) as [[pre r1]|]; [|reflexivity]. cbn [map_rest]. specialize (E2 pre r1 eq_refl).
  rewrite (hd_is_app 46 r1 r (ends_lf_ne _ E2)). destruct (hd_is 46 r1) eqn:H46; [|reflexivity].
  rewrite (tl_app r1 r (ends_lf_ne _ E2)).
  destruct (tw1_local p Hp (tl r1) r (hd_is_tl_ends 46 r1 ltac:(lia) E2 H46)) as [F1 _]. rewrite F1.
  destruct (take_while1 p (tl r1)) as [[a r2]|]; reflexivity.
Qed.

Lemma scan_decimal_local : Loc scan_decimal.
Proof.
  intros s r He. unfold scan_decimal. destruct (tw1_local m_digit eq_refl s r He) as [E1 E2]. rewrite E1.
  destruct (take_while1 m_digit s) as [[a r1]|]; [|reflexivity]. cbn [map_rest]. specialize (E2 a r1 eq_refl).
  rewrite (hd_is_app 46 r1 r (ends_lf_ne _ E2)).
  destruct (hd_is 46 r1) eqn:H46.
  - pose proof (hd_is_tl_ends 46 r1 ltac:(lia) E2 H46) as Ht.
    rewrite (tl_app r1 r (ends_lf_ne _ E2)), (hd_is_app 46 (tl r1) r (ends_lf_ne _ Ht)).
    destruct (hd_is 46 (tl r1)).
    + destruct (opt_exp_local r1 r E2) as [G1 _]. rewrite G1. destruct (opt_exp r1) as [e r3]. reflexivity.
    + destruct (tw_local m_digit eq_refl (tl r1) r Ht) as [F1 F2]. rewrite F1.
      destruct (take_while m_digit (tl r1)) as [d r']. cbn [fst snd] in *.
      destruct (opt_exp_local r' r F2) as [G1 _]. rewrite G1. destruct (opt_exp r') as [e r3]. reflexivity.
  - destruct (opt_exp_local r1 r E2) as [G1 _]. rewrite G1. destruct (opt_exp r1) as [e r3]. reflexivity.
Qed.

Lemma scan_decimal_frac_local : Loc scan_decimal_frac.
Proof.
  intros s r He. unfold scan_decimal_frac. rewrite (hd_is_app 46 s r (ends_lf_ne _ He)).
  destruct (hd_is 46 s) eqn:H46; [|reflexivity]. rewrite (tl_app s r (ends_lf_ne _ He)).
  destruct (tw1_local m_digit eq_refl (tl s) r (hd_is_tl_ends 46 s ltac:(lia) He H46)) as [F1 F2]. rewrite F1.
  destruct (take_while1 m_digit (tl s)) as [[a r2]|]; [|reflexivity]. cbn [map_rest]. specialize (F2 a r2 eq_refl).
  destruct (opt_exp_local r2 r F2) as [G1 _]. rewrite G1. destruct (opt_exp r2) as [e r3]. reflexivity.
Qed.

Lemma scan_name_local : forall s r, ends_lf s ->
  scan_name (s ++ r) = map_rest r (scan_name s) /\ (forall a b, scan_name s = Some (a, b) -> ends_lf b).
Proof.
  intros s r He. unfold scan_name. destruct s as [|c s']; [destruct (ends_lf_ne _ He eq_refl)|]. cbn [app].
  destruct (m_name_start c) eqn:Cn; [|split; [reflexivity | intros a b H; discriminate]].
  assert (N : c <> 10) by cls. pose proof (ends_lf_tl_ne _ _ He N) as Hs'.
  destruct (tw_local m_name_char eq_refl s' r Hs') as [E1 E2]. rewrite E1.
  destruct (take_while m_name_char s') as [a b]. cbn [fst snd map_rest] in *. split; [reflexivity|].
  intros a' b' H. inversion H; subst. exact E2.
Qed.

Lemma scan_label_local : Loc scan_label.
Proof.
  intros s r He. unfold scan_label.
  rewrite (dp_local [58; 58] s r ltac:(cbn; intros [H|[]]; discriminate) He).
  destruct (drop_prefix [58; 58] s) as [r1|] eqn:D; [|reflexivity].
  assert (H1 : ends_lf r1) by (apply (dp_ends [58; 58] s r1); [cbn; intros [H|[H|[]]]; discriminate | exact He | exact D]).
  destruct (scan_name_local r1 r H1) as [E1 E2]. rewrite E1.
  destruct (scan_name r1) as [[n r2]|]; [|reflexivity]. cbn [map_rest]. specialize (E2 n r2 eq_refl).
  rewrite (dp_local [58; 58] r2 r ltac:(cbn; intros [H|[]]; discriminate) E2).
  destruct (drop_prefix [58; 58] r2); reflexivity.
Qed.

Lemma scan_keyword_local kw : ~ In 10 kw -> Loc (scan_keyword kw).
Proof.
  intros Hn s r He. unfold scan_keyword. destruct kw as [|k0 kw']; [reflexivity|].
  destruct (m_word k0); [|reflexivity].
  assert (Hn' : ~ In 10 (removelast (k0 :: kw'))) by (intros Hin; apply Hn, removelast_sub, Hin).
  rewrite (dp_local (k0 :: kw') s r Hn' He).
  destruct (drop_prefix (k0 :: kw') s) as [r1|] eqn:D; [|reflexivity].
  pose proof (dp_ends _ _ _ Hn He D) as H1. destruct r1 as [|c r1']; [destruct (ends_lf_ne _ H1 eq_refl)|].
  cbn [app]. destruct (m_name_char c); reflexivity.
Qed.

Lemma scan_literal_local lit : ~ In 10 (removelast lit) -> Loc (scan_literal lit).
Proof.
  intros Hn s r He. unfold scan_literal. destruct lit as [|x lit']; [reflexivity|].
  rewrite (dp_local (x :: lit') s r Hn He). destruct (drop_prefix (x :: lit') s); reflexivity.
Qed.

Lemma comment_local c : c <> 10 -> Loc (fun s =>
  match drop_prefix [c; c] s with
  | Some r => let '(a, b) := take_while m_not_eol r in Some (c :: c :: a, b)
  | None => None
  end).
Proof.
  intros Nc s r He. cbv beta.
  rewrite (dp_local [c; c] s r ltac:(cbn; intros [H|[]]; congruence) He).
  destruct (drop_prefix [c; c] s) as [r1|] eqn:D; [|reflexivity].
  assert (H1 : ends_lf r1) by (apply (dp_ends [c; c] s r1); [cbn; intros [H|[H|[]]]; congruence | exact He | exact D]).
  destruct (tw_local m_not_eol eq_refl r1 r H1) as [E1 _]. rewrite E1.
  destruct (take_while m_not_eol r1) as [a b]. reflexivity.
Qed.

(* the side condition on the regenerated table: no keyword contains a line feed, no symbol contains one
   before its last byte *)
Definition lf_free (m : matcher_id) : bool :=
  match m with
  | MKeyword k => negb (existsb (Z.eqb 10) k)
  | MSymbol x => negb (existsb (Z.eqb 10) (removelast x))
  | _ => true
  end.

Lemma not_in_of_existsb l : existsb (Z.eqb 10) l = false -> ~ In 10 l.
Proof.
  intros H Hin. assert (E : existsb (Z.eqb 10) l = true) by (apply existsb_exists; exists 10; split; [exact Hin | reflexivity]).
  congruence.
Qed.

Lemma run_matcher_local m : lf_free m = true -> Loc (run_matcher m).
Proof.
  intros Hf. destruct m; cbn [run_matcher lf_free] in *.
  - apply (comment_local 45). lia.
  - apply (comment_local 47). lia.
  - intros s r He. apply (tw1_local m_blank eq_refl s r He).
  - apply scan_literal_local. cbn. intros [H|[]]. discriminate.
  - apply scan_literal_local. cbn. intros [].
  - apply scan_literal_local. cbn. intros [].
  - apply scan_based_local; [lia | lia | reflexivity].
  - apply scan_based_frac_local; [lia | lia | reflexivity].
  - apply scan_based_local; [lia | lia | reflexivity].
  - apply scan_based_frac_local; [lia | lia | reflexivity].
  - apply scan_decimal_local.
  - apply scan_decimal_frac_local.
  - apply scan_label_local.
  - apply scan_keyword_local. apply not_in_of_existsb. apply negb_true_iff. exact Hf.
  - apply scan_literal_local. apply not_in_of_existsb. apply negb_true_iff. exact Hf.
  - intros s r He. apply (scan_name_local s r He).
  - apply scan_literal_local. cbn. intros [].
Qed.

Lemma first_matcher_local tbl : forallb (fun mk => lf_free (fst mk)) tbl = true ->
  forall s r, ends_lf s ->
  first_matcher tbl (s ++ r) = match first_matcher tbl s with Some (k, a, b) => Some (k, a, b ++ r) | None => None end.
Proof.
  induction tbl as [|[m k] tbl IH]; intros HT s r He; [reflexivity|].
  cbn [forallb fst] in HT. apply andb_true_iff in HT. destruct HT as [Hm HT]. cbn [first_matcher].
  rewrite (run_matcher_local m Hm s r He). destruct (run_matcher m s) as [[a b]|]; cbn [map_rest]; [reflexivity|].
  apply IH; assumption.
Qed.

Lemma table_lf_free : forallb (fun mk => lf_free (fst mk)) token_matchers = true.
Proof. vm_compute. reflexivity. Qed.

(* ---------- the Normal branch of _process_token is local *)
Lemma match_long_open_local s r : ends_lf s ->
  match_long_open (s ++ r) = match match_long_open s with Some (e, y) => Some (e, y ++ r) | None => None end.
Proof.
  intros He. unfold match_long_open. rewrite (hd_is_app 91 s r (ends_lf_ne _ He)).
  destruct (hd_is 91 s) eqn:H91; [|reflexivity]. rewrite (tl_app s r (ends_lf_ne _ He)).
  pose proof (hd_is_tl_ends 91 s ltac:(lia) He H91) as Ht.
  destruct (tw_local (fun c => c =? 61) eq_refl (tl s) r Ht) as [E1 E2]. rewrite E1.
  destruct (take_while (fun c => c =? 61) (tl s)) as [eqs r2]. cbn [fst snd] in *.
  rewrite (hd_is_app 91 r2 r (ends_lf_ne _ E2)). destruct (hd_is 91 r2); [|reflexivity].
  rewrite (tl_app r2 r (ends_lf_ne _ E2)). reflexivity.
Qed.

Definition ext_res (r : list Z) (x : result (option (mstate * option tok * list Z * list Z)))
  : result (option (mstate * option tok * list Z * list Z)) :=
  match x with
  | Ok (Some (ms, ot, piece, rest)) => Ok (Some (ms, ot, piece, rest ++ r))
  | Ok None => Ok None
  | Err e => Err e
  end.

Lemma process_token_normal_local l col s r : ends_lf s ->
  process_token Normal l col (s ++ r) = ext_res r (process_token Normal l col s).
Proof.
  intros He. cbn [process_token].
  rewrite (dp_local [45; 45; 91; 91] s r ltac:(cbn; intros [H|[H|[H|[]]]]; discriminate) He).
  destruct (drop_prefix [45; 45; 91; 91] s) as [r0|]; [reflexivity|].
  rewrite (match_long_open_local s r He). destruct (match_long_open s) as [[eqs r1]|]; [reflexivity|].
  destruct s as [|c s']; [destruct (ends_lf_ne _ He eq_refl)|]. cbn [app].
  destruct ((c =? 39) || (c =? 34)); [reflexivity|].
  change (c :: s' ++ r) with ((c :: s') ++ r). rewrite (first_matcher_local _ table_lf_free (c :: s') r He).
  destruct (first_matcher token_matchers (c :: s')) as [[[k a] r']|]; reflexivity.
Qed.

(* ---------- the multi-line scanners are compositional at a line feed *)
Lemma find_rbrackets_cons c r : find_rbrackets (c :: r) =
  if (c =? 93) && hd_is 93 r then Some ([93; 93], tl r)
  else match find_rbrackets r with Some (a, b) => Some (c :: a, b) | None => None end.
Proof. reflexivity. Qed.

Lemma find_rbrackets_local s : forall r, ends_lf s ->
  find_rbrackets (s ++ r) =
    match find_rbrackets s with
    | Some (a, b) => Some (a, b ++ r)
    | None => match find_rbrackets r with Some (a, b) => Some (s ++ a, b) | None => None end
    end.
Proof.
  induction s as [|c s IH]; intros r He; [destruct (ends_lf_ne _ He eq_refl)|].
  destruct s as [|d s'].
  - apply ends_lf_single in He. subst c. cbn [app]. rewrite find_rbrackets_cons. change (10 =? 93) with false. cbn [andb].
    destruct (find_rbrackets r) as [[a b]|]; reflexivity.
  - assert (Hs : ends_lf (d :: s')) by (apply (ends_lf_tl c); [exact He | discriminate]).
    change ((c :: d :: s') ++ r) with (c :: (d :: s') ++ r).
    rewrite (find_rbrackets_cons c ((d :: s') ++ r)), (find_rbrackets_cons c (d :: s')).
    rewrite (hd_is_app 93 (d :: s') r ltac:(discriminate)), (tl_app (d :: s') r ltac:(discriminate)).
    destruct ((c =? 93) && hd_is 93 (d :: s')); [reflexivity|].
    rewrite (IH r Hs).
    destruct (find_rbrackets (d :: s')) as [[a b]|]; [reflexivity|].
    destruct (find_rbrackets r) as [[a b]|]; reflexivity.
Qed.

Lemma find_long_close_cons closer c r : find_long_close closer (c :: r) =
  match drop_prefix closer (c :: r) with
  | Some y => Some ([], y)
  | None => match find_long_close closer r with Some (a, b) => Some (c :: a, b) | None => None end
  end.
Proof. reflexivity. Qed.

Lemma find_long_close_local closer s : forall r, closer <> [] -> ~ In 10 closer -> ends_lf s ->
  find_long_close closer (s ++ r) =
    match find_long_close closer s with
    | Some (a, b) => Some (a, b ++ r)
    | None => match find_long_close closer r with Some (a, b) => Some (s ++ a, b) | None => None end
    end.
Proof.
  intros r Hc Hn. induction s as [|c s IH]; intros He; [destruct (ends_lf_ne _ He eq_refl)|].
  assert (Hn' : ~ In 10 (removelast closer)) by (intros Hin; apply Hn, removelast_sub, Hin).
  change ((c :: s) ++ r) with (c :: s ++ r). rewrite (find_long_close_cons closer c (s ++ r)), (find_long_close_cons closer c s).
  change (c :: s ++ r) with ((c :: s) ++ r). rewrite (dp_local closer (c :: s) r Hn' He).
  destruct (drop_prefix closer (c :: s)) as [y|] eqn:D; [reflexivity|].
  destruct s as [|d s'].
  - apply ends_lf_single in He. subst c. cbn [app].
    assert (F0 : find_long_close closer [] = None) by (destruct closer; [congruence | reflexivity]). rewrite F0.
    destruct (find_long_close closer r) as [[a b]|]; reflexivity.
  - assert (Hs : ends_lf (d :: s')) by (apply (ends_lf_tl c); [exact He | discriminate]).
    rewrite (IH Hs).
    destruct (find_long_close closer (d :: s')) as [[a b]|]; [reflexivity|].
    destruct (find_long_close closer r) as [[a b]|]; reflexivity.
Qed.

Lemma tu_local p n : p 10 = false -> forall s r, ends_lf s ->
  take_upto n p (s ++ r) = (fst (take_upto n p s), snd (take_upto n p s) ++ r).
Proof.
  intros Hp. induction n as [|n IH]; intros s r He; [reflexivity|].
  destruct s as [|c s]; [destruct (ends_lf_ne _ He eq_refl)|]. cbn [app take_upto].
  destruct (p c) eqn:Pc; [|reflexivity].
  assert (N : c <> 10) by (intros ->; congruence).
  rewrite (IH s r (ends_lf_tl_ne _ _ He N)). destruct (take_upto n p s); reflexivity.
Qed.

Definition ext_esc (r : list Z) (x : result (list Z * list Z * list Z)) : result (list Z * list Z * list Z) :=
  match x with Ok (v, used, rest) => Ok (v, used, rest ++ r) | Err e => Err e end.

Lemma escape_step_local s r : ends_lf s -> escape_step (s ++ r) = ext_esc r (escape_step s).
Proof.
  intros He. destruct s as [|d1 s1]; [destruct (ends_lf_ne _ He eq_refl)|].
  unfold escape_step at 2. unfold escape_step. cbn [app].
  destruct (m_digit d1) eqn:Cd.
  - change (d1 :: s1 ++ r) with ((d1 :: s1) ++ r). rewrite (tu_local m_digit 3 eq_refl (d1 :: s1) r He).
    destruct (take_upto 3 m_digit (d1 :: s1)) as [ds rest]. cbn [fst snd].
    destruct (byte_of_digits ds <? 256); reflexivity.
  - destruct s1 as [|h1 s2].
    + (* the text is the single LF *)
      apply ends_lf_single in He. subst d1. cbn [app].
      destruct r as [|h1 [|h2 r3]]; cbn [andb]; change (10 =? 120) with false; change (10 =? 13) with false; cbn [andb];
        destruct (lookup_bytes string_escapes [10]); reflexivity.
    + destruct s2 as [|h2 s3].
      * (* d1, LF *)
        assert (h1 = 10). { apply (ends_lf_tl d1) in He; [|discriminate]. apply ends_lf_single in He. exact He. }
        subst h1. cbn [app]. destruct r as [|h2 r3].
        -- destruct ((d1 =? 13) && (10 =? 10)); [reflexivity|].
           destruct (lookup_bytes string_escapes [d1]); reflexivity.
        -- change (m_hex 10) with false. rewrite andb_false_r. cbn [andb].
           destruct ((d1 =? 13) && (10 =? 10)); [reflexivity|].
           destruct (lookup_bytes string_escapes [d1]); reflexivity.
      * cbn [app]. destruct ((d1 =? 120) && m_hex h1 && m_hex h2); [reflexivity|].
        destruct ((d1 =? 13) && (h1 =? 10)); [reflexivity|].
        destruct (lookup_bytes string_escapes [d1]); reflexivity.
Qed.

Lemma scan_fuel d n : forall s F1 F2 acc pc, (length s <= n)%nat -> (length s <= F1)%nat -> (length s <= F2)%nat ->
  scan_string F1 d s acc pc = scan_string F2 d s acc pc.
Proof.
  induction n as [|n IH]; intros s F1 F2 acc pc Hn H1 H2.
  - destruct s; [destruct F1, F2; reflexivity | cbn in Hn; lia].
  - destruct s as [|c r]; [destruct F1, F2; reflexivity|]. cbn [length] in *.
    destruct F1 as [|f1]; [lia|]. destruct F2 as [|f2]; [lia|]. cbn [scan_string].
    destruct (c =? d); [reflexivity|]. destruct (c =? 92).
    + destruct (escape_step r) as [[[v used] rest]|e] eqn:E; [|reflexivity].
      apply escape_step_split in E. assert (length r = (length used + length rest)%nat) by (subst r; apply app_length).
      apply IH; lia.
    + apply IH; lia.
Qed.

(* the piece accumulator is only prefixed *)
Definition add_pc (pc : list Z) (x : result sscan) : result sscan :=
  match x with
  | Ok (SClosed a p rest) => Ok (SClosed a (p ++ pc) rest)
  | Ok (SOpen a p) => Ok (SOpen a (p ++ pc))
  | Err e => Err e
  end.

Lemma scan_pc d F : forall s acc pc, scan_string F d s acc pc = add_pc pc (scan_string F d s acc []).
Proof.
  induction F as [|f IH]; intros s acc pc; destruct s as [|c r]; cbn [scan_string add_pc]; try reflexivity.
  destruct (c =? d); [reflexivity|]. destruct (c =? 92).
  - destruct (escape_step r) as [[[v used] rest]|e]; [|reflexivity].
    rewrite (IH rest _ (rev_append used (c :: pc))), (IH rest _ (rev_append used [c])).
    destruct (scan_string f d rest (rev_append v acc) []) as [[a p rs|a p]|e]; cbn [add_pc]; try reflexivity;
      rewrite !rev_append_rev, <- !app_assoc; reflexivity.
  - rewrite (IH r _ (c :: pc)), (IH r _ [c]).
    destruct (scan_string f d r (c :: acc) []) as [[a p rs|a p]|e]; cbn [add_pc]; try reflexivity;
      rewrite <- !app_assoc; reflexivity.
Qed.

Definition ext_scan (d : Z) (F : nat) (r : list Z) (x : result sscan) : result sscan :=
  match x with
  | Ok (SClosed a p rest) => Ok (SClosed a p (rest ++ r))
  | Ok (SOpen a p) => scan_string F d r a p
  | Err e => Err e
  end.

Lemma scan_nil F d acc pc : scan_string F d [] acc pc = Ok (SOpen acc pc).
Proof. destruct F; reflexivity. Qed.

Lemma scan_string_local d n : forall s r F acc pc, (length s <= n)%nat -> ends_lf s -> (length (s ++ r) <= F)%nat ->
  scan_string F d (s ++ r) acc pc = ext_scan d F r (scan_string F d s acc pc).
Proof.
  induction n as [|n IH]; intros s r F acc pc Hn He HF; [destruct s; [destruct (ends_lf_ne _ He eq_refl) | cbn in Hn; lia]|].
  destruct s as [|c s']; [destruct (ends_lf_ne _ He eq_refl)|]. cbn [length] in Hn.
  rewrite app_length in HF. cbn [length] in HF. destruct F as [|f]; [lia|]. cbn [app scan_string].
  destruct (c =? d); [reflexivity|].
  destruct (c =? 92) eqn:C92.
  - assert (Hs' : ends_lf s') by (apply (ends_lf_tl_ne c); [exact He | lia]).
    rewrite (escape_step_local s' r Hs'). destruct (escape_step s') as [[[v used] rest]|e] eqn:E; cbn [ext_esc]; [|reflexivity].
    apply escape_step_split in E. assert (L : length s' = (length used + length rest)%nat) by (subst s'; apply app_length).
    destruct rest as [|x rest'].
    + cbn [app]. rewrite scan_nil. cbn [ext_scan]. apply (scan_fuel d (length r)); lia.
    + assert (Hr : ends_lf (x :: rest')) by (apply (ends_lf_suffix used); [rewrite <- E; exact Hs' | discriminate]).
      rewrite (IH (x :: rest') r f); [| lia | exact Hr | rewrite app_length; lia].
      destruct (scan_string f d (x :: rest') (rev_append v acc) (rev_append used (c :: pc))) as [[a p rs|a p]|e0];
        cbn [ext_scan]; try reflexivity.
      apply (scan_fuel d (length r)); lia.
  - destruct s' as [|x s''].
    + cbn [app]. rewrite scan_nil. cbn [ext_scan]. apply (scan_fuel d (length r)); cbn [length] in *; lia.
    + assert (Hs' : ends_lf (x :: s'')) by (apply (ends_lf_tl c); [exact He | discriminate]).
      change (x :: s'' ++ r) with ((x :: s'') ++ r).
      rewrite (IH (x :: s'') r f); [| lia | exact Hs' | rewrite app_length; lia].
      destruct (scan_string f d (x :: s'') (c :: acc) (c :: pc)) as [[a p rs|a p]|e0]; cbn [ext_scan]; try reflexivity.
      apply (scan_fuel d (length r)); cbn [length] in *; lia.
Qed.

(* ---------- _process_line, fuel-free *)
Definition pl (st : lexst) (s : list Z) : result lexst := process_line (S (length s)) st s.

Lemma pl_eq F st s : (length s < F)%nat -> process_line F st s = pl st s.
Proof. intros H. unfold pl. apply (process_line_fuel (length s)); lia. Qed.

Lemma pl_step st s : pl st s =
  match process_token (l_state st) (l_line st) (l_col st) s with
  | Err e => Err e
  | Ok None => if is_nil s then Ok st else Err LexerError
  | Ok (Some (ms, ot, piece, rest)) =>
    if is_nil piece then (if is_nil s then Ok st else Err LexerError)
    else pl (step_state st ms ot piece) rest
  end.
Proof.
  unfold pl at 1. rewrite process_line_S.
  destruct (process_token (l_state st) (l_line st) (l_col st) s) as [[[[[ms ot] piece] rest]|]|e] eqn:E; try reflexivity.
  destruct (is_nil piece) eqn:Np; [reflexivity|]. unfold step_state.
  destruct (advance (l_line st, l_col st) piece) as [l' c']. apply pl_eq.
  apply process_token_split in E. apply is_nil_false in Np. subst s. rewrite app_length. lia.
Qed.

Lemma process_token_nil ms l c : process_token ms l c [] = Ok None.
Proof.
  destruct ms as [|d acc sl sc ext|acc sl sc|eqs acc sl sc ext]; reflexivity.
Qed.

Lemma pl_nil st : pl st [] = Ok st.
Proof. rewrite pl_step, process_token_nil. reflexivity. Qed.

Definition bindL (x : result lexst) (f : lexst -> result lexst) : result lexst :=
  match x with Ok a => f a | Err e => Err e end.

Lemma step_state_state st ms ot piece : l_state (step_state st ms ot piece) = ms.
Proof. unfold step_state. destruct (advance (l_line st, l_col st) piece). reflexivity. Qed.

Lemma step_state_compose st ms1 p1 ms2 ot p2 :
  step_state (step_state st ms1 None p1) ms2 ot p2 = step_state st ms2 ot (p1 ++ p2).
Proof.
  unfold step_state. rewrite advance_app. destruct (advance (l_line st, l_col st) p1) as [l1 c1].
  cbn [l_line l_col l_toks_rev]. destruct (advance (l1, c1) p2). reflexivity.
Qed.

(* delimiters of long strings never contain a line feed *)
Definition state_lf (ms : mstate) : Prop :=
  match ms with InLongString eqs _ _ _ _ => ~ In 10 eqs | _ => True end.

Lemma take_while_all p s : forallb p (fst (take_while p s)) = true.
Proof.
  induction s as [|c s IH]; cbn [take_while]; [reflexivity|]. destruct (p c) eqn:Pc; [|reflexivity].
  destruct (take_while p s) as [a b]. cbn [fst forallb] in *. rewrite Pc, IH. reflexivity.
Qed.

Lemma process_token_lf ms l c s ms' ot piece rest :
  state_lf ms -> process_token ms l c s = Ok (Some (ms', ot, piece, rest)) -> state_lf ms'.
Proof.
  intros Hl H. destruct ms as [|d acc sl sc ext|acc sl sc|eqs acc sl sc ext]; cbn [process_token] in H.
  - destruct (drop_prefix [45; 45; 91; 91] s); [inversion H; subst; exact I|].
    destruct (match_long_open s) as [[eqs r1]|] eqn:M.
    { inversion H; subst. cbn [state_lf]. unfold match_long_open in M. destruct (hd_is 91 s); [|discriminate].
      pose proof (take_while_all (fun c => c =? 61) (tl s)) as A.
      destruct (take_while (fun c => c =? 61) (tl s)) as [e r2]. destruct (hd_is 91 r2); [|discriminate].
      inversion M; subst. cbn [fst] in A. rewrite forallb_forall in A. intros Hin. specialize (A 10 Hin). discriminate. }
    destruct s as [|c0 r]; [discriminate|]. destruct ((c0 =? 39) || (c0 =? 34)); [inversion H; subst; exact I|].
    destruct (first_matcher token_matchers (c0 :: r)) as [[[k a] r']|]; [|discriminate]. inversion H; subst. exact I.
  - destruct s as [|c0 r0]; [discriminate|].
    destruct (scan_string (length (c0 :: r0)) d (c0 :: r0) acc []) as [[a p rs|a p]|e]; [| |discriminate];
      inversion H; subst; exact I.
  - destruct (find_rbrackets s) as [[a rs]|]; [inversion H; subst; exact I|].
    destruct s; [discriminate|]. inversion H; subst. exact I.
  - destruct (find_long_close (93 :: eqs ++ [93]) s) as [[a rs]|]; [inversion H; subst; exact I|].
    destruct s; [discriminate|]. inversion H; subst. exact Hl.
Qed.

(* the step shared by all cases in which the token (or the state change) is decided inside the chunk *)
Lemma cont_local n st c r ms ot piece rest :
  (forall c' r' st', (length c' <= n)%nat -> ends_lf c' -> state_lf (l_state st') ->
                     pl st' (c' ++ r') = bindL (pl st' c') (fun st2 => pl st2 r')) ->
  c = piece ++ rest -> (length c <= S n)%nat -> ends_lf c -> state_lf ms ->
  (if is_nil piece then (if is_nil (c ++ r) then Ok st else Err LexerError)
   else pl (step_state st ms ot piece) (rest ++ r)) =
  bindL (if is_nil piece then (if is_nil c then Ok st else Err LexerError)
         else pl (step_state st ms ot piece) rest) (fun st2 => pl st2 r).
Proof.
  intros IH Hs Hn He Hl. pose proof (ends_lf_ne _ He) as Hc.
  destruct (is_nil piece) eqn:Np.
  - destruct c as [|x c']; [congruence|]. reflexivity.
  - apply is_nil_false in Np. destruct rest as [|x rest'].
    + rewrite pl_nil. reflexivity.
    + apply IH.
      * assert (length c = (length piece + length (x :: rest'))%nat) by (subst c; apply app_length). lia.
      * apply (ends_lf_suffix piece); [rewrite <- Hs; exact He | discriminate].
      * rewrite step_state_state. exact Hl.
Qed.

Lemma rev_append_app {A} (a b c : list A) : rev_append (a ++ b) c = rev_append b (rev_append a c).
Proof. rewrite !rev_append_rev, rev_app_distr, <- app_assoc. reflexivity. Qed.

Lemma match_ne {A B} (l : list A) (x y : B) : l <> [] -> match l with [] => x | _ :: _ => y end = y.
Proof. destruct l; [congruence | reflexivity]. Qed.

Lemma scan_closed_ne d F : forall s acc pc a p rest, scan_string F d s acc pc = Ok (SClosed a p rest) -> p <> [].
Proof.
  induction F as [|f IH]; intros s acc pc a p rest H; destruct s as [|c r]; cbn [scan_string] in H; try discriminate.
  destruct (c =? d); [inversion H; discriminate|]. destruct (c =? 92).
  - destruct (escape_step r) as [[[v u] rs]|]; [|discriminate]. apply (IH _ _ _ _ _ _ H).
  - apply (IH _ _ _ _ _ _ H).
Qed.

Lemma find_rbrackets_ne r a b : find_rbrackets r = Some (a, b) -> a <> [].
Proof.
  destruct r as [|x r']; [discriminate|]. cbn [find_rbrackets]. destruct ((x =? 93) && hd_is 93 r'); [intros H; inversion H; discriminate|].
  destruct (find_rbrackets r') as [[? ?]|]; [intros H; inversion H; discriminate | discriminate].
Qed.

Lemma app_ne_l {A} (a b : list A) : a <> [] -> a ++ b <> [].
Proof. destruct a; [congruence | discriminate]. Qed.

Lemma rev'_ne {A} (l : list A) : l <> [] -> rev' l <> [].
Proof. rewrite rev'_eq. destruct l; [congruence|]. intros _ H. apply (f_equal (@length A)) in H. rewrite rev_length in H. discriminate. Qed.

Theorem pl_split n : forall c r st, (length c <= n)%nat -> ends_lf c -> state_lf (l_state st) ->
  pl st (c ++ r) = bindL (pl st c) (fun st2 => pl st2 r).
Proof.
  induction n as [|n IH]; intros c r st Hn He Hl.
  { destruct c; [destruct (ends_lf_ne _ He eq_refl) | cbn in Hn; lia]. }
  destruct r as [|r0 r1].
  { rewrite app_nil_r. destruct (pl st c) as [st2|e]; cbn [bindL]; [rewrite pl_nil|]; reflexivity. }
  remember (r0 :: r1) as r eqn:Er. assert (Hr : r <> []) by (subst r; discriminate). clear Er r0 r1.
  pose proof (ends_lf_ne _ He) as Hc. pose proof (app_ne_l c r Hc) as Hcr.
  rewrite (pl_step st (c ++ r)), (pl_step st c).
  destruct (l_state st) as [|d acc sl sc ext|acc sl sc|eqs acc sl sc ext] eqn:Est.
  - (* Normal *)
    rewrite (process_token_normal_local _ _ c r He).
    destruct (process_token Normal (l_line st) (l_col st) c) as [[[[[ms ot] piece] rest]|]|e] eqn:E; cbn [ext_res bindL].
    + apply (cont_local n st c r ms ot piece rest IH (process_token_split _ _ _ _ _ _ _ _ E) Hn He).
      apply (process_token_lf Normal _ _ _ _ _ _ _ I E).
    + rewrite (is_nil_ne _ Hc), (is_nil_ne _ Hcr). reflexivity.
    + reflexivity.
  - (* InString *)
    cbn [process_token]. rewrite (match_ne (c ++ r) _ _ Hcr), (match_ne c _ _ Hc).
    rewrite (scan_string_local d (length c) c r (length (c ++ r)) acc [] (Nat.le_refl _) He (Nat.le_refl _)).
    rewrite (scan_fuel d (length c) c (length (c ++ r)) (length c) acc []); [| lia | rewrite app_length; lia | lia].
    destruct (scan_string (length c) d c acc []) as [[a p rest|a p]|e] eqn:X; cbn [ext_scan bindL].
    + assert (Hs : c = rev' p ++ rest).
      { pose proof (scan_string_split _ _ _ _ _ _ X) as Xs. cbn [rev app sscan_piece_rev sscan_rest] in Xs. rewrite rev'_eq. exact Xs. }
      apply (cont_local n st c r Normal _ (rev' p) rest IH Hs Hn He I).
    + (* the string stays open at the end of the chunk *)
      assert (Hs : c = rev' p).
      { pose proof (scan_string_split _ _ _ _ _ _ X) as Xs. cbn [rev app sscan_piece_rev sscan_rest] in Xs.
        rewrite app_nil_r in Xs. rewrite rev'_eq. exact Xs. }
      assert (Hp : p <> []) by (intros ->; cbn in Hs; congruence).
      rewrite (is_nil_ne _ (rev'_ne _ Hp)), pl_nil. cbn [bindL]. rewrite (pl_step _ r), step_state_state. cbn [process_token].
      rewrite (match_ne r _ _ Hr).
      rewrite (scan_pc d (length (c ++ r)) r a p).
      rewrite (scan_fuel d (length r) r (length (c ++ r)) (length r) a []); [| lia | rewrite app_length; lia | lia].
      destruct (scan_string (length r) d r a []) as [[a2 p2 rest2|a2 p2]|e2] eqn:Y; cbn [add_pc]; [| |reflexivity].
      * pose proof (scan_closed_ne _ _ _ _ _ _ _ _ Y) as Hp2.
        rewrite (is_nil_ne _ (rev'_ne _ (app_ne_l p2 p Hp2))), (is_nil_ne _ (rev'_ne _ Hp2)), step_state_compose.
        replace (rev_append (p ++ ext) (rev' p2)) with (rev_append ext (rev' (p2 ++ p)))
          by (rewrite !rev_append_rev, !rev'_eq, !rev_app_distr, <- !app_assoc; reflexivity).
        replace (rev' p ++ rev' p2) with (rev' (p2 ++ p)) by (rewrite !rev'_eq, rev_app_distr; reflexivity).
        reflexivity.
      * assert (Hp2 : p2 <> []).
        { pose proof (scan_string_split _ _ _ _ _ _ Y) as Ys. cbn [rev app sscan_piece_rev sscan_rest] in Ys.
          rewrite app_nil_r in Ys. intros ->. cbn in Ys. congruence. }
        rewrite (is_nil_ne _ (rev'_ne _ (app_ne_l p2 p Hp2))), (is_nil_ne _ (rev'_ne _ Hp2)), step_state_compose.
        replace (rev' p ++ rev' p2) with (rev' (p2 ++ p)) by (rewrite !rev'_eq, rev_app_distr; reflexivity).
        rewrite <- app_assoc. reflexivity.
    + reflexivity.
  - (* InComment *)
    cbn [process_token]. rewrite (find_rbrackets_local c r He).
    destruct (find_rbrackets c) as [[a b]|] eqn:F.
    + pose proof (find_rbrackets_split _ _ _ F) as Hs.
      apply (cont_local n st c r Normal _ a b IH Hs Hn He I).
    + rewrite (match_ne c _ _ Hc), (is_nil_ne _ Hc), pl_nil. cbn [bindL].
      rewrite (pl_step _ r), step_state_state. cbn [process_token].
      destruct (find_rbrackets r) as [[a2 b2]|] eqn:F2.
      * pose proof (find_rbrackets_ne _ _ _ F2) as Ha2.
        rewrite (is_nil_ne _ (app_ne_l c a2 Hc)), (is_nil_ne _ Ha2), step_state_compose.
        replace (rev_append (rev_append c acc) a2) with (rev_append acc (c ++ a2))
          by (rewrite !rev_append_rev, rev_app_distr, rev_involutive, <- app_assoc; reflexivity).
        reflexivity.
      * rewrite (match_ne (c ++ r) _ _ Hcr), (match_ne r _ _ Hr), (is_nil_ne _ Hcr), (is_nil_ne _ Hr).
        rewrite step_state_compose, rev_append_app. reflexivity.
  - (* InLongString *)
    cbn [state_lf] in Hl. cbn [process_token].
    assert (Hcl : ~ In 10 (93 :: eqs ++ [93])).
    { intros [H|H]; [discriminate|]. apply in_app_or in H. destruct H as [H|[H|[]]]; [exact (Hl H) | discriminate]. }
    rewrite (find_long_close_local (93 :: eqs ++ [93]) c r ltac:(discriminate) Hcl He).
    destruct (find_long_close (93 :: eqs ++ [93]) c) as [[a b]|] eqn:F.
    + pose proof (find_long_close_split _ _ _ _ F) as Hs. rewrite app_assoc in Hs.
      apply (cont_local n st c r Normal _ (a ++ 93 :: eqs ++ [93]) b IH Hs Hn He I).
    + rewrite (match_ne c _ _ Hc), (is_nil_ne _ Hc), pl_nil. cbn [bindL].
      rewrite (pl_step _ r), step_state_state. cbn [process_token].
      destruct (find_long_close (93 :: eqs ++ [93]) r) as [[a2 b2]|] eqn:F2.
      * assert (N1 : (c ++ a2) ++ 93 :: eqs ++ [93] <> []) by (apply app_ne_l, app_ne_l, Hc).
        assert (N2 : a2 ++ 93 :: eqs ++ [93] <> []) by (destruct a2; discriminate).
        rewrite (is_nil_ne _ N1), (is_nil_ne _ N2), step_state_compose.
        replace (rev_append (rev_append c acc) a2) with (rev_append acc (c ++ a2))
          by (rewrite !rev_append_rev, rev_app_distr, rev_involutive, <- app_assoc; reflexivity).
        replace (rev_append (rev_append c ext) (a2 ++ 93 :: eqs ++ [93])) with (rev_append ext ((c ++ a2) ++ 93 :: eqs ++ [93]))
          by (rewrite !rev_append_rev, rev_app_distr, rev_involutive, <- !app_assoc; reflexivity).
        rewrite <- app_assoc. reflexivity.
      * rewrite (match_ne (c ++ r) _ _ Hcr), (match_ne r _ _ Hr), (is_nil_ne _ Hcr), (is_nil_ne _ Hr).
        rewrite step_state_compose, !rev_append_app. reflexivity.
Qed.

(* ---------- process_lines *)
Lemma process_line_lf fuel : forall st s st', state_lf (l_state st) -> process_line fuel st s = Ok st' -> state_lf (l_state st').
Proof.
  induction fuel as [|f IH]; intros st s st' Hl H; [discriminate|]. rewrite process_line_S in H.
  destruct (process_token (l_state st) (l_line st) (l_col st) s) as [[[[[ms ot] piece] rest]|]|e] eqn:E; [| |discriminate].
  - destruct (is_nil piece).
    + destruct (is_nil s); [|discriminate]. inversion H; subst. exact Hl.
    + destruct (advance (l_line st, l_col st) piece) as [l' c']. apply IH in H; [exact H|].
      cbn [l_state]. apply (process_token_lf _ _ _ _ _ _ _ _ Hl E).
  - destruct (is_nil s); [|discriminate]. inversion H; subst. exact Hl.
Qed.

Lemma process_chunks_cons st c cs : process_chunks st (c :: cs) = bindL (pl st c) (fun st' => process_chunks st' cs).
Proof. reflexivity. Qed.

Lemma process_chunks_one st s : process_chunks st [s] = pl st s.
Proof. rewrite process_chunks_cons. destruct (pl st s); reflexivity. Qed.

Theorem process_chunks_concat ls : forall st, Forall ends_lf (removelast ls) -> state_lf (l_state st) ->
  process_chunks st ls = process_chunks st [concat ls].
Proof.
  induction ls as [|c ls IH]; intros st HF Hl.
  - cbn [concat]. rewrite process_chunks_one, pl_nil. reflexivity.
  - destruct ls as [|c2 ls'].
    + cbn [concat]. rewrite app_nil_r. reflexivity.
    + assert (Hc : ends_lf c /\ Forall ends_lf (removelast (c2 :: ls'))).
      { change (removelast (c :: c2 :: ls')) with (c :: removelast (c2 :: ls')) in HF. inversion HF; subst. split; assumption. }
      destruct Hc as [Hc HF'].
      rewrite process_chunks_cons, process_chunks_one. change (concat (c :: c2 :: ls')) with (c ++ concat (c2 :: ls')).
      rewrite (pl_split (length c) c (concat (c2 :: ls')) st (Nat.le_refl _) Hc Hl).
      destruct (pl st c) as [st'|e] eqn:P; cbn [bindL]; [|reflexivity].
      rewrite (IH st' HF'); [apply process_chunks_one|].
      apply (process_line_lf _ _ _ _ Hl P).
Qed.

(* C07_chunking: the token list (and every error) is the same whether the text arrives as one chunk or
   split after line feeds - every input, every chunk list whose chunks (but the last) end with a line feed *)
Theorem model_lex_chunking ls : Forall ends_lf (removelast ls) -> model_lex ls = model_lex [concat ls].
Proof. intros HF. unfold model_lex. rewrite (process_chunks_concat ls init_lexst HF I). reflexivity. Qed.
Print Assumptions model_lex_chunking.
