(* Source pins of pico8/build/build.py: p8tool build: region selection, require() evaluation, package embedding (Model/Build*.v, Model/Req*.v, Model/LoadPath.v).
   WRITTEN BY gen/mkpins.py (developer step) from the sources the hand-written model was compared with;
   each lemma fails when the function it names has been edited since (digest of ast.unparse, docstrings
   dropped; regenerated on every run into Generated/T_pins_build.v). *)
From Coq Require Import ZArith List.
Import ListNotations.
Open Scope Z_scope.
From PV Require Import Generated.T_pins_build.

Lemma pin__mod___locate_require_file_ok : pin__mod___locate_require_file = [219; 239; 206; 249; 226; 204; 26; 204].
Proof. reflexivity. Qed.
Lemma pin__RequireWalker___error_at_node_ok : pin__RequireWalker___error_at_node = [35; 193; 250; 196; 166; 173; 11; 171].
Proof. reflexivity. Qed.
Lemma pin__RequireWalker___walk_FunctionCall_ok : pin__RequireWalker___walk_FunctionCall = [207; 241; 124; 79; 140; 253; 8; 42].
Proof. reflexivity. Qed.
Lemma pin__mod___evaluate_require_ok : pin__mod___evaluate_require = [225; 200; 123; 27; 173; 185; 158; 121].
Proof. reflexivity. Qed.
Lemma pin__mod___prepend_package_lua_ok : pin__mod___prepend_package_lua = [248; 139; 79; 107; 144; 163; 15; 122].
Proof. reflexivity. Qed.
Lemma pin__mod___remove_global_return_ok : pin__mod___remove_global_return = [59; 100; 194; 57; 230; 72; 17; 89].
Proof. reflexivity. Qed.
Lemma pin__mod__do_build_ok : pin__mod__do_build = [28; 102; 70; 54; 64; 35; 178; 241].
Proof. reflexivity. Qed.

(* no function was added to or removed from the pinned classes *)
Lemma pin_names__build_ok : pin_names__build =
  [[112; 105; 110; 95; 95; 109; 111; 100; 95; 95; 95; 108; 111; 99; 97; 116; 101; 95; 114; 101; 113; 117; 105; 114; 101; 95; 102; 105; 108; 101]; [112; 105; 110; 95; 95; 82; 101; 113; 117; 105; 114; 101; 87; 97; 108; 107; 101; 114; 95; 95; 95; 101; 114; 114; 111; 114; 95; 97; 116; 95; 110; 111; 100; 101]; [112; 105; 110; 95; 95; 82; 101; 113; 117; 105; 114; 101; 87; 97; 108; 107; 101; 114; 95; 95; 95; 119; 97; 108; 107; 95; 70; 117; 110; 99; 116; 105; 111; 110; 67; 97; 108; 108]; [112; 105; 110; 95; 95; 109; 111; 100; 95; 95; 95; 101; 118; 97; 108; 117; 97; 116; 101; 95; 114; 101; 113; 117; 105; 114; 101]; [112; 105; 110; 95; 95; 109; 111; 100; 95; 95; 95; 112; 114; 101; 112; 101; 110; 100; 95; 112; 97; 99; 107; 97; 103; 101; 95; 108; 117; 97]; [112; 105; 110; 95; 95; 109; 111; 100; 95; 95; 95; 114; 101; 109; 111; 118; 101; 95; 103; 108; 111; 98; 97; 108; 95; 114; 101; 116; 117; 114; 110]; [112; 105; 110; 95; 95; 109; 111; 100; 95; 95; 100; 111; 95; 98; 117; 105; 108; 100]].
Proof. reflexivity. Qed.
