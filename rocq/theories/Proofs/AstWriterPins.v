(* Source pins of pico8/lua/lua.py: the Lua container and the AST writers' walk (Model/AstWriter.v, Model/EchoWriter.v).
   WRITTEN BY gen/mkpins.py (developer step) from the sources the hand-written model was compared with;
   each lemma fails when the function it names has been edited since (digest of ast.unparse, docstrings
   dropped; regenerated on every run into Generated/T_pins_luawriter.v). *)
From Coq Require Import ZArith List.
Import ListNotations.
Open Scope Z_scope.
From PV Require Import Generated.T_pins_luawriter.

Lemma pin__Lua____init___ok : pin__Lua____init__ = [171; 202; 161; 64; 237; 9; 1; 124].
Proof. reflexivity. Qed.
Lemma pin__Lua__get_char_count_ok : pin__Lua__get_char_count = [112; 39; 30; 49; 9; 40; 238; 113].
Proof. reflexivity. Qed.
Lemma pin__Lua__get_token_count_ok : pin__Lua__get_token_count = [73; 51; 152; 56; 150; 129; 60; 78].
Proof. reflexivity. Qed.
Lemma pin__Lua__get_line_count_ok : pin__Lua__get_line_count = [123; 46; 70; 0; 15; 170; 44; 179].
Proof. reflexivity. Qed.
Lemma pin__Lua__get_title_ok : pin__Lua__get_title = [130; 154; 161; 27; 158; 45; 137; 10].
Proof. reflexivity. Qed.
Lemma pin__Lua__get_byline_ok : pin__Lua__get_byline = [138; 49; 241; 104; 22; 234; 59; 40].
Proof. reflexivity. Qed.
Lemma pin__Lua__tokens_ok : pin__Lua__tokens = [78; 133; 170; 87; 120; 222; 208; 0].
Proof. reflexivity. Qed.
Lemma pin__Lua__root_ok : pin__Lua__root = [83; 180; 181; 91; 205; 84; 209; 155].
Proof. reflexivity. Qed.
Lemma pin__Lua__version_ok : pin__Lua__version = [14; 34; 32; 201; 6; 79; 141; 151].
Proof. reflexivity. Qed.
Lemma pin__Lua__from_lines_ok : pin__Lua__from_lines = [6; 188; 249; 21; 212; 119; 165; 7].
Proof. reflexivity. Qed.
Lemma pin__Lua__update_from_lines_ok : pin__Lua__update_from_lines = [76; 17; 180; 9; 138; 94; 101; 192].
Proof. reflexivity. Qed.
Lemma pin__Lua__to_lines_ok : pin__Lua__to_lines = [160; 31; 228; 131; 125; 229; 33; 138].
Proof. reflexivity. Qed.
Lemma pin__Lua__reparse_ok : pin__Lua__reparse = [174; 173; 85; 71; 235; 2; 40; 157].
Proof. reflexivity. Qed.
Lemma pin__BaseASTWalker____init___ok : pin__BaseASTWalker____init__ = [222; 199; 86; 151; 31; 175; 186; 107].
Proof. reflexivity. Qed.
Lemma pin__BaseASTWalker___walk_token_ok : pin__BaseASTWalker___walk_token = [41; 14; 16; 51; 81; 77; 84; 100].
Proof. reflexivity. Qed.
Lemma pin__BaseASTWalker___walk_value_ok : pin__BaseASTWalker___walk_value = [254; 38; 117; 1; 0; 198; 13; 177].
Proof. reflexivity. Qed.
Lemma pin__BaseASTWalker___walk_ok : pin__BaseASTWalker___walk = [206; 152; 159; 218; 72; 219; 202; 219].
Proof. reflexivity. Qed.
Lemma pin__BaseASTWalker__walk_ok : pin__BaseASTWalker__walk = [64; 216; 112; 59; 157; 179; 113; 91].
Proof. reflexivity. Qed.
Lemma pin__BaseLuaWriter__to_lines_ok : pin__BaseLuaWriter__to_lines = [251; 31; 45; 145; 67; 147; 108; 129].
Proof. reflexivity. Qed.
Lemma pin__LuaEchoWriter__to_lines_ok : pin__LuaEchoWriter__to_lines = [136; 214; 115; 160; 225; 117; 72; 81].
Proof. reflexivity. Qed.
Lemma pin__LuaASTEchoWriter____init___ok : pin__LuaASTEchoWriter____init__ = [228; 209; 9; 48; 29; 112; 62; 157].
Proof. reflexivity. Qed.
Lemma pin__LuaASTEchoWriter___get_code_for_spaces_ok : pin__LuaASTEchoWriter___get_code_for_spaces = [250; 230; 60; 240; 39; 15; 175; 111].
Proof. reflexivity. Qed.
Lemma pin__LuaASTEchoWriter___get_name_ok : pin__LuaASTEchoWriter___get_name = [67; 170; 212; 98; 56; 212; 109; 5].
Proof. reflexivity. Qed.
Lemma pin__LuaASTEchoWriter___get_text_ok : pin__LuaASTEchoWriter___get_text = [100; 151; 64; 252; 14; 121; 127; 103].
Proof. reflexivity. Qed.
Lemma pin__LuaASTEchoWriter___get_semis_ok : pin__LuaASTEchoWriter___get_semis = [65; 213; 251; 77; 108; 122; 230; 174].
Proof. reflexivity. Qed.
Lemma pin__LuaASTEchoWriter___walk_Chunk_ok : pin__LuaASTEchoWriter___walk_Chunk = [241; 102; 64; 81; 214; 93; 220; 214].
Proof. reflexivity. Qed.
Lemma pin__LuaASTEchoWriter___walk_StatAssignment_ok : pin__LuaASTEchoWriter___walk_StatAssignment = [179; 177; 196; 129; 71; 87; 171; 161].
Proof. reflexivity. Qed.
Lemma pin__LuaASTEchoWriter___walk_StatFunctionCall_ok : pin__LuaASTEchoWriter___walk_StatFunctionCall = [198; 158; 229; 179; 134; 18; 62; 51].
Proof. reflexivity. Qed.
Lemma pin__LuaASTEchoWriter___walk_StatDo_ok : pin__LuaASTEchoWriter___walk_StatDo = [72; 120; 35; 117; 219; 218; 9; 233].
Proof. reflexivity. Qed.
Lemma pin__LuaASTEchoWriter___walk_StatWhile_ok : pin__LuaASTEchoWriter___walk_StatWhile = [44; 136; 104; 28; 248; 78; 94; 44].
Proof. reflexivity. Qed.
Lemma pin__LuaASTEchoWriter___walk_StatRepeat_ok : pin__LuaASTEchoWriter___walk_StatRepeat = [198; 38; 231; 139; 19; 40; 81; 69].
Proof. reflexivity. Qed.
Lemma pin__LuaASTEchoWriter___walk_StatIf_ok : pin__LuaASTEchoWriter___walk_StatIf = [53; 1; 170; 108; 117; 171; 148; 138].
Proof. reflexivity. Qed.
Lemma pin__LuaASTEchoWriter___walk_StatForStep_ok : pin__LuaASTEchoWriter___walk_StatForStep = [179; 11; 206; 48; 217; 14; 174; 176].
Proof. reflexivity. Qed.
Lemma pin__LuaASTEchoWriter___walk_StatForIn_ok : pin__LuaASTEchoWriter___walk_StatForIn = [75; 81; 252; 82; 182; 190; 35; 196].
Proof. reflexivity. Qed.
Lemma pin__LuaASTEchoWriter___walk_StatFunction_ok : pin__LuaASTEchoWriter___walk_StatFunction = [56; 36; 186; 7; 216; 167; 76; 208].
Proof. reflexivity. Qed.
Lemma pin__LuaASTEchoWriter___walk_StatLocalFunction_ok : pin__LuaASTEchoWriter___walk_StatLocalFunction = [44; 19; 219; 245; 144; 114; 137; 117].
Proof. reflexivity. Qed.
Lemma pin__LuaASTEchoWriter___walk_StatLocalAssignment_ok : pin__LuaASTEchoWriter___walk_StatLocalAssignment = [230; 240; 236; 106; 245; 97; 118; 185].
Proof. reflexivity. Qed.
Lemma pin__LuaASTEchoWriter___walk_StatGoto_ok : pin__LuaASTEchoWriter___walk_StatGoto = [41; 48; 240; 94; 144; 39; 25; 52].
Proof. reflexivity. Qed.
Lemma pin__LuaASTEchoWriter___walk_StatLabel_ok : pin__LuaASTEchoWriter___walk_StatLabel = [91; 254; 99; 229; 253; 44; 186; 181].
Proof. reflexivity. Qed.
Lemma pin__LuaASTEchoWriter___walk_StatBreak_ok : pin__LuaASTEchoWriter___walk_StatBreak = [228; 244; 66; 114; 207; 176; 181; 225].
Proof. reflexivity. Qed.
Lemma pin__LuaASTEchoWriter___walk_StatReturn_ok : pin__LuaASTEchoWriter___walk_StatReturn = [39; 177; 122; 129; 130; 42; 6; 169].
Proof. reflexivity. Qed.
Lemma pin__LuaASTEchoWriter___walk_FunctionName_ok : pin__LuaASTEchoWriter___walk_FunctionName = [59; 45; 11; 2; 208; 210; 64; 239].
Proof. reflexivity. Qed.
Lemma pin__LuaASTEchoWriter___walk_FunctionArgs_ok : pin__LuaASTEchoWriter___walk_FunctionArgs = [38; 91; 194; 188; 17; 159; 39; 245].
Proof. reflexivity. Qed.
Lemma pin__LuaASTEchoWriter___walk_VarList_ok : pin__LuaASTEchoWriter___walk_VarList = [130; 250; 28; 240; 212; 48; 97; 137].
Proof. reflexivity. Qed.
Lemma pin__LuaASTEchoWriter___walk_VarName_ok : pin__LuaASTEchoWriter___walk_VarName = [207; 82; 141; 62; 195; 175; 155; 104].
Proof. reflexivity. Qed.
Lemma pin__LuaASTEchoWriter___walk_VarIndex_ok : pin__LuaASTEchoWriter___walk_VarIndex = [141; 36; 20; 96; 244; 52; 26; 44].
Proof. reflexivity. Qed.
Lemma pin__LuaASTEchoWriter___walk_VarAttribute_ok : pin__LuaASTEchoWriter___walk_VarAttribute = [6; 17; 168; 118; 227; 29; 168; 137].
Proof. reflexivity. Qed.
Lemma pin__LuaASTEchoWriter___walk_NameList_ok : pin__LuaASTEchoWriter___walk_NameList = [164; 209; 6; 193; 118; 58; 155; 18].
Proof. reflexivity. Qed.
Lemma pin__LuaASTEchoWriter___walk_ExpList_ok : pin__LuaASTEchoWriter___walk_ExpList = [199; 86; 229; 163; 11; 138; 22; 108].
Proof. reflexivity. Qed.
Lemma pin__LuaASTEchoWriter___walk_ExpValue_ok : pin__LuaASTEchoWriter___walk_ExpValue = [57; 86; 1; 75; 62; 151; 226; 139].
Proof. reflexivity. Qed.
Lemma pin__LuaASTEchoWriter___walk_VarargDots_ok : pin__LuaASTEchoWriter___walk_VarargDots = [60; 84; 47; 54; 240; 76; 11; 166].
Proof. reflexivity. Qed.
Lemma pin__LuaASTEchoWriter___walk_ExpBinOp_ok : pin__LuaASTEchoWriter___walk_ExpBinOp = [235; 239; 201; 35; 10; 231; 206; 138].
Proof. reflexivity. Qed.
Lemma pin__LuaASTEchoWriter___walk_ExpUnOp_ok : pin__LuaASTEchoWriter___walk_ExpUnOp = [147; 4; 224; 43; 117; 114; 162; 81].
Proof. reflexivity. Qed.
Lemma pin__LuaASTEchoWriter___walk_FunctionCall_ok : pin__LuaASTEchoWriter___walk_FunctionCall = [197; 136; 141; 66; 189; 210; 105; 52].
Proof. reflexivity. Qed.
Lemma pin__LuaASTEchoWriter___walk_FunctionCallMethod_ok : pin__LuaASTEchoWriter___walk_FunctionCallMethod = [52; 214; 19; 74; 197; 21; 217; 21].
Proof. reflexivity. Qed.
Lemma pin__LuaASTEchoWriter___walk_Function_ok : pin__LuaASTEchoWriter___walk_Function = [86; 30; 62; 200; 84; 164; 165; 109].
Proof. reflexivity. Qed.
Lemma pin__LuaASTEchoWriter___walk_FunctionBody_ok : pin__LuaASTEchoWriter___walk_FunctionBody = [169; 2; 165; 10; 244; 187; 225; 96].
Proof. reflexivity. Qed.
Lemma pin__LuaASTEchoWriter___walk_TableConstructor_ok : pin__LuaASTEchoWriter___walk_TableConstructor = [61; 122; 59; 62; 202; 103; 242; 193].
Proof. reflexivity. Qed.
Lemma pin__LuaASTEchoWriter___walk_FieldExpKey_ok : pin__LuaASTEchoWriter___walk_FieldExpKey = [141; 236; 105; 167; 233; 16; 36; 250].
Proof. reflexivity. Qed.
Lemma pin__LuaASTEchoWriter___walk_FieldNamedKey_ok : pin__LuaASTEchoWriter___walk_FieldNamedKey = [246; 207; 101; 108; 242; 144; 181; 80].
Proof. reflexivity. Qed.
Lemma pin__LuaASTEchoWriter___walk_FieldExp_ok : pin__LuaASTEchoWriter___walk_FieldExp = [225; 14; 89; 222; 72; 229; 130; 83].
Proof. reflexivity. Qed.
Lemma pin__LuaASTEchoWriter___walk_ok : pin__LuaASTEchoWriter___walk = [79; 237; 172; 186; 129; 138; 91; 79].
Proof. reflexivity. Qed.
Lemma pin__LuaASTEchoWriter__to_lines_ok : pin__LuaASTEchoWriter__to_lines = [135; 172; 254; 26; 173; 28; 56; 255].
Proof. reflexivity. Qed.
Lemma pin__LuaFormatterWriter____init___ok : pin__LuaFormatterWriter____init__ = [40; 211; 99; 220; 4; 162; 153; 168].
Proof. reflexivity. Qed.
Lemma pin__LuaFormatterWriter___get_code_for_spaces_ok : pin__LuaFormatterWriter___get_code_for_spaces = [180; 203; 172; 90; 16; 66; 242; 139].
Proof. reflexivity. Qed.

(* no function was added to or removed from the pinned classes *)
Lemma pin_names__luawriter_ok : pin_names__luawriter =
  [[112; 105; 110; 95; 95; 76; 117; 97; 95; 95; 95; 95; 105; 110; 105; 116; 95; 95]; [112; 105; 110; 95; 95; 76; 117; 97; 95; 95; 103; 101; 116; 95; 99; 104; 97; 114; 95; 99; 111; 117; 110; 116]; [112; 105; 110; 95; 95; 76; 117; 97; 95; 95; 103; 101; 116; 95; 116; 111; 107; 101; 110; 95; 99; 111; 117; 110; 116]; [112; 105; 110; 95; 95; 76; 117; 97; 95; 95; 103; 101; 116; 95; 108; 105; 110; 101; 95; 99; 111; 117; 110; 116]; [112; 105; 110; 95; 95; 76; 117; 97; 95; 95; 103; 101; 116; 95; 116; 105; 116; 108; 101]; [112; 105; 110; 95; 95; 76; 117; 97; 95; 95; 103; 101; 116; 95; 98; 121; 108; 105; 110; 101]; [112; 105; 110; 95; 95; 76; 117; 97; 95; 95; 116; 111; 107; 101; 110; 115]; [112; 105; 110; 95; 95; 76; 117; 97; 95; 95; 114; 111; 111; 116]; [112; 105; 110; 95; 95; 76; 117; 97; 95; 95; 118; 101; 114; 115; 105; 111; 110]; [112; 105; 110; 95; 95; 76; 117; 97; 95; 95; 102; 114; 111; 109; 95; 108; 105; 110; 101; 115]; [112; 105; 110; 95; 95; 76; 117; 97; 95; 95; 117; 112; 100; 97; 116; 101; 95; 102; 114; 111; 109; 95; 108; 105; 110; 101; 115]; [112; 105; 110; 95; 95; 76; 117; 97; 95; 95; 116; 111; 95; 108; 105; 110; 101; 115]; [112; 105; 110; 95; 95; 76; 117; 97; 95; 95; 114; 101; 112; 97; 114; 115; 101]; [112; 105; 110; 95; 95; 66; 97; 115; 101; 65; 83; 84; 87; 97; 108; 107; 101; 114; 95; 95; 95; 95; 105; 110; 105; 116; 95; 95]; [112; 105; 110; 95; 95; 66; 97; 115; 101; 65; 83; 84; 87; 97; 108; 107; 101; 114; 95; 95; 95; 119; 97; 108; 107; 95; 116; 111; 107; 101; 110]; [112; 105; 110; 95; 95; 66; 97; 115; 101; 65; 83; 84; 87; 97; 108; 107; 101; 114; 95; 95; 95; 119; 97; 108; 107; 95; 118; 97; 108; 117; 101]; [112; 105; 110; 95; 95; 66; 97; 115; 101; 65; 83; 84; 87; 97; 108; 107; 101; 114; 95; 95; 95; 119; 97; 108; 107]; [112; 105; 110; 95; 95; 66; 97; 115; 101; 65; 83; 84; 87; 97; 108; 107; 101; 114; 95; 95; 119; 97; 108; 107]; [112; 105; 110; 95; 95; 66; 97; 115; 101; 76; 117; 97; 87; 114; 105; 116; 101; 114; 95; 95; 116; 111; 95; 108; 105; 110; 101; 115]; [112; 105; 110; 95; 95; 76; 117; 97; 69; 99; 104; 111; 87; 114; 105; 116; 101; 114; 95; 95; 116; 111; 95; 108; 105; 110; 101; 115]; [112; 105; 110; 95; 95; 76; 117; 97; 65; 83; 84; 69; 99; 104; 111; 87; 114; 105; 116; 101; 114; 95; 95; 95; 95; 105; 110; 105; 116; 95; 95]; [112; 105; 110; 95; 95; 76; 117; 97; 65; 83; 84; 69; 99; 104; 111; 87; 114; 105; 116; 101; 114; 95; 95; 95; 103; 101; 116; 95; 99; 111; 100; 101; 95; 102; 111; 114; 95; 115; 112; 97; 99; 101; 115]; [112; 105; 110; 95; 95; 76; 117; 97; 65; 83; 84; 69; 99; 104; 111; 87; 114; 105; 116; 101; 114; 95; 95; 95; 103; 101; 116; 95; 110; 97; 109; 101]; [112; 105; 110; 95; 95; 76; 117; 97; 65; 83; 84; 69; 99; 104; 111; 87; 114; 105; 116; 101; 114; 95; 95; 95; 103; 101; 116; 95; 116; 101; 120; 116]; [112; 105; 110; 95; 95; 76; 117; 97; 65; 83; 84; 69; 99; 104; 111; 87; 114; 105; 116; 101; 114; 95; 95; 95; 103; 101; 116; 95; 115; 101; 109; 105; 115]; [112; 105; 110; 95; 95; 76; 117; 97; 65; 83; 84; 69; 99; 104; 111; 87; 114; 105; 116; 101; 114; 95; 95; 95; 119; 97; 108; 107; 95; 67; 104; 117; 110; 107]; [112; 105; 110; 95; 95; 76; 117; 97; 65; 83; 84; 69; 99; 104; 111; 87; 114; 105; 116; 101; 114; 95; 95; 95; 119; 97; 108; 107; 95; 83; 116; 97; 116; 65; 115; 115; 105; 103; 110; 109; 101; 110; 116]; [112; 105; 110; 95; 95; 76; 117; 97; 65; 83; 84; 69; 99; 104; 111; 87; 114; 105; 116; 101; 114; 95; 95; 95; 119; 97; 108; 107; 95; 83; 116; 97; 116; 70; 117; 110; 99; 116; 105; 111; 110; 67; 97; 108; 108]; [112; 105; 110; 95; 95; 76; 117; 97; 65; 83; 84; 69; 99; 104; 111; 87; 114; 105; 116; 101; 114; 95; 95; 95; 119; 97; 108; 107; 95; 83; 116; 97; 116; 68; 111]; [112; 105; 110; 95; 95; 76; 117; 97; 65; 83; 84; 69; 99; 104; 111; 87; 114; 105; 116; 101; 114; 95; 95; 95; 119; 97; 108; 107; 95; 83; 116; 97; 116; 87; 104; 105; 108; 101]; [112; 105; 110; 95; 95; 76; 117; 97; 65; 83; 84; 69; 99; 104; 111; 87; 114; 105; 116; 101; 114; 95; 95; 95; 119; 97; 108; 107; 95; 83; 116; 97; 116; 82; 101; 112; 101; 97; 116]; [112; 105; 110; 95; 95; 76; 117; 97; 65; 83; 84; 69; 99; 104; 111; 87; 114; 105; 116; 101; 114; 95; 95; 95; 119; 97; 108; 107; 95; 83; 116; 97; 116; 73; 102]; [112; 105; 110; 95; 95; 76; 117; 97; 65; 83; 84; 69; 99; 104; 111; 87; 114; 105; 116; 101; 114; 95; 95; 95; 119; 97; 108; 107; 95; 83; 116; 97; 116; 70; 111; 114; 83; 116; 101; 112]; [112; 105; 110; 95; 95; 76; 117; 97; 65; 83; 84; 69; 99; 104; 111; 87; 114; 105; 116; 101; 114; 95; 95; 95; 119; 97; 108; 107; 95; 83; 116; 97; 116; 70; 111; 114; 73; 110]; [112; 105; 110; 95; 95; 76; 117; 97; 65; 83; 84; 69; 99; 104; 111; 87; 114; 105; 116; 101; 114; 95; 95; 95; 119; 97; 108; 107; 95; 83; 116; 97; 116; 70; 117; 110; 99; 116; 105; 111; 110]; [112; 105; 110; 95; 95; 76; 117; 97; 65; 83; 84; 69; 99; 104; 111; 87; 114; 105; 116; 101; 114; 95; 95; 95; 119; 97; 108; 107; 95; 83; 116; 97; 116; 76; 111; 99; 97; 108; 70; 117; 110; 99; 116; 105; 111; 110]; [112; 105; 110; 95; 95; 76; 117; 97; 65; 83; 84; 69; 99; 104; 111; 87; 114; 105; 116; 101; 114; 95; 95; 95; 119; 97; 108; 107; 95; 83; 116; 97; 116; 76; 111; 99; 97; 108; 65; 115; 115; 105; 103; 110; 109; 101; 110; 116]; [112; 105; 110; 95; 95; 76; 117; 97; 65; 83; 84; 69; 99; 104; 111; 87; 114; 105; 116; 101; 114; 95; 95; 95; 119; 97; 108; 107; 95; 83; 116; 97; 116; 71; 111; 116; 111]; [112; 105; 110; 95; 95; 76; 117; 97; 65; 83; 84; 69; 99; 104; 111; 87; 114; 105; 116; 101; 114; 95; 95; 95; 119; 97; 108; 107; 95; 83; 116; 97; 116; 76; 97; 98; 101; 108]; [112; 105; 110; 95; 95; 76; 117; 97; 65; 83; 84; 69; 99; 104; 111; 87; 114; 105; 116; 101; 114; 95; 95; 95; 119; 97; 108; 107; 95; 83; 116; 97; 116; 66; 114; 101; 97; 107]; [112; 105; 110; 95; 95; 76; 117; 97; 65; 83; 84; 69; 99; 104; 111; 87; 114; 105; 116; 101; 114; 95; 95; 95; 119; 97; 108; 107; 95; 83; 116; 97; 116; 82; 101; 116; 117; 114; 110]; [112; 105; 110; 95; 95; 76; 117; 97; 65; 83; 84; 69; 99; 104; 111; 87; 114; 105; 116; 101; 114; 95; 95; 95; 119; 97; 108; 107; 95; 70; 117; 110; 99; 116; 105; 111; 110; 78; 97; 109; 101]; [112; 105; 110; 95; 95; 76; 117; 97; 65; 83; 84; 69; 99; 104; 111; 87; 114; 105; 116; 101; 114; 95; 95; 95; 119; 97; 108; 107; 95; 70; 117; 110; 99; 116; 105; 111; 110; 65; 114; 103; 115]; [112; 105; 110; 95; 95; 76; 117; 97; 65; 83; 84; 69; 99; 104; 111; 87; 114; 105; 116; 101; 114; 95; 95; 95; 119; 97; 108; 107; 95; 86; 97; 114; 76; 105; 115; 116]; [112; 105; 110; 95; 95; 76; 117; 97; 65; 83; 84; 69; 99; 104; 111; 87; 114; 105; 116; 101; 114; 95; 95; 95; 119; 97; 108; 107; 95; 86; 97; 114; 78; 97; 109; 101]; [112; 105; 110; 95; 95; 76; 117; 97; 65; 83; 84; 69; 99; 104; 111; 87; 114; 105; 116; 101; 114; 95; 95; 95; 119; 97; 108; 107; 95; 86; 97; 114; 73; 110; 100; 101; 120]; [112; 105; 110; 95; 95; 76; 117; 97; 65; 83; 84; 69; 99; 104; 111; 87; 114; 105; 116; 101; 114; 95; 95; 95; 119; 97; 108; 107; 95; 86; 97; 114; 65; 116; 116; 114; 105; 98; 117; 116; 101]; [112; 105; 110; 95; 95; 76; 117; 97; 65; 83; 84; 69; 99; 104; 111; 87; 114; 105; 116; 101; 114; 95; 95; 95; 119; 97; 108; 107; 95; 78; 97; 109; 101; 76; 105; 115; 116]; [112; 105; 110; 95; 95; 76; 117; 97; 65; 83; 84; 69; 99; 104; 111; 87; 114; 105; 116; 101; 114; 95; 95; 95; 119; 97; 108; 107; 95; 69; 120; 112; 76; 105; 115; 116]; [112; 105; 110; 95; 95; 76; 117; 97; 65; 83; 84; 69; 99; 104; 111; 87; 114; 105; 116; 101; 114; 95; 95; 95; 119; 97; 108; 107; 95; 69; 120; 112; 86; 97; 108; 117; 101]; [112; 105; 110; 95; 95; 76; 117; 97; 65; 83; 84; 69; 99; 104; 111; 87; 114; 105; 116; 101; 114; 95; 95; 95; 119; 97; 108; 107; 95; 86; 97; 114; 97; 114; 103; 68; 111; 116; 115]; [112; 105; 110; 95; 95; 76; 117; 97; 65; 83; 84; 69; 99; 104; 111; 87; 114; 105; 116; 101; 114; 95; 95; 95; 119; 97; 108; 107; 95; 69; 120; 112; 66; 105; 110; 79; 112]; [112; 105; 110; 95; 95; 76; 117; 97; 65; 83; 84; 69; 99; 104; 111; 87; 114; 105; 116; 101; 114; 95; 95; 95; 119; 97; 108; 107; 95; 69; 120; 112; 85; 110; 79; 112]; [112; 105; 110; 95; 95; 76; 117; 97; 65; 83; 84; 69; 99; 104; 111; 87; 114; 105; 116; 101; 114; 95; 95; 95; 119; 97; 108; 107; 95; 70; 117; 110; 99; 116; 105; 111; 110; 67; 97; 108; 108]; [112; 105; 110; 95; 95; 76; 117; 97; 65; 83; 84; 69; 99; 104; 111; 87; 114; 105; 116; 101; 114; 95; 95; 95; 119; 97; 108; 107; 95; 70; 117; 110; 99; 116; 105; 111; 110; 67; 97; 108; 108; 77; 101; 116; 104; 111; 100]; [112; 105; 110; 95; 95; 76; 117; 97; 65; 83; 84; 69; 99; 104; 111; 87; 114; 105; 116; 101; 114; 95; 95; 95; 119; 97; 108; 107; 95; 70; 117; 110; 99; 116; 105; 111; 110]; [112; 105; 110; 95; 95; 76; 117; 97; 65; 83; 84; 69; 99; 104; 111; 87; 114; 105; 116; 101; 114; 95; 95; 95; 119; 97; 108; 107; 95; 70; 117; 110; 99; 116; 105; 111; 110; 66; 111; 100; 121]; [112; 105; 110; 95; 95; 76; 117; 97; 65; 83; 84; 69; 99; 104; 111; 87; 114; 105; 116; 101; 114; 95; 95; 95; 119; 97; 108; 107; 95; 84; 97; 98; 108; 101; 67; 111; 110; 115; 116; 114; 117; 99; 116; 111; 114]; [112; 105; 110; 95; 95; 76; 117; 97; 65; 83; 84; 69; 99; 104; 111; 87; 114; 105; 116; 101; 114; 95; 95; 95; 119; 97; 108; 107; 95; 70; 105; 101; 108; 100; 69; 120; 112; 75; 101; 121]; [112; 105; 110; 95; 95; 76; 117; 97; 65; 83; 84; 69; 99; 104; 111; 87; 114; 105; 116; 101; 114; 95; 95; 95; 119; 97; 108; 107; 95; 70; 105; 101; 108; 100; 78; 97; 109; 101; 100; 75; 101; 121]; [112; 105; 110; 95; 95; 76; 117; 97; 65; 83; 84; 69; 99; 104; 111; 87; 114; 105; 116; 101; 114; 95; 95; 95; 119; 97; 108; 107; 95; 70; 105; 101; 108; 100; 69; 120; 112]; [112; 105; 110; 95; 95; 76; 117; 97; 65; 83; 84; 69; 99; 104; 111; 87; 114; 105; 116; 101; 114; 95; 95; 95; 119; 97; 108; 107]; [112; 105; 110; 95; 95; 76; 117; 97; 65; 83; 84; 69; 99; 104; 111; 87; 114; 105; 116; 101; 114; 95; 95; 116; 111; 95; 108; 105; 110; 101; 115]; [112; 105; 110; 95; 95; 76; 117; 97; 70; 111; 114; 109; 97; 116; 116; 101; 114; 87; 114; 105; 116; 101; 114; 95; 95; 95; 95; 105; 110; 105; 116; 95; 95]; [112; 105; 110; 95; 95; 76; 117; 97; 70; 111; 114; 109; 97; 116; 116; 101; 114; 87; 114; 105; 116; 101; 114; 95; 95; 95; 103; 101; 116; 95; 99; 111; 100; 101; 95; 102; 111; 114; 95; 115; 112; 97; 99; 101; 115]].
Proof. reflexivity. Qed.
