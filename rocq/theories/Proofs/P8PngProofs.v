(* Lemmas for C04: code area, memory layout and pixel rows of the .p8.png codec (Model/P8Png.v, Model/PngStego.v). *)
From Coq Require Import ZArith List Bool Lia ZifyBool.
From PV Require Import Base.Prelude Base.ListX Base.PySlice Spec.PxcFormat Generated.K_compress Generated.K_p8png
  Generated.K_p8png_codec Model.Compress Model.PngStego Model.P8Png Proofs.CompressProofs.
Ltac Zify.zify_post_hook ::= Z.to_euclidean_division_equations.


(* ------------------------------------------------------------------ get_bytes_from_code *)
Definition cr2sp (l : list Z) : list Z := map (fun c => if c =? 13 then 32 else c) l.

Lemma replace1_cr code : replace1 gcb_replace_from gcb_replace_to code = Ok (cr2sp code).
Proof.
  unfold replace1, gcb_replace_from, gcb_replace_to, cr2sp. f_equal.
  induction code as [|c r IH]; [reflexivity|]. cbn [flat_map map]. rewrite IH.
  destruct (c =? 13); reflexivity.
Qed.

Definition no_nul (l : list Z) : Prop := Forall (fun c => c <> 0) l.

(* the encoding get_bytes_from_code picks fits the code area *)
Definition fits (text : list Z) : Prop :=
  exists comp, compress_code text = Ok comp /\
    if zlen comp <? zlen text then zlen text < 65536 /\ 8 + zlen comp <= 15616 else zlen text <= 15616.

Definition stored_compressed (text : list Z) : Prop :=
  exists comp, compress_code text = Ok comp /\ zlen comp < zlen text.

Lemma zeros_setslice n d : zlen d <= n -> 0 <= n ->
  py_setslice (repeat 0 (Z.to_nat n)) 0 (zlen d) d = d ++ repeat 0 (Z.to_nat (n - zlen d)).
Proof.
  intros Hd Hn. pose proof (zlen_nonneg d).
  rewrite py_setslice_inrange; [|lia|unfold zlen in *; rewrite repeat_length; lia].
  cbn [Z.to_nat firstn app]. f_equal.
  rewrite <- (repeat_length 0 (Z.to_nat (zlen d))) at 1.
  replace (Z.to_nat n) with (Z.to_nat (zlen d) + Z.to_nat (n - zlen d))%nat by lia.
  rewrite repeat_app. rewrite skipn_app_le by (rewrite repeat_length; lia).
  rewrite skipn_all2 by (rewrite repeat_length; lia). reflexivity.
Qed.

Lemma len_hi_lo n : 0 <= n < 65536 ->
  gbc_len_hi n = n / 256 /\ gbc_len_lo n = n mod 256 /\ byte (n / 256) /\ byte (n mod 256).
Proof.
  intros H. unfold gbc_len_hi, gbc_len_lo, byte.
  rewrite Z.shiftr_div_pow2 by lia. change 255 with (Z.ones 8). rewrite Z.land_ones by lia.
  change (2 ^ 8) with 256. repeat split; lia.
Qed.

Lemma gbc_refuse text : Forall byte text -> ~ fits text -> get_bytes_from_code text = Err ValueError.
Proof.
  intros Hb Hnf. destruct (compress_code_correct text Hb) as (comp & sfx & Ec & _).
  unfold get_bytes_from_code. rewrite Ec. cbn [bind]. unfold gbc_use_compressed.
  pose proof (zlen_nonneg text). pose proof (zlen_nonneg comp).
  destruct (zlen comp <? zlen text) eqn:E.
  - destruct (Z_lt_dec (zlen text) 65536) as [Hl|Hl].
    + destruct (len_hi_lo (zlen text) ltac:(lia)) as (E1 & E2 & B1 & B2).
      unfold bytes_of_ints. rewrite E1, E2.
      assert (Ea : all_bytes [zlen text / 256; zlen text mod 256] = true).
      { apply all_bytes_Forall. constructor; [exact B1|constructor; [exact B2|constructor]]. }
      rewrite Ea. cbn [bind]. unfold gbc_too_big.
      destruct (zlen (gbc_magic ++ [zlen text / 256; zlen text mod 256] ++ gbc_pad ++ comp) >? 32768 - 17152) eqn:Eb; [reflexivity|].
      exfalso. apply Hnf. exists comp. split; [exact Ec|]. rewrite E.
      rewrite !zlen_app in Eb. change (zlen gbc_magic) with 4 in Eb. change (zlen gbc_pad) with 2 in Eb.
      change (zlen [zlen text / 256; zlen text mod 256]) with 2 in Eb. lia.
    + unfold bytes_of_ints, gbc_len_hi.
      assert (Ea : all_bytes [Z.shiftr (zlen text) 8; gbc_len_lo (zlen text)] = false).
      { unfold all_bytes. cbn [forallb]. rewrite Z.shiftr_div_pow2 by lia. change (2 ^ 8) with 256.
        unfold byteb. assert (E1 : (zlen text / 256 <? 256) = false) by lia. rewrite E1.
        rewrite andb_false_r. reflexivity. }
      rewrite Ea. reflexivity.
  - cbn [bind]. unfold gbc_too_big. destruct (zlen text >? 32768 - 17152) eqn:Eb; [reflexivity|].
    exfalso. apply Hnf. exists comp. split; [exact Ec|]. rewrite E. lia.
Qed.

(* what the area looks like when the code fits *)
Lemma gbc_fits text : Forall byte text -> fits text ->
  exists comp, compress_code text = Ok comp /\
  get_bytes_from_code text = Ok (
    if zlen comp <? zlen text
    then 58 :: 99 :: 58 :: 0 :: zlen text / 256 :: zlen text mod 256 :: 0 :: 0 ::
         comp ++ repeat 0 (Z.to_nat (15616 - 8 - zlen comp))
    else text ++ repeat 0 (Z.to_nat (15616 - zlen text))).
Proof.
  intros Hb (comp & Ec & Hf). exists comp. split; [exact Ec|].
  unfold get_bytes_from_code. rewrite Ec. cbn [bind]. unfold gbc_use_compressed.
  pose proof (zlen_nonneg text). pose proof (zlen_nonneg comp).
  destruct (zlen comp <? zlen text) eqn:E.
  - destruct Hf as [Hl Hc]. destruct (len_hi_lo (zlen text) ltac:(lia)) as (E1 & E2 & B1 & B2).
    unfold bytes_of_ints. rewrite E1, E2.
    assert (Ea : all_bytes [zlen text / 256; zlen text mod 256] = true).
    { apply all_bytes_Forall. constructor; [exact B1|constructor; [exact B2|constructor]]. }
    rewrite Ea. cbn [bind]. unfold gbc_too_big.
    set (cb := gbc_magic ++ [zlen text / 256; zlen text mod 256] ++ gbc_pad ++ comp).
    assert (Hcb : zlen cb = 8 + zlen comp).
    { unfold cb. rewrite !zlen_app. change (zlen gbc_magic) with 4. change (zlen gbc_pad) with 2.
      change (zlen [zlen text / 256; zlen text mod 256]) with 2. lia. }
    assert (Eb : (zlen cb >? 32768 - 17152) = false) by lia. rewrite Eb.
    unfold gbc_area_size. change (32768 - 17152) with 15616.
    rewrite zeros_setslice by lia. rewrite Hcb. unfold cb, gbc_magic, gbc_pad. cbn [app].
    replace (15616 - (8 + zlen comp)) with (15616 - 8 - zlen comp) by lia. reflexivity.
  - cbn [bind]. unfold gbc_too_big.
    assert (Eb : (zlen text >? 32768 - 17152) = false) by lia. rewrite Eb.
    unfold gbc_area_size. change (32768 - 17152) with 15616.
    rewrite zeros_setslice by lia. reflexivity.
Qed.

(* ------------------------------------------------------------------ get_code_from_bytes *)
Lemma index_of_nonul text : no_nul text -> forall k r,
  index_of 0 (text ++ r) k = index_of 0 r (k + zlen text).
Proof.
  induction 1 as [|c t Hc Ht IH]; intros k r; cbn [app index_of].
  - change (zlen (@nil Z)) with 0. rewrite Z.add_0_r. reflexivity.
  - assert (E : (c =? 0) = false) by lia. rewrite E, IH. rewrite zlen_cons. f_equal. lia.
Qed.

Lemma repeat_S {A} (x : A) n : (0 < n)%nat -> repeat x n = x :: repeat x (n - 1).
Proof. destruct n; [lia|]. cbn. rewrite Nat.sub_0_r. reflexivity. Qed.

Lemma gcb_raw text v : no_nul text -> zlen text <= 15616 -> text <> [58; 99; 58] ->
  get_code_from_bytes (text ++ repeat 0 (Z.to_nat (15616 - zlen text))) v =
  Ok (zlen text, cr2sp (text ++ [10]), None).
Proof.
  intros Hn Hl Hm. unfold get_code_from_bytes. pose proof (zlen_nonneg text) as H0.
  set (area := text ++ repeat 0 (Z.to_nat (15616 - zlen text))).
  assert (Ha : zlen area = 15616).
  { unfold area. rewrite zlen_app. unfold zlen at 2. rewrite repeat_length. lia. }
  assert (Em : zlist_eqb (py_slice area 0 gcb_magic_len) gcb_magic = false).
  { destruct (zlist_eqb _ _) eqn:E; [|reflexivity]. exfalso. apply zlist_eqb_eq in E.
    unfold gcb_magic_len in E. rewrite py_slice_inrange in E by lia. cbn [Z.to_nat skipn] in E.
    change (Z.to_nat (4 - 0)) with 4%nat in E. unfold area, gcb_magic in E.
    destruct text as [|a [|b [|c [|d t]]]]; cbn in E; try discriminate.
    - injection E as -> -> ->. apply Hm. reflexivity.
    - injection E as -> -> -> ->. unfold no_nul in Hn. rewrite Forall_forall in Hn.
      apply (Hn 0); [right; right; right; left; reflexivity|reflexivity]. }
  rewrite Em. cbn [negb].
  assert (Ei : match index_of gcb_index_arg area 0 with Some k => k | None => gcb_full_len end = zlen text).
  { unfold area, gcb_index_arg. rewrite index_of_nonul by exact Hn.
    destruct (Z.eq_dec (zlen text) 15616) as [E|E].
    - rewrite E. cbn. unfold gcb_full_len. reflexivity.
    - rewrite repeat_S by lia. cbn [index_of]. cbn [Z.eqb]. reflexivity. }
  rewrite Ei. rewrite py_slice_inrange by lia. cbn [Z.to_nat skipn]. rewrite Z.sub_0_r.
  unfold area. rewrite firstn_app_le by (unfold zlen; lia).
  rewrite firstn_all2 by (unfold zlen; lia).
  unfold gcb_raw_suffix. rewrite replace1_cr. reflexivity.
Qed.

Lemma gcb_compressed text comp v :
  Forall byte text -> zlen text < 65536 -> clean text = true -> compress_code text = Ok comp ->
  8 + zlen comp <= 15616 ->
  exists cs, get_code_from_bytes
    (58 :: 99 :: 58 :: 0 :: zlen text / 256 :: zlen text mod 256 :: 0 :: 0 ::
     comp ++ repeat 0 (Z.to_nat (15616 - 8 - zlen comp))) v = Ok (zlen text, cr2sp text, Some cs).
Proof.
  intros Hb Hl Hc Ec Hf. unfold get_code_from_bytes.
  destruct (header_roundtrip text 58 99 58 0 Hb Hl Hc) as (s & Es & Hd).
  rewrite Ec in Es. injection Es as <-.
  destruct (Hd (repeat 0 (Z.to_nat (15616 - 8 - zlen comp)))) as (cs & E).
  set (area := 58 :: 99 :: 58 :: 0 :: _) in *.
  assert (Em : zlist_eqb (py_slice area 0 gcb_magic_len) gcb_magic = true).
  { unfold gcb_magic_len. rewrite py_slice_inrange; [reflexivity|lia|].
    unfold area, zlen. cbn [length]. lia. }
  rewrite Em. cbn [negb]. rewrite E. cbn [bind]. rewrite replace1_cr. cbn [bind].
  exists cs. reflexivity.
Qed.

(* ------------------------------------------------------------------ memory layout *)
Definition wf_cart (c : cart) : Prop :=
  zlen (c_gfx c) = 8192 /\ zlen (c_map c) = 4096 /\ zlen (c_gff c) = 256 /\ zlen (c_music c) = 256 /\
  zlen (c_sfx c) = 4352 /\ byte (c_version c).

Lemma py_slice_mid {A} (a b c : list A) lo hi :
  lo = zlen a -> hi = zlen a + zlen b -> py_slice (a ++ b ++ c) lo hi = b.
Proof.
  intros -> ->. pose proof (zlen_nonneg a). pose proof (zlen_nonneg b).
  rewrite py_slice_inrange; [|lia|rewrite !zlen_app; pose proof (zlen_nonneg c); lia].
  replace (Z.to_nat (zlen a)) with (length a) by (unfold zlen; lia).
  rewrite skipn_app_le by lia. rewrite skipn_all. cbn [app].
  replace (Z.to_nat (zlen a + zlen b - zlen a)) with (length b) by (unfold zlen; lia).
  rewrite firstn_app_le by lia. apply firstn_all.
Qed.

Lemma layout c area extra : wf_cart c -> zlen area = 15616 ->
  exists pd, join_mem c area = Ok pd /\ zlen pd = 32769 /\
    split_mem (pd ++ extra) = Ok {| r_gfx := c_gfx c; r_map := c_map c; r_gff := c_gff c; r_music := c_music c;
                                    r_sfx := c_sfx c; r_codedata := area; r_version := c_version c |}.
Proof.
  intros (H1 & H2 & H3 & H4 & H5 & Hv) Ha. unfold join_mem, bytes_of_ints.
  assert (Eb : all_bytes [c_version c] = true) by (apply all_bytes_Forall; constructor; [exact Hv|constructor]).
  rewrite Eb. cbn [bind]. eexists. split; [reflexivity|].
  unfold png_join_order. cbn [map concat section_by_id Z.eqb Pos.eqb]. rewrite app_nil_r.
  set (g := c_gfx c) in *. set (m := c_map c) in *. set (f := c_gff c) in *. set (mu := c_music c) in *.
  set (s := c_sfx c) in *. set (v := c_version c) in *.
  split.
  { rewrite !zlen_app. change (zlen [v]) with 1. lia. }
  unfold split_mem.
  assert (Ev : py_get (((g ++ m ++ f ++ mu ++ s) ++ area ++ [v]) ++ extra) raw_version_idx = Ok v).
  { apply py_get_nth; [unfold raw_version_idx; lia|].
    replace (((g ++ m ++ f ++ mu ++ s) ++ area ++ [v]) ++ extra) with
      (((g ++ m ++ f ++ mu ++ s) ++ area) ++ v :: extra) by (rewrite <- !app_assoc; reflexivity).
    rewrite nth_error_app2; unfold raw_version_idx, zlen in *; rewrite !app_length.
    - replace (Z.to_nat 32768 - (length g + (length m + (length f + (length mu + length s))) + length area))%nat with O by lia.
      reflexivity.
    - lia. }
  rewrite Ev. cbn [bind]. f_equal.
  unfold raw_gfx_lo, raw_gfx_hi, raw_p8map_lo, raw_p8map_hi, raw_gfx_props_lo, raw_gfx_props_hi,
    raw_song_lo, raw_song_hi, raw_sfx_lo, raw_sfx_hi, raw_codedata_lo, raw_codedata_hi.
  f_equal.
  - replace (((g ++ m ++ f ++ mu ++ s) ++ area ++ [v]) ++ extra) with
      ([] ++ g ++ (m ++ f ++ mu ++ s ++ area ++ [v] ++ extra)) by (cbn [app]; rewrite <- !app_assoc; reflexivity).
    apply py_slice_mid; [reflexivity|]. change (zlen (@nil Z)) with 0. lia.
  - replace (((g ++ m ++ f ++ mu ++ s) ++ area ++ [v]) ++ extra) with
      (g ++ m ++ (f ++ mu ++ s ++ area ++ [v] ++ extra)) by (rewrite <- !app_assoc; reflexivity).
    apply py_slice_mid; lia.
  - replace (((g ++ m ++ f ++ mu ++ s) ++ area ++ [v]) ++ extra) with
      ((g ++ m) ++ f ++ (mu ++ s ++ area ++ [v] ++ extra)) by (rewrite <- !app_assoc; reflexivity).
    apply py_slice_mid; rewrite !zlen_app; lia.
  - replace (((g ++ m ++ f ++ mu ++ s) ++ area ++ [v]) ++ extra) with
      ((g ++ m ++ f) ++ mu ++ (s ++ area ++ [v] ++ extra)) by (rewrite <- !app_assoc; reflexivity).
    apply py_slice_mid; rewrite !zlen_app; lia.
  - replace (((g ++ m ++ f ++ mu ++ s) ++ area ++ [v]) ++ extra) with
      ((g ++ m ++ f ++ mu) ++ s ++ (area ++ [v] ++ extra)) by (rewrite <- !app_assoc; reflexivity).
    apply py_slice_mid; rewrite !zlen_app; lia.
  - replace (((g ++ m ++ f ++ mu ++ s) ++ area ++ [v]) ++ extra) with
      ((g ++ m ++ f ++ mu ++ s) ++ area ++ ([v] ++ extra)) by (rewrite <- !app_assoc; reflexivity).
    apply py_slice_mid; rewrite !zlen_app; lia.
Qed.
