(* Lemmas for C04: code area, memory layout and pixel rows of the .p8.png codec (Model/P8Png.v, Model/PngStego.v). *)
From Coq Require Import ZArith List Bool Lia ZifyBool.
From PV Require Import Base.Prelude Base.ListX Base.PySlice Spec.PxcFormat Spec.P8PngSpec Generated.K_compress Generated.K_p8png
  Generated.K_p8png_codec Model.Compress Model.HexSection Model.Gfx Model.Gff Model.PngStego Model.P8Png Instances.HoldsC04 Proofs.CompressProofs.
Ltac Zify.zify_post_hook ::= Z.to_euclidean_division_equations.


(* ------------------------------------------------------------------ get_bytes_from_code *)
Definition cr2sp (l : list Z) : list Z := map (fun c => if c =? 13 then 32 else c) l.

Lemma replace1_cr code : replace1 gcb_replace_from gcb_replace_to code = Ok (cr2sp code).
Proof.
  unfold replace1, gcb_replace_from, gcb_replace_to, cr2sp. f_equal.
  induction code as [|c r IH]; [reflexivity|]. cbn [flat_map map]. rewrite IH.
  destruct (c =? 13); reflexivity.
Qed.

Definition no_nul (l : list Z) : Prop := Forall (fun c => c <> 0) l.

(* the code fits the cartridge: as plain text, or compressed (8 header bytes + stream, 16-bit length) *)
Definition fits (text : list Z) : Prop :=
  exists comp, compress_code text = Ok comp /\
    (zlen text <= 15616 \/ (zlen comp + 8 <= 15616 /\ zlen text < 65536)).

Lemma zeros_setslice n d : zlen d <= n -> 0 <= n ->
  py_setslice (repeat 0 (Z.to_nat n)) 0 (zlen d) d = d ++ repeat 0 (Z.to_nat (n - zlen d)).
Proof.
  intros Hd Hn. pose proof (zlen_nonneg d).
  rewrite py_setslice_inrange; [|lia|unfold zlen in *; rewrite repeat_length; lia].
  cbn [Z.to_nat firstn app]. f_equal.
  rewrite <- (repeat_length 0 (Z.to_nat (zlen d))) at 1.
  replace (Z.to_nat n) with (Z.to_nat (zlen d) + Z.to_nat (n - zlen d))%nat by lia.
  rewrite repeat_app. rewrite skipn_app_le by (rewrite repeat_length; lia).
  rewrite skipn_all2 by (rewrite repeat_length; lia). reflexivity.
Qed.

Lemma len_hi_lo n : 0 <= n < 65536 ->
  gbc_len_hi n = n / 256 /\ gbc_len_lo n = n mod 256 /\ byte (n / 256) /\ byte (n mod 256).
Proof.
  intros H. unfold gbc_len_hi, gbc_len_lo, byte.
  rewrite Z.shiftr_div_pow2 by lia. change 255 with (Z.ones 8). rewrite Z.land_ones by lia.
  change (2 ^ 8) with 256. repeat split; lia.
Qed.

Lemma gbc_refuse text : Forall byte text -> ~ fits text -> get_bytes_from_code text = Err ValueError.
Proof.
  intros Hb Hnf. destruct (compress_code_correct text Hb) as (comp & sfx & Ec & _).
  unfold get_bytes_from_code. rewrite Ec. cbn [bind]. unfold gbc_use_compressed.
  pose proof (zlen_nonneg text). pose proof (zlen_nonneg comp).
  assert (Hn1 : ~ zlen text <= 15616) by (intros Hx; apply Hnf; exists comp; auto).
  assert (Hn2 : ~ (zlen comp + 8 <= 15616 /\ zlen text < 65536)) by (intros Hx; apply Hnf; exists comp; auto).
  destruct ((zlen comp <? zlen text) && (zlen comp + 8 <=? 32768 - 17152)) eqn:E.
  - unfold bytes_of_ints, gbc_len_hi.
    assert (Ea : all_bytes [Z.shiftr (zlen text) 8; gbc_len_lo (zlen text)] = false).
    { unfold all_bytes. cbn [forallb]. rewrite Z.shiftr_div_pow2 by lia. change (2 ^ 8) with 256.
      unfold byteb. assert (E1 : (zlen text / 256 <? 256) = false) by lia. rewrite E1.
      rewrite andb_false_r. reflexivity. }
    rewrite Ea. reflexivity.
  - cbn [bind]. unfold gbc_too_big. assert (Eb : (zlen text >? 32768 - 17152) = true) by lia. rewrite Eb. reflexivity.
Qed.

(* which form is written *)
Definition is_compressed (code : list Z) : bool :=
  match compress_code code with Ok comp => gbc_use_compressed (zlen comp) (zlen code) | Err _ => false end.

(* what the area looks like when the code fits *)
Lemma gbc_fits text : Forall byte text -> fits text ->
  exists comp, compress_code text = Ok comp /\
  get_bytes_from_code text = Ok (
    if is_compressed text
    then 58 :: 99 :: 58 :: 0 :: zlen text / 256 :: zlen text mod 256 :: 0 :: 0 ::
         comp ++ repeat 0 (Z.to_nat (15616 - 8 - zlen comp))
    else text ++ repeat 0 (Z.to_nat (15616 - zlen text))) /\
  (is_compressed text = true -> zlen text < 65536 /\ 8 + zlen comp <= 15616) /\
  (is_compressed text = false -> zlen text <= 15616).
Proof.
  intros Hb (comp & Ec & Hf). exists comp. split; [exact Ec|].
  unfold is_compressed, get_bytes_from_code. rewrite Ec. cbn [bind]. unfold gbc_use_compressed.
  pose proof (zlen_nonneg text). pose proof (zlen_nonneg comp).
  destruct ((zlen comp <? zlen text) && (zlen comp + 8 <=? 32768 - 17152)) eqn:E.
  - assert (Hl : zlen text < 65536) by lia. assert (Hc : 8 + zlen comp <= 15616) by lia.
    destruct (len_hi_lo (zlen text) ltac:(lia)) as (E1 & E2 & B1 & B2).
    unfold bytes_of_ints. rewrite E1, E2.
    assert (Ea : all_bytes [zlen text / 256; zlen text mod 256] = true).
    { apply all_bytes_Forall. constructor; [exact B1|constructor; [exact B2|constructor]]. }
    rewrite Ea. cbn [bind]. unfold gbc_too_big.
    set (cb := gbc_magic ++ [zlen text / 256; zlen text mod 256] ++ gbc_pad ++ comp).
    assert (Hcb : zlen cb = 8 + zlen comp).
    { unfold cb. rewrite !zlen_app. change (zlen gbc_magic) with 4. change (zlen gbc_pad) with 2.
      change (zlen [zlen text / 256; zlen text mod 256]) with 2. lia. }
    assert (Eb : (zlen cb >? 32768 - 17152) = false) by lia. rewrite Eb.
    unfold gbc_area_size. change (32768 - 17152) with 15616.
    rewrite zeros_setslice by lia. rewrite Hcb. unfold cb, gbc_magic, gbc_pad. cbn [app].
    replace (15616 - (8 + zlen comp)) with (15616 - 8 - zlen comp) by lia.
    split; [reflexivity|]. split; [intros _; split; lia|discriminate].
  - assert (Hl : zlen text <= 15616) by lia.
    cbn [bind]. unfold gbc_too_big.
    assert (Eb : (zlen text >? 32768 - 17152) = false) by lia. rewrite Eb.
    unfold gbc_area_size. change (32768 - 17152) with 15616.
    rewrite zeros_setslice by lia. split; [reflexivity|]. split; [discriminate|intros _; exact Hl].
Qed.

(* ------------------------------------------------------------------ get_code_from_bytes *)
Lemma index_of_nonul text : no_nul text -> forall k r,
  index_of 0 (text ++ r) k = index_of 0 r (k + zlen text).
Proof.
  induction 1 as [|c t Hc Ht IH]; intros k r; cbn [app index_of].
  - change (zlen (@nil Z)) with 0. rewrite Z.add_0_r. reflexivity.
  - assert (E : (c =? 0) = false) by lia. rewrite E, IH. rewrite zlen_cons. f_equal. lia.
Qed.

Lemma repeat_S {A} (x : A) n : (0 < n)%nat -> repeat x n = x :: repeat x (n - 1).
Proof. destruct n; [lia|]. cbn. rewrite Nat.sub_0_r. reflexivity. Qed.

Lemma gcb_raw text v : no_nul text -> zlen text <= 15616 -> text <> [58; 99; 58] ->
  get_code_from_bytes (text ++ repeat 0 (Z.to_nat (15616 - zlen text))) v =
  Ok (zlen text, cr2sp (text ++ [10]), None).
Proof.
  intros Hn Hl Hm. unfold get_code_from_bytes. pose proof (zlen_nonneg text) as H0.
  set (area := text ++ repeat 0 (Z.to_nat (15616 - zlen text))).
  assert (Ha : zlen area = 15616).
  { unfold area. rewrite zlen_app. unfold zlen at 2. rewrite repeat_length. lia. }
  assert (Em : zlist_eqb (py_slice area 0 gcb_magic_len) gcb_magic = false).
  { destruct (zlist_eqb _ _) eqn:E; [|reflexivity]. exfalso. apply zlist_eqb_eq in E.
    unfold gcb_magic_len in E. rewrite py_slice_inrange in E by lia. cbn [Z.to_nat skipn] in E.
    change (Z.to_nat (4 - 0)) with 4%nat in E. unfold area, gcb_magic in E.
    destruct text as [|a [|b [|c [|d t]]]]; cbn in E; try discriminate.
    - injection E as -> -> ->. apply Hm. reflexivity.
    - injection E as -> -> -> ->. unfold no_nul in Hn. rewrite Forall_forall in Hn.
      apply (Hn 0); [right; right; right; left; reflexivity|reflexivity]. }
  rewrite Em. cbn [negb].
  assert (Ei : match index_of gcb_index_arg area 0 with Some k => k | None => gcb_full_len end = zlen text).
  { unfold area, gcb_index_arg. rewrite index_of_nonul by exact Hn.
    destruct (Z.eq_dec (zlen text) 15616) as [E|E].
    - rewrite E. cbn. unfold gcb_full_len. reflexivity.
    - rewrite repeat_S by lia. cbn [index_of]. cbn [Z.eqb]. reflexivity. }
  rewrite Ei. rewrite py_slice_inrange by lia. cbn [Z.to_nat skipn]. rewrite Z.sub_0_r.
  unfold area. rewrite firstn_app_le by (unfold zlen; lia).
  rewrite firstn_all2 by (unfold zlen; lia).
  unfold gcb_raw_suffix. rewrite replace1_cr. reflexivity.
Qed.

Lemma gcb_compressed text comp v :
  Forall byte text -> zlen text < 65536 -> clean text = true -> compress_code text = Ok comp ->
  8 + zlen comp <= 15616 ->
  exists cs, get_code_from_bytes
    (58 :: 99 :: 58 :: 0 :: zlen text / 256 :: zlen text mod 256 :: 0 :: 0 ::
     comp ++ repeat 0 (Z.to_nat (15616 - 8 - zlen comp))) v = Ok (zlen text, cr2sp text, Some cs).
Proof.
  intros Hb Hl Hc Ec Hf. unfold get_code_from_bytes.
  destruct (header_roundtrip text 58 99 58 0 Hb Hl Hc) as (s & Es & Hd).
  rewrite Ec in Es. injection Es as <-.
  destruct (Hd (repeat 0 (Z.to_nat (15616 - 8 - zlen comp)))) as (cs & E).
  set (area := 58 :: 99 :: 58 :: 0 :: _) in *.
  assert (Em : zlist_eqb (py_slice area 0 gcb_magic_len) gcb_magic = true).
  { unfold gcb_magic_len. rewrite py_slice_inrange; [reflexivity|lia|].
    unfold area, zlen. cbn [length]. lia. }
  rewrite Em. cbn [negb]. rewrite E. cbn [bind]. rewrite replace1_cr. cbn [bind].
  exists cs. reflexivity.
Qed.

(* ------------------------------------------------------------------ memory layout *)
Definition wf_cart (c : cart) : Prop :=
  zlen (c_gfx c) = 8192 /\ zlen (c_map c) = 4096 /\ zlen (c_gff c) = 256 /\ zlen (c_music c) = 256 /\
  zlen (c_sfx c) = 4352 /\ byte (c_version c).

Lemma py_slice_mid {A} (a b c : list A) lo hi :
  lo = zlen a -> hi = zlen a + zlen b -> py_slice (a ++ b ++ c) lo hi = b.
Proof.
  intros -> ->. pose proof (zlen_nonneg a). pose proof (zlen_nonneg b).
  rewrite py_slice_inrange; [|lia|rewrite !zlen_app; pose proof (zlen_nonneg c); lia].
  replace (Z.to_nat (zlen a)) with (length a) by (unfold zlen; lia).
  rewrite skipn_app_le by lia. rewrite skipn_all. cbn [app].
  replace (Z.to_nat (zlen a + zlen b - zlen a)) with (length b) by (unfold zlen; lia).
  rewrite firstn_app_le by lia. apply firstn_all.
Qed.

Lemma layout c area extra : wf_cart c -> zlen area = 15616 ->
  exists pd, join_mem c area = Ok pd /\ zlen pd = 32769 /\
    split_mem (pd ++ extra) = Ok {| r_gfx := c_gfx c; r_map := c_map c; r_gff := c_gff c; r_music := c_music c;
                                    r_sfx := c_sfx c; r_codedata := area; r_version := c_version c |}.
Proof.
  intros (H1 & H2 & H3 & H4 & H5 & Hv) Ha. unfold join_mem, bytes_of_ints.
  assert (Eb : all_bytes [c_version c] = true) by (apply all_bytes_Forall; constructor; [exact Hv|constructor]).
  rewrite Eb. cbn [bind]. eexists. split; [reflexivity|].
  unfold png_join_order. cbn [map concat section_by_id Z.eqb Pos.eqb]. rewrite app_nil_r.
  set (g := c_gfx c) in *. set (m := c_map c) in *. set (f := c_gff c) in *. set (mu := c_music c) in *.
  set (s := c_sfx c) in *. set (v := c_version c) in *.
  split.
  { rewrite !zlen_app. change (zlen [v]) with 1. lia. }
  unfold split_mem.
  assert (Ev : py_get (((g ++ m ++ f ++ mu ++ s) ++ area ++ [v]) ++ extra) raw_version_idx = Ok v).
  { apply py_get_nth; [unfold raw_version_idx; lia|].
    replace (((g ++ m ++ f ++ mu ++ s) ++ area ++ [v]) ++ extra) with
      (((g ++ m ++ f ++ mu ++ s) ++ area) ++ v :: extra) by (rewrite <- !app_assoc; reflexivity).
    rewrite nth_error_app2; unfold raw_version_idx, zlen in *; rewrite !app_length.
    - replace (Z.to_nat 32768 - (length g + (length m + (length f + (length mu + length s))) + length area))%nat with O by lia.
      reflexivity.
    - lia. }
  rewrite Ev. cbn [bind]. f_equal.
  unfold raw_gfx_lo, raw_gfx_hi, raw_p8map_lo, raw_p8map_hi, raw_gfx_props_lo, raw_gfx_props_hi,
    raw_song_lo, raw_song_hi, raw_sfx_lo, raw_sfx_hi, raw_codedata_lo, raw_codedata_hi.
  f_equal.
  - replace (((g ++ m ++ f ++ mu ++ s) ++ area ++ [v]) ++ extra) with
      ([] ++ g ++ (m ++ f ++ mu ++ s ++ area ++ [v] ++ extra)) by (cbn [app]; rewrite <- !app_assoc; reflexivity).
    apply py_slice_mid; [reflexivity|]. change (zlen (@nil Z)) with 0. lia.
  - replace (((g ++ m ++ f ++ mu ++ s) ++ area ++ [v]) ++ extra) with
      (g ++ m ++ (f ++ mu ++ s ++ area ++ [v] ++ extra)) by (rewrite <- !app_assoc; reflexivity).
    apply py_slice_mid; lia.
  - replace (((g ++ m ++ f ++ mu ++ s) ++ area ++ [v]) ++ extra) with
      ((g ++ m) ++ f ++ (mu ++ s ++ area ++ [v] ++ extra)) by (rewrite <- !app_assoc; reflexivity).
    apply py_slice_mid; rewrite !zlen_app; lia.
  - replace (((g ++ m ++ f ++ mu ++ s) ++ area ++ [v]) ++ extra) with
      ((g ++ m ++ f) ++ mu ++ (s ++ area ++ [v] ++ extra)) by (rewrite <- !app_assoc; reflexivity).
    apply py_slice_mid; rewrite !zlen_app; lia.
  - replace (((g ++ m ++ f ++ mu ++ s) ++ area ++ [v]) ++ extra) with
      ((g ++ m ++ f ++ mu) ++ s ++ (area ++ [v] ++ extra)) by (rewrite <- !app_assoc; reflexivity).
    apply py_slice_mid; rewrite !zlen_app; lia.
  - replace (((g ++ m ++ f ++ mu ++ s) ++ area ++ [v]) ++ extra) with
      ((g ++ m ++ f ++ mu ++ s) ++ area ++ ([v] ++ extra)) by (rewrite <- !app_assoc; reflexivity).
    apply py_slice_mid; rewrite !zlen_app; lia.
Qed.

(* ------------------------------------------------------------------ two bits per channel *)
(* one channel: keeps the upper six bits, stores two bits, stays a byte *)
Definition chan_ok (v : Z) : bool :=
  forallb (fun t => let v' := Z.lor (Z.land v (Z.lnot 3)) t in
                    (v' / 4 =? v / 4) && (Z.land v' 3 =? t) && byteb v') (upto 4).
Lemma chan_ok_all : forallb chan_ok (upto 256) = true.
Proof. vm_compute. reflexivity. Qed.

Lemma chan_spec v t : byte v -> 0 <= t < 4 ->
  let v' := Z.lor (Z.land v (Z.lnot 3)) t in v' / 4 = v / 4 /\ Z.land v' 3 = t /\ byte v'.
Proof.
  intros Hv Ht. assert (E := sweep_byte chan_ok chan_ok_all v Hv). unfold chan_ok in E.
  assert (E2 := sweep_upto _ 4 E t Ht). cbn beta zeta in E2.
  apply andb_true_iff in E2. destruct E2 as [E2 E3]. apply andb_true_iff in E2. destruct E2 as [E1 E2].
  apply byteb_spec in E3. cbv zeta. repeat split; lia || apply E3.
Qed.

(* the four two-bit fields of a byte reassemble to the byte *)
Definition fields_ok (pb : Z) : bool :=
  (Z.lor (Z.lor (Z.lor (Z.lor 0 (Z.shiftl (Z.land pb 3) (0 * 2))) (Z.shiftl (Z.land (Z.shiftr pb 2) 3) (1 * 2)))
                (Z.shiftl (Z.land (Z.shiftr pb 4) 3) (2 * 2))) (Z.shiftl (Z.land (Z.shiftr pb 6) 3) (3 * 2)) =? pb)
  && (Z.land pb 3 <? 4) && (Z.land (Z.shiftr pb 2) 3 <? 4) && (Z.land (Z.shiftr pb 4) 3 <? 4) && (Z.land (Z.shiftr pb 6) 3 <? 4)
  && (0 <=? Z.land pb 3) && (0 <=? Z.land (Z.shiftr pb 2) 3) && (0 <=? Z.land (Z.shiftr pb 4) 3) && (0 <=? Z.land (Z.shiftr pb 6) 3).
Lemma fields_ok_all : forallb fields_ok (upto 256) = true.
Proof. vm_compute. reflexivity. Qed.

Lemma stego_pixel r g b a pb : byte r -> byte g -> byte b -> byte a -> byte pb ->
  match pack4 r g b a pb with
  | [r'; g'; b'; a'] =>
    unpack4 r' g' b' a' = pb /\ r' / 4 = r / 4 /\ g' / 4 = g / 4 /\ b' / 4 = b / 4 /\ a' / 4 = a / 4 /\
    byte r' /\ byte g' /\ byte b' /\ byte a'
  | _ => False
  end.
Proof.
  intros Hr Hg Hb Ha Hp. unfold pack4, unpack4, pn_val_0, pn_val_1, pn_val_2, pn_val_3, pd_val_0, pd_val_1, pd_val_2, pd_val_3.
  cbn [Z.mul Z.add Z.eqb Pos.eqb].
  assert (F := sweep_byte fields_ok fields_ok_all pb Hp). unfold fields_ok in F.
  repeat (apply andb_true_iff in F; destruct F as [F ?]).
  destruct (chan_spec r (Z.land (Z.shiftr pb 4) 3) Hr ltac:(lia)) as (R1 & R2 & R3).
  destruct (chan_spec g (Z.land (Z.shiftr pb 2) 3) Hg ltac:(lia)) as (G1 & G2 & G3).
  destruct (chan_spec b (Z.land pb 3) Hb ltac:(lia)) as (B1 & B2 & B3).
  destruct (chan_spec a (Z.land (Z.shiftr pb 6) 3) Ha ltac:(lia)) as (A1 & A2 & A3).
  cbv zeta in *. rewrite R2, G2, B2, A2. split; [apply Z.eqb_eq; exact F|]. repeat (split; [assumption|]). assumption.
Qed.

(* ------------------------------------------------------------------ indexing inside an appended list *)
Lemma py_get_app {A} (pre l : list A) i : 0 <= i -> py_get (pre ++ l) (zlen pre + i) = py_get l i.
Proof.
  intros Hi. unfold py_get. rewrite zlen_app. pose proof (zlen_nonneg pre).
  assert (E1 : (zlen pre + i <? 0) = false) by lia. assert (E2 : (i <? 0) = false) by lia. rewrite !E1, !E2.
  cbn [orb].
  destruct (zlen l <=? i) eqn:E3.
  - assert (E4 : (zlen pre + zlen l <=? zlen pre + i) = true) by lia. rewrite E4. reflexivity.
  - assert (E4 : (zlen pre + zlen l <=? zlen pre + i) = false) by lia. rewrite E4.
    rewrite nth_error_app2 by (unfold zlen; lia).
    replace (Z.to_nat (zlen pre + i) - length pre)%nat with (Z.to_nat i) by (unfold zlen; lia). reflexivity.
Qed.

Lemma set_nth_app {A} (pre l : list A) j x : set_nth (pre ++ l) (length pre + j) x = pre ++ set_nth l j x.
Proof. induction pre as [|y pre IH]; [reflexivity|]. cbn. rewrite IH. reflexivity. Qed.

Lemma py_set_byte_app pre l i v : 0 <= i < zlen l -> byte v ->
  py_set_byte (pre ++ l) (zlen pre + i) v = Ok (pre ++ set_nth l (Z.to_nat i) v).
Proof.
  intros Hi Hv. unfold py_set_byte, py_set. rewrite zlen_app. pose proof (zlen_nonneg pre).
  assert (E1 : (zlen pre + i <? 0) = false) by lia. rewrite E1.
  assert (E4 : (zlen pre + i <? 0) || (zlen pre + zlen l <=? zlen pre + i) = false) by lia. rewrite E4.
  cbn [bind]. rewrite (proj2 (byteb_spec v) Hv).
  replace (Z.to_nat (zlen pre + i)) with (length pre + Z.to_nat i)%nat by (unfold zlen; lia).
  rewrite set_nth_app. reflexivity.
Qed.

(* ------------------------------------------------------------------ one pixel of get_pngdata_from_picodata *)
Section PixelStep.
Context (picodata : list Z) (row_i width : Z).

Lemma pn_pixel_inrange pre r g b a post done z0 z1 z2 z3 zs col pb :
  zlen pre = col * 4 -> zlen done = col * 4 ->
  byte r -> byte g -> byte b -> byte a -> byte pb ->
  pn_inrange row_i width col (zlen picodata) = true ->
  py_get picodata (pn_byte_idx row_i width col) = Ok pb ->
  pn_pixel picodata (pre ++ r :: g :: b :: a :: post) 4 row_i width (done ++ z0 :: z1 :: z2 :: z3 :: zs) col
  = Ok (done ++ pack4 r g b a pb ++ zs).
Proof.
  intros Hpre Hdone Hr Hg Hb Ha Hp Hin Hget.
  set (row := pre ++ r :: g :: b :: a :: post).
  assert (G : forall j x, 0 <= j -> nth_error (r :: g :: b :: a :: post) (Z.to_nat j) = Some x ->
              py_get row (col * 4 + j) = Ok x).
  { intros j x Hj Hn. unfold row. rewrite <- Hpre. rewrite py_get_app by exact Hj. apply py_get_nth; assumption. }
  assert (G0 := G 0 r ltac:(lia) eq_refl). assert (G1 := G 1 g ltac:(lia) eq_refl).
  assert (G2 := G 2 b ltac:(lia) eq_refl). assert (G3 := G 3 a ltac:(lia) eq_refl).
  destruct (stego_pixel r g b a pb Hr Hg Hb Ha Hp) as (_ & _ & _ & _ & _ & Br & Bg & Bb & Ba).
  unfold pack4 in *. unfold pn_pixel. rewrite Hin, Hget. cbn [bind].
  unfold pn_idx_0, pn_idx_1, pn_idx_2, pn_idx_3.
  unfold pn_val_0, pn_val_1, pn_val_2, pn_val_3 in *. unfold arr.
  rewrite G0, G1, G2, G3. cbn [bind].
  cbn [Z.mul Z.add Z.eqb Pos.eqb] in Br, Bg, Bb, Ba |- *.
  assert (S : forall l j v, 0 <= j < zlen l -> byte v ->
              py_set_byte (done ++ l) (col * 4 + j) v = Ok (done ++ set_nth l (Z.to_nat j) v)).
  { intros l j v Hj Hv. rewrite <- Hdone. apply py_set_byte_app; assumption. }
  assert (L4 : forall (x0 x1 x2 x3 : Z), 4 <= zlen (x0 :: x1 :: x2 :: x3 :: zs)).
  { intros. rewrite !zlen_cons. pose proof (zlen_nonneg zs). lia. }
  rewrite S by (try exact Bb; pose proof (L4 z0 z1 z2 z3); lia).
  change (Z.to_nat 2) with 2%nat. cbn [bind set_nth].
  rewrite S by (try exact Bg; match goal with |- _ <= _ < zlen (?x0 :: ?x1 :: ?x2 :: ?x3 :: zs) => pose proof (L4 x0 x1 x2 x3) end; lia).
  change (Z.to_nat 1) with 1%nat. cbn [bind set_nth].
  rewrite S by (try exact Br; match goal with |- _ <= _ < zlen (?x0 :: ?x1 :: ?x2 :: ?x3 :: zs) => pose proof (L4 x0 x1 x2 x3) end; lia).
  change (Z.to_nat 0) with 0%nat. cbn [bind set_nth].
  rewrite S by (try exact Ba; match goal with |- _ <= _ < zlen (?x0 :: ?x1 :: ?x2 :: ?x3 :: zs) => pose proof (L4 x0 x1 x2 x3) end; lia).
  change (Z.to_nat 3) with 3%nat. cbn [set_nth app]. reflexivity.
Qed.

Lemma pn_pixel_outside pre r g b a post done z0 z1 z2 z3 zs col :
  zlen pre = col * 4 -> zlen done = col * 4 ->
  byte r -> byte g -> byte b -> byte a ->
  pn_inrange row_i width col (zlen picodata) = false ->
  pn_pixel picodata (pre ++ r :: g :: b :: a :: post) 4 row_i width (done ++ z0 :: z1 :: z2 :: z3 :: zs) col
  = Ok (done ++ r :: g :: b :: a :: zs).
Proof.
  intros Hpre Hdone Hr Hg Hb Ha Hin.
  set (row := pre ++ r :: g :: b :: a :: post).
  assert (G : forall j x, 0 <= j -> nth_error (r :: g :: b :: a :: post) (Z.to_nat j) = Some x ->
              py_get row (col * 4 + j) = Ok x).
  { intros j x Hj Hn. unfold row. rewrite <- Hpre. rewrite py_get_app by exact Hj. apply py_get_nth; assumption. }
  assert (G0 := G 0 r ltac:(lia) eq_refl). assert (G1 := G 1 g ltac:(lia) eq_refl).
  assert (G2 := G 2 b ltac:(lia) eq_refl). assert (G3 := G 3 a ltac:(lia) eq_refl).
  unfold pn_pixel. rewrite Hin. change (upto 4) with [0; 1; 2; 3].
  unfold pn_copy_idx, pn_copy_val, arr. cbn [foldM].
  rewrite G0, G1, G2, G3. cbn [bind].
  assert (S : forall l j v, 0 <= j < zlen l -> byte v ->
              py_set_byte (done ++ l) (col * 4 + j) v = Ok (done ++ set_nth l (Z.to_nat j) v)).
  { intros l j v Hj Hv. rewrite <- Hdone. apply py_set_byte_app; assumption. }
  assert (L4 : forall (x0 x1 x2 x3 : Z), 4 <= zlen (x0 :: x1 :: x2 :: x3 :: zs)).
  { intros. rewrite !zlen_cons. pose proof (zlen_nonneg zs). lia. }
  rewrite S by (try exact Hr; pose proof (L4 z0 z1 z2 z3); lia).
  change (Z.to_nat 0) with 0%nat. cbn [bind set_nth].
  rewrite S by (try exact Hg; match goal with |- _ <= _ < zlen (?x0 :: ?x1 :: ?x2 :: ?x3 :: zs) => pose proof (L4 x0 x1 x2 x3) end; lia).
  change (Z.to_nat 1) with 1%nat. cbn [bind set_nth].
  rewrite S by (try exact Hb; match goal with |- _ <= _ < zlen (?x0 :: ?x1 :: ?x2 :: ?x3 :: zs) => pose proof (L4 x0 x1 x2 x3) end; lia).
  change (Z.to_nat 2) with 2%nat. cbn [bind set_nth].
  rewrite S by (try exact Ha; match goal with |- _ <= _ < zlen (?x0 :: ?x1 :: ?x2 :: ?x3 :: zs) => pose proof (L4 x0 x1 x2 x3) end; lia).
  change (Z.to_nat 3) with 3%nat. cbn [set_nth]. reflexivity.
Qed.
End PixelStep.

(* ------------------------------------------------------------------ one row *)
Lemma skipn_cons_nth {A} (l : list A) n x t : skipn n l = x :: t -> nth_error l n = Some x /\ skipn (S n) l = t.
Proof.
  revert l; induction n as [|n IH]; intros l H.
  - cbn in H. subst l. split; reflexivity.
  - destruct l as [|y l]; [discriminate|]. cbn [skipn] in H. apply IH in H. exact H.
Qed.

Lemma skipn_nil_ge {A} (l : list A) n : skipn n l = [] -> (length l <= n)%nat.
Proof.
  revert l; induction n as [|n IH]; intros l H.
  - cbn in H. subst l. cbn. lia.
  - destruct l as [|y l]; [cbn; lia|]. cbn [skipn] in H. apply IH in H. cbn. lia.
Qed.

Lemma pn_row_loop picodata row_i width (Hw : 0 <= row_i * width) (Hpd : Forall byte picodata) :
  forall m k pre rest done,
  length rest = (4 * m)%nat -> zlen pre = Z.of_nat k * 4 -> zlen done = Z.of_nat k * 4 -> Forall byte rest ->
  foldM (pn_pixel picodata (pre ++ rest) 4 row_i width) (map Z.of_nat (seq k m)) (done ++ repeat 0 (4 * m))
  = Ok (done ++ pack_row rest (firstn m (skipn (Z.to_nat (row_i * width) + k) picodata))).
Proof.
  induction m as [|m IH]; intros k pre rest done Hl Hpre Hdone Hb.
  - destruct rest; [|discriminate]. reflexivity.
  - destruct rest as [|r [|g [|b [|a rest']]]]; try (cbn in Hl; lia).
    replace (4 * S m)%nat with (S (S (S (S (4 * m))))) by lia. cbn [repeat seq map foldM].
    inversion Hb as [|? ? Hr Hb1]; subst. inversion Hb1 as [|? ? Hg Hb2]; subst.
    inversion Hb2 as [|? ? Hbb Hb3]; subst. inversion Hb3 as [|? ? Ha Hb4]; subst.
    set (N := (Z.to_nat (row_i * width) + k)%nat).
    assert (Hidx : pn_byte_idx row_i width (Z.of_nat k) = Z.of_nat N) by (unfold pn_byte_idx, N; lia).
    assert (Hstep : exists px, pn_pixel picodata (pre ++ r :: g :: b :: a :: rest') 4 row_i width
                       (done ++ 0 :: 0 :: 0 :: 0 :: repeat 0 (4 * m)) (Z.of_nat k) = Ok (done ++ px ++ repeat 0 (4 * m)) /\
                     length px = 4%nat /\
                     pack_row (r :: g :: b :: a :: rest') (firstn (S m) (skipn N picodata)) =
                     px ++ pack_row rest' (firstn m (skipn (S N) picodata))).
    { destruct (skipn N picodata) as [|pb t] eqn:Es.
      - exists [r; g; b; a]. split; [|split; [reflexivity|]].
        + apply pn_pixel_outside; try assumption.
          unfold pn_inrange. apply skipn_nil_ge in Es. fold (pn_byte_idx row_i width (Z.of_nat k)). rewrite Hidx.
          unfold zlen. lia.
        + assert (E2 : skipn (S N) picodata = []).
          { apply skipn_all2. apply skipn_nil_ge in Es. lia. }
          rewrite E2. destruct m; reflexivity.
      - apply skipn_cons_nth in Es. destruct Es as [En Et].
        assert (Hpb : byte pb). { rewrite Forall_forall in Hpd. apply Hpd. eapply nth_error_In. exact En. }
        exists (pack4 r g b a pb). split; [|split; [reflexivity|]].
        + apply pn_pixel_inrange; try assumption.
          * unfold pn_inrange. fold (pn_byte_idx row_i width (Z.of_nat k)). rewrite Hidx.
            assert (N < length picodata)%nat by (apply nth_error_Some; congruence). unfold zlen. lia.
          * rewrite Hidx. apply py_get_nth; [lia|]. rewrite Nat2Z.id. exact En.
        + rewrite Et. reflexivity. }
    destruct Hstep as (px & Estep & Hpx & Epack). rewrite Estep. cbn [bind].
    replace (pre ++ r :: g :: b :: a :: rest') with ((pre ++ [r; g; b; a]) ++ rest') by (rewrite <- app_assoc; reflexivity).
    rewrite app_assoc. rewrite (IH (S k) (pre ++ [r; g; b; a]) rest' (done ++ px)).
    + rewrite Epack. rewrite <- app_assoc.
      replace (Z.to_nat (row_i * width) + S k)%nat with (S N) by (unfold N; lia). reflexivity.
    + cbn in Hl. lia.
    + rewrite zlen_app. change (zlen [r; g; b; a]) with 4. lia.
    + rewrite zlen_app. unfold zlen at 2. rewrite Hpx. lia.
    + exact Hb4.
Qed.

Lemma pn_row_spec picodata row_i row w :
  0 <= row_i -> Forall byte picodata -> Forall byte row -> length row = (4 * w)%nat ->
  pn_row picodata 4 row_i row =
  Ok (pack_row row (firstn w (skipn (Z.to_nat (row_i * Z.of_nat w)) picodata))).
Proof.
  intros Hi Hpd Hb Hl. unfold pn_row.
  assert (Ew : zlen row / 4 = Z.of_nat w) by (unfold zlen; rewrite Hl; lia). rewrite Ew.
  unfold upto. rewrite Nat2Z.id.
  replace (Z.to_nat (Z.of_nat w * 4)) with (4 * w)%nat by lia.
  pose proof (pn_row_loop picodata row_i (Z.of_nat w) ltac:(lia) Hpd w 0 [] row [] Hl eq_refl eq_refl Hb) as H.
  cbn [app] in H. rewrite Nat.add_0_r in H. exact H.
Qed.

(* ------------------------------------------------------------------ all rows: writing *)
Definition wf_rows (w : nat) (rows : list (list Z)) : Prop :=
  Forall (fun row => length row = (4 * w)%nat /\ Forall byte row) rows.

Lemma rows_loop picodata w (Hpd : Forall byte picodata) : forall rows i, 0 <= i -> wf_rows w rows ->
  mapM (fun ir => pn_row picodata 4 (fst ir) (snd ir)) (enumerate_from i rows)
  = Ok (pack_rows w rows (skipn (Z.to_nat (i * Z.of_nat w)) picodata)).
Proof.
  induction rows as [|row rs IH]; intros i Hi Hwf; [reflexivity|].
  inversion Hwf as [|? ? [Hl Hb] Hwf']; subst. cbn [enumerate_from mapM fst snd pack_rows].
  rewrite (pn_row_spec picodata i row w Hi Hpd Hb Hl). cbn [bind].
  rewrite (IH (i + 1) ltac:(lia) Hwf'). cbn [bind]. do 3 f_equal.
  rewrite skipn_skipn. f_equal. lia.
Qed.

Lemma rows_of_picodata_spec picodata w rows : Forall byte picodata -> wf_rows w rows ->
  rows_of_picodata picodata 4 rows = Ok (pack_rows w rows picodata).
Proof. intros Hpd Hwf. unfold rows_of_picodata. rewrite (rows_loop picodata w Hpd rows 0 ltac:(lia) Hwf). reflexivity. Qed.

(* ------------------------------------------------------------------ reading *)
Lemma pd_pixel_spec pre r g b a post col : zlen pre = col * 4 ->
  pd_pixel (pre ++ r :: g :: b :: a :: post) 4 col = Ok (unpack4 r g b a).
Proof.
  intros Hpre. set (row := pre ++ r :: g :: b :: a :: post).
  assert (G : forall j x, 0 <= j -> nth_error (r :: g :: b :: a :: post) (Z.to_nat j) = Some x ->
              py_get row (col * 4 + j) = Ok x).
  { intros j x Hj Hn. unfold row. rewrite <- Hpre. rewrite py_get_app by exact Hj. apply py_get_nth; assumption. }
  assert (G0 := G 0 r ltac:(lia) eq_refl). assert (G1 := G 1 g ltac:(lia) eq_refl).
  assert (G2 := G 2 b ltac:(lia) eq_refl). assert (G3 := G 3 a ltac:(lia) eq_refl).
  unfold pd_pixel. rewrite G0, G1, G2, G3. cbn [bind].
  unfold unpack4, pd_val_0, pd_val_1, pd_val_2, pd_val_3, arr. rewrite G0, G1, G2, G3. reflexivity.
Qed.

Lemma pd_row_loop : forall m k pre rest,
  length rest = (4 * m)%nat -> zlen pre = Z.of_nat k * 4 ->
  mapM (pd_pixel (pre ++ rest) 4) (map Z.of_nat (seq k m)) = Ok (unpack_row rest).
Proof.
  induction m as [|m IH]; intros k pre rest Hl Hpre.
  - destruct rest; [reflexivity|discriminate].
  - destruct rest as [|r [|g [|b [|a rest']]]]; try (cbn in Hl; lia).
    cbn [seq map mapM]. rewrite pd_pixel_spec by exact Hpre. cbn [bind].
    replace (pre ++ r :: g :: b :: a :: rest') with ((pre ++ [r; g; b; a]) ++ rest') by (rewrite <- app_assoc; reflexivity).
    rewrite (IH (S k)); [reflexivity|cbn in Hl; lia|].
    rewrite zlen_app. change (zlen [r; g; b; a]) with 4. lia.
Qed.

Lemma picodata_of_rows_spec w rows : wf_rows w rows ->
  picodata_of_rows (Z.of_nat w) (zlen rows) 4 rows = Ok (concat (map unpack_row rows)).
Proof.
  intros Hwf. unfold picodata_of_rows.
  assert (Hm : mapM (fun row => mapM (pd_pixel row 4) (upto (Z.of_nat w))) rows = Ok (map unpack_row rows)).
  { induction Hwf as [|row rs [Hl _] _ IH]; [reflexivity|]. cbn [mapM map].
    unfold upto at 1. rewrite Nat2Z.id.
    pose proof (pd_row_loop w 0 [] row Hl eq_refl) as Hr. cbn [app] in Hr. rewrite Hr. cbn [bind]. rewrite IH. reflexivity. }
  assert (E : (zlen rows >? zlen rows) = false) by lia. rewrite E.
  rewrite Hm. cbn [bind]. rewrite Z.sub_diag, Z.mul_0_r. cbn [Z.to_nat repeat]. rewrite app_nil_r. reflexivity.
Qed.

(* ------------------------------------------------------------------ unpack after pack *)
Lemma unpack4_pack4 r g b a pb : byte r -> byte g -> byte b -> byte a -> byte pb ->
  unpack_row (pack4 r g b a pb) = [pb] /\ map (fun v => v / 4) (pack4 r g b a pb) = [r / 4; g / 4; b / 4; a / 4] /\
  Forall byte (pack4 r g b a pb).
Proof.
  intros Hr Hg Hb Ha Hp. pose proof (stego_pixel r g b a pb Hr Hg Hb Ha Hp) as H.
  destruct (pack4 r g b a pb) as [|r' [|g' [|b' [|a' [|x t]]]]]; try contradiction.
  destruct H as (E & E1 & E2 & E3 & E4 & B1 & B2 & B3 & B4).
  cbn [unpack_row map]. rewrite E, E1, E2, E3, E4. repeat split.
  constructor; [exact B1|constructor; [exact B2|constructor; [exact B3|constructor; [exact B4|constructor]]]].
Qed.

Lemma pack_row_props : forall w row bs, length row = (4 * w)%nat -> Forall byte row -> Forall byte bs ->
  (length bs <= w)%nat ->
  unpack_row (pack_row row bs) = bs ++ unpack_row (skipn (4 * length bs) row) /\
  map (fun v => v / 4) (pack_row row bs) = map (fun v => v / 4) row /\
  Forall byte (pack_row row bs) /\ length (pack_row row bs) = (4 * w)%nat.
Proof.
  induction w as [|w IH]; intros row bs Hl Hb Hbs Hle.
  - destruct row; [|discriminate]. destruct bs; [|cbn in Hle; lia]. cbn. repeat split; constructor.
  - destruct row as [|r [|g [|b [|a rest]]]]; try (cbn in Hl; lia).
    inversion Hb as [|? ? Hr Hb1]; subst. inversion Hb1 as [|? ? Hg Hb2]; subst.
    inversion Hb2 as [|? ? Hbb Hb3]; subst. inversion Hb3 as [|? ? Ha Hb4]; subst.
    assert (Hl' : length rest = (4 * w)%nat) by (cbn in Hl; lia).
    destruct bs as [|pb bs'].
    + destruct (IH rest [] Hl' Hb4 ltac:(constructor) ltac:(cbn; lia)) as (I1 & I2 & I3 & I4).
      cbn [pack_row unpack_row length Nat.mul skipn app map]. cbn [length Nat.mul skipn app] in I1.
      rewrite I1, I2. repeat split.
      * constructor; [exact Hr|constructor; [exact Hg|constructor; [exact Hbb|constructor; [exact Ha|exact I3]]]].
      * cbn [length]. rewrite I4. lia.
    + inversion Hbs as [|? ? Hp Hbs']; subst.
      destruct (IH rest bs' Hl' Hb4 Hbs' ltac:(cbn in Hle; lia)) as (I1 & I2 & I3 & I4).
      destruct (unpack4_pack4 r g b a pb Hr Hg Hbb Ha Hp) as (U1 & U2 & U3).
      cbn [pack_row].
      assert (Hp4 : exists r' g' b' a', pack4 r g b a pb = [r'; g'; b'; a']) by (unfold pack4; eauto).
      destruct Hp4 as (r' & g' & b' & a' & Ep). rewrite Ep in *. cbn [app unpack_row map] in *.
      injection U1 as U1. injection U2 as V1 V2 V3 V4.
      rewrite U1, I1, I2, V1, V2, V3, V4. repeat split.
      * cbn [length]. replace (4 * S (length bs'))%nat with (S (S (S (S (4 * length bs'))))) by lia. reflexivity.
      * inversion U3 as [|? ? C1 U3a]; subst. inversion U3a as [|? ? C2 U3b]; subst.
        inversion U3b as [|? ? C3 U3c]; subst. inversion U3c as [|? ? C4 _]; subst.
        constructor; [exact C1|constructor; [exact C2|constructor; [exact C3|constructor; [exact C4|exact I3]]]].
      * cbn [length]. rewrite I4. lia.
Qed.

(* ------------------------------------------------------------------ the closed forms equal the loop model *)
Lemma wf_rowsb_spec w rows : wf_rowsb w rows = true -> wf_rows w rows.
Proof.
  unfold wf_rowsb, wf_rows. rewrite forallb_forall, Forall_forall. intros H row Hr.
  specialize (H row Hr). apply andb_true_iff in H. destruct H as [H1 H2].
  apply all_bytes_Forall in H2. split; [unfold zlen in H1; lia|exact H2].
Qed.

Lemma rows_fast_eq picodata planes rows :
  rows_of_picodata_fast picodata planes rows = rows_of_picodata picodata planes rows.
Proof.
  unfold rows_of_picodata_fast.
  destruct ((planes =? 4) && all_bytes picodata && wf_rowsb _ rows) eqn:E; [|reflexivity].
  apply andb_true_iff in E. destruct E as [E E3]. apply andb_true_iff in E. destruct E as [E1 E2].
  assert (planes = 4) by lia. subst planes. apply all_bytes_Forall in E2. apply wf_rowsb_spec in E3.
  symmetry. apply rows_of_picodata_spec; assumption.
Qed.

Lemma picodata_fast_eq width height planes rows :
  picodata_of_rows_fast width height planes rows = picodata_of_rows width height planes rows.
Proof.
  unfold picodata_of_rows_fast.
  destruct ((planes =? 4) && (0 <=? width) && (zlen rows =? height) && wf_rowsb (Z.to_nat width) rows) eqn:E; [|reflexivity].
  apply andb_true_iff in E. destruct E as [E E4]. apply andb_true_iff in E. destruct E as [E E3].
  apply andb_true_iff in E. destruct E as [E1 E2].
  assert (planes = 4) by lia. subst planes. assert (height = zlen rows) by lia. subst height.
  apply wf_rowsb_spec in E4. symmetry.
  replace width with (Z.of_nat (Z.to_nat width)) at 1 by lia.
  apply picodata_of_rows_spec. exact E4.
Qed.

(* ------------------------------------------------------------------ whole image *)
Lemma pack_rows_props w : forall rows bs, wf_rows w rows -> Forall byte bs ->
  (length bs <= w * length rows)%nat ->
  (exists extra, concat (map unpack_row (pack_rows w rows bs)) = bs ++ extra) /\
  map (map (fun v => v / 4)) (pack_rows w rows bs) = map (map (fun v => v / 4)) rows /\
  wf_rows w (pack_rows w rows bs) /\ length (pack_rows w rows bs) = length rows.
Proof.
  induction rows as [|row rs IH]; intros bs Hwf Hbs Hle.
  - destruct bs; [|cbn in Hle; lia]. cbn. repeat split; [exists []; reflexivity|constructor].
  - inversion Hwf as [|? ? [Hl Hb] Hwf']; subst. cbn [pack_rows map concat length].
    assert (Hf : Forall byte (firstn w bs)) by (apply Forall_firstn; exact Hbs).
    assert (Hs : Forall byte (skipn w bs)) by (apply Forall_skipn; exact Hbs).
    destruct (pack_row_props w row (firstn w bs) Hl Hb Hf ltac:(rewrite firstn_length; lia)) as (P1 & P2 & P3 & P4).
    destruct (Nat.le_gt_cases w (length bs)) as [Hge|Hlt].
    + destruct (IH (skipn w bs) Hwf' Hs ltac:(rewrite skipn_length; cbn [length] in Hle; lia)) as ((extra & I1) & I2 & I3 & I4).
      rewrite P1, P2, I1, I2, I4. repeat split.
      * exists extra. rewrite firstn_length, Nat.min_l by lia.
        rewrite skipn_all2 by lia. cbn [unpack_row]. rewrite app_nil_r, app_assoc, firstn_skipn. reflexivity.
      * constructor; [split; assumption|exact I3].
    + destruct (IH (skipn w bs) Hwf' Hs ltac:(rewrite skipn_length; lia)) as (_ & I2 & I3 & I4).
      rewrite P1, P2, I2, I4. repeat split.
      * rewrite firstn_all2 by lia. eexists. rewrite <- app_assoc. reflexivity.
      * constructor; [split; assumption|exact I3].
Qed.

Definition upper6 (rows : list (list Z)) : list (list Z) := map (map (fun v => v / 4)) rows.
Definition wf_img (img : list (list Z)) : Prop := length img = 205%nat /\ wf_rows 160 img.

Definition cart_bytes (c : cart) : Prop :=
  Forall byte (c_gfx c) /\ Forall byte (c_map c) /\ Forall byte (c_gff c) /\ Forall byte (c_music c) /\
  Forall byte (c_sfx c) /\ Forall byte (c_code c).

(* what the reader hands back: the code with CR -> space, plus a final newline when it was stored plain *)
Definition norm_code (code : list Z) (compressed : bool) : list Z :=
  if compressed then cr2sp code else cr2sp (code ++ [10]).

Lemma code_area text v : Forall byte text -> fits text -> no_nul text -> clean text = true -> text <> [58; 99; 58] ->
  exists area cl cs, get_bytes_from_code text = Ok area /\ zlen area = 15616 /\ Forall byte area /\
    get_code_from_bytes area v = Ok (cl, norm_code text (is_compressed text), cs).
Proof.
  intros Hb Hf Hn Hc Hm. destruct (gbc_fits text Hb Hf) as (comp & Ec & Ea & Hc1 & Hc2).
  assert (Hcb : Forall byte comp).
  { destruct (compress_code_correct text Hb) as (s & sfx & Es & Hs & _). congruence. }
  pose proof (zlen_nonneg text). pose proof (zlen_nonneg comp).
  destruct (is_compressed text) eqn:E.
  - destruct (Hc1 eq_refl) as [Hl Hfit]. destruct (gcb_compressed text comp v Hb Hl Hc Ec Hfit) as (cs & Eg).
    eexists. exists (zlen text), (Some cs). split; [exact Ea|]. split; [|split; [|exact Eg]].
    + unfold zlen. cbn [length]. rewrite app_length, repeat_length. unfold zlen in *. lia.
    + destruct (len_hi_lo (zlen text) ltac:(lia)) as (_ & _ & B1 & B2).
      unfold byte in B1, B2.
      repeat (constructor; [unfold byte; lia|]). apply Forall_app. split; [exact Hcb|].
      apply Forall_forall. intros x Hx. apply repeat_spec in Hx. subst. unfold byte. lia.
  - pose proof (Hc2 eq_refl) as Hl.
    eexists. exists (zlen text), None. split; [exact Ea|]. split; [|split; [|apply gcb_raw; assumption]].
    + rewrite zlen_app. unfold zlen at 2. rewrite repeat_length. lia.
    + apply Forall_app. split; [exact Hb|].
      apply Forall_forall. intros x Hx. apply repeat_spec in Hx. subst. unfold byte. lia.
Qed.

Lemma cart_roundtrip c img :
  wf_cart c -> cart_bytes c -> wf_img img ->
  fits (c_code c) -> no_nul (c_code c) -> clean (c_code c) = true -> c_code c <> [58; 99; 58] ->
  exists rows, write_png_pixels c 4 img = Ok rows /\ wf_img rows /\ upper6 rows = upper6 img /\
    read_png_pixels 160 205 4 rows =
    Ok {| c_gfx := c_gfx c; c_map := c_map c; c_gff := c_gff c; c_music := c_music c; c_sfx := c_sfx c;
          c_code := norm_code (c_code c) (is_compressed (c_code c)); c_version := c_version c |}.
Proof.
  intros Hwf (B1 & B2 & B3 & B4 & B5 & B6) (Hn & Hrows) Hf Hnn Hc Hm.
  destruct (code_area (c_code c) (c_version c) B6 Hf Hnn Hc Hm) as (area & cl & cs & Ea & Hal & Hab & Eg).
  destruct (layout c area [] Hwf Hal) as (pd & Ej & Hpl & _).
  assert (Hpb : Forall byte pd).
  { unfold join_mem, bytes_of_ints in Ej. destruct Hwf as (_ & _ & _ & _ & _ & Hv).
    assert (Eb : all_bytes [c_version c] = true) by (apply all_bytes_Forall; constructor; [exact Hv|constructor]).
    rewrite Eb in Ej. cbn [bind] in Ej. injection Ej as <-.
    unfold png_join_order. cbn [map concat section_by_id Z.eqb Pos.eqb]. rewrite app_nil_r.
    repeat (apply Forall_app; split); try assumption. constructor; [exact Hv|constructor]. }
  destruct (pack_rows_props 160 img pd Hrows Hpb) as ((extra & P1) & P2 & P3 & P4).
  { rewrite Hn. unfold zlen in Hpl. lia. }
  exists (pack_rows 160 img pd). unfold write_png_pixels. rewrite Ea. cbn [bind]. rewrite Ej. cbn [bind].
  rewrite rows_fast_eq.
  split; [apply rows_of_picodata_spec; assumption|]. split; [split; [lia|exact P3]|]. split; [exact P2|].
  unfold read_png_pixels. rewrite picodata_fast_eq.
  pose proof (picodata_of_rows_spec 160 (pack_rows 160 img pd) P3) as Hr.
  replace (zlen (pack_rows 160 img pd)) with 205 in Hr by (unfold zlen; rewrite P4, Hn; reflexivity).
  change (Z.of_nat 160) with 160 in Hr. rewrite Hr. cbn [bind]. rewrite P1.
  destruct (layout c area extra Hwf Hal) as (pd' & Ej' & _ & Es). rewrite Ej in Ej'. injection Ej' as <-.
  rewrite Es. cbn [bind r_codedata r_version r_gfx r_map r_gff r_music r_sfx]. rewrite Eg. reflexivity.
Qed.

Lemma write_refuse c planes img : Forall byte (c_code c) -> ~ fits (c_code c) ->
  write_png_pixels c planes img = Err ValueError.
Proof. intros Hb Hf. unfold write_png_pixels. rewrite (gbc_refuse _ Hb Hf). reflexivity. Qed.

(* non-vacuity witnesses *)
Lemma fits_example : fits (unBS "print(1)"%bs) /\ no_nul (unBS "print(1)"%bs) /\ clean (unBS "print(1)"%bs) = true.
Proof.
  split; [|split].
  - eexists. split; [vm_compute; reflexivity|]. left. vm_compute. discriminate.
  - repeat constructor; discriminate.
  - vm_compute. reflexivity.
Qed.

(* ------------------------------------------------------------------ the instance predicates hold of the model *)
(* the format's reading of a pixel (Spec/P8PngSpec.v, arithmetic) is the code's (kernels, bit operations) *)
Definition px_fields_ok (t : Z) : bool :=
  let a := t / 64 in let r := (t / 16) mod 4 in let g := (t / 4) mod 4 in let b := t mod 4 in
  Z.lor (Z.lor (Z.lor (Z.lor 0 (Z.shiftl b (0 * 2))) (Z.shiftl g (1 * 2))) (Z.shiftl r (2 * 2))) (Z.shiftl a (3 * 2))
  =? a * 64 + r * 16 + g * 4 + b.
Lemma px_fields_ok_all : forallb px_fields_ok (upto 256) = true.
Proof. vm_compute. reflexivity. Qed.

Lemma land3 v : Z.land v 3 = v mod 4.
Proof. change 3 with (Z.ones 2). rewrite Z.land_ones by lia. reflexivity. Qed.

Lemma px_byte_unpack4 r g b a : px_byte r g b a = unpack4 r g b a.
Proof.
  unfold px_byte, unpack4, pd_val_0, pd_val_1, pd_val_2, pd_val_3. cbn [Z.mul Z.add Z.eqb Pos.eqb].
  rewrite !land3.
  set (t := (a mod 4) * 64 + (r mod 4) * 16 + (g mod 4) * 4 + b mod 4).
  assert (Ht : 0 <= t < 256) by (unfold t; lia).
  assert (E := sweep_upto _ 256 px_fields_ok_all t Ht). unfold px_fields_ok in E. cbv zeta in E.
  replace (t / 64) with (a mod 4) in E by (unfold t; lia).
  replace ((t / 16) mod 4) with (r mod 4) in E by (unfold t; lia).
  replace ((t / 4) mod 4) with (g mod 4) in E by (unfold t; lia).
  replace (t mod 4) with (b mod 4) in E by (unfold t; lia).
  apply Z.eqb_eq in E. symmetry. exact E.
Qed.

Lemma row_bytes_unpack row : row_bytes row = unpack_row row.
Proof.
  assert (H : forall n row, (length row <= n)%nat -> row_bytes row = unpack_row row).
  { induction n as [|n IH]; intros l Hl.
    - destruct l; [reflexivity|cbn in Hl; lia].
    - destruct l as [|r [|g [|b [|a rest]]]]; try reflexivity.
      cbn [row_bytes unpack_row]. rewrite px_byte_unpack4. f_equal. apply IH. cbn in Hl. lia. }
  apply (H (length row)). lia.
Qed.

Lemma rom_unpack rows : rom_of_rows rows = concat (map unpack_row rows).
Proof.
  unfold rom_of_rows. rewrite flat_map_concat_map. f_equal. apply map_ext. apply row_bytes_unpack.
Qed.

Lemma rows_eqb_refl rows : rows_eqb rows rows = true.
Proof.
  induction rows as [|x r IH]; [reflexivity|]. cbn. rewrite IH, andb_true_r. apply zlist_eqb_eq. reflexivity.
Qed.

Lemma zlist_eqb_refl l : zlist_eqb l l = true.
Proof. apply zlist_eqb_eq. reflexivity. Qed.

Lemma shape_ok_wf rows : wf_img rows -> shape_ok rows = true.
Proof.
  intros (Hn & Hr). unfold shape_ok, img_height, img_width.
  assert (E : (zlen rows =? 205) = true) by (unfold zlen; lia). rewrite E. cbn [andb].
  apply forallb_forall. intros row Hin. unfold wf_rows in Hr. rewrite Forall_forall in Hr.
  destruct (Hr row Hin) as (Hl & Hb). apply andb_true_iff. split; [unfold zlen; lia|apply all_bytes_Forall; exact Hb].
Qed.

Lemma sub_py_slice (l : list Z) lo hi : 0 <= lo <= hi -> hi <= zlen l -> sub l lo hi = py_slice l lo hi.
Proof. intros H1 H2. unfold sub. rewrite py_slice_inrange by assumption. reflexivity. Qed.

Lemma until_nul_zeros n : until_nul (repeat 0 n) = [].
Proof. destruct n; reflexivity. Qed.

Lemma until_nul_text text n : no_nul text -> until_nul (text ++ repeat 0 n) = text.
Proof.
  induction 1 as [|c t Hc Ht IH]; cbn [app until_nul]; [apply until_nul_zeros|].
  assert (E : (c =? 0) = false) by lia. rewrite E, IH. reflexivity.
Qed.

Lemma area_text_model text : Forall byte text -> fits text -> no_nul text -> text <> [58; 99; 58] ->
  exists area, get_bytes_from_code text = Ok area /\ area_text area = Some text.
Proof.
  intros Hb Hf Hn Hm. destruct (gbc_fits text Hb Hf) as (comp & Ec & Ea & Hc1 & Hc2).
  eexists. split; [exact Ea|]. pose proof (zlen_nonneg text) as H0.
  destruct (is_compressed text) eqn:E.
  - destruct (Hc1 eq_refl) as [Hl Hfit].
    destruct (compress_code_correct text Hb) as (s & sfx & Es & _ & _ & _ & Hd). rewrite Ec in Es. injection Es as <-.
    unfold area_text, decode_area. cbn [starts_with pxc_magic app unBS Z.eqb Pos.eqb andb skipn].
    change (starts_with [] _) with true. cbn [andb].
    replace (zlen text / 256 * 256 + zlen text mod 256) with (zlen text) by lia.
    rewrite Hd. reflexivity.
  - pose proof (Hc2 eq_refl) as Hl. unfold area_text, decode_area.
    assert (Es : starts_with pxc_magic (text ++ repeat 0 (Z.to_nat (15616 - zlen text))) = false).
    { destruct (starts_with _ _) eqn:Es; [|reflexivity]. exfalso.
      apply starts_with_app in Es. destruct Es as (r & Er). unfold pxc_magic in Er. cbn [app unBS] in Er.
      destruct text as [|a [|b [|c [|d t]]]]; cbn in Er.
      - destruct (Z.to_nat _); discriminate.
      - injection Er as -> Er. destruct (Z.to_nat _); discriminate.
      - injection Er as -> -> Er. destruct (Z.to_nat _); discriminate.
      - injection Er as -> -> -> _. apply Hm. reflexivity.
      - injection Er as -> -> -> -> _. unfold no_nul in Hn. rewrite Forall_forall in Hn.
        apply (Hn 0); [right; right; right; left; reflexivity|reflexivity]. }
    rewrite Es. rewrite until_nul_text by exact Hn. reflexivity.
Qed.

Lemma py_get_inv {A} (l : list A) i v : 0 <= i -> py_get l i = Ok v -> nth_error l (Z.to_nat i) = Some v.
Proof.
  intros Hi H. unfold py_get in H. assert (E : (i <? 0) = false) by lia. rewrite E in H.
  destruct ((i <? 0) || (zlen l <=? i)); [discriminate|].
  destruct (nth_error l (Z.to_nat i)); [congruence|discriminate].
Qed.

Lemma holds_model c img :
  wf_cart c -> cart_bytes c -> wf_img img ->
  fits (c_code c) -> no_nul (c_code c) -> clean (c_code c) = true -> c_code c <> [58; 99; 58] ->
  exists rows c', write_png_pixels c 4 img = Ok rows /\ read_png_pixels 160 205 4 rows = Ok c' /\
    holds_C04_image (c_gfx c) (c_map c) (c_gff c) (c_music c) (c_sfx c) (c_code c) (c_version c) img rows = true /\
    holds_C04_readback (c_gfx c) (c_map c) (c_gff c) (c_music c) (c_sfx c) (c_code c) (c_version c)
                       (c_gfx c') (c_map c') (c_gff c') (c_music c') (c_sfx c') (c_code c') (c_version c') = true.
Proof.
  intros Hwf Hcb Himg Hf Hnn Hc Hm.
  destruct (cart_roundtrip c img Hwf Hcb Himg Hf Hnn Hc Hm) as (rows & Ew & Hwr & Hu & Er).
  eexists rows, _. split; [exact Ew|]. split; [exact Er|]. split.
  - (* the image *)
    destruct Hcb as (B1 & B2 & B3 & B4 & B5 & B6).
    destruct (area_text_model (c_code c) B6 Hf Hnn Hm) as (area & Ea & Hat).
    destruct (code_area (c_code c) (c_version c) B6 Hf Hnn Hc Hm) as (area' & cl & cs & Ea' & Hal & Hab & _).
    rewrite Ea in Ea'. injection Ea' as <-.
    destruct (layout c area [] Hwf Hal) as (pd & Ej & Hpl & _).
    assert (Hpb : Forall byte pd).
    { unfold join_mem, bytes_of_ints in Ej. destruct Hwf as (_ & _ & _ & _ & _ & Hv).
      assert (Eb : all_bytes [c_version c] = true) by (apply all_bytes_Forall; constructor; [exact Hv|constructor]).
      rewrite Eb in Ej. cbn [bind] in Ej. injection Ej as <-.
      unfold png_join_order. cbn [map concat section_by_id Z.eqb Pos.eqb]. rewrite app_nil_r.
      repeat (apply Forall_app; split); try assumption. constructor; [exact Hv|constructor]. }
    destruct Himg as (Hn & Hrows).
    destruct (pack_rows_props 160 img pd Hrows Hpb) as ((extra & P1) & _ & _ & _).
    { rewrite Hn. unfold zlen in Hpl. lia. }
    assert (Erows : rows = pack_rows 160 img pd).
    { unfold write_png_pixels in Ew. rewrite Ea in Ew. cbn [bind] in Ew. rewrite Ej in Ew. cbn [bind] in Ew.
      rewrite rows_fast_eq in Ew. rewrite (rows_of_picodata_spec pd 160 img Hpb Hrows) in Ew. congruence. }
    destruct (layout c area extra Hwf Hal) as (pd' & Ej' & _ & Es). rewrite Ej in Ej'. injection Ej' as <-.
    unfold holds_C04_image. rewrite (shape_ok_wf rows Hwr).
    change (label_of rows) with (upper6 rows). change (label_of img) with (upper6 img). rewrite Hu, rows_eqb_refl.
    cbn [andb]. rewrite rom_unpack, Erows, P1.
    assert (Hlen : zlen (pd ++ extra) >= 32769) by (rewrite zlen_app; pose proof (zlen_nonneg extra); lia).
    unfold split_mem in Es.
    destruct (py_get (pd ++ extra) raw_version_idx) as [v|] eqn:Ev; [|discriminate]. cbn [bind] in Es.
    injection Es as S1 S2 S3 S4 S5 S6 S7.
    unfold fields_of_rom. cbn [f_gfx f_map f_gff f_music f_sfx f_code_area f_version].
    unfold raw_gfx_lo, raw_gfx_hi, raw_p8map_lo, raw_p8map_hi, raw_gfx_props_lo, raw_gfx_props_hi,
      raw_song_lo, raw_song_hi, raw_sfx_lo, raw_sfx_hi, raw_codedata_lo, raw_codedata_hi in *.
    rewrite !sub_py_slice by lia. rewrite S1, S2, S3, S4, S5, S6, !zlist_eqb_refl. cbn [andb].
    assert (Env : nth_error (pd ++ extra) (Z.to_nat 32768) = Some (c_version c)).
    { rewrite <- S7. apply py_get_inv; [lia|exact Ev]. }
    rewrite Env, Z.eqb_refl, Hat, zlist_eqb_refl. reflexivity.
  - (* the cart read back *)
    cbn [c_gfx c_map c_gff c_music c_sfx c_code c_version]. unfold holds_C04_readback.
    rewrite !zlist_eqb_refl, Z.eqb_refl. cbn [andb]. unfold code_equiv, norm_code.
    change cr_to_space with cr2sp.
    destruct (is_compressed (c_code c)).
    + rewrite zlist_eqb_refl, !orb_true_r. reflexivity.
    + unfold cr2sp. rewrite map_app. cbn [map Z.eqb Pos.eqb]. rewrite zlist_eqb_refl, !orb_true_r. reflexivity.
Qed.

(* the two pixel functions alone, any image width *)
Lemma holds_pixels_model w rows pd : wf_rows w rows -> Forall byte pd -> (length pd <= w * length rows)%nat ->
  exists out back, rows_of_picodata_fast pd 4 rows = Ok out /\
    picodata_of_rows_fast (Z.of_nat w) (zlen out) 4 out = Ok back /\
    holds_C04_pixels pd rows out back = true.
Proof.
  intros Hwf Hpd Hle. destruct (pack_rows_props w rows pd Hwf Hpd Hle) as ((extra & P1) & P2 & P3 & P4).
  exists (pack_rows w rows pd), (concat (map unpack_row (pack_rows w rows pd))).
  split; [rewrite rows_fast_eq; apply rows_of_picodata_spec; assumption|].
  split; [rewrite picodata_fast_eq; apply picodata_of_rows_spec; exact P3|].
  unfold holds_C04_pixels. rewrite rom_unpack, P1.
  rewrite firstn_app_le by lia. rewrite firstn_all, !zlist_eqb_refl.
  change (label_of (pack_rows w rows pd)) with (map (map (fun v => v / 4)) (pack_rows w rows pd)).
  change (label_of rows) with (map (map (fun v => v / 4)) rows). rewrite P2, rows_eqb_refl. cbn [andb].
  apply forallb_forall. intros row Hin. unfold wf_rows in P3. rewrite Forall_forall in P3.
  apply all_bytes_Forall. apply (P3 row Hin).
Qed.
