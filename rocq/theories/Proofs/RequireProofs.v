(* C12, require side: where the candidates of _locate_require_file lie. *)
From PV Require Import Base.Prelude Model.Paths Model.Require Spec.PathSpec Proofs.PathProofs
  Generated.T_files_build Model.FilesInst.

(* ---- pins ---- *)
Lemma pin_require_consts :
  default_lua_path = [63; 59; 63; 46; 108; 117; 97]          (* ?;?.lua *)
  /\ require_filter_atoms =
     [(0, [], []);                 (* not require_path *)
      (1, [46; 47], []);           (* b'./' in require_path *)
      (2, [47], []);               (* require_path.startswith(b'/') *)
      (3, [46; 46], [47])]         (* b'..' in require_path.split(b'/') *)
  /\ lua_path_separator = [59] /\ lua_path_placeholder = [63] (* ;  ? *)
  /\ os_path_sep = [47].
Proof. repeat split; reflexivity. Qed.

(* ---- anatomy of a load-path pattern ---- *)
(* the pattern text from the first '?' on *)
Fixpoint from_placeholder (pat : bytes) : bytes :=
  match pat with
  | [] => []
  | c :: r => if c =? 63 then pat else from_placeholder r
  end.

(* what follows the last '/' *)
Fixpoint base_part (s : bytes) : bytes :=
  match s with
  | [] => []
  | c :: r => if existsb (fun x => x =? 47) s then base_part r else s
  end.

(* the instantiated candidate without the pattern's fixed directory part *)
Definition candidate_tail (pat req : bytes) : bytes :=
  base_part (before_placeholder pat) ++ replace_char 63 req (from_placeholder pat).

Lemma before_from pat : before_placeholder pat ++ from_placeholder pat = pat.
Proof.
  induction pat as [|c r IH]; [reflexivity|].
  cbn [before_placeholder from_placeholder]. destruct (c =? 63); [reflexivity|].
  cbn [app]. rewrite IH. reflexivity.
Qed.

Lemma replace_split req pat :
  replace_char 63 req pat = before_placeholder pat ++ replace_char 63 req (from_placeholder pat).
Proof.
  induction pat as [|c r IH]; [reflexivity|].
  cbn [before_placeholder from_placeholder]. destruct (c =? 63) eqn:E; [reflexivity|].
  unfold replace_char in *. cbn [flat_map]. rewrite E. cbn [app]. rewrite IH. reflexivity.
Qed.

Lemma from_placeholder_head pat : from_placeholder pat = [] \/ exists r, from_placeholder pat = 63 :: r.
Proof.
  induction pat as [|c r IH]; [left; reflexivity|].
  cbn [from_placeholder]. destruct (Z.eqb_spec c 63) as [->|N]; [right; exists r; reflexivity|exact IH].
Qed.

Lemma dir_base s : dir_part s ++ base_part s = s.
Proof.
  induction s as [|c r IH]; [reflexivity|].
  cbn [dir_part base_part]. destruct (existsb _ (c :: r)); [|reflexivity].
  cbn [app]. rewrite IH. reflexivity.
Qed.

Lemma base_part_noslash s : noslash (base_part s).
Proof.
  unfold noslash. induction s as [|c r IH]; [reflexivity|].
  cbn [base_part]. destruct (existsb _ (c :: r)) eqn:E; [exact IH|exact E].
Qed.

Lemma dir_part_nil s : dir_part s = [] -> noslash s.
Proof.
  unfold noslash. destruct s as [|c r]; [reflexivity|].
  cbn [dir_part]. destruct (existsb _ (c :: r)) eqn:E; [discriminate|reflexivity].
Qed.

Lemma dir_part_shape s : dir_part s = [] \/ exists a, dir_part s = a ++ [47].
Proof.
  induction s as [|c r IH]; [left; reflexivity|].
  cbn [dir_part]. destruct (existsb _ (c :: r)) eqn:E; [right|left; reflexivity].
  destruct IH as [H|(a & H)].
  - rewrite H. pose proof (dir_part_nil r H) as Hn. unfold noslash in Hn.
    cbn [existsb] in E. rewrite Hn, orb_false_r in E. apply Z.eqb_eq in E. subst.
    exists []. reflexivity.
  - rewrite H. exists (c :: a). reflexivity.
Qed.

Lemma candidate_split pat req :
  replace_char 63 req pat = dir_part (before_placeholder pat) ++ candidate_tail pat req.
Proof.
  unfold candidate_tail. rewrite app_assoc, dir_base. apply replace_split.
Qed.

Lemma pattern_split pat :
  pat = dir_part (before_placeholder pat) ++ base_part (before_placeholder pat) ++ from_placeholder pat.
Proof. rewrite app_assoc, dir_base, before_from. reflexivity. Qed.

Lemma absolute_eqb c r : absolute (c :: r) = (c =? 47).
Proof.
  destruct (Z.eqb_spec c 47) as [->|N]; [reflexivity|].
  unfold absolute. destruct c as [|q|q]; try reflexivity.
  do 6 (destruct q as [q|q|]; try reflexivity); congruence.
Qed.

Lemma noslash_relative s : noslash s -> absolute s = false.
Proof.
  destruct s as [|c r]; [reflexivity|]. unfold noslash. cbn [existsb].
  intros H. apply orb_false_iff in H as [H _]. rewrite absolute_eqb. exact H.
Qed.

Lemma under_of_stack cwd root p :
  (exists ext, stack cwd p = ext ++ stack cwd root) -> under cwd root p.
Proof.
  intros (ext & H). unfold under, under_loc. rewrite !locate_stack, H, rev_app_distr.
  exists (rev ext). reflexivity.
Qed.

Section Req.
Variable cwd : bytes.

(* one candidate lies under the directory its pattern names, provided the require string is
   not empty, does not start with '/', and the instantiated tail has no ".." component *)
Lemma candidate_under base pat req :
  starts_with [47] req = false -> req <> [] ->
  Forall not_parent (components (candidate_tail pat req)) ->
  under cwd (pattern_dir base pat) (candidate 63 base req pat).
Proof.
  intros Hreq Hne Htail.
  set (d := dir_part (before_placeholder pat)).
  set (tl_ := candidate_tail pat req) in *.
  assert (Hc : replace_char 63 req pat = d ++ tl_) by apply candidate_split.
  assert (Hp : pat = d ++ base_part (before_placeholder pat) ++ from_placeholder pat) by apply pattern_split.
  assert (Hd : d = [] \/ exists a, d = a ++ [47]) by apply dir_part_shape.
  assert (Hrel_req : absolute req = false).
  { destruct req as [|c r]; [reflexivity|]. rewrite absolute_eqb. cbn [starts_with] in Hreq.
    rewrite andb_true_r in Hreq. rewrite Z.eqb_sym. exact Hreq. }
  (* absolute-ness of the pattern, its directory and the candidate coincide *)
  assert (Habs : absolute pat = absolute d /\ absolute (d ++ tl_) = absolute d).
  { destruct d as [|c0 d0] eqn:Ed.
    - (* no directory part: everything is relative *)
      assert (Hn : noslash (before_placeholder pat)) by (apply dir_part_nil; exact Ed).
      cbn [app]. cbn [app] in Hp. unfold tl_, candidate_tail.
      assert (Hb : base_part (before_placeholder pat) = before_placeholder pat).
      { pose proof (dir_base (before_placeholder pat)) as H. fold d in H. rewrite Ed in H. exact H. }
      rewrite Hb. rewrite Hb in Hp.
      destruct (before_placeholder pat) as [|c1 n1] eqn:En.
      + cbn [app] in *. destruct (from_placeholder_head pat) as [Hf|(r & Hf)]; rewrite Hf in *.
        * rewrite Hp. split; reflexivity.
        * rewrite Hp. unfold replace_char. cbn [flat_map Z.eqb Pos.eqb].
          split; [reflexivity|]. rewrite absolute_app by exact Hne. exact Hrel_req.
      + rewrite Hp. cbn [app]. rewrite !absolute_eqb.
        unfold noslash in Hn. cbn [existsb] in Hn. apply orb_false_iff in Hn as [Hn _].
        rewrite Hn. split; reflexivity.
    - rewrite Hp. cbn [app]. rewrite !absolute_eqb. split; reflexivity. }
  destruct Habs as [Hap Hac].
  unfold candidate. rewrite isabs_absolute, Hc, Hac. unfold pattern_dir. fold d. rewrite Hap.
  apply under_of_stack.
  destruct (absolute d) eqn:Ead.
  - (* absolute pattern *)
    unfold stack. rewrite Hac, Ead. apply grow_lemma; assumption.
  - assert (Hrc : absolute (d ++ tl_) = false) by (rewrite Hac; reflexivity).
    destruct base as [|b0 b1] eqn:Eb.
    + (* requiring file named without a directory: relative to the working directory *)
      unfold join. rewrite isabs_absolute, Hrc. cbn [is_empty orb app].
      rewrite (stack_relative cwd (d ++ tl_) Hrc), (stack_relative cwd d Ead).
      apply grow_lemma; assumption.
    + rewrite <- Eb. assert (Hb : base <> []) by (rewrite Eb; discriminate).
      rewrite stack_join by assumption. rewrite stack_app_slash by exact Hb.
      apply grow_lemma; assumption.
Qed.

(* a pattern without directory part names the directory of the requiring file itself *)
Lemma pattern_dir_base base pat :
  dir_part (before_placeholder pat) = [] -> absolute pat = false ->
  locate cwd (pattern_dir base pat) = locate cwd base.
Proof.
  intros Hd Ha. unfold pattern_dir. rewrite Hd, Ha.
  destruct base as [|b0 b1]; [reflexivity|].
  rewrite !locate_stack. change (b0 :: b1 ++ [47]) with ((b0 :: b1) ++ [47]).
  rewrite stack_end_slash by discriminate. reflexivity.
Qed.
End Req.

(* ---- sane patterns: D N?S - a directory part D (empty or ending in '/'), a name prefix N other
        than ".", exactly one placeholder, and a suffix S without ".." component that cannot
        complete a ".." (its first component is not "."); e.g. ?  ?.lua  lib/?.lua  ?/init.lua
        /abs/lib/lib?.lua ---- *)
Definition pattern_saneb (pat : bytes) : bool :=
  negb (zlist_eqb (base_part (before_placeholder pat)) [46]) &&
  match from_placeholder pat with
  | 63 :: sfx =>
    negb (existsb (fun x => x =? 63) sfx)
    && forallb (fun c => negb (comp_kind c =? 1)) (components sfx)
    && negb (zlist_eqb (hd [] (components sfx)) [46])
  | _ => false
  end.

Lemma replace_id req s : existsb (fun x => x =? 63) s = false -> replace_char 63 req s = s.
Proof.
  unfold replace_char. induction s as [|c r IH]; [reflexivity|].
  cbn [existsb flat_map]. intros H. apply orb_false_iff in H as [Hc Hr].
  rewrite Hc. cbn [app]. rewrite IH by exact Hr. reflexivity.
Qed.

Lemma components_app a b :
  exists l x, components a = l ++ [x] /\
    components (a ++ b) = l ++ (x ++ hd [] (components b)) :: tl (components b).
Proof.
  induction a as [|c a IH].
  - exists [], []. split; [reflexivity|]. cbn [app].
    pose proof (components_nonnil b). destruct (components b); [congruence|reflexivity].
  - destruct IH as (l & x & Ha & Hab). cbn [app components]. rewrite Ha, Hab.
    destruct (c =? 47).
    + exists ([] :: l), x. split; reflexivity.
    + destruct l as [|l0 l1].
      * exists [], (c :: x). split; reflexivity.
      * exists ((c :: l0) :: l1), x. split; reflexivity.
Qed.

Lemma is_dotdot_eq c : comp_kind c = 1 -> c = [46; 46].
Proof.
  unfold comp_kind. destruct c as [|x [|y [|z r]]]; try discriminate.
  - destruct x as [|p|p]; try discriminate. do 6 (destruct p as [p|p|]; try discriminate).
  - destruct x as [|p|p]; try discriminate. do 6 (destruct p as [p|p|]; try discriminate).
    destruct y as [|p|p]; try discriminate. do 6 (destruct p as [p|p|]; try discriminate).
    reflexivity.
  - destruct x as [|p|p]; try discriminate. do 6 (destruct p as [p|p|]; try discriminate).
    destruct y as [|p|p]; try discriminate. do 6 (destruct p as [p|p|]; try discriminate).
Qed.

Lemma glue_not_parent x h :
  not_parent x -> not_parent h -> h <> [46] -> not_parent (x ++ h).
Proof.
  unfold not_parent. intros Hx Hh Hd H. apply is_dotdot_eq in H.
  destruct x as [|a [|b [|c r]]]; cbn [app] in H.
  - subst h. apply Hh. reflexivity.
  - injection H as -> H. apply Hd. exact H.
  - injection H as -> -> H. apply Hx. reflexivity.
  - discriminate.
Qed.

Lemma first_component_nonempty req :
  req <> [] -> starts_with [47] req = false -> hd [] (components req) <> [].
Proof.
  destruct req as [|c r]; [congruence|]. intros _ H. cbn [starts_with] in H. rewrite andb_true_r in H.
  cbn [components]. rewrite Z.eqb_sym, H. destruct (components r); cbn [hd]; discriminate.
Qed.

(* a name prefix in front of the require string *)
Lemma prefixed_no_parent n req :
  noslash n -> n <> [46] -> req <> [] -> starts_with [47] req = false ->
  Forall not_parent (components req) -> Forall not_parent (components (n ++ req)).
Proof.
  intros Hn Hd Hne Hrel Hreq.
  destruct (components_app n req) as (l & x & Ha & Hab). rewrite Hab.
  rewrite (components_noslash_one n Hn) in Ha.
  assert (l = [] /\ x = n) as [-> ->].
  { destruct l as [|l0 l1]; [injection Ha as <-; split; reflexivity|].
    destruct l1; discriminate. }
  cbn [app]. pose proof (first_component_nonempty req Hne Hrel) as Hh.
  pose proof (components_nonnil req) as Hnn.
  destruct (components req) as [|h t]; [congruence|]. cbn [hd tl] in *.
  inversion Hreq as [|h' t' Hh1 Ht]; subst. constructor; [|exact Ht].
  unfold not_parent. intros E. apply is_dotdot_eq in E.
  destruct n as [|a [|b [|c r]]]; cbn [app] in E.
  - subst h. apply Hh1. reflexivity.
  - destruct h as [|h0 [|h1 hr]]; try discriminate. injection E as -> ->. apply Hd. reflexivity.
  - destruct h; [apply Hh; reflexivity|discriminate].
  - discriminate.
Qed.

Lemma sane_tail pat req :
  pattern_saneb pat = true -> req <> [] -> starts_with [47] req = false ->
  Forall not_parent (components req) ->
  Forall not_parent (components (candidate_tail pat req)).
Proof.
  unfold pattern_saneb, candidate_tail. intros H Hne Hrel Hreq0.
  apply andb_true_iff in H as [Hn H].
  set (n := base_part (before_placeholder pat)) in *.
  assert (Hnd : n <> [46]).
  { intros E. rewrite E in Hn. discriminate. }
  assert (Hns : noslash n) by apply base_part_noslash.
  pose proof (prefixed_no_parent n req Hns Hnd Hne Hrel Hreq0) as Hreq.
  destruct (from_placeholder pat) as [|q sfx]; [discriminate|].
  destruct (Z.eqb_spec q 63) as [->|N].
  2:{ destruct q as [|p|p]; try discriminate. do 6 (destruct p as [p|p|]; try discriminate). congruence. }
  apply andb_true_iff in H as [H H3]. apply andb_true_iff in H as [H1 H2].
  apply negb_true_iff in H1. apply negb_true_iff in H3.
  unfold replace_char. cbn [flat_map Z.eqb Pos.eqb]. fold (replace_char 63 req sfx).
  rewrite replace_id by exact H1. rewrite app_assoc.
  destruct (components_app (n ++ req) sfx) as (l & x & Ha & Hab). rewrite Hab.
  rewrite Ha in Hreq. apply Forall_app in Hreq as [Hl Hx]. inversion Hx as [|x' l' Hx1 _]; subst.
  assert (Hsfx : Forall not_parent (components sfx)).
  { apply Forall_forall. intros c Hc. rewrite forallb_forall in H2. specialize (H2 c Hc).
    apply negb_true_iff in H2. unfold not_parent. intros E. rewrite E in H2. discriminate. }
  pose proof (components_nonnil sfx) as Hnsfx.
  destruct (components sfx) as [|h t]; [congruence|]. cbn [hd tl] in *.
  inversion Hsfx as [|h' t' Hh Ht]; subst.
  apply Forall_app. split; [exact Hl|]. constructor; [|exact Ht].
  apply glue_not_parent; [exact Hx1|exact Hh|].
  intros E. rewrite E in H3. discriminate.
Qed.

(* ---- the whole candidate list ---- *)
Lemma require_filter_now_unfold req :
  require_filter_now req =
  negb (is_empty req || (contains [46; 47] req || (starts_with [47] req ||
        (existsb (zlist_eqb [46; 46]) (split_on 47 req) || false)))).
Proof. reflexivity. Qed.

Lemma no_dotdot_component cs :
  existsb (zlist_eqb [46; 46]) cs = false -> Forall not_parent cs.
Proof.
  induction cs as [|c cs IH]; intros H; [constructor|]. cbn [existsb] in H.
  apply orb_false_iff in H as [Hc Hr]. constructor; [|apply IH; exact Hr].
  unfold not_parent. intros E. apply is_dotdot_eq in E. subst c. discriminate.
Qed.

(* what the filter guarantees about a string it lets through *)
Lemma require_filter_now_spec req :
  require_filter_now req = true ->
  req <> [] /\ starts_with [47] req = false /\ Forall not_parent (components req) /\ contains [46; 47] req = false.
Proof.
  rewrite require_filter_now_unfold. intros H. apply negb_true_iff in H.
  apply orb_false_iff in H as [He H]. apply orb_false_iff in H as [Hc H].
  apply orb_false_iff in H as [Hs H]. apply orb_false_iff in H as [Hd _].
  split; [intros ->; discriminate|]. split; [exact Hs|]. split; [|exact Hc].
  rewrite <- split_on_components. apply no_dotdot_component. exact Hd.
Qed.

Lemma require_filter_now_rel req : require_filter_now req = true -> starts_with [47] req = false.
Proof. intros H. apply require_filter_now_spec in H. tauto. Qed.

(* the general statement: any load path, provided the instantiated tails bring no ".." *)
Lemma candidates_contained_tail cwd file_path lua_path req p :
  require_filter_now req = true ->
  (forall pat, In pat (split_on 59 lua_path) -> Forall not_parent (components (candidate_tail pat req))) ->
  In p (require_candidates_now file_path lua_path req) ->
  exists pat, In pat (split_on 59 lua_path) /\ under cwd (pattern_dir (dirname file_path) pat) p.
Proof.
  intros Hf Ht Hin. destruct (require_filter_now_spec req Hf) as (Hne & Hrel & _ & _).
  unfold require_candidates_now, require_candidates in Hin.
  apply in_map_iff in Hin as (pat & <- & Hpat).
  change path_sep_now with 59 in Hpat. exists pat. split; [exact Hpat|].
  change placeholder_now with 63.
  apply candidate_under; [exact Hrel | exact Hne | apply Ht; exact Hpat].
Qed.

(* the full containment statement: every load path made of sane patterns *)
Lemma candidates_contained cwd file_path lua_path req p :
  require_filter_now req = true ->
  forallb pattern_saneb (split_on 59 lua_path) = true ->
  In p (require_candidates_now file_path lua_path req) ->
  exists pat, In pat (split_on 59 lua_path) /\ under cwd (pattern_dir (dirname file_path) pat) p.
Proof.
  intros Hf Hs. destruct (require_filter_now_spec req Hf) as (Hne & Hrel & Hreq & _).
  apply candidates_contained_tail; [exact Hf|].
  intros pat Hpat. apply sane_tail; try assumption. rewrite forallb_forall in Hs. apply Hs. exact Hpat.
Qed.

Lemma default_path_sane : forallb pattern_saneb (split_on 59 default_lua_path) = true.
Proof. vm_compute. reflexivity. Qed.

(* with the default load path every candidate lies under the requiring file's directory *)
Lemma candidates_default_under_base cwd file_path req p :
  require_filter_now req = true ->
  In p (require_candidates_now file_path default_lua_path req) ->
  under cwd (dirname file_path) p.
Proof.
  intros Hf Hin.
  destruct (candidates_contained cwd file_path default_lua_path req p Hf default_path_sane Hin)
    as (pat & Hpat & Hu).
  unfold under in *. rewrite pattern_dir_base in Hu; [exact Hu| |].
  - revert Hpat. vm_compute. intros [<-|[<-|[]]]; reflexivity.
  - revert Hpat. vm_compute. intros [<-|[<-|[]]]; reflexivity.
Qed.

(* a load path with a pattern that is not sane can leave the directory it names whatever the
   filter does: the hypothesis on the load path cannot be dropped *)
Lemma unsane_pattern_escapes :
  exists pat req p, require_filter_now req = true /\ pattern_saneb pat = false /\
    In p (require_candidates_now [47; 116; 47; 119; 47; 109; 46; 108; 117; 97] pat req) /\
    underb [47; 116] (pattern_dir [47; 116; 47; 119] pat) p = false.
Proof.
  exists [63; 47; 46; 46; 47; 46; 46; 47; 120], [97], [47; 116; 47; 119; 47; 97; 47; 46; 46; 47; 46; 46; 47; 120].
  vm_compute. repeat split; try reflexivity. left. reflexivity.   (* ?/../../x, require("a") *)
Qed.

(* ---- the filter before the fixes (only "./" and a leading "/") is refuted ---- *)
Definition r_cwd : bytes := [47; 116].                                                             (* /t *)
Definition r_main : bytes := [47; 116; 47; 119; 47; 112; 114; 111; 106; 47; 109; 46; 108; 117; 97]. (* /t/w/proj/m.lua *)
Definition r_path : bytes := [63; 47; 105; 110; 105; 116; 46; 108; 117; 97].                         (* ?/init.lua *)

(* require("..") passed the old filter and names <dir>/../init.lua *)
Lemma old_filter_refuted_dotdot :
  exists req p, require_filter_old req = true /\ In p (require_candidates_now r_main r_path req) /\
    forallb (fun root => negb (underb r_cwd root p)) (require_roots (split_on 59 r_path) r_main) = true.
Proof.
  exists [46; 46], [47; 116; 47; 119; 47; 112; 114; 111; 106; 47; 46; 46; 47; 105; 110; 105; 116; 46; 108; 117; 97].
  vm_compute. repeat split; try reflexivity. left. reflexivity.
Qed.

(* require("") passed the old filter and names /init.lua *)
Lemma old_filter_refuted_empty :
  exists p, require_filter_old [] = true /\ In p (require_candidates_now r_main r_path []) /\
    forallb (fun root => negb (underb r_cwd root p)) (require_roots (split_on 59 r_path) r_main) = true.
Proof.
  exists [47; 105; 110; 105; 116; 46; 108; 117; 97].
  vm_compute. repeat split; try reflexivity. left. reflexivity.
Qed.

(* with the default load path, require("..") made picotool probe the parent directory *)
Lemma old_filter_refuted_default :
  exists p, require_filter_old [46; 46] = true /\ In p (require_candidates_now r_main default_lua_path [46; 46]) /\
    underb r_cwd (dirname r_main) p = false.
Proof.
  exists [47; 116; 47; 119; 47; 112; 114; 111; 106; 47; 46; 46].
  vm_compute. repeat split; try reflexivity. left. reflexivity.
Qed.

(* today's filter rejects the three witnesses *)
Lemma filter_rejects_witnesses :
  require_filter_now [46; 46] = false /\ require_filter_now [] = false /\ require_filter_now [97; 47; 46; 46] = false.
Proof. vm_compute. repeat split; reflexivity. Qed.

(* ---- monitor soundness ---- *)
Lemma under_any_spec cwd roots p :
  under_any cwd roots p = true -> exists r, In r roots /\ under cwd r p.
Proof.
  unfold under_any. intros H. apply existsb_exists in H as (r & Hr & Hu).
  exists r. split; [exact Hr | apply underb_spec; exact Hu].
Qed.

Lemma all_opens_under_sound cwd roots tr :
  all_opens_under cwd roots tr = true ->
  forall a p, In (a, p) tr -> exists r, In r roots /\ under cwd r p.
Proof.
  unfold all_opens_under. intros H a p Hin. rewrite forallb_forall in H.
  apply under_any_spec. apply (H (a, p) Hin).
Qed.

(* roots in force before the i-th event: the initial ones plus those contributed by every
   file opened earlier *)
Fixpoint roots_after (grow : bytes -> list bytes) (roots : list bytes) (tr : list event) : list bytes :=
  match tr with
  | [] => roots
  | (OpenRead, p) :: r => roots_after grow (grow p ++ roots) r
  | (Probe, _) :: r => roots_after grow roots r
  end.

Lemma all_opens_under_growing_sound cwd grow : forall tr roots,
  all_opens_under_growing cwd grow roots tr = true ->
  forall i a p, nth_error tr i = Some (a, p) ->
  exists r, In r (roots_after grow roots (firstn i tr)) /\ under cwd r p.
Proof.
  induction tr as [|[a0 p0] tr IH]; intros roots H i a p Hi.
  - destruct i; discriminate.
  - cbn [all_opens_under_growing] in H.
    destruct i as [|i].
    + injection Hi as -> ->. cbn [firstn roots_after].
      destruct a; apply andb_true_iff in H as [H _]; apply under_any_spec; exact H.
    + cbn [nth_error] in Hi. cbn [firstn roots_after].
      destruct a0; apply andb_true_iff in H as [_ H]; eapply IH; eassumption.
Qed.

(* ---- packaged statements for Properties/C12.v ---- *)
Lemma require_default_path_now cwd file_path req p :
  require_filter_now req = true ->
  In p (require_candidates_now file_path default_lua_path req) ->
  under cwd (dirname file_path) p /\ locate cwd (dirname file_path) = locate cwd (dir_part file_path).
Proof.
  intros H1 H4. split; [exact (candidates_default_under_base cwd file_path req p H1 H4)|].
  apply locate_dirname.
Qed.

Lemma require_variants_refuted :
  (exists pat req p, require_filter_now req = true /\ pattern_saneb pat = false /\
     In p (require_candidates_now [47; 116; 47; 119; 47; 109; 46; 108; 117; 97] pat req) /\
     underb [47; 116] (pattern_dir [47; 116; 47; 119] pat) p = false)
  /\ (exists req p, require_filter_old req = true /\ In p (require_candidates_now r_main r_path req) /\
     forallb (fun root => negb (underb r_cwd root p)) (require_roots (split_on 59 r_path) r_main) = true)
  /\ (exists p, require_filter_old [] = true /\ In p (require_candidates_now r_main r_path []) /\
     forallb (fun root => negb (underb r_cwd root p)) (require_roots (split_on 59 r_path) r_main) = true)
  /\ (exists p, require_filter_old [46; 46] = true /\
     In p (require_candidates_now r_main default_lua_path [46; 46]) /\
     underb r_cwd (dirname r_main) p = false)
  /\ (require_filter_now [46; 46] = false /\ require_filter_now [] = false /\ require_filter_now [97; 47; 46; 46] = false).
Proof.
  exact (conj unsane_pattern_escapes (conj old_filter_refuted_dotdot (conj old_filter_refuted_empty
          (conj old_filter_refuted_default filter_rejects_witnesses)))).
Qed.
