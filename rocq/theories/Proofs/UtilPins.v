(* Source pins of pico8/util.py: BaseSection (from_bytes / to_bytes / empty) and the message helpers.
   WRITTEN BY gen/mkpins.py (developer step) from the sources the hand-written model was compared with;
   each lemma fails when the function it names has been edited since (digest of ast.unparse, docstrings
   dropped; regenerated on every run into Generated/T_pins_util.v). *)
From Coq Require Import ZArith List.
Import ListNotations.
Open Scope Z_scope.
From PV Require Import Generated.T_pins_util.

Lemma pin__mod__set_verbosity_ok : pin__mod__set_verbosity = [131; 41; 127; 167; 242; 115; 244; 164].
Proof. reflexivity. Qed.
Lemma pin__mod__debug_ok : pin__mod__debug = [102; 221; 109; 34; 179; 130; 6; 187].
Proof. reflexivity. Qed.
Lemma pin__mod__write_ok : pin__mod__write = [109; 88; 74; 121; 108; 146; 235; 107].
Proof. reflexivity. Qed.
Lemma pin__mod__error_ok : pin__mod__error = [157; 47; 167; 236; 20; 118; 46; 42].
Proof. reflexivity. Qed.
Lemma pin__BaseSection____init___ok : pin__BaseSection____init__ = [12; 171; 19; 65; 235; 230; 25; 255].
Proof. reflexivity. Qed.
Lemma pin__BaseSection__from_lines_ok : pin__BaseSection__from_lines = [145; 51; 80; 187; 156; 76; 77; 121].
Proof. reflexivity. Qed.
Lemma pin__BaseSection__to_lines_ok : pin__BaseSection__to_lines = [4; 229; 122; 37; 52; 176; 67; 47].
Proof. reflexivity. Qed.
Lemma pin__BaseSection__from_bytes_ok : pin__BaseSection__from_bytes = [210; 135; 225; 228; 9; 39; 162; 135].
Proof. reflexivity. Qed.
Lemma pin__BaseSection__to_bytes_ok : pin__BaseSection__to_bytes = [204; 3; 124; 204; 36; 250; 9; 222].
Proof. reflexivity. Qed.
Lemma pin__mod__bytes_to_hex_ok : pin__mod__bytes_to_hex = [162; 12; 37; 28; 18; 205; 228; 177].
Proof. reflexivity. Qed.

(* no function was added to or removed from the pinned classes *)
Lemma pin_names__util_ok : pin_names__util =
  [[112; 105; 110; 95; 95; 109; 111; 100; 95; 95; 115; 101; 116; 95; 118; 101; 114; 98; 111; 115; 105; 116; 121]; [112; 105; 110; 95; 95; 109; 111; 100; 95; 95; 100; 101; 98; 117; 103]; [112; 105; 110; 95; 95; 109; 111; 100; 95; 95; 119; 114; 105; 116; 101]; [112; 105; 110; 95; 95; 109; 111; 100; 95; 95; 101; 114; 114; 111; 114]; [112; 105; 110; 95; 95; 66; 97; 115; 101; 83; 101; 99; 116; 105; 111; 110; 95; 95; 95; 95; 105; 110; 105; 116; 95; 95]; [112; 105; 110; 95; 95; 66; 97; 115; 101; 83; 101; 99; 116; 105; 111; 110; 95; 95; 102; 114; 111; 109; 95; 108; 105; 110; 101; 115]; [112; 105; 110; 95; 95; 66; 97; 115; 101; 83; 101; 99; 116; 105; 111; 110; 95; 95; 116; 111; 95; 108; 105; 110; 101; 115]; [112; 105; 110; 95; 95; 66; 97; 115; 101; 83; 101; 99; 116; 105; 111; 110; 95; 95; 102; 114; 111; 109; 95; 98; 121; 116; 101; 115]; [112; 105; 110; 95; 95; 66; 97; 115; 101; 83; 101; 99; 116; 105; 111; 110; 95; 95; 116; 111; 95; 98; 121; 116; 101; 115]; [112; 105; 110; 95; 95; 109; 111; 100; 95; 95; 98; 121; 116; 101; 115; 95; 116; 111; 95; 104; 101; 120]].
Proof. reflexivity. Qed.
