(* C12, include side: containment of the resolved include path.  Pins of the regenerated
   constants the model of p8.py depends on. *)
From PV Require Import Base.Prelude Model.Paths Model.Include Spec.PathSpec Proofs.PathProofs
  Generated.T_files_p8 Model.FilesInst.

(* ---- pins: an edited regex / constant breaks these lemmas, not the model silently ---- *)
Lemma pin_include_line_re :
  src_include_line_re = [92; 115; 42; 35; 105; 110; 99; 108; 117; 100; 101; 92; 115; 43; 40; 92; 83; 43; 41;
    40; 92; 46; 112; 56; 92; 46; 112; 110; 103; 124; 92; 46; 112; 56; 124; 92; 46; 108; 117; 97; 41;
    40; 92; 58; 92; 100; 43; 41; 63]
  /\ flags_include_line_re = 0 /\ include_re_method = [109; 97; 116; 99; 104].
Proof. repeat split; reflexivity. Qed.   (* \s*#include\s+(\S+)(\.p8\.png|\.p8|\.lua)(\:\d+)?  .match *)

Lemma pin_tab_line_re :
  src_tab_line_re = tab_marker /\ flags_tab_line_re = 0 /\ tab_re_method = [109; 97; 116; 99; 104].
Proof. repeat split; reflexivity. Qed.   (* -->8  .match *)

Lemma pin_cart_paths :
  pico8_cart_paths =
  [[126; 47; 65; 112; 112; 68; 97; 116; 97; 47; 82; 111; 97; 109; 105; 110; 103; 47; 112; 105; 99; 111; 45; 56; 47; 99; 97; 114; 116; 115];
   [126; 47; 76; 105; 98; 114; 97; 114; 121; 47; 65; 112; 112; 108; 105; 99; 97; 116; 105; 111; 110; 32; 83; 117; 112; 112; 111; 114; 116; 47; 112; 105; 99; 111; 45; 56; 47; 99; 97; 114; 116; 115];
   [126; 47; 46; 108; 101; 120; 97; 108; 111; 102; 102; 108; 101; 47; 112; 105; 99; 111; 45; 56; 47; 99; 97; 114; 116; 115]].
Proof. reflexivity. Qed.

(* the shapes of the two containment tests the generator found in p8.py *)
Lemma pin_containment_kinds : include_containment_kind = 1 /\ root_detection_kind = 2.
Proof. split; reflexivity. Qed.

Section IncludeContain.
Variable cart_paths : list bytes.
Variable root_kind inc_kind : Z.
Variable cwd home : bytes.
Variable isfile : bytes -> bool.
Hypothesis cwd_abs : absolute cwd = true.

Notation root_of := (get_root_include_path cart_paths root_kind cwd home).
Notation resolve := (resolve_include cart_paths root_kind inc_kind cwd home isfile).

Lemma full_path_abs p : absolute (full_path cwd home p) = true.
Proof. apply abspath_absolute. exact cwd_abs. Qed.

(* whatever root_scan returns is absolute and passed the test against the cart's path *)
Lemma root_scan_sound full cands : forall acc,
  (forall r, acc = Some r -> absolute r = true /\ contain_test root_kind r full = true) ->
  forall r, root_scan root_kind cwd home full cands acc = Some r ->
  absolute r = true /\ contain_test root_kind r full = true.
Proof.
  induction cands as [|c cs IH]; intros acc Hacc r; cbn [root_scan]; [apply Hacc|].
  apply IH. intros r'. destruct (contain_test _ _ full) eqn:E; [|apply Hacc].
  intros [= <-]. split; [apply full_path_abs | exact E].
Qed.

Lemma root_abs cart : absolute (root_of cart) = true.
Proof.
  unfold get_root_include_path.
  destruct (root_scan root_kind cwd home (full_path cwd home cart) cart_paths None) as [r|] eqn:E.
  - eapply root_scan_sound; [|exact E]. discriminate.
  - apply dirname_absolute, full_path_abs.
Qed.

(* the separator-aware tests (kinds 1 and 2) imply separator-aligned textual containment *)
Lemma join_empty_aligned root p :
  absolute root = true -> starts_with (join root []) p = true -> sep_aligned root p.
Proof.
  intros Ha H. right. unfold join in H. cbn [isabs starts_with] in H. rewrite app_nil_r in H.
  destruct root as [|c0 root0]; [discriminate|]. cbn [is_empty orb] in H.
  destruct (ends_with_slash (c0 :: root0)) eqn:Es.
  - destruct (ends_with_slash_spec _ Es) as (a & Er). rewrite Er in *.
    apply starts_with_app in H as (r & ->). rewrite <- app_assoc. cbn [app].
    exists a, r. destruct a as [|c a].
    + right. split; reflexivity.
    + left. split; [right; reflexivity|]. split; [discriminate|reflexivity].
  - apply starts_with_app in H as (r & ->). rewrite <- app_assoc. cbn [app].
    exists (c0 :: root0), r. left. split; [left; reflexivity|]. split; [discriminate|reflexivity].
Qed.

Lemma contain_test_aligned kind root p :
  kind = 1 \/ kind = 2 -> absolute root = true -> contain_test kind root p = true -> sep_aligned root p.
Proof.
  intros [-> | ->] Ha H; unfold contain_test in H; cbn [Z.eqb Pos.eqb] in H.
  - apply orb_true_iff in H as [H|H]; [left; apply zlist_eqb_eq; exact H | apply join_empty_aligned; assumption].
  - apply join_empty_aligned; assumption.
Qed.

(* every test shape implies the textual prefix *)
Lemma contain_test_prefix kind root p :
  kind = 0 \/ kind = 1 \/ kind = 2 -> absolute root = true -> contain_test kind root p = true -> exists rest, p = root ++ rest.
Proof.
  intros [-> | Hk] Ha H.
  - unfold contain_test in H. cbn [Z.eqb] in H. apply starts_with_app. exact H.
  - destruct (contain_test_aligned kind root p Hk Ha H) as [->|(a & r & [([->| ->] & _ & ->)|(-> & ->)])].
    + exists []. rewrite app_nil_r. reflexivity.
    + eexists. reflexivity.
    + exists r. rewrite <- app_assoc. reflexivity.
    + eexists. reflexivity.
Qed.

Lemma include_full_no_parent cart inc :
  Forall not_parent (components (include_full_path cwd cart inc)).
Proof. apply abspath_no_parent. exact cwd_abs. Qed.

(* what include_full_path computes is located where the include string points: relative to
   the directory of the including cart *)
Lemma include_full_location cart inc :
  locate cwd (include_full_path cwd cart inc) = locate cwd (join (dirname cart) inc).
Proof. unfold include_full_path. rewrite locate_abspath by exact cwd_abs. apply locate_normpath. Qed.

(* plain-prefix test in process_includes (kind 0): containment only under the alignment hypothesis *)
Lemma include_contained_partial cart inc p :
  resolve cart inc = Ok p -> sep_aligned (root_of cart) p -> under cwd (root_of cart) p.
Proof.
  unfold resolve_include. intros H Hal.
  destruct (negb (contain_test _ _ _)); [discriminate|].
  destruct (negb (isfile _)); [discriminate|].
  injection H as <-. apply sep_aligned_under; [apply include_full_no_parent | exact Hal].
Qed.

(* the separator-aware test: containment without any hypothesis on the strings *)
Lemma include_contained cart inc p :
  inc_kind = 1 \/ inc_kind = 2 ->
  resolve cart inc = Ok p -> under cwd (root_of cart) p.
Proof.
  unfold resolve_include. intros Hk H.
  destruct (contain_test _ _ _) eqn:E; cbn [negb] in H; [|discriminate].
  destruct (negb (isfile _)); [discriminate|].
  injection H as <-. apply sep_aligned_under; [apply include_full_no_parent|].
  apply (contain_test_aligned inc_kind); [exact Hk | apply root_abs | exact E].
Qed.

(* ... hence an include string that points outside the root is rejected, whatever the file system holds *)
Lemma include_rejects_outside cart inc :
  inc_kind = 1 \/ inc_kind = 2 ->
  underb cwd (root_of cart) (join (dirname cart) inc) = false ->
  resolve cart inc = Err IncludeOutside.
Proof.
  intros Hk Hout. unfold resolve_include.
  destruct (contain_test _ _ _) eqn:E; cbn [negb]; [|reflexivity].
  exfalso.
  assert (Hu : under cwd (root_of cart) (include_full_path cwd cart inc)).
  { apply sep_aligned_under; [apply include_full_no_parent|].
    apply (contain_test_aligned inc_kind); [exact Hk | apply root_abs | exact E]. }
  unfold under in Hu. rewrite include_full_location in Hu.
  apply (proj2 (underb_spec cwd _ _)) in Hu. rewrite Hu in Hout. discriminate.
Qed.

(* an accepted include is the file the string denotes, and it exists *)
Lemma include_ok_spec cart inc p :
  resolve cart inc = Ok p ->
  p = include_full_path cwd cart inc /\ isfile p = true /\ locate cwd p = locate cwd (join (dirname cart) inc).
Proof.
  unfold resolve_include. intros H.
  destruct (negb (contain_test _ _ _)); [discriminate|].
  destruct (isfile _) eqn:Ef; cbn [negb] in H; [|discriminate].
  injection H as <-. split; [reflexivity|]. split; [exact Ef | apply include_full_location].
Qed.

Lemma include_missing cart inc :
  isfile (include_full_path cwd cart inc) = false ->
  resolve cart inc = Err IncludeNotFound \/ resolve cart inc = Err IncludeOutside.
Proof.
  intros Hf. unfold resolve_include. destruct (negb (contain_test _ _ _)); [right; reflexivity|].
  rewrite Hf. left. reflexivity.
Qed.

(* the separator-aware carts-folder detection only ever selects a folder the cart really lies in *)
Lemma root_sound cart :
  root_kind = 1 \/ root_kind = 2 ->
  (exists c, In c cart_paths /\ root_of cart = full_path cwd home c /\
             under cwd (root_of cart) (expanduser home cart))
  \/ root_of cart = dirname (full_path cwd home cart).
Proof.
  intros Hk. unfold get_root_include_path.
  destruct (root_scan root_kind cwd home (full_path cwd home cart) cart_paths None) as [r|] eqn:E; [left|right; reflexivity].
  assert (G : forall cands acc,
    (forall r, acc = Some r -> exists c, In c cart_paths /\ r = full_path cwd home c /\ contain_test root_kind r (full_path cwd home cart) = true) ->
    (forall c, In c cands -> In c cart_paths) ->
    forall r, root_scan root_kind cwd home (full_path cwd home cart) cands acc = Some r ->
    exists c, In c cart_paths /\ r = full_path cwd home c /\ contain_test root_kind r (full_path cwd home cart) = true).
  { induction cands as [|c cs IH]; intros acc Hacc Hin r0; cbn [root_scan]; [apply Hacc|].
    apply IH; [|intros c' Hc'; apply Hin; right; exact Hc'].
    intros r'. destruct (contain_test _ _ _) eqn:Ec; [|apply Hacc].
    intros [= <-]. exists c. split; [apply Hin; left; reflexivity|]. split; [reflexivity|exact Ec]. }
  destruct (G cart_paths None ltac:(discriminate) ltac:(auto) r E) as (c & Hc & -> & Hcf).
  exists c. split; [exact Hc|]. split; [reflexivity|].
  assert (Hu : under cwd (full_path cwd home c) (full_path cwd home cart)).
  { apply sep_aligned_under; [apply abspath_no_parent; exact cwd_abs|].
    apply (contain_test_aligned root_kind); [exact Hk | apply full_path_abs | exact Hcf]. }
  unfold under in *. unfold full_path in Hu at 2.
  rewrite locate_abspath, locate_normpath in Hu by exact cwd_abs. exact Hu.
Qed.

(* the cart's own directory, as a location *)
Lemma own_dir_location cart :
  locate cwd (dirname (full_path cwd home cart)) = locate cwd (dir_part (full_path cwd home cart)).
Proof. apply locate_dirname. Qed.
End IncludeContain.

(* ---- the plain string-prefix variants of the two tests (the code before the fixes) are refuted ---- *)
Definition t_cwd : bytes := [47; 116].                                              (* /t *)
Definition t_home : bytes := [47; 104].                                             (* /h *)
Definition t_cart : bytes := [47; 116; 47; 102; 111; 111; 47; 99; 46; 112; 56].     (* /t/foo/c.p8 *)
Definition t_inc : bytes := [46; 46; 47; 102; 111; 111; 98; 97; 114; 47; 120; 46; 108; 117; 97].  (* ../foobar/x.lua *)

Lemma include_prefix_variant_refuted :
  exists cwd home isfile cart inc p,
    absolute cwd = true /\
    resolve_include_prefix cwd home isfile cart inc = Ok p /\
    underb cwd (inc_root_prefix cwd home cart) p = false.
Proof.
  exists t_cwd, t_home, (fun _ => true), t_cart, t_inc,
    [47; 116; 47; 102; 111; 111; 98; 97; 114; 47; 120; 46; 108; 117; 97].    (* /t/foobar/x.lua *)
  vm_compute. repeat split; reflexivity.
Qed.

(* the carts-folder detection had the same flaw: a cart in <carts>X was given the root <carts> *)
Definition t_cart2 : bytes :=   (* /h/.lexaloffle/pico-8/cartsX/c.p8 *)
  [47; 104; 47; 46; 108; 101; 120; 97; 108; 111; 102; 102; 108; 101; 47; 112; 105; 99; 111; 45; 56; 47; 99; 97; 114; 116; 115; 88; 47; 99; 46; 112; 56].
Definition t_inc2 : bytes := [46; 46; 47; 99; 97; 114; 116; 115; 89; 47; 120; 46; 108; 117; 97].  (* ../cartsY/x.lua *)

Lemma carts_folder_prefix_variant_refuted :
  exists p,
    resolve_include_prefix t_cwd t_home (fun _ => true) t_cart2 t_inc2 = Ok p /\
    underb t_cwd (inc_root_prefix t_cwd t_home t_cart2) p = false /\
    underb t_cwd (inc_root_prefix t_cwd t_home t_cart2) t_cart2 = false.
Proof.
  eexists. vm_compute. repeat split; reflexivity.
Qed.

(* ... and today's code rejects both witnesses; the cartsX cart now has its own directory as root *)
Lemma include_rejects_witnesses :
  resolve_include_now t_cwd t_home (fun _ => true) t_cart t_inc = Err IncludeOutside /\
  resolve_include_now t_cwd t_home (fun _ => true) t_cart2 t_inc2 = Err IncludeOutside /\
  inc_root_now t_cwd t_home t_cart2 = dirname t_cart2.
Proof. vm_compute. repeat split; reflexivity. Qed.

(* ---- the statements for the model instantiated with the regenerated constants ---- *)
Lemma abspath_location_now cwd p :
  absolute cwd = true ->
  locate cwd (abspath cwd p) = locate cwd p /\ locate cwd (normpath p) = locate cwd p /\
  Forall not_parent (components (abspath cwd p)).
Proof.
  intros H. split; [apply locate_abspath; exact H|]. split; [apply locate_normpath|].
  apply abspath_no_parent. exact H.
Qed.

Lemma include_contained_now cwd home isfile cart inc p :
  absolute cwd = true ->
  resolve_include_now cwd home isfile cart inc = Ok p ->
  under cwd (inc_root_now cwd home cart) p.
Proof.
  intros Hc. unfold resolve_include_now, inc_root_now.
  apply (include_contained pico8_cart_paths root_detection_kind include_containment_kind cwd home isfile Hc).
  left. reflexivity.
Qed.

Lemma include_root_sound_now cwd home cart :
  absolute cwd = true ->
  let root := inc_root_now cwd home cart in
  (exists c, In c pico8_cart_paths /\ root = full_path cwd home c /\ under cwd root (expanduser home cart))
  \/ (root = dirname (full_path cwd home cart) /\
      locate cwd root = locate cwd (dir_part (full_path cwd home cart))).
Proof.
  intros Hc root. subst root. unfold inc_root_now.
  destruct (root_sound pico8_cart_paths root_detection_kind cwd home Hc cart (or_intror eq_refl)) as [H|H];
    [left; exact H|right].
  split; [exact H|]. rewrite H. apply locate_dirname.
Qed.

Lemma include_rejects_outside_now cwd home isfile cart inc :
  absolute cwd = true ->
  underb cwd (inc_root_now cwd home cart) (join (dirname cart) inc) = false ->
  resolve_include_now cwd home isfile cart inc = Err IncludeOutside.
Proof.
  intros Hc. unfold resolve_include_now, inc_root_now.
  apply (include_rejects_outside pico8_cart_paths root_detection_kind include_containment_kind cwd home isfile Hc).
  left. reflexivity.
Qed.

Lemma include_ok_spec_now cwd home isfile cart inc p :
  absolute cwd = true ->
  resolve_include_now cwd home isfile cart inc = Ok p ->
  p = include_full_path cwd cart inc /\ isfile p = true /\ locate cwd p = locate cwd (join (dirname cart) inc).
Proof.
  intros Hc. unfold resolve_include_now.
  apply (include_ok_spec pico8_cart_paths root_detection_kind include_containment_kind cwd home isfile Hc).
Qed.

Lemma include_prefix_variants_refuted :
  (exists cwd home isfile cart inc p, absolute cwd = true /\
     resolve_include_prefix cwd home isfile cart inc = Ok p /\
     underb cwd (inc_root_prefix cwd home cart) p = false)
  /\ (exists p, resolve_include_prefix t_cwd t_home (fun _ => true) t_cart2 t_inc2 = Ok p /\
       underb t_cwd (inc_root_prefix t_cwd t_home t_cart2) p = false /\
       underb t_cwd (inc_root_prefix t_cwd t_home t_cart2) t_cart2 = false)
  /\ (resolve_include_now t_cwd t_home (fun _ => true) t_cart t_inc = Err IncludeOutside /\
      resolve_include_now t_cwd t_home (fun _ => true) t_cart2 t_inc2 = Err IncludeOutside /\
      inc_root_now t_cwd t_home t_cart2 = dirname t_cart2).
Proof. exact (conj include_prefix_variant_refuted (conj carts_folder_prefix_variant_refuted include_rejects_witnesses)). Qed.
