(* C12, include side: containment of the resolved include path.  Pins of the regenerated
   constants the model of p8.py depends on. *)
From PV Require Import Base.Prelude Model.Paths Model.Include Spec.PathSpec Proofs.PathProofs
  Generated.T_files_p8 Model.FilesInst.

(* ---- pins: an edited regex / constant breaks these lemmas, not the model silently ---- *)
Lemma pin_include_line_re :
  src_include_line_re = [92; 115; 42; 35; 105; 110; 99; 108; 117; 100; 101; 92; 115; 43; 40; 92; 83; 43; 41;
    40; 92; 46; 112; 56; 92; 46; 112; 110; 103; 124; 92; 46; 112; 56; 124; 92; 46; 108; 117; 97; 41;
    40; 92; 58; 92; 100; 43; 41; 63]
  /\ flags_include_line_re = 0 /\ include_re_method = [109; 97; 116; 99; 104].
Proof. repeat split; reflexivity. Qed.   (* \s*#include\s+(\S+)(\.p8\.png|\.p8|\.lua)(\:\d+)?  .match *)

Lemma pin_tab_line_re :
  src_tab_line_re = tab_marker /\ flags_tab_line_re = 0 /\ tab_re_method = [109; 97; 116; 99; 104].
Proof. repeat split; reflexivity. Qed.   (* -->8  .match *)

Lemma pin_cart_paths :
  pico8_cart_paths =
  [[126; 47; 65; 112; 112; 68; 97; 116; 97; 47; 82; 111; 97; 109; 105; 110; 103; 47; 112; 105; 99; 111; 45; 56; 47; 99; 97; 114; 116; 115];
   [126; 47; 76; 105; 98; 114; 97; 114; 121; 47; 65; 112; 112; 108; 105; 99; 97; 116; 105; 111; 110; 32; 83; 117; 112; 112; 111; 114; 116; 47; 112; 105; 99; 111; 45; 56; 47; 99; 97; 114; 116; 115];
   [126; 47; 46; 108; 101; 120; 97; 108; 111; 102; 102; 108; 101; 47; 112; 105; 99; 111; 45; 56; 47; 99; 97; 114; 116; 115]].
Proof. reflexivity. Qed.

Section IncludeContain.
Variable cart_paths : list bytes.
Variable cwd home : bytes.
Variable isfile : bytes -> bool.
Hypothesis cwd_abs : absolute cwd = true.

Notation root_of := (get_root_include_path cart_paths cwd home).
Notation root_fixed_of := (get_root_include_path_fixed cart_paths cwd home).

Lemma full_path_abs p : absolute (full_path cwd home p) = true.
Proof. apply abspath_absolute. exact cwd_abs. Qed.

Lemma root_scan_abs full cands : forall acc,
  (forall r, acc = Some r -> absolute r = true) ->
  forall r, root_scan cwd home full cands acc = Some r -> absolute r = true.
Proof.
  induction cands as [|c cs IH]; intros acc Hacc r; cbn [root_scan]; [apply Hacc|].
  apply IH. intros r'. destruct (starts_with _ full); [|apply Hacc].
  intros [= <-]. apply full_path_abs.
Qed.

Lemma root_abs cart : absolute (root_of cart) = true.
Proof.
  unfold get_root_include_path.
  destruct (root_scan cwd home (full_path cwd home cart) cart_paths None) as [r|] eqn:E.
  - eapply root_scan_abs; [|exact E]. discriminate.
  - apply dirname_absolute, full_path_abs.
Qed.

Lemma root_scan_fixed_sound full cands : forall acc,
  (forall r, acc = Some r -> absolute r = true /\ contained_fixed r full = true) ->
  forall r, root_scan_fixed cwd home full cands acc = Some r ->
  absolute r = true /\ contained_fixed r full = true.
Proof.
  induction cands as [|c cs IH]; intros acc Hacc r; cbn [root_scan_fixed]; [apply Hacc|].
  apply IH. intros r'. destruct (contained_fixed _ full) eqn:E; [|apply Hacc].
  intros [= <-]. split; [apply full_path_abs | exact E].
Qed.

Lemma root_fixed_abs cart : absolute (root_fixed_of cart) = true.
Proof.
  unfold get_root_include_path_fixed.
  destruct (root_scan_fixed cwd home (full_path cwd home cart) cart_paths None) as [r|] eqn:E.
  - eapply root_scan_fixed_sound; [|exact E]. discriminate.
  - apply dirname_absolute, full_path_abs.
Qed.

(* the patched test implies separator-aligned textual containment *)
Lemma contained_fixed_aligned root p :
  absolute root = true -> contained_fixed root p = true -> sep_aligned root p.
Proof.
  intros Ha H. unfold contained_fixed in H. apply orb_true_iff in H as [H|H].
  - left. apply zlist_eqb_eq. exact H.
  - right. destruct (ends_with_slash root) eqn:Es.
    + destruct (ends_with_slash_spec root Es) as (a & ->).
      apply starts_with_app in H as (r & ->). rewrite <- app_assoc. cbn [app].
      exists a, r. destruct a as [|c a].
      * right. split; reflexivity.
      * left. split; [right; reflexivity|]. split; [discriminate|reflexivity].
    + apply starts_with_app in H as (r & ->). rewrite <- app_assoc. cbn [app].
      exists root, r. left. split; [left; reflexivity|]. split; [|reflexivity].
      destruct root; [discriminate|discriminate].
Qed.

Lemma include_full_no_parent cart inc :
  Forall not_parent (components (include_full_path cwd cart inc)).
Proof. apply abspath_no_parent. exact cwd_abs. Qed.

(* today's code: containment only under the separator-alignment hypothesis *)
Lemma include_contained_partial cart inc p :
  resolve_include cart_paths cwd home isfile cart inc = Ok p ->
  sep_aligned (root_of cart) p ->
  under cwd (root_of cart) p.
Proof.
  unfold resolve_include. intros H Hal.
  destruct (negb (starts_with _ _)); [discriminate|].
  destruct (negb (isfile _)); [discriminate|].
  injection H as <-. apply sep_aligned_under; [apply include_full_no_parent | exact Hal].
Qed.

(* a resolved include is always textually prefixed by the root (what the code checks) *)
Lemma include_prefixed cart inc p :
  resolve_include cart_paths cwd home isfile cart inc = Ok p ->
  exists rest, p = root_of cart ++ rest.
Proof.
  unfold resolve_include. intros H.
  destruct (starts_with _ _) eqn:E; cbn [negb] in H; [|discriminate].
  destruct (negb (isfile _)); [discriminate|].
  injection H as <-. apply starts_with_app. exact E.
Qed.

(* the candidate patch: containment without any hypothesis on the strings *)
Lemma include_contained_fixed cart inc p :
  resolve_include_fixed cart_paths cwd home isfile cart inc = Ok p ->
  under cwd (root_fixed_of cart) p.
Proof.
  unfold resolve_include_fixed. intros H.
  destruct (contained_fixed _ _) eqn:E; cbn [negb] in H; [|discriminate].
  destruct (negb (isfile _)); [discriminate|].
  injection H as <-. apply sep_aligned_under; [apply include_full_no_parent|].
  apply contained_fixed_aligned; [apply root_fixed_abs | exact E].
Qed.

(* the patched carts-folder detection only ever selects a folder the cart really lies in *)
Lemma root_fixed_sound cart :
  (exists c, In c cart_paths /\ root_fixed_of cart = full_path cwd home c /\
             under cwd (root_fixed_of cart) (expanduser home cart))
  \/ root_fixed_of cart = dirname (full_path cwd home cart).
Proof.
  unfold get_root_include_path_fixed.
  destruct (root_scan_fixed cwd home (full_path cwd home cart) cart_paths None) as [r|] eqn:E; [left|right; reflexivity].
  assert (G : forall cands acc,
    (forall r, acc = Some r -> exists c, In c cart_paths /\ r = full_path cwd home c /\ contained_fixed r (full_path cwd home cart) = true) ->
    (forall c, In c cands -> In c cart_paths) ->
    forall r, root_scan_fixed cwd home (full_path cwd home cart) cands acc = Some r ->
    exists c, In c cart_paths /\ r = full_path cwd home c /\ contained_fixed r (full_path cwd home cart) = true).
  { induction cands as [|c cs IH]; intros acc Hacc Hin r0; cbn [root_scan_fixed]; [apply Hacc|].
    apply IH; [|intros c' Hc'; apply Hin; right; exact Hc'].
    intros r'. destruct (contained_fixed _ _) eqn:Ec; [|apply Hacc].
    intros [= <-]. exists c. split; [apply Hin; left; reflexivity|]. split; [reflexivity|exact Ec]. }
  destruct (G cart_paths None ltac:(discriminate) ltac:(auto) r E) as (c & Hc & -> & Hcf).
  exists c. split; [exact Hc|]. split; [reflexivity|].
  assert (Hu : under cwd (full_path cwd home c) (full_path cwd home cart)).
  { apply sep_aligned_under; [apply abspath_no_parent; exact cwd_abs|].
    apply contained_fixed_aligned; [apply full_path_abs | exact Hcf]. }
  unfold under in *. unfold full_path in Hu at 2.
  rewrite locate_abspath, locate_normpath in Hu by exact cwd_abs. exact Hu.
Qed.
End IncludeContain.

(* ---- the containment statement without the hypothesis is false of today's code ---- *)
Definition t_cwd : bytes := [47; 116].                                              (* /t *)
Definition t_home : bytes := [47; 104].                                             (* /h *)
Definition t_cart : bytes := [47; 116; 47; 102; 111; 111; 47; 99; 46; 112; 56].     (* /t/foo/c.p8 *)
Definition t_inc : bytes := [46; 46; 47; 102; 111; 111; 98; 97; 114; 47; 120; 46; 108; 117; 97].  (* ../foobar/x.lua *)

Lemma include_contained_refuted :
  exists cwd home isfile cart inc p,
    absolute cwd = true /\
    resolve_include_now cwd home isfile cart inc = Ok p /\
    underb cwd (inc_root_now cwd home cart) p = false.
Proof.
  exists t_cwd, t_home, (fun _ => true), t_cart, t_inc,
    [47; 116; 47; 102; 111; 111; 98; 97; 114; 47; 120; 46; 108; 117; 97].    (* /t/foobar/x.lua *)
  vm_compute. repeat split; reflexivity.
Qed.

(* the carts-folder detection has the same flaw: a cart in <carts>X is given the root <carts> *)
Definition t_cart2 : bytes :=   (* /h/.lexaloffle/pico-8/cartsX/c.p8 *)
  [47; 104; 47; 46; 108; 101; 120; 97; 108; 111; 102; 102; 108; 101; 47; 112; 105; 99; 111; 45; 56; 47; 99; 97; 114; 116; 115; 88; 47; 99; 46; 112; 56].
Definition t_inc2 : bytes := [46; 46; 47; 99; 97; 114; 116; 115; 89; 47; 120; 46; 108; 117; 97].  (* ../cartsY/x.lua *)

Lemma include_carts_folder_refuted :
  exists p,
    resolve_include_now t_cwd t_home (fun _ => true) t_cart2 t_inc2 = Ok p /\
    underb t_cwd (inc_root_now t_cwd t_home t_cart2) p = false /\
    underb t_cwd (inc_root_now t_cwd t_home t_cart2) t_cart2 = false.
Proof.
  eexists. vm_compute. repeat split; reflexivity.
Qed.

(* ... and the patched model rejects both witnesses *)
Lemma include_fixed_rejects_witnesses :
  resolve_include_fixed_now t_cwd t_home (fun _ => true) t_cart t_inc = Err IncludeOutside /\
  resolve_include_fixed_now t_cwd t_home (fun _ => true) t_cart2 t_inc2 = Err IncludeOutside.
Proof. vm_compute. split; reflexivity. Qed.
