(* C06, reference side of the re-lex clause: the text written by the echo writer for a source of the dialect is
   itself in the dialect and its REFERENCE tokens (Spec/LuaLex.v spec_lex) have the same views as those of the
   source - holds_C06_relex of Instances/HoldsC06.v, the predicate the monitor evaluates on the implementation.
   From model_holds_C06 (the walk succeeds) + echo_crlf_only (no lone CR in the written text) + the context
   independence of the reference step (SpecLexChunk.step_ctx). *)
From PV Require Import Base.Prelude Generated.T_lexer Model.Lexer Model.EchoWriter Spec.LuaLex Instances.HoldsC01 Instances.HoldsC06
  Proofs.LuaLexFacts Proofs.SpecLexChunk Proofs.LexerChunk Proofs.EchoProofs.

Lemma zlist_eqb_refl (a : list Z) : zlist_eqb a a = true.
Proof. apply zlist_eqb_eq. reflexivity. Qed.

Lemma same_view_refl t : same_view t t = true.
Proof.
  unfold same_view. rewrite Z.eqb_refl. cbn [andb]. destruct (is_quoted t); [|apply zlist_eqb_refl].
  rewrite !zlist_eqb_refl. reflexivity.
Qed.

(* walk_chain of SpecLexChunk.v with the monitor's own comparison of views as conclusion *)
Theorem walk_chain_same_view src ss : chain src ss -> forall out k, walk ss out k = None ->
  exists ss2, chain out ss2 /\ all2 same_view ss ss2 = true.
Proof.
  induction 1 as [|s t rest ts Hs Hc IH]; intros out k Hw.
  - cbn in Hw. destruct out; [|discriminate]. exists []. split; [constructor | reflexivity].
  - cbn [walk] in Hw. destruct (is_quoted t) eqn:Q.
    + destruct (quoted_shape _ _ _ Hs Q) as (q0 & raw0 & v0 & Hq0 & ->). cbn [s_raw s_text firstn] in Hw.
      destruct out as [|q o1]; [discriminate|].
      destruct (zlist_eqb [q] [q0]) eqn:Eq; [|discriminate]. apply zlist_eqb_eq in Eq. injection Eq as ->.
      destruct (unescape_until q0 o1) as [[[v raw2] o2]|] eqn:Eu; [|discriminate].
      destruct (zlist_eqb v v0) eqn:Ev; [|discriminate]. apply zlist_eqb_eq in Ev. subst v.
      destruct (IH _ _ Hw) as (ss2 & Hc2 & Hv2).
      exists (mk_stok SString (q0 :: raw2) v0 0 1 (-1) 0 0 :: ss2). split.
      * econstructor; [|exact Hc2].
        destruct Hq0 as [-> | ->]; unfold spec_step; cbn -[unescape_until]; rewrite Eu; reflexivity.
      * cbn [all2]. rewrite Hv2, Bool.andb_true_r. unfold same_view, is_quoted. cbn [s_kind s_long s_text s_raw firstn].
        rewrite !zlist_eqb_refl. reflexivity.
    + destruct (strip_prefix (s_raw t) out) as [o|] eqn:Es; [|discriminate]. apply strip_prefix_split in Es. subst out.
      destruct (IH _ _ Hw) as (ss2 & Hc2 & Hv2). exists (t :: ss2). split; [|cbn [all2]; rewrite Hv2, same_view_refl; reflexivity].
      econstructor; [|exact Hc2]. destruct (spec_step_split _ _ _ Hs) as (Hsplit & _).
      destruct rest as [|c r0].
      * pose proof (chain_nil_inv _ Hc) as Ets. subst ts. cbn in Hw. destruct o; [|discriminate].
        rewrite app_nil_r in *. rewrite <- Hsplit. exact Hs.
      * inversion Hc as [|s' t2 rest2 ts' Hs2 Hc' E1 E2]; subst.
        destruct (walk_head _ _ _ _ _ _ _ Hs2 Hw) as (R & ->). eapply step_ctx, Hs.
Qed.

(* positions play no part in the comparison of views *)
Lemma same_view_unpos a b : same_view (unpos a) (unpos b) = same_view a b.
Proof. reflexivity. Qed.

Lemma all2_same_view_unpos : forall a b, all2 same_view (map unpos a) (map unpos b) = all2 same_view a b.
Proof.
  induction a as [|x a IH]; intros [|y b]; try reflexivity. cbn [map all2]. rewrite same_view_unpos, IH. reflexivity.
Qed.

(* the reference lexer with positions is the chain of steps, up to positions *)
Lemma spec_lex_chain src ss : spec_lex src = Some ss -> crlf_only src = true /\ chain src (map unpos ss).
Proof.
  intros H. apply spec_toks_chain. unfold spec_toks. rewrite H. reflexivity.
Qed.

Lemma chain_spec_lex src ts : crlf_only src = true -> chain src ts -> exists ss, spec_lex src = Some ss /\ map unpos ss = ts.
Proof.
  intros Hcr Hc. pose proof (chain_spec_toks _ _ Hcr Hc) as H. unfold spec_toks in H.
  destruct (spec_lex src) as [ss|]; [|discriminate]. injection H as H. exists ss. split; [reflexivity | exact H].
Qed.

(* holds_C06 + no lone CR in the written text  ==>  holds_C06_relex *)
Theorem holds_C06_relex_of_holds src out :
  holds_C06 src out = true -> crlf_only out = true -> holds_C06_relex src out = true.
Proof.
  unfold holds_C06, diff_C06, holds_C06_relex. intros Hh Hcr.
  destruct (spec_lex src) as [ss|] eqn:Es; [|reflexivity].
  destruct (spec_lex_chain _ _ Es) as (_ & Hc).
  destruct (walk ss out 0) eqn:Ew; [discriminate|]. rewrite <- walk_unpos in Ew.
  destruct (walk_chain_same_view _ _ Hc _ _ Ew) as (ss2 & Hc2 & Hv).
  destruct (chain_spec_lex _ _ Hcr Hc2) as (ss' & -> & <-).
  rewrite all2_same_view_unpos in Hv. exact Hv.
Qed.

(* THE statement: for every byte string, the monitor's re-lex predicate holds of (source, text written by the
   model) whenever the model writes a text (and when it raises, the source is outside the dialect) *)
Theorem model_holds_C06_relex src : Forall byte src ->
  match echo_source [src] with
  | Ok lines => holds_C06_relex src (concat lines) = true
  | Err _ => holds_C06_error src = true
  end.
Proof.
  intros HB. pose proof (model_holds_C06 src HB) as Hh.
  destruct (spec_lex src) as [ss|] eqn:Es.
  - destruct (echo_crlf_only src ss HB Es) as (lines & El & Hcr). rewrite El in *.
    apply holds_C06_relex_of_holds; assumption.
  - destruct (echo_source [src]) as [lines|e]; [|exact Hh]. unfold holds_C06_relex. rewrite Es. reflexivity.
Qed.

Theorem model_holds_C06_relex_chunks ls : Forall ends_lf (removelast ls) -> Forall byte (concat ls) ->
  match echo_source ls with
  | Ok lines => holds_C06_relex (concat ls) (concat lines) = true
  | Err _ => holds_C06_error (concat ls) = true
  end.
Proof. intros HF HB. rewrite (echo_source_chunking ls HF). apply model_holds_C06_relex. exact HB. Qed.

(* the written text of a source of the dialect is in the dialect *)
Theorem echo_in_dialect src ss : Forall byte src -> spec_lex src = Some ss ->
  exists lines ss', echo_source [src] = Ok lines /\ spec_lex (concat lines) = Some ss' /\ all2 same_view ss ss' = true.
Proof.
  intros HB Es. pose proof (model_holds_C06_relex src HB) as H.
  destruct (echo_crlf_only src ss HB Es) as (lines & El & _). rewrite El in H.
  unfold holds_C06_relex in H. rewrite Es in H. destruct (spec_lex (concat lines)) as [ss'|] eqn:E'; [|discriminate].
  exists lines, ss'. split; [exact El|]. split; [exact E' | exact H].
Qed.
