(* The reader side of the .p8 round trip, part 2: the section-collecting loop on blocks of lines. *)
From PV Require Import Base.Prelude Base.ListX Base.Dec Model.P8File Spec.P8FileSpec
  Proofs.P8FileLines Proofs.P8FileEnc Proofs.P8FileRead.
From Coq Require Import ZifyBool.

Definition push_all (name : list Z) (ps : list (list Z)) (s : secs) : secs :=
  fold_left (fun s p => sec_push name p s) ps s.

Definition line_ok (l p : list Z) : Prop := match_section l = None /\ line_to_p8scii l = Ok p.

Lemma collect_block name block ps : Forall2 line_ok block ps ->
  forall s rest, collect (Some name) s (block ++ rest) = collect (Some name) (push_all name ps s) rest.
Proof.
  induction 1 as [|l p block ps (M & C) F IH]; intros s rest; [reflexivity|].
  cbn [app collect]. rewrite M, C. cbn [bind]. rewrite IH. reflexivity.
Qed.

Lemma collect_header hdr nm cur s rest : match_section hdr = Some nm ->
  collect cur s (hdr :: rest) = collect (Some nm) (sec_reset nm s) rest.
Proof. intros M. cbn [collect]. rewrite M. reflexivity. Qed.

Definition fresh (name : list Z) (s : secs) : bool := forallb (fun e => negb (zlist_eqb (fst e) name)) s.

Lemma zlist_eqb_refl l : zlist_eqb l l = true.
Proof. apply zlist_eqb_eq. reflexivity. Qed.

Lemma sec_reset_fresh name s : fresh name s = true -> sec_reset name s = s ++ [(name, [])].
Proof.
  induction s as [|[n l] s IH]; intros H; [reflexivity|].
  cbn [fresh forallb fst] in H. apply andb_true_iff in H. destruct H as [H1 H2].
  cbn [sec_reset app]. apply negb_true_iff in H1. rewrite H1, IH by exact H2. reflexivity.
Qed.

Lemma sec_push_last name p pre l : fresh name pre = true ->
  sec_push name p (pre ++ [(name, l)]) = pre ++ [(name, p :: l)].
Proof.
  induction pre as [|[n l0] pre IH]; intros H.
  - cbn [app sec_push]. rewrite zlist_eqb_refl. reflexivity.
  - cbn [fresh forallb fst] in H. apply andb_true_iff in H. destruct H as [H1 H2].
    cbn [app sec_push]. apply negb_true_iff in H1. rewrite H1, IH by exact H2. reflexivity.
Qed.

Lemma push_all_last name ps : forall pre l, fresh name pre = true ->
  push_all name ps (pre ++ [(name, l)]) = pre ++ [(name, rev ps ++ l)].
Proof.
  induction ps as [|p ps IH]; intros pre l H; [reflexivity|].
  cbn [push_all fold_left]. rewrite sec_push_last by exact H. fold (push_all name ps (pre ++ [(name, p :: l)])).
  rewrite IH by exact H. cbn [rev]. rewrite <- app_assoc. reflexivity.
Qed.

(* header line + the lines up to the next header *)
Lemma collect_section hdr nm block ps cur s rest :
  match_section hdr = Some nm -> fresh nm s = true -> Forall2 line_ok block ps ->
  collect cur s (hdr :: block ++ rest) = collect (Some nm) (s ++ [(nm, rev ps)]) rest.
Proof.
  intros M Fr B. rewrite (collect_header hdr nm) by exact M. rewrite sec_reset_fresh by exact Fr.
  rewrite (collect_block nm block ps B). rewrite push_all_last by exact Fr. rewrite app_nil_r. reflexivity.
Qed.

(* blocks of hex lines convert to themselves *)
Lemma hex_block block : Forall hexline block -> Forall2 line_ok block block.
Proof.
  induction 1 as [|l block Hl Hb IH]; constructor; [|exact IH].
  destruct (hexline_facts l Hl) as (_ & B & P & M). split; [exact M | apply line_to_p8scii_plain; assumption].
Qed.

Lemma blank_hexline : hexline [10].
Proof. exists []. split; reflexivity. Qed.

(* the Lua block: the file form of each P8SCII line converts back to it *)
Lemma lua_block L : Forall (Forall byte) L -> Forall nl_line L ->
  forallb (fun l => negb (header_like l)) L = true ->
  Forall2 line_ok (map enc_text L) L.
Proof.
  induction L as [|l L IH]; intros HB HN HH; [constructor|].
  inversion HB as [|? ? Hb HB']; subst. inversion HN as [|? ? Hn HN']; subst.
  cbn [forallb] in HH. apply andb_true_iff in HH. destruct HH as [H1 H2]. apply negb_true_iff in H1.
  cbn [map]. constructor; [|apply IH; assumption]. split.
  - rewrite match_section_enc by exact Hb. apply header_like_match; assumption.
  - apply line_to_p8scii_enc. exact Hb.
Qed.

(* the version line *)
Lemma match_version_line v : 0 <= v -> match_version ("version "%bs ++ dec_of_Z v ++ [10]) = Some v.
Proof.
  intros Hv. destruct (dec_of_Z_digits v Hv) as (D & _).
  change ("version "%bs ++ dec_of_Z v ++ [10]) with (118 :: 101 :: 114 :: 115 :: 105 :: 111 :: 110 :: 32 :: dec_of_Z v ++ [10]).
  cbn [match_version]. rewrite (span_all is_digit (dec_of_Z v) [10] D eq_refl). apply Z_of_dec_of_Z. exact Hv.
Qed.

Lemma version_line_nl v : 0 <= v -> nl_line ("version "%bs ++ dec_of_Z v ++ [10]).
Proof.
  intros Hv. destruct (dec_of_Z_digits v Hv) as (D & _).
  exists ("version "%bs ++ dec_of_Z v). split; [rewrite <- app_assoc; reflexivity|].
  apply Forall_app. split; [repeat constructor; lia|].
  apply Forall_forall. intros x Hx. rewrite forallb_forall in D. specialize (D x Hx). unfold is_digit in D. lia.
Qed.
