(* The nesting counter of the AST writer walk (Model/AstWriter.v, worker parser) is balanced:
   every handler leaves _indent as it found it, and while it runs _indent never drops below the
   value at its entry.  Hence every white-space chunk of a whole run carries an indent >= 0 (so that
   b' ' * indentwidth * _indent of the formatter is exactly indentwidth x _indent spaces) and the
   counter is 0 again at the end of the file.  Needs nothing about the parser: it holds for every
   tree and token list on which the walk succeeds. *)
From PV Require Import Base.Prelude Spec.LuaTokens Model.Tokens Model.WriterChunks Model.AstWriter.
From Coq Require Import Lia.

Definition ind_ge (lo : Z) (c : chunk) : Prop :=
  match c with Trivia _ ind _ _ => lo <= ind | Code _ _ => True end.

(* m moves the counter by d and every chunk it emits has an indent >= (entry value) + lo *)
Definition P (d lo : Z) (m : WM) : Prop :=
  forall st st', m st = Ok st' ->
    w_ind st' = w_ind st + d /\
    exists new, w_out st' = new ++ w_out st /\ Forall (ind_ge (w_ind st + lo)) new.

Lemma P_weaken d lo lo' m : lo' <= lo -> P d lo m -> P d lo' m.
Proof.
  intros H Hm st st' E. destruct (Hm st st' E) as (H1 & new & H2 & H3). split; [exact H1|].
  exists new. split; [exact H2|]. eapply Forall_impl; [|exact H3]. intros c. destruct c; cbn; [lia | auto].
Qed.

Lemma P_skip : P 0 0 skip.
Proof. intros st st' [= <-]. split; [lia|]. exists []. split; [reflexivity | constructor]. Qed.

Lemma P_fail e d lo : P d lo (fail_with e).
Proof. intros st st' H. discriminate. Qed.

Lemma P_indent k : P k 0 (indent_by k).
Proof. intros st st' [= <-]. cbn. split; [reflexivity|]. exists []. split; [reflexivity | constructor]. Qed.

Lemma P_seq d1 lo1 d2 lo2 m1 m2 : P d1 lo1 m1 -> P d2 lo2 m2 -> P (d1 + d2) (Z.min lo1 (d1 + lo2)) (m1 >> m2).
Proof.
  intros H1 H2 st st' E. unfold seq in E. destruct (m1 st) as [st1|] eqn:E1; [|discriminate].
  destruct (H1 _ _ E1) as (A1 & n1 & B1 & C1). destruct (H2 _ _ E) as (A2 & n2 & B2 & C2).
  split; [lia|]. exists (n2 ++ n1). split; [rewrite B2, B1, app_assoc; reflexivity|].
  apply Forall_app. split; (eapply Forall_impl; [|eassumption]); intros c; destruct c; cbn; auto; lia.
Qed.

(* the form used below: numbers given, side conditions by computation *)
Lemma P_seq' d lo d1 lo1 d2 lo2 m1 m2 : P d1 lo1 m1 -> P d2 lo2 m2 ->
  d = d1 + d2 -> lo <= Z.min lo1 (d1 + lo2) -> P d lo (m1 >> m2).
Proof. intros H1 H2 -> Hl. eapply P_weaken; [exact Hl|]. apply P_seq; assumption. Qed.

Section W.
Variable ts : list token.

Lemma P_spaces_to b : P 0 0 (spaces_to ts b).
Proof.
  intros st st' [= <-]. cbn. split; [lia|]. eexists [_]. split; [reflexivity|]. repeat constructor. cbn. lia.
Qed.

Lemma P_spaces node : P 0 0 (spaces ts node).
Proof. unfold spaces. destruct (bound_of ts node); [apply P_spaces_to | apply P_fail]. Qed.

Lemma P_advance text : P 0 0 (advance_emit text).
Proof.
  intros st st' [= <-]. cbn. split; [lia|]. eexists [_]. split; [reflexivity|]. repeat constructor.
Qed.

Lemma P_with_cur d lo (k : token -> WM) : (forall t, P d lo (k t)) -> P d lo (with_cur ts k).
Proof. intros H st st' E. unfold with_cur in E. destruct (cur ts st) as [t|]; [exact (H t _ _ E) | discriminate]. Qed.

Lemma P_with_peek d lo (k : option token -> WM) : (forall o, P d lo (k o)) -> P d lo (with_peek ts k).
Proof. intros H st st' E. unfold with_peek in E. exact (H _ _ _ E). Qed.

Lemma P_with_st d lo (k : wst -> WM) : (forall s, P d lo (k s)) -> P d lo (with_st k).
Proof. intros H st st' E. unfold with_st in E. exact (H _ _ _ E). Qed.

Lemma P_with_code d lo t (k : list Z -> WM) : (forall c, P d lo (k c)) -> P d lo (with_code t k).
Proof. intros H. unfold with_code. destruct t; try apply P_fail. apply H. Qed.

Ltac pseq := eapply (P_seq' 0 0 0 0 0 0); [ | | reflexivity | cbn; lia ].

Lemma P_get_text node kw : P 0 0 (get_text ts node kw).
Proof.
  unfold get_text. pseq; [apply P_spaces|]. apply P_with_cur. intros t.
  destruct (is_kw_or_sym kw t); [apply P_advance | apply P_fail].
Qed.

Lemma P_get_name node t : P 0 0 (get_name ts node t).
Proof.
  unfold get_name. pseq; [apply P_spaces|].
  destruct (kclass_eqb (tk t) CName); [apply P_advance | apply P_fail].
Qed.

Lemma P_get_semis n node : P 0 0 (get_semis ts n node).
Proof.
  induction n as [|n IH]; [apply P_fail|]. cbn [get_semis]. pseq; [apply P_spaces|].
  apply P_with_peek. intros [t|]; [|apply P_skip].
  destruct (tok_eqb t _); [|apply P_skip]. pseq; [apply P_advance | exact IH].
Qed.

Lemma P_semis node : P 0 0 (semis ts node).
Proof. unfold semis. apply P_with_st. intros s. apply P_get_semis. Qed.

Lemma P_name_tok t (k : token -> WM) : (forall tk, P 0 0 (k tk)) -> P 0 0 (name_tok t k).
Proof. intros H. unfold name_tok. destruct t; try apply P_fail. apply H. Qed.

Section Lists.
Variable walk : tree -> WM.
Hypothesis Hw : forall x, P 0 0 (walk x).
Variable node : tree.

Lemma P_sep_rest sep l : P 0 0 (sep_rest ts walk node sep l).
Proof.
  induction l as [|x r IH]; [apply P_skip|]. cbn [sep_rest]. pseq; [apply P_get_text|]. pseq; [apply Hw | exact IH].
Qed.

Lemma P_name_rest sep l : P 0 0 (name_rest ts node sep l).
Proof.
  induction l as [|x r IH]; [apply P_skip|]. cbn [name_rest]. destruct x; try apply P_fail.
  pseq; [apply P_get_text|]. pseq; [apply P_get_name | exact IH].
Qed.

Lemma P_field_rest l : P 0 0 (field_rest ts walk node l).
Proof.
  induction l as [|x r IH]; [apply P_skip|]. cbn [field_rest]. pseq; [apply P_spaces|].
  apply P_with_cur. intros t. pseq; [apply P_get_text|]. pseq; [apply Hw | exact IH].
Qed.

Lemma P_stats l : P 0 0 (stats ts walk node l).
Proof.
  induction l as [|x r IH]; [apply P_skip|]. cbn [stats]. pseq; [apply P_semis|]. pseq; [apply Hw | exact IH].
Qed.

Lemma P_if_pairs sh first l : P 0 0 (if_pairs ts walk node sh first l).
Proof.
  revert first. induction l as [|x r IH]; intros first; [apply P_skip|]. cbn [if_pairs].
  assert (Helse : forall b, P 0 0 (get_text ts node "else"%bs >> indent_by 1 >> walk b >> indent_by (-1) >> if_pairs ts walk node sh first r)).
  { intros b. pseq; [apply P_get_text|]. eapply (P_seq' 0 0 1 0 (-1) (-1)); [apply P_indent | | reflexivity | cbn; lia].
    eapply (P_seq' (-1) (-1) 0 0 (-1) (-1)); [apply Hw | | reflexivity | cbn; lia].
    eapply (P_seq' (-1) (-1) (-1) 0 0 0); [apply P_indent | apply IH | reflexivity | cbn; lia]. }
  assert (Hcond : forall a b, P 0 0 (get_text ts node (if first then "if"%bs : list Z else "elseif"%bs : list Z) >>
      (if sh
       then get_text ts node "("%bs >> indent_by 1 >> walk a >> indent_by (-1) >> get_text ts node ")"%bs
       else walk a >> get_text ts node "then"%bs >> indent_by 1) >>
      walk b >> (if sh then skip else indent_by (-1)) >> if_pairs ts walk node sh false r)).
  { intros a b. pseq; [apply P_get_text|]. destruct sh.
    - eapply (P_seq' 0 0 0 0 0 0); [| | reflexivity | cbn; lia].
      + pseq; [apply P_get_text|]. eapply (P_seq' 0 0 1 0 (-1) (-1)); [apply P_indent | | reflexivity | cbn; lia].
        eapply (P_seq' (-1) (-1) 0 0 (-1) (-1)); [apply Hw | | reflexivity | cbn; lia].
        eapply (P_seq' (-1) (-1) (-1) 0 0 0); [apply P_indent | apply P_get_text | reflexivity | cbn; lia].
      + pseq; [apply Hw|]. pseq; [apply P_skip | apply IH].
    - eapply (P_seq' 0 0 1 0 (-1) (-1)); [| | reflexivity | cbn; lia].
      + eapply (P_seq' 1 0 0 0 1 0); [apply Hw | | reflexivity | cbn; lia].
        eapply (P_seq' 1 0 0 0 1 0); [apply P_get_text | apply P_indent | reflexivity | cbn; lia].
      + eapply (P_seq' (-1) (-1) 0 0 (-1) (-1)); [apply Hw | | reflexivity | cbn; lia].
        eapply (P_seq' (-1) (-1) (-1) 0 0 0); [apply P_indent | apply IH | reflexivity | cbn; lia]. }
  destruct x as [? ? ? ? ? | ? ? | l0 | | ? | ? | ? | ? ? ? | ?]; try apply P_fail.
  destruct l0 as [|a l1]; [apply P_fail|].
  destruct a; destruct l1 as [|b1 [|c1 l2]]; first [apply P_fail | apply Helse | apply Hcond].
Qed.
End Lists.


Lemma P_conv d lo m d' lo' : P d' lo' m -> d = d' -> lo <= lo' -> P d lo m.
Proof. intros H -> Hl. eapply P_weaken; eassumption. Qed.

Lemma P_with_code_txt node t : P 0 0 (with_code t (get_text ts node)).
Proof. apply P_with_code. intros c. apply P_get_text. Qed.

Lemma P_name_tok_get_name node t : P 0 0 (name_tok t (get_name ts node)).
Proof. apply P_name_tok. intros. apply P_get_name. Qed.

Lemma P_dropped_else node pairs : P 0 0 (dropped_else ts node pairs).
Proof.
  unfold dropped_else.
  repeat match goal with
  | |- P 0 0 (match ?x with _ => _ end) => destruct x
  | |- P 0 0 (if ?x then _ else _) => destruct x
  | |- P 0 0 (with_st _) => apply P_with_st; intros ?
  | |- P 0 0 skip => apply P_skip
  | |- P 0 0 (fail_with _) => apply P_fail
  | |- P 0 0 (get_text _ _ _ >> semis _ _) =>
      eapply (P_seq' 0 0 0 0 0 0); [apply P_get_text | apply P_semis | reflexivity | cbn; lia]
  end.
Qed.

Ltac leaf w Hw :=
  first [ apply P_skip | apply P_spaces | apply P_get_text | apply P_get_name | apply P_advance
        | apply P_indent | apply P_semis | apply P_spaces_to | apply P_with_code_txt | apply P_name_tok_get_name
        | apply Hw
        | apply (P_stats w Hw) | apply (P_sep_rest w Hw) | apply P_name_rest | apply (P_field_rest w Hw)
        | apply (P_if_pairs w Hw) | apply P_dropped_else | apply (P_fail _ 0 0) ].

Ltac pc w Hw :=
  lazymatch goal with
  | |- P _ _ (_ >> _) => eapply P_conv; [eapply P_seq; [pe w Hw | pe w Hw] | vm_compute; reflexivity | vm_compute; try (intro; discriminate); try reflexivity ]
  | |- P _ _ (with_cur _ _) => apply P_with_cur; intro; pc w Hw
  | |- P _ _ (match ?x with _ => _ end) => destruct x; pc w Hw
  | |- P _ _ (if ?x then _ else _) => destruct x; pc w Hw
  | |- _ => leaf w Hw
  end
with pe w Hw :=
  lazymatch goal with
  | |- P _ _ (_ >> _) => eapply P_seq; [pe w Hw | pe w Hw]
  | |- P _ _ (with_cur _ _) => refine (_ : P 0 0 _); pc w Hw
  | |- P _ _ (match _ with _ => _ end) => refine (_ : P 0 0 _); pc w Hw
  | |- P _ _ (if _ then _ else _) => refine (_ : P 0 0 _); pc w Hw
  | |- _ => leaf w Hw
  end.

Theorem walk_balanced : forall n node, P 0 0 (walk ts n node).
Proof.
  induction n as [|n IH]; intros node; [apply P_fail|]. cbn [walk].
  set (w := walk ts n) in *. assert (Hw : forall x, P 0 0 (w x)) by exact IH. clearbody w. clear IH.
  eapply (P_seq' 0 0 0 0 0 0); [apply P_spaces | | reflexivity | cbn; lia].
  destruct node as [tag s e sh fs | ? ? | ? | | ? | ? | ? | ? ? ? | ?]; try apply P_skip.
  set (f := field fs).
  repeat match goal with
  | |- P 0 0 (if ?c then _ else _) =>
      destruct c; [ try solve [pc w Hw] | ]
  end.
  all: try solve [pc w Hw].
  (* what is left is ExpValue: an optional parenthesis around the value, +1 inside *)
  eapply (P_seq' 0 0 0 0 0 0); [apply P_spaces | | reflexivity | cbn; lia].
  apply P_with_cur. intros t. cbn zeta.
  assert (Hv : P 0 0 match f 0%nat with
            | PNone => get_text ts (Node tag s e sh fs) "nil"%bs
            | PBool false => get_text ts (Node tag s e sh fs) "false"%bs
            | PBool true => get_text ts (Node tag s e sh fs) "true"%bs
            | Tok _ tv =>
                match tk tv with
                | CName => get_name ts (Node tag s e sh fs) tv
                | CNumber | CString => spaces ts (Node tag s e sh fs) >> advance_emit (tcode tv)
                | _ => fail_with AttributeError
                end
            | v => w v
            end) by pc w Hw.
  destruct (tok_eqb t _).
  - eapply (P_seq' 0 0 1 0 (-1) (-1)); [ | | reflexivity | cbn; lia].
    + eapply (P_seq' 1 0 0 0 1 0); [apply P_advance | apply P_indent | reflexivity | cbn; lia].
    + eapply (P_seq' (-1) (-1) 0 0 (-1) (-1)); [exact Hv | | reflexivity | cbn; lia].
      eapply (P_seq' (-1) (-1) (-1) 0 0 0); [apply P_indent | apply P_get_text | reflexivity | cbn; lia].
  - eapply (P_seq' 0 0 0 0 0 0); [apply P_skip | | reflexivity | cbn; lia].
    eapply (P_seq' 0 0 0 0 0 0); [exact Hv | apply P_skip | reflexivity | cbn; lia].
Qed.

(* ---------- the whole run ---------- *)
Theorem writer_indent_balanced root cs p : writer_chunks ts root = Ok (cs, p) ->
  Forall (ind_ge 0) cs.
Proof.
  unfold writer_chunks. destruct root as [tag s e sh fs | | | | | | | |]; try discriminate.
  destruct (negb _); [discriminate|].
  destruct ((walk ts (2 * tdepth (Node tag s e sh fs) + 2) (Node tag s e sh fs) >> spaces_to ts (ntok ts)) (mkW 0 0 [])) as [st|] eqn:E; [|discriminate].
  intros [= <- _].
  assert (HP : P 0 0 (walk ts (2 * tdepth (Node tag s e sh fs) + 2) (Node tag s e sh fs) >> spaces_to ts (ntok ts))).
  { eapply (P_seq' 0 0 0 0 0 0); [apply walk_balanced | apply P_spaces_to | reflexivity | cbn; lia]. }
  destruct (HP _ _ E) as (_ & new & Hn & Hf). cbn [w_out w_ind] in *. rewrite app_nil_r in Hn. rewrite Hn.
  unfold rev'. rewrite <- rev_alt. apply Forall_rev. exact Hf.
Qed.

(* the counter is back at its entry value after the walk of any node *)
Theorem walk_restores_indent n node st st' : walk ts n node st = Ok st' -> w_ind st' = w_ind st.
Proof. intros E. destruct (walk_balanced n node st st' E) as [H _]. lia. Qed.

End W.
