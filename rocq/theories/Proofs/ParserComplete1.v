(* Completeness of the parser model, part 1: infrastructure.
   - the stream of significant tokens from a cursor position ([sstream]) and the behaviour of
     _accept on it ([accept_peek]): the parser and the reference grammar read the same stream;
   - token kinds ([kd]) so that pattern matching against a known token computes;
   - top-level versions of the local fixpoints of [view] and [denotes] with rewriting rules;
   - follow-set predicates. *)
From PV Require Import Base.Prelude Spec.LuaTokens Spec.LuaGrammar Model.Tokens Model.Parser Model.AstWriter
  Proofs.ParserProofs.
From Coq Require Import ZifyBool.
Ltac Zify.zify_post_hook ::= Z.to_euclidean_division_equations.

(* ------------------------------------------------------------------ monad equations *)
Lemma bind_ok {A B} (m : M A) (f : A -> M B) st a st' : m st = Ok (a, st') -> bindM m f st = f a st'.
Proof. intros H. unfold bindM. rewrite H. reflexivity. Qed.

Lemma bind_get_pos {B} (f : Z -> M B) p mx : bindM get_pos f (p, mx) = f p (p, mx).
Proof. reflexivity. Qed.
Lemma bind_set_pos {B} (f : unit -> M B) q p mx : bindM (set_pos q) f (p, mx) = f tt (q, mx).
Proof. reflexivity. Qed.
Lemma bind_get_max {B} (f : option Z -> M B) p mx : bindM get_max f (p, mx) = f mx (p, mx).
Proof. reflexivity. Qed.
Lemma bind_set_max {B} (f : unit -> M B) m p mx : bindM (set_max m) f (p, mx) = f tt (p, m).
Proof. reflexivity. Qed.
Lemma bind_ret {A B} (a : A) (f : A -> M B) st : bindM (ret a) f st = f a st.
Proof. reflexivity. Qed.
Lemma bind_mk {B} tag s fs (f : tree -> M B) p mx : bindM (mk tag s fs) f (p, mx) = f (Node tag s p false fs) (p, mx).
Proof. reflexivity. Qed.
Lemma mk_eq tag s fs p mx : mk tag s fs (p, mx) = Ok (Node tag s p false fs, (p, mx)).
Proof. reflexivity. Qed.
Lemma ret_eq {A} (a : A) st : ret a st = Ok (a, st).
Proof. reflexivity. Qed.
Lemma bind_assert {B} v (f : tree -> M B) st : is_none v = false -> bindM (assert_node v) f st = f v st.
Proof. intros H. unfold assert_node. rewrite H. reflexivity. Qed.
Lemma bind_assoc {A B C} (m : M A) (f : A -> M B) (g : B -> M C) st :
  bindM (bindM m f) g st = bindM m (fun a => bindM (f a) g) st.
Proof. unfold bindM. destruct (m st) as [[a st']|e]; reflexivity. Qed.

(* ------------------------------------------------------------------ lists *)
Lemma skipn_skipn' {A} (l : list A) : forall a b, skipn a (skipn b l) = skipn (b + a) l.
Proof.
  induction l as [|x l IH]; intros a b.
  - rewrite !skipn_nil. reflexivity.
  - destruct b as [|b]; [reflexivity|]. cbn [skipn Nat.add]. apply IH.
Qed.

(* ------------------------------------------------------------------ token kinds *)
Definition kd (t : token) : kclass * list Z :=
  (tk t, match tk t with CKeyword => lower (tdata t) | _ => tdata t end).

Definition kmatch (k : kclass * list Z) (p : pat) : bool :=
  match p with
  | PClass c => kclass_eqb (fst k) c
  | PTok c d => kclass_eqb (fst k) c && zlist_eqb (snd k) (match fst k with CKeyword => lower d | _ => d end)
  end.

Lemma matches_kd t p : matches t p = kmatch (kd t) p.
Proof.
  destruct p as [c|c d]; unfold matches, kmatch, kd, tok_eqb; cbn [fst snd tk tdata]; [reflexivity|].
  destruct (tk t); reflexivity.
Qed.

Lemma is_sym_kd d t : is_sym d t = true -> kd t = (CSymbol, d).
Proof.
  unfold is_sym, kd. intros H. apply andb_true_iff in H. destruct H as [H1 H2].
  apply kclass_eqb_eq in H1. apply zlist_eqb_eq in H2. rewrite H1, H2. reflexivity.
Qed.

Lemma is_kw_kd d t : is_kw d t = true -> kd t = (CKeyword, lower d).
Proof.
  unfold is_kw, kd. intros H. apply andb_true_iff in H. destruct H as [H1 H2].
  apply kclass_eqb_eq in H1. apply zlist_eqb_eq in H2. rewrite H1, H2. reflexivity.
Qed.

Lemma is_class_kd k t : is_class k t = true -> k <> CKeyword -> kd t = (k, tdata t).
Proof.
  unfold is_class, kd. intros H Hk. apply kclass_eqb_eq in H. rewrite H. destruct k; try reflexivity. contradiction.
Qed.

Lemma kd_trivia t : is_trivia t = false -> pat_nontrivia (PClass (fst (kd t))) = true.
Proof. unfold is_trivia, kd. cbn [fst pat_nontrivia]. destruct (tk t); intros H; first [reflexivity | discriminate H]. Qed.

(* ------------------------------------------------------------------ the significant stream from a cursor *)
Section Stream.
Variable ts : list token.
Local Notation tok_at := (ParserProofs.tok_at ts).

Definition sstream (p : Z) : stream := sig_stream (skipn (Z.to_nat p) ts) p.

Lemma skip_ws_sig pat : pat_nontrivia pat = true -> forall l a,
  match sig_stream l a with
  | [] => snd (skip_ws pat l a) = None
  | (i, t) :: _ => skip_ws pat l a = (i, Some t)
  end.
Proof.
  intros Hp. induction l as [|t r IH]; intros a; cbn [sig_stream skip_ws]; [reflexivity|].
  destruct (is_trivia t) eqn:Et.
  - assert (Hm : matches t pat = false).
    { destruct (matches t pat) eqn:Em; [|reflexivity]. rewrite (matches_nontrivia _ _ Hp Em) in Et. discriminate. }
    rewrite Hm. cbn [negb orb]. apply IH.
  - cbn [negb]. rewrite orb_true_r. reflexivity.
Qed.

Lemma sig_stream_cons : forall l a i t r, sig_stream l a = (i, t) :: r ->
  exists k, i = a + Z.of_nat k /\ r = sig_stream (skipn (S k) l) (i + 1) /\ nth_error l k = Some t /\
            is_trivia t = false /\ (forall j u, (j < k)%nat -> nth_error l j = Some u -> is_trivia u = true).
Proof.
  induction l as [|u l IH]; intros a i t r; cbn [sig_stream]; [discriminate|].
  destruct (is_trivia u) eqn:Eu.
  - intros H. apply IH in H. destruct H as (k & H1 & H2 & H3 & H4 & H5). exists (S k).
    split; [lia|]. split; [exact H2|]. split; [exact H3|]. split; [exact H4|].
    intros j v Hj Hv. destruct j as [|j]; [cbn in Hv; congruence|]. apply (H5 j); [lia | exact Hv].
  - intros [= <- <- <-]. exists O. split; [lia|]. split; [reflexivity|]. split; [reflexivity|]. split; [exact Eu|].
    intros j v Hj; lia.
Qed.

Lemma sstream_cons p i t r : 0 <= p -> sstream p = (i, t) :: r ->
  p <= i /\ i < zlen ts /\ sstream (i + 1) = r /\ tok_at i = Some t /\ is_trivia t = false /\
  (forall j u, p <= j < i -> tok_at j = Some u -> is_trivia u = true).
Proof.
  intros Hp H. unfold sstream in H. apply sig_stream_cons in H. destruct H as (k & H1 & H2 & H3 & H4 & H5).
  rewrite nth_error_skipn in H3.
  assert (Hlt : (Z.to_nat p + k < length ts)%nat) by (apply nth_error_Some; congruence).
  split; [lia|]. split; [unfold zlen; lia|]. split.
  - unfold sstream. rewrite H2, skipn_skipn'. do 2 f_equal. lia.
  - split.
    + unfold ParserProofs.tok_at. destruct (i <? 0) eqn:E; [lia|]. rewrite <- H3. f_equal. lia.
    + split; [exact H4|]. intros j u Hj Hu. apply (H5 (Z.to_nat (j - p))); [lia|].
      rewrite nth_error_skipn. unfold ParserProofs.tok_at in Hu. destruct (j <? 0) eqn:E; [lia|].
      rewrite <- Hu. f_equal. lia.
Qed.

Lemma sstream_nil_trivia p : 0 <= p -> sstream p = [] -> all_trivia (skipn (Z.to_nat p) ts) = true.
Proof.
  intros _. unfold sstream. generalize (skipn (Z.to_nat p) ts) as l. intros l. revert p.
  induction l as [|t l IH]; intros p; cbn [sig_stream all_trivia]; [reflexivity|].
  destruct (is_trivia t); [|discriminate]. intros H. cbn [andb]. eapply IH, H.
Qed.

(* the next significant token, if it lies before the fence *)
Definition peek (mx : option Z) (s : stream) : option (Z * token) :=
  match s with
  | (i, t) :: _ => if fence_ok mx i then Some (i, t) else None
  | [] => None
  end.

Lemma accept_peek pat p mx : pat_nontrivia pat = true -> 0 <= p ->
  accept ts pat (p, mx) =
  match peek mx (sstream p) with
  | Some (i, t) => if matches t pat then Ok (Some (i, t), (i + 1, mx)) else Ok (None, (p, mx))
  | None => Ok (None, (p, mx))
  end.
Proof.
  intros Hp Hq. unfold accept, sstream, peek. cbn [fst snd].
  pose proof (skip_ws_sig pat Hp (skipn (Z.to_nat p) ts) p) as H.
  destruct (sig_stream (skipn (Z.to_nat p) ts) p) as [|[i t] r].
  - destruct (skip_ws pat (skipn (Z.to_nat p) ts) p) as [j cur]. cbn [snd] in H. subst cur. reflexivity.
  - rewrite H. destruct (fence_ok mx i); [|rewrite andb_false_r; reflexivity].
    rewrite andb_true_r. reflexivity.
Qed.

Lemma peek_hit mx i t r : fence_ok mx i = true -> peek mx ((i, t) :: r) = Some (i, t).
Proof. intros H. unfold peek. rewrite H. reflexivity. Qed.

Lemma peek_some mx s i t : peek mx s = Some (i, t) -> exists r, s = (i, t) :: r /\ fence_ok mx i = true.
Proof.
  unfold peek. destruct s as [|[j u] r]; [discriminate|]. destruct (fence_ok mx j) eqn:E; [|discriminate].
  intros [= <- <-]. exists r. split; [reflexivity | exact E].
Qed.

Lemma accept_hit pat p mx i t r : pat_nontrivia pat = true -> 0 <= p ->
  sstream p = (i, t) :: r -> fence_ok mx i = true -> kmatch (kd t) pat = true ->
  accept ts pat (p, mx) = Ok (Some (i, t), (i + 1, mx)).
Proof.
  intros Hp Hq Hs Hl Hm. rewrite accept_peek by assumption. rewrite Hs, peek_hit by exact Hl.
  rewrite matches_kd, Hm. reflexivity.
Qed.

Lemma accept_miss pat p mx : pat_nontrivia pat = true -> 0 <= p ->
  match peek mx (sstream p) with Some (_, t) => kmatch (kd t) pat = false | None => True end ->
  accept ts pat (p, mx) = Ok (None, (p, mx)).
Proof.
  intros Hp Hq H. rewrite accept_peek by assumption. destruct (peek mx (sstream p)) as [[i t]|]; [|reflexivity].
  rewrite matches_kd, H. reflexivity.
Qed.

Lemma accept_first_miss ps p mx : forallb pat_nontrivia ps = true -> 0 <= p ->
  match peek mx (sstream p) with
  | Some (_, t) => forallb (fun q => negb (kmatch (kd t) q)) ps = true
  | None => True end ->
  accept_first ts ps (p, mx) = Ok (None, (p, mx)).
Proof.
  intros Hps Hq H. induction ps as [|q ps IH]; cbn [accept_first]; [reflexivity|].
  cbn [forallb] in Hps. apply andb_true_iff in Hps. destruct Hps as [Hq1 Hps].
  rewrite (bind_ok _ _ _ None (p, mx)).
  - apply IH; [exact Hps|]. destruct (peek mx (sstream p)) as [[i t]|]; [|exact I].
    cbn [forallb] in H. apply andb_true_iff in H. apply H.
  - apply accept_miss; [exact Hq1 | exact Hq|]. destruct (peek mx (sstream p)) as [[i t]|]; [|exact I].
    cbn [forallb] in H. apply andb_true_iff in H. destruct H as [H _]. apply negb_true_iff in H. exact H.
Qed.

Lemma accept_first_hit ps p mx i t r : forallb pat_nontrivia ps = true -> 0 <= p ->
  sstream p = (i, t) :: r -> fence_ok mx i = true -> existsb (kmatch (kd t)) ps = true ->
  accept_first ts ps (p, mx) = Ok (Some (i, t), (i + 1, mx)).
Proof.
  intros Hps Hq Hs Hl Hm. induction ps as [|q ps IH]; cbn [accept_first existsb] in *; [discriminate|].
  apply andb_true_iff in Hps. destruct Hps as [Hq1 Hps].
  destruct (kmatch (kd t) q) eqn:E.
  - rewrite (bind_ok _ _ _ (Some (i, t)) (i + 1, mx)); [reflexivity|]. eapply accept_hit; eassumption.
  - rewrite (bind_ok _ _ _ None (p, mx)); [apply IH; [exact Hps | exact Hm]|].
    apply accept_miss; [exact Hq1 | exact Hq|]. rewrite Hs, peek_hit by exact Hl. exact E.
Qed.

(* consuming a terminal of the grammar *)
Lemma eat_inv pr i s s' : eat pr i s = Some s' -> exists t, s = (i, t) :: s' /\ pr t = true.
Proof.
  unfold eat. destruct s as [|[j t] r]; [discriminate|]. destruct ((i =? j) && pr t) eqn:E; [|discriminate].
  intros [= <-]. apply andb_true_iff in E. destruct E as [E1 E2]. apply Z.eqb_eq in E1. subst j.
  exists t. split; [reflexivity | exact E2].
Qed.

End Stream.

(* ------------------------------------------------------------------ view / denotes with named list functions *)
Definition views : list tree -> list tree :=
  fix views (l : list tree) : list tree :=
    match l with
    | [] => []
    | x :: r => if is_hidden x then views r else view x :: views r
    end.

Lemma view_node tag s e sh fs : view (Node tag s e sh fs) = Node tag s e sh (views fs).
Proof. reflexivity. Qed.
Lemma view_lst l : view (Lst l) = Lst (views l).
Proof. reflexivity. Qed.
Lemma view_paren i j x : view (Paren i j x) = view x.
Proof. reflexivity. Qed.
Lemma views_nil : views [] = [].
Proof. reflexivity. Qed.
Lemma views_cons x r : views (x :: r) = if is_hidden x then views r else view x :: views r.
Proof. reflexivity. Qed.
Lemma views_app a b : views (a ++ b) = views a ++ views b.
Proof.
  induction a as [|x a IH]; [reflexivity|]. cbn [app]. rewrite !views_cons. destruct (is_hidden x); [exact IH|].
  cbn [app]. rewrite IH. reflexivity.
Qed.

Definition all2d : list tree -> list tree -> bool :=
  fix all2 (gs : list tree) (l : list tree) {struct gs} : bool :=
    match gs with
    | [] => match l with [] => true | _ => false end
    | x :: gr =>
        if is_hidden x then all2 gr l
        else match l with
             | y :: lr => denotes x y && all2 gr lr
             | [] => false
             end
    end.

Lemma denotes_node tag a b sh fs t :
  denotes (Node tag a b sh fs) t =
  if tag =? tChain then all2d fs (flat_exp t)
  else match t with
       | Node tag' _ _ sh' fs' => (tag =? tag') && Bool.eqb sh sh' && all2d fs fs'
       | _ => false
       end.
Proof. reflexivity. Qed.
Lemma denotes_lst l t : denotes (Lst l) t = match t with Lst l' => all2d l l' | _ => false end.
Proof. reflexivity. Qed.
Lemma denotes_paren i j x t : denotes (Paren i j x) t = denotes x t.
Proof. reflexivity. Qed.

Lemma all2d_nil : all2d [] [] = true.
Proof. reflexivity. Qed.
Lemma all2d_cons x gr l :
  all2d (x :: gr) l = if is_hidden x then all2d gr l
                      else match l with y :: lr => denotes x y && all2d gr lr | [] => false end.
Proof. reflexivity. Qed.

Lemma denotes_not_hidden g t : denotes g t = true -> is_hidden g = false.
Proof. destruct g; cbn [is_hidden]; try reflexivity; cbn [denotes]; intros H; discriminate H. Qed.

(* the relation used throughout: the visible part of the model's tree is the tree g denotes *)
Definition den (g t : tree) : bool := denotes g (view t).
Definition all2v (gs ts : list tree) : bool := all2d gs (views ts).

Lemma all2v_nil : all2v [] [] = true.
Proof. reflexivity. Qed.
Lemma all2v_kw_l i gr l : all2v (Kw i :: gr) l = all2v gr l.
Proof. reflexivity. Qed.
Lemma all2v_hid_l h gr l : all2v (Hid h :: gr) l = all2v gr l.
Proof. reflexivity. Qed.
Lemma all2v_kw_r gs i l : all2v gs (Kw i :: l) = all2v gs l.
Proof. reflexivity. Qed.
Lemma all2v_hid_r gs h l : all2v gs (Hid h :: l) = all2v gs l.
Proof. reflexivity. Qed.
Lemma all2v_cons x gr y lr : den x y = true -> is_hidden y = false -> all2v (x :: gr) (y :: lr) = all2v gr lr.
Proof.
  intros H Hy. unfold all2v. rewrite views_cons, Hy, all2d_cons. rewrite (denotes_not_hidden _ _ H).
  unfold den in H. rewrite H. reflexivity.
Qed.
Lemma all2v_app a la b lb : all2v a la = true -> all2v (a ++ b) (la ++ lb) = all2v b lb.
Proof.
  unfold all2v. rewrite views_app. generalize (views la) as l. generalize (views lb) as l2. intros l2.
  induction a as [|x a IH]; intros l H.
  - destruct l; [reflexivity | discriminate H].
  - cbn [app]. rewrite all2d_cons in *. destruct (is_hidden x); [apply IH, H|].
    destruct l as [|y l]; [discriminate H|]. apply andb_true_iff in H. destruct H as [H1 H2].
    cbn [app]. rewrite H1. cbn [andb]. apply IH, H2.
Qed.
Lemma all2v_app_nil a la : all2v a la = true -> all2v a (la ++ []) = true.
Proof. rewrite app_nil_r. intros H; exact H. Qed.

Lemma den_node tag a b s e sh gfs tfs : (tag =? tChain) = false ->
  den (Node tag a b sh gfs) (Node tag s e sh tfs) = all2v gfs tfs.
Proof.
  intros H. unfold den. rewrite view_node, denotes_node, H, Z.eqb_refl, Bool.eqb_reflx. reflexivity.
Qed.
Lemma den_lst gl tl : den (Lst gl) (Lst tl) = all2v gl tl.
Proof. reflexivity. Qed.
Lemma den_paren_l i j x t : den (Paren i j x) t = den x t.
Proof. reflexivity. Qed.
Lemma den_paren_r g i j x : den g (Paren i j x) = den g x.
Proof. reflexivity. Qed.
Lemma den_tok i t u : den (Tok i t) (Tok i u) = true.
Proof. unfold den. cbn [view denotes]. apply Z.eqb_refl. Qed.
Lemma den_pnone : den PNone PNone = true.
Proof. reflexivity. Qed.
Lemma den_pbool b : den (PBool b) (PBool b) = true.
Proof. unfold den. cbn [view denotes]. apply Bool.eqb_reflx. Qed.
Lemma den_pbytes b c : zlist_eqb b c = true -> den (PBytes b) (PBytes c) = true.
Proof. intros H. exact H. Qed.

(* ------------------------------------------------------------------ follow sets *)
(* [follow P mx s]: the parser, looking at the stream s under the fence mx, sees either nothing or a token
   whose kind satisfies P *)
Definition follow (P : kclass * list Z -> bool) (mx : option Z) (s : stream) : Prop :=
  match peek mx s with Some (_, t) => P (kd t) = true | None => True end.

Lemma follow_weaken (P Q : kclass * list Z -> bool) mx s :
  (forall k, P k = true -> Q k = true) -> follow P mx s -> follow Q mx s.
Proof. unfold follow. intros H. destruct (peek mx s) as [[i t]|]; [apply H | intros; exact I]. Qed.

Lemma follow_head (P : kclass * list Z -> bool) mx i t r : P (kd t) = true -> follow P mx ((i, t) :: r).
Proof. intros H. unfold follow, peek. destruct (fence_ok mx i); [exact H | exact I]. Qed.

Lemma follow_nil (P : kclass * list Z -> bool) mx : follow P mx [].
Proof. exact I. Qed.

Definition nomatch (ps : list pat) (k : kclass * list Z) : bool := forallb (fun q => negb (kmatch k q)) ps.

Lemma nomatch_in ps k q : nomatch ps k = true -> In q ps -> kmatch k q = false.
Proof.
  unfold nomatch. rewrite forallb_forall. intros H Hin. apply negb_true_iff. apply H, Hin.
Qed.
