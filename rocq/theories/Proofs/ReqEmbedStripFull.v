(* C14, packages embedded WITHOUT their game loop: the parser half.

   For a package file of the dialect that the parser consumes entirely, the ranges build.py cuts (the statements of
   the root chunk that pass its game-loop test, from their first token to the node's end position) are well formed
   (StripRelex.ranges_ok) and the tokens outside them are exactly the tokens Spec/RequireSpec.spec_strip keeps -
   PROVIDED no game-loop definition stands directly in the body or else part of a one-line `if` of the root chunk
   (a statement there is not a statement of the root chunk, so build.py keeps it, while spec_strip - which sees no
   line structure - takes it for a top-level definition: shortif_clean, refuted without it below).

   Method: Proofs/ParserExtent2.parse_extent (the items of the root chunk tile the token list; every statement is
   block-balanced, quiet at depth 0 unless exposed, a function statement is `function` .. balanced .. `end`), the
   token correspondence of ParserExtent3, then one induction over the items of the root chunk, last item first (the
   order in which build.py cuts). *)
From PV Require Import Base.Prelude Spec.LuaTokens Spec.LuaGrammar Spec.LuaLex Spec.RequireSpec Generated.T_files_build Generated.T_lexer
  Generated.T_require Model.Lexer Model.Tokens Model.Parser Model.ParserInst Model.ReqEmbedInst Instances.HoldsC01 Instances.HoldsC06
  Proofs.LuaLexFacts Proofs.LexerMain Proofs.LexerView Proofs.ParserProofs Proofs.ParserSpecs Proofs.ParserTheorems
  Proofs.ParserExtent1 Proofs.ParserExtent2 Proofs.ParserExtent3
  Proofs.SpecLexChunk Proofs.ReqEmbedEchoGood Proofs.ReqEmbedSpecTokens Proofs.SpecLexCut Proofs.StripRelex Proofs.ReqEmbedStrip.
From Coq Require Import ZifyBool.
Ltac Zify.zify_post_hook ::= idtac.
Close Scope pm_scope.

Local Notation gl := game_loop_function_names.
Local Notation N := Z.to_nat.

(* ------------------------------------------------------------------ sublists *)
Definition sub {A} (l : list A) (a b : Z) : list A := firstn (N (b - a)) (skipn (N a) l).

Lemma skipn_skipn' {A} : forall y x (l : list A), skipn x (skipn y l) = skipn (y + x) l.
Proof.
  induction y as [|y IH]; intros x l; [reflexivity|]. destruct l as [|a l]; [rewrite !skipn_nil; reflexivity|].
  cbn [skipn Nat.add]. apply IH.
Qed.

Lemma sub_app {A} (l : list A) a b c : 0 <= a -> a <= b -> b <= c -> sub l a c = sub l a b ++ sub l b c.
Proof.
  intros H0 H1 H2. unfold sub.
  replace (N (c - a)) with (N (b - a) + N (c - b))%nat by lia.
  rewrite <- (firstn_skipn (N (b - a)) (skipn (N a) l)) at 1.
  rewrite firstn_app. rewrite firstn_firstn, Nat.min_r by lia.
  rewrite skipn_skipn'. replace (N a + N (b - a))%nat with (N b) by lia. f_equal.
  rewrite firstn_length. destruct (Nat.le_gt_cases (N (b - a)) (length (skipn (N a) l))) as [Hle|Hgt].
  - rewrite Nat.min_l by lia. f_equal. lia.
  - rewrite Nat.min_r by lia. rewrite skipn_length in Hgt.
    assert (E : skipn (N b) l = []) by (apply skipn_all2; lia). rewrite E, !firstn_nil. reflexivity.
Qed.

Lemma firstn_sub {A} (l : list A) a b : 0 <= a -> a <= b -> firstn (N b) l = firstn (N a) l ++ sub l a b.
Proof.
  intros H0 H1. unfold sub. rewrite <- (firstn_skipn (N a) l) at 1. rewrite firstn_app, firstn_firstn, Nat.min_r by lia.
  f_equal. rewrite firstn_length. destruct (Nat.le_gt_cases (N a) (length l)) as [Hle|Hgt].
  - rewrite Nat.min_l by lia. f_equal. lia.
  - rewrite skipn_all2 by lia. rewrite !firstn_nil. reflexivity.
Qed.

Lemma sub_nil {A} (l : list A) a : sub l a a = [].
Proof. unfold sub. replace (N (a - a)) with O by lia. reflexivity. Qed.

Lemma sub_to_end {A} (l : list A) a : 0 <= a -> sub l a (zlen l) = skipn (N a) l.
Proof. intros H. unfold sub. apply firstn_all2. rewrite skipn_length. unfold zlen. lia. Qed.

(* ------------------------------------------------------------------ the significant tokens of a range, as a filter *)
Lemma nth_error_firstn_lt {A} : forall n (l : list A) k, (k < n)%nat -> nth_error (firstn n l) k = nth_error l k.
Proof.
  induction n as [|n IH]; intros l k Hk; [lia|]. destruct l as [|x l]; [destruct k; reflexivity|].
  destruct k as [|k]; [reflexivity|]. cbn [firstn nth_error]. apply IH. lia.
Qed.

Lemma toks_at_filter (T : list token) : forall l a, 0 <= a -> (forall k, (k < length l)%nat -> nth_error l k = nth_error T (N a + k)) ->
  toks_at T (filter (sigb T) (zrange a (length l))) = filter (fun t => negb (LuaTokens.is_trivia t)) l.
Proof.
  induction l as [|t r IH]; intros a Ha Hl; [reflexivity|]. cbn [length zrange filter].
  assert (Ht : tok_at T a = Some t).
  { unfold tok_at. destruct (a <? 0) eqn:E; [lia|]. rewrite <- (Nat.add_0_r (N a)), <- Hl by (cbn [length]; lia). reflexivity. }
  assert (IH' : toks_at T (filter (sigb T) (zrange (a + 1) (length r))) = filter (fun t => negb (LuaTokens.is_trivia t)) r).
  { apply IH; [lia|]. intros k Hk. replace (N (a + 1) + k)%nat with (N a + Datatypes.S k)%nat by lia.
    rewrite <- Hl by (cbn [length]; lia). reflexivity. }
  unfold sigb at 1. rewrite Ht. destruct (negb (LuaTokens.is_trivia t)).
  - cbn [toks_at flat_map]. rewrite Ht. cbn [app]. f_equal. exact IH'.
  - exact IH'.
Qed.

Lemma seg_filter (T : list token) a b : 0 <= a -> a <= b -> b <= zlen T ->
  seg T a b = filter (fun t => negb (LuaTokens.is_trivia t)) (sub T a b).
Proof.
  intros H0 H1 H2. unfold seg, sig.
  assert (L : length (sub T a b) = N (b - a)).
  { unfold sub. rewrite firstn_length, skipn_length. unfold zlen in H2. lia. }
  rewrite <- L. apply toks_at_filter; [exact H0|]. intros k Hk. unfold sub. rewrite L in Hk.
  rewrite nth_error_firstn_lt by exact Hk. apply ParserProofs.nth_error_skipn.
Qed.

Lemma Forall2_len {A B} (P : A -> B -> Prop) l1 l2 : Forall2 P l1 l2 -> length l1 = length l2.
Proof. induction 1 as [|? ? ? ? _ _ IH]; [reflexivity | cbn [length]; rewrite IH; reflexivity]. Qed.

Lemma Forall2_map_r {A B C} (P : A -> C -> Prop) (f : B -> C) l1 l2 :
  Forall2 (fun a b => P a (f b)) l1 l2 -> Forall2 P l1 (map f l2).
Proof. induction 1; [constructor|]. cbn [map]. constructor; assumption. Qed.

(* ------------------------------------------------------------------ the setting *)
Section Main.
Variable ss : list stok.              (* the reference tokens of the file (positions dropped) *)
Variable tsm : list tok.              (* the lexer model's tokens *)
Hypothesis Hcorr : Forall2 (fun s tm => corr (token_of_tok tm) s) ss tsm.
Hypothesis Hword : Forall word_ok ss.

Let T : list token := map token_of_tok tsm.
Let n : Z := zlen T.
Let rs : list stok := map recode ss.

Definition segS (a b : Z) : list stok := nontriv (sub ss a b).

Lemma len_ss : length ss = length tsm.
Proof. exact (Forall2_len _ _ _ Hcorr). Qed.
Lemma len_T : length T = length tsm.
Proof. unfold T. apply map_length. Qed.
Lemma n_len : n = Z.of_nat (length ss).
Proof. unfold n, zlen. rewrite len_T, len_ss. reflexivity. Qed.

Lemma Forall2_firstn {A B} (P : A -> B -> Prop) k : forall l1 l2, Forall2 P l1 l2 -> Forall2 P (firstn k l1) (firstn k l2).
Proof. induction k as [|k IH]; intros l1 l2 H; [constructor|]. destruct H; [constructor|]. cbn [firstn]. constructor; [assumption | apply IH; assumption]. Qed.
Lemma Forall2_skipn {A B} (P : A -> B -> Prop) k : forall l1 l2, Forall2 P l1 l2 -> Forall2 P (skipn k l1) (skipn k l2).
Proof. induction k as [|k IH]; intros l1 l2 H; [exact H|]. destruct H; [constructor|]. cbn [skipn]. apply IH; assumption. Qed.

Lemma corr_filter : forall (l1 : list stok) (l2 : list token), Forall2 (fun s u => corr u s) l1 l2 ->
  Forall2 corr (filter (fun t => negb (LuaTokens.is_trivia t)) l2) (nontriv l1).
Proof.
  induction 1 as [|s u l1 l2 C _ IH]; [constructor|]. unfold nontriv in *. cbn [filter]. rewrite (c_triv _ _ C).
  destruct (negb (LuaLex.is_trivia s)); [constructor; assumption | exact IH].
Qed.

Lemma Hcorr_T : Forall2 (fun s u => corr u s) ss T.
Proof.
  unfold T. apply Forall2_map_r. exact Hcorr.
Qed.

Lemma seg_corr a b : 0 <= a -> a <= b -> b <= n -> Forall2 corr (seg T a b) (segS a b).
Proof.
  intros H0 H1 H2. rewrite seg_filter by assumption. unfold segS. apply corr_filter.
  unfold sub. apply Forall2_firstn, Forall2_skipn, Hcorr_T.
Qed.

Lemma segS_app a b c : 0 <= a -> a <= b -> b <= c -> segS a c = segS a b ++ segS b c.
Proof. intros. unfold segS. rewrite (sub_app ss a b c) by assumption. apply nontriv_app. Qed.

(* ---------- ranges: what is still untouched after a list of cuts ---------- *)
Fixpoint rbound (p : nat) (R : list (nat * nat)) : nat :=
  match R with [] => p | (a, b) :: r => rbound (bound_after rs a) r end.

Lemma ranges_ok_snoc R : forall p a b, ranges_ok rs p R -> (a < b)%nat -> (b <= rbound p R)%nat ->
  (exists k, nth_error rs a = Some k /\ is_name_start (hd 0 (s_raw k)) = true) -> ranges_ok rs p (R ++ [(a, b)]).
Proof.
  induction R as [|[a0 b0] R IH]; intros p a b H Hab Hb Hk.
  - cbn [app ranges_ok rbound] in *. repeat split; assumption.
  - cbn [app ranges_ok rbound] in *. destruct H as (H1 & H2 & H3 & H4). repeat split; try assumption. apply IH; assumption.
Qed.

Lemma rbound_snoc R : forall p a b, rbound p (R ++ [(a, b)]) = bound_after rs a.
Proof. induction R as [|[a0 b0] R IH]; intros p a b; [reflexivity|]. cbn [app rbound]. apply IH. Qed.

Lemma drops_snoc {A} R : forall (l : list A) a b, drops l (R ++ [(a, b)]) = drop1 (drops l R) a b.
Proof. induction R as [|[a0 b0] R IH]; intros l a b; [reflexivity|]. cbn [app drops]. apply IH. Qed.

Lemma cuts_snoc {A} (sp : A) R : forall (l : list A) a b, cuts sp l (R ++ [(a, b)]) = cut1 sp (cuts sp l R) a b.
Proof. induction R as [|[a0 b0] R IH]; intros l a b; [reflexivity|]. cbn [app cuts]. apply IH. Qed.

Lemma firstn_app_le {A} (l k : list A) a m : (a <= m)%nat -> (m <= length l)%nat -> firstn a (firstn m l ++ k) = firstn a l.
Proof.
  intros H1 H2. rewrite firstn_app, firstn_firstn, Nat.min_l by lia.
  replace (a - length (firstn m l))%nat with O by (rewrite firstn_length; lia). cbn [firstn]. apply app_nil_r.
Qed.

Lemma skipn_app_eq {A} (l k : list A) m : (m <= length l)%nat -> skipn m (firstn m l ++ k) = k.
Proof.
  intros H. rewrite skipn_app. rewrite skipn_all2 by (rewrite firstn_length; lia).
  replace (m - length (firstn m l))%nat with O by (rewrite firstn_length; lia). reflexivity.
Qed.

(* a cursor that stands at 0 or directly behind a significant token *)
Definition tight (q : Z) : Prop := q = 0 \/ sigb T (q - 1) = true.

Lemma Forall2_nth {A B} (P : A -> B -> Prop) : forall l1 l2 i a, Forall2 P l1 l2 -> nth_error l1 i = Some a ->
  exists b, nth_error l2 i = Some b /\ P a b.
Proof.
  intros l1 l2 i a H. revert i. induction H as [|x y l1 l2 Hxy _ IH]; intros i Hn; [destruct i; discriminate|].
  destruct i as [|i]; [injection Hn as <-; exists y; split; [reflexivity | exact Hxy] | apply IH, Hn].
Qed.

Lemma space_trivia i sp : nth_error rs i = Some sp -> is_space sp = true -> sigb T (Z.of_nat i) = false.
Proof.
  intros Hn Hs. unfold rs in Hn. rewrite nth_error_map in Hn. destruct (nth_error ss i) as [s|] eqn:E; [|discriminate].
  injection Hn as <-. destruct (Forall2_nth _ _ _ _ _ Hcorr_T E) as (u & Hu & C).
  unfold sigb, tok_at. destruct (Z.of_nat i <? 0) eqn:E0; [lia|]. rewrite Nat2Z.id, Hu. rewrite (c_triv _ _ C).
  unfold is_space, recode in Hs. unfold LuaLex.is_trivia. destruct (is_quoted s) eqn:Q.
  - cbn [s_kind] in Hs. discriminate Hs.
  - destruct (s_kind s); try discriminate Hs. reflexivity.
Qed.

Lemma tight_bound q fi : 0 <= q -> q <= fi -> tight q -> (N q <= bound_after rs (N fi))%nat.
Proof.
  intros H0 Hq Ht. unfold bound_after. destruct (N fi) as [|a1] eqn:Efi; [lia|].
  destruct (nth_error rs a1) as [sp|] eqn:En; [|lia]. destruct (is_space sp) eqn:Es; [|lia].
  destruct (Z.eq_dec q fi) as [->|Hne]; [|lia]. exfalso. destruct Ht as [->|Ht]; [lia|].
  pose proof (space_trivia a1 sp En Es) as Hs. replace (Z.of_nat a1) with (fi - 1) in Hs by lia. congruence.
Qed.

(* ---------- the state after the items behind cursor m have been dealt with ---------- *)
Variable full : bool.                 (* false: only the shape of the ranges is tracked *)

Definition Inv (m : Z) (R : list (nat * nat)) : Prop :=
  (full = true -> exists K, drops ss R = firstn (N m) ss ++ K /\ nontriv K = strip_from (segS m n) 0 0 false) /\
  (exists Y, cuts space_tok tsm R = firstn (N m) tsm ++ Y) /\
  ranges_ok rs (length ss) R /\
  (forall q, 0 <= q -> q <= m -> tight q -> (N q <= rbound (length ss) R)%nat).

Lemma all_trivia_nontriv : forall (l1 : list stok) (l2 : list token), Forall2 (fun s u => corr u s) l1 l2 ->
  all_trivia l2 = true -> nontriv l1 = [].
Proof.
  induction 1 as [|s u l1 l2 C _ IH]; [reflexivity|]. cbn [all_trivia]. intros H. apply andb_true_iff in H. destruct H as [H1 H2].
  unfold nontriv in *. cbn [filter]. rewrite <- (c_triv _ _ C), H1. cbn [negb]. apply IH, H2.
Qed.

Lemma Inv_base e : 0 <= e <= n -> (full = true -> consumed T e = true) -> Inv e [].
Proof.
  intros [He0 He1] Hcons.
  split; [|split; [|split]].
  - intros Hfull. specialize (Hcons Hfull). unfold consumed in Hcons. apply andb_true_iff in Hcons. destruct Hcons as [_ Htr].
    assert (Hnil : nontriv (skipn (N e) ss) = []).
    { eapply all_trivia_nontriv; [|exact Htr]. apply Forall2_skipn, Hcorr_T. }
    exists (skipn (N e) ss). split; [symmetry; apply firstn_skipn|]. cbn [drops]. rewrite Hnil. unfold segS.
    replace n with (zlen ss) by (rewrite n_len; reflexivity). rewrite sub_to_end by lia. rewrite Hnil. reflexivity.
  - exists (skipn (N e) tsm). cbn [cuts]. symmetry. apply firstn_skipn.
  - exact I.
  - intros q Hq0 Hq _. cbn [rbound]. rewrite n_len in He1. lia.
Qed.

(* items that strip_from copies: the cursor moves back over them *)
Lemma Inv_weaken p m R : Inv m R -> 0 <= p -> p <= m -> m <= n -> (full = true -> Q0 gl (seg T p m)) -> Inv p R.
Proof.
  intros (HKK & (Y & HY) & Hok & Hb) H0 Hpm Hmn HQ'.
  split; [|split; [|split]].
  - intros Hfull. destruct (HKK Hfull) as (K & HK & HKn). specialize (HQ' Hfull). rename HQ' into HQ.
    exists (sub ss p m ++ K). split; [rewrite HK, (firstn_sub ss p m), <- app_assoc by lia; reflexivity|].
    rewrite nontriv_app, HKn. fold (segS p m). rewrite (segS_app p m n) by lia.
    symmetry. apply (strip_pass (seg T p m)); [apply seg_corr; lia | exact HQ].
  - exists (sub tsm p m ++ Y). rewrite HY, (firstn_sub tsm p m), <- app_assoc by lia. reflexivity.
  - exact Hok.
  - intros q Hq0 Hq Ht. apply Hb; [lia | lia | exact Ht].
Qed.

Lemma Forall2_app_inv_l' {A B} (P : A -> B -> Prop) l1 l2 l : Forall2 P (l1 ++ l2) l ->
  exists k1 k2, l = k1 ++ k2 /\ Forall2 P l1 k1 /\ Forall2 P l2 k2.
Proof.
  revert l. induction l1 as [|x l1 IH]; intros l H.
  - exists [], l. repeat split; [constructor | exact H].
  - cbn [app] in H. inversion H as [|? y ? l' Hxy Hr]; subst. destruct (IH _ Hr) as (k1 & k2 & -> & H1 & H2).
    exists (y :: k1), k2. repeat split; [constructor; assumption | exact H2].
Qed.

(* a game-loop definition: its tokens are cut, strip_from drops them *)
Lemma Inv_gl p fi m R tf body te : Inv m R -> 0 <= p -> p <= fi -> fi + 1 < m -> m <= n ->
  [fi] = sig T p (fi + 1) -> tok_at T fi = Some tf -> is_fun tf = true ->
  seg T (fi + 1) m = body ++ [te] -> W gl body -> tfacts te (-1) false false false -> sigb T (m - 1) = true ->
  (full = true -> exists tn tp r, body = tn :: tp :: r /\ is_nm tn = true /\ in_gl gl tn = true /\ is_sym "("%bs tp = true) ->
  Inv p (R ++ [(N fi, N m)]).
Proof.
  intros (HKK & (Y & HY) & Hok & Hb) H0 Hpf Hfm Hmn Hsig Htok Hfun Hseg HW [Hd _ _ _] Htight Hhead.
  assert (Lss : (N m <= length ss)%nat) by (rewrite n_len in Hmn; lia).
  assert (Ltsm : (N m <= length tsm)%nat) by (rewrite <- len_ss; exact Lss).
  (* the reference tokens of the statement *)
  pose proof (seg_corr p (fi + 1) H0 ltac:(lia) ltac:(lia)) as C1. rewrite (seg_single T p fi tf Hsig Htok) in C1.
  inversion C1 as [|? sf ? l' Cf Cnil E1 E2]; subst. inversion Cnil; subst. symmetry in E2.
  pose proof (seg_corr (fi + 1) m ltac:(lia) ltac:(lia) Hmn) as C2. rewrite Hseg in C2.
  destruct (Forall2_app_inv_l' _ _ _ _ C2) as (sbody & se1 & E3 & Cb & Ce). inversion Ce as [|? se ? l'' Cte Cnil2]; subst. inversion Cnil2; subst.
  assert (Estrip : (exists tn tp r, body = tn :: tp :: r /\ is_nm tn = true /\ in_gl gl tn = true /\ is_sym "("%bs tp = true) ->
                   strip_from (segS p n) 0 0 false = strip_from (segS m n) 0 0 false).
  { intros Hhead'. rewrite (segS_app p (fi + 1) n), (segS_app (fi + 1) m n), E2, E3 by lia. cbn [app]. rewrite <- app_assoc. cbn [app].
    eapply strip_skip; eassumption. }
  assert (Etriv : nontriv (sub ss p fi) = []).
  { pose proof (seg_corr p fi H0 Hpf ltac:(lia)) as C0.
    assert (En : seg T p fi = []).
    { unfold seg. pose proof (sig_app T p fi (fi + 1) Hpf ltac:(lia)) as Es. rewrite <- Hsig in Es.
      rewrite (sig_single T fi fi) in Es; [|lia | intros; lia | eapply sig_single_sigb; exact Hsig].
      destruct (ParserProofs.sig T p fi) as [|x r]; [reflexivity|]. destruct r; discriminate Es. }
    rewrite En in C0. inversion C0 as [E0 Hx|]. unfold segS in Hx. symmetry. exact Hx. }
  split; [|split; [|split]].
  - intros Hfull. destruct (HKK Hfull) as (K & HK & HKn). specialize (Estrip (Hhead Hfull)).
    exists (sub ss p fi ++ K). rewrite drops_snoc, HK. unfold drop1. rewrite firstn_app_le, skipn_app_eq by lia.
    split; [rewrite (firstn_sub ss p fi), <- app_assoc by lia; reflexivity|].
    rewrite nontriv_app, Etriv, HKn, Estrip. reflexivity.
  - exists (sub tsm p fi ++ space_tok :: Y). rewrite cuts_snoc, HY. unfold cut1. rewrite firstn_app_le, skipn_app_eq by lia.
    rewrite (firstn_sub tsm p fi), <- app_assoc by lia. reflexivity.
  - apply ranges_ok_snoc; [exact Hok | lia | apply Hb; [lia | lia | right; exact Htight] |].
    (* the run starts with the word `function` *)
    destruct (nth_error ss (N fi)) as [s|] eqn:Es.
    + destruct (Forall2_nth _ _ _ _ _ Hcorr_T Es) as (u & Hu & C).
      assert (u = tf).
      { unfold tok_at in Htok. destruct (fi <? 0); [discriminate|]. congruence. }
      subst u. pose proof (c_fun _ _ C) as Ef. rewrite Hfun in Ef. symmetry in Ef. unfold kw_is in Ef.
      apply andb_true_iff in Ef. destruct Ef as [Ek Et]. apply zlist_eqb_eq in Et.
      assert (Hw : word_ok s) by (rewrite Forall_forall in Hword; apply Hword; eapply nth_error_In, Es).
      unfold word_ok in Hw. unfold RequireSpec.is_kind in Ek.
      assert (Ks : s_kind s = SKeyword) by (destruct (s_kind s); try discriminate Ek; reflexivity).
      rewrite Ks in Hw. destruct Hw as [Hw _].
      exists (recode s). split; [unfold rs; rewrite nth_error_map, Es; reflexivity|].
      unfold recode, is_quoted. rewrite Ks. rewrite <- Hw, Et. reflexivity.
    + exfalso. apply nth_error_None in Es. lia.
  - intros q Hq0 Hq Ht. rewrite rbound_snoc. apply tight_bound; [exact Hq0 | lia | exact Ht].
Qed.

(* ---------- skipping the trivia in front of a statement ---------- *)
Lemma skip_trivia_found X : forall k p fi, k = N (fi - p) -> 0 <= p -> p <= fi ->
  (forall j, p <= j < fi -> exists t, nth_error X (N j) = Some t /\ is_trivia_tok t = true) ->
  (exists t, nth_error X (N fi) = Some t /\ is_trivia_tok t = false) ->
  skip_trivia (skipn (N p) X) p = Ok fi.
Proof.
  induction k as [|k IH]; intros p fi Hk H0 Hle Htr (t & Ht & Hnt).
  - assert (fi = p) by lia. subst fi. destruct (skipn (N p) X) as [|x r] eqn:E.
    + exfalso. assert (Hn : nth_error (skipn (N p) X) 0 = Some t) by (rewrite ParserProofs.nth_error_skipn, Nat.add_0_r; exact Ht).
      rewrite E in Hn. discriminate Hn.
    + assert (Hn : nth_error (skipn (N p) X) 0 = Some t) by (rewrite ParserProofs.nth_error_skipn, Nat.add_0_r; exact Ht).
      rewrite E in Hn. injection Hn as ->. cbn [skip_trivia]. rewrite Hnt. reflexivity.
  - destruct (Htr p ltac:(lia)) as (t0 & Ht0 & Htr0).
    destruct (skipn (N p) X) as [|x r] eqn:E.
    + exfalso. assert (Hn : nth_error (skipn (N p) X) 0 = Some t0) by (rewrite ParserProofs.nth_error_skipn, Nat.add_0_r; exact Ht0).
      rewrite E in Hn. discriminate Hn.
    + assert (Hn : nth_error (skipn (N p) X) 0 = Some t0) by (rewrite ParserProofs.nth_error_skipn, Nat.add_0_r; exact Ht0).
      rewrite E in Hn. injection Hn as ->. cbn [skip_trivia]. rewrite Htr0.
      assert (Er : r = skipn (N (p + 1)) X).
      { replace (N (p + 1)) with (N p + 1)%nat by lia. rewrite <- skipn_skipn', E. reflexivity. }
      rewrite Er. apply (IH (p + 1) fi); [lia | lia | lia | intros j Hj; apply Htr; lia | exists t; split; assumption].
Qed.

Lemma sig_nil_inv a b : ParserProofs.sig T a b = [] -> forall j, a <= j < b -> sigb T j = false.
Proof.
  unfold ParserProofs.sig. remember (N (b - a)) as k eqn:Ek. revert a b Ek. induction k as [|k IH]; intros a b Ek H j Hj; [lia|].
  cbn [zrange filter] in H. destruct (sigb T a) eqn:Ea; [discriminate H|].
  destruct (Z.eq_dec j a) as [->|Hne]; [exact Ea|]. apply (IH (a + 1) b); [lia | exact H | lia].
Qed.

Lemma trivia_tok_eq t : LuaTokens.is_trivia (token_of_tok t) = is_trivia_tok t.
Proof. unfold LuaTokens.is_trivia, is_trivia_tok, token_of_tok. cbn [tk]. destruct (t_kind t); reflexivity. Qed.

Lemma tok_at_T j u : tok_at T j = Some u -> exists t, nth_error tsm (N j) = Some t /\ u = token_of_tok t.
Proof.
  unfold tok_at, T. destruct (j <? 0); [discriminate|]. rewrite nth_error_map. destruct (nth_error tsm (N j)) as [t|]; [|discriminate].
  intros [= <-]. exists t. split; reflexivity.
Qed.

Lemma sigb_false_trivia j : 0 <= j < n -> sigb T j = false -> exists t, nth_error tsm (N j) = Some t /\ is_trivia_tok t = true.
Proof.
  intros Hj Hs. unfold sigb in Hs. destruct (tok_at T j) as [u|] eqn:E.
  - destruct (tok_at_T _ _ E) as (t & Ht & ->). exists t. split; [exact Ht|]. rewrite trivia_tok_eq in Hs.
    destruct (is_trivia_tok t); [reflexivity | discriminate Hs].
  - exfalso. unfold tok_at in E. destruct (j <? 0) eqn:E0; [lia|]. apply nth_error_None in E. unfold n, zlen in Hj. lia.
Qed.

Lemma strip_ranges_app A : forall B X, strip_ranges (A ++ B) X =
  match strip_ranges A X with
  | Ok RA => match strip_ranges B (cuts space_tok X RA) with Ok RB => Ok (RA ++ RB) | Err err => Err err end
  | Err err => Err err
  end.
Proof.
  induction A as [|s A IH]; intros B X.
  - cbn [app strip_ranges cuts]. destruct (strip_ranges B X); reflexivity.
  - cbn [app strip_ranges]. destruct (is_game_loop_stat s); [|apply IH].
    destruct (start_of s) as [a|]; [|reflexivity]. destruct (end_of s) as [b|]; [|reflexivity].
    destruct (skip_trivia (skipn (N a) X) a) as [a'|err]; [|reflexivity]. cbn [bind]. rewrite IH.
    change (splice X a' b) with (cut1 space_tok X (N a') (N (Z.max a' b))).
    destruct (strip_ranges A (cut1 space_tok X (N a') (N (Z.max a' b)))) as [RA|err]; [|reflexivity]. cbn [bind cuts].
    destruct (strip_ranges B (cuts space_tok (cut1 space_tok X (N a') (N (Z.max a' b))) RA)); reflexivity.
Qed.

Lemma is_gl_stat x : is_game_loop_stat x = gl_stat gl x.
Proof. reflexivity. Qed.

(* ---------- the items of the root chunk, last one first ---------- *)
Definition clean (l : list tree) : bool := forallb (fun x => (tag_of x =? tStatFunction) || negb (exposed gl x)) l.

Variable e : Z.
Hypothesis He : e <= n.
Hypothesis Hbase : Inv e [].

Lemma items_inv l : forall p, tiles T gl l p e -> 0 <= p -> (full = true -> clean l = true) ->
  exists R, strip_ranges (rev' (visible l)) tsm = Ok R /\ Inv p R.
Proof.
  induction l as [|x r IH]; intros p Ht H0 Hc.
  - cbn [tiles] in Ht. subst p. exists []. split; [reflexivity | exact Hbase].
  - assert (Hcr : full = true -> clean r = true).
    { intros Hf. specialize (Hc Hf). cbn [clean forallb] in Hc. apply andb_true_iff in Hc. apply Hc. }
    assert (Hcx : full = true -> ((tag_of x =? tStatFunction) || negb (exposed gl x)) = true).
    { intros Hf. specialize (Hc Hf). cbn [clean forallb] in Hc. apply andb_true_iff in Hc. apply Hc. }
    assert (Hstat : forall m, stat_ok T gl x p m -> p < m -> tiles T gl r m e ->
              exists R, strip_ranges (rev' (visible (x :: r))) tsm = Ok R /\ Inv p R).
    { intros m Hs Hpm Hr. pose proof (tiles_le _ _ _ _ _ Hr) as Hme.
      destruct (IH m Hr ltac:(lia) Hcr) as (R & HR & HI).
      pose proof Hs as (tag & sh & fs & -> & HW & HQ & Hfun).
      assert (Ev : rev' (visible (Node tag p m sh fs :: r)) = rev' (visible r) ++ [Node tag p m sh fs]).
      { unfold visible. cbn [filter is_hidden negb]. unfold rev'. rewrite <- !rev_alt. reflexivity. }
      rewrite Ev, strip_ranges_app, HR. cbn [strip_ranges]. rewrite is_gl_stat.
      destruct (gl_stat gl (Node tag p m sh fs)) eqn:Eg.
      - (* a game-loop definition *)
        assert (Etag : tag = tStatFunction).
        { unfold gl_stat in Eg. apply andb_true_iff in Eg. destruct Eg as [Eg _]. cbn [tag_of strip_paren] in Eg. apply Z.eqb_eq in Eg. exact Eg. }
        destruct (Hfun Etag) as (fi & tf & body & te & Hpf & Hsig & Htok & Hf & Hfm & Hseg & HWb & Fte & Htight & Hhead).
        assert (Hhead' := fun _ : full = true => Hhead Eg). clear Hhead. cbn [start_of end_of strip_paren].
        destruct HI as (HK & (Y & HY) & Hrest).
        assert (Hskip : skip_trivia (skipn (N p) (cuts space_tok tsm R)) p = Ok fi).
        { assert (Lm : (N m <= length tsm)%nat) by (rewrite <- len_T; unfold n, zlen in He; lia).
          assert (Hnth : forall j, 0 <= j < m -> nth_error (cuts space_tok tsm R) (N j) = nth_error tsm (N j)).
          { intros j Hj. rewrite HY. rewrite nth_error_app1 by (rewrite firstn_length; lia). apply nth_error_firstn_lt. lia. }
          apply (skip_trivia_found _ (N (fi - p))); [reflexivity | lia | lia | |].
          - intros j Hj. rewrite Hnth by lia. apply sigb_false_trivia; [lia|].
            apply (sig_nil_inv p fi); [|lia].
            pose proof (sig_app T p fi (fi + 1) Hpf ltac:(lia)) as Es. rewrite <- Hsig in Es.
            rewrite (sig_single T fi fi) in Es; [|lia | intros; lia | eapply sig_single_sigb; exact Hsig].
            destruct (ParserProofs.sig T p fi) as [|y ys]; [reflexivity|]. destruct ys; discriminate Es.
          - rewrite Hnth by lia. destruct (tok_at_T _ _ Htok) as (t & Ht' & ->). exists t. split; [exact Ht'|].
            pose proof (sig_single_sigb T p fi Hsig) as Hsb. unfold sigb in Hsb. rewrite Htok, trivia_tok_eq in Hsb.
            destruct (is_trivia_tok t); [discriminate Hsb | reflexivity]. }
        rewrite Hskip. cbn [bind]. eexists. split; [reflexivity|].
        replace (Z.max fi m) with m by lia.
        eapply Inv_gl; try eassumption; try lia. split; [exact HK|]. split; [exists Y; exact HY | exact Hrest].
      - (* any other statement *)
        rewrite app_nil_r. exists R. split; [reflexivity|].
        apply (Inv_weaken p m); [exact HI | exact H0 | lia | lia|]. intros Hf. specialize (Hcx Hf). apply HQ.
        apply orb_true_iff in Hcx. destruct Hcx as [Hcx|Hcx]; [|apply negb_true_iff in Hcx; exact Hcx].
        cbn [tag_of strip_paren] in Hcx. apply Z.eqb_eq in Hcx. subst tag. rewrite exposed_fun. exact Eg. }
    destruct x; cbn [tiles] in Ht; try (destruct Ht as (m & Hs & Hpm & Hr); exact (Hstat m Hs Hpm Hr)).
    (* a semicolon *)
    destruct Ht as (Hpi & Hsig & (t & Htok & Ft) & Hr). pose proof (tiles_le _ _ _ _ _ Hr) as Hie.
    destruct (IH (i + 1) Hr ltac:(lia) Hcr) as (R & HR & HI).
    exists R. split; [exact HR|]. apply (Inv_weaken p (i + 1)); [exact HI | exact H0 | lia | lia|]. intros _.
    unfold Q0. rewrite (seg_single T p i t Hsig Htok). apply S_plain; [eapply tfacts_plain, Ft | lia].
Qed.

End Main.

(* ------------------------------------------------------------------ the two hypotheses of C14_stripped_pkg_spec_partial *)
Lemma lua_binops_plain : forallb pat_plain lua_binops = true.
Proof. vm_compute. reflexivity. Qed.
Lemma lua_unops_plain : forallb pat_plain lua_unops = true.
Proof. vm_compute. reflexivity. Qed.

(* the parser consumed the whole file: nothing but white space and comments behind the root chunk *)
Definition fully_parsed (q : lua) : bool :=
  match end_of (l_root q) with
  | Some e => consumed (map token_of_tok (l_toks q)) e
  | None => false
  end.

(* no game-loop definition directly in the body / else part of a one-line if of the root chunk *)
Definition shortif_clean (root : tree) : bool :=
  match root with
  | Node _ _ _ _ [Lst l] => clean l
  | _ => false
  end.

Lemma from_lines_parse ls q : from_lines ls = Ok q ->
  exists e, lua_parse (map token_of_tok (l_toks q)) = Ok (l_root q, e).
Proof.
  unfold from_lines. destruct (model_lex ls) as [ts|err]; [|discriminate]. cbn [bind].
  destruct (lua_parse (map token_of_tok ts)) as [[root p]|err] eqn:E; [|discriminate]. cbn [bind]. intros [= <-]. cbn [l_toks l_root].
  exists p. exact E.
Qed.

(* full = false: the ranges are well formed, for every package file of the dialect;
   full = true: and the tokens outside them are those spec_strip keeps *)
Lemma strip_ranges_facts_gen (full : bool) c ss0 q ranges :
  Forall byte c -> spec_lex c = Some ss0 -> from_lines (file_lines c) = Ok q ->
  strip_ranges (rev' (root_stats (l_root q))) (l_toks q) = Ok ranges ->
  (full = true -> fully_parsed q = true /\ shortif_clean (l_root q) = true) ->
  ranges_ok (map recode (map unpos ss0)) (length (map unpos ss0)) ranges /\
  (full = true -> nontriv (drops (map unpos ss0) ranges) = spec_strip (nontriv (map unpos ss0))).
Proof.
  intros HB Es Hq Hrng Hhyp.
  pose proof (ReqEmbedSpecTokens.from_lines_model_lex _ _ Hq) as Hm.
  pose proof (ReqEmbedSpecTokens.file_lines_good c HB) as [Hg _].
  rewrite (LexerChunk.model_lex_chunking _ Hg), ReqEmbedInstProofs.file_lines_concat in Hm.
  destruct (lex_agrees c ss0 HB Es) as (ts' & Hm' & Hag). rewrite Hm in Hm'. injection Hm' as <-.
  assert (Hc : chain c (map unpos ss0)) by (apply (spec_toks_chain c); unfold HoldsC01.spec_toks; rewrite Es; reflexivity).
  pose proof (chain_word_ok _ _ Hc) as Hword.
  set (ss := map unpos ss0) in *. set (tsm := l_toks q) in *.
  assert (Hcorr : Forall2 (fun s tm => corr (token_of_tok tm) s) ss tsm).
  { unfold ss. clear -Hag Hword. unfold ss in Hword. induction Hag as [|s t l1 l2 Ha _ IH]; [constructor|]. cbn [map] in *.
    inversion Hword; subst. constructor; [apply agree_corr; assumption | apply IH; assumption]. }
  destruct (from_lines_parse _ _ Hq) as (e & Hp). fold tsm in Hp.
  pose proof (lua_parse_spec (map token_of_tok tsm)) as Sp. rewrite Hp in Sp. destruct Sp as (He & _ & _ & (fs & Eroot)).
  pose proof (parse_extent (map token_of_tok tsm) lua_binops lua_unops game_loop_function_names
                lua_binops_nontrivia lua_unops_nontrivia lua_binops_plain lua_unops_plain _ _ Hp) as (l & El & Htiles).
  unfold fully_parsed in Hhyp. rewrite El in Hhyp, Hrng. cbn [end_of strip_paren shortif_clean] in Hhyp.
  assert (Erst : root_stats (Node tChunk 0 e false [Lst l]) = visible l) by reflexivity.
  rewrite Erst in Hrng.
  assert (Hbase : Inv ss tsm full e []) by (apply (Inv_base ss tsm Hcorr full e He); intros Hf; apply Hhyp, Hf).
  destruct (items_inv ss tsm Hcorr Hword full e ltac:(lia) Hbase l 0 Htiles ltac:(lia) ltac:(intros Hf; apply Hhyp, Hf)) as (R & HR & HI).
  fold tsm in Hrng. rewrite HR in Hrng. injection Hrng as <-.
  destruct HI as (HKK & _ & Hok & _). split; [exact Hok|]. intros Hf. destruct (HKK Hf) as (K & HK & HKn).
  change (N 0) with O in HK. cbn [firstn app] in HK. rewrite HK, HKn. unfold spec_strip, segS. f_equal.
  unfold sub. replace (N (zlen (map token_of_tok tsm) - 0)) with (length ss).
  - cbn [skipn]. rewrite firstn_all. reflexivity.
  - unfold zlen. rewrite map_length, <- (len_ss ss tsm Hcorr). lia.
Qed.

(* H1, for every package file of the dialect *)
Theorem strip_ranges_ok c ss0 q ranges :
  Forall byte c -> spec_lex c = Some ss0 -> from_lines (file_lines c) = Ok q ->
  strip_ranges (rev' (root_stats (l_root q))) (l_toks q) = Ok ranges ->
  ranges_ok (map recode (map unpos ss0)) (length (map unpos ss0)) ranges.
Proof.
  intros HB Es Hq Hr. apply (strip_ranges_facts_gen false c ss0 q ranges HB Es Hq Hr). intros H; discriminate H.
Qed.
Print Assumptions strip_ranges_ok.

(* H1 and H2 *)
Theorem strip_ranges_facts c ss0 q ranges :
  Forall byte c -> spec_lex c = Some ss0 -> from_lines (file_lines c) = Ok q ->
  strip_ranges (rev' (root_stats (l_root q))) (l_toks q) = Ok ranges ->
  fully_parsed q = true -> shortif_clean (l_root q) = true ->
  ranges_ok (map recode (map unpos ss0)) (length (map unpos ss0)) ranges /\
  nontriv (drops (map unpos ss0) ranges) = spec_strip (nontriv (map unpos ss0)).
Proof.
  intros HB Es Hq Hr Hfull Hclean.
  destruct (strip_ranges_facts_gen true c ss0 q ranges HB Es Hq Hr ltac:(intros _; split; assumption)) as [H1 H2].
  split; [exact H1 | apply H2; reflexivity].
Qed.
Print Assumptions strip_ranges_facts.

(* one package embedded without its game loop: its tokens are the file's tokens outside the ranges build.py cuts -
   no hypothesis about the ranges *)
Theorem stripped_pkg_ranges c ss0 q q' :
  Forall byte c -> spec_lex c = Some ss0 -> from_lines (file_lines c) = Ok q -> strip_lua q = Ok q' ->
  exists ranges, strip_ranges (rev' (root_stats (l_root q))) (l_toks q) = Ok ranges /\
    sig_views (concat (ReqEmbedInst.echo_lines q')) = Some (map tview (nontriv (drops (map unpos ss0) ranges))) /\
    good_lines (ReqEmbedInst.echo_lines q').
Proof.
  intros HB Es Hq Hs.
  destruct (strip_ranges (rev' (root_stats (l_root q))) (l_toks q)) as [ranges|err] eqn:Hr.
  - exists ranges. split; [reflexivity|].
    exact (stripped_pkg c ss0 q q' ranges HB Es Hq Hs Hr (strip_ranges_ok c ss0 q ranges HB Es Hq Hr)).
  - exfalso. unfold strip_lua in Hs. rewrite strip_stats_cuts, Hr in Hs. discriminate Hs.
Qed.
Print Assumptions stripped_pkg_ranges.

(* ... and they are the file's tokens minus the top-level game-loop definitions *)
Theorem stripped_pkg_full c ss0 q q' :
  Forall byte c -> spec_lex c = Some ss0 -> from_lines (file_lines c) = Ok q -> strip_lua q = Ok q' ->
  fully_parsed q = true -> shortif_clean (l_root q) = true ->
  sig_views (concat (ReqEmbedInst.echo_lines q')) = Some (map tview (spec_strip (nontriv (map unpos ss0)))) /\
  good_lines (ReqEmbedInst.echo_lines q').
Proof.
  intros HB Es Hq Hs Hfull Hclean.
  destruct (strip_ranges (rev' (root_stats (l_root q))) (l_toks q)) as [ranges|err] eqn:Hr.
  - destruct (strip_ranges_facts c ss0 q ranges HB Es Hq Hr Hfull Hclean) as [H1 H2].
    exact (stripped_pkg_spec c ss0 q q' ranges HB Es Hq Hs Hr H1 H2).
  - exfalso. unfold strip_lua in Hs. rewrite strip_stats_cuts, Hr in Hs. discriminate Hs.
Qed.
Print Assumptions stripped_pkg_full.

(* the first hypothesis follows from C08_complete: a file that has a derivation in the reference grammar (within the
   exclusions of that theorem) is consumed entirely *)
From PV Require Import Model.AstWriter Proofs.ParserComplete2 Proofs.ParserComplete6.
Lemma fully_parsed_of_derivation ls q g :
  from_lines ls = Ok q ->
  derives (map token_of_tok (l_toks q)) g = true -> line_scoped (map token_of_tok (l_toks q)) g = true ->
  excl g = true ->
  fully_parsed q = true.
Proof.
  intros Hq Hd Hl Hf. destruct (from_lines_parse _ _ Hq) as (e & Hp).
  destruct (parse_complete _ g Hd Hl Hf) as (root & e' & Hp' & Hc & _). rewrite Hp in Hp'. injection Hp' as <- <-.
  pose proof (lua_parse_spec (map token_of_tok (l_toks q))) as Sp. rewrite Hp in Sp. destruct Sp as (_ & _ & _ & (fs & Eroot)).
  unfold fully_parsed. rewrite Eroot. exact Hc.
Qed.
Print Assumptions fully_parsed_of_derivation.

(* without shortif_clean the second hypothesis is false: a game-loop definition in the body of a one-line if is not a
   statement of the root chunk - build.py (rightly) keeps it, spec_strip removes it *)
Definition shortif_witness : list Z := "x=1
if (x) function _init() y=2 end
z=3
"%bs.
Lemma spec_strip_shortif_refuted :
  match spec_lex shortif_witness, from_lines (file_lines shortif_witness) with
  | Some ss0, Ok q =>
    match strip_ranges (rev' (root_stats (l_root q))) (l_toks q) with
    | Ok ranges =>
      ranges = [] /\ fully_parsed q = true /\ shortif_clean (l_root q) = false /\
      length (nontriv (drops (map unpos ss0) ranges)) = 18%nat /\
      length (spec_strip (nontriv (map unpos ss0))) = 10%nat
    | Err _ => False
    end
  | _, _ => False
  end.
Proof. vm_compute. repeat split; reflexivity. Qed.

(* the per-entry conditions of C14_tokens_spec_any_newline for a package embedded WITHOUT its game loop, in the
   vocabulary of that theorem (lexes / toks over sig_views) *)
From PV Require Import Proofs.ReqEmbedProofs.
Theorem stripped_pkg_conditions c ss0 q q' :
  Forall byte c -> spec_lex c = Some ss0 -> from_lines (file_lines c) = Ok q -> strip_lua q = Ok q' ->
  lexes (Z * list Z * Z * Z * Z) sig_views (concat (ReqEmbedInst.echo_lines q')) /\
  good_lines (ReqEmbedInst.echo_lines q') /\
  (exists ranges, strip_ranges (rev' (root_stats (l_root q))) (l_toks q) = Ok ranges /\
     toks (Z * list Z * Z * Z * Z) sig_views (concat (ReqEmbedInst.echo_lines q')) = map tview (nontriv (drops (map unpos ss0) ranges))) /\
  (fully_parsed q = true -> shortif_clean (l_root q) = true ->
   toks (Z * list Z * Z * Z * Z) sig_views (concat (ReqEmbedInst.echo_lines q')) = map tview (spec_strip (nontriv (map unpos ss0)))).
Proof.
  intros HB Es Hq Hs. destruct (stripped_pkg_ranges c ss0 q q' HB Es Hq Hs) as (ranges & Hr & Hv & Hg).
  split; [unfold lexes; rewrite Hv; discriminate|]. split; [exact Hg|]. split.
  - exists ranges. split; [exact Hr|]. unfold toks. rewrite Hv. reflexivity.
  - intros Hf Hc. destruct (stripped_pkg_full c ss0 q q' HB Es Hq Hs Hf Hc) as [Hv2 _]. unfold toks. rewrite Hv2. reflexivity.
Qed.
Print Assumptions stripped_pkg_conditions.
