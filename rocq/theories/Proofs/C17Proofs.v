(* C17, assembly: one-step refinement for all 19 operations, histories, the frame
   property of the plain model (byte level, with an explicit footprint), and the
   get-after-set laws. *)
From PV Require Import Base.Prelude Base.ListX Base.PySlice Model.HexSection Model.Gfx Model.Gff Model.MapSec
  Model.Sfx Model.Music Model.Accessors Spec.P8Format Spec.PlainMem
  Proofs.RowLemmas Proofs.SfxProofs Proofs.AccessorsBase Proofs.AccessorsSimple Proofs.AccessorsLoops Proofs.AccessorsRectPx.
From Coq Require Import ZifyBool.
Ltac Zify.zify_post_hook ::= Z.to_euclidean_division_equations.

(* ================= refinement ================= *)
Lemma c17_refines s o : wf_mem s -> in_contract o = true ->
  step_model true s o = Ok (spec_step s o) /\ wf_mem (fst (spec_step s o)).
Proof.
  intros W C. destruct o.
  - apply getsprite_ok; assumption.
  - apply setsprite_ok; assumption.
  - apply mapget_ok; assumption.
  - apply mapset_ok; assumption.
  - apply mapgetrect_ok; assumption.
  - apply mapsetrect_ok; assumption.
  - apply mapgetrectpx_ok; assumption.
  - apply flagget_ok; assumption.
  - apply flagset_ok; assumption.
  - apply flagclear_ok; assumption.
  - apply flagreset_ok; assumption.
  - apply noteget_ok; assumption.
  - apply noteset_ok; assumption.
  - apply sfxpropget_ok; assumption.
  - apply sfxpropset_ok; assumption.
  - apply changet_ok; assumption.
  - apply chanset_ok; assumption.
  - apply muspropget_ok; assumption.
  - apply muspropset_ok; assumption.
Qed.

(* the plain model run over a history *)
Fixpoint run_spec (s : mem) (ops : list op) : mem * list val :=
  match ops with
  | [] => (s, [])
  | o :: r => let '(s1, v) := spec_step s o in let '(s2, vs) := run_spec s1 r in (s2, v :: vs)
  end.

Lemma c17_history ops : forall s, wf_mem s -> forallb in_contract ops = true ->
  run_model true s ops = Ok (run_spec s ops) /\ wf_mem (fst (run_spec s ops)).
Proof.
  induction ops as [|o ops IH]; intros s W C; [split; [reflexivity | exact W]|].
  cbn [forallb] in C. apply andb_true_iff in C. destruct C as [Co Cr].
  destruct (c17_refines s o W Co) as (E & W1).
  cbn [run_model run_spec]. rewrite E. cbn [bind].
  destruct (spec_step s o) as [s1 v]. cbn [fst] in W1.
  destruct (IH s1 W1 Cr) as (E2 & W2). rewrite E2. cbn [bind].
  destruct (run_spec s1 ops) as [s2 vs]. split; [reflexivity | exact W2].
Qed.

(* ================= frame: what an operation may touch ================= *)
Inductive region := RGfx | RMap | RGff | RMusic | RSfx.
Definition reg (r : region) (s : mem) : list Z :=
  match r with RGfx => m_gfx s | RMap => m_map s | RGff => m_gff s | RMusic => m_music s | RSfx => m_sfx s end.

Definition is_some {A} (o : option A) : bool := match o with Some _ => true | None => false end.

(* a pixel of a sprite being stored: the byte it lands in, unless transparent or clipped *)
Definition ss_touch (fx fy a y : Z) (xv : Z * Z) : bool :=
  let '(x, v) := xv in
  negb ((v =? transparent) || (127 <? fx + x) || (127 <? fy + y)) && (a =? (fy + y) * 64 + (fx + x) / 2).
(* a map cell: rows 0-31 in the map region, rows 32-63 in gfx bytes 4096.. *)
Definition cell_touch (r : region) (a x y : Z) : bool :=
  match r with
  | RMap => (y <? 32) && (a =? y * 128 + x)
  | RGfx => negb (y <? 32) && (a =? 4096 + (y - 32) * 128 + x)
  | _ => false
  end.
Definition sr_touch (r : region) (a x y ty : Z) (xv : Z * Z) : bool :=
  let '(tx, v) := xv in negb ((63 <? ty + y) || (127 <? tx + x)) && cell_touch r a (tx + x) (ty + y).

(* footprint o r a: operation o addresses byte a of region r *)
Definition footprint (o : op) (r : region) (a : Z) : bool :=
  match o with
  | GetSprite _ _ _ | MapGet _ _ | MapGetRect _ _ _ _ | MapGetRectPx _ _ _ _ | FlagGet _ _ | NoteGet _ _
  | SfxPropGet _ | ChanGet _ _ | MusPropGet _ => false
  | SetSprite id xo yo rows =>
    match r with
    | RGfx => existsb (fun yr : Z * list Z => let '(y, row) := yr in
                existsb (ss_touch (id mod 16 * 8 + xo) (id / 16 * 8 + yo) a y) (indexed 0 row)) (indexed 0 rows)
    | _ => false
    end
  | MapSet x y v => cell_touch r a x y
  | MapSetRect x y rows =>
    existsb (fun yr : Z * list Z => let '(ty, row) := yr in existsb (sr_touch r a x y ty) (indexed 0 row)) (indexed 0 rows)
  | FlagSet id _ | FlagClear id _ | FlagReset id _ => match r with RGff => a =? id | _ => false end
  | NoteSet id n _ _ _ _ =>
    match r with RSfx => (a =? id * 68 + n * 2) || (a =? id * 68 + n * 2 + 1) | _ => false end
  | SfxPropSet id p0 p1 p2 p3 =>
    match r with
    | RSfx => (is_some p0 && (a =? id * 68 + 64)) || (is_some p1 && (a =? id * 68 + 65)) ||
              (is_some p2 && (a =? id * 68 + 66)) || (is_some p3 && (a =? id * 68 + 67))
    | _ => false
    end
  | ChanSet id ch _ => match r with RMusic => a =? id * 4 + ch | _ => false end
  | MusPropSet id b e st =>
    match r with
    | RMusic => (is_some b && (a =? id * 4)) || (is_some e && (a =? id * 4 + 1)) || (is_some st && (a =? id * 4 + 2))
    | _ => false
    end
  end.

Lemma existsb_false {A} (f : A -> bool) l : existsb f l = false -> forall x, In x l -> f x = false.
Proof.
  intros H x Hx. destruct (f x) eqn:E; [|reflexivity].
  assert (existsb f l = true) by (apply existsb_exists; exists x; split; assumption). congruence.
Qed.

Lemma fold_left_preserves {A S B} (f : S -> A -> S) (obs : S -> B) l :
  (forall s x, In x l -> obs (f s x) = obs s) -> forall s, obs (fold_left f l s) = obs s.
Proof.
  induction l as [|x l IH]; intros H s; [reflexivity|]. cbn [fold_left].
  rewrite IH by (intros s' y Hy; apply H; right; exact Hy). apply H. left. reflexivity.
Qed.

Lemma put_opt_frame l i o a : 0 <= a -> (is_some o && (a =? i)) = false -> at_ (put_opt l i o) a = at_ l a.
Proof.
  intros Ha H. destruct o as [v|]; cbn [put_opt is_some andb] in *; [|reflexivity].
  apply at_put_frame; lia.
Qed.
Lemma set7_frame l i o a : 0 <= a -> (is_some o && (a =? i)) = false -> at_ (set7 l i o) a = at_ l a.
Proof.
  intros Ha H. destruct o as [v|]; cbn [set7 is_some andb] in *; [|reflexivity].
  apply at_put_frame; lia.
Qed.
Lemma zlen_put_opt l i o : zlen (put_opt l i o) = zlen l.
Proof. destruct o; cbn [put_opt]; [apply zlen_put | reflexivity]. Qed.
Lemma zlen_set7 l i o : zlen (set7 l i o) = zlen l.
Proof. destruct o; cbn [set7]; [apply zlen_put | reflexivity]. Qed.

Lemma ss_spec_px_frame fx fy y g xv a : 0 <= a -> ss_touch fx fy a y xv = false ->
  at_ (ss_spec_px fx fy y g xv) a = at_ g a.
Proof.
  intros Ha H. destruct xv as [x v]. unfold ss_touch in H. unfold ss_spec_px.
  destruct ((v =? transparent) || (127 <? fx + x) || (127 <? fy + y)); [reflexivity|].
  cbn [negb andb] in H. unfold set_px. apply at_put_frame; lia.
Qed.
Lemma ss_spec_px_len fx fy y g xv : zlen (ss_spec_px fx fy y g xv) = zlen g.
Proof.
  destruct xv as [x v]. unfold ss_spec_px.
  destruct ((v =? transparent) || (127 <? fx + x) || (127 <? fy + y)); [reflexivity|]. unfold set_px. apply zlen_put.
Qed.

Lemma spec_set_sprite_fold g id xo yo rows :
  spec_set_sprite g id xo yo rows =
  fold_left (fun g (yr : Z * list Z) => let '(y, row) := yr in
               fold_left (ss_spec_px (id mod 16 * 8 + xo) (id / 16 * 8 + yo) y) (indexed 0 row) g) (indexed 0 rows) g.
Proof. reflexivity. Qed.

(* region r of a (map, gfx) pair *)
Definition sel (r : region) (mg : list Z * list Z) : list Z :=
  match r with RMap => fst mg | _ => snd mg end.

Lemma set_cell_frame r mg x y v a : r = RMap \/ r = RGfx -> 0 <= a -> cell_touch r a x y = false ->
  at_ (sel r (set_cell mg x y v)) a = at_ (sel r mg) a.
Proof.
  intros Hr Ha H. destruct mg as [m g]. unfold set_cell.
  destruct Hr as [-> | ->]; unfold cell_touch in H; destruct (y <? 32); cbn [sel fst snd negb andb] in *;
    try reflexivity; apply at_put_frame; lia.
Qed.
Lemma set_cell_len r mg x y v : zlen (sel r (set_cell mg x y v)) = zlen (sel r mg).
Proof.
  destruct mg as [m g]. unfold set_cell. destruct (y <? 32); destruct r; cbn [sel fst snd]; rewrite ?zlen_put; reflexivity.
Qed.

Definition sr_spec_cell (x y ty : Z) (mg : list Z * list Z) (xv : Z * Z) : list Z * list Z :=
  let '(tx, v) := xv in if (63 <? ty + y) || (127 <? tx + x) then mg else set_cell mg (tx + x) (ty + y) v.

Lemma spec_set_rect_fold mg x y rows :
  spec_set_rect mg x y rows =
  fold_left (fun mg (yr : Z * list Z) => let '(ty, row) := yr in fold_left (sr_spec_cell x y ty) (indexed 0 row) mg)
            (indexed 0 rows) mg.
Proof. reflexivity. Qed.

Lemma sr_spec_cell_frame r x y ty mg xv a : r = RMap \/ r = RGfx -> 0 <= a -> sr_touch r a x y ty xv = false ->
  at_ (sel r (sr_spec_cell x y ty mg xv)) a = at_ (sel r mg) a.
Proof.
  intros Hr Ha H. destruct xv as [tx v]. unfold sr_touch in H. unfold sr_spec_cell.
  destruct ((63 <? ty + y) || (127 <? tx + x)); [reflexivity|]. cbn [negb andb] in H.
  apply set_cell_frame; assumption.
Qed.
Lemma sr_spec_cell_len r x y ty mg xv : zlen (sel r (sr_spec_cell x y ty mg xv)) = zlen (sel r mg).
Proof.
  destruct xv as [tx v]. unfold sr_spec_cell. destruct ((63 <? ty + y) || (127 <? tx + x)); [reflexivity|].
  apply set_cell_len.
Qed.

Lemma spec_set_rect_frame r mg x y rows a : r = RMap \/ r = RGfx -> 0 <= a ->
  existsb (fun yr : Z * list Z => let '(ty, row) := yr in existsb (sr_touch r a x y ty) (indexed 0 row)) (indexed 0 rows) = false ->
  at_ (sel r (spec_set_rect mg x y rows)) a = at_ (sel r mg) a.
Proof.
  intros Hr Ha H. rewrite spec_set_rect_fold.
  apply (fold_left_preserves _ (fun st => at_ (sel r st) a)).
  intros st [ty row] Hin. pose proof (existsb_false _ _ H _ Hin) as H1. cbv beta iota in H1.
  apply (fold_left_preserves _ (fun st => at_ (sel r st) a)).
  intros st1 xv Hin1. apply sr_spec_cell_frame; try assumption. apply (existsb_false _ _ H1 _ Hin1).
Qed.
Lemma spec_set_rect_len r mg x y rows : zlen (sel r (spec_set_rect mg x y rows)) = zlen (sel r mg).
Proof.
  rewrite spec_set_rect_fold. apply (fold_left_preserves _ (fun st => zlen (sel r st))).
  intros st [ty row] _. apply (fold_left_preserves _ (fun st => zlen (sel r st))).
  intros st1 xv _. apply sr_spec_cell_len.
Qed.

(* every byte outside the footprint is unchanged: no hypothesis on the memory or the arguments *)
Lemma c17_frame s o r a : 0 <= a -> footprint o r a = false ->
  at_ (reg r (fst (spec_step s o))) a = at_ (reg r s) a.
Proof.
  intros Ha H. destruct o; cbn [footprint] in H; try reflexivity.
  - (* SetSprite *)
    unfold spec_step. cbn [fst]. destruct r; cbn [reg m_gfx m_map m_gff m_music m_sfx]; try reflexivity.
    rewrite spec_set_sprite_fold.
    apply (fold_left_preserves _ (fun g => at_ g a)).
    intros g [y row] Hin. pose proof (existsb_false _ _ H _ Hin) as H1. cbv beta iota in H1.
    apply (fold_left_preserves _ (fun g => at_ g a)).
    intros g1 xv Hin1. apply ss_spec_px_frame; [exact Ha|]. apply (existsb_false _ _ H1 _ Hin1).
  - (* MapSet *)
    unfold spec_step. destruct (set_cell (m_map s, m_gfx s) x y v) as [m' g'] eqn:E. cbn [fst].
    destruct r; cbn [reg m_gfx m_map m_gff m_music m_sfx]; try reflexivity.
    + change g' with (sel RGfx (m', g')). rewrite <- E. apply (set_cell_frame RGfx); auto.
    + change m' with (sel RMap (m', g')). rewrite <- E. apply (set_cell_frame RMap); auto.
  - (* MapSetRect *)
    unfold spec_step. destruct (spec_set_rect (m_map s, m_gfx s) x y rows) as [m' g'] eqn:E. cbn [fst].
    destruct r; cbn [reg m_gfx m_map m_gff m_music m_sfx]; try reflexivity.
    + change g' with (sel RGfx (m', g')). rewrite <- E. apply (spec_set_rect_frame RGfx); auto.
    + change m' with (sel RMap (m', g')). rewrite <- E. apply (spec_set_rect_frame RMap); auto.
  - (* FlagSet *) destruct r; cbn [spec_step fst reg m_gfx m_map m_gff m_music m_sfx]; try reflexivity.
    apply at_put_frame; lia.
  - (* FlagClear *) destruct r; cbn [spec_step fst reg m_gfx m_map m_gff m_music m_sfx]; try reflexivity.
    apply at_put_frame; lia.
  - (* FlagReset *) destruct r; cbn [spec_step fst reg m_gfx m_map m_gff m_music m_sfx]; try reflexivity.
    apply at_put_frame; lia.
  - (* NoteSet *) destruct r; cbn [spec_step fst reg m_gfx m_map m_gff m_music m_sfx]; try reflexivity.
    unfold note_set, note_get. cbv beta iota zeta. rewrite !at_put_frame by lia. reflexivity.
  - (* SfxPropSet *) destruct r; cbn [spec_step fst reg m_gfx m_map m_gff m_music m_sfx]; try reflexivity.
    repeat (apply orb_false_iff in H; destruct H as [H ?]).
    rewrite !put_opt_frame by assumption. reflexivity.
  - (* ChanSet *) destruct r; cbn [spec_step fst reg m_gfx m_map m_gff m_music m_sfx]; try reflexivity.
    unfold chan_set. apply at_put_frame; lia.
  - (* MusPropSet *) destruct r; cbn [spec_step fst reg m_gfx m_map m_gff m_music m_sfx]; try reflexivity.
    repeat (apply orb_false_iff in H; destruct H as [H ?]).
    rewrite !set7_frame by assumption. reflexivity.
Qed.

(* no operation changes the size of a region *)
Lemma c17_frame_len s o r : zlen (reg r (fst (spec_step s o))) = zlen (reg r s).
Proof.
  destruct o; try reflexivity.
  - unfold spec_step. cbn [fst]. destruct r; cbn [reg m_gfx m_map m_gff m_music m_sfx]; try reflexivity.
    rewrite spec_set_sprite_fold. apply (fold_left_preserves _ (fun g => zlen g)).
    intros g [y row] _. apply (fold_left_preserves _ (fun g => zlen g)). intros g1 xv _. apply ss_spec_px_len.
  - unfold spec_step. destruct (set_cell (m_map s, m_gfx s) x y v) as [m' g'] eqn:E. cbn [fst].
    destruct r; cbn [reg m_gfx m_map m_gff m_music m_sfx]; try reflexivity.
    + change g' with (sel RGfx (m', g')). rewrite <- E. apply (set_cell_len RGfx).
    + change m' with (sel RMap (m', g')). rewrite <- E. apply (set_cell_len RMap).
  - unfold spec_step. destruct (spec_set_rect (m_map s, m_gfx s) x y rows) as [m' g'] eqn:E. cbn [fst].
    destruct r; cbn [reg m_gfx m_map m_gff m_music m_sfx]; try reflexivity.
    + change g' with (sel RGfx (m', g')). rewrite <- E. apply (spec_set_rect_len RGfx).
    + change m' with (sel RMap (m', g')). rewrite <- E. apply (spec_set_rect_len RMap).
  - destruct r; cbn [spec_step fst reg m_gfx m_map m_gff m_music m_sfx]; try reflexivity. apply zlen_put.
  - destruct r; cbn [spec_step fst reg m_gfx m_map m_gff m_music m_sfx]; try reflexivity. apply zlen_put.
  - destruct r; cbn [spec_step fst reg m_gfx m_map m_gff m_music m_sfx]; try reflexivity. apply zlen_put.
  - destruct r; cbn [spec_step fst reg m_gfx m_map m_gff m_music m_sfx]; try reflexivity.
    unfold note_set, note_get. cbv beta iota zeta. rewrite !zlen_put. reflexivity.
  - destruct r; cbn [spec_step fst reg m_gfx m_map m_gff m_music m_sfx]; try reflexivity.
    rewrite !zlen_put_opt. reflexivity.
  - destruct r; cbn [spec_step fst reg m_gfx m_map m_gff m_music m_sfx]; try reflexivity.
    unfold chan_set. apply zlen_put.
  - destruct r; cbn [spec_step fst reg m_gfx m_map m_gff m_music m_sfx]; try reflexivity.
    rewrite !zlen_set7. reflexivity.
Qed.

(* getters change nothing at all *)
Definition is_getter (o : op) : bool :=
  match o with
  | GetSprite _ _ _ | MapGet _ _ | MapGetRect _ _ _ _ | MapGetRectPx _ _ _ _ | FlagGet _ _ | NoteGet _ _
  | SfxPropGet _ | ChanGet _ _ | MusPropGet _ => true
  | _ => false
  end.
Lemma c17_getter_pure s o : is_getter o = true -> fst (spec_step s o) = s.
Proof. destruct o; cbn [is_getter]; intros H; try discriminate; reflexivity. Qed.

(* ================= get-after-set laws of the plain model ================= *)
(* pixels *)
Lemma get_px_set_px g x y c x' y' :
  zlen g = 8192 -> Forall byte g -> 0 <= x <= 127 -> 0 <= y <= 127 -> 0 <= c <= 15 ->
  0 <= x' <= 127 -> 0 <= y' <= 127 ->
  get_px (set_px g x y c) x' y' = if (x' =? x) && (y' =? y) then c else get_px g x' y'.
Proof.
  intros L B Hx Hy Hc Hx' Hy'. unfold get_px, set_px. cbv zeta.
  set (i := y * 64 + x / 2). set (i' := y' * 64 + x' / 2).
  assert (Hi : 0 <= i < zlen g) by (subst i; lia).
  pose proof (at_byte g i B Hi) as Hb. unfold byte in Hb.
  destruct (Z.eq_dec i' i) as [Eq|Ne].
  - rewrite Eq. rewrite at_put_same by exact Hi.
    assert (Hyy : y' = y) by (subst i i'; lia).
    assert (Hh : x' / 2 = x / 2) by (subst i i'; lia).
    clear Eq. subst y'. rewrite Z.eqb_refl, andb_true_r.
    generalize dependent (at_ g i). intros b Hb. clear i i' Hi.
    destruct (x mod 2 =? 0) eqn:Ex; destruct (x' mod 2 =? 0) eqn:Ex'; destruct (x' =? x) eqn:Exx; lia.
  - rewrite at_put_other by (subst i'; lia).
    assert (((x' =? x) && (y' =? y)) = false) as -> by (subst i i'; lia). reflexivity.
Qed.

(* map cells, including the rows that live in sprite memory *)
Lemma get_cell_set_cell m g x y v x' y' :
  zlen m = 4096 -> zlen g = 8192 -> 0 <= x <= 127 -> 0 <= y <= 63 -> 0 <= x' <= 127 -> 0 <= y' <= 63 ->
  let mg' := set_cell (m, g) x y v in
  get_cell (fst mg') (snd mg') x' y' = if (x' =? x) && (y' =? y) then v else get_cell m g x' y'.
Proof.
  intros Lm Lg Hx Hy Hx' Hy'. cbv zeta. unfold set_cell, get_cell.
  destruct (y <? 32) eqn:E; destruct (y' <? 32) eqn:E'; cbn [fst snd]; try rewrite at_put by lia.
  - destruct (y' * 128 + x' =? y * 128 + x) eqn:Ei.
    + assert (((x' =? x) && (y' =? y)) = true) as -> by lia. reflexivity.
    + assert (((x' =? x) && (y' =? y)) = false) as -> by lia. reflexivity.
  - assert (((x' =? x) && (y' =? y)) = false) as -> by lia. reflexivity.
  - assert (((x' =? x) && (y' =? y)) = false) as -> by lia. reflexivity.
  - destruct (4096 + (y' - 32) * 128 + x' =? 4096 + (y - 32) * 128 + x) eqn:Ei.
    + assert (((x' =? x) && (y' =? y)) = true) as -> by lia. reflexivity.
    + assert (((x' =? x) && (y' =? y)) = false) as -> by lia. reflexivity.
Qed.

Lemma mapget_after_mapset s x y v :
  wf_mem s -> in_contract (MapSet x y v) = true ->
  snd (spec_step (fst (spec_step s (MapSet x y v))) (MapGet x y)) = VInt v.
Proof.
  intros W C. wf_destruct W. unfold in_contract, inr in C.
  pose proof (get_cell_set_cell (m_map s) (m_gfx s) x y v x y Lm Lg ltac:(lia) ltac:(lia) ltac:(lia) ltac:(lia)) as G.
  cbv zeta in G. rewrite !Z.eqb_refl in G. cbn [andb] in G.
  cbn [spec_step]. destruct (set_cell (m_map s, m_gfx s) x y v) as [m' g']. cbn [fst snd m_map m_gfx] in *.
  rewrite G. reflexivity.
Qed.

(* flags *)
Lemma flagget_after_flagreset s id fl q :
  wf_mem s -> in_contract (FlagReset id fl) = true ->
  snd (spec_step (fst (spec_step s (FlagReset id fl))) (FlagGet id q)) = VInt (Z.land fl q).
Proof.
  intros W C. wf_destruct W. unfold in_contract, inr in C. cbn [spec_step fst snd m_gff].
  rewrite at_put_same by lia. reflexivity.
Qed.
Lemma flagget_after_flagset s id fl q :
  wf_mem s -> in_contract (FlagSet id fl) = true ->
  snd (spec_step (fst (spec_step s (FlagSet id fl))) (FlagGet id q)) = VInt (Z.land (Z.lor (at_ (m_gff s) id) fl) q).
Proof.
  intros W C. wf_destruct W. unfold in_contract, inr in C. cbn [spec_step fst snd m_gff].
  rewrite at_put_same by lia. reflexivity.
Qed.

(* notes: the given fields are stored, the fields passed as None keep their value *)
Lemma note_set_bytes d id n p w v e :
  zlen d = 4352 -> Forall byte d -> 0 <= id <= 63 -> 0 <= n <= 31 ->
  oinr 0 p 63 = true -> oinr 0 w 15 = true -> oinr 0 v 7 = true -> oinr 0 e 7 = true ->
  let i := id * 68 + n * 2 in
  let p1 := odef p (nP d i) in let w1 := odef w (nW d i) in let v1 := odef v (nV d i) in let e1 := odef e (nE d i) in
  note_set d id n p w v e = put (put d i (enc_lsb p1 w1)) (i + 1) (enc_msb w1 v1 e1) /\
  0 <= p1 < 64 /\ 0 <= w1 < 16 /\ 0 <= v1 < 8 /\ 0 <= e1 < 8.
Proof.
  intros L B Hid Hn Cp Cw Cv Ce i p1 w1 v1 e1.
  destruct (note_get_fields d id n L B Hid Hn) as (G & RP & RW & RV & RE & EL & EM). cbv zeta in *. fold i in G, RP, RW, RV, RE.
  assert (Rp1 : 0 <= p1 < 64) by (subst p1; destruct p; cbn [odef oinr] in *; unfold inr in *; lia).
  assert (Rw1 : 0 <= w1 < 16) by (subst w1; destruct w; cbn [odef oinr] in *; unfold inr in *; lia).
  assert (Rv1 : 0 <= v1 < 8) by (subst v1; destruct v; cbn [odef oinr] in *; unfold inr in *; lia).
  assert (Re1 : 0 <= e1 < 8) by (subst e1; destruct e; cbn [odef oinr] in *; unfold inr in *; lia).
  split; [|auto].
  unfold note_set. rewrite G. fold i p1 w1 v1 e1.
  destruct (word_split p1 w1 v1 e1 Rp1 Rw1 Rv1 Re1) as (WS1 & WS2). cbv zeta in WS1, WS2.
  rewrite WS1, WS2. reflexivity.
Qed.

Definition dec_facts (p w v e : Z) : bool :=
  let wd := note_word (enc_lsb p w) (enc_msb w v e) in
  (w_pitch wd =? p) && (w_waveform wd =? w) && (w_volume wd =? v) && (w_effect wd =? e).
Lemma dec_facts_all :
  forallb (fun p => forallb (fun w => forallb (fun v => forallb (fun e => dec_facts p w v e)
    (upto 8)) (upto 8)) (upto 16)) (upto 64) = true.
Proof. vm_compute. reflexivity. Qed.
Lemma dec_spec p w v e : 0 <= p < 64 -> 0 <= w < 16 -> 0 <= v < 8 -> 0 <= e < 8 ->
  let wd := note_word (enc_lsb p w) (enc_msb w v e) in
  w_pitch wd = p /\ w_waveform wd = w /\ w_volume wd = v /\ w_effect wd = e.
Proof.
  intros Hp Hw Hv He.
  pose proof (sweep_upto _ _ (sweep_upto _ _ (sweep_upto _ _ (sweep_upto _ _ dec_facts_all p Hp) w Hw) v Hv) e He) as H.
  cbv beta in H. unfold dec_facts in H. cbv zeta in H |- *.
  repeat (apply andb_true_iff in H; destruct H as [H ?]).
  repeat match goal with Hz : (_ =? _) = true |- _ => apply Z.eqb_eq in Hz end. auto.
Qed.

Lemma note_get_after_set d id n p w v e :
  zlen d = 4352 -> Forall byte d -> 0 <= id <= 63 -> 0 <= n <= 31 ->
  oinr 0 p 63 = true -> oinr 0 w 15 = true -> oinr 0 v 7 = true -> oinr 0 e 7 = true ->
  exists p0 w0 v0 e0, note_get d id n = [p0; w0; v0; e0] /\
    note_get (note_set d id n p w v e) id n = [odef p p0; odef w w0; odef v v0; odef e e0].
Proof.
  intros L B Hid Hn Cp Cw Cv Ce.
  destruct (note_set_bytes d id n p w v e L B Hid Hn Cp Cw Cv Ce) as (E & R1 & R2 & R3 & R4). cbv zeta in *.
  destruct (note_get_fields d id n L B Hid Hn) as (G & _). cbv zeta in G.
  set (i := id * 68 + n * 2) in *.
  exists (nP d i), (nW d i), (nV d i), (nE d i). split; [exact G|].
  rewrite E. unfold note_get. fold i.
  rewrite (at_put_other _ (i + 1) i) by (rewrite ?zlen_put; subst i; lia).
  rewrite at_put_same by (subst i; lia).
  rewrite at_put_same by (rewrite zlen_put; subst i; lia).
  destruct (dec_spec _ _ _ _ R1 R2 R3 R4) as (D1 & D2 & D3 & D4). cbv zeta in D1, D2, D3, D4.
  rewrite D1, D2, D3, D4. reflexivity.
Qed.

Lemma noteget_after_noteset s id n p w v e :
  wf_mem s -> in_contract (NoteSet id n p w v e) = true ->
  exists p0 w0 v0 e0, snd (spec_step s (NoteGet id n)) = VTuple [p0; w0; v0; e0] /\
    snd (spec_step (fst (spec_step s (NoteSet id n p w v e))) (NoteGet id n)) =
    VTuple [odef p p0; odef w w0; odef v v0; odef e e0].
Proof.
  intros W C. wf_destruct W. unfold in_contract in C.
  repeat (apply andb_true_iff in C; destruct C as [C ?]). unfold inr in C.
  match goal with H : inr 0 n 31 = true |- _ => unfold inr in H end.
  destruct (note_get_after_set (m_sfx s) id n p w v e Ls Bs) as (p0 & w0 & v0 & e0 & G1 & G2); try assumption; try lia.
  exists p0, w0, v0, e0. cbn [spec_step fst snd m_sfx]. rewrite G1, G2. split; reflexivity.
Qed.

(* music *)
Lemma changet_after_chanset s id ch pat :
  wf_mem s -> in_contract (ChanSet id ch pat) = true ->
  snd (spec_step (fst (spec_step s (ChanSet id ch pat))) (ChanGet id ch)) = VOptInt pat.
Proof.
  intros W C. wf_destruct W. unfold in_contract in C.
  repeat (apply andb_true_iff in C; destruct C as [C ?]). unfold inr in C.
  match goal with H : inr 0 ch 3 = true |- _ => unfold inr in H end.
  assert (Hb : byte (at_ (m_music s) (id * 4 + ch))) by (apply at_byte; [assumption | lia]). unfold byte in Hb.
  cbn [spec_step fst snd m_music]. unfold chan_get, chan_set. rewrite at_put_same by lia.
  destruct pat as [q|]; cbn [odef oinr] in *.
  - unfold inr in *. replace ((at_ (m_music s) (id * 4 + ch) / 128 * 128 + q) mod 128) with q by lia.
    assert ((63 <? q) = false) as -> by lia. reflexivity.
  - replace ((at_ (m_music s) (id * 4 + ch) / 128 * 128 + (65 + ch)) mod 128) with (65 + ch) by lia.
    assert ((63 <? 65 + ch) = true) as -> by lia. reflexivity.
Qed.

(* ================= a Map without a Gfx attached (has_gfx = false) ================= *)
(* only rows 0-31 exist then ("Map must have a Gfx if y > 31"); calls that stay inside them
   behave exactly as before, cell accesses below are refused *)
Definition no_gfx_ok (o : op) : bool :=
  match o with
  | MapGet x y => y <=? 31
  | MapSet x y v => y <=? 31
  | MapGetRect x y w h => y + h <=? 32
  | MapSetRect x y rows => y + zlen rows <=? 32
  | MapGetRectPx _ _ _ _ => false        (* get_rect_pixels needs the Gfx for the sprites themselves *)
  | _ => true
  end.

Lemma c17_refines_nogfx s o : wf_mem s -> in_contract o = true -> no_gfx_ok o = true ->
  step_model false s o = Ok (spec_step s o).
Proof.
  intros W C G. wf_destruct W.
  destruct o; try exact (proj1 (c17_refines s _ W C)); cbn [no_gfx_ok] in G.
  - (* MapGet *) unfold in_contract, inr in C. unfold step_model, spec_step. cbv beta iota zeta.
    rewrite map_get_cell_gen by (try assumption; try lia; right; lia). reflexivity.
  - (* MapSet *) unfold in_contract, inr in C.
    destruct (map_set_cell_gen (m_map s) (m_gfx s) false x y v) as (E & _); try assumption; try lia.
    unfold step_model, spec_step. cbv beta iota zeta. rewrite E.
    destruct (set_cell (m_map s, m_gfx s) x y v) as [m' g']. reflexivity.
  - (* MapGetRect *) unfold in_contract, inr in C. unfold step_model, spec_step. cbv beta iota zeta.
    rewrite map_get_rect_gen by (try assumption; try lia; right; lia). reflexivity.
  - (* MapSetRect *) unfold in_contract in C. apply andb_true_iff in C. destruct C as [C HR].
    destruct (map_set_rect_gen (m_map s) (m_gfx s) false x y rows) as (E & _); try assumption; try lia.
    unfold step_model, spec_step. cbv beta iota zeta. rewrite E.
    destruct (spec_set_rect (m_map s, m_gfx s) x y rows) as [m' g']. reflexivity.
  - (* MapGetRectPx *) discriminate G.
Qed.

Lemma c17_nogfx_refuses_pixels s x y w h : step_model false s (MapGetRectPx x y w h) = Err AssertionError.
Proof. reflexivity. Qed.

Lemma c17_nogfx_refuses s x y v : 32 <= y ->
  step_model false s (MapGet x y) = Err AssertionError /\ step_model false s (MapSet x y v) = Err AssertionError.
Proof.
  intros Hy. unfold step_model. cbv beta iota zeta.
  rewrite map_get_cell_nogfx, map_set_cell_nogfx by exact Hy. split; reflexivity.
Qed.
