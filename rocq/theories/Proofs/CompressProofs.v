(* Lemmas for C05: the :c: format (Spec/PxcFormat.v) and the model of compress.py. *)
From Coq Require Import ZArith List Bool Lia ZifyBool.
From PV Require Import Base.Prelude Base.ListX Base.PySlice Spec.PxcFormat Generated.K_compress Model.Compress.
Ltac Zify.zify_post_hook ::= Z.to_euclidean_division_equations.

(* ------------------------------------------------------------------ generic list facts *)
Lemma rev'_rev {A} (l : list A) : rev' l = rev l.
Proof. unfold rev'. rewrite rev_alt. reflexivity. Qed.

Lemma zlen_rev {A} (l : list A) : zlen (rev l) = zlen l.
Proof. unfold zlen. rewrite rev_length. reflexivity. Qed.

Lemma zlen_firstn {A} (l : list A) n : (n <= length l)%nat -> zlen (firstn n l) = Z.of_nat n.
Proof. intros H. unfold zlen. rewrite firstn_length. lia. Qed.

Lemma firstn_app_le {A} (a b : list A) n : (n <= length a)%nat -> firstn n (a ++ b) = firstn n a.
Proof.
  intros H. rewrite firstn_app. replace (n - length a)%nat with O by lia.
  cbn. apply app_nil_r.
Qed.

Lemma skipn_app_le {A} (a b : list A) n : (n <= length a)%nat -> skipn n (a ++ b) = skipn n a ++ b.
Proof.
  intros H. rewrite skipn_app. replace (n - length a)%nat with O by lia. reflexivity.
Qed.

Lemma skipn_skipn {A} (l : list A) a b : skipn a (skipn b l) = skipn (b + a) l.
Proof.
  revert l; induction b as [|b IH]; intros l; [reflexivity|].
  destruct l as [|x l]; [rewrite !skipn_nil; reflexivity|]. cbn. apply IH.
Qed.

(* ------------------------------------------------------------------ the format: relational view *)
Inductive decodes : list Z -> list Z -> list Z -> Prop :=
| dec_nil h : decodes [] h h
| dec_item s it r h h1 h2 :
    parse_item s = Some (it, r) -> apply_item it h = Some h1 -> decodes r h1 h2 -> decodes s h h2.

Lemma parse_item_shorter s it r : parse_item s = Some (it, r) -> (length r < length s)%nat.
Proof.
  destruct s as [|b1 s1]; cbn; [discriminate|].
  destruct (b1 =? 0).
  - destruct s1 as [|b s2]; [discriminate|]. intros [= _ <-]. cbn. lia.
  - destruct (b1 <=? 59).
    + destruct (pxc_lookup b1); [|discriminate]. intros [= _ <-]. cbn. lia.
    + destruct s1 as [|b s2]; [discriminate|]. intros [= _ <-]. cbn. lia.
Qed.

Lemma parse_item_app s it r pad : parse_item s = Some (it, r) -> parse_item (s ++ pad) = Some (it, r ++ pad).
Proof.
  destruct s as [|b1 s1]; cbn; [discriminate|].
  destruct (b1 =? 0).
  - destruct s1 as [|b s2]; [discriminate|]. intros [= <- <-]. reflexivity.
  - destruct (b1 <=? 59).
    + destruct (pxc_lookup b1); [|discriminate]. intros [= <- <-]. reflexivity.
    + destruct s1 as [|b s2]; [discriminate|]. intros [= <- <-]. reflexivity.
Qed.

Lemma copy_back_grows n off h h' : copy_back n off h = Some h' ->
  exists x, h' = x ++ h /\ length x = n.
Proof.
  revert h h'; induction n as [|n IH]; intros h h'; cbn.
  - intros [= <-]. exists []. split; reflexivity.
  - destruct (nth_error h (off - 1)) as [b|]; [|discriminate].
    intros H. apply IH in H. destruct H as (x & -> & Hx).
    exists (x ++ [b]). rewrite <- app_assoc. split; [reflexivity|]. rewrite app_length. cbn. lia.
Qed.

Lemma apply_item_grows it h h' : apply_item it h = Some h' ->
  exists x, h' = x ++ h /\ zlen x = item_len it /\ 1 <= item_len it.
Proof.
  destruct it as [c|off len]; cbn.
  - intros [= <-]. exists [c]. repeat split; reflexivity || lia.
  - destruct (ref_ok off len) eqn:E; [|discriminate]. intros H.
    apply copy_back_grows in H. destruct H as (x & -> & Hx).
    exists x. unfold ref_ok in E. unfold zlen. rewrite Hx. repeat split; lia.
Qed.

Lemma decodes_grows s h h' : decodes s h h' -> exists x, h' = x ++ h.
Proof.
  induction 1 as [h|s it r h h1 h2 Hp Ha _ (x & ->)].
  - exists []. reflexivity.
  - apply apply_item_grows in Ha. destruct Ha as (y & -> & _). exists (x ++ y). apply app_assoc.
Qed.

(* the executable decoder agrees with the relation *)
Lemma run_all_complete s h h' : decodes s h h' ->
  forall fuel p, (length s < fuel)%nat -> pxc_run fuel None s h p = Some h'.
Proof.
  induction 1 as [h|s it r h h1 h2 Hp Ha Hd IH]; intros fuel p Hf.
  - destruct fuel; [cbn in Hf; lia|]. reflexivity.
  - destruct fuel; [lia|]. cbn [pxc_run].
    destruct s as [|b s']; [discriminate|]. rewrite Hp, Ha.
    apply IH. apply parse_item_shorter in Hp. lia.
Qed.

Lemma run_all_sound fuel : forall s h p h', pxc_run fuel None s h p = Some h' -> decodes s h h'.
Proof.
  induction fuel as [|f IH]; intros s h p h'; cbn [pxc_run]; [discriminate|].
  destruct s as [|b s']; [intros [= <-]; constructor|].
  destruct (parse_item (b :: s')) as [[it r]|] eqn:Hp; [|discriminate].
  destruct (apply_item it h) as [h1|] eqn:Ha; [|discriminate].
  intros H. econstructor; eauto.
Qed.

Lemma decode_all_iff s out : pxc_decode_all s = Some out <-> exists h, decodes s [] h /\ out = rev h.
Proof.
  unfold pxc_decode_all. split.
  - destruct (pxc_run _ _ _ _ _) as [h|] eqn:E; [|discriminate]. intros [= <-].
    exists h. split; [eapply run_all_sound; eauto | apply rev'_rev].
  - intros (h & Hd & ->). rewrite (run_all_complete _ _ _ Hd) by lia. rewrite rev'_rev. reflexivity.
Qed.

(* decoding with a limit stops inside a complete decoding; padding after the stream is never reached *)
Lemma run_limit_complete s h h2 : decodes s h h2 ->
  forall n pad fuel, n <= zlen h2 -> (length (s ++ pad) < fuel)%nat ->
  exists h' x, pxc_run fuel (Some n) (s ++ pad) h (zlen h) = Some h' /\ h2 = x ++ h' /\ n <= zlen h'.
Proof.
  induction 1 as [h|s it r h h1 h2 Hp Ha Hd IH]; intros n pad fuel Hn Hf.
  - destruct fuel; [lia|]. cbn [pxc_run].
    assert (E : (n <=? zlen h) = true) by lia. rewrite E.
    exists h, []. repeat split; auto.
  - destruct fuel; [lia|]. cbn [pxc_run].
    destruct (n <=? zlen h) eqn:E.
    + exists h. destruct (decodes_grows _ _ _ Hd) as (x & ->).
      destruct (apply_item_grows _ _ _ Ha) as (y & -> & _).
      exists (x ++ y). rewrite <- app_assoc. repeat split; auto. lia.
    + destruct s as [|b s']; [discriminate|].
      assert (Hp' := parse_item_app _ _ _ pad Hp).
      cbn [app] in Hp' |- *. rewrite Hp'.
      rewrite Ha.
      destruct (apply_item_grows _ _ _ Ha) as (y & Ey & Hy & _).
      replace (zlen h + item_len it) with (zlen h1) by (subst h1; rewrite zlen_app; lia).
      apply IH; [exact Hn|].
      apply parse_item_shorter in Hp. rewrite app_length in *. cbn [length] in *. lia.
Qed.

Lemma decode_limit_of_all s pad out n :
  pxc_decode_all s = Some out -> 0 <= n <= zlen out ->
  pxc_decode n (s ++ pad) = Some (firstn (Z.to_nat n) out).
Proof.
  intros Ha Hn. apply decode_all_iff in Ha. destruct Ha as (h2 & Hd & ->).
  rewrite zlen_rev in Hn.
  destruct (run_limit_complete _ _ _ Hd n pad (S (length (s ++ pad)))) as (h' & x & Hr & -> & Hn'); [lia|lia|].
  unfold pxc_decode. change (zlen (@nil Z)) with 0 in Hr. rewrite Hr. rewrite rev'_rev.
  rewrite <- zlen_rev in Hn'. assert (E : (n <=? zlen (rev h')) = true) by lia. rewrite E.
  rewrite rev_app_distr. rewrite firstn_app_le; [reflexivity|].
  unfold zlen in Hn'. lia.
Qed.

(* ------------------------------------------------------------------ pins of hand-modelled comparisons *)
Lemma pin_frb_inner j i max_len pos dat :
  frb_inner j i max_len pos dat = ((j - i <? max_len) && (j <? pos) && (dat j =? dat (pos + j - i))).
Proof. reflexivity. Qed.
Lemma pin_frb_better j i best_len : frb_better j i best_len = (j - i >? best_len).
Proof. reflexivity. Qed.
Lemma pin_frb_new_len j i : frb_new_len j i = j - i.
Proof. reflexivity. Qed.
Lemma pin_frb_outer i pos : frb_outer i pos = (i <? pos).
Proof. reflexivity. Qed.
Lemma pin_frb_best_len0 : frb_best_len0 = 0.
Proof. reflexivity. Qed.

(* ------------------------------------------------------------------ table facts (sweeps over the regenerated table) *)
Definition lit_ok (c : Z) : bool :=
  let k := literal_index c in
  (k =? 0) || ((1 <=? k) && (k <=? 59) && match pxc_lookup k with Some c' => c' =? c | None => false end).

Lemma lit_ok_all : forallb lit_ok (upto 256) = true.
Proof. vm_compute. reflexivity. Qed.

Lemma literal_index_spec c : byte c ->
  literal_index c = 0 \/ (1 <= literal_index c <= 59 /\ pxc_lookup (literal_index c) = Some c).
Proof.
  intros H. assert (E := sweep_byte lit_ok lit_ok_all c H). unfold lit_ok in E.
  destruct (literal_index c =? 0) eqn:E0; [left; lia|]. right.
  cbn [orb] in E. destruct (pxc_lookup (literal_index c)) as [c'|]; [|rewrite andb_false_r in E; discriminate].
  split; [lia|]. f_equal. lia.
Qed.

Definition tab_ok (k : Z) : bool :=
  match py_get compress_table k, pxc_lookup k with
  | Ok c, Some c' => (c =? c') && byteb c
  | _, _ => false
  end.
Lemma tab_ok_all : forallb (fun k => tab_ok (k + 1)) (upto 59) = true.
Proof. vm_compute. reflexivity. Qed.

Lemma table_agrees k c : pxc_lookup k = Some c -> py_get compress_table k = Ok c /\ byte c.
Proof.
  intros H. assert (Hk : 1 <= k <= 59).
  { unfold pxc_lookup in H. destruct ((1 <=? k) && (k <=? 59)) eqn:E; [lia|discriminate]. }
  assert (E := sweep_upto _ 59 tab_ok_all (k - 1) ltac:(lia)). cbn beta in E.
  replace (k - 1 + 1) with k in E by lia. unfold tab_ok in E. rewrite H in E.
  destruct (py_get compress_table k) as [c0|]; [|discriminate].
  apply andb_true_iff in E. destruct E as [E1 E2]. apply byteb_spec in E2.
  assert (c0 = c) by lia. subst. auto.
Qed.

(* ------------------------------------------------------------------ the window scan *)
Lemma cpl_spec n m a b :
  (cpl n m a b <= n)%nat /\ (cpl n m a b <= m)%nat /\ firstn (cpl n m a b) a = firstn (cpl n m a b) b /\
  (cpl n m a b <= length a)%nat /\ (cpl n m a b <= length b)%nat.
Proof.
  revert m a b; induction n as [|n IH]; intros m a b; cbn.
  - repeat split; lia.
  - destruct m as [|m]; [cbn; repeat split; lia|].
    destruct a as [|x a]; [cbn; repeat split; lia|].
    destruct b as [|y b]; [cbn; repeat split; lia|].
    destruct (x =? y) eqn:E; [|cbn; repeat split; lia].
    destruct (IH m a b) as (H1 & H2 & H3 & H4 & H5). cbn [firstn length].
    assert (x = y) by lia. subst. rewrite H3. repeat split; lia.
Qed.

Lemma scan_spec : forall d w cur ml bl0 bd0 bl bd,
  scan w d cur ml bl0 bd0 = (bl, bd) ->
  (bl = bl0 /\ bd = bd0) \/
  ((bl0 < bl)%nat /\ (1 <= bd <= d)%nat /\ (bl <= ml)%nat /\ (bl <= bd)%nat /\
   firstn bl (skipn (d - bd) w) = firstn bl cur /\ (bl <= length cur)%nat).
Proof.
  induction d as [|d IH]; intros w cur ml bl0 bd0 bl bd.
  - destruct w; cbn [scan]; intros [= <- <-]; left; auto.
  - destruct w as [|x w]; cbn [scan]; [intros [= <- <-]; left; auto|].
    destruct (cpl_spec ml (S d) (x :: w) cur) as (H1 & H2 & H3 & H4 & H5).
    set (l := cpl ml (S d) (x :: w) cur) in *.
    destruct (Nat.ltb bl0 l) eqn:E; intros H; apply IH in H.
    + apply Nat.ltb_lt in E. right. destruct H as [[-> ->]|(G1 & G2 & G3 & G4 & G5 & G6)].
      * replace (S d - S d)%nat with O by lia. cbn [skipn]. repeat split; auto; lia.
      * replace (S d - bd)%nat with (S (d - bd)) by lia. cbn [skipn]. repeat split; auto; lia.
    + destruct H as [[-> ->]|(G1 & G2 & G3 & G4 & G5 & G6)]; [left; auto|right].
      replace (S d - bd)%nat with (S (d - bd)) by lia. cbn [skipn]. repeat split; auto; lia.
Qed.

(* ------------------------------------------------------------------ copying a block that lies in the history *)
Lemma nth_error_rev_idx {A} (l : list A) n : (n < length l)%nat ->
  nth_error (rev l) n = nth_error l (length l - S n).
Proof.
  revert n; induction l as [|x l IH]; intros n H; cbn [length] in *; [lia|].
  cbn [rev]. destruct (Nat.eq_dec n (length l)) as [->|Hne].
  - rewrite nth_error_app2 by (rewrite rev_length; lia). rewrite rev_length.
    replace (length l - length l)%nat with O by lia. replace (S (length l) - S (length l))%nat with O by lia.
    reflexivity.
  - rewrite nth_error_app1 by (rewrite rev_length; lia). rewrite IH by lia.
    replace (S (length l) - S n)%nat with (S (length l - S n)) by lia. reflexivity.
Qed.

Lemma firstn_S_snoc {A} (l : list A) k b : nth_error l k = Some b -> firstn (S k) l = firstn k l ++ [b].
Proof.
  revert k; induction l as [|x l IH]; intros k H; [destruct k; discriminate|].
  destruct k as [|k]; cbn in *; [congruence|]. f_equal. apply IH. exact H.
Qed.

Lemma copy_back_block : forall n k B X, (k + n <= length B)%nat ->
  copy_back n (length B) (rev (firstn k B) ++ rev B ++ X) =
  Some (rev (firstn (k + n) B) ++ rev B ++ X).
Proof.
  induction n as [|n IH]; intros k B X H; cbn [copy_back].
  - rewrite Nat.add_0_r. reflexivity.
  - assert (Hk : (k < length B)%nat) by lia.
    destruct (nth_error B k) as [b|] eqn:Eb; [|apply nth_error_None in Eb; lia].
    assert (E : nth_error (rev (firstn k B) ++ rev B ++ X) (length B - 1) = Some b).
    { rewrite nth_error_app2 by (rewrite rev_length, firstn_length, Nat.min_l; lia).
      rewrite rev_length, firstn_length, Nat.min_l by lia.
      rewrite nth_error_app1 by (rewrite rev_length; lia).
      rewrite nth_error_rev_idx by lia. rewrite <- Eb. f_equal. lia. }
    rewrite E.
    replace (b :: rev (firstn k B) ++ rev B ++ X) with (rev (firstn (S k) B) ++ rev B ++ X).
    + rewrite IH by lia. replace (S k + n)%nat with (k + S n)%nat by lia. reflexivity.
    + rewrite (firstn_S_snoc _ _ _ Eb). rewrite rev_app_distr. reflexivity.
Qed.

(* ------------------------------------------------------------------ _find_repeatable_block *)
Lemma find_block_spec pre cur pos len bl off :
  pos = zlen pre -> len = pos + zlen cur ->
  find_block (skipn (Z.to_nat (pos - Z.min frb_window pos)) pre ++ cur) cur pos len = (bl, off) ->
  cc_is_block bl = true ->
  3 <= bl <= 17 /\ 1 <= off <= frb_window /\ bl <= off /\ off <= pos /\ bl <= zlen cur /\
  firstn (Z.to_nat bl) (skipn (Z.to_nat (pos - off)) pre) = firstn (Z.to_nat bl) cur.
Proof.
  intros Hpos Hlen. unfold find_block.
  destruct (scan _ _ _ _ _ _) as [bl' bd] eqn:Es. intros [= <- <-] Hblk.
  unfold cc_is_block in Hblk.
  apply scan_spec in Es.
  unfold frb_best_len0, frb_hist, frb_max_len, frb_max_block_len in Es.
  assert (Hp0 : 0 <= pos) by (subst pos; apply zlen_nonneg).
  assert (Hc0 : 0 <= zlen cur) by apply zlen_nonneg.
  destruct Es as [[-> ->]|(G1 & G2 & G3 & G4 & G5 & G6)]; [cbn in Hblk; lia|].
  destruct bd as [|bd']; [lia|]. set (bd := S bd') in *.
  unfold frb_offset.
  set (d := Z.to_nat (Z.min frb_window pos)) in *.
  assert (Hd : (d <= length pre)%nat) by (unfold zlen in Hpos; lia).
  assert (HW : 0 <= frb_window) by (unfold frb_window; lia).
  repeat split; try lia.
  - replace (pos - (pos - (pos - Z.of_nat bd))) with (pos - Z.of_nat bd) by lia.
    rewrite Nat2Z.id.
    assert (Hl : length (skipn (Z.to_nat (pos - Z.min frb_window pos)) pre) = d).
    { rewrite skipn_length. unfold zlen in Hpos. lia. }
    rewrite skipn_app_le in G5 by lia.
    rewrite skipn_skipn in G5.
    replace (Z.to_nat (pos - Z.min frb_window pos) + (d - bd))%nat with (Z.to_nat (pos - Z.of_nat bd)) in G5 by lia.
    rewrite firstn_app_le in G5; [exact G5|].
    rewrite skipn_length. unfold zlen in Hpos. lia.
Qed.

(* ------------------------------------------------------------------ packing of a block reference *)
Lemma pack_unpack off bl r : 1 <= off <= frb_window -> 3 <= bl <= 17 ->
  byte (cc_b1 off) /\ byte (cc_b2 off bl) /\
  parse_item (cc_b1 off :: cc_b2 off bl :: r) = Some (Ref off bl, r).
Proof.
  unfold frb_window, cc_b1, cc_b2, byte. intros Ho Hb.
  split; [lia|]. split; [lia|].
  unfold parse_item.
  destruct (off / 16 + 60 =? 0) eqn:E1; [lia|].
  destruct (off / 16 + 60 <=? 59) eqn:E2; [lia|].
  f_equal. f_equal. f_equal; lia.
Qed.

Lemma lit_parse c r : byte c ->
  let li := literal_index c in
  parse_item (if li =? 0 then li :: c :: r else li :: r) = Some (Lit c, r) /\ byte li.
Proof.
  intros Hc li. destruct (literal_index_spec c Hc) as [E|(E1 & E2)].
  - fold li in E. rewrite E. cbn. split; [reflexivity|unfold byte; lia].
  - fold li in E1, E2. destruct (li =? 0) eqn:E0; [lia|].
    unfold parse_item. rewrite E0. destruct (li <=? 59) eqn:E3; [|lia]. rewrite E2.
    split; [reflexivity|unfold byte; lia].
Qed.

(* ------------------------------------------------------------------ the encoder loop *)
Lemma enc_correct : forall fuel pre cur w i pos len,
  pos = zlen pre -> len = pos + zlen cur ->
  Forall byte cur -> 0 <= i <= pos - Z.min frb_window pos ->
  w = skipn (Z.to_nat i) (pre ++ cur) ->
  (length cur < fuel)%nat ->
  exists s, enc fuel w i cur pos len = Ok s /\ Forall byte s /\ decodes s (rev pre) (rev (pre ++ cur)).
Proof.
  induction fuel as [|f IH]; intros pre cur w i pos len Hpos Hlen Hb Hi Hw Hf; [lia|].
  cbn [enc]. unfold cc_loop.
  assert (Hp0 : 0 <= pos) by (subst pos; apply zlen_nonneg).
  assert (HW : 0 <= frb_window) by (unfold frb_window; lia).
  destruct cur as [|c cur'].
  - rewrite zlen_nil in Hlen. assert (E : (pos <? len) = false) by lia. rewrite E.
    exists []. rewrite app_nil_r. repeat split; constructor.
  - assert (E : (pos <? len) = true) by (rewrite zlen_cons in Hlen; pose proof (zlen_nonneg cur'); lia).
    rewrite E. set (cur := c :: cur') in *.
    unfold frb_i0, frb_hist.
    set (i' := pos - Z.min frb_window pos).
    assert (Hw' : skipn (Z.to_nat (i' - i)) w = skipn (Z.to_nat i') pre ++ cur).
    { subst w. rewrite skipn_skipn. replace (Z.to_nat i + Z.to_nat (i' - i))%nat with (Z.to_nat i') by lia.
      apply skipn_app_le. unfold zlen in Hpos. lia. }
    rewrite Hw'.
    destruct (find_block (skipn (Z.to_nat i') pre ++ cur) cur pos len) as [bl off] eqn:Efb.
    destruct (cc_is_block bl) eqn:Eblk.
    + destruct (find_block_spec pre cur pos len bl off Hpos Hlen Efb Eblk) as (B1 & B2 & B3 & B4 & B5 & B6).
      set (n := Z.to_nat bl).
      assert (Hn : (n <= length cur)%nat) by (unfold zlen in B5; lia).
      destruct (IH (pre ++ firstn n cur) (skipn n cur) (skipn (Z.to_nat i') pre ++ cur) i' (cc_adv_block pos bl) len)
        as (s' & Es' & Hbs' & Hd').
      * unfold cc_adv_block. rewrite zlen_app, zlen_firstn by exact Hn. lia.
      * unfold cc_adv_block. unfold zlen. rewrite skipn_length. unfold zlen in Hlen. lia.
      * apply Forall_skipn. exact Hb.
      * unfold cc_adv_block. lia.
      * rewrite <- app_assoc, firstn_skipn. symmetry. apply skipn_app_le. unfold zlen in Hpos. lia.
      * rewrite skipn_length. lia.
      * destruct (pack_unpack off bl s' ltac:(lia) ltac:(lia)) as (Hb1 & Hb2 & Hparse).
        unfold append_byte. rewrite (proj2 (byteb_spec _) Hb1), (proj2 (byteb_spec _) Hb2).
        cbn [bind]. rewrite Es'. cbn [bind].
        eexists. split; [reflexivity|]. split; [constructor; [exact Hb1|constructor; [exact Hb2|exact Hbs']]|].
        eapply dec_item; [exact Hparse| |].
        2:{ rewrite <- app_assoc, firstn_skipn in Hd'. exact Hd'. }
        cbn [apply_item]. unfold ref_ok.
        assert (Er : (3 <=? bl) && (bl <=? 17) && (1 <=? off) = true) by lia. rewrite Er.
        (* the block lies in the history *)
        set (B := skipn (Z.to_nat (pos - off)) pre) in *.
        assert (HB : length B = Z.to_nat off) by (unfold B; rewrite skipn_length; unfold zlen in Hpos; lia).
        rewrite <- (firstn_skipn (Z.to_nat (pos - off)) pre) at 1. fold B.
        rewrite rev_app_distr. rewrite <- HB.
        pose proof (copy_back_block n O B (rev (firstn (Z.to_nat (pos - off)) pre))) as Hcb.
        cbn [firstn rev app Nat.add] in Hcb. fold n. rewrite Hcb by lia.
        f_equal. fold n in B6. rewrite B6.
        rewrite (rev_app_distr pre). f_equal.
        rewrite <- (firstn_skipn (Z.to_nat (pos - off)) pre) at 2. fold B. rewrite rev_app_distr. reflexivity.
    + assert (Hc : byte c) by (inversion Hb; assumption).
      destruct (IH (pre ++ [c]) cur' (skipn (Z.to_nat i') pre ++ cur) i' (cc_adv_lit pos) len)
        as (s' & Es' & Hbs' & Hd').
      * unfold cc_adv_lit. rewrite zlen_app. subst pos. reflexivity.
      * unfold cc_adv_lit. unfold cur in Hlen. rewrite zlen_cons in Hlen. lia.
      * inversion Hb; assumption.
      * unfold cc_adv_lit. lia.
      * rewrite <- app_assoc. cbn [app]. symmetry. apply skipn_app_le. unfold zlen in Hpos. lia.
      * unfold cur in Hf. cbn [length] in Hf. lia.
      * unfold cur at 2. cbn [skipn]. rewrite Es'. cbn [bind].
        destruct (lit_parse c s' Hc) as (Hparse & Hli). cbv zeta in Hparse.
        exists (if literal_index c =? 0 then literal_index c :: c :: s' else literal_index c :: s').
        split; [destruct (literal_index c =? 0); reflexivity|].
        split; [destruct (literal_index c =? 0); [constructor; [exact Hli|constructor; [exact Hc|exact Hbs']]|constructor; [exact Hli|exact Hbs']]|].
        eapply dec_item; [exact Hparse|reflexivity|].
        rewrite <- app_assoc in Hd'. cbn [app] in Hd'.
        replace (c :: rev pre) with (rev (pre ++ [c])) by (rewrite rev_app_distr; reflexivity).
        exact Hd'.
Qed.

(* ------------------------------------------------------------------ compress_code *)
Lemma py_get_nth {A} (l : list A) i x : 0 <= i -> nth_error l (Z.to_nat i) = Some x -> py_get l i = Ok x.
Proof.
  intros Hi H. unfold py_get. assert (Hl : (Z.to_nat i < length l)%nat) by (apply nth_error_Some; congruence).
  assert (E1 : (i <? 0) = false) by lia. rewrite E1.
  assert (E2 : (i <? 0) || (zlen l <=? i) = false) by (unfold zlen; lia). rewrite E2, H. reflexivity.
Qed.

Lemma py_get_last {A} (l : list A) x : py_get (l ++ [x]) (-1) = Ok x.
Proof.
  unfold py_get. rewrite zlen_app. change (zlen [x]) with 1. change (-1 <? 0) with true. cbv iota.
  pose proof (zlen_nonneg l).
  assert (E : (zlen l + 1 + -1 <? 0) || (zlen l + 1 <=? zlen l + 1 + -1) = false) by lia. rewrite E.
  replace (Z.to_nat (zlen l + 1 + -1)) with (length l) by (unfold zlen; lia).
  rewrite nth_error_app2 by lia. rewrite Nat.sub_diag. reflexivity.
Qed.

Lemma contains_nil_false : contains cc_needle [] = false.
Proof. reflexivity. Qed.

Lemma suffix_bytes : all_bytes (cc_newline ++ future_code2) = true.
Proof. vm_compute. reflexivity. Qed.

Lemma with_suffix_ok text : exists sfx, with_suffix text = Ok (text ++ sfx) /\ Forall byte sfx.
Proof.
  unfold with_suffix.
  destruct (contains cc_needle text && cc_suffix_len_ok (zlen text) cc_alloc_size) eqn:E.
  - apply andb_true_iff in E. destruct E as [E _].
    destruct (exists_last (l := text)) as (l & x & ->).
    { intros ->. rewrite contains_nil_false in E. discriminate. }
    rewrite py_get_last. cbn [bind].
    pose proof suffix_bytes as Hs. apply all_bytes_Forall in Hs.
    destruct (cc_needs_newline x).
    + exists (cc_newline ++ future_code2). rewrite <- !app_assoc. split; [reflexivity|exact Hs].
    + exists future_code2. split; [reflexivity|]. apply Forall_app in Hs. apply Hs.
  - exists []. rewrite app_nil_r. split; [reflexivity|constructor].
Qed.

Lemma compress_text_correct dat : Forall byte dat ->
  exists s, compress_text dat = Ok s /\ Forall byte s /\ pxc_decode_all s = Some dat.
Proof.
  intros Hb. unfold compress_text.
  destruct (enc_correct (S (length dat)) [] dat dat 0 0 (zlen dat)) as (s & Es & Hs & Hd).
  - reflexivity.
  - reflexivity.
  - exact Hb.
  - unfold frb_window. lia.
  - reflexivity.
  - lia.
  - exists s. repeat split; auto. apply decode_all_iff. exists (rev dat). split; [exact Hd|].
    rewrite rev_involutive. reflexivity.
Qed.

Lemma compress_code_correct text : Forall byte text ->
  exists s sfx, compress_code text = Ok s /\ Forall byte s /\ with_suffix text = Ok (text ++ sfx) /\
                pxc_decode_all s = Some (text ++ sfx) /\
                forall pad, pxc_decode (zlen text) (s ++ pad) = Some text.
Proof.
  intros Hb. destruct (with_suffix_ok text) as (sfx & Ew & Hsfx).
  destruct (compress_text_correct (text ++ sfx)) as (s & Es & Hs & Hd).
  { apply Forall_app. split; assumption. }
  exists s, sfx. unfold compress_code. rewrite Ew. cbn [bind]. repeat split; auto.
  intros pad. rewrite (decode_limit_of_all s pad (text ++ sfx) (zlen text) Hd).
  - f_equal. unfold zlen. rewrite Nat2Z.id. rewrite firstn_app_le by lia. apply firstn_all.
  - rewrite zlen_app. pose proof (zlen_nonneg text). pose proof (zlen_nonneg sfx). lia.
Qed.

(* ------------------------------------------------------------------ picotool's decoder against the format *)
(* the oldest n bytes of a history *)
Definition trunc (n : Z) (h : list Z) : list Z := skipn (length h - Z.to_nat n) h.

Lemma trunc_short n h : zlen h <= n -> trunc n h = h.
Proof. intros H. unfold trunc. replace (length h - Z.to_nat n)%nat with O by (unfold zlen in H; lia). reflexivity. Qed.

Lemma trunc_app n x h : zlen h = n -> trunc n (x ++ h) = h.
Proof.
  intros H. unfold trunc. rewrite app_length.
  replace (length x + length h - Z.to_nat n)%nat with (length x) by (unfold zlen in H; lia).
  rewrite skipn_app_le by lia. rewrite skipn_all. reflexivity.
Qed.

Lemma zlen_trunc n h : 0 <= n <= zlen h -> zlen (trunc n h) = n.
Proof. intros H. unfold trunc, zlen in *. rewrite skipn_length. lia. Qed.

Lemma unpack_kernels b1 b2 in_i :
  let cd := fun k => if k =? in_i + 1 then b2 else b1 in
  dc_offset cd (in_i + 1) = (b1 - 60) * 16 + b2 mod 16 /\ dc_length cd (in_i + 1) = b2 / 16 + 2.
Proof.
  cbv zeta. unfold dc_offset, dc_length.
  rewrite Z.eqb_refl. assert (E : (in_i + 1 - 1 =? in_i + 1) = false) by lia. rewrite E.
  change 15 with (Z.ones 4). rewrite Z.land_ones by lia. rewrite Z.shiftr_div_pow2 by lia.
  change (2 ^ 4) with 16. split; reflexivity.
Qed.

Lemma copy_loop_spec : forall k hist off n h2,
  1 <= off -> copy_back k (Z.to_nat off) hist = Some h2 -> zlen hist <= n ->
  copy_loop k hist (zlen hist) off n = Ok (trunc n h2, Z.min n (zlen h2)).
Proof.
  induction k as [|k IH]; intros hist off n h2 Ho Hc Hn; cbn [copy_back copy_loop] in *.
  - injection Hc as <-. rewrite trunc_short by exact Hn. f_equal. f_equal. lia.
  - destruct (nth_error hist (Z.to_nat off - 1)) as [b|] eqn:Eb; [|discriminate].
    assert (Hl : (Z.to_nat off - 1 < length hist)%nat) by (apply nth_error_Some; congruence).
    unfold dc_copy_stop. destruct (zlen hist =? n) eqn:En.
    + apply copy_back_grows in Hc. destruct Hc as (x & -> & _).
      change (x ++ b :: hist) with (x ++ [b] ++ hist). rewrite app_assoc.
      rewrite trunc_app by lia. rewrite zlen_app. pose proof (zlen_nonneg (x ++ [b])).
      f_equal. f_equal. lia.
    + unfold out_get, dc_copy_src.
      assert (E1 : (zlen hist - off <? 0) = false) by (unfold zlen; lia). rewrite E1.
      assert (E2 : (zlen hist - off <? 0) || (n <=? zlen hist - off) = false) by (unfold zlen in *; lia). rewrite E2.
      assert (E3 : (zlen hist - off <? zlen hist) = true) by lia. rewrite E3.
      replace (Z.to_nat (zlen hist - 1 - (zlen hist - off))) with (Z.to_nat off - 1)%nat by lia.
      rewrite Eb. cbn [bind].
      replace (zlen hist + 1) with (zlen (b :: hist)) by (rewrite zlen_cons; lia).
      apply IH; auto. rewrite zlen_cons. lia.
Qed.

Lemma dec_loop_spec : forall fuelS s hist n h',
  pxc_run fuelS (Some n) s hist (zlen hist) = Some h' -> n <= zlen h' -> 0 <= n ->
  forall fuel in_i len_cd, (length s < fuel)%nat -> len_cd = in_i + zlen s ->
  exists in_i', dec_loop fuel s in_i (trunc n hist) (Z.min n (zlen hist)) n len_cd = Ok (trunc n h', n, in_i').
Proof.
  induction fuelS as [|fS IH]; intros s hist n h' Hr Hn Hn0 fuel in_i len_cd Hf Hlen; cbn [pxc_run] in Hr; [discriminate|].
  destruct fuel as [|f]; [lia|]. cbn [dec_loop]. unfold dc_loop.
  destruct (n <=? zlen hist) eqn:Estop.
  - injection Hr as <-.
    assert (E : (Z.min n (zlen hist) <? n) = false) by lia. rewrite E. cbn [andb].
    exists in_i. f_equal. f_equal. f_equal. lia.
  - destruct s as [|b1 s1].
    { injection Hr as <-. lia. }
    rewrite trunc_short by lia. rewrite Z.min_r by lia.
    assert (E : (zlen hist <? n) && (in_i <? len_cd) = true).
    { rewrite zlen_cons in Hlen. pose proof (zlen_nonneg s1). lia. }
    rewrite E.
    destruct (parse_item (b1 :: s1)) as [[it r]|] eqn:Hp; [|discriminate].
    destruct (apply_item it hist) as [h1|] eqn:Ha; [|discriminate].
    destruct (apply_item_grows _ _ _ Ha) as (x & Eh1 & Hx & Hx1).
    assert (Hz : zlen hist + item_len it = zlen h1) by (subst h1; rewrite zlen_app; lia).
    rewrite Hz in Hr.
    unfold parse_item in Hp. unfold dc_is_raw, dc_is_lit.
    destruct (b1 =? 0) eqn:E0.
    + destruct s1 as [|b s2]; [discriminate|]. injection Hp as <- <-.
      cbn [apply_item] in Ha. injection Ha as <-.
      specialize (IH s2 (b :: hist) n h' Hr Hn Hn0 f (in_i + 1 + 1) len_cd).
      rewrite trunc_short in IH by (rewrite zlen_cons; lia).
      rewrite Z.min_r in IH by (rewrite zlen_cons; lia). rewrite zlen_cons in IH.
      replace (1 + zlen hist) with (zlen hist + 1) in IH by lia.
      apply IH; [cbn [length] in Hf; lia|]. rewrite !zlen_cons in Hlen. lia.
    + destruct (b1 <=? 59) eqn:E1.
      * destruct (pxc_lookup b1) as [c|] eqn:El; [|discriminate]. injection Hp as <- <-.
        cbn [apply_item] in Ha. injection Ha as <-.
        destruct (table_agrees _ _ El) as (Et & _). rewrite Et. cbn [bind].
        specialize (IH s1 (c :: hist) n h' Hr Hn Hn0 f (in_i + 1) len_cd).
        rewrite trunc_short in IH by (rewrite zlen_cons; lia).
        rewrite Z.min_r in IH by (rewrite zlen_cons; lia). rewrite zlen_cons in IH.
        replace (1 + zlen hist) with (zlen hist + 1) in IH by lia.
        apply IH; [cbn [length] in Hf; lia|]. rewrite !zlen_cons in Hlen. lia.
      * destruct s1 as [|b2 s2]; [discriminate|]. injection Hp as <- <-.
        destruct (unpack_kernels b1 b2 in_i) as (Eo & El). cbv zeta in Eo, El. rewrite Eo, El.
        cbn [apply_item] in Ha. destruct (ref_ok _ _) eqn:Erk; [|discriminate].
        unfold ref_ok in Erk.
        assert (Ho1 : 1 <= (b1 - 60) * 16 + b2 mod 16) by lia.
        assert (Hhn : zlen hist <= n) by lia.
        rewrite (copy_loop_spec _ _ _ n h1 Ho1 Ha Hhn). cbn [bind].
        apply (IH s2 h1 n h' Hr Hn Hn0 f (in_i + 1 + 1) len_cd); [cbn [length] in Hf; lia|].
        rewrite !zlen_cons in Hlen. lia.
Qed.

(* ------------------------------------------------------------------ decode_raw / decompress_code *)
Definition lor_ok (hi : Z) : bool := forallb (fun lo => Z.lor (Z.shiftl hi 8) lo =? hi * 256 + lo) (upto 256).
Lemma lor_ok_all : forallb lor_ok (upto 256) = true.
Proof. vm_compute. reflexivity. Qed.

Lemma code_length_kernel hi lo : byte hi -> byte lo ->
  dc_code_length (fun k => if k =? 4 then hi else lo) = hi * 256 + lo.
Proof.
  intros Hh Hl. unfold dc_code_length. cbn [Z.eqb Pos.eqb].
  assert (E := sweep_byte lor_ok lor_ok_all hi Hh). unfold lor_ok in E.
  assert (E2 := sweep_byte _ E lo Hl). cbn beta in E2. lia.
Qed.

Lemma rev_trunc n h : 0 <= n <= zlen h -> rev (trunc n h) = firstn (Z.to_nat n) (rev h).
Proof.
  intros H. unfold trunc. rewrite firstn_rev. reflexivity.
Qed.

Lemma decode_raw_spec m0 m1 m2 m3 hi lo s n out :
  byte hi -> byte lo -> n = hi * 256 + lo -> pxc_decode n s = Some out ->
  exists cs, decode_raw (m0 :: m1 :: m2 :: m3 :: hi :: lo :: 0 :: 0 :: s) = Ok (n, out, cs).
Proof.
  intros Hh Hl Hn Hd. unfold decode_raw.
  set (cd := m0 :: m1 :: m2 :: m3 :: hi :: lo :: 0 :: 0 :: s).
  assert (Hcd : zlen cd = 8 + zlen s) by (unfold cd, zlen; cbn [length]; lia).
  pose proof (zlen_nonneg s) as Hs0.
  rewrite (py_get_nth cd 4 hi) by (try lia; reflexivity).
  rewrite (py_get_nth cd 5 lo) by (try lia; reflexivity). cbn [bind].
  rewrite code_length_kernel by assumption. rewrite <- Hn.
  unfold dc_assert_lo, dc_assert_hi. rewrite py_slice_inrange by lia.
  change (zlist_eqb (firstn (Z.to_nat (8 - 6)) (skipn (Z.to_nat 6) cd)) dc_assert_bytes) with true.
  cbn [assert_ bind].
  unfold pxc_decode in Hd.
  destruct (pxc_run (S (length s)) (Some n) s [] 0) as [h'|] eqn:Er; [|discriminate].
  rewrite rev'_rev in Hd. destruct (n <=? zlen (rev h')) eqn:En; [|discriminate]. injection Hd as <-.
  rewrite zlen_rev in En.
  assert (Hn0 : 0 <= n) by (unfold byte in *; lia).
  change 0 with (zlen (@nil Z)) in Er.
  destruct (dec_loop_spec _ _ _ _ _ Er ltac:(lia) Hn0 (S (length cd)) dc_in_i0 (zlen cd)) as (cs & Ed).
  { unfold cd. cbn [length]. lia. }
  { unfold dc_in_i0. lia. }
  change (trunc n []) with (@nil Z) in Ed. change (zlen (@nil Z)) with 0 in Ed. rewrite Z.min_r in Ed by lia.
  change (skipn (Z.to_nat dc_in_i0) cd) with s. unfold dc_out_i0. rewrite Ed. cbn [bind].
  exists cs. f_equal. f_equal. f_equal.
  rewrite Z.sub_diag. cbn [Z.to_nat repeat]. rewrite rev_append_rev, app_nil_r.
  rewrite rev_trunc by lia.
  assert (Hl' : zlen (firstn (Z.to_nat n) (rev h')) = n).
  { unfold zlen. rewrite firstn_length, rev_length. unfold zlen in En. lia. }
  rewrite py_slice_inrange by lia. rewrite Z.sub_0_r. cbn [Z.to_nat skipn].
  apply firstn_all2. unfold zlen in Hl'. lia.
Qed.

(* post-processing is the identity on text without NUL at either end that does not end with a
   compatibility suffix *)
Definition clean_ends (text : list Z) : bool :=
  match text with [] => true | x :: _ => negb (in_set dc_strip_bytes x) end &&
  match rev text with [] => true | y :: _ => negb (in_set dc_strip_bytes y) end.

Definition clean (text : list Z) : bool :=
  clean_ends text && negb (ends_with future_code1 text) && negb (ends_with future_code2 text).

Lemma lstrip_clean cs l : match l with [] => true | x :: _ => negb (in_set cs x) end = true -> lstrip_set cs l = l.
Proof. destruct l as [|x r]; cbn; [reflexivity|]. destruct (in_set cs x); [discriminate|reflexivity]. Qed.

Lemma strip_clean text : clean_ends text = true -> strip_set dc_strip_bytes text = text.
Proof.
  unfold clean_ends, strip_set. intros H. apply andb_true_iff in H. destruct H as [H1 H2].
  rewrite (lstrip_clean _ _ H1). rewrite !rev'_rev. rewrite (lstrip_clean _ _ H2). apply rev_involutive.
Qed.

Lemma dc_finish_clean n text cs : clean text = true -> dc_finish n text cs = Ok (n, text, cs).
Proof.
  unfold clean. intros H. apply andb_true_iff in H. destruct H as [H H3].
  apply andb_true_iff in H. destruct H as [H1 H2].
  unfold dc_finish. rewrite (strip_clean _ H1). unfold drop_suffix.
  apply negb_true_iff in H2, H3. rewrite H2. cbn [bind]. rewrite H3. reflexivity.
Qed.

Lemma decompress_agrees m0 m1 m2 m3 hi lo s n out :
  byte hi -> byte lo -> n = hi * 256 + lo -> pxc_decode n s = Some out ->
  exists cs, decompress_code (m0 :: m1 :: m2 :: m3 :: hi :: lo :: 0 :: 0 :: s) = dc_finish n out cs.
Proof.
  intros Hh Hl Hn Hd. destruct (decode_raw_spec m0 m1 m2 m3 hi lo s n out Hh Hl Hn Hd) as (cs & E).
  exists cs. unfold decompress_code. rewrite E. reflexivity.
Qed.

Lemma header_roundtrip text m0 m1 m2 m3 :
  Forall byte text -> zlen text < 65536 -> clean text = true ->
  exists s, compress_code text = Ok s /\ forall pad, exists cs,
    decompress_code (m0 :: m1 :: m2 :: m3 :: zlen text / 256 :: zlen text mod 256 :: 0 :: 0 :: s ++ pad)
    = Ok (zlen text, text, cs).
Proof.
  intros Hb Hlen Hc. destruct (compress_code_correct text Hb) as (s & sfx & Es & _ & _ & _ & Hd).
  exists s. split; [exact Es|]. intros pad. pose proof (zlen_nonneg text).
  destruct (decompress_agrees m0 m1 m2 m3 (zlen text / 256) (zlen text mod 256) (s ++ pad) (zlen text) text)
    as (cs & E); try (unfold byte; lia); [apply Hd|].
  exists cs. rewrite E. apply dc_finish_clean. exact Hc.
Qed.

(* ------------------------------------------------------------------ the instance predicates hold of the model *)
From PV Require Import Instances.HoldsC05.

Lemma pin_future1 : future_code1 = pxc_future1. Proof. reflexivity. Qed.
Lemma pin_future2 : future_code2 = pxc_future2. Proof. reflexivity. Qed.
Lemma pin_strip : dc_strip_bytes = [0]. Proof. reflexivity. Qed.
Lemma pin_table : compress_table = 35 :: pxc_table. Proof. reflexivity. Qed.

Lemma carried_clean t : carried t = clean t.
Proof.
  unfold carried, clean, nul_free_ends, clean_ends, no_compat_suffix, last_byte, ends_withb, ends_with.
  rewrite pin_future1, pin_future2, pin_strip. rewrite !rev'_rev.
  rewrite andb_assoc. f_equal. f_equal. f_equal.
  - destruct t as [|x r]; [reflexivity|]. unfold in_set. cbn [existsb]. rewrite orb_false_r. reflexivity.
  - destruct (rev t) as [|y r]; [reflexivity|]. unfold in_set. cbn [existsb]. rewrite orb_false_r. reflexivity.
Qed.

Lemma all_bytes_of_Forall l : Forall byte l -> all_bytes l = true.
Proof. apply all_bytes_Forall. Qed.

Lemma holds_stream_model text : Forall byte text ->
  exists s, compress_code text = Ok s /\ holds_C05_stream text s = true.
Proof.
  intros Hb. destruct (compress_code_correct text Hb) as (s & sfx & Es & Hs & _ & Hall & Hd).
  exists s. split; [exact Es|]. unfold holds_C05_stream, wf_streamb.
  rewrite (all_bytes_of_Forall _ Hs), Hall. specialize (Hd []). rewrite app_nil_r in Hd. rewrite Hd.
  cbn [andb]. apply zlist_eqb_eq. reflexivity.
Qed.

Lemma holds_agree_model m0 m1 m2 m3 hi lo s n :
  byte hi -> byte lo -> n = hi * 256 + lo ->
  match decompress_code (m0 :: m1 :: m2 :: m3 :: hi :: lo :: 0 :: 0 :: s) with
  | Ok (cl, code, _) => holds_C05_agree n s false cl code = true
  | Err _ => holds_C05_agree n s true 0 [] = true
  end.
Proof.
  intros Hh Hl Hn. unfold holds_C05_agree.
  destruct (pxc_decode n s) as [out|] eqn:Hd.
  - destruct (decompress_agrees m0 m1 m2 m3 hi lo s n out Hh Hl Hn Hd) as (cs & E). rewrite E.
    destruct (carried out) eqn:Ec.
    + rewrite carried_clean in Ec. rewrite (dc_finish_clean _ _ _ Ec).
      rewrite Z.eqb_refl. cbn [negb andb]. apply zlist_eqb_eq. reflexivity.
    + destruct (dc_finish n out cs) as [[[cl code] cs']|]; reflexivity.
  - destruct (decompress_code _) as [[[cl code] cs']|]; reflexivity.
Qed.

(* a text ending with the compatibility suffix is not carried: the hypothesis of the round trip is needed *)
Lemma suffix_not_carried : exists text, Forall byte text /\ clean text = false /\
  exists s, compress_code text = Ok s /\
    decompress_code (58 :: 99 :: 58 :: 0 :: zlen text / 256 :: zlen text mod 256 :: 0 :: 0 :: s) <> Ok (zlen text, text, 8 + zlen s).
Proof.
  exists (120 :: 10 :: future_code2). split; [apply all_bytes_Forall; vm_compute; reflexivity|].
  split; [vm_compute; reflexivity|]. eexists. split; [vm_compute; reflexivity|]. vm_compute. discriminate.
Qed.

Lemma compress_wf text : Forall byte text ->
  exists s, compress_code text = Ok s /\ Forall byte s /\ wf_stream s.
Proof.
  intros Hb. destruct (compress_code_correct text Hb) as (s & sfx & Es & Hs & _ & Hall & _).
  exists s. repeat split; auto. exists (text ++ sfx). exact Hall.
Qed.

Lemma lossless text : Forall byte text ->
  exists s sfx, compress_code text = Ok s /\ with_suffix text = Ok (text ++ sfx) /\
                pxc_decode_all s = Some (text ++ sfx) /\
                forall pad, pxc_decode (zlen text) (s ++ pad) = Some text.
Proof.
  intros Hb. destruct (compress_code_correct text Hb) as (s & sfx & Es & _ & Ew & Hall & Hd).
  exists s, sfx. auto.
Qed.

(* ------------------------------------------------------------------ the suffix scan is the source's index loops *)
Lemma skipn_cons_nth_d {A} (d : A) l n x t : skipn n l = x :: t -> nth n l d = x /\ skipn (S n) l = t.
Proof.
  revert l; induction n as [|n IH]; intros l H.
  - cbn in H. subst l. split; reflexivity.
  - destruct l as [|y l]; [discriminate|]. cbn [skipn nth] in *. apply IH. exact H.
Qed.

Lemma skipn_cons_datf dat j x t : 0 <= j -> skipn (Z.to_nat j) dat = x :: t ->
  datf dat j = x /\ skipn (Z.to_nat (j + 1)) dat = t.
Proof.
  intros Hj H. unfold datf. replace (Z.to_nat (j + 1)) with (S (Z.to_nat j)) by lia.
  apply skipn_cons_nth_d. exact H.
Qed.

Lemma skipn_nonempty {A} (l : list A) n : (n < length l)%nat -> exists x t, skipn n l = x :: t.
Proof.
  intros H. destruct (skipn n l) as [|x t] eqn:E; [|eauto].
  assert (length (skipn n l) = 0%nat) by (rewrite E; reflexivity). rewrite skipn_length in *. lia.
Qed.

(* the inner loop: from j, with a = dat[j:], b = dat[pos+j-i:] *)
Lemma inner_loop_eq dat i pos max_len : 0 <= i -> 0 <= pos <= zlen dat -> pos + max_len <= zlen dat ->
  forall n j fuel, i <= j -> n = Z.to_nat (max_len - (j - i)) -> (n < fuel)%nat ->
  frb_inner_loop fuel dat i j max_len pos =
  j + Z.of_nat (cpl n (Z.to_nat (pos - j)) (skipn (Z.to_nat j) dat) (skipn (Z.to_nat (pos + j - i)) dat)).
Proof.
  intros Hi Hpos Hml. induction n as [|n IH]; intros j fuel Hj Hn Hf.
  - destruct fuel; [lia|]. cbn [frb_inner_loop cpl]. rewrite pin_frb_inner.
    assert (E : (j - i <? max_len) = false) by lia. rewrite E. cbn [andb]. lia.
  - destruct fuel; [lia|]. cbn [frb_inner_loop]. rewrite pin_frb_inner.
    assert (E : (j - i <? max_len) = true) by lia. rewrite E. cbn [andb].
    destruct (j <? pos) eqn:Ejp.
    + destruct (skipn_nonempty dat (Z.to_nat j)) as (x & a' & Ea); [unfold zlen in *; lia|].
      destruct (skipn_nonempty dat (Z.to_nat (pos + j - i))) as (y & b' & Eb); [unfold zlen in *; lia|].
      destruct (skipn_cons_datf dat j x a' ltac:(lia) Ea) as (Dx & Ea').
      destruct (skipn_cons_datf dat (pos + j - i) y b' ltac:(lia) Eb) as (Dy & Eb').
      rewrite Ea, Eb. replace (Z.to_nat (pos - j)) with (S (Z.to_nat (pos - (j + 1)))) by lia.
      cbn [cpl andb]. rewrite Dx, Dy. destruct (x =? y) eqn:Exy.
      * rewrite (IH (j + 1) fuel) by lia. rewrite Ea'.
        replace (pos + (j + 1) - i) with (pos + j - i + 1) by lia. rewrite Eb'. lia.
      * lia.
    + cbn [andb]. replace (Z.to_nat (pos - j)) with O by lia. cbn [cpl]. lia.
Qed.

Definition best_i_of (pos : Z) (bd : nat) : Z := match bd with O => frb_best_i0 | _ => pos - Z.of_nat bd end.

Lemma outer_loop_eq dat pos max_len : 0 <= pos <= zlen dat -> 0 <= max_len -> pos + max_len <= zlen dat ->
  forall d i fuel bl bd, i = pos - Z.of_nat d -> 0 <= i -> (d < fuel)%nat ->
  frb_outer_loop fuel dat i pos max_len (Z.of_nat bl) (best_i_of pos bd) =
  (let '(bl', bd') := scan (skipn (Z.to_nat i) dat) d (skipn (Z.to_nat pos) dat) (Z.to_nat max_len) bl bd in
   (Z.of_nat bl', best_i_of pos bd')).
Proof.
  intros Hpos Hml0 Hml. induction d as [|d IH]; intros i fuel bl bd Hi Hi0 Hf.
  - destruct fuel; [lia|]. cbn [frb_outer_loop]. rewrite pin_frb_outer.
    assert (E : (i <? pos) = false) by lia. rewrite E.
    destruct (skipn (Z.to_nat i) dat); reflexivity.
  - destruct fuel; [lia|]. cbn [frb_outer_loop]. rewrite pin_frb_outer.
    assert (E : (i <? pos) = true) by lia. rewrite E.
    destruct (skipn_nonempty dat (Z.to_nat i)) as (x & w' & Ew); [unfold zlen in *; lia|].
    destruct (skipn_cons_datf dat i x w' Hi0 Ew) as (_ & Ew').
    rewrite (inner_loop_eq dat i pos max_len Hi0 Hpos Hml (Z.to_nat max_len) i (S (Z.to_nat max_len))) by lia.
    replace (pos + i - i) with pos by lia. replace (Z.to_nat (pos - i)) with (S d) by lia.
    rewrite Ew. cbn [scan]. rewrite <- Ew.
    set (l := cpl (Z.to_nat max_len) (S d) (skipn (Z.to_nat i) dat) (skipn (Z.to_nat pos) dat)).
    unfold frb_better, frb_new_len.
    replace (i + Z.of_nat l - i) with (Z.of_nat l) by lia.
    destruct (Nat.ltb bl l) eqn:Eb.
    + apply Nat.ltb_lt in Eb. assert (E2 : (Z.of_nat l >? Z.of_nat bl) = true) by lia. rewrite E2.
      pose proof (IH (i + 1) fuel l (S d) ltac:(lia) ltac:(lia) ltac:(lia)) as IH1.
      replace (best_i_of pos (S d)) with i in IH1 at 1 by (unfold best_i_of; lia).
      rewrite IH1, Ew'. reflexivity.
    + apply Nat.ltb_ge in Eb. assert (E2 : (Z.of_nat l >? Z.of_nat bl) = false) by lia. rewrite E2.
      rewrite (IH (i + 1) fuel bl bd) by lia. rewrite Ew'. reflexivity.
Qed.

Lemma find_repeatable_block_ref_eq dat pos : 0 <= pos <= zlen dat ->
  find_repeatable_block dat pos = find_repeatable_block_ref dat pos.
Proof.
  intros Hpos. unfold find_repeatable_block, find_repeatable_block_ref, find_block.
  unfold frb_i0, frb_hist, frb_max_len, frb_max_block_len, frb_best_len0.
  assert (HW : 0 <= frb_window) by (unfold frb_window; lia).
  set (ml := Z.min 17 (zlen dat - pos)). set (h := Z.min frb_window pos).
  change 0 with (Z.of_nat 0) at 2. change frb_best_i0 with (best_i_of pos 0).
  rewrite (outer_loop_eq dat pos ml Hpos ltac:(unfold ml; lia) ltac:(unfold ml; lia) (Z.to_nat h) (pos - h)
             (S (Z.to_nat h)) 0 0) by (unfold h; lia).
  change (Z.to_nat 0) with O.
  destruct (scan _ _ _ _ _ _) as [bl bd]. reflexivity.
Qed.
