(* Appending ONE line feed to a text that lexes completely never breaks the lexing, and the concatenated
   token codes grow exactly by that line feed.  "End of input and a following line feed look the same":
   every single-line matcher gives the same answer for "no more input" and "next byte is 10" (classes are
   false on 10, no keyword / symbol contains 10, the lookaheads agree); the only exception is the text
   "\r", which is the newline token [13] at the end of input and the newline token [13;10] before a line
   feed.  A multi-line scan that starts inside a text that ends in state Normal closes inside that text,
   and a scan that closes is stable under appending text.  Every input (also outside the reference dialect). *)
From PV Require Import Base.Prelude Generated.T_lexer Model.Lexer Model.EchoWriter Proofs.LexerProofs Proofs.LexerInv
  Proofs.LexerSpec Proofs.LexerAgree Proofs.LexerChunk.
From Coq Require Import ZifyBool.

Definition codes_of (st : lexst) : list Z := concat (map tok_code (rev (l_toks_rev st))).

(* ---------- primitives: f (s ++ [10]) = f s with the rest extended by [10] *)
Lemma tw_lf p : p 10 = false -> forall s,
  take_while p (s ++ [10]) = (fst (take_while p s), snd (take_while p s) ++ [10]).
Proof.
  intros Hp s. induction s as [|c s IH]; cbn [app take_while].
  - rewrite Hp. reflexivity.
  - destruct (p c); [|reflexivity]. rewrite IH. destruct (take_while p s) as [a b]. reflexivity.
Qed.

Lemma tw1_lf p : p 10 = false -> forall s, take_while1 p (s ++ [10]) = map_rest [10] (take_while1 p s).
Proof.
  intros Hp s. unfold take_while1. rewrite (tw_lf p Hp s). destruct (take_while p s) as [a b]. cbn [fst snd].
  destruct (is_nil a); reflexivity.
Qed.

Lemma hd_is_lf k s : k <> 10 -> hd_is k (s ++ [10]) = hd_is k s.
Proof. intros N. destruct s; [cbn [app hd_is]; lia | reflexivity]. Qed.

Lemma hd_is_ne k s : hd_is k s = true -> s <> [].
Proof. destruct s; cbn [hd_is]; [discriminate | intros _; discriminate]. Qed.

Lemma dp_lf lit : ~ In 10 lit -> forall s,
  drop_prefix lit (s ++ [10]) = match drop_prefix lit s with Some y => Some (y ++ [10]) | None => None end.
Proof.
  induction lit as [|x lit IH]; intros Hn s; [reflexivity|].
  assert (Nx : x <> 10) by (intros ->; apply Hn; left; reflexivity).
  assert (Hn' : ~ In 10 lit) by (intros Hin; apply Hn; right; exact Hin).
  destruct s as [|c s]; cbn [app drop_prefix].
  - destruct (Z.eqb_spec x 10); [congruence | reflexivity].
  - destruct (x =? c); [apply IH; exact Hn' | reflexivity].
Qed.

Lemma opt_frac_lf p : p 10 = false -> forall s,
  opt_frac p (s ++ [10]) = (fst (opt_frac p s), snd (opt_frac p s) ++ [10]).
Proof.
  intros Hp s. unfold opt_frac. rewrite (hd_is_lf 46 s ltac:(lia)).
  destruct (hd_is 46 s) eqn:H46; [|reflexivity].
  rewrite (tl_app s [10] (hd_is_ne _ _ H46)), (tw1_lf p Hp (tl s)).
  destruct (take_while1 p (tl s)) as [[a b]|]; reflexivity.
Qed.

Lemma opt_exp_lf s : opt_exp (s ++ [10]) = (fst (opt_exp s), snd (opt_exp s) ++ [10]).
Proof.
  destruct s as [|e s']; [reflexivity|]. cbn [app]. unfold opt_exp.
  destruct ((e =? 101) || (e =? 69)); [|reflexivity].
  rewrite (hd_is_lf 45 s' ltac:(lia)). destruct (hd_is 45 s') eqn:H45.
  - rewrite (tl_app s' [10] (hd_is_ne _ _ H45)), (tw1_lf m_digit eq_refl (tl s')).
    destruct (take_while1 m_digit (tl s')) as [[a b]|]; reflexivity.
  - rewrite (tw1_lf m_digit eq_refl s'). destruct (take_while1 m_digit s') as [[a b]|]; reflexivity.
Qed.

Lemma num_prefix_lf l u : l <> 10 -> u <> 10 -> forall s,
  num_prefix l u (s ++ [10]) = map_rest [10] (num_prefix l u s).
Proof.
  intros Nl Nu s. unfold num_prefix. destruct s as [|z [|x s'']]; cbn [app map_rest].
  - reflexivity.
  - assert (E : (z =? 48) && ((10 =? l) || (10 =? u)) = false) by lia. rewrite E. reflexivity.
  - destruct ((z =? 48) && ((x =? l) || (x =? u))); reflexivity.
Qed.

Lemma scan_based_lf l u p : l <> 10 -> u <> 10 -> p 10 = false -> forall s,
  scan_based l u p (s ++ [10]) = map_rest [10] (scan_based l u p s).
Proof.
  intros Nl Nu Hp s. unfold scan_based. rewrite (num_prefix_lf l u Nl Nu s).
  destruct (num_prefix l u s) as [[pre r1]|]; [|reflexivity]. cbn [map_rest].
  rewrite (tw1_lf p Hp r1). destruct (take_while1 p r1) as [[a r2]|]; [|reflexivity]. cbn [map_rest].
  rewrite (opt_frac_lf p Hp r2). destruct (opt_frac p r2) as [f r3]. reflexivity.
Qed.

Lemma scan_based_frac_lf l u p : l <> 10 -> u <> 10 -> p 10 = false -> forall s,
  scan_based_frac l u p (s ++ [10]) = map_rest [10] (scan_based_frac l u p s).
Proof.
  intros Nl Nu Hp s. unfold scan_based_frac. rewrite (num_prefix_lf l u Nl Nu s).
  destruct (num_prefix l u s) as [[pre r1]|]; [|reflexivity]. cbn [map_rest].
  rewrite (hd_is_lf 46 r1 ltac:(lia)). destruct (hd_is 46 r1) eqn:H46; [|reflexivity].
  rewrite (tl_app r1 [10] (hd_is_ne _ _ H46)), (tw1_lf p Hp (tl r1)).
  destruct (take_while1 p (tl r1)) as [[a r2]|]; reflexivity.
Qed.

Lemma scan_decimal_lf s : scan_decimal (s ++ [10]) = map_rest [10] (scan_decimal s).
Proof.
  unfold scan_decimal. rewrite (tw1_lf m_digit eq_refl s).
  destruct (take_while1 m_digit s) as [[a r1]|]; [|reflexivity]. cbn [map_rest].
  rewrite (hd_is_lf 46 r1 ltac:(lia)). destruct (hd_is 46 r1) eqn:H46.
  - rewrite (tl_app r1 [10] (hd_is_ne _ _ H46)), (hd_is_lf 46 (tl r1) ltac:(lia)).
    destruct (hd_is 46 (tl r1)).
    + rewrite (opt_exp_lf r1). destruct (opt_exp r1) as [e r3]. reflexivity.
    + rewrite (tw_lf m_digit eq_refl (tl r1)). destruct (take_while m_digit (tl r1)) as [d r']. cbn [fst snd].
      rewrite (opt_exp_lf r'). destruct (opt_exp r') as [e r3]. reflexivity.
  - rewrite (opt_exp_lf r1). destruct (opt_exp r1) as [e r3]. reflexivity.
Qed.

Lemma scan_decimal_frac_lf s : scan_decimal_frac (s ++ [10]) = map_rest [10] (scan_decimal_frac s).
Proof.
  unfold scan_decimal_frac. rewrite (hd_is_lf 46 s ltac:(lia)).
  destruct (hd_is 46 s) eqn:H46; [|reflexivity].
  rewrite (tl_app s [10] (hd_is_ne _ _ H46)), (tw1_lf m_digit eq_refl (tl s)).
  destruct (take_while1 m_digit (tl s)) as [[a r2]|]; [|reflexivity]. cbn [map_rest].
  rewrite (opt_exp_lf r2). destruct (opt_exp r2) as [e r3]. reflexivity.
Qed.

Lemma scan_name_lf s : scan_name (s ++ [10]) = map_rest [10] (scan_name s).
Proof.
  unfold scan_name. destruct s as [|c s']; [reflexivity|]. cbn [app].
  destruct (m_name_start c); [|reflexivity].
  rewrite (tw_lf m_name_char eq_refl s'). destruct (take_while m_name_char s') as [a b]. reflexivity.
Qed.

Lemma ni_two c : c <> 10 -> ~ In 10 [c; c].
Proof. intros N [H|[H|[]]]; congruence. Qed.

Lemma ni_one c : c <> 10 -> ~ In 10 [c].
Proof. intros N [H|[]]; congruence. Qed.

Lemma scan_label_lf s : scan_label (s ++ [10]) = map_rest [10] (scan_label s).
Proof.
  unfold scan_label. rewrite (dp_lf [58; 58] (ni_two 58 ltac:(lia)) s).
  destruct (drop_prefix [58; 58] s) as [r1|]; [|reflexivity].
  rewrite (scan_name_lf r1). destruct (scan_name r1) as [[n r2]|]; [|reflexivity]. cbn [map_rest].
  rewrite (dp_lf [58; 58] (ni_two 58 ltac:(lia)) r2). destruct (drop_prefix [58; 58] r2); reflexivity.
Qed.

Lemma scan_keyword_lf kw : ~ In 10 kw -> forall s,
  scan_keyword kw (s ++ [10]) = map_rest [10] (scan_keyword kw s).
Proof.
  intros Hn s. unfold scan_keyword. destruct kw as [|k0 kw']; [reflexivity|].
  destruct (m_word k0); [|reflexivity].
  rewrite (dp_lf (k0 :: kw') Hn s).
  destruct (drop_prefix (k0 :: kw') s) as [r1|]; [|reflexivity].
  destruct r1 as [|c r1']; [reflexivity|]. cbn [app]. destruct (m_name_char c); reflexivity.
Qed.

Lemma scan_literal_lf lit : ~ In 10 lit -> forall s,
  scan_literal lit (s ++ [10]) = map_rest [10] (scan_literal lit s).
Proof.
  intros Hn s. unfold scan_literal. destruct lit as [|x lit']; [reflexivity|].
  rewrite (dp_lf (x :: lit') Hn s). destruct (drop_prefix (x :: lit') s); reflexivity.
Qed.

Lemma comment_lf c : c <> 10 -> forall s,
  match drop_prefix [c; c] (s ++ [10]) with
  | Some r => let '(a, b) := take_while m_not_eol r in Some (c :: c :: a, b)
  | None => None
  end =
  map_rest [10] (match drop_prefix [c; c] s with
                 | Some r => let '(a, b) := take_while m_not_eol r in Some (c :: c :: a, b)
                 | None => None
                 end).
Proof.
  intros Nc s. rewrite (dp_lf [c; c] (ni_two c Nc) s).
  destruct (drop_prefix [c; c] s) as [r1|]; [|reflexivity].
  rewrite (tw_lf m_not_eol eq_refl r1). destruct (take_while m_not_eol r1) as [a b]. reflexivity.
Qed.

(* the two literal patterns that contain a line feed *)
Lemma crlf_lf s : s <> [13] -> scan_literal [13; 10] (s ++ [10]) = map_rest [10] (scan_literal [13; 10] s).
Proof.
  intros N. unfold scan_literal. destruct s as [|c [|d r]]; cbn [app drop_prefix].
  - reflexivity.
  - destruct (Z.eqb_spec 13 c); [subst; congruence | reflexivity].
  - destruct (13 =? c); [|reflexivity]. destruct (10 =? d); reflexivity.
Qed.

Lemma lfonly_lf s : s <> [] -> scan_literal [10] (s ++ [10]) = map_rest [10] (scan_literal [10] s).
Proof.
  intros N. destruct s as [|c r]; [congruence|]. unfold scan_literal. cbn [app drop_prefix].
  destruct (10 =? c); reflexivity.
Qed.

(* the side condition on the regenerated table: no keyword and no symbol contains a line feed *)
Definition lf_free2 (m : matcher_id) : bool :=
  match m with
  | MKeyword k => negb (existsb (Z.eqb 10) k)
  | MSymbol x => negb (existsb (Z.eqb 10) x)
  | _ => true
  end.

Lemma table_lf_free2 : forallb (fun mk => lf_free2 (fst mk)) token_matchers = true.
Proof. vm_compute. reflexivity. Qed.

Lemma run_matcher_lf m : lf_free2 m = true -> forall s, s <> [] -> s <> [13] ->
  run_matcher m (s ++ [10]) = map_rest [10] (run_matcher m s).
Proof.
  intros Hf s N0 N13. destruct m; cbn [run_matcher lf_free2] in *.
  - exact (comment_lf 45 ltac:(lia) s).
  - exact (comment_lf 47 ltac:(lia) s).
  - exact (tw1_lf m_blank eq_refl s).
  - exact (crlf_lf s N13).
  - exact (lfonly_lf s N0).
  - exact (scan_literal_lf [13] (ni_one 13 ltac:(lia)) s).
  - exact (scan_based_lf 120 88 m_hex ltac:(lia) ltac:(lia) eq_refl s).
  - exact (scan_based_frac_lf 120 88 m_hex ltac:(lia) ltac:(lia) eq_refl s).
  - exact (scan_based_lf 98 66 m_bin ltac:(lia) ltac:(lia) eq_refl s).
  - exact (scan_based_frac_lf 98 66 m_bin ltac:(lia) ltac:(lia) eq_refl s).
  - exact (scan_decimal_lf s).
  - exact (scan_decimal_frac_lf s).
  - exact (scan_label_lf s).
  - apply scan_keyword_lf. apply not_in_of_existsb. apply negb_true_iff. exact Hf.
  - apply scan_literal_lf. apply not_in_of_existsb. apply negb_true_iff. exact Hf.
  - exact (scan_name_lf s).
  - exact (scan_literal_lf [63] (ni_one 63 ltac:(lia)) s).
Qed.

Lemma first_matcher_lf tbl : forallb (fun mk => lf_free2 (fst mk)) tbl = true ->
  forall s, s <> [] -> s <> [13] ->
  first_matcher tbl (s ++ [10]) =
    match first_matcher tbl s with Some (k, a, b) => Some (k, a, b ++ [10]) | None => None end.
Proof.
  induction tbl as [|[m k] tbl IH]; intros HT s N0 N13; [reflexivity|].
  cbn [forallb fst] in HT. apply andb_true_iff in HT. destruct HT as [Hm HT]. cbn [first_matcher].
  rewrite (run_matcher_lf m Hm s N0 N13). destruct (run_matcher m s) as [[a b]|]; cbn [map_rest]; [reflexivity|].
  apply IH; assumption.
Qed.

(* ---------- the Normal branch of _process_token *)
Lemma match_long_open_lf s :
  match_long_open (s ++ [10]) = match match_long_open s with Some (e, y) => Some (e, y ++ [10]) | None => None end.
Proof.
  unfold match_long_open. rewrite (hd_is_lf 91 s ltac:(lia)). destruct (hd_is 91 s) eqn:H91; [|reflexivity].
  rewrite (tl_app s [10] (hd_is_ne _ _ H91)), (tw_lf (fun c => c =? 61) eq_refl (tl s)).
  destruct (take_while (fun c => c =? 61) (tl s)) as [eqs r2]. cbn [fst snd].
  rewrite (hd_is_lf 91 r2 ltac:(lia)). destruct (hd_is 91 r2) eqn:H2; [|reflexivity].
  rewrite (tl_app r2 [10] (hd_is_ne _ _ H2)). reflexivity.
Qed.

Lemma ni_open : ~ In 10 [45; 45; 91; 91].
Proof. intros [H|[H|[H|[H|[]]]]]; discriminate. Qed.

Lemma process_token_normal_lf l col s : s <> [] -> s <> [13] ->
  process_token Normal l col (s ++ [10]) = ext_res [10] (process_token Normal l col s).
Proof.
  intros N0 N13. cbn [process_token]. rewrite (dp_lf [45; 45; 91; 91] ni_open s).
  destruct (drop_prefix [45; 45; 91; 91] s) as [r0|]; [reflexivity|].
  rewrite (match_long_open_lf s). destruct (match_long_open s) as [[eqs r1]|]; [reflexivity|].
  rewrite (first_matcher_lf _ table_lf_free2 s N0 N13).
  destruct s as [|c s']; [congruence|]. cbn [app].
  destruct ((c =? 39) || (c =? 34)); [reflexivity|].
  destruct (first_matcher token_matchers (c :: s')) as [[[k a] r']|]; reflexivity.
Qed.

(* ---------- a multi-line scan that closes is stable under the appended line feed *)
Lemma find_rbrackets_lf s : forall a b,
  find_rbrackets s = Some (a, b) -> find_rbrackets (s ++ [10]) = Some (a, b ++ [10]).
Proof.
  induction s as [|c s IH]; intros a b H; [discriminate|].
  change ((c :: s) ++ [10]) with (c :: s ++ [10]). rewrite find_rbrackets_cons in H. rewrite find_rbrackets_cons.
  rewrite (hd_is_lf 93 s ltac:(lia)).
  destruct ((c =? 93) && hd_is 93 s) eqn:C.
  - inversion H; subst. apply andb_true_iff in C. destruct C as [_ H93].
    rewrite (tl_app s [10] (hd_is_ne _ _ H93)). reflexivity.
  - destruct (find_rbrackets s) as [[a' b']|] eqn:F; [|discriminate]. inversion H; subst.
    rewrite (IH _ _ eq_refl). reflexivity.
Qed.

Lemma flc_unfold closer s : find_long_close closer s =
  match drop_prefix closer s with
  | Some r => Some ([], r)
  | None =>
    match s with
    | c :: r => match find_long_close closer r with Some (a, b) => Some (c :: a, b) | None => None end
    | [] => None
    end
  end.
Proof. destruct s; reflexivity. Qed.

Lemma find_long_close_lf closer : ~ In 10 closer -> forall s a b,
  find_long_close closer s = Some (a, b) -> find_long_close closer (s ++ [10]) = Some (a, b ++ [10]).
Proof.
  intros Hn. induction s as [|c s IH]; intros a b H; rewrite flc_unfold in H; rewrite flc_unfold, (dp_lf closer Hn).
  - destruct (drop_prefix closer []) as [y|]; [inversion H; subst; reflexivity | discriminate].
  - destruct (drop_prefix closer (c :: s)) as [y|]; [inversion H; subst; reflexivity|].
    cbn [app]. destruct (find_long_close closer s) as [[a' b']|] eqn:F; [|discriminate].
    inversion H; subst. rewrite (IH _ _ eq_refl). reflexivity.
Qed.

Lemma tu_lf p n : p 10 = false -> forall s,
  take_upto n p (s ++ [10]) = (fst (take_upto n p s), snd (take_upto n p s) ++ [10]).
Proof.
  intros Hp. induction n as [|n IH]; intros s; [destruct s; reflexivity|].
  destruct s as [|c s]; cbn [app take_upto].
  - rewrite Hp. reflexivity.
  - destruct (p c); [|reflexivity]. rewrite IH. destruct (take_upto n p s); reflexivity.
Qed.

(* an escape whose lookahead is cut off by the end of input: the text after the backslash is empty (the
   backslash stays as data; before a line feed it is an escaped line feed) or a lone CR (before a line feed
   it is an escaped CR LF) *)
Lemma escape_step_lf r : r <> [] -> r <> [13] -> escape_step (r ++ [10]) = ext_esc [10] (escape_step r).
Proof.
  intros N0 N13. destruct r as [|d1 r1]; [congruence|].
  unfold escape_step at 2. unfold escape_step. cbn [app].
  destruct (m_digit d1) eqn:Cd.
  - change (d1 :: r1 ++ [10]) with ((d1 :: r1) ++ [10]). rewrite (tu_lf m_digit 3 eq_refl (d1 :: r1)).
    destruct (take_upto 3 m_digit (d1 :: r1)) as [ds rest]. cbn [fst snd].
    destruct (byte_of_digits ds <? 256); reflexivity.
  - destruct r1 as [|h1 [|h2 r3]]; cbn [app].
    + assert (E : (d1 =? 13) && (10 =? 10) = false).
      { destruct (Z.eqb_spec d1 13); [subst; congruence | reflexivity]. }
      rewrite E. destruct (lookup_bytes string_escapes [d1]); reflexivity.
    + change (m_hex 10) with false. rewrite andb_false_r.
      destruct ((d1 =? 13) && (h1 =? 10)); [reflexivity|].
      destruct (lookup_bytes string_escapes [d1]); reflexivity.
    + destruct ((d1 =? 120) && m_hex h1 && m_hex h2); [reflexivity|].
      destruct ((d1 =? 13) && (h1 =? 10)); [reflexivity|].
      destruct (lookup_bytes string_escapes [d1]); reflexivity.
Qed.

Lemma scan_string_lf d : d <> 13 -> forall F (s : list Z) F' acc pc a p rest,
  (length (s ++ [10%Z]) <= F')%nat ->
  scan_string F d s acc pc = Ok (SClosed a p rest) ->
  scan_string F' d (s ++ [10]) acc pc = Ok (SClosed a p (rest ++ [10])).
Proof.
  intros Nd. induction F as [|f IH]; intros s F' acc pc a p rest HF H;
    destruct s as [|c r]; cbn [scan_string] in H; try discriminate.
  rewrite app_length in HF. cbn [length] in HF. destruct F' as [|f']; [lia|]. cbn [app scan_string].
  destruct (c =? d); [inversion H; subst; reflexivity|].
  destruct (c =? 92).
  - destruct (escape_step r) as [[[v used] rest1]|e] eqn:E; [|discriminate].
    destruct rest1 as [|x rest1']; [rewrite scan_nil in H; discriminate|].
    assert (N0 : r <> []) by (intros ->; cbn in E; discriminate).
    assert (N13 : r <> [13]).
    { intros ->. unfold escape_step in E. change (m_digit 13) with false in E. cbv iota in E.
      destruct (lookup_bytes string_escapes [13]); inversion E; subst.
      destruct f as [|f0]; cbn [scan_string] in H; [discriminate|].
      assert (E1 : (13 =? d) = false) by lia. rewrite E1 in H. change (13 =? 92) with false in H.
      rewrite scan_nil in H. discriminate. }
    rewrite (escape_step_lf r N0 N13), E. cbn [ext_esc].
    apply escape_step_split in E.
    assert (L : length r = (length used + length (x :: rest1'))%nat) by (subst r; apply app_length).
    apply (IH (x :: rest1') f' _ _ _ _ _); [rewrite app_length; cbn [length] in *; lia | exact H].
  - apply (IH r f' _ _ _ _ _); [rewrite app_length; cbn [length]; lia | exact H].
Qed.

(* ---------- one call of _process_token before the appended line feed *)
Definition state_q (ms : mstate) : Prop :=
  match ms with InString d _ _ _ _ => d <> 13 | _ => True end.

Lemma process_token_q ms l c s ms' ot piece rest :
  state_q ms -> process_token ms l c s = Ok (Some (ms', ot, piece, rest)) -> state_q ms'.
Proof.
  intros Hq H. destruct ms as [|d acc sl sc ext|acc sl sc|eqs acc sl sc ext]; cbn [process_token] in H.
  - destruct (drop_prefix [45; 45; 91; 91] s); [inversion H; subst; exact I|].
    destruct (match_long_open s) as [[eqs r1]|]; [inversion H; subst; exact I|].
    destruct s as [|c0 r]; [discriminate|]. destruct ((c0 =? 39) || (c0 =? 34)) eqn:Q.
    + inversion H; subst. cbn [state_q]. lia.
    + destruct (first_matcher token_matchers (c0 :: r)) as [[[k a] r']|]; [|discriminate]. inversion H; subst. exact I.
  - destruct s as [|c0 r0]; [discriminate|].
    destruct (scan_string (length (c0 :: r0)) d (c0 :: r0) acc []) as [[a p rs|a p]|e]; [| |discriminate];
      inversion H; subst; [exact I | exact Hq].
  - destruct (find_rbrackets s) as [[a rs]|]; [inversion H; subst; exact I|].
    destruct s; [discriminate|]. inversion H; subst. exact I.
  - destruct (find_long_close (93 :: eqs ++ [93]) s) as [[a rs]|]; [inversion H; subst; exact I|].
    destruct s; [discriminate|]. inversion H; subst. exact I.
Qed.

Lemma process_token_lf1 ms l c s ms' ot piece rest :
  state_lf ms -> state_q ms -> s <> [] -> (ms = Normal -> s <> [13]) ->
  process_token ms l c s = Ok (Some (ms', ot, piece, rest)) -> (rest = [] -> ms' = Normal) ->
  process_token ms l c (s ++ [10]) = Ok (Some (ms', ot, piece, rest ++ [10])).
Proof.
  intros Hl Hq N0 N13 E Hfin. pose proof (app_ne_l s [10] N0) as N1.
  destruct ms as [|d acc sl sc ext|acc sl sc|eqs acc sl sc ext].
  - rewrite (process_token_normal_lf l c s N0 (N13 eq_refl)), E. reflexivity.
  - cbn [process_token] in E |- *. rewrite (match_ne s _ _ N0) in E. rewrite (match_ne (s ++ [10]) _ _ N1).
    destruct (scan_string (length s) d s acc []) as [[a p rs|a p]|e] eqn:X; [| |discriminate].
    + inversion E; subst.
      rewrite (scan_string_lf d Hq (length s) s (length (s ++ [10])) acc [] a p rest (Nat.le_refl _) X). reflexivity.
    + inversion E; subst. specialize (Hfin eq_refl). discriminate.
  - cbn [process_token] in E |- *. destruct (find_rbrackets s) as [[a rs]|] eqn:F.
    + inversion E; subst. rewrite (find_rbrackets_lf s _ _ F). reflexivity.
    + rewrite (match_ne s _ _ N0) in E. inversion E; subst. specialize (Hfin eq_refl). discriminate.
  - cbn [state_lf] in Hl. cbn [process_token] in E |- *.
    assert (Hcl : ~ In 10 (93 :: eqs ++ [93])).
    { intros [H|H]; [discriminate|]. apply in_app_or in H. destruct H as [H|[H|[]]]; [exact (Hl H) | discriminate]. }
    destruct (find_long_close (93 :: eqs ++ [93]) s) as [[a rs]|] eqn:F.
    + inversion E; subst. rewrite (find_long_close_lf _ Hcl s _ _ F). reflexivity.
    + rewrite (match_ne s _ _ N0) in E. inversion E; subst. specialize (Hfin eq_refl). discriminate.
Qed.

(* ---------- the newline tokens at the very end *)
Lemma pt_matcher l col c r : c <> 45 -> c <> 91 -> c <> 39 -> c <> 34 ->
  process_token Normal l col (c :: r) =
    match first_matcher token_matchers (c :: r) with
    | Some (k, a, rest') => Ok (Some (Normal, Some (mk_tok k a l col [] None a), a, rest'))
    | None => Ok None
    end.
Proof.
  intros N45 N91 N39 N34. cbn [process_token]. rewrite (drop4_ne c r N45), (long_open_ne c r N91).
  assert (E : (c =? 39) || (c =? 34) = false) by lia. rewrite E. reflexivity.
Qed.

Lemma fm_lf : first_matcher token_matchers [10] = Some (KNewline, [10], []).
Proof. vm_compute. reflexivity. Qed.
Lemma fm_cr : first_matcher token_matchers [13] = Some (KNewline, [13], []).
Proof. vm_compute. reflexivity. Qed.
Lemma fm_crlf : first_matcher token_matchers [13; 10] = Some (KNewline, [13; 10], []).
Proof. vm_compute. reflexivity. Qed.

Lemma pl_one st c k : l_state st = Normal -> c <> 45 -> c <> 91 -> c <> 39 -> c <> 34 ->
  forall r a, first_matcher token_matchers (c :: r) = Some (k, a, []) -> a <> [] ->
  pl st (c :: r) = Ok (step_state st Normal (Some (mk_tok k a (l_line st) (l_col st) [] None a)) a).
Proof.
  intros Est N45 N91 N39 N34 r a Hm Ha.
  rewrite pl_step, Est, (pt_matcher _ _ c r N45 N91 N39 N34), Hm, (is_nil_ne _ Ha), pl_nil. reflexivity.
Qed.

Lemma codes_step_some st ms t p : codes_of (step_state st ms (Some t) p) = codes_of st ++ tok_code t.
Proof.
  unfold codes_of, step_state. destruct (advance (l_line st, l_col st) p) as [l' c']. cbn [l_toks_rev rev].
  rewrite map_app, concat_app. cbn [map concat]. rewrite app_nil_r. reflexivity.
Qed.

(* ---------- the theorem *)
Definition lf_goal (s : list Z) (st st' : lexst) : Prop :=
  exists st'', pl st (s ++ [10]) = Ok st'' /\ l_state st'' = Normal /\ codes_of st'' = codes_of st' ++ [10].

Lemma pl_append_lf_step n :
  (forall s st st', (length s <= n)%nat -> state_lf (l_state st) -> state_q (l_state st) ->
                    pl st s = Ok st' -> l_state st' = Normal -> lf_goal s st st') ->
  forall s st st', (length s <= S n)%nat -> s <> [] -> (l_state st = Normal -> s <> [13]) ->
  state_lf (l_state st) -> state_q (l_state st) ->
  pl st s = Ok st' -> l_state st' = Normal -> lf_goal s st st'.
Proof.
  intros IH s st st' Hn N0 N13 Hl Hq H Hfin. rewrite pl_step in H.
  destruct (process_token (l_state st) (l_line st) (l_col st) s) as [[[[[ms ot] piece] rest]|]|e] eqn:E.
  - destruct (is_nil piece) eqn:Np; [rewrite (is_nil_ne _ N0) in H; discriminate|].
    assert (Hr : rest = [] -> ms = Normal).
    { intros ->. rewrite pl_nil in H. inversion H; subst st'. rewrite step_state_state in Hfin. exact Hfin. }
    pose proof (process_token_lf1 _ _ _ _ _ _ _ _ Hl Hq N0 N13 E Hr) as E2.
    unfold lf_goal. rewrite (pl_step st (s ++ [10])), E2, Np.
    apply (IH rest _ st').
    + apply process_token_split in E. apply is_nil_false in Np.
      assert (length s = (length piece + length rest)%nat) by (subst s; apply app_length). lia.
    + rewrite step_state_state. apply (process_token_lf _ _ _ _ _ _ _ _ Hl E).
    + rewrite step_state_state. apply (process_token_q _ _ _ _ _ _ _ _ Hq E).
    + exact H.
    + exact Hfin.
  - rewrite (is_nil_ne _ N0) in H. discriminate.
  - discriminate.
Qed.

Lemma pl_append_lf_n n : forall s st st', (length s <= n)%nat ->
  state_lf (l_state st) -> state_q (l_state st) ->
  pl st s = Ok st' -> l_state st' = Normal -> lf_goal s st st'.
Proof.
  induction n as [|n IH]; intros s st st' Hn Hl Hq H Hfin.
  - (* the end of the text: one new newline token *)
    destruct s as [|x s]; [|cbn in Hn; lia]. rewrite pl_nil in H. inversion H; subst st'.
    unfold lf_goal. cbn [app]. eexists. split; [|split].
    + apply (pl_one st 10 KNewline Hfin ltac:(lia) ltac:(lia) ltac:(lia) ltac:(lia) [] [10] fm_lf). discriminate.
    + apply step_state_state.
    + rewrite codes_step_some. reflexivity.
  - destruct s as [|x s0].
    { apply (IH [] st st'); [cbn; lia | assumption..]. }
    remember (x :: s0) as s eqn:Es. assert (N0 : s <> []) by (subst s; discriminate).
    assert (D : (l_state st = Normal /\ s = [13]) \/ (l_state st = Normal -> s <> [13])).
    { destruct (list_eq_dec Z.eq_dec s [13]) as [E13|N13]; [|right; intros _; exact N13].
      destruct (l_state st) eqn:Est; [left; split; [reflexivity | exact E13] | right; intros X; discriminate X ..]. }
    destruct D as [[Est E13]|N13].
    + (* the lone CR: the token [13] becomes the token [13;10] *)
      rewrite E13 in *. unfold lf_goal. cbn [app].
      rewrite (pl_one st 13 KNewline Est ltac:(lia) ltac:(lia) ltac:(lia) ltac:(lia) [] [13] fm_cr ltac:(discriminate)) in H.
      inversion H; subst st'.
      eexists. split; [|split].
      * apply (pl_one st 13 KNewline Est ltac:(lia) ltac:(lia) ltac:(lia) ltac:(lia) [10] [13; 10] fm_crlf). discriminate.
      * apply step_state_state.
      * rewrite !codes_step_some. cbn [tok_code t_kind t_data]. rewrite <- app_assoc. reflexivity.
    + apply (pl_append_lf_step n IH s st st'); assumption.
Qed.

(* Added hypothesis [state_q]: the delimiter of a string in progress is not CR.  (It is a quote: the
   only producer is the quote opener of the Normal branch.)  Without it the statement is false: in state
   [InString 13], the text "\\\r" closes the string (backslash CR is not an escape at the end of input),
   while "\\\r\n" is an escaped CR LF and leaves the string open. *)
Theorem pl_append_lf : forall s st st',
  state_lf (l_state st) -> state_q (l_state st) ->
  pl st s = Ok st' -> l_state st' = Normal ->
  exists st'', pl st (s ++ [10]) = Ok st'' /\ l_state st'' = Normal /\ codes_of st'' = codes_of st' ++ [10].
Proof. intros s st st' Hl Hq H Hfin. apply (pl_append_lf_n (length s) s st st' (Nat.le_refl _) Hl Hq H Hfin). Qed.
Print Assumptions pl_append_lf.

Example pl_append_lf_needs_state_q :
  let bad := mk_lexst (InString 13 [] 0 0 []) 0 0 [] in
  (match pl bad [92; 13] with Ok st => Some (l_state st) | Err _ => None end) = Some Normal /\
  (match pl bad [92; 13; 10] with Ok st => Some (l_state st) | Err _ => None end) = Some (InString 13 [10] 0 0 [10; 13; 92]).
Proof. vm_compute. split; reflexivity. Qed.

Corollary model_lex_append_lf : forall s ts, model_lex [s] = Ok ts ->
  exists ts', model_lex [s ++ [10]] = Ok ts' /\ concat (map tok_code ts') = concat (map tok_code ts) ++ [10].
Proof.
  intros s ts H. unfold model_lex in H |- *. rewrite process_chunks_one in H. rewrite process_chunks_one.
  destruct (pl init_lexst s) as [st'|e] eqn:P; [|discriminate].
  destruct (l_state st') eqn:Est; try discriminate. inversion H; subst ts.
  destruct (pl_append_lf s init_lexst st' I I P Est) as (st'' & P2 & Est2 & Hc).
  rewrite P2, Est2. eexists. split; [reflexivity|]. rewrite !rev'_eq. exact Hc.
Qed.
Print Assumptions model_lex_append_lf.
