(* Valid programs lie inside the writer domain, part 6: copy of the first half of Proofs/ParserComplete6.v
   (induction over the recursion levels) and the theorem: a token list with a derivation g in the reference grammar
   (derives, line_scoped, excl) whose derivation applies no call / index / field / method suffix to a parenthesised
   expression (g_no_paren_suffix) is parsed to its end into a tree inside the writer domain of C09_aligned
   (strict, no_if_do, no_paren_prefix); with plain_tokens - a fact about the lexer's tokens - that is `writable`. *)
From PV Require Import Base.Prelude Spec.LuaTokens Spec.LuaGrammar Model.Tokens Model.Parser Model.ParserInst
  Model.AstWriter Model.WriterDomain Proofs.ParserProofs Proofs.ParserSpecs Proofs.ParserTheorems Proofs.ParserComplete1 Proofs.ParserComplete2
  Proofs.ParserComplete5 Proofs.ValidDomain1 Proofs.ValidDomain3 Proofs.ValidDomain4 Proofs.ValidDomain5.
From PV Require Proofs.AstWriterDepth.
From Coq Require Import ZifyBool.
Ltac Zify.zify_post_hook ::= Z.to_euclidean_division_equations.

Section Levels.
Variable ts : list token.
Variable nts : bool.
Local Notation len := (zlen ts).

Lemma G_step k p : G ts (k + 1) p -> G' ts k p.
Proof. unfold G, G'. lia. Qed.

Lemma comp_bottom : comp ts nts (G ts 0) bottom.
Proof.
  assert (H0 : forall p, G ts 0 p -> False) by (unfold G; intros; lia).
  constructor; repeat intro; exfalso; eapply H0; eassumption.
Qed.

Lemma comp_step k R : comp ts nts (G ts k) R -> comp ts nts (G ts (k + 1)) (step ts lua_binops lua_unops R).
Proof.
  intros HR. pose proof (L_shortif ts nts R k HR) as HS.
  constructor; cbn [step r_exp r_chunk r_semis r_stats_loop r_namelist_loop r_funcname_loop r_explist_loop
                     r_varlist_loop r_fields_loop r_elseif_loop r_precur r_binop].
  - intros p mx n items s' HG. apply (L_exp ts nts R k HR). apply G_step, HG.
  - intros p mx HG. apply (L_exp_none ts R k). apply G_step, HG.
  - intros first p mx n items s' HG. apply (L_binop ts nts R k HR). apply G_step, HG.
  - intros p mx n g s' HG. apply (L_chunk ts nts R k HR HS). apply G_step, HG.
  - intros p mx l s' HG. apply (L_semis ts nts R k HR). apply G_step, HG.
  - intros p mx n l s' HG. apply (L_semis_stats ts nts R k HR). apply G_step, HG.
  - intros p mx n l s' HG. apply (L_stats ts nts R k HR HS). apply G_step, HG.
  - intros p mx l s' HG. apply (L_namelist_loop ts nts R k HR). apply G_step, HG.
  - intros p mx l s' HG. apply (L_funcname_loop ts nts R k HR). apply G_step, HG.
  - intros p mx n l s' HG. apply (L_explist_loop ts nts R k HR). apply G_step, HG.
  - intros p mx n l s' HG. apply (L_varlist_loop ts nts R k HR). apply G_step, HG.
  - intros p mx n l s' HG. apply (L_fields_loop ts nts R k HR). apply G_step, HG.
  - intros p mx n l s' HG. apply (L_elseif_loop ts nts R k HR). apply G_step, HG.
  - intros l first gfirst p mx s' HG. apply (L_precur ts nts R k HR). apply G_step, HG.
Qed.

Lemma comp_level n : comp ts nts (G ts (Z.of_nat n)) (level ts lua_binops lua_unops n).
Proof.
  induction n as [|n IH]; [exact comp_bottom|].
  replace (Z.of_nat (S n)) with (Z.of_nat n + 1) by lia. cbn [level]. apply comp_step, IH.
Qed.

Lemma sstream_0 : sstream ts 0 = sig_stream ts 0.
Proof. reflexivity. Qed.

Lemma parse_in_domain_gen g : derives ts g = true -> line_scoped ts g = true -> excl g = true ->
  g_no_paren_suffix g = true -> g_no_trailing_sep g || negb nts = true ->
  exists root e, lua_parse ts = Ok (root, e) /\ consumed ts e = true /\ denotes g (view root) = true /\
                 strict root = true /\ no_if_do ts root = true /\ no_paren_prefix root = true /\
                 (nts = true -> AstWriterDepth.no_trailing_sep root = true).
Proof.
  intros Hd Hls Hex Hgn Hgt. unfold derives in Hd. apply andb_true_iff in Hd. destruct Hd as [Hwf Hd].
  apply andb_true_iff in Hwf. destruct Hwf as [Hfl Hlv].
  pose proof (in_frag_of_excl g Hex Hfl) as Hfr. pose proof (tokdata_of_leaves_ok ts g Hlv) as Htd.
  destruct (g_chunk (2 * tsize g + 8) g (sig_stream ts 0)) as [[|? ?]|] eqn:Hg; try discriminate Hd.
  assert (HC : CTX ts nts g None).
  { split; [unfold gcond; rewrite Hfr, Hgn, Hgt; reflexivity|]. split; [exact Htd|]. split; [|intros; reflexivity].
    rewrite line_scoped_LS in Hls. rewrite forallb_forall in Hls. exact Hls. }
  pose proof (zlen_nonneg ts) as Hlen.
  destruct (c_chunk _ _ _ _ (comp_level (fuel_for ts)) 0 None _ g [] ltac:(unfold G, fuel_for, zlen; lia) Hg HC (follow_nil _ _))
    as (t & p' & E & Hl & Q1 & Q2 & Q3 & fs & ->).
  unfold lua_parse, parse, parse_with_fuel. rewrite E. cbn [is_none strip_paren fst].
  eexists _, _. split; [reflexivity|]. split.
  { unfold consumed. apply andb_true_iff. split; [apply andb_true_iff; split; lia|]. apply sstream_nil_trivia; [lia | exact Q1]. }
  split; [exact (den_old _ _ _ _ Q3)|].
  destruct (dom_writable _ _ _ (den_dom _ _ _ _ Q3)) as (A & B & C). split; [exact A|]. split; [exact B|]. split; [exact C|].
  intros Hn. exact (dom_nts _ _ _ Hn (den_dom _ _ _ _ Q3)).
Qed.

End Levels.

Section Top.
Variable ts : list token.

Lemma parse_in_domain g : derives ts g = true -> line_scoped ts g = true -> excl g = true ->
  g_no_paren_suffix g = true ->
  exists root e, lua_parse ts = Ok (root, e) /\ consumed ts e = true /\ denotes g (view root) = true /\
                 strict root = true /\ no_if_do ts root = true /\ no_paren_prefix root = true.
Proof.
  intros Hd Hls Hex Hgn. destruct (parse_in_domain_gen ts false g Hd Hls Hex Hgn (orb_true_r _)) as (root & e & H1 & H2 & H3 & H4 & H5 & H6 & _).
  exists root, e. repeat split; assumption.
Qed.

Lemma valid_in_domain g : derives ts g = true -> line_scoped ts g = true -> excl g = true ->
  g_no_paren_suffix g = true -> plain_tokens ts = true ->
  exists root e, lua_parse ts = Ok (root, e) /\ consumed ts e = true /\ writable ts root = true.
Proof.
  intros Hd Hls Hex Hgn Hpl. destruct (parse_in_domain g Hd Hls Hex Hgn) as (root & e & H1 & H2 & _ & H4 & H5 & H6).
  exists root, e. split; [exact H1|]. split; [exact H2|]. unfold writable. rewrite Hpl, H4, H5, H6. reflexivity.
Qed.

(* with the derivation free of trailing field separators the tree also satisfies no_trailing_sep, the exclusion of
   C10_indent / C10_output_form / C10_idempotent *)
Lemma valid_in_domain_nts g : derives ts g = true -> line_scoped ts g = true -> excl g = true ->
  g_no_paren_suffix g = true -> g_no_trailing_sep g = true -> plain_tokens ts = true ->
  exists root e, lua_parse ts = Ok (root, e) /\ consumed ts e = true /\ writable ts root = true /\
                 AstWriterDepth.no_trailing_sep root = true.
Proof.
  intros Hd Hls Hex Hgn Hgt Hpl.
  destruct (parse_in_domain_gen ts true g Hd Hls Hex Hgn ltac:(rewrite Hgt; reflexivity)) as (root & e & H1 & H2 & _ & H4 & H5 & H6 & H7).
  exists root, e. split; [exact H1|]. split; [exact H2|]. split; [unfold writable; rewrite Hpl, H4, H5, H6; reflexivity | exact (H7 eq_refl)].
Qed.

End Top.
