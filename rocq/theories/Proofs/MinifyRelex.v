(* The output of LuaMinifyTokenWriter (Model/TokWriters.v), read by the reference lexer
   (Spec/LuaLex.v), is the input token sequence up to the renaming: the lemmas behind C01 and C19.

   Part 1: TokString.code (re-spelling through the regenerated reverse-escape table) is read back
           to the same bytes, in every right context.
   Part 2: the writer over reference tokens, every chunk tagged with the token it must lex to;
           table side conditions of _FUSING_CHARS (a sweep over symbols x 256 bytes).
   Part 3: the tagged chunk sequence is a chain of reference-lexer steps (main induction).
   Part 4: what the tagged tokens are, relative to the input tokens (views, renaming, line groups,
           token count, header). *)
From PV Require Import Base.Prelude Base.PySlice Spec.LuaLex Instances.HoldsC02 Instances.HoldsC01 Proofs.LuaLexFacts.
From PV Require Import Generated.T_lexer Generated.T_luanames Generated.T_minifier Model.NameFactory Model.Lexer
  Model.TokWriters Proofs.NameFactoryProofs Proofs.TokWritersProofs.
From Coq Require Import ZifyBool Lia.

(* ---------- quoted strings: TokString.code is read back to the same bytes ---------- *)
Definition dig (d : Z) : Z := d - 48.

Definition entry_ok (c : Z) (e : list Z) : bool :=
  match e with
  | [x] => if is_digit x then dig x =? c
           else negb (x =? 120) && negb (x =? 10) && negb (x =? 13) &&
                match simple_escape x with Some v => v =? c | None => false end
  | [d1; d2] => is_digit d1 && is_digit d2 && (dig d1 * 10 + dig d2 =? c)
  | [d1; d2; d3] => is_digit d1 && is_digit d2 && is_digit d3 && (dig d1 * 100 + dig d2 * 10 + dig d3 =? c)
                    && (c <=? 255)
  | _ => false
  end.

Definition table_ok : bool :=
  forallb (fun kv => match fst kv with [c] => entry_ok c (snd kv) | _ => false end) string_reverse_escapes
  && forallb (fun d => match lookup_bytes string_reverse_escapes [d] with None => true | Some _ => false end)
             [48; 49; 50; 51; 52; 53; 54; 55; 56; 57; 34; 39]
  && forallb (fun d => match lookup_bytes string_reverse_escapes [d] with None => false | Some _ => true end) [10; 13; 92].

Lemma table_ok_now : table_ok = true.
Proof. vm_compute. reflexivity. Qed.

Lemma lookup_bytes_In m : forall k v, lookup_bytes m k = Some v -> In (k, v) m.
Proof.
  induction m as [|[k' v'] m IH]; intros k v H; [discriminate|]. cbn [lookup_bytes] in H.
  destruct (zlist_eqb k' k) eqn:E.
  - apply zlist_eqb_eq in E. subst k'. injection H as <-. left. reflexivity.
  - right. apply IH, H.
Qed.

Lemma lookup_entry_ok c e : lookup_bytes string_reverse_escapes [c] = Some e -> entry_ok c e = true.
Proof.
  intros H. apply lookup_bytes_In in H. pose proof table_ok_now as T. unfold table_ok in T.
  apply andb_true_iff in T. destruct T as [T _]. apply andb_true_iff in T. destruct T as [T _].
  rewrite forallb_forall in T. apply (T _ H).
Qed.

Lemma lookup_digit_none d : is_digit d = true -> lookup_bytes string_reverse_escapes [d] = None.
Proof.
  intros H. pose proof table_ok_now as T. unfold table_ok in T.
  apply andb_true_iff in T. destruct T as [T _]. apply andb_true_iff in T. destruct T as [_ T].
  rewrite forallb_forall in T. unfold is_digit in H.
  assert (Hin : In d [48; 49; 50; 51; 52; 53; 54; 55; 56; 57; 34; 39]).
  { assert (d = 48 \/ d = 49 \/ d = 50 \/ d = 51 \/ d = 52 \/ d = 53 \/ d = 54 \/ d = 55 \/ d = 56 \/ d = 57) by lia.
    cbn. intuition. }
  specialize (T d Hin). destruct (lookup_bytes string_reverse_escapes [d]); [discriminate | reflexivity].
Qed.

Lemma lookup_special_some c : (c = 10 \/ c = 13 \/ c = 92) -> lookup_bytes string_reverse_escapes [c] <> None.
Proof.
  intros H. pose proof table_ok_now as T. unfold table_ok in T. apply andb_true_iff in T. destruct T as [_ T].
  rewrite forallb_forall in T. assert (Hin : In c [10; 13; 92]) by (cbn; intuition).
  specialize (T c Hin). destruct (lookup_bytes string_reverse_escapes [c]); [discriminate | discriminate].
Qed.

Definition hd_digit (s : list Z) : bool := match s with d :: _ => is_digit d | [] => false end.

Lemma unescape_cons q c r :
  unescape_until q (c :: r) =
    if c =? q then Some ([], [c], r)
    else if is_eol c then None
    else if c =? 92 then
      match r with
      | [] => None
      | e :: r1 =>
        if is_digit e then
          match r1 with
          | e2 :: r2 =>
            if is_digit e2 then
              match r2 with
              | e3 :: r3 =>
                if is_digit e3 then
                  let v := (e - 48) * 100 + (e2 - 48) * 10 + (e3 - 48) in
                  if v <=? 255 then ucons [c; e; e2; e3] v (unescape_until q r3) else None
                else ucons [c; e; e2] ((e - 48) * 10 + (e2 - 48)) (unescape_until q r2)
              | [] => ucons [c; e; e2] ((e - 48) * 10 + (e2 - 48)) (unescape_until q r2)
              end
            else ucons [c; e] (e - 48) (unescape_until q r1)
          | [] => ucons [c; e] (e - 48) (unescape_until q r1)
          end
        else if e =? 120 then
          match r1 with
          | h1 :: h2 :: r3 =>
            if is_hex h1 && is_hex h2 then ucons [c; e; h1; h2] (digit_val h1 * 16 + digit_val h2) (unescape_until q r3) else None
          | _ => None
          end
        else if e =? 10 then
          match r1 with
          | e2 :: r2 => if e2 =? 13 then ucons [c; e; 13] 10 (unescape_until q r2)
                        else ucons [c; e] 10 (unescape_until q r1)
          | [] => ucons [c; e] 10 (unescape_until q r1)
          end
        else if e =? 13 then
          match r1 with
          | e2 :: r2 => if e2 =? 10 then ucons [c; e; 10] 10 (unescape_until q r2)
                        else ucons [c; e] 10 (unescape_until q r1)
          | [] => ucons [c; e] 10 (unescape_until q r1)
          end
        else
          match simple_escape e with
          | Some v => ucons [c; e] v (unescape_until q r1)
          | None => None
          end
      end
    else ucons [c] c (unescape_until q r).
Proof. reflexivity. Qed.

Section Reenc.
Variable q : Z.
Hypothesis Hq : q = 34 \/ q = 39.

Lemma q_facts : (92 =? q) = false /\ is_digit q = false /\ (q =? 120) = false /\ (q =? 10) = false /\ (q =? 13) = false
  /\ simple_escape q = Some q /\ is_eol q = false /\ (q =? 92) = false.
Proof. destruct Hq; subst q; repeat split; reflexivity. Qed.

Lemma un_simple x T v : is_digit x = false -> (x =? 120) = false -> (x =? 10) = false -> (x =? 13) = false ->
  simple_escape x = Some v -> unescape_until q (92 :: x :: T) = ucons [92; x] v (unescape_until q T).
Proof.
  intros H1 H2 H3 H4 H5. destruct q_facts as (Q1 & _). rewrite unescape_cons. rewrite Q1.
  change (is_eol 92) with false. change (92 =? 92) with true. cbv iota. rewrite H1, H2, H3, H4, H5. reflexivity.
Qed.

Lemma un_d1 x T : hd_digit T = false -> is_digit x = true ->
  unescape_until q (92 :: x :: T) = ucons [92; x] (dig x) (unescape_until q T).
Proof.
  intros HT H1. destruct q_facts as (Q1 & _). rewrite unescape_cons. rewrite Q1.
  change (is_eol 92) with false. change (92 =? 92) with true. cbv iota. rewrite H1.
  destruct T as [|e2 r2]; [reflexivity|]. cbn [hd_digit] in HT. rewrite HT. reflexivity.
Qed.

Lemma un_d2 x y T : hd_digit T = false -> is_digit x = true -> is_digit y = true ->
  unescape_until q (92 :: x :: y :: T) = ucons [92; x; y] (dig x * 10 + dig y) (unescape_until q T).
Proof.
  intros HT H1 H2. destruct q_facts as (Q1 & _). rewrite unescape_cons. rewrite Q1.
  change (is_eol 92) with false. change (92 =? 92) with true. cbv iota. rewrite H1, H2.
  destruct T as [|e3 r3]; [reflexivity|]. cbn [hd_digit] in HT. rewrite HT. reflexivity.
Qed.

Lemma un_d3 x y z T : is_digit x = true -> is_digit y = true -> is_digit z = true ->
  (dig x * 100 + dig y * 10 + dig z <=? 255) = true ->
  unescape_until q (92 :: x :: y :: z :: T) = ucons [92; x; y; z] (dig x * 100 + dig y * 10 + dig z) (unescape_until q T).
Proof.
  intros H1 H2 H3 Hv. destruct q_facts as (Q1 & _). rewrite unescape_cons. rewrite Q1.
  change (is_eol 92) with false. change (92 =? 92) with true. cbv iota. rewrite H1, H2, H3.
  unfold dig in Hv. cbv zeta. rewrite Hv. reflexivity.
Qed.

Lemma un_raw c T : (c =? q) = false -> is_eol c = false -> (c =? 92) = false ->
  unescape_until q (c :: T) = ucons [c] c (unescape_until q T).
Proof. intros H1 H2 H3. rewrite unescape_cons, H1, H2, H3. reflexivity. Qed.

Lemma escape_hd data rest : hd_digit (escape_bytes [q] data ++ q :: rest) = hd_digit data.
Proof.
  destruct q_facts as (_ & Q2 & _). destruct data as [|d r]; [exact Q2|]. cbn [escape_bytes hd_digit].
  destruct (lookup_bytes string_reverse_escapes [d]) as [e|] eqn:El.
  - cbn [app hd_digit]. destruct (is_digit d) eqn:Ed; [|reflexivity].
    rewrite (lookup_digit_none d Ed) in El. discriminate.
  - destruct (zlist_eqb [d] [q]) eqn:E.
    + apply zlist_eqb_eq in E. injection E as ->. cbn [app hd_digit]. rewrite Q2. reflexivity.
    + reflexivity.
Qed.

Lemma unescape_reencode : forall data rest,
  unescape_until q (escape_bytes [q] data ++ q :: rest) = Some (data, escape_bytes [q] data ++ [q], rest).
Proof.
  destruct q_facts as (Q1 & Q2 & Q3 & Q4 & Q5 & Q6 & Q7 & Q8).
  induction data as [|c r IH]; intros rest.
  - cbn [escape_bytes app]. rewrite unescape_cons, Z.eqb_refl. reflexivity.
  - pose proof (escape_hd r rest) as Hhd. specialize (IH rest). cbn [escape_bytes].
    set (T := escape_bytes [q] r ++ q :: rest) in *.
    destruct (lookup_bytes string_reverse_escapes [c]) as [e|] eqn:El.
    + pose proof (lookup_entry_ok c e El) as Hok.
      change (match r with d :: _ => m_digit d | [] => false end) with (hd_digit r).
      destruct e as [|x [|y [|z [|? ?]]]]; try discriminate Hok; cbn [entry_ok] in Hok.
      * destruct (is_digit x) eqn:Ex.
        -- apply Z.eqb_eq in Hok. change (all_digits [x]) with (is_digit x && true). rewrite Ex. cbn [andb].
           destruct (hd_digit r) eqn:Er.
           ++ change (rjust3 [x]) with [48; 48; x]. cbn [app]. fold T.
              rewrite un_d3; [|reflexivity | reflexivity | exact Ex |].
              ** replace (dig 48 * 100 + dig 48 * 10 + dig x) with c by (unfold dig in *; lia). rewrite IH. reflexivity.
              ** unfold dig, is_digit in *. lia.
           ++ cbn [app]. fold T. rewrite un_d1; [|exact Hhd | exact Ex].
              rewrite IH. cbn [ucons]. subst c. reflexivity.
        -- change (all_digits [x]) with (is_digit x && true). rewrite Ex. cbn [andb app]. fold T.
           apply andb_true_iff in Hok. destruct Hok as [Hok Hv]. apply andb_true_iff in Hok. destruct Hok as [Hok H13].
           apply andb_true_iff in Hok. destruct Hok as [H120 H10]. apply negb_true_iff in H120, H10, H13.
           destruct (simple_escape x) as [v|] eqn:Es; [|discriminate]. apply Z.eqb_eq in Hv. subst v.
           rewrite (un_simple x T c Ex H120 H10 H13 Es). rewrite IH. reflexivity.
      * apply andb_true_iff in Hok. destruct Hok as [Hok Hv]. apply andb_true_iff in Hok. destruct Hok as [Hx Hy].
        apply Z.eqb_eq in Hv. change (all_digits [x; y]) with (is_digit x && (is_digit y && true)). rewrite Hx, Hy. cbn [andb].
        destruct (hd_digit r) eqn:Er.
        -- change (rjust3 [x; y]) with [48; x; y]. cbn [app]. fold T.
           rewrite un_d3; [|reflexivity | exact Hx | exact Hy |].
           ++ replace (dig 48 * 100 + dig x * 10 + dig y) with c by (unfold dig in *; lia). rewrite IH. reflexivity.
           ++ unfold dig, is_digit in *. lia.
        -- cbn [app]. fold T. rewrite un_d2; [|exact Hhd | exact Hx | exact Hy].
           rewrite IH. cbn [ucons]. subst c. reflexivity.
      * apply andb_true_iff in Hok. destruct Hok as [Hok H255]. apply andb_true_iff in Hok. destruct Hok as [Hok Hv].
        apply andb_true_iff in Hok. destruct Hok as [Hok Hz]. apply andb_true_iff in Hok. destruct Hok as [Hx Hy].
        apply Z.eqb_eq in Hv.
        assert (He' : (if all_digits [x; y; z] && hd_digit r then rjust3 [x; y; z] else [x; y; z]) = [x; y; z]).
        { destruct (all_digits [x; y; z] && hd_digit r); reflexivity. }
        rewrite He'. cbn [app]. fold T.
        rewrite un_d3; [|exact Hx | exact Hy | exact Hz | rewrite Hv; exact H255].
        rewrite IH. cbn [ucons]. rewrite Hv. reflexivity.
    + destruct (zlist_eqb [c] [q]) eqn:E.
      * apply zlist_eqb_eq in E. injection E as ->. cbn [app]. fold T.
        rewrite (un_simple q T q Q2 Q3 Q4 Q5 Q6). rewrite IH. reflexivity.
      * cbn [app]. fold T. assert (Hcq : (c =? q) = false).
        { cbn [zlist_eqb] in E. rewrite andb_true_r in E. exact E. }
        assert (Hne : c <> 10 /\ c <> 13 /\ c <> 92).
        { repeat split; intros ->.
          - apply (lookup_special_some 10); [auto | exact El].
          - apply (lookup_special_some 13); [auto | exact El].
          - apply (lookup_special_some 92); [auto | exact El]. }
        rewrite un_raw; [|exact Hcq | unfold is_eol; lia | lia]. rewrite IH. reflexivity.
Qed.
End Reenc.
(* ---------- Part 2: the writer over reference tokens ---------- *)
Definition kind_of (k : skind) : tok_kind :=
  match k with
  | SSpace => KSpace | SNewline => KNewline | SComment => KComment | SString => KString | SNumber => KNumber
  | SName => KName | SLabel => KLabel | SKeyword => KKeyword | SSymbol => KSymbol
  end.

(* Token.code of the picotool token that corresponds to a reference token: the source text, except
   for a quoted string, which is re-spelled from the bytes it denotes *)
Definition spec_code (t : stok) : list Z :=
  match s_kind t with
  | SString => if s_long t <? 0 then reencode (firstn 1 (s_raw t)) (s_text t) else s_raw t
  | _ => s_raw t
  end.

Definition sk (t : stok) : mtok := (kind_of (s_kind t), spec_code t).

(* the reference token the written text of token s must be read as; o = the identifier written
   for a name / label *)
Definition out_tok (s : stok) (o : list Z) : stok :=
  match s_kind s with
  | SName => mk SName o o
  | SLabel => mk SLabel (58 :: 58 :: o ++ [58; 58]) o
  | SString => if s_long s <? 0 then mk_stok SString (spec_code s) (s_text s) 0 1 (-1) 0 0 else s
  | _ => s
  end.

Definition tchunk : Set := (list Z * stok)%type.
Definition nl_tok : stok := mk SNewline [10] [10].
Definition sp_tok : stok := mk SSpace [32] [32].
Definition tsp (b : bool) : list tchunk := if b then [([32], sp_tok)] else [].

Definition tstep (cfg : config) (st : wstate) (s : stok) : result (wstate * list tchunk) :=
  let k := kind_of (s_kind s) in
  let code := spec_code s in
  let seen := w_seen st || negb (is_trivia_kind k) in
  if negb seen && (w_hdr st <? 2) && is_comment_kind k then
    Ok (mk_wstate (w_hdr st + 1) seen (w_lnk st) (w_lnl st) (w_fac st), [(code, s); ([10], nl_tok)])
  else
    match k with
    | KComment | KSpace => Ok (mk_wstate (w_hdr st) seen (w_lnk st) (w_lnl st) (w_fac st), [])
    | KNewline =>
      Ok (mk_wstate (w_hdr st) seen false true (w_fac st), if w_lnl st then [] else [([10], nl_tok)])
    | KName =>
      '(fac, o) <- get_short_name cfg (w_fac st) code ;;
      Ok (mk_wstate (w_hdr st) seen true false fac, tsp (w_lnk st) ++ [(o, out_tok s o)])
    | KLabel =>
      '(fac, o) <- get_short_name cfg (w_fac st) (label_name code) ;;
      Ok (mk_wstate (w_hdr st) seen false false fac, [(58 :: 58 :: o ++ [58; 58], out_tok s o)])
    | KKeyword | KNumber =>
      Ok (mk_wstate (w_hdr st) seen true false (w_fac st), tsp (w_lnk st) ++ [(code, s)])
    | KString | KSymbol =>
      Ok (mk_wstate (w_hdr st) seen (is_infix code closers_src) false (w_fac st), [(code, out_tok s [])])
    end.

Fixpoint tchunks_from (cfg : config) (st : wstate) (ss : list stok) : result (list tchunk) :=
  match ss with
  | [] => Ok []
  | s :: r =>
    '(st', cs) <- tstep cfg st s ;;
    rest <- tchunks_from cfg st' r ;;
    Ok (cs ++ rest)
  end.

Fixpoint space_tagged (prev : list Z) (tcs : list tchunk) : list tchunk :=
  match tcs with
  | [] => []
  | (c, t) :: r => if fuses prev c then ([32], sp_tok) :: (c, t) :: space_tagged c r else (c, t) :: space_tagged c r
  end.

Lemma tstep_chunk_step cfg st s :
  chunk_step cfg st (sk s) = match tstep cfg st s with Ok (st', tcs) => Ok (st', map fst tcs) | Err e => Err e end.
Proof.
  unfold chunk_step, tstep, sk.
  destruct (negb (w_seen st || negb (is_trivia_kind (kind_of (s_kind s)))) && (w_hdr st <? 2) &&
            is_comment_kind (kind_of (s_kind s))); [reflexivity|].
  destruct (s_kind s); cbn [kind_of]; try reflexivity.
  - destruct (w_lnl st); reflexivity.
  - destruct (w_lnk st); reflexivity.
  - destruct (get_short_name cfg (w_fac st) (spec_code s)) as [[fac o]|e]; cbn [bind]; [|reflexivity].
    destruct (w_lnk st); reflexivity.
  - destruct (get_short_name cfg (w_fac st) (label_name (spec_code s))) as [[fac o]|e]; reflexivity.
  - destruct (w_lnk st); reflexivity.
Qed.

Lemma tchunks_chunks cfg : forall ss st,
  chunks_from cfg st (map sk ss) = match tchunks_from cfg st ss with Ok tcs => Ok (map fst tcs) | Err e => Err e end.
Proof.
  induction ss as [|s r IH]; intros st; [reflexivity|]. cbn [map chunks_from tchunks_from].
  rewrite tstep_chunk_step. destruct (tstep cfg st s) as [[st' tcs]|e]; cbn [bind]; [|reflexivity].
  rewrite IH. destruct (tchunks_from cfg st' r) as [rest|e]; cbn [bind]; [|reflexivity].
  rewrite map_app. reflexivity.
Qed.

Lemma space_tagged_chunks : forall tcs prev, map fst (space_tagged prev tcs) = space_chunks prev (map fst tcs).
Proof.
  induction tcs as [|[c t] r IH]; intros prev; [reflexivity|]. cbn [space_tagged map space_chunks fst].
  destruct (fuses prev c); cbn [map fst]; rewrite IH; reflexivity.
Qed.

(* ---------- side conditions on the regenerated _FUSING_CHARS, recomputed on every run ---------- *)
Lemma fuses_hd prev c r : fuses prev (c :: r) = fuses prev [c].
Proof. destruct prev; reflexivity. Qed.

Lemma fusing_get_all (P : list Z -> bool) k : forall m,
  forallb (fun kv => P (snd kv)) m = true -> P [] = true -> P (fusing_get k m) = true.
Proof.
  induction m as [|[k' v] m IH]; intros H H0; [exact H0|]. cbn [forallb snd] in H. apply andb_true_iff in H.
  destruct H as [Hv Hm]. cbn [fusing_get]. destruct (k' =? k); [exact Hv | apply IH; assumption].
Qed.

Definition never_after (c : Z) : bool := forallb (fun kv => negb (existsb (Z.eqb c) (snd kv))) fusing_chars.

Lemma never_after_10_32 : never_after 10 = true /\ never_after 32 = true.
Proof. split; vm_compute; reflexivity. Qed.

Lemma fuses_never c r prev : never_after c = true -> c <> 46 -> fuses prev (c :: r) = false.
Proof.
  intros Hn Hc. destruct prev as [|p prev]; [reflexivity|]. cbn [fuses].
  destruct (c =? 46) eqn:E; [apply Z.eqb_eq in E; contradiction|]. cbn [andb].
  apply negb_true_iff. apply (fusing_get_all (fun v => negb (existsb (Z.eqb c) v))); [exact Hn | reflexivity].
Qed.

Lemma fuses_nl prev r : fuses prev (10 :: r) = false.
Proof. apply fuses_never; [apply never_after_10_32 | discriminate]. Qed.
Lemma fuses_sp prev r : fuses prev (32 :: r) = false.
Proof. apply fuses_never; [apply never_after_10_32 | discriminate]. Qed.

Lemma no_key_10_32 : fusing_get 10 fusing_chars = [] /\ fusing_get 32 fusing_chars = [].
Proof. split; vm_compute; reflexivity. Qed.

Lemma fuses_after_nl c : fuses [10] c = false.
Proof.
  destruct c as [|c r]; [reflexivity|]. cbn [fuses last]. change (starts_number [10]) with false. rewrite andb_false_r.
  rewrite (proj1 no_key_10_32). reflexivity.
Qed.
Lemma fuses_after_sp c : fuses [32] c = false.
Proof.
  destruct c as [|c r]; [reflexivity|]. cbn [fuses last]. change (starts_number [32]) with false. rewrite andb_false_r.
  rewrite (proj2 no_key_10_32). reflexivity.
Qed.
Lemma fuses_start c : fuses [] c = false.
Proof. reflexivity. Qed.

(* the sweep: for every symbol x of the set and every byte c, either the writer puts a space
   between x and a chunk starting with c, or c does not disturb the reading of x *)
Definition sym_fuse_ok : bool :=
  forallb (fun x => forallb (fun c => fuses x [c] || sym_safe x c) (upto 256)) spec_symbols.

Lemma sym_fuse_ok_now : sym_fuse_ok = true.
Proof. vm_compute. reflexivity. Qed.

Lemma sym_fuse_safe x c r : In x spec_symbols -> 0 <= c < 256 -> fuses x (c :: r) = false -> sym_safe x c = true.
Proof.
  intros Hx Hc Hf. rewrite fuses_hd in Hf. pose proof sym_fuse_ok_now as H. unfold sym_fuse_ok in H.
  rewrite forallb_forall in H. specialize (H x Hx). pose proof (sweep_upto _ _ H c Hc) as Hs. cbv beta in Hs.
  rewrite Hf in Hs. exact Hs.
Qed.

(* first bytes of the symbols *)
Definition sym_head_ok (x : list Z) : bool :=
  match x with
  | h :: _ => (0 <=? h) && (h <? 256) && negb (is_name_char h) && ((h =? 46) || negb (numch h)) && negb (is_blank h)
  | [] => false
  end.
Lemma sym_heads_ok_now : forallb sym_head_ok spec_symbols = true.
Proof. vm_compute. reflexivity. Qed.

Lemma sym_head x : In x spec_symbols ->
  exists h r, x = h :: r /\ 0 <= h < 256 /\ is_name_char h = false /\ (h = 46 \/ numch h = false) /\ is_blank h = false.
Proof.
  intros Hx. pose proof sym_heads_ok_now as H. rewrite forallb_forall in H. specialize (H x Hx).
  destruct x as [|h r]; [discriminate|]. exists h, r. cbn [sym_head_ok] in H.
  apply andb_true_iff in H. destruct H as [H H5]. apply andb_true_iff in H. destruct H as [H H4].
  apply andb_true_iff in H. destruct H as [H H3]. apply andb_true_iff in H. destruct H as [H1 H2].
  apply negb_true_iff in H3, H5. split; [reflexivity|]. split; [lia|]. split; [exact H3|]. split; [|exact H5].
  apply orb_true_iff in H4. destruct H4 as [H4|H4]; [left; lia | right; apply negb_true_iff, H4].
Qed.

Lemma fuses_number_dot prev r : starts_number prev = true -> fuses prev (46 :: r) = true.
Proof. intros H. destruct prev as [|p prev]; [discriminate|]. cbn [fuses]. rewrite H. reflexivity. Qed.

(* ---------- identifiers written by the name factory ---------- *)
Lemma keywords_sub : forallb (fun k => in_names k lua_keywords) spec_keywords = true.
Proof. vm_compute. reflexivity. Qed.

Lemma qmark_preserved : in_names [63] preserved_names = true.
Proof. vm_compute. reflexivity. Qed.

(* the regenerated lexer tables are the sets of the reference grammar (a symbol or keyword added to
   or removed from lexer.py breaks this cone too, not only C07's) *)
Lemma tables_are_reference_sets :
  forallb (fun x => mem_bytes x spec_symbols) symbols && forallb (fun x => mem_bytes x symbols) spec_symbols &&
  forallb (fun k => mem_bytes k spec_keywords) lua_keywords && forallb (fun k => mem_bytes k lua_keywords) spec_keywords = true.
Proof. vm_compute. reflexivity. Qed.

Lemma mem_bytes_In x l : mem_bytes x l = true <-> In x l.
Proof.
  unfold mem_bytes. rewrite existsb_exists. split.
  - intros (y & Hy & E). apply zlist_eqb_eq in E. subst y. exact Hy.
  - intros H. exists x. split; [exact H | apply zlist_eqb_eq; reflexivity].
Qed.

Definition generated (o : list Z) : Prop :=
  exists id, 0 <= id /\ name_for_id id = Ok o /\ in_names o preserved_names = false.

Lemma ident_start_name_start c : ident_start c = true -> is_name_start c = true.
Proof. unfold ident_start, is_name_start, is_alpha. lia. Qed.

Lemma generated_name o : generated o -> is_name o = true /\ mem_bytes o spec_keywords = false.
Proof.
  intros (id & Hid & Hn & Hp). destruct (name_for_id_identifier id o Hid Hn) as (Hne & Hall). split.
  - destruct o as [|c r]; [congruence|]. inversion Hall as [|? ? Hc Hr]; subst. cbn [is_name].
    rewrite (ident_start_name_start c Hc). cbn [andb]. apply forallb_forall. intros x Hx.
    rewrite Forall_forall in Hr. apply name_start_char, ident_start_name_start, Hr, Hx.
  - destruct (mem_bytes o spec_keywords) eqn:E; [|reflexivity]. exfalso.
    apply mem_bytes_In in E. pose proof keywords_sub as K. rewrite forallb_forall in K. specialize (K o E).
    apply in_names_In in K. apply in_names_false in Hp. apply Hp. apply preserved_spec. left. exact K.
Qed.

Lemma get_short_name_out cfg st n st' o : inv cfg st -> get_short_name cfg st n = Ok (st', o) ->
  inv cfg st' /\ (o = n \/ generated o).
Proof.
  intros Hinv H. destruct (get_short_name_spec _ _ _ _ _ H Hinv) as (Hinv' & _ & Hans & _). split; [exact Hinv'|].
  unfold answer in Hans. destruct (kept cfg n); [injection Hans as <-; left; reflexivity|]. right.
  destruct (inv_vals _ _ Hinv' _ _ Hans) as (_ & id & Hid & Hn & Hp & _). exists id. split; [lia|]. split; assumption.
Qed.

Lemma get_short_name_preserved cfg st n : in_names n preserved_names = true -> get_short_name cfg st n = Ok (st, n).
Proof. intros H. unfold get_short_name. destruct (keep_all cfg); [reflexivity|]. rewrite H. reflexivity. Qed.
(* ---------- Part 3: the tagged chunks are a chain of reference-lexer steps ---------- *)
Definition shaped (s : stok) : Prop := exists src rest, step_shape src s rest.

(* what the last written chunk demands from the text that follows it *)
Inductive pkind : Type := PStart | PWord | PNum | PSym (x : list Z) | PSelf | PComment.

Definition right_ok (pk : pkind) (R : list Z) : Prop :=
  match pk with
  | PStart | PSelf => True
  | PWord => stops is_name_char R
  | PNum => num_stops false R
  | PSym x => match R with [] => True | c :: _ => sym_safe x c = true end
  | PComment => exists R0, R = 10 :: R0
  end.

Definition prev_ok (pk : pkind) (prev : list Z) (st : wstate) : Prop :=
  match pk with
  | PStart => prev = [] \/ prev = [10]
  | PWord => w_lnk st = true /\ w_lnl st = false
  | PNum => w_lnk st = true /\ w_lnl st = false /\ starts_number prev = true
  | PSym x => prev = x /\ In x spec_symbols /\ w_lnl st = false
  | PSelf => w_lnl st = false
  | PComment => False
  end.

Lemma spec_number_kind s t r : spec_number s = Some (t, r) -> s_kind t = SNumber.
Proof.
  unfold spec_number. destruct (num_split _) as [run r0]. destruct (spec_numeral run) as [[n d]|]; [|discriminate].
  intros [= <- <-]. reflexivity.
Qed.

Lemma spec_symbol_kind s t r : spec_symbol s = Some (t, r) -> s_kind t = SSymbol.
Proof. intros H. destruct (spec_symbol_inv _ _ _ H) as (x & _ & -> & _). reflexivity. Qed.

Lemma right_ok_ws pk prev st c R : prev_ok pk prev st -> (c = 10 \/ c = 32) -> right_ok pk (c :: R).
Proof.
  intros Hp Hc. destruct pk; cbn [right_ok stops num_stops]; try exact I; try contradiction.
  - destruct Hc; subst c; reflexivity.
  - destruct Hc; subst c; split; reflexivity.
  - destruct Hp as (-> & Hx & _). eapply sym_fuse_safe with (r := []); [exact Hx | destruct Hc; subst c; lia|].
    destruct Hc; subst c; [apply fuses_nl | apply fuses_sp].
Qed.

Lemma step_nl R : spec_step (10 :: R) = Some (nl_tok, R).
Proof. reflexivity. Qed.

Lemma step_sp c R : is_blank c = false -> spec_step (32 :: c :: R) = Some (sp_tok, c :: R).
Proof. intros H. unfold spec_step. cbn -[span]. cbn [span]. change (is_blank 32) with true. cbv iota. rewrite H. reflexivity. Qed.

(* ---------- what spec_step tells about a token of each kind, and its unit lemma ---------- *)
Lemma shaped_keyword s : shaped s -> s_kind s = SKeyword ->
  is_name (s_raw s) = true /\ forall R, stops is_name_char R -> spec_step (s_raw s ++ R) = Some (s, R).
Proof.
  intros (src & rest & H) K. destruct H; try discriminate K.
  - apply spec_number_kind in H0. congruence.
  - destruct (word_shape _ _ _ _ H H0) as (Hn & _). destruct (mem_bytes a spec_keywords) eqn:E; [|discriminate K].
    cbn [s_raw mk]. split; [exact Hn|]. intros R HR. rewrite (spec_step_word a R Hn HR), E. reflexivity.
  - apply spec_symbol_kind in H. congruence.
Qed.

Lemma shaped_name s : shaped s -> s_kind s = SName ->
  s = mk SName [63] [63] \/
  (is_name (s_raw s) = true /\ mem_bytes (s_raw s) spec_keywords = false /\ s = mk SName (s_raw s) (s_raw s)).
Proof.
  intros (src & rest & H) K. destruct H; try discriminate K.
  - apply spec_number_kind in H0. congruence.
  - destruct (word_shape _ _ _ _ H H0) as (Hn & _). destruct (mem_bytes a spec_keywords) eqn:E; [discriminate K|].
    right. cbn [s_raw mk]. auto.
  - left. reflexivity.
  - apply spec_symbol_kind in H. congruence.
Qed.

Lemma name_unit o : is_name o = true -> mem_bytes o spec_keywords = false ->
  forall R, stops is_name_char R -> spec_step (o ++ R) = Some (mk SName o o, R).
Proof. intros Hn Hk R HR. rewrite (spec_step_word o R Hn HR), Hk. reflexivity. Qed.

Lemma shaped_number s : shaped s -> s_kind s = SNumber ->
  starts_number (s_raw s) = true /\ forall R, num_stops false R -> spec_step (s_raw s ++ R) = Some (s, R).
Proof.
  intros (src & rest & H) K. destruct H; try discriminate K.
  - destruct (spec_number_ctx _ _ _ H0) as (run & Hr & Hne & Hs & Hctx). rewrite Hr. split.
    + change (starts_number run) with (num_start run). rewrite <- Hr. eapply spec_number_start; eassumption.
    + intros R HR. apply Hctx; assumption.
  - destruct (mem_bytes a spec_keywords); discriminate K.
  - apply spec_symbol_kind in H. congruence.
Qed.

Lemma shaped_symbol s : shaped s -> s_kind s = SSymbol -> In (s_raw s) spec_symbols /\ s = mk SSymbol (s_raw s) (s_raw s).
Proof.
  intros (src & rest & H) K. destruct H; try discriminate K.
  - apply spec_number_kind in H0. congruence.
  - destruct (mem_bytes a spec_keywords); discriminate K.
  - destruct (spec_symbol_inv _ _ _ H) as (x & Hx & -> & _). cbn [s_raw mk]. auto.
Qed.

Lemma shaped_label s : shaped s -> s_kind s = SLabel ->
  exists n, is_name n = true /\ s = mk SLabel (58 :: 58 :: n ++ [58; 58]) n.
Proof.
  intros (src & rest & H) K. destruct H; try discriminate K.
  - apply spec_number_kind in H0. congruence.
  - destruct (mem_bytes a spec_keywords); discriminate K.
  - exists (n0 :: a). split; [|reflexivity]. cbn [is_name]. rewrite H0. cbn [andb].
    apply span_all in H. cbn [forallb] in H. apply andb_true_iff in H. apply H.
  - apply spec_symbol_kind in H. congruence.
Qed.

Lemma shaped_comment s : shaped s -> s_kind s = SComment ->
  forall R, spec_step (s_raw s ++ 10 :: R) = Some (s, 10 :: R).
Proof. intros (src & rest & H) K. eapply comment_ctx; eassumption. Qed.

Lemma shaped_string s : shaped s -> s_kind s = SString ->
  (exists h r, spec_code s = h :: r /\ (h = 34 \/ h = 39 \/ h = 91)) /\
  forall R, spec_step (spec_code s ++ R) = Some (out_tok s [], R).
Proof.
  intros (src & rest & H) K. destruct H; try discriminate K.
  - (* long bracket *)
    destruct (long_open_spec _ _ _ _ H) as (k & Hk & _). cbn in Hk.
    assert (Hl : (lvl <? 0) = false) by lia.
    unfold spec_code, out_tok. cbn [s_kind s_long s_raw]. rewrite Hl. split.
    + eexists. eexists. split; [reflexivity | auto].
    + intros R. eapply long_string_ctx; eassumption.
  - (* quoted *)
    unfold spec_code, out_tok. cbn [s_kind s_long s_raw s_text firstn]. change (-1 <? 0) with true. cbv iota.
    unfold reencode. split.
    + exists q. eexists. split; [reflexivity | tauto].
    + intros R. cbn [app]. rewrite <- !app_assoc. cbn [app].
      pose proof (unescape_reencode q H v R) as Hu.
      destruct H; subst q; unfold spec_step; cbn -[unescape_until escape_bytes]; rewrite Hu; reflexivity.
  - apply spec_number_kind in H0. congruence.
  - destruct (mem_bytes a spec_keywords); discriminate K.
  - apply spec_symbol_kind in H. congruence.
Qed.

Lemma label_name_code n : label_name (58 :: 58 :: n ++ [58; 58]) = n.
Proof.
  unfold label_name, py_slice, norm_idx, zlen. cbn [length]. rewrite app_length. cbn [length].
  replace (2 <? 0) with false by reflexivity. replace (-2 <? 0) with true by reflexivity.
  set (L := Z.of_nat (S (S (length n + 2)))). assert (HL : L = Z.of_nat (length n) + 4) by (unfold L; lia).
  replace (Z.to_nat (Z.min 2 L)) with 2%nat by lia.
  replace (Z.to_nat (Z.max 0 (L + -2) - Z.min 2 L)) with (length n) by lia.
  cbn [skipn]. rewrite firstn_app, Nat.sub_diag, firstn_all. cbn [firstn]. apply app_nil_r.
Qed.

Lemma name_head n : is_name n = true -> exists h r, n = h :: r /\ 0 <= h < 256 /\ is_blank h = false /\ is_name_start h = true.
Proof.
  destruct n as [|h r]; [discriminate|]. cbn [is_name]. intros H. apply andb_true_iff in H. destruct H as [H _].
  exists h, r. split; [reflexivity|]. unfold is_name_start, is_alpha, is_blank in *. repeat split; lia.
Qed.

Lemma number_head p : starts_number p = true -> exists h r, p = h :: r /\ 0 <= h < 256 /\ is_blank h = false.
Proof.
  destruct p as [|h r]; [discriminate|]. cbn [starts_number]. intros H. exists h, r. split; [reflexivity|].
  unfold ascii_digit, is_blank in *. destruct ((48 <=? h) && (h <=? 57)) eqn:E; [split; lia|].
  cbn [orb] in H. apply andb_true_iff in H. destruct H as [H _]. split; lia.
Qed.

Definition txt (F : list tchunk) : list Z := concat (map fst F).
Definition tks (F : list tchunk) : list stok := map snd F.

Lemma txt_app A B : txt (A ++ B) = txt A ++ txt B.
Proof. unfold txt. rewrite map_app, concat_app. reflexivity. Qed.
Lemma tks_app A B : tks (A ++ B) = tks A ++ tks B.
Proof. unfold tks. apply map_app. Qed.

Lemma right_ok_nil pk prev st : prev_ok pk prev st -> right_ok pk [].
Proof. destruct pk; try (intros _; exact I). intros []. Qed.

(* one chunk, with the space to_lines may put before it *)
Lemma emit prev pk st c t' pk' R' toks' h r :
  prev_ok pk prev st -> c = h :: r -> 0 <= h < 256 -> is_blank h = false ->
  (match pk with PWord | PNum => False | _ => True end \/ (is_name_char h = false /\ (h = 46 \/ numch h = false))) ->
  (forall R, right_ok pk' R -> spec_step (c ++ R) = Some (t', R)) ->
  right_ok pk' R' -> chain R' toks' ->
  let F := if fuses prev c then [([32], sp_tok); (c, t')] else [(c, t')] in
  right_ok pk (txt F ++ R') /\ chain (txt F ++ R') (tks F ++ toks').
Proof.
  intros Hp Hc Hh Hb Hcls Hu HR' Hch. cbv zeta. destruct (fuses prev c) eqn:Ef.
  - unfold txt, tks. cbn [map fst snd concat app]. rewrite app_nil_r. cbn [app]. split.
    + eapply right_ok_ws; [exact Hp | right; reflexivity].
    + econstructor; [|econstructor; [apply Hu, HR' | exact Hch]]. subst c. cbn [app]. apply step_sp, Hb.
  - unfold txt, tks. cbn [map fst snd concat app]. rewrite app_nil_r. split.
    + subst c. cbn [app]. destruct pk; cbn [right_ok stops num_stops]; try exact I; try contradiction.
      * destruct Hcls as [[]|[H1 _]]. exact H1.
      * destruct Hcls as [[]|[_ H2]]. destruct Hp as (_ & _ & Hs). destruct H2 as [->|H2].
        -- rewrite (fuses_number_dot prev r Hs) in Ef. discriminate.
        -- split; [exact H2 | reflexivity].
      * destruct Hp as (-> & Hx & _). eapply sym_fuse_safe; eassumption.
    + econstructor; [apply Hu, HR' | exact Hch].
Qed.

(* one chunk after the space the writer itself puts between two words *)
Lemma emit_sp prev pk st c t' pk' R' toks' h r :
  prev_ok pk prev st -> c = h :: r -> is_blank h = false ->
  (forall R, right_ok pk' R -> spec_step (c ++ R) = Some (t', R)) ->
  right_ok pk' R' -> chain R' toks' ->
  let F := [([32], sp_tok); (c, t')] in
  right_ok pk (txt F ++ R') /\ chain (txt F ++ R') (tks F ++ toks').
Proof.
  intros Hp Hc Hb Hu HR' Hch. cbv zeta. unfold txt, tks. cbn [map fst snd concat app]. rewrite app_nil_r. cbn [app]. split.
  - eapply right_ok_ws; [exact Hp | right; reflexivity].
  - econstructor; [|econstructor; [apply Hu, HR' | exact Hch]]. subst c. cbn [app]. apply step_sp, Hb.
Qed.

Lemma space_tagged_one prev c t rest :
  space_tagged prev ((c, t) :: rest) = (if fuses prev c then [([32], sp_tok); (c, t)] else [(c, t)]) ++ space_tagged c rest.
Proof. cbn [space_tagged]. destruct (fuses prev c); reflexivity. Qed.

Lemma space_tagged_sp prev c t rest :
  space_tagged prev (([32], sp_tok) :: (c, t) :: rest) = [([32], sp_tok); (c, t)] ++ space_tagged c rest.
Proof. cbn [space_tagged]. rewrite fuses_sp, fuses_after_sp. reflexivity. Qed.

Lemma comment_head s : shaped s -> s_kind s = SComment -> exists h r, s_raw s = h :: r /\ (h = 45 \/ h = 47).
Proof.
  intros (src & rest & H) K. destruct H; try discriminate K.
  - eexists. eexists. split; [reflexivity | auto].
  - pose proof (span_split _ _ _ _ H0) as E. assert (Hne : a <> []) by (eapply span_head; [|exact H0]; reflexivity).
    cbn [s_raw mk]. destruct a as [|h r]; [congruence|]. injection E as <- _. eexists. eexists. split; [reflexivity | auto].
  - pose proof (span_split _ _ _ _ H) as E. assert (Hne : a <> []) by (eapply span_head; [|exact H]; reflexivity).
    cbn [s_raw mk]. destruct a as [|h r]; [congruence|]. injection E as <- _. eexists. eexists. split; [reflexivity | auto].
  - apply spec_number_kind in H0. congruence.
  - destruct (mem_bytes a spec_keywords); discriminate K.
  - apply spec_symbol_kind in H. congruence.
Qed.

Lemma prev_ok_state pk prev st st' : prev_ok pk prev st -> w_lnk st' = w_lnk st -> w_lnl st' = w_lnl st ->
  prev_ok pk prev st'.
Proof. intros H E1 E2. destruct pk; cbn [prev_ok] in *; rewrite ?E1, ?E2; exact H. Qed.

Lemma chain_nl R toks : chain R toks -> chain (10 :: R) (nl_tok :: toks).
Proof. intros H. econstructor; [apply step_nl | exact H]. Qed.

(* [tail] = what follows the written chunks (nothing, or the line break the .p8 writer supplies) *)
Lemma relex_from_tail cfg tail ttoks :
  (forall pk prev st, prev_ok pk prev st -> right_ok pk tail) -> chain tail ttoks ->
  forall ss st prev pk tcs,
  Forall shaped ss -> inv cfg (w_fac st) -> tchunks_from cfg st ss = Ok tcs -> prev_ok pk prev st ->
  right_ok pk (txt (space_tagged prev tcs) ++ tail) /\
  chain (txt (space_tagged prev tcs) ++ tail) (tks (space_tagged prev tcs) ++ ttoks).
Proof.
  intros Htail Hctail. induction ss as [|s r IH]; intros st prev pk tcs Hsh Hinv Ht Hp.
  - injection Ht as <-. split; [eapply Htail, Hp | exact Hctail].
  - inversion Hsh as [|? ? Hs Hr]; subst. cbn [tchunks_from] in Ht.
    destruct (tstep cfg st s) as [[st' cs]|e] eqn:Et; cbn [bind] in Ht; [|discriminate].
    destruct (tchunks_from cfg st' r) as [rest|e] eqn:Er; cbn [bind] in Ht; [|discriminate].
    injection Ht as <-. unfold tstep in Et.
    destruct (negb (w_seen st || negb (is_trivia_kind (kind_of (s_kind s)))) && (w_hdr st <? 2) &&
              is_comment_kind (kind_of (s_kind s))) eqn:Eh.
    + (* a header comment and its line break *)
      injection Et as <- <-.
      assert (K : s_kind s = SComment).
      { apply andb_true_iff in Eh. destruct Eh as [_ Eh]. destruct (s_kind s); try discriminate Eh; reflexivity. }
      assert (Hcode : spec_code s = s_raw s) by (unfold spec_code; rewrite K; reflexivity).
      rewrite Hcode in *. destruct (comment_head s Hs K) as (h & r0 & Hraw & Hh).
      match type of Er with tchunks_from _ ?st1 _ = _ =>
        destruct (IH st1 [10] PStart rest Hr Hinv Er (or_intror eq_refl)) as (HR & HC) end.
      cbn [app]. rewrite space_tagged_one. cbn [space_tagged]. rewrite fuses_nl.
      change (([10], nl_tok) :: space_tagged [10] rest) with ([([10], nl_tok)] ++ space_tagged [10] rest).
      rewrite !txt_app, !tks_app, <- !app_assoc. change (txt [([10], nl_tok)]) with [10]. change (tks [([10], nl_tok)]) with [nl_tok].
      eapply (emit prev pk st (s_raw s) s PComment); try eassumption.
      * destruct Hh; subst h; lia.
      * destruct Hh; subst h; reflexivity.
      * right. destruct Hh; subst h; split; try reflexivity; right; reflexivity.
      * intros R (R0 & ->). apply shaped_comment; assumption.
      * eexists. reflexivity.
      * cbn [app]. apply chain_nl, HC.
    + destruct (s_kind s) eqn:K; cbn [kind_of] in Et.
      * (* space *) injection Et as <- <-. cbn [app]. match type of Er with tchunks_from _ ?st1 _ = _ => eapply (IH st1 prev pk rest Hr Hinv Er) end. eapply prev_ok_state; [exact Hp | reflexivity | reflexivity].
      * (* newline *) injection Et as <- <-. destruct (w_lnl st) eqn:El.
        -- cbn [app]. assert (pk = PStart) as ->.
           { destruct pk; cbn [prev_ok] in Hp; rewrite ?El in Hp.
             - reflexivity.
             - destruct Hp as [_ H]; discriminate.
             - destruct Hp as (_ & H & _); discriminate.
             - destruct Hp as (_ & _ & H); discriminate.
             - discriminate.
             - contradiction. }
           match type of Er with tchunks_from _ ?st1 _ = _ => eapply (IH st1 prev PStart rest Hr Hinv Er) end. exact Hp.
        -- match type of Er with tchunks_from _ ?st1 _ = _ =>
             destruct (IH st1 [10] PStart rest Hr Hinv Er (or_intror eq_refl)) as (HR & HC) end.
           cbn [app space_tagged]. rewrite fuses_nl.
           change (([10], nl_tok) :: space_tagged [10] rest) with ([([10], nl_tok)] ++ space_tagged [10] rest).
           rewrite txt_app, tks_app, <- !app_assoc. change (txt [([10], nl_tok)]) with [10].
           change (tks [([10], nl_tok)]) with [nl_tok]. cbn [app]. split.
           ++ eapply right_ok_ws; [exact Hp | left; reflexivity].
           ++ apply chain_nl, HC.
      * (* a later comment *) injection Et as <- <-. cbn [app]. match type of Er with tchunks_from _ ?st1 _ = _ => eapply (IH st1 prev pk rest Hr Hinv Er) end. eapply prev_ok_state; [exact Hp | reflexivity | reflexivity].
      * (* string *) injection Et as <- <-. destruct (shaped_string s Hs K) as ((h & r0 & Hc & Hh) & Hu).
        match type of Er with tchunks_from _ ?st1 _ = _ =>
          destruct (IH st1 (spec_code s) PSelf rest Hr Hinv Er eq_refl) as (HR & HC) end.
        cbn [app]. rewrite space_tagged_one, txt_app, tks_app, <- !app_assoc.
        eapply (emit prev pk st (spec_code s) (out_tok s []) PSelf); try eassumption.
        -- destruct Hh as [->|[->| ->]]; lia.
        -- destruct Hh as [->|[->| ->]]; reflexivity.
        -- right. destruct Hh as [->|[->| ->]]; split; try reflexivity; right; reflexivity.
        -- intros R _. apply Hu.
      * (* number *) injection Et as <- <-. destruct (shaped_number s Hs K) as (Hst & Hu).
        assert (Hcode : spec_code s = s_raw s) by (unfold spec_code; rewrite K; reflexivity). rewrite Hcode in *.
        destruct (number_head _ Hst) as (h & r0 & Hc & Hh & Hb).
        match type of Er with tchunks_from _ ?st1 _ = _ =>
          destruct (IH st1 (s_raw s) PNum rest Hr Hinv Er (conj eq_refl (conj eq_refl Hst))) as (HR & HC) end.
        destruct (w_lnk st) eqn:Elnk; cbn [tsp app].
        -- rewrite space_tagged_sp, txt_app, tks_app, <- !app_assoc. eapply (emit_sp prev pk st (s_raw s) s PNum); eassumption.
        -- rewrite space_tagged_one, txt_app, tks_app, <- !app_assoc. eapply (emit prev pk st (s_raw s) s PNum); try eassumption.
           left. destruct pk; cbn [prev_ok] in Hp; try exact I; rewrite Elnk in Hp; destruct Hp; discriminate.
      * (* name *)
        assert (Hcode : spec_code s = s_raw s) by (unfold spec_code; rewrite K; reflexivity). rewrite Hcode in *.
        destruct (get_short_name cfg (w_fac st) (s_raw s)) as [[fac o]|e] eqn:Eg; cbn [bind] in Et; [|discriminate].
        injection Et as <- <-. destruct (get_short_name_out _ _ _ _ _ Hinv Eg) as (Hinv' & Ho).
        destruct (shaped_name s Hs K) as [Hq | (Hn & Hk & Hsn)].
        -- (* ? *) subst s. cbn [s_raw mk] in *. rewrite (get_short_name_preserved cfg (w_fac st) [63] qmark_preserved) in Eg.
           injection Eg as <- <-. cbn [out_tok s_kind mk].
           match type of Er with tchunks_from _ ?st1 _ = _ =>
             destruct (IH st1 [63] PSelf rest Hr Hinv Er eq_refl) as (HR & HC) end.
           destruct (w_lnk st) eqn:Elnk; cbn [tsp app].
           ++ rewrite space_tagged_sp, txt_app, tks_app, <- !app_assoc.
              eapply (emit_sp prev pk st [63] (mk SName [63] [63]) PSelf); try eassumption; try reflexivity.
           ++ rewrite space_tagged_one, txt_app, tks_app, <- !app_assoc.
              eapply (emit prev pk st [63] (mk SName [63] [63]) PSelf _ _ 63 []); try eassumption; try reflexivity; try lia.
              left. destruct pk; cbn [prev_ok] in Hp; try exact I; rewrite Elnk in Hp; destruct Hp; discriminate.
        -- assert (Hon : is_name o = true /\ mem_bytes o spec_keywords = false).
           { destruct Ho as [->|Hg]; [split; assumption | apply generated_name, Hg]. }
           destruct Hon as (Hon & Hok). destruct (name_head o Hon) as (h & r0 & Hc & Hh & Hb & _).
           assert (Hot : out_tok s o = mk SName o o) by (unfold out_tok; rewrite K; reflexivity). rewrite Hot.
           match type of Er with tchunks_from _ ?st1 _ = _ =>
             destruct (IH st1 o PWord rest Hr Hinv' Er (conj eq_refl eq_refl)) as (HR & HC) end.
           destruct (w_lnk st) eqn:Elnk; cbn [tsp app].
           ++ rewrite space_tagged_sp, txt_app, tks_app, <- !app_assoc.
              eapply (emit_sp prev pk st o (mk SName o o) PWord); try eassumption. apply name_unit; assumption.
           ++ rewrite space_tagged_one, txt_app, tks_app, <- !app_assoc.
              eapply (emit prev pk st o (mk SName o o) PWord); try eassumption.
              ** left. destruct pk; cbn [prev_ok] in Hp; try exact I; rewrite Elnk in Hp; destruct Hp; discriminate.
              ** apply name_unit; assumption.
      * (* label *)
        assert (Hcode : spec_code s = s_raw s) by (unfold spec_code; rewrite K; reflexivity). rewrite Hcode in *.
        destruct (shaped_label s Hs K) as (n & Hn & Hsn).
        assert (Hraw : s_raw s = 58 :: 58 :: n ++ [58; 58]) by (rewrite Hsn; reflexivity).
        rewrite Hraw, label_name_code in Et.
        destruct (get_short_name cfg (w_fac st) n) as [[fac o]|e] eqn:Eg; cbn [bind] in Et; [|discriminate].
        injection Et as <- <-. destruct (get_short_name_out _ _ _ _ _ Hinv Eg) as (Hinv' & Ho).
        assert (Hon : is_name o = true).
        { destruct Ho as [->|Hg]; [exact Hn | apply generated_name, Hg]. }
        assert (Hot : out_tok s o = mk SLabel (58 :: 58 :: o ++ [58; 58]) o) by (unfold out_tok; rewrite K; reflexivity).
        rewrite Hot.
        match type of Er with tchunks_from _ ?st1 _ = _ =>
          destruct (IH st1 (58 :: 58 :: o ++ [58; 58]) PSelf rest Hr Hinv' Er eq_refl) as (HR & HC) end.
        cbn [app]. rewrite space_tagged_one, txt_app, tks_app, <- !app_assoc.
        eapply (emit prev pk st (58 :: 58 :: o ++ [58; 58]) _ PSelf _ _ 58); try eassumption; try reflexivity; try lia.
        -- right. split; [reflexivity | right; reflexivity].
        -- intros R _. change ((58 :: 58 :: o ++ [58; 58]) ++ R) with (58 :: 58 :: (o ++ [58; 58]) ++ R).
           rewrite <- app_assoc. apply spec_step_label, Hon.
      * (* keyword *) injection Et as <- <-. destruct (shaped_keyword s Hs K) as (Hn & Hu).
        assert (Hcode : spec_code s = s_raw s) by (unfold spec_code; rewrite K; reflexivity). rewrite Hcode in *.
        destruct (name_head _ Hn) as (h & r0 & Hc & Hh & Hb & _).
        match type of Er with tchunks_from _ ?st1 _ = _ =>
          destruct (IH st1 (s_raw s) PWord rest Hr Hinv Er (conj eq_refl eq_refl)) as (HR & HC) end.
        destruct (w_lnk st) eqn:Elnk; cbn [tsp app].
        -- rewrite space_tagged_sp, txt_app, tks_app, <- !app_assoc. eapply (emit_sp prev pk st (s_raw s) s PWord); eassumption.
        -- rewrite space_tagged_one, txt_app, tks_app, <- !app_assoc. eapply (emit prev pk st (s_raw s) s PWord); try eassumption.
           left. destruct pk; cbn [prev_ok] in Hp; try exact I; rewrite Elnk in Hp; destruct Hp; discriminate.
      * (* symbol *) injection Et as <- <-. destruct (shaped_symbol s Hs K) as (Hx & Hsx).
        assert (Hcode : spec_code s = s_raw s) by (unfold spec_code; rewrite K; reflexivity). rewrite Hcode in *.
        destruct (sym_head _ Hx) as (h & r0 & Hc & Hh & Hnc & Hnum & Hb).
        assert (Hot : out_tok s [] = s) by (unfold out_tok; rewrite K; reflexivity). rewrite Hot.
        match type of Er with tchunks_from _ ?st1 _ = _ =>
          destruct (IH st1 (s_raw s) (PSym (s_raw s)) rest Hr Hinv Er (conj eq_refl (conj Hx eq_refl))) as (HR & HC) end.
        cbn [app]. rewrite space_tagged_one, txt_app, tks_app, <- !app_assoc.
        eapply (emit prev pk st (s_raw s) s (PSym (s_raw s))); try eassumption.
        -- right. split; assumption.
        -- intros R HRr. rewrite Hsx at 2. destruct R as [|c R]; [rewrite app_nil_r; apply spec_step_symbol_end, Hx|].
           apply spec_step_symbol; assumption.
Qed.

Lemma relex_from cfg : forall ss st prev pk tcs,
  Forall shaped ss -> inv cfg (w_fac st) -> tchunks_from cfg st ss = Ok tcs -> prev_ok pk prev st ->
  right_ok pk (txt (space_tagged prev tcs)) /\ chain (txt (space_tagged prev tcs)) (tks (space_tagged prev tcs)).
Proof.
  intros ss st prev pk tcs Hsh Hinv Ht Hp.
  destruct (relex_from_tail cfg [] [] (fun pk prev st H => right_ok_nil pk prev st H) chain_nil ss st prev pk tcs Hsh Hinv Ht Hp) as (H1 & H2).
  rewrite !app_nil_r in *. auto.
Qed.

(* the same with a final line break behind the chunks *)
Lemma relex_from_nl cfg : forall ss st prev pk tcs,
  Forall shaped ss -> inv cfg (w_fac st) -> tchunks_from cfg st ss = Ok tcs -> prev_ok pk prev st ->
  chain (txt (space_tagged prev tcs) ++ [10]) (tks (space_tagged prev tcs) ++ [nl_tok]).
Proof.
  intros ss st prev pk tcs Hsh Hinv Ht Hp.
  refine (proj2 (relex_from_tail cfg [10] [nl_tok] _ _ ss st prev pk tcs Hsh Hinv Ht Hp)).
  - intros pk' prev' st' H. eapply right_ok_ws; [exact H | left; reflexivity].
  - apply chain_nl, chain_nil.
Qed.

