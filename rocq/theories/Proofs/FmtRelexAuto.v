(* A byte-level automaton for white-space / comment text ("trivia text"), and the proof that the
   formatter pipeline of Model/FmtSpaces.v does not change what the automaton sees.

   The automaton reads a text that consists of blanks, line ends and comments only (a run of TokSpace /
   TokNewline / TokComment tokens, joined) and reports the comments it met, each as its bytes outside
   white space, in order, plus whether the text ends inside an end-of-line comment.  Its states follow the
   reference lexical grammar (Spec/LuaLex.v): `--` / `//` open an end-of-line comment, `--[[` a block
   comment closed by the first `]]`, `--[=*[` with at least one `=` is outside the dialect (failure).
   Tab = blank, carriage return = line feed for the automaton.

   Every substitution of the pipeline is *neutral*: replacing the matched text by the replacement does
   not change the result of the automaton, in every state (for the anchored patterns: in the initial
   state).  Hence [fmt_run_arun]: the formatted run has the same comments, in order, with the same bytes
   outside white space, no end-of-line comment swallows what follows it, none is cut short.

   Also here: what the formatted run begins with ([fmt_hd]: unless the run is the first thing in the file,
   it still begins with white space if it did, and it is empty only at the end of the file). *)
From PV Require Import Base.Prelude Model.FmtSpaces Proofs.FmtSpacesProofs Proofs.FmtLinesProofs.
From Coq Require Import Lia.

(* ====================================================================== the automaton *)
Inductive ast : Type :=
| AN                       (* between tokens *)
| AD1                      (* after one `-` *)
| AS1                      (* after one `/` *)
| AC2 (a : list Z)         (* after `--` *)
| AC3 (a : list Z)         (* after `--[` *)
| AC3e (a : list Z)        (* after `--[=`, `--[==`, ... *)
| AL (a : list Z)          (* inside an end-of-line comment *)
| AB (a : list Z)          (* inside a block comment *)
| AB1 (a : list Z)         (* inside a block comment, the last byte was `]` *)
| AFail.
(* a = the bytes of the comment read so far that are not white space *)

(* what the automaton has reported so far: the completed comments, and whether a line end was met outside a block
   comment (such a line end is a newline token: the one that ends an end-of-line comment included) *)
Definition aout : Type := (list (list Z) * bool)%type.
Definition emitc (O : aout) (a : list Z) : aout := (fst O ++ [a], snd O).
Definition emitn (O : aout) : aout := (fst O, true).

Definition acfg : Type := (aout * ast)%type.

Definition blankb (c : Z) : bool := (c =? 32) || (c =? 9).
Definition eolb (c : Z) : bool := (c =? 10) || (c =? 13).

(* a byte inside something that is (so far) an end-of-line comment *)
Definition lstep (V : aout) (a : list Z) (c : Z) (other : ast) : acfg :=
  if eolb c then (emitn (emitc V a), AN) else if blankb c then (V, AL a) else (V, other).

Definition delta (cf : acfg) (c : Z) : acfg :=
  let '(V, st) := cf in
  match st with
  | AN => if eolb c then (emitn V, AN) else if blankb c then (V, AN)
          else if c =? 45 then (V, AD1) else if c =? 47 then (V, AS1) else (V, AFail)
  | AD1 => if c =? 45 then (V, AC2 [45; 45]) else (V, AFail)
  | AS1 => if c =? 47 then (V, AL [47; 47]) else (V, AFail)
  | AC2 a => lstep V a c (if c =? 91 then AC3 (a ++ [c]) else AL (a ++ [c]))
  | AC3 a => lstep V a c (if c =? 91 then AB (a ++ [c]) else if c =? 61 then AC3e (a ++ [c]) else AL (a ++ [c]))
  | AC3e a => lstep V a c (if c =? 91 then AFail else if c =? 61 then AC3e (a ++ [c]) else AL (a ++ [c]))
  | AL a => lstep V a c (AL (a ++ [c]))
  | AB a => if eolb c || blankb c then (V, AB a) else if c =? 93 then (V, AB1 (a ++ [c])) else (V, AB (a ++ [c]))
  | AB1 a => if eolb c || blankb c then (V, AB a) else if c =? 93 then (emitc V (a ++ [c]), AN) else (V, AB (a ++ [c]))
  | AFail => (V, AFail)
  end.

Inductive aend : Set := EN | EL.

Definition afinal (cf : acfg) : option (aout * aend) :=
  match snd cf with
  | AN => Some (fst cf, EN)
  | AC2 a | AC3 a | AC3e a | AL a => Some (emitc (fst cf) a, EL)
  | _ => None
  end.

Definition afold (s : list Z) (cf : acfg) : acfg := fold_left delta s cf.
Definition arun (cf : acfg) (s : list Z) : option (aout * aend) := afinal (afold s cf).

Lemma afold_app a b cf : afold (a ++ b) cf = afold b (afold a cf).
Proof. apply fold_left_app. Qed.

Lemma arun_app a b cf : arun cf (a ++ b) = arun (afold a cf) b.
Proof. unfold arun. rewrite afold_app. reflexivity. Qed.

Lemma arun_cons c s cf : arun cf (c :: s) = arun (delta cf c) s.
Proof. reflexivity. Qed.

Lemma afold_fail V s : afold s (V, AFail) = (V, AFail).
Proof. induction s as [|c r IH]; [reflexivity|]. exact IH. Qed.

Lemma arun_fail V s : arun (V, AFail) s = None.
Proof. unfold arun. rewrite afold_fail. reflexivity. Qed.

(* ---------- the elementary facts about single bytes ---------- *)
Lemma d_tab cf : delta cf 9 = delta cf 32.
Proof. destruct cf as [V []]; reflexivity. Qed.
Lemma d_cr cf : delta cf 13 = delta cf 10.
Proof. destruct cf as [V []]; reflexivity. Qed.
Lemma d_sp_nl cf : delta (delta cf 32) 10 = delta cf 10.
Proof. destruct cf as [V []]; reflexivity. Qed.
Lemma d_nl_sp cf : delta (delta cf 10) 32 = delta cf 10.
Proof. destruct cf as [V []]; reflexivity. Qed.
Lemma d_nl_nl cf : delta (delta cf 10) 10 = delta cf 10.
Proof. destruct cf as [V []]; reflexivity. Qed.
Lemma d_sp_final cf : afinal (delta cf 32) = afinal cf.
Proof. destruct cf as [V []]; reflexivity. Qed.
Lemma d_N_sp V : delta (V, AN) 32 = (V, AN).
Proof. reflexivity. Qed.

Lemma afold_sp_nl n cf : afold (repeat 32 n ++ [10]) cf = delta cf 10.
Proof.
  revert cf. induction n as [|n IH]; intros cf; [reflexivity|]. cbn [repeat app]. unfold afold in *. cbn [fold_left].
  rewrite IH. apply d_sp_nl.
Qed.

Lemma afold_nl_sp n cf : afold (repeat 32 n) (delta cf 10) = delta cf 10.
Proof.
  induction n as [|n IH]; [reflexivity|]. unfold afold in *. cbn [repeat fold_left]. rewrite d_nl_sp. exact IH.
Qed.

Lemma afold_nl_nls n cf : afold (repeat 10 n) (delta cf 10) = delta cf 10.
Proof.
  induction n as [|n IH]; [reflexivity|]. unfold afold in *. cbn [repeat fold_left]. rewrite d_nl_nl. exact IH.
Qed.

Lemma afold_N_sp n V : afold (repeat 32 n) (V, AN) = (V, AN).
Proof. induction n as [|n IH]; [reflexivity|]. exact IH. Qed.

Lemma afinal_sp n cf : afinal (afold (repeat 32 n) cf) = afinal cf.
Proof.
  revert cf. induction n as [|n IH]; intros cf; [reflexivity|]. unfold afold in *. cbn [repeat fold_left].
  rewrite IH. apply d_sp_final.
Qed.

(* a text of blanks and line feeds that holds a line feed acts as one line feed *)
Lemma afold_spnl s : forallb is_sp_nl s = true -> existsb is_nl s = true -> forall cf, afold s cf = delta cf 10.
Proof.
  induction s as [|c r IH]; intros Ha He cf; [discriminate|].
  cbn [forallb] in Ha. apply andb_true_iff in Ha. destruct Ha as [Hc Hr].
  unfold afold in *. cbn [fold_left].
  destruct (existsb is_nl r) eqn:Er.
  - rewrite (IH Hr eq_refl). unfold is_sp_nl in Hc. apply orb_true_iff in Hc.
    destruct Hc as [Hc|Hc]; apply Z.eqb_eq in Hc; subst c; [apply d_sp_nl | apply d_nl_nl].
  - cbn [existsb] in He. rewrite Er, orb_false_r in He. unfold is_nl in He. apply Z.eqb_eq in He. subst c.
    assert (Hsp : forallb is_sp r = true) by (apply all_spnl_no_nl; assumption).
    assert (E : r = repeat 32 (length r)).
    { clear -Hsp. induction r as [|x r IH]; [reflexivity|]. cbn [forallb] in Hsp. apply andb_true_iff in Hsp.
      destruct Hsp as [Hx Hr]. unfold is_sp in Hx. apply Z.eqb_eq in Hx. subst x. cbn [length repeat]. f_equal. apply IH, Hr. }
    rewrite E. apply afold_nl_sp.
Qed.

Lemma all_sp_repeat32 l : forallb is_sp l = true -> l = repeat 32 (length l).
Proof.
  induction l as [|x r IH]; [reflexivity|]. cbn [forallb]. intros H. apply andb_true_iff in H.
  destruct H as [Hx Hr]. unfold is_sp in Hx. apply Z.eqb_eq in Hx. subst x. cbn [length repeat]. f_equal. apply IH, Hr.
Qed.

Lemma all_nl_repeat10 l : forallb is_nl l = true -> l = repeat 10 (length l).
Proof.
  induction l as [|x r IH]; [reflexivity|]. cbn [forallb]. intros H. apply andb_true_iff in H.
  destruct H as [Hx Hr]. unfold is_nl in Hx. apply Z.eqb_eq in Hx. subst x. cbn [length repeat]. f_equal. apply IH, Hr.
Qed.

(* span_p in the shape used below *)
Lemma span_sp_shape r n t : span_p is_sp r = (n, t) -> r = repeat 32 n ++ t.
Proof.
  intros E. destruct (span_p_spec _ _ _ _ E) as (H1 & H2 & H3 & _).
  rewrite H1 at 1. f_equal. rewrite (all_sp_repeat32 _ H2), H3. reflexivity.
Qed.

Lemma span_nl_shape r n t : span_p is_nl r = (n, t) -> r = repeat 10 n ++ t.
Proof.
  intros E. destruct (span_p_spec _ _ _ _ E) as (H1 & H2 & H3 & _).
  rewrite H1 at 1. f_equal. rewrite (all_nl_repeat10 _ H2), H3. reflexivity.
Qed.

Lemma skipn_repeat_app {A} (x : A) n t : skipn n (repeat x n ++ t) = t.
Proof. induction n as [|n IH]; [reflexivity|]. exact IH. Qed.

Lemma skipn_repeat_plus {A} (x : A) n j t : skipn (n + j) (repeat x n ++ t) = skipn j t.
Proof. induction n as [|n IH]; [reflexivity|]. exact IH. Qed.

(* ====================================================================== neutral matchers *)
Definition neutral (m : matcher) : Prop :=
  forall s rep k, m s = Some (rep, k) ->
    (k <= length s)%nat /\ forall cf, arun cf (rep ++ skipn k s) = arun cf s.

Lemma resub_arun m : neutral m -> forall s skip cf, arun cf (resub m skip s) = arun cf (skipn skip s).
Proof.
  intros Hm. induction s as [|c r IH]; intros skip cf.
  - destruct skip; reflexivity.
  - cbn [resub]. destruct skip as [|k]; [|cbn [skipn]; apply IH].
    cbn [skipn]. destruct (m (c :: r)) as [[rep [|k]]|] eqn:E.
    + rewrite !arun_cons, IH. reflexivity.
    + destruct (Hm _ _ _ E) as [_ Hn]. rewrite arun_app, IH, <- arun_app. exact (Hn cf).
    + rewrite !arun_cons, IH. reflexivity.
Qed.

Lemma neutral_byte_tab : neutral (m_byte TAB SP).
Proof.
  intros s rep k H. unfold m_byte in H. destruct s as [|c r]; [discriminate|].
  destruct (c =? TAB) eqn:E; [|discriminate]. injection H as <- <-. apply Z.eqb_eq in E. subst c.
  split; [cbn; lia|]. intros cf. cbn [app skipn]. rewrite !arun_cons. change TAB with 9. change SP with 32.
  rewrite d_tab. reflexivity.
Qed.

Lemma neutral_byte_cr : neutral (m_byte CR NL).
Proof.
  intros s rep k H. unfold m_byte in H. destruct s as [|c r]; [discriminate|].
  destruct (c =? CR) eqn:E; [|discriminate]. injection H as <- <-. apply Z.eqb_eq in E. subst c.
  split; [cbn; lia|]. intros cf. cbn [app skipn]. rewrite !arun_cons. change CR with 13. change NL with 10.
  rewrite d_cr. reflexivity.
Qed.

Lemma neutral_pair_crnl : neutral (m_pair CR NL NL).
Proof.
  intros s rep k H. unfold m_pair in H. destruct s as [|c [|d t]]; try discriminate.
  destruct ((c =? CR) && (d =? NL)) eqn:E; [|discriminate]. injection H as <- <-.
  apply andb_true_iff in E. destruct E as [E1 E2]. apply Z.eqb_eq in E1, E2. subst c d.
  split; [cbn; lia|]. intros cf. cbn [app skipn]. rewrite !arun_cons. change CR with 13. change NL with 10.
  rewrite d_cr, d_nl_nl. reflexivity.
Qed.

Lemma neutral_pair_nlcr : neutral (m_pair NL CR NL).
Proof.
  intros s rep k H. unfold m_pair in H. destruct s as [|c [|d t]]; try discriminate.
  destruct ((c =? NL) && (d =? CR)) eqn:E; [|discriminate]. injection H as <- <-.
  apply andb_true_iff in E. destruct E as [E1 E2]. apply Z.eqb_eq in E1, E2. subst c d.
  split; [cbn; lia|]. intros cf. cbn [app skipn]. rewrite !arun_cons. change CR with 13. change NL with 10.
  rewrite d_cr, d_nl_nl. reflexivity.
Qed.

Lemma neutral_sp1_nl : neutral m_sp1_nl.
Proof.
  intros s rep k H. unfold m_sp1_nl in H. destruct s as [|c r]; [discriminate|].
  destruct (c =? SP) eqn:Ec; [|discriminate].
  destruct (span_p is_sp r) as [n t] eqn:E. destruct t as [|d t']; [discriminate|].
  destruct (d =? NL) eqn:Ed; [|discriminate]. injection H as <- <-.
  apply Z.eqb_eq in Ec, Ed. subst c d.
  pose proof (span_len _ _ _ _ E) as HL. cbn [length] in HL.
  split; [cbn [length]; lia|]. intros cf.
  rewrite (span_sp_shape _ _ _ E). change SP with 32. change NL with 10.
  change (32 :: repeat 32 n ++ 10 :: t') with (repeat 32 (S n) ++ 10 :: t').
  replace (S (S n)) with (S n + 1)%nat by lia. rewrite skipn_repeat_plus. cbn [skipn app].
  change (repeat 32 (S n) ++ 10 :: t') with (repeat 32 (S n) ++ [10] ++ t'). rewrite app_assoc.
  rewrite (arun_app (repeat 32 (S n) ++ [10])), afold_sp_nl. reflexivity.
Qed.

Lemma neutral_nl_sp_xx x n0 : neutral (m_nl_sp_xx x (repeat SP n0)).
Proof.
  intros s rep k H. unfold m_nl_sp_xx in H. destruct s as [|c r]; [discriminate|].
  destruct (c =? NL) eqn:Ec; [|discriminate].
  destruct (span_p is_sp r) as [n t] eqn:E. destruct t as [|a [|b t']]; try discriminate.
  destruct ((a =? x) && (b =? x)) eqn:Ex; [|discriminate]. injection H as <- <-.
  apply andb_true_iff in Ex. destruct Ex as [E1 E2]. apply Z.eqb_eq in Ec, E1, E2. subst c a b.
  pose proof (span_len _ _ _ _ E) as HL. cbn [length] in HL.
  split; [cbn [length]; lia|]. intros cf.
  rewrite (span_sp_shape _ _ _ E). change SP with 32. change NL with 10.
  rewrite skipn_cons. replace (S (S n)) with (n + 2)%nat by lia. rewrite skipn_repeat_plus. cbn [skipn].
  cbn [app]. rewrite !arun_cons. rewrite <- !app_assoc. rewrite !arun_app, !afold_nl_sp. reflexivity.
Qed.

Lemma neutral_nl_sp_end n0 : neutral (m_nl_sp_end (repeat SP n0)).
Proof.
  intros s rep k H. unfold m_nl_sp_end in H. destruct s as [|c r]; [discriminate|].
  destruct (c =? NL) eqn:Ec; [|discriminate].
  destruct (span_p is_sp r) as [n t] eqn:E. destruct t as [|a t']; [|discriminate].
  injection H as <- <-. apply Z.eqb_eq in Ec. subst c.
  pose proof (span_len _ _ _ _ E) as HL. cbn [length] in HL.
  split; [cbn [length]; lia|]. intros cf.
  rewrite (span_sp_shape _ _ _ E). change SP with 32. change NL with 10. rewrite app_nil_r.
  rewrite skipn_cons. rewrite skipn_all2 by (rewrite repeat_length; lia). rewrite app_nil_r.
  cbn [app]. rewrite !arun_cons. unfold arun. rewrite !afold_nl_sp. reflexivity.
Qed.

Lemma neutral_nl_nl1 : neutral (m_nl_nl1 [NL; NL]).
Proof.
  intros s rep k H. unfold m_nl_nl1 in H. destruct s as [|c r]; [discriminate|].
  destruct (c =? NL) eqn:Ec; [|discriminate].
  destruct (span_p is_nl r) as [n t] eqn:E. destruct n as [|n]; [discriminate|].
  injection H as <- <-. apply Z.eqb_eq in Ec. subst c.
  pose proof (span_len _ _ _ _ E) as HL.
  split; [cbn [length]; lia|]. intros cf.
  rewrite (span_nl_shape _ _ _ E). change NL with 10.
  rewrite skipn_cons. rewrite skipn_repeat_app.
  cbn [app]. rewrite !arun_cons. rewrite d_nl_nl. change (10 :: repeat 10 n ++ t) with (repeat 10 (S n) ++ t).
  rewrite arun_app, afold_nl_nls. reflexivity.
Qed.

Lemma neutral_spnl_nl_end : neutral m_spnl_nl_end.
Proof.
  intros s rep k H. unfold m_spnl_nl_end in H. destruct s as [|c r]; [discriminate|].
  destruct (is_sp_nl c) eqn:Ec; [|discriminate].
  destruct (span_p is_sp_nl (c :: r)) as [n t] eqn:E. destruct t; [|discriminate].
  destruct (existsb is_nl (c :: r)) eqn:Ex; [|discriminate].
  injection H as <- <-.
  pose proof (span_len _ _ _ _ E) as HL. cbn [length] in HL. rewrite Nat.add_0_r in HL.
  split; [cbn [length]; lia|]. intros cf.
  destruct (span_p_spec _ _ _ _ E) as (H1 & H2 & _ & _). rewrite app_nil_r in H1. rewrite <- H1 in H2.
  rewrite skipn_all2 by (cbn [length]; lia). cbn [app].
  unfold arun. rewrite (afold_spnl (c :: r) H2 Ex). reflexivity.
Qed.

Lemma neutral_sp1_end : neutral m_sp1_end.
Proof.
  intros s rep k H. unfold m_sp1_end in H. destruct s as [|c r]; [discriminate|].
  destruct (c =? SP) eqn:Ec; [|discriminate].
  destruct (span_p is_sp (c :: r)) as [n t] eqn:E. destruct t; [|discriminate].
  injection H as <- <-.
  pose proof (span_len _ _ _ _ E) as HL. cbn [length] in HL. rewrite Nat.add_0_r in HL.
  split; [cbn [length]; lia|]. intros cf.
  rewrite skipn_all2 by (cbn [length]; lia). cbn [app].
  rewrite (span_sp_shape _ _ _ E), app_nil_r. unfold arun. rewrite afinal_sp. reflexivity.
Qed.

(* ---------- the anchored patterns, in the initial state ---------- *)
Lemma sub_head_sp_xx_arun x j s V :
  arun (V, AN) (sub_head_sp_xx x (repeat 32 j ++ [x; x]) s) = arun (V, AN) s.
Proof.
  unfold sub_head_sp_xx. destruct (span_p is_sp s) as [n t] eqn:E.
  destruct t as [|a [|b t']]; try reflexivity.
  destruct ((a =? x) && (b =? x)) eqn:Ex; [|reflexivity].
  apply andb_true_iff in Ex. destruct Ex as [E1 E2]. apply Z.eqb_eq in E1, E2. subst a b.
  rewrite (span_sp_shape _ _ _ E). rewrite <- app_assoc. rewrite !arun_app, !afold_N_sp. reflexivity.
Qed.

Lemma sub_head_sp_dollar_arun s V : arun (V, AN) (sub_head_sp_dollar s) = arun (V, AN) s.
Proof.
  unfold sub_head_sp_dollar. destruct (span_p is_sp s) as [n t] eqn:E.
  destruct t as [|c [|d t']]; try reflexivity.
  - rewrite (span_sp_shape _ _ _ E), app_nil_r. unfold arun. rewrite afold_N_sp. reflexivity.
  - destruct (c =? NL) eqn:Ec; [|reflexivity]. apply Z.eqb_eq in Ec. subst c.
    rewrite (span_sp_shape _ _ _ E). rewrite arun_app, afold_N_sp. reflexivity.
Qed.

(* ====================================================================== the pipeline *)
Theorem fmt_run_arun cfg r V : arun (V, AN) (fmt_run cfg r) = arun (V, AN) r.
Proof.
  rewrite fmt_run_eq. unfold fmt_run_unfolded, indent_bytes.
  change [SP; SP; DASH; DASH] with (repeat 32 2 ++ [DASH; DASH]).
  change [DASH; DASH] with (repeat 32 0 ++ [DASH; DASH]).
  change [SLASH; SLASH] with (repeat 32 0 ++ [SLASH; SLASH]).
  repeat match goal with
  | |- context [if ?b then _ else _] => destruct b
  end;
  repeat first
    [ rewrite sub_head_sp_dollar_arun
    | rewrite sub_head_sp_xx_arun
    | rewrite resub_arun; [cbn [skipn] | first
        [ apply neutral_byte_tab | apply neutral_byte_cr | apply neutral_pair_crnl | apply neutral_pair_nlcr
        | apply neutral_sp1_nl | apply neutral_nl_sp_xx | apply neutral_nl_sp_end | apply neutral_nl_nl1
        | apply neutral_spnl_nl_end | apply neutral_sp1_end ] ] ];
  reflexivity.
Qed.

(* ====================================================================== what the formatted run begins with *)
Definition hdP (c0 : Z) (s : list Z) : Prop :=
  match s with [] => True | c :: _ => is_ws c = true \/ c = c0 end.

Definition rep_ws (m : matcher) : Prop :=
  forall s rep k, m s = Some (rep, S k) -> exists c rep', rep = c :: rep' /\ is_ws c = true.

Lemma resub_hd m c0 : rep_ws m -> forall s, hdP c0 s -> s <> [] -> hdP c0 (resub m 0 s) /\ resub m 0 s <> [].
Proof.
  intros Hm s Hs Hne. destruct s as [|c r]; [congruence|]. cbn [resub].
  destruct (m (c :: r)) as [[rep [|k]]|] eqn:E.
  - split; [exact Hs | discriminate].
  - destruct (Hm _ _ _ E) as (x & rep' & -> & Hx). cbn [app hdP]. split; [left; exact Hx | discriminate].
  - split; [exact Hs | discriminate].
Qed.

Lemma rep_ws_byte a b : is_ws b = true -> rep_ws (m_byte a b).
Proof.
  intros Hb s rep k H. unfold m_byte in H. destruct s as [|c r]; [discriminate|]. destruct (c =? a); [|discriminate].
  injection H as <- _. eauto.
Qed.
Lemma rep_ws_pair a b c : is_ws c = true -> rep_ws (m_pair a b c).
Proof.
  intros Hc s rep k H. unfold m_pair in H. destruct s as [|x [|y t]]; try discriminate.
  destruct ((x =? a) && (y =? b)); [|discriminate]. injection H as <- _. eauto.
Qed.
Lemma rep_ws_sp1_nl : rep_ws m_sp1_nl.
Proof.
  intros s rep k H. unfold m_sp1_nl in H. destruct s as [|c r]; [discriminate|]. destruct (c =? SP); [|discriminate].
  destruct (span_p is_sp r) as [n t]. destruct t as [|d t']; [discriminate|]. destruct (d =? NL); [|discriminate].
  injection H as <- _. eauto.
Qed.
Lemma rep_ws_nl_sp_xx x ind : rep_ws (m_nl_sp_xx x ind).
Proof.
  intros s rep k H. unfold m_nl_sp_xx in H. destruct s as [|c r]; [discriminate|]. destruct (c =? NL); [|discriminate].
  destruct (span_p is_sp r) as [n t]. destruct t as [|a [|b t']]; try discriminate.
  destruct ((a =? x) && (b =? x)); [|discriminate]. injection H as <- _. eauto.
Qed.
Lemma rep_ws_nl_sp_end ind : rep_ws (m_nl_sp_end ind).
Proof.
  intros s rep k H. unfold m_nl_sp_end in H. destruct s as [|c r]; [discriminate|]. destruct (c =? NL); [|discriminate].
  destruct (span_p is_sp r) as [n t]. destruct t; [|discriminate]. injection H as <- _. eauto.
Qed.
Lemma rep_ws_nl_nl1 : rep_ws (m_nl_nl1 [NL; NL]).
Proof.
  intros s rep k H. unfold m_nl_nl1 in H. destruct s as [|c r]; [discriminate|]. destruct (c =? NL); [|discriminate].
  destruct (span_p is_nl r) as [n t]. destruct n; [discriminate|]. injection H as <- _. eauto.
Qed.

Lemma sub_head_sp_xx_hd c0 x s : hdP c0 s -> s <> [] ->
  hdP c0 (sub_head_sp_xx x [SP; SP; x; x] s) /\ sub_head_sp_xx x [SP; SP; x; x] s <> [].
Proof.
  intros Hs Hne. unfold sub_head_sp_xx. destruct (span_p is_sp s) as [n t].
  destruct t as [|a [|b t']]; try (split; assumption).
  destruct ((a =? x) && (b =? x)); [|split; assumption]. cbn [app hdP]. split; [left; reflexivity | discriminate].
Qed.

Lemma trail_nl_hd c0 s : hdP c0 s -> hdP c0 (trail_nl s).
Proof.
  destruct s as [|c r]; [exact (fun H => H)|]. intros H. cbn [trail_nl].
  destruct (forallb is_sp_nl (c :: r)).
  - destruct (existsb is_nl (c :: r)); cbn [hdP]; [left; reflexivity | exact I].
  - exact H.
Qed.

(* a run that is not the first thing in the file: the formatted run begins with white space or with the byte the run began with
   (a comment that directly follows code), and it is empty only if nothing follows it *)
Theorem fmt_hd cfg c0 r : f_at_start cfg = false -> hdP c0 r -> r <> [] ->
  hdP c0 (fmt_run cfg r) /\ (f_at_end cfg = false -> fmt_run cfg r <> []).
Proof.
  intros Hst H0 Hne. rewrite fmt_run_eq. unfold fmt_run_unfolded. rewrite Hst. cbn [negb].
  destruct (resub_hd (m_byte TAB SP) c0 (rep_ws_byte TAB SP eq_refl) r H0 Hne) as [H1 N1].
  destruct (resub_hd (m_pair CR NL NL) c0 (rep_ws_pair CR NL NL eq_refl) _ H1 N1) as [H2 N2].
  destruct (resub_hd (m_pair NL CR NL) c0 (rep_ws_pair NL CR NL eq_refl) _ H2 N2) as [H3 N3].
  destruct (resub_hd (m_byte CR NL) c0 (rep_ws_byte CR NL eq_refl) _ H3 N3) as [H4 N4].
  destruct (resub_hd m_sp1_nl c0 rep_ws_sp1_nl _ H4 N4) as [H5 N5].
  destruct (sub_head_sp_xx_hd c0 DASH _ H5 N5) as [H6 N6].
  destruct (resub_hd (m_nl_sp_xx DASH (indent_bytes cfg)) c0 (rep_ws_nl_sp_xx _ _) _ H6 N6) as [H7 N7].
  destruct (resub_hd (m_nl_sp_xx SLASH (indent_bytes cfg)) c0 (rep_ws_nl_sp_xx _ _) _ H7 N7) as [H8 N8].
  destruct (resub_hd (m_nl_sp_end (indent_bytes cfg)) c0 (rep_ws_nl_sp_end _) _ H8 N8) as [H9 N9].
  destruct (resub_hd (m_nl_nl1 [NL; NL]) c0 rep_ws_nl_nl1 _ H9 N9) as [H10 N10].
  destruct (f_at_end cfg).
  - split; [|discriminate]. rewrite sub_end_of_file. apply trail_nl_hd. exact H10.
  - split; [exact H10 | intros _; exact N10].
Qed.
