(* Agreement of the lexer model (Model/Lexer.v) with the reference grammar (Spec/LuaLex.v), part 1:
   first-byte dispatch through the regenerated matcher table, fuel, positions, long brackets. *)
From PV Require Import Base.Prelude Generated.T_lexer Model.Lexer Spec.LuaLex
  Proofs.LexerProofs Proofs.LexerInv.
From Coq Require Import ZifyBool.

(* ---------- literal patterns of the reference grammar as equality tests *)
Ltac lit_match y k :=
  destruct (Z.eqb_spec y k) as [->|?n]; [reflexivity|];
  destruct y as [|?p|?p]; try reflexivity;
  match goal with p : positive |- _ =>
    do 8 (try (destruct p as [p|p|]; try reflexivity)); exfalso; lia end.

Lemma match10 {T} (y : Z) (A B : T) : (match y with 10 => A | _ => B end) = if y =? 10 then A else B.
Proof. lit_match y 10. Qed.
Lemma match45 {T} (y : Z) (A B : T) : (match y with 45 => A | _ => B end) = if y =? 45 then A else B.
Proof. lit_match y 45. Qed.
Lemma match47 {T} (y : Z) (A B : T) : (match y with 47 => A | _ => B end) = if y =? 47 then A else B.
Proof. lit_match y 47. Qed.
Lemma match48 {T} (y : Z) (A B : T) : (match y with 48 => A | _ => B end) = if y =? 48 then A else B.
Proof. lit_match y 48. Qed.
Lemma match58 {T} (y : Z) (A B : T) : (match y with 58 => A | _ => B end) = if y =? 58 then A else B.
Proof. lit_match y 58. Qed.
Lemma match61 {T} (y : Z) (A B : T) : (match y with 61 => A | _ => B end) = if y =? 61 then A else B.
Proof. lit_match y 61. Qed.
Lemma match91 {T} (y : Z) (A B : T) : (match y with 91 => A | _ => B end) = if y =? 91 then A else B.
Proof. lit_match y 91. Qed.
Lemma match93 {T} (y : Z) (A B : T) : (match y with 93 => A | _ => B end) = if y =? 93 then A else B.
Proof. lit_match y 93. Qed.

(* ---------- the two sets of byte classes are the same functions *)
Lemma m_digit_eq c : m_digit c = is_digit c. Proof. reflexivity. Qed.
Lemma m_blank_eq c : m_blank c = is_blank c. Proof. reflexivity. Qed.
Lemma m_name_start_eq c : m_name_start c = is_name_start c. Proof. reflexivity. Qed.
Lemma m_name_char_eq c : m_name_char c = is_name_char c. Proof. reflexivity. Qed.
Lemma m_not_eol_eq c : m_not_eol c = negb (is_eol c).
Proof. unfold m_not_eol, is_eol. destruct (c =? 10), (c =? 13); reflexivity. Qed.

Lemma take_while_span p s : take_while p s = span p s.
Proof. induction s as [|c r IH]; cbn; [reflexivity|]. rewrite IH; reflexivity. Qed.

Lemma span_ext p q s : (forall c, p c = q c) -> span p s = span q s.
Proof. intros H. induction s as [|c r IH]; cbn; [reflexivity|]. rewrite H, IH; reflexivity. Qed.

Lemma drop_strip p s : drop_prefix p s = strip_prefix p s.
Proof. reflexivity. Qed.

Lemma span_split p s a b : span p s = (a, b) -> s = a ++ b.
Proof. rewrite <- take_while_span. apply take_while_split. Qed.

Lemma span_all p s : forall a b, span p s = (a, b) -> forallb p a = true.
Proof.
  induction s as [|c r IH]; intros a b H; cbn in H; [inversion H; reflexivity|].
  destruct (p c) eqn:Pc; [|inversion H; reflexivity].
  destruct (span p r) as [a' b'] eqn:E. inversion H; subst. cbn. rewrite Pc. apply (IH _ _ eq_refl).
Qed.

Lemma span_stop p s : forall a b, span p s = (a, b) -> match b with c :: _ => p c = false | [] => True end.
Proof.
  induction s as [|c r IH]; intros a b H; cbn in H; [inversion H; exact I|].
  destruct (p c) eqn:Pc; [|inversion H; subst; exact Pc].
  destruct (span p r) as [a' b'] eqn:E. inversion H; subst. apply (IH _ _ eq_refl).
Qed.

(* a maximal run is determined by its two characteristic properties *)
Lemma span_unique p : forall a b, forallb p a = true -> match b with c :: _ => p c = false | [] => True end ->
  span p (a ++ b) = (a, b).
Proof.
  induction a as [|x a IH]; intros b Ha Hb; cbn [app].
  - destruct b as [|c b]; cbn; [reflexivity|]. rewrite Hb. reflexivity.
  - cbn in Ha. apply andb_true_iff in Ha. destruct Ha as [Hx Ha]. cbn [span]. rewrite Hx, (IH b Ha Hb). reflexivity.
Qed.

(* ---------- first-byte filter of the matcher table *)
Definition hd_eq (c : Z) (l : list Z) : bool := match l with x :: _ => x =? c | [] => false end.

Definition first_ok (m : matcher_id) (c : Z) : bool :=
  match m with
  | MCommentDash => c =? 45
  | MCommentSlash => c =? 47
  | MSpace => m_blank c
  | MNlCrLf => c =? 13
  | MNlLf => c =? 10
  | MNlCr => c =? 13
  | MNumHex | MNumHexFrac | MNumBin | MNumBinFrac => c =? 48
  | MNumDec => m_digit c
  | MNumDecFrac => c =? 46
  | MLabel => c =? 58
  | MKeyword k => hd_eq c k
  | MSymbol x => hd_eq c x
  | MName => m_name_start c
  | MQmark => c =? 63
  end.

Lemma drop_prefix_hd_ne x p c r : (x =? c) = false -> drop_prefix (x :: p) (c :: r) = None.
Proof. intros H. cbn. rewrite H. reflexivity. Qed.

Lemma first_ok_sound m c r : first_ok m c = false -> run_matcher m (c :: r) = None.
Proof.
  destruct m; cbn [first_ok run_matcher]; intros H.
  - rewrite drop_prefix_hd_ne; [reflexivity | rewrite Z.eqb_sym; exact H].
  - rewrite drop_prefix_hd_ne; [reflexivity | rewrite Z.eqb_sym; exact H].
  - unfold take_while1. cbn [take_while]. rewrite H. reflexivity.
  - unfold scan_literal. rewrite drop_prefix_hd_ne; [reflexivity | rewrite Z.eqb_sym; exact H].
  - unfold scan_literal. rewrite drop_prefix_hd_ne; [reflexivity | rewrite Z.eqb_sym; exact H].
  - unfold scan_literal. rewrite drop_prefix_hd_ne; [reflexivity | rewrite Z.eqb_sym; exact H].
  - unfold scan_based, num_prefix. destruct r as [|x r]; [reflexivity|]. rewrite H. reflexivity.
  - unfold scan_based_frac, num_prefix. destruct r as [|x r]; [reflexivity|]. rewrite H. reflexivity.
  - unfold scan_based, num_prefix. destruct r as [|x r]; [reflexivity|]. rewrite H. reflexivity.
  - unfold scan_based_frac, num_prefix. destruct r as [|x r]; [reflexivity|]. rewrite H. reflexivity.
  - unfold scan_decimal, take_while1. cbn [take_while]. rewrite H. reflexivity.
  - unfold scan_decimal_frac. cbn [hd_is]. rewrite H. reflexivity.
  - unfold scan_label. rewrite drop_prefix_hd_ne; [reflexivity | rewrite Z.eqb_sym; exact H].
  - unfold scan_keyword. destruct k as [|k0 k']; [reflexivity|]. cbn [hd_eq] in H.
    destruct (m_word k0); [|reflexivity]. rewrite drop_prefix_hd_ne; [reflexivity | exact H].
  - unfold scan_literal. destruct s as [|x0 x']; [reflexivity|]. cbn [hd_eq] in H.
    rewrite drop_prefix_hd_ne; [reflexivity | exact H].
  - unfold scan_name. rewrite H. reflexivity.
  - unfold scan_literal. rewrite drop_prefix_hd_ne; [reflexivity | rewrite Z.eqb_sym; exact H].
Qed.

Definition row_ok (c : Z) (mk : matcher_id * tok_kind) : bool := first_ok (fst mk) c.

Lemma first_matcher_filter tbl c r :
  first_matcher tbl (c :: r) = first_matcher (filter (row_ok c) tbl) (c :: r).
Proof.
  induction tbl as [|[m k] tbl IH]; [reflexivity|]. cbn [filter first_matcher]. unfold row_ok at 1. cbn [fst].
  destruct (first_ok m c) eqn:F.
  - cbn [first_matcher]. destruct (run_matcher m (c :: r)) as [[a b]|]; [reflexivity | exact IH].
  - rewrite (first_ok_sound _ _ _ F). exact IH.
Qed.

Lemma first_matcher_app a b s :
  first_matcher (a ++ b) s = match first_matcher a s with Some x => Some x | None => first_matcher b s end.
Proof.
  induction a as [|[m k] a IH]; [reflexivity|]. cbn [app first_matcher].
  destruct (run_matcher m s) as [[x y]|]; [reflexivity | exact IH].
Qed.

(* boolean equality of tables *)
Definition mid_code (m : matcher_id) : Z * list Z :=
  match m with
  | MCommentDash => (0, []) | MCommentSlash => (1, []) | MSpace => (2, []) | MNlCrLf => (3, [])
  | MNlLf => (4, []) | MNlCr => (5, []) | MNumHex => (6, []) | MNumHexFrac => (7, []) | MNumBin => (8, [])
  | MNumBinFrac => (9, []) | MNumDec => (10, []) | MNumDecFrac => (11, []) | MLabel => (12, [])
  | MKeyword k => (13, k) | MSymbol x => (14, x) | MName => (15, []) | MQmark => (16, [])
  end.

Lemma mid_code_inj a b : mid_code a = mid_code b -> a = b.
Proof. destruct a, b; cbn; intros H; try discriminate; try reflexivity; inversion H; reflexivity. Qed.

Definition kind_code (k : tok_kind) : Z :=
  match k with
  | KSpace => 0 | KNewline => 1 | KComment => 2 | KString => 3 | KNumber => 4
  | KName => 5 | KLabel => 6 | KKeyword => 7 | KSymbol => 8
  end.

Lemma kind_code_inj a b : kind_code a = kind_code b -> a = b.
Proof. destruct a, b; cbn; intros H; try discriminate; reflexivity. Qed.

Definition row_eqb (a b : matcher_id * tok_kind) : bool :=
  (fst (mid_code (fst a)) =? fst (mid_code (fst b))) && zlist_eqb (snd (mid_code (fst a))) (snd (mid_code (fst b)))
  && (kind_code (snd a) =? kind_code (snd b)).

Lemma row_eqb_eq a b : row_eqb a b = true -> a = b.
Proof.
  destruct a as [m k], b as [m' k']. unfold row_eqb. cbn [fst snd]. intros H.
  apply andb_true_iff in H. destruct H as [H Hk]. apply andb_true_iff in H. destruct H as [H1 H2].
  apply Z.eqb_eq in H1, Hk. apply zlist_eqb_eq in H2.
  f_equal; [apply mid_code_inj | apply kind_code_inj; exact Hk].
  destruct (mid_code m), (mid_code m'). cbn in *. subst. reflexivity.
Qed.

Fixpoint table_eqb (a b : list (matcher_id * tok_kind)) : bool :=
  match a, b with
  | [], [] => true
  | x :: a', y :: b' => row_eqb x y && table_eqb a' b'
  | _, _ => false
  end.

Lemma table_eqb_eq a : forall b, table_eqb a b = true -> a = b.
Proof.
  induction a as [|x a IH]; intros [|y b] H; cbn in H; try discriminate; [reflexivity|].
  apply andb_true_iff in H. destruct H as [H1 H2]. f_equal; [apply row_eqb_eq; exact H1 | apply IH; exact H2].
Qed.

(* what is left of the table for each first byte *)
Definition kwrow (k : list Z) : matcher_id * tok_kind := (MKeyword k, KKeyword).
Definition symrow (x : list Z) : matcher_id * tok_kind := (MSymbol x, KSymbol).
Definition sym_rows (c : Z) := map symrow (filter (hd_eq c) symbols).
Definition kw_rows (c : Z) := map kwrow (filter (hd_eq c) keyword_order).

Definition num_rows : list (matcher_id * tok_kind) :=
  [(MNumHex, KNumber); (MNumHexFrac, KNumber); (MNumBin, KNumber); (MNumBinFrac, KNumber);
   (MNumDec, KNumber); (MNumDecFrac, KNumber)].

Definition pre_rows (c : Z) : list (matcher_id * tok_kind) :=
  if c =? 45 then [(MCommentDash, KComment)]
  else if c =? 47 then [(MCommentSlash, KComment)]
  else if c =? 46 then [(MNumDecFrac, KNumber)]
  else if c =? 58 then [(MLabel, KLabel)]
  else [].

Definition expected (c : Z) : list (matcher_id * tok_kind) :=
  if m_name_start c then kw_rows c ++ [(MName, KName)]
  else if m_digit c then filter (row_ok c) num_rows
  else if m_blank c then [(MSpace, KSpace)]
  else if c =? 10 then [(MNlLf, KNewline)]
  else if c =? 13 then [(MNlCrLf, KNewline); (MNlCr, KNewline)]
  else if c =? 63 then [(MQmark, KName)]
  else pre_rows c ++ sym_rows c.

Lemma table_expected_sweep :
  forallb (fun c => table_eqb (filter (row_ok c) token_matchers) (expected c)) (upto 256) = true.
Proof. vm_compute. reflexivity. Qed.

Lemma table_expected c : byte c -> filter (row_ok c) token_matchers = expected c.
Proof. intros Hc. apply table_eqb_eq. apply (sweep_byte _ table_expected_sweep c Hc). Qed.

Lemma first_matcher_expected c r : byte c ->
  first_matcher token_matchers (c :: r) = first_matcher (expected c) (c :: r).
Proof. intros Hc. rewrite first_matcher_filter, (table_expected c Hc). reflexivity. Qed.

(* ---------- fuel *)
Lemma process_token_split ms l c s ms' ot piece rest :
  process_token ms l c s = Ok (Some (ms', ot, piece, rest)) -> s = piece ++ rest.
Proof.
  intros H. destruct ms as [|delim acc sl sc ext|acc sl sc|eqs acc sl sc ext]; cbn [process_token] in H.
  - destruct (drop_prefix [45; 45; 91; 91] s) as [r0|] eqn:E0.
    { inversion H; subst. apply drop_prefix_split in E0. exact E0. }
    destruct (match_long_open s) as [[eqs r1]|] eqn:E1.
    { inversion H; subst. apply match_long_open_split in E1. rewrite E1. cbn. rewrite <- app_assoc. reflexivity. }
    destruct s as [|c0 r]; [discriminate|].
    destruct ((c0 =? 39) || (c0 =? 34)); [inversion H; subst; reflexivity|].
    destruct (first_matcher token_matchers (c0 :: r)) as [[[k a] r']|] eqn:E2; [|discriminate].
    inversion H; subst. apply first_matcher_split in E2. exact E2.
  - destruct s as [|c0 r0]; [discriminate|].
    destruct (scan_string (length (c0 :: r0)) delim (c0 :: r0) acc []) as [[acc' pc rest'|acc' pc]|e] eqn:E; [| |discriminate];
      inversion H; subst; apply scan_string_split in E; cbn [rev app sscan_piece_rev sscan_rest] in E;
      rewrite rev'_eq; exact E.
  - destruct (find_rbrackets s) as [[a rest']|] eqn:E.
    + inversion H; subst. apply find_rbrackets_split in E. exact E.
    + destruct s as [|c0 r0]; [discriminate|]. inversion H; subst. rewrite app_nil_r. reflexivity.
  - destruct (find_long_close (93 :: eqs ++ [93]) s) as [[a rest']|] eqn:E.
    + inversion H; subst. apply find_long_close_split in E. rewrite E, <- app_assoc. reflexivity.
    + destruct s as [|c0 r0]; [discriminate|]. inversion H; subst. rewrite app_nil_r. reflexivity.
Qed.

Lemma is_nil_false {A} (l : list A) : is_nil l = false -> (0 < length l)%nat.
Proof. destruct l; [discriminate | cbn; lia]. Qed.

(* any fuel above the length of the chunk gives the same result *)
Lemma process_line_fuel n : forall st s f1 f2,
  (length s <= n)%nat -> (length s < f1)%nat -> (length s < f2)%nat ->
  process_line f1 st s = process_line f2 st s.
Proof.
  induction n as [|n IH]; intros st s f1 f2 Hn H1 H2;
    (destruct f1 as [|f1]; [lia|]); (destruct f2 as [|f2]; [lia|]); cbn [process_line].
  - destruct (process_token (l_state st) (l_line st) (l_col st) s) as [[[[[ms ot] piece] rest]|]|e] eqn:E; try reflexivity.
    destruct (is_nil piece) eqn:Np; [reflexivity|]. apply process_token_split in E. apply is_nil_false in Np.
    subst s. rewrite app_length in Hn. lia.
  - destruct (process_token (l_state st) (l_line st) (l_col st) s) as [[[[[ms ot] piece] rest]|]|e] eqn:E; try reflexivity.
    destruct (is_nil piece) eqn:Np; [reflexivity|]. apply process_token_split in E. apply is_nil_false in Np.
    destruct (advance (l_line st, l_col st) piece) as [l' c'].
    assert (Hl : length s = (length piece + length rest)%nat) by (subst s; apply app_length).
    apply IH; lia.
Qed.

(* ---------- positions: on the dialect's line ends Lua's counting rule counts the line feeds *)
Lemma crlf_only_cons c r : crlf_only (c :: r) = true -> crlf_only r = true.
Proof. cbn [crlf_only]. intros H. apply andb_true_iff in H. tauto. Qed.

Lemma crlf_only_app a : forall b, crlf_only (a ++ b) = true -> crlf_only b = true.
Proof. induction a as [|x a IH]; intros b H; [exact H|]. apply IH. apply (crlf_only_cons x). exact H. Qed.

Lemma crlf_only_cr r : crlf_only (13 :: r) = true -> exists r', r = 10 :: r'.
Proof.
  cbn [crlf_only]. intros H. apply andb_true_iff in H. destruct H as [H _].
  change (13 =? 13) with true in H. cbv iota in H.
  destruct r as [|d r']; [discriminate|]. cbv iota in H. rewrite match10 in H.
  destruct (Z.eqb_spec d 10); [subst; eexists; reflexivity | discriminate].
Qed.

Lemma advance_cons l c x r : advance (l, c) (x :: r) = advance (if x =? 10 then (l + 1, 0) else (l, c + 1)) r.
Proof. reflexivity. Qed.

Lemma spec_advance_crlf n : forall bs l c, (length bs <= n)%nat -> crlf_only bs = true ->
  spec_advance l c bs = advance (l, c) bs.
Proof.
  induction n as [|n IH]; intros bs l c Hn Hc.
  - destruct bs; [reflexivity | cbn in Hn; lia].
  - destruct bs as [|x r]; [reflexivity|]. cbn [length] in Hn.
    pose proof (crlf_only_cons _ _ Hc) as Hr. cbn [spec_advance]. rewrite advance_cons.
    unfold is_eol at 1. destruct (Z.eqb_spec x 10) as [->|N10].
    + cbn [orb]. destruct r as [|d r']; [reflexivity|].
      destruct (is_eol d && negb (10 =? d)) eqn:Cd.
      * (* LF CR: by crlf_only a LF follows *)
        apply andb_true_iff in Cd. destruct Cd as [Cd1 Cd2]. unfold is_eol in Cd1.
        assert (d = 13) by (destruct (Z.eqb_spec d 10); [subst; discriminate | lia]). subst d.
        destruct (crlf_only_cr _ Hr) as [r'' ->]. cbn [length] in Hn.
        rewrite IH; [|cbn [length]; lia | apply (crlf_only_cons 13); exact Hr].
        rewrite !advance_cons. reflexivity.
      * apply IH; [lia | exact Hr].
    + cbn [orb]. destruct (Z.eqb_spec x 13) as [->|N13].
      * destruct (crlf_only_cr _ Hc) as [r' ->]. cbn [length] in Hn.
        change (is_eol 10 && negb (13 =? 10)) with true. cbv iota.
        rewrite IH; [|lia | apply (crlf_only_cons 10); exact Hr]. rewrite advance_cons. reflexivity.
      * apply IH; [lia | exact Hr].
Qed.

Lemma spec_advance_eq bs l c : crlf_only bs = true -> spec_advance l c bs = advance (l, c) bs.
Proof. apply (spec_advance_crlf (length bs)). lia. Qed.

(* a prefix that does not end in a carriage return keeps the line-end discipline *)
Lemma crlf_only_prefix a : forall b, crlf_only (a ++ b) = true -> last a 0 <> 13 -> crlf_only a = true.
Proof.
  induction a as [|x a IH]; intros b H Hl; [reflexivity|].
  cbn [app] in H. pose proof (crlf_only_cons _ _ H) as Hr.
  cbn [crlf_only]. apply andb_true_iff. split.
  - destruct (Z.eqb_spec x 13) as [->|N]; [|reflexivity].
    destruct (crlf_only_cr _ H) as [r' E]. destruct a as [|y a]; [cbn in Hl; congruence|].
    cbn [app] in E. inversion E; subst. reflexivity.
  - destruct a as [|y a]; [reflexivity|]. apply (IH b Hr). exact Hl.
Qed.

(* ---------- long brackets *)
Lemma long_close_here_drop n : forall r, long_close_here n r = drop_prefix (repeat 61 n ++ [93]) r.
Proof.
  induction n as [|n IH]; intros r; cbn [long_close_here repeat app].
  - destruct r as [|y r]; [reflexivity|]. rewrite match93. cbn [drop_prefix]. rewrite (Z.eqb_sym y 93).
    destruct (93 =? y); reflexivity.
  - destruct r as [|y r]; [reflexivity|]. rewrite match61. cbn [drop_prefix]. rewrite (Z.eqb_sym y 61).
    destruct (61 =? y); [apply IH | reflexivity].
Qed.

Lemma long_body_find n : forall s b cl rest,
  long_body n s = Some (b, cl, rest) ->
  cl = 93 :: repeat 61 n ++ [93] /\ find_long_close (93 :: repeat 61 n ++ [93]) s = Some (b, rest).
Proof.
  induction s as [|c r IH]; intros b cl rest H; [discriminate|]. cbn [long_body] in H.
  destruct (c =? 93) eqn:C.
  - apply Z.eqb_eq in C. subst c. rewrite long_close_here_drop in H.
    cbn [find_long_close]. change (drop_prefix (93 :: repeat 61 n ++ [93]) (93 :: r))
      with (drop_prefix (repeat 61 n ++ [93]) r).
    destruct (drop_prefix (repeat 61 n ++ [93]) r) as [rest0|] eqn:D.
    + inversion H; subst. split; reflexivity.
    + destruct (long_body n r) as [[[b0 cl0] rest0]|] eqn:L; [|discriminate]. inversion H; subst.
      destruct (IH _ _ _ eq_refl) as [-> F]. rewrite F. split; reflexivity.
  - assert (D : drop_prefix (93 :: repeat 61 n ++ [93]) (c :: r) = None).
    { apply drop_prefix_hd_ne. rewrite Z.eqb_sym. exact C. }
    cbn [find_long_close]. rewrite D.
    destruct (long_body n r) as [[[b0 cl0] rest0]|] eqn:L; [|discriminate]. inversion H; subst.
    destruct (IH _ _ _ eq_refl) as [-> F]. rewrite F. split; reflexivity.
Qed.

Lemma find_rbrackets_long s : forall b rest,
  find_long_close [93; 93] s = Some (b, rest) -> find_rbrackets s = Some (b ++ [93; 93], rest).
Proof.
  induction s as [|c r IH]; intros b rest H; cbn [find_long_close] in H; [discriminate|].
  cbn [find_rbrackets]. cbn [drop_prefix] in H.
  destruct (Z.eqb_spec 93 c) as [<-|N].
  - rewrite Z.eqb_refl. cbn [andb]. destruct r as [|d r']; cbn [hd_is tl].
    + destruct (find_long_close [93; 93] []) eqn:F; cbn in F; discriminate.
    + destruct (Z.eqb_spec 93 d) as [<-|N2].
      * inversion H; subst. rewrite Z.eqb_refl. reflexivity.
      * assert (E : (d =? 93) = false) by lia. rewrite E.
        destruct (find_long_close [93; 93] (d :: r')) as [[a0 b0]|] eqn:F; [|discriminate].
        inversion H; subst. rewrite (IH _ _ eq_refl). reflexivity.
  - assert (E : (c =? 93) = false) by lia. rewrite E. cbn [andb].
    destruct (find_long_close [93; 93] r) as [[a0 b0]|] eqn:F; [|discriminate].
    inversion H; subst. rewrite (IH _ _ eq_refl). reflexivity.
Qed.

Lemma long_open_match s : forall n lvl r, 0 <= n -> long_open s n = Some (lvl, r) ->
  n <= lvl /\ span (fun c => c =? 61) s = (repeat 61 (Z.to_nat (lvl - n)), 91 :: r).
Proof.
  induction s as [|c s IH]; intros n lvl r Hn H; cbn [long_open] in H; [discriminate|].
  cbn [span]. destruct (Z.eqb_spec c 61) as [->|N].
  - assert (Hn' : 0 <= n + 1) by lia. destruct (IH _ _ _ Hn' H) as [Hle E]. rewrite E. split; [lia|].
    replace (Z.to_nat (lvl - n)) with (S (Z.to_nat (lvl - (n + 1)))) by lia. reflexivity.
  - destruct (Z.eqb_spec c 91) as [->|N2]; [|discriminate]. inversion H; subst.
    rewrite Z.sub_diag. split; [lia | reflexivity].
Qed.

Lemma match_long_open_spec r lvl r2 : long_open r 0 = Some (lvl, r2) ->
  match_long_open (91 :: r) = Some (repeat 61 (Z.to_nat lvl), r2).
Proof.
  intros H. destruct (long_open_match _ _ _ _ (Z.le_refl 0) H) as [_ E]. rewrite Z.sub_0_r in E.
  unfold match_long_open. cbn [hd_is tl]. rewrite Z.eqb_refl, take_while_span, E. cbn [hd_is tl].
  rewrite Z.eqb_refl. reflexivity.
Qed.

Lemma long_open_none_match r : long_open r 0 = None -> match_long_open (91 :: r) = None.
Proof.
  unfold match_long_open. cbn [hd_is tl]. rewrite Z.eqb_refl, take_while_span. generalize 0.
  induction r as [|c r IH]; intros n H; cbn [long_open span] in *; [reflexivity|].
  destruct (Z.eqb_spec c 61) as [->|N].
  - specialize (IH _ H). destruct (span (fun c => c =? 61) r) as [a b]. destruct (hd_is 91 b); [discriminate | reflexivity].
  - destruct (Z.eqb_spec c 91) as [->|N2]; [discriminate|]. cbn [hd_is].
    assert (E : (c =? 91) = false) by lia. rewrite E. reflexivity.
Qed.

(* the value of a long string: on the dialect's line ends, Lua's rule (skip a first line break, every
   line-break sequence denotes LF) is what TokString.value computes *)
Lemma replace_crlf_cons_ne c r : c <> 13 -> replace_crlf (c :: r) = c :: replace_crlf r.
Proof.
  intros N. cbn [replace_crlf]. destruct r as [|d r']; [reflexivity|].
  assert (E : (c =? 13) = false) by lia. rewrite E. reflexivity.
Qed.

Lemma replace_crlf_crlf r : replace_crlf (13 :: 10 :: r) = 10 :: replace_crlf r.
Proof. reflexivity. Qed.

Lemma normalize_replace n : forall x, (length x <= n)%nat -> crlf_only x = true ->
  normalize_eols x = replace_crlf x.
Proof.
  induction n as [|n IH]; intros x Hn Hc.
  - destruct x; [reflexivity | cbn in Hn; lia].
  - destruct x as [|c r]; [reflexivity|]. cbn [length] in Hn.
    pose proof (crlf_only_cons _ _ Hc) as Hr. cbn [normalize_eols].
    unfold is_eol at 1. destruct (Z.eqb_spec c 10) as [->|N10].
    + cbn [orb]. rewrite replace_crlf_cons_ne by lia. destruct r as [|d r']; [reflexivity|].
      destruct (is_eol d && negb (10 =? d)) eqn:Cd.
      * apply andb_true_iff in Cd. destruct Cd as [Cd1 Cd2]. unfold is_eol in Cd1.
        assert (d = 13) by (destruct (Z.eqb_spec d 10); [subst; discriminate | lia]). subst d.
        destruct (crlf_only_cr _ Hr) as [r'' ->]. cbn [length] in Hn.
        rewrite replace_crlf_crlf. rewrite IH; [|cbn [length]; lia | apply (crlf_only_cons 13); exact Hr].
        rewrite replace_crlf_cons_ne by lia. reflexivity.
      * f_equal. apply IH; [lia | exact Hr].
    + cbn [orb]. destruct (Z.eqb_spec c 13) as [->|N13].
      * destruct (crlf_only_cr _ Hc) as [r' ->]. cbn [length] in Hn.
        change (is_eol 10 && negb (13 =? 10)) with true. cbv iota. rewrite replace_crlf_crlf.
        f_equal. apply IH; [lia | apply (crlf_only_cons 10); exact Hr].
      * rewrite replace_crlf_cons_ne by exact N13. f_equal. apply IH; [lia | exact Hr].
Qed.

Definition strip_lf (d : list Z) : list Z := match d with 10 :: r => r | _ => d end.

Lemma strip_lf_cons c r : strip_lf (c :: r) = if c =? 10 then r else c :: r.
Proof. unfold strip_lf. rewrite match10. reflexivity. Qed.

Lemma long_value_agrees b : crlf_only b = true -> long_string_value b = strip_lf (replace_crlf b).
Proof.
  intros Hc. unfold long_string_value, skip_first_eol. destruct b as [|c r]; [reflexivity|].
  pose proof (crlf_only_cons _ _ Hc) as Hr. unfold is_eol at 1.
  destruct (Z.eqb_spec c 10) as [->|N10].
  - cbn [orb]. rewrite replace_crlf_cons_ne by lia. rewrite strip_lf_cons. change (10 =? 10) with true. cbv iota.
    destruct r as [|d r']; [reflexivity|].
    destruct (is_eol d && negb (10 =? d)) eqn:Cd.
    + apply andb_true_iff in Cd. destruct Cd as [Cd1 Cd2]. unfold is_eol in Cd1.
      assert (d = 13) by (destruct (Z.eqb_spec d 10); [subst; discriminate | lia]). subst d.
      destruct (crlf_only_cr _ Hr) as [r'' ->]. rewrite replace_crlf_crlf.
      rewrite (normalize_replace (length (10 :: r''))); [|lia | apply (crlf_only_cons 13); exact Hr].
      rewrite replace_crlf_cons_ne by lia. reflexivity.
    + apply (normalize_replace (length (d :: r'))); [lia | exact Hr].
  - cbn [orb]. destruct (Z.eqb_spec c 13) as [->|N13].
    + destruct (crlf_only_cr _ Hc) as [r' ->]. change (is_eol 10 && negb (13 =? 10)) with true. cbv iota.
      rewrite replace_crlf_crlf, strip_lf_cons. change (10 =? 10) with true. cbv iota.
      apply (normalize_replace (length r')); [lia | apply (crlf_only_cons 10); exact Hr].
    + rewrite (normalize_replace (length (c :: r))); [|lia | exact Hc].
      rewrite replace_crlf_cons_ne by exact N13. rewrite strip_lf_cons.
      assert (E : (c =? 10) = false) by lia. rewrite E. reflexivity.
Qed.
