(* Valid programs lie inside the writer domain, part 1: the instrumented relations.

   C08_complete (Proofs/ParserComplete1..6.v) runs the parser model along a derivation g of the reference grammar
   and shows that the tree t it builds satisfies  den g t = denotes g (view t).  The writer domain of C09_aligned
   (Model/WriterDomain.v: strict, no_if_do, no_paren_prefix) speaks about the RICH tree t - hidden keyword leaves,
   parentheses - which `view` forgets, so it does not follow from `denotes g (view t)` after the fact.  The files
   ValidDomain3..6.v therefore re-run the completeness proof (copies of ParserComplete3..6.v; nothing of the
   originals is changed, C08 does not depend on these files) with a stronger relation UNDER THE SAME NAMES:

     den g t      :=  denotes g (view t)  &&  dom t
     all2v gs l   :=  all2d gs (views l)  &&  forallb dom l
     ditems is t  :=  all2d is (flat_exp (view t))  &&  dom t
     CTX g mx     :=  ParserComplete2.CTX g mx  with  g_no_paren_suffix g = true  added to its first component

   where  dom t = strict t && no_if_do ts t && no_paren_prefix t  (dom_writable), computed node by node (loc).
   This file proves for the new relations the lemmas ParserComplete1/2.v prove for the old ones, with the same
   names and (up to the extra side condition `loc tag sh fs = true` of den_node and `dom h = true` of all2v_hid_r)
   the same statements, so that the proof scripts go through with changes only where the domain conditions are
   really at stake: ExpValue / ExpUnOp nodes, table constructors, numeric for, if (long and one-line), and the
   prefix of a call / index / field / method suffix.

   g_no_paren_suffix g : the condition on the DERIVATION that expresses finding C09-paren-suffix-assert:
   no call / index / field / method suffix is applied to a parenthesised expression.

   The flag nts switches on a further pair: with nts = true, CTX also carries g_no_trailing_sep g (no table constructor
   of the derivation ends in a field separator) and dom also says AstWriterDepth.no_trailing_sep t (the exclusion of
   C10_indent / C10_output_form / C10_idempotent); with nts = false both are absent. *)
From PV Require Import Base.Prelude Base.PySlice Spec.LuaTokens Spec.LuaGrammar Model.Tokens Model.Parser Model.ParserInst
  Model.AstWriter Model.WriterDomain Proofs.ParserProofs Proofs.ParserSpecs Proofs.ParserTheorems
  Proofs.ParserComplete1 Proofs.ParserComplete2.
From PV Require Proofs.AstWriterDepth.
From Coq Require Import ZifyBool.
Ltac Zify.zify_post_hook ::= Z.to_euclidean_division_equations.

(* ------------------------------------------------------------------ the condition on the derivation *)
Fixpoint g_no_paren_suffix (g : tree) : bool :=
  match g with
  | Node tag _ _ _ fs =>
      (if is_suffix_tag tag then match fs with x :: _ => negb (is_paren x) | [] => true end else true)
      && forallb g_no_paren_suffix fs
  | Lst l => forallb g_no_paren_suffix l
  | Paren _ _ x => g_no_paren_suffix x
  | Hid x => g_no_paren_suffix x
  | _ => true
  end.

(* no table constructor ends in a field separator: field {sep field} has an odd number of entries *)
Fixpoint g_no_trailing_sep (g : tree) : bool :=
  match g with
  | Node tag _ _ _ fs =>
      (if tag =? tTableConstructor
       then match fs with [_; Lst l; _] => negb (Nat.even (length l)) || Nat.eqb (length l) 0 | _ => true end
       else true) && forallb g_no_trailing_sep fs
  | Lst l => forallb g_no_trailing_sep l
  | Paren _ _ x => g_no_trailing_sep x
  | Hid x => g_no_trailing_sep x
  | _ => true
  end.

Lemma gnts_table_tail a b sh o f r c :
  g_no_trailing_sep (Node tTableConstructor a b sh [o; Lst (f :: r); c]) = true -> Nat.even (length r) = true.
Proof.
  cbn [g_no_trailing_sep]. change (tTableConstructor =? tTableConstructor) with true. cbv iota. cbn [length].
  intros H. apply andb_true_iff in H. destruct H as [H _]. rewrite Nat.even_succ in H. unfold Nat.odd in H.
  destruct (Nat.even (length r)); [reflexivity | discriminate H].
Qed.

Lemma forallb_In {A} (f : A -> bool) l x : forallb f l = true -> In x l -> f x = true.
Proof. intros H Hin. rewrite forallb_forall in H. apply H, Hin. Qed.

Section Dom.
Variable ts : list token.
Variable nts : bool.

(* ------------------------------------------------------------------ the domain conditions, node by node *)
Definition loc_strict (tag : Z) (sh : bool) (fs : list tree) : bool :=
  if (tag =? tExpValue) || (tag =? tExpUnOp) then negb (existsb is_hid fs)
  else if tag =? tTableConstructor then
    match fs with [_; Lst l; _] => fields_strict l | _ => true end
  else if tag =? tStatForStep then
    match fs with _ :: PNone :: _ => false | _ => true end
  else if tag =? tStatIf then
    match fs with
    | _ :: Lst (Lst pr :: rest) :: _ =>
        (if sh then match pr with [Paren _ _ _; _] => true | _ => false end
         else pair_has_cond (Lst pr)) && forallb pair_has_cond rest
    | _ => true
    end
  else true.

Definition loc_ifdo (tag : Z) (sh : bool) (fs : list tree) : bool :=
  if (tag =? tStatIf) && negb sh then
    match fs with
    | [_; Lst (Lst [_; Kw ti; _] :: _); _] => tok_is ts (is_kw "then"%bs) ti
    | _ => true
    end
  else true.

Definition loc_paren (tag : Z) (fs : list tree) : bool :=
  if is_suffix_tag tag then match fs with x :: _ => negb (is_paren x) | [] => true end else true.

Definition last_hid (l : list tree) : bool := match l with [] => false | _ => is_hid (last l PNone) end.

Lemma last_hid_cons2 a f tl : is_hidden f = false -> last_hid tl = false -> last_hid (a :: f :: tl) = false.
Proof.
  intros Hf Ht. unfold last_hid. change (last (a :: f :: tl) PNone) with (last (f :: tl) PNone).
  destruct tl as [|x r]; [cbn [last]; destruct f; try discriminate Hf; reflexivity|].
  change (last (f :: x :: r) PNone) with (last (x :: r) PNone). exact Ht.
Qed.

Definition loc_nts (tag : Z) (fs : list tree) : bool :=
  if tag =? tTableConstructor then
    match fs with [_; Lst l; _] => match l with _ :: r => negb (last_hid r) | [] => true end | _ => true end
  else true.

Definition loc (tag : Z) (sh : bool) (fs : list tree) : bool :=
  loc_strict tag sh fs && loc_ifdo tag sh fs && loc_paren tag fs && (loc_nts tag fs || negb nts).

(* loc at the node classes where it is not trivially true *)
Lemma fields_strict_cons f l : is_hidden f = false -> fields_strict (f :: l) = fields_strict l.
Proof. destruct f; intros H; try discriminate H; reflexivity. Qed.

Lemma loc_table a l c : fields_strict l = true -> (nts = true -> match l with _ :: r => last_hid r = false | [] => True end) ->
  loc tTableConstructor false [a; Lst l; c] = true.
Proof.
  intros H Hn.
  change (loc tTableConstructor false [a; Lst l; c])
    with (fields_strict l && true && true && (match l with _ :: r => negb (last_hid r) | [] => true end || negb nts)).
  rewrite H. cbn [andb]. destruct nts; [|apply orb_true_r]. specialize (Hn eq_refl). destruct l; [reflexivity|]. rewrite Hn. reflexivity.
Qed.

Lemma loc_expvalue fs : existsb is_hid fs = false -> loc tExpValue false fs = true.
Proof.
  intros H. change (loc tExpValue false fs) with (negb (existsb is_hid fs) && true && true && true). rewrite H. reflexivity.
Qed.

Lemma loc_unop fs : existsb is_hid fs = false -> loc tExpUnOp false fs = true.
Proof.
  intros H. change (loc tExpUnOp false fs) with (negb (existsb is_hid fs) && true && true && true). rewrite H. reflexivity.
Qed.

Lemma not_hidden_not_hid x : is_hidden x = false -> is_hid x = false.
Proof. destruct x; intros H; try discriminate H; reflexivity. Qed.

Lemma loc_suffix tag first rest : is_suffix_tag tag = true -> is_paren first = false -> loc tag false (first :: rest) = true.
Proof.
  intros Ht Hp. unfold is_suffix_tag in Ht. unfold loc.
  assert (E : loc_paren tag (first :: rest) = true).
  { unfold loc_paren, is_suffix_tag. rewrite Ht, Hp. reflexivity. }
  rewrite E.
  destruct (tag =? tVarIndex) eqn:E1; [apply Z.eqb_eq in E1; subst tag; reflexivity|].
  destruct (tag =? tVarAttribute) eqn:E2; [apply Z.eqb_eq in E2; subst tag; reflexivity|].
  destruct (tag =? tFunctionCall) eqn:E3; [apply Z.eqb_eq in E3; subst tag; reflexivity|].
  destruct (tag =? tFunctionCallMethod) eqn:E4; [apply Z.eqb_eq in E4; subst tag; reflexivity | discriminate Ht].
Qed.

Lemma loc_if_long a c ti b rest e : is_none c = false -> forallb pair_has_cond rest = true ->
  tok_is ts (is_kw "then"%bs) ti = true -> loc tStatIf false [a; Lst (Lst [c; Kw ti; b] :: rest); e] = true.
Proof.
  intros H1 H2 H3.
  change (loc tStatIf false [a; Lst (Lst [c; Kw ti; b] :: rest); e])
    with (negb (is_none c) && forallb pair_has_cond rest && tok_is ts (is_kw "then"%bs) ti && true && true).
  rewrite H1, H2, H3. reflexivity.
Qed.

Lemma loc_if_short a i j x b ep : forallb pair_has_cond ep = true ->
  loc tStatIf true [a; Lst (Lst [Paren i j x; b] :: ep)] = true.
Proof.
  intros H. change (loc tStatIf true [a; Lst (Lst [Paren i j x; b] :: ep)]) with (forallb pair_has_cond ep && true && true && true).
  rewrite H. reflexivity.
Qed.

Fixpoint dom (t : tree) : bool :=
  match t with
  | Node tag _ _ sh fs => loc tag sh fs && forallb dom fs
  | Lst l => forallb dom l
  | Paren _ _ x => dom x
  | Hid x => dom x
  | _ => true
  end.

Lemma dom_writable t : dom t = true -> strict t = true /\ no_if_do ts t = true /\ no_paren_prefix t = true.
Proof.
  induction t as [tag s e sh fs IH| | l IH| | | | |i j x IH|x IH] using tree_ind'; intros H; try (repeat split; reflexivity).
  - cbn [dom] in H. apply andb_true_iff in H. destruct H as [Hl Hf]. unfold loc in Hl.
    apply andb_true_iff in Hl. destruct Hl as [Hl _].
    apply andb_true_iff in Hl. destruct Hl as [Hl H3]. apply andb_true_iff in Hl. destruct Hl as [H1 H2].
    assert (Hall : forallb strict fs = true /\ forallb (no_if_do ts) fs = true /\ forallb no_paren_prefix fs = true).
    { clear -IH Hf. induction IH as [|x r Hx _ IH2]; [repeat split; reflexivity|]. cbn [forallb] in *.
      apply andb_true_iff in Hf. destruct Hf as [A1 A2]. destruct (Hx A1) as (B1 & B2 & B3). destruct (IH2 A2) as (C1 & C2 & C3).
      rewrite B1, B2, B3, C1, C2, C3. repeat split; reflexivity. }
    destruct Hall as (A1 & A2 & A3). cbn [strict no_if_do no_paren_prefix]. rewrite A1, A2, A3, !andb_true_r.
    split; [exact H1|]. split; [exact H2 | exact H3].
  - cbn [dom] in H. cbn [strict no_if_do no_paren_prefix].
    induction IH as [|x r Hx _ IH2]; [repeat split; reflexivity|]. cbn [forallb] in *.
    apply andb_true_iff in H. destruct H as [A1 A2]. destruct (Hx A1) as (B1 & B2 & B3). destruct (IH2 A2) as (C1 & C2 & C3).
    rewrite B1, B2, B3, C1, C2, C3. repeat split; reflexivity.
  - cbn [dom] in H. cbn [strict no_if_do no_paren_prefix]. apply IH, H.
  - cbn [dom] in H. cbn [strict no_if_do no_paren_prefix]. apply IH, H.
Qed.

Lemma loc_nts_spec tag fs : loc_nts tag fs = true ->
  (if tag =? tTableConstructor then
     match fs with [_; Lst l; _] => match l with _ :: _ :: _ => negb (is_hid (last l PNone)) | _ => true end | _ => true end
   else true) = true.
Proof.
  unfold loc_nts. destruct (tag =? tTableConstructor); [|reflexivity].
  destruct fs as [|a [|[| |l| | | | | |] [|c [|? ?]]]]; try reflexivity.
  destruct l as [|x [|y r]]; try reflexivity. intros H. exact H.
Qed.

Lemma dom_nts t : nts = true -> dom t = true -> AstWriterDepth.no_trailing_sep t = true.
Proof.
  intros Hn. induction t as [tag s e sh fs IH| | l IH| | | | |i j x IH|x IH] using tree_ind'; intros H; try reflexivity.
  - cbn [dom] in H. apply andb_true_iff in H. destruct H as [Hl Hf]. unfold loc in Hl.
    apply andb_true_iff in Hl. destruct Hl as [_ Hl]. rewrite Hn in Hl. cbn [negb] in Hl. rewrite orb_false_r in Hl.
    cbn [AstWriterDepth.no_trailing_sep]. rewrite (loc_nts_spec _ _ Hl). cbn [andb].
    clear -IH Hf. induction IH as [|x r Hx _ IH2]; [reflexivity|]. cbn [forallb] in *.
    apply andb_true_iff in Hf. destruct Hf as [A1 A2]. rewrite (Hx A1), (IH2 A2). reflexivity.
  - cbn [dom] in H. cbn [AstWriterDepth.no_trailing_sep].
    induction IH as [|x r Hx _ IH2]; [reflexivity|]. cbn [forallb] in *.
    apply andb_true_iff in H. destruct H as [A1 A2]. rewrite (Hx A1), (IH2 A2). reflexivity.
  - cbn [dom] in H. cbn [AstWriterDepth.no_trailing_sep]. apply IH, H.
  - cbn [dom] in H. cbn [AstWriterDepth.no_trailing_sep]. apply IH, H.
Qed.

(* a list of keyword leaves *)
Definition is_kwl (x : tree) : bool := match x with Kw _ => true | _ => false end.

Lemma dom_kwl l : forallb is_kwl l = true -> forallb dom l = true.
Proof.
  induction l as [|x l IH]; [reflexivity|]. cbn [forallb]. intros H. apply andb_true_iff in H. destruct H as [H1 H2].
  destruct x; try discriminate H1. cbn [dom]. apply IH, H2.
Qed.

(* ------------------------------------------------------------------ the relations *)
Definition den (g t : tree) : bool := ParserComplete1.den g t && dom t.
Definition all2v (gs l : list tree) : bool := ParserComplete1.all2v gs l && forallb dom l.

Lemma den_old g t : den g t = true -> ParserComplete1.den g t = true.
Proof. unfold den. intros H. apply andb_true_iff in H. apply H. Qed.
Lemma den_dom g t : den g t = true -> dom t = true.
Proof. unfold den. intros H. apply andb_true_iff in H. apply H. Qed.
Lemma den_intro g t : ParserComplete1.den g t = true -> dom t = true -> den g t = true.
Proof. unfold den. intros -> ->. reflexivity. Qed.
Lemma all2v_old gs l : all2v gs l = true -> ParserComplete1.all2v gs l = true.
Proof. unfold all2v. intros H. apply andb_true_iff in H. apply H. Qed.
Lemma all2v_dom gs l : all2v gs l = true -> forallb dom l = true.
Proof. unfold all2v. intros H. apply andb_true_iff in H. apply H. Qed.
Lemma all2v_intro gs l : ParserComplete1.all2v gs l = true -> forallb dom l = true -> all2v gs l = true.
Proof. unfold all2v. intros -> ->. reflexivity. Qed.

Lemma all2v_nil : all2v [] [] = true.
Proof. reflexivity. Qed.
Lemma all2v_kw_l i gr l : all2v (Kw i :: gr) l = all2v gr l.
Proof. reflexivity. Qed.
Lemma all2v_hid_l h gr l : all2v (Hid h :: gr) l = all2v gr l.
Proof. reflexivity. Qed.
Lemma all2v_kw_r gs i l : all2v gs (Kw i :: l) = all2v gs l.
Proof. reflexivity. Qed.
Lemma all2v_hid_r gs h l : dom h = true -> all2v gs (Hid h :: l) = all2v gs l.
Proof. intros H. unfold all2v. cbn [forallb dom]. rewrite H. reflexivity. Qed.
Lemma all2v_cons x gr y lr : den x y = true -> is_hidden y = false -> all2v (x :: gr) (y :: lr) = all2v gr lr.
Proof.
  intros H Hy. unfold all2v. rewrite (ParserComplete1.all2v_cons x gr y lr (den_old _ _ H) Hy).
  cbn [forallb]. rewrite (den_dom _ _ H). reflexivity.
Qed.
Lemma forallb_app' {A} (f : A -> bool) a b : forallb f (a ++ b) = forallb f a && forallb f b.
Proof. induction a as [|x a IH]; [reflexivity|]. cbn [app forallb]. rewrite IH, andb_assoc. reflexivity. Qed.
Lemma all2v_app a la b lb : all2v a la = true -> all2v (a ++ b) (la ++ lb) = all2v b lb.
Proof.
  intros H. unfold all2v. rewrite (ParserComplete1.all2v_app a la b lb (all2v_old _ _ H)).
  rewrite forallb_app', (all2v_dom _ _ H). reflexivity.
Qed.
Lemma all2v_app_nil a la : all2v a la = true -> all2v a (la ++ []) = true.
Proof. rewrite app_nil_r. intros H; exact H. Qed.

Lemma den_node tag a b s e sh gfs tfs : (tag =? tChain) = false -> loc tag sh tfs = true ->
  den (Node tag a b sh gfs) (Node tag s e sh tfs) = all2v gfs tfs.
Proof.
  intros H Hl. unfold den, all2v. rewrite (ParserComplete1.den_node tag a b s e sh gfs tfs H). cbn [dom]. rewrite Hl. reflexivity.
Qed.
Lemma den_lst gl tl : den (Lst gl) (Lst tl) = all2v gl tl.
Proof. reflexivity. Qed.
Lemma den_paren_l i j x t : den (Paren i j x) t = den x t.
Proof. reflexivity. Qed.
Lemma den_paren_r g i j x : den g (Paren i j x) = den g x.
Proof. reflexivity. Qed.
Lemma den_tok i t u : den (Tok i t) (Tok i u) = true.
Proof. unfold den. rewrite ParserComplete1.den_tok. reflexivity. Qed.
Lemma den_pnone : den PNone PNone = true.
Proof. reflexivity. Qed.
Lemma den_pbool b : den (PBool b) (PBool b) = true.
Proof. unfold den. rewrite ParserComplete1.den_pbool. reflexivity. Qed.
Lemma den_pbytes b c : zlist_eqb b c = true -> den (PBytes b) (PBytes c) = true.
Proof. intros H. unfold den. rewrite (ParserComplete1.den_pbytes b c H). reflexivity. Qed.

(* chains *)
Definition ditems (items : list tree) (t : tree) : bool := ParserComplete2.ditems items t && dom t.

Lemma den_of_items g t : ditems (items_of g) t = true -> (forall x, items_of g = [x] -> den x t = true) ->
  (exists n s s', g_exp n g s = Some s') -> den g t = true.
Proof.
  intros H1 H2 H3. unfold ditems in H1. apply andb_true_iff in H1. destruct H1 as [H1 Hd]. apply den_intro; [|exact Hd].
  apply ParserComplete2.den_of_items; [exact H1 | | exact H3]. intros x Hx. apply den_old, H2, Hx.
Qed.

(* ------------------------------------------------------------------ the context of a sub-derivation *)
Definition gcond (g : tree) : bool := g_no_paren_suffix g && (g_no_trailing_sep g || negb nts).

Lemma gcond_fields l : g_no_paren_suffix (Lst l) && (g_no_trailing_sep (Lst l) || negb nts) = true -> forallb gcond l = true.
Proof.
  cbn [g_no_paren_suffix g_no_trailing_sep]. intros H. apply andb_true_iff in H. destruct H as [H1 H2].
  apply forallb_forall. intros x Hx. unfold gcond. rewrite (forallb_In _ _ _ H1 Hx). cbn [andb].
  destruct nts; [|apply orb_true_r]. rewrite orb_false_r in *. exact (forallb_In _ _ _ H2 Hx).
Qed.

Lemma gcond_node tag a b sh fs : gcond (Node tag a b sh fs) = true -> forallb gcond fs = true.
Proof.
  unfold gcond at 1. cbn [g_no_paren_suffix g_no_trailing_sep]. intros H. apply gcond_fields. cbn [g_no_paren_suffix g_no_trailing_sep].
  apply andb_true_iff in H. destruct H as [H1 H2]. apply andb_true_iff in H1. destruct H1 as [_ H1]. rewrite H1. cbn [andb].
  destruct nts; [|apply orb_true_r]. rewrite orb_false_r in *. apply andb_true_iff in H2. apply H2.
Qed.

Lemma gcond_expvalue a b sh x : gcond x = true -> gcond (Node tExpValue a b sh [x]) = true.
Proof.
  unfold gcond. cbn [g_no_paren_suffix g_no_trailing_sep forallb]. change (is_suffix_tag tExpValue) with false.
  change (tExpValue =? tTableConstructor) with false. cbv iota. rewrite !andb_true_r. cbn [andb]. intros H; exact H.
Qed.

Definition CTX (g : tree) (mx : option Z) : Prop :=
  in_frag g && gcond g = true /\ tokdata_ok ts g = true /\ (forall x, In x (short_ifs g) -> LS ts x = true) /\
  (forall j, In j (leaves g) -> fence_ok mx j = true).

Definition CTXL (l : list tree) (mx : option Z) : Prop := Forall (fun c => CTX c mx) l.

Lemma CTX_old g mx : CTX g mx -> ParserComplete2.CTX ts g mx.
Proof. intros (H1 & H2 & H3 & H4). apply andb_true_iff in H1. destruct H1 as [H1 _]. repeat split; assumption. Qed.
Lemma CTX_gcond g mx : CTX g mx -> gcond g = true.
Proof. intros (H1 & _). apply andb_true_iff in H1. apply H1. Qed.
Lemma CTX_gnp g mx : CTX g mx -> g_no_paren_suffix g = true.
Proof. intros H. apply CTX_gcond in H. unfold gcond in H. apply andb_true_iff in H. apply H. Qed.
Lemma CTX_gnts g mx : CTX g mx -> nts = true -> g_no_trailing_sep g = true.
Proof.
  intros H Hn. apply CTX_gcond in H. unfold gcond in H. apply andb_true_iff in H. destruct H as [_ H]. rewrite Hn, orb_false_r in H. exact H.
Qed.
Lemma CTX_intro g mx : ParserComplete2.CTX ts g mx -> gcond g = true -> CTX g mx.
Proof. intros (H1 & H2 & H3 & H4) Hg. repeat split; try assumption. rewrite H1, Hg. reflexivity. Qed.
Lemma CTXL_old l mx : CTXL l mx -> ParserComplete2.CTXL ts l mx.
Proof. intros H. induction H as [|c l Hc _ IH]; constructor; [apply CTX_old, Hc | exact IH]. Qed.
Lemma CTXL_intro l mx : ParserComplete2.CTXL ts l mx -> forallb gcond l = true -> CTXL l mx.
Proof.
  intros H. induction H as [|c l Hc _ IH]; intros Hg; constructor; cbn [forallb] in Hg; apply andb_true_iff in Hg.
  - apply CTX_intro; [exact Hc | apply Hg].
  - apply IH, Hg.
Qed.

Lemma CTX_node tag a b sh fs mx : CTX (Node tag a b sh fs) mx -> CTXL fs mx.
Proof.
  intros H. apply CTXL_intro; [eapply ParserComplete2.CTX_node, CTX_old, H|]. eapply gcond_node, CTX_gcond, H.
Qed.

Lemma CTX_lst l mx : CTX (Lst l) mx -> CTXL l mx.
Proof. intros H. apply CTXL_intro; [eapply ParserComplete2.CTX_lst, CTX_old, H | exact (gcond_fields _ (CTX_gcond _ _ H))]. Qed.

Lemma CTX_paren i j x mx : CTX (Paren i j x) mx -> CTX x mx /\ fence_ok mx i = true /\ fence_ok mx j = true.
Proof.
  intros H. destruct (ParserComplete2.CTX_paren ts i j x mx (CTX_old _ _ H)) as (A & B & C).
  split; [apply CTX_intro; [exact A | exact (CTX_gcond _ _ H)] | split; assumption].
Qed.

Lemma CTX_hid x mx : CTX (Hid x) mx -> CTX x mx.
Proof. intros H. exact H. Qed.

Lemma CTX_kw i mx : CTX (Kw i) mx -> fence_ok mx i = true.
Proof. intros H. eapply ParserComplete2.CTX_kw, CTX_old, H. Qed.

Lemma CTX_tok i t mx : CTX (Tok i t) mx -> fence_ok mx i = true.
Proof. intros H. eapply ParserComplete2.CTX_tok, CTX_old, H. Qed.

Lemma CTX_tokdata i t u mx : CTX (Tok i t) mx -> ParserProofs.tok_at ts i = Some u -> tdata u = tdata t.
Proof. intros H. eapply ParserComplete2.CTX_tokdata, CTX_old, H. Qed.

Lemma CTXL_cons c l mx : CTXL (c :: l) mx -> CTX c mx /\ CTXL l mx.
Proof. intros H. inversion H; subst. split; assumption. Qed.

Lemma CTXL_app a b mx : CTXL (a ++ b) mx -> CTXL a mx /\ CTXL b mx.
Proof. unfold CTXL. apply Forall_app. Qed.

Lemma CTX_refence g mx mx' : CTX g mx -> (forall j, In j (leaves g) -> fence_ok mx' j = true) -> CTX g mx'.
Proof. intros (H1 & H2 & H3 & _) H4. repeat split; assumption. Qed.

Lemma CTX_items g mx : CTX g mx -> CTXL (items_of g) mx.
Proof.
  intros H. destruct g; try (constructor; [exact H | constructor]). unfold items_of.
  destruct (tag =? tChain); [apply CTX_node in H; exact H | constructor; [exact H | constructor]].
Qed.

Lemma CTX_sh tag a b sh fs mx : CTX (Node tag a b sh fs) mx -> (tag =? tStatIf) = false -> sh = false.
Proof.
  intros H E. apply CTX_old in H. destruct H as (H & _). cbn [in_frag] in H. rewrite E in H. destruct sh; [discriminate H | reflexivity].
Qed.

End Dom.

Ltac ctx_split H :=
  repeat match type of H with
         | CTXL _ _ (_ :: _) _ =>
             let H1 := fresh "HC" in apply CTXL_cons in H; destruct H as [H1 H]
         end.
