(* C20: the model of process_includes refines the reference splice of Spec/SpliceSpec.v.
   B1 the regex recogniser agrees with the Spec's reading of include lines;
   B2 lines / texts;  B3 tabs;  B4 the refinement theorem. *)
From PV Require Import Base.Prelude Model.Paths Model.Include Spec.SpliceSpec Proofs.SpliceProofs Instances.HoldsC20.

(* ------------------------------------------------------------------ B1. recogniser *)
Lemma drop_spaces_skip s : drop_spaces s = skip_ws s.
Proof. induction s as [|c r IH]; [reflexivity|]. cbn [drop_spaces skip_ws]. change (is_space c) with (is_ws c). destruct (is_ws c); [exact IH|reflexivity]. Qed.

Lemma strip_prefix_drop p : forall s, strip_prefix p s = drop_prefix p s.
Proof. intros s. reflexivity. Qed.

Definition nows (s : bytes) : Prop := forallb (fun c => negb (is_ws c)) s = true.
Definition ws_start (s : bytes) : Prop := match s with [] => True | c :: _ => is_ws c = true end.
Definition nodot_nows (u : bytes) : Prop := forallb (fun c => negb (is_ws c) && negb (c =? 46)) u = true.

Lemma take_word_spec s : forall w rest, take_word s = (w, rest) -> s = w ++ rest /\ nows w /\ ws_start rest.
Proof.
  induction s as [|c r IH]; intros w rest H; cbn [take_word] in H.
  - injection H as <- <-. repeat split.
  - destruct (is_ws c) eqn:E.
    + injection H as <- <-. split; [reflexivity|]. split; [reflexivity|exact E].
    + destruct (take_word r) as [w' rest'] eqn:T. injection H as <- <-.
      destruct (IH w' rest' eq_refl) as (-> & Hw & Hr). split; [reflexivity|]. split; [|exact Hr].
      unfold nows. cbn [forallb]. rewrite E. exact Hw.
Qed.

Lemma skip_ws_app s t : skip_ws s <> [] -> skip_ws (s ++ t) = skip_ws s ++ t.
Proof.
  induction s as [|c r IH]; intros H; [cbn in H; congruence|]. cbn [skip_ws app] in *.
  destruct (is_ws c); [apply IH; exact H|reflexivity].
Qed.

Lemma skip_ws_all s t : skip_ws s = [] -> skip_ws (s ++ t) = skip_ws t.
Proof.
  induction s as [|c r IH]; intros H; [reflexivity|]. cbn [skip_ws app] in *.
  destruct (is_ws c); [apply IH; exact H|discriminate].
Qed.

Lemma skip_ws_head s c r : skip_ws s = c :: r -> is_ws c = false.
Proof.
  induction s as [|x s IH]; [discriminate|]. cbn [skip_ws]. destruct (is_ws x) eqn:E; [exact IH|].
  intros [= <- _]. exact E.
Qed.

Lemma drop_prefix_some p : forall s r, drop_prefix p s = Some r -> s = p ++ r.
Proof.
  induction p as [|x p IH]; intros s r H; [injection H as ->; reflexivity|].
  destruct s as [|y s]; [discriminate|]. cbn [drop_prefix] in H.
  destruct (Z.eqb_spec x y) as [->|]; [|discriminate]. rewrite (IH s r H). reflexivity.
Qed.

Lemma drop_prefix_app p r : drop_prefix p (p ++ r) = Some r.
Proof. induction p as [|x p IH]; [reflexivity|]. cbn [drop_prefix app]. rewrite Z.eqb_refl. exact IH. Qed.

Lemma drop_prefix_none_nl p : forall s, drop_prefix p s = None -> ~ In 10 p -> drop_prefix p (s ++ [10]) = None.
Proof.
  induction p as [|x p IH]; intros s H Hn; [discriminate|].
  destruct s as [|y s]; cbn [drop_prefix app] in *.
  - destruct (Z.eqb_spec x 10) as [->|]; [exfalso; apply Hn; left; reflexivity|reflexivity].
  - destruct (x =? y); [|reflexivity]. apply IH; [exact H|]. intros Hi. apply Hn. right. exact Hi.
Qed.

Lemma ext_at_nodot c s : c <> 46 -> ext_at (c :: s) = None.
Proof.
  intros H. unfold ext_at, ext_p8png, ext_p8, ext_lua. cbn [strip_prefix].
  assert (E : (46 =? c) = false) by (apply Z.eqb_neq; congruence). rewrite E. reflexivity.
Qed.

Lemma scan_ext_none_step c acc s :
  is_space c = false -> scan_ext (c :: acc) s = None -> ext_at (c :: s) = None -> scan_ext acc (c :: s) = None.
Proof. intros H1 H2 H3. cbn [scan_ext]. rewrite H1, H2, H3. destruct acc; reflexivity. Qed.

Lemma scan_ext_here c acc s ext after :
  is_space c = false -> scan_ext (c :: acc) s = None -> acc <> [] -> ext_at (c :: s) = Some (ext, after) ->
  scan_ext acc (c :: s) = Some (rev acc, ext, after).
Proof. intros H1 H2 H3 H4. cbn [scan_ext]. rewrite H1, H2, H4. destruct acc; [congruence|reflexivity]. Qed.

Lemma scan_ext_deeper c acc s x :
  is_space c = false -> scan_ext (c :: acc) s = Some x -> scan_ext acc (c :: s) = Some x.
Proof. intros H1 H2. cbn [scan_ext]. rewrite H1, H2. reflexivity. Qed.

Lemma scan_ext_nodot u : forall acc tail, nodot_nows u -> ws_start tail -> scan_ext acc (u ++ tail) = None.
Proof.
  induction u as [|c u IH]; intros acc tail Hu Ht.
  - cbn [app]. destruct tail as [|t tl]; [reflexivity|]. cbn [scan_ext]. cbn [ws_start] in Ht.
    change (is_space t) with (is_ws t). rewrite Ht. reflexivity.
  - unfold nodot_nows in Hu. cbn [forallb] in Hu. apply andb_true_iff in Hu as [Hc Hu].
    apply andb_true_iff in Hc as [Hc1 Hc2]. apply negb_true_iff in Hc1. apply negb_true_iff in Hc2.
    cbn [app]. apply scan_ext_none_step; [exact Hc1 | apply IH; assumption |].
    apply ext_at_nodot. apply Z.eqb_neq. exact Hc2.
Qed.

(* what may follow the extension: a selector / anything without blanks and dots, then a blank or the end *)
Definition tail_ok (X : bytes) : Prop := exists sel tail, X = sel ++ tail /\ nodot_nows sel /\ ws_start tail.

Lemma tail_ok_head X : tail_ok X -> match X with 46 :: _ => False | _ => True end.
Proof.
  intros (sel & tail & -> & Hs & Ht). destruct sel as [|c sel]; cbn [app].
  - destruct tail as [|t tl]; [exact I|]. cbn [ws_start] in Ht.
    destruct (Z.eqb_spec t 46) as [->|N]; [discriminate|].
    destruct t as [|p|p]; try exact I. do 6 (destruct p as [p|p|]; try exact I). congruence.
  - unfold nodot_nows in Hs. cbn [forallb] in Hs. apply andb_true_iff in Hs as [Hc _].
    apply andb_true_iff in Hc as [_ Hc]. apply negb_true_iff in Hc. apply Z.eqb_neq in Hc.
    destruct c as [|p|p]; try exact I. do 6 (destruct p as [p|p|]; try exact I). congruence.
Qed.

Lemma tail_ok_scan X u acc : tail_ok X -> nodot_nows u -> scan_ext acc (u ++ X) = None.
Proof.
  intros (sel & tail & -> & Hs & Ht) Hu. rewrite app_assoc. apply scan_ext_nodot; [|exact Ht].
  unfold nodot_nows in *. rewrite forallb_app, Hu, Hs. reflexivity.
Qed.

Lemma strip_png_none X : match X with 46 :: _ => False | _ => True end -> strip_prefix [46; 112; 110; 103] X = None.
Proof.
  destruct X as [|x X']; [reflexivity|]. intros H. cbn [strip_prefix].
  destruct (Z.eqb_spec 46 x) as [<-|N]; [destruct H|reflexivity].
Qed.

Lemma strip_prefix_common p q X : strip_prefix (p ++ q) (p ++ X) = strip_prefix q X.
Proof. induction p as [|x p IH]; [reflexivity|]. cbn [app strip_prefix]. rewrite Z.eqb_refl. exact IH. Qed.

Lemma scan_ext_at_ext ext X acc :
  ext = ext_p8png \/ ext = ext_p8 \/ ext = ext_lua -> tail_ok X -> acc <> [] ->
  scan_ext acc (ext ++ X) = Some (rev acc, ext, X).
Proof.
  intros He HX Hacc. pose proof (tail_ok_head X HX) as Hh.
  destruct He as [-> | [-> | ->]].
  - (* .p8.png *)
    unfold ext_p8png. cbn [app].
    apply scan_ext_here; [reflexivity| |exact Hacc|reflexivity].
    apply scan_ext_none_step; [reflexivity| |apply ext_at_nodot; discriminate].
    apply scan_ext_none_step; [reflexivity| |apply ext_at_nodot; discriminate].
    apply scan_ext_none_step; [reflexivity| |reflexivity].
    apply (tail_ok_scan X [112; 110; 103]); [exact HX|reflexivity].
  - (* .p8 *)
    unfold ext_p8. cbn [app].
    apply scan_ext_here; [reflexivity| |exact Hacc|].
    + apply (tail_ok_scan X [112; 56]); [exact HX|reflexivity].
    + change (46 :: 112 :: 56 :: X) with (ext_p8 ++ X). unfold ext_at.
      change ext_p8png with (ext_p8 ++ [46; 112; 110; 103]).
      rewrite strip_prefix_common, (strip_png_none X Hh), strip_prefix_drop, drop_prefix_app. reflexivity.
  - (* .lua *)
    unfold ext_lua. cbn [app].
    apply scan_ext_here; [reflexivity| |exact Hacc|reflexivity].
    apply (tail_ok_scan X [108; 117; 97]); [exact HX|reflexivity].
Qed.

Lemma scan_ext_found ext X :
  ext = ext_p8png \/ ext = ext_p8 \/ ext = ext_lua -> tail_ok X ->
  forall base acc, nows base -> (acc <> [] \/ base <> []) ->
  scan_ext acc (base ++ ext ++ X) = Some (rev acc ++ base, ext, X).
Proof.
  intros He HX. induction base as [|b base IH]; intros acc Hb Hne.
  - cbn [app]. rewrite app_nil_r. apply scan_ext_at_ext; try assumption. destruct Hne; congruence.
  - unfold nows in Hb. cbn [forallb] in Hb. apply andb_true_iff in Hb as [Hb1 Hb2]. apply negb_true_iff in Hb1.
    cbn [app]. apply scan_ext_deeper; [exact Hb1|].
    assert (Hn : b :: acc <> []) by discriminate.
    rewrite (IH (b :: acc) Hb2 (or_introl Hn)). cbn [rev]. rewrite <- app_assoc. reflexivity.
Qed.

(* ---- the selector ---- *)
Lemma scan_tab_not_colon c s : c <> 58 -> scan_tab (c :: s) = None.
Proof.
  intros H. unfold scan_tab. destruct c as [|p|p]; try reflexivity.
  do 6 (destruct p as [p|p|]; try reflexivity). congruence.
Qed.

Lemma ws_not_digit c : is_ws c = true -> is_dig c = false.
Proof. unfold is_ws, is_dig. lia. Qed.

Lemma take_digits_app ds tail : forallb is_dig ds = true -> ws_start tail -> take_digits (ds ++ tail) = ds.
Proof.
  induction ds as [|d r IH]; intros H Ht.
  - cbn [app]. destruct tail as [|t tl]; [reflexivity|]. cbn [take_digits ws_start] in *.
    change (is_digit t) with (is_dig t). rewrite (ws_not_digit t Ht). reflexivity.
  - cbn [forallb] in H. apply andb_true_iff in H as [Hd Hr]. cbn [app take_digits].
    change (is_digit d) with (is_dig d). rewrite Hd, (IH Hr Ht). reflexivity.
Qed.

Lemma scan_tab_selector ds tail :
  ds <> [] -> forallb is_dig ds = true -> ws_start tail -> scan_tab (58 :: ds ++ tail) = Some (decimal ds).
Proof.
  intros Hne Hd Ht. unfold scan_tab. rewrite (take_digits_app ds tail Hd Ht).
  destruct ds; [congruence|reflexivity].
Qed.

Lemma scan_tab_ws tail : ws_start tail -> scan_tab tail = None.
Proof.
  destruct tail as [|t tl]; [reflexivity|]. cbn [ws_start]. intros H. apply scan_tab_not_colon.
  intros ->. discriminate.
Qed.

Lemma leading_digits_spec r :
  r = leading_digits r ++ skipn (length (leading_digits r)) r /\ forallb is_dig (leading_digits r) = true.
Proof.
  induction r as [|c r IH]; [split; reflexivity|]. cbn [leading_digits].
  destruct (is_dig c) eqn:E; [|split; reflexivity].
  cbn [length skipn app forallb]. destruct IH as [IH1 IH2]. rewrite E, IH2. split; [f_equal; exact IH1|reflexivity].
Qed.

Lemma forallb_rev {A} (f : A -> bool) l : forallb f (rev l) = forallb f l.
Proof.
  induction l as [|x l IH]; [reflexivity|]. cbn [rev forallb]. rewrite forallb_app, IH. cbn [forallb].
  rewrite andb_true_r. apply andb_comm.
Qed.

Lemma split_selector_spec w name tab : split_selector w = (name, tab) ->
  (tab = None /\ name = w) \/
  (exists ds, ds <> [] /\ forallb is_dig ds = true /\ w = name ++ 58 :: ds /\ tab = Some (decimal ds)).
Proof.
  unfold split_selector. destruct (leading_digits_spec (rev w)) as [H1 H2].
  remember (leading_digits (rev w)) as ds eqn:Eds. remember (skipn (length ds) (rev w)) as rest eqn:Er.
  destruct ds as [|d ds']; [cbv beta iota; intros [= <- <-]; left; split; reflexivity|].
  rewrite <- Er.
  destruct rest as [|c rest']; [cbv beta iota; intros [= <- <-]; left; split; reflexivity|].
  destruct (Z.eqb_spec c 58) as [->|N].
  - intros [= <- <-]. right. exists (rev (d :: ds')). split; [|split; [|split; [|reflexivity]]].
    + intros E. apply (f_equal (@length Z)) in E. rewrite rev_length in E. discriminate.
    + rewrite forallb_rev. exact H2.
    + rewrite <- (rev_involutive w), H1. rewrite rev_app_distr. cbn [rev]. rewrite <- app_assoc. reflexivity.
  - assert (G : (let (n0, t0) := match c with 58 => (rev rest', Some (decimal (rev (d :: ds')))) | _ => (w, None) end in (n0, t0)) = (w, @None Z)).
    { destruct c as [|p|p]; try reflexivity. do 6 (destruct p as [p|p|]; try reflexivity). congruence. }
    intros H. left.
    assert (H' : (w, @None Z) = (name, tab)).
    { rewrite <- H. destruct c as [|p|p]; try reflexivity. do 6 (destruct p as [p|p|]; try reflexivity). congruence. }
    injection H' as <- <-. split; reflexivity.
Qed.

(* ---- the kind ---- *)
Definition ext_of (k : Z) : bytes := if k =? 2 then ext_p8png else if k =? 1 then ext_p8 else ext_lua.

Lemma chop_suffix_some suf s b : chop_suffix suf s = Some b -> s = b ++ suf.
Proof.
  unfold chop_suffix. destruct (drop_prefix (rev suf) (rev s)) as [r|] eqn:E; [|discriminate].
  intros [= <-]. apply drop_prefix_some in E. rewrite <- (rev_involutive s), E, rev_app_distr, rev_involutive. reflexivity.
Qed.

Lemma name_kind_some name k : name_kind name = Some k ->
  exists base, base <> [] /\ name = base ++ ext_of k /\ (k = 0 \/ k = 1 \/ k = 2).
Proof.
  unfold name_kind.
  destruct (chop_suffix sfx_p8png name) as [[|b0 b1]|] eqn:E1; [discriminate| |].
  { intros [= <-]. exists (b0 :: b1). split; [discriminate|]. split; [apply chop_suffix_some; exact E1|auto]. }
  destruct (chop_suffix sfx_p8 name) as [[|b0 b1]|] eqn:E2; [discriminate| |].
  { intros [= <-]. exists (b0 :: b1). split; [discriminate|]. split; [apply chop_suffix_some; exact E2|auto]. }
  destruct (chop_suffix sfx_lua name) as [[|b0 b1]|] eqn:E3; try discriminate.
  intros [= <-]. exists (b0 :: b1). split; [discriminate|]. split; [apply chop_suffix_some; exact E3|auto].
Qed.

Lemma nows_app a b : nows (a ++ b) -> nows a /\ nows b.
Proof. unfold nows. rewrite forallb_app. intros H. apply andb_true_iff in H. exact H. Qed.

Lemma digits_nodot ds : forallb is_dig ds = true -> nodot_nows ds.
Proof.
  unfold nodot_nows. induction ds as [|d r IH]; [reflexivity|]. cbn [forallb]. intros H.
  apply andb_true_iff in H as [Hd Hr]. rewrite (IH Hr), andb_true_r.
  unfold is_dig in Hd. unfold is_ws. lia.
Qed.

Definition is_term (nl : bytes) : Prop := nl = [] \/ nl = [10].

Lemma ws_start_term rest nl : ws_start rest -> is_term nl -> forallb is_ws rest = true -> ws_start (rest ++ nl).
Proof.
  intros H [-> | ->] _; [rewrite app_nil_r; exact H|]. destruct rest; [reflexivity|exact H].
Qed.

(* B1, include lines *)
Lemma classify_include_agrees l name k tab nl : is_term nl ->
  classify l = Include name k tab ->
  exists base, match_include_line (l ++ nl) = Some (base, ext_of k, tab) /\ name = base ++ ext_of k /\
    name_kind name = Some k /\ name_local name = true /\ (k = 0 -> tab = None).
Proof.
  intros Hnl. unfold classify.
  destruct (drop_prefix directive (skip_ws l)) as [r|] eqn:Ed; [|discriminate].
  destruct r as [|c r']; [discriminate|].
  destruct (is_ws c) eqn:Ec; cbn [negb]; [|discriminate].
  destruct (take_word (skip_ws (c :: r'))) as [w rest] eqn:Tw.
  destruct (forallb is_ws rest) eqn:Er; cbn [negb]; [|discriminate].
  destruct (split_selector w) as [nm tb] eqn:Es.
  destruct (name_kind nm) as [k0|] eqn:Ek; [|discriminate].
  destruct (name_local nm) eqn:El; cbn [negb]; [|discriminate].
  intros H.
  assert (Hres : nm = name /\ k0 = k /\ tb = tab /\ (k = 0 -> tab = None)).
  { destruct k0 as [|p|p]; [destruct tb; [discriminate|]| |]; injection H as <- <- <-; repeat split; try reflexivity; intros; discriminate. }
  destruct Hres as (-> & -> & -> & Hk0). clear H.
  destruct (name_kind_some name k Ek) as (base & Hbne & Hname & Hk).
  destruct (take_word_spec _ _ _ Tw) as (Hsk & Hw & Hrs).
  apply drop_prefix_some in Ed.
  (* the text the regex sees *)
  assert (Hl : drop_spaces (l ++ nl) = directive ++ (c :: r') ++ nl).
  { rewrite drop_spaces_skip, skip_ws_app; [rewrite Ed, <- app_assoc; reflexivity|]. rewrite Ed. discriminate. }
  assert (Hne : skip_ws (c :: r') <> []).
  { intros E. rewrite E in Tw. cbn [take_word] in Tw. injection Tw as <- <-.
    cbn in Es. injection Es as <- <-. discriminate. }
  assert (Hr : drop_spaces ((c :: r') ++ nl) = w ++ rest ++ nl).
  { rewrite drop_spaces_skip, skip_ws_app by exact Hne. rewrite Hsk, <- app_assoc. reflexivity. }
  unfold match_include_line. rewrite Hl, strip_prefix_drop. change kw_include with directive.
  rewrite drop_prefix_app. cbn [app]. change (is_space c) with (is_ws c). rewrite Ec.
  change (c :: r' ++ nl) with ((c :: r') ++ nl). rewrite Hr.
  assert (Htl : ws_start (rest ++ nl)) by (apply ws_start_term; assumption).
  assert (Hext : ext_of k = ext_p8png \/ ext_of k = ext_p8 \/ ext_of k = ext_lua).
  { destruct Hk as [-> | [-> | ->]]; cbn; auto. }
  destruct (split_selector_spec w name tab Es) as [(-> & <-)|(ds & Hds & Hdd & Hwd & ->)].
  - (* no selector *)
    exists base. split; [|repeat split; assumption].
    rewrite Hname in Hw. apply nows_app in Hw as [Hb _].
    rewrite Hname, <- !app_assoc.
    rewrite (scan_ext_found (ext_of k) (rest ++ nl) Hext); [| |exact Hb|right; exact Hbne].
    + cbn [rev app]. rewrite (scan_tab_ws _ Htl). reflexivity.
    + exists [], (rest ++ nl). split; [reflexivity|split; [reflexivity|exact Htl]].
  - (* selector *)
    exists base. split; [|repeat split; assumption].
    rewrite Hwd, Hname in Hw. apply nows_app in Hw as [Hw _]. apply nows_app in Hw as [Hb _].
    rewrite Hwd, Hname, <- !app_assoc. cbn [app].
    rewrite (scan_ext_found (ext_of k) (58 :: ds ++ rest ++ nl) Hext); [| |exact Hb|right; exact Hbne].
    + cbn [rev app]. rewrite (scan_tab_selector ds (rest ++ nl) Hds Hdd Htl). reflexivity.
    + exists (58 :: ds), (rest ++ nl). split; [reflexivity|]. split; [|exact Htl].
      unfold nodot_nows. cbn [forallb]. apply (digits_nodot ds Hdd).
Qed.

(* B1, plain lines *)
Lemma classify_plain_agrees l nl : is_term nl -> classify l = Plain -> match_include_line (l ++ nl) = None.
Proof.
  intros Hnl. unfold classify, match_include_line. change drop_spaces with skip_ws. change strip_prefix with drop_prefix. change kw_include with directive.
  destruct (skip_ws l) as [|s0 s1] eqn:Es.
  - (* blank line *)
    intros _. rewrite (skip_ws_all l nl Es). destruct Hnl as [-> | ->]; reflexivity.
  - rewrite skip_ws_app by (rewrite Es; discriminate). rewrite Es.
    destruct (drop_prefix directive (s0 :: s1)) as [r|] eqn:Ed.
    + apply drop_prefix_some in Ed. rewrite Ed, <- app_assoc, drop_prefix_app.
      destruct r as [|c r'].
      * intros _. cbn [app]. destruct Hnl as [-> | ->]; reflexivity.
      * cbn [app]. change (is_space c) with (is_ws c). destruct (is_ws c); cbn [negb]; [|reflexivity].
        destruct (take_word (skip_ws (c :: r'))) as [w rest]. destruct (forallb is_ws rest); cbn [negb]; [|discriminate].
        destruct (split_selector w) as [nm tb]. destruct (name_kind nm) as [k0|]; [|discriminate].
        destruct (name_local nm); cbn [negb]; [|discriminate].
        destruct k0 as [|p|p]; [destruct tb|..]; discriminate.
    + intros _. destruct Hnl as [-> | ->]; [rewrite app_nil_r, Ed; reflexivity|].
      rewrite (drop_prefix_none_nl directive (s0 :: s1) Ed); [reflexivity|].
      cbn. intuition discriminate.
Qed.

(* ------------------------------------------------------------------ B2. lines and texts *)
Fixpoint strip_nl (s : bytes) : bytes :=
  match s with
  | [] => []
  | c :: r => match r with [] => if c =? 10 then [] else [c] | _ => c :: strip_nl r end
  end.

Definition no_nl (s : bytes) : Prop := forallb (fun c => negb (c =? 10)) s = true.
(* a chunk that is one line: at most one "\n", at its end *)
Definition line_like (l : bytes) : Prop := no_nl (strip_nl l).
Definition terminated (l : bytes) : Prop := exists body, l = body ++ [10] /\ no_nl body.

Lemma strip_nl_cons c r : r <> [] -> strip_nl (c :: r) = c :: strip_nl r.
Proof. destruct r; [congruence|reflexivity]. Qed.

Lemma strip_nl_term body : no_nl body -> strip_nl (body ++ [10]) = body.
Proof.
  induction body as [|c b IH]; intros H; [reflexivity|].
  unfold no_nl in H. cbn [forallb] in H. apply andb_true_iff in H as [_ Hb].
  cbn [app]. rewrite strip_nl_cons by (destruct b; discriminate). rewrite (IH Hb). reflexivity.
Qed.

Lemma strip_nl_inv l : l = strip_nl l \/ l = strip_nl l ++ [10].
Proof.
  induction l as [|c r IH]; [left; reflexivity|].
  destruct r as [|d r'].
  - cbn [strip_nl]. destruct (Z.eqb_spec c 10) as [->|]; [right|left]; reflexivity.
  - rewrite strip_nl_cons by discriminate. destruct IH as [IH|IH]; [left|right]; cbn [app]; f_equal; exact IH.
Qed.

Lemma ends_with_nl_spec l : if ends_with_nl l then l = strip_nl l ++ [10] else strip_nl l = l.
Proof.
  induction l as [|c r IH]; [reflexivity|].
  destruct r as [|d r'].
  - cbn [ends_with_nl strip_nl]. destruct (Z.eqb_spec c 10) as [->|]; reflexivity.
  - change (ends_with_nl (c :: d :: r')) with (ends_with_nl (d :: r')).
    rewrite strip_nl_cons by discriminate. destruct (ends_with_nl (d :: r')); cbn [app]; f_equal; exact IH.
Qed.

Lemma yielded_line l : line_like l -> yielded 1 l = strip_nl l ++ [10].
Proof.
  intros _. unfold yielded. cbn [Z.eqb]. pose proof (ends_with_nl_spec l) as H.
  destruct (ends_with_nl l); [exact H|rewrite H; reflexivity].
Qed.

Lemma yielded_terminated l : line_like l -> terminated (yielded 1 l) /\ strip_nl (yielded 1 l) = strip_nl l.
Proof.
  intros H. rewrite (yielded_line l H). split; [exists (strip_nl l); split; [reflexivity|exact H]|].
  apply strip_nl_term. exact H.
Qed.

Lemma text_lines_line body more : no_nl body -> text_lines (body ++ 10 :: more) = body :: text_lines more.
Proof.
  induction body as [|c b IH]; intros H; [reflexivity|].
  unfold no_nl in H. cbn [forallb] in H. apply andb_true_iff in H as [Hc Hb]. apply negb_true_iff in Hc.
  cbn [app text_lines]. rewrite Hc, (IH Hb). reflexivity.
Qed.

Lemma text_lines_terminated ls more :
  Forall terminated ls -> text_lines (concat ls ++ more) = map strip_nl ls ++ text_lines more.
Proof.
  induction 1 as [|l r (body & -> & Hb) _ IH]; [reflexivity|].
  cbn [concat map]. rewrite <- !app_assoc. cbn [app]. rewrite (text_lines_line body _ Hb), IH, (strip_nl_term body Hb).
  reflexivity.
Qed.

Lemma text_lines_nil_iff s : text_lines s = [] <-> s = [].
Proof.
  split; [|intros ->; reflexivity]. destruct s as [|c r]; [reflexivity|]. cbn [text_lines].
  destruct (c =? 10); [discriminate|]. destruct (text_lines r); discriminate.
Qed.

Lemma file_lines_nil_iff s : file_lines s = [] <-> s = [].
Proof.
  split; [|intros ->; reflexivity]. destruct s as [|c r]; [reflexivity|]. cbn [file_lines].
  destruct (c =? 10); [discriminate|]. destruct (file_lines r); discriminate.
Qed.

Lemma file_lines_nonempty b : Forall (fun l => l <> []) (file_lines b).
Proof.
  induction b as [|c r IH]; [constructor|]. cbn [file_lines]. destruct (c =? 10).
  - constructor; [discriminate|exact IH].
  - destruct (file_lines r) as [|h t]; [constructor; [discriminate|constructor]|].
    inversion IH; subst. constructor; [discriminate|assumption].
Qed.

Lemma text_lines_no_nl s : Forall no_nl (text_lines s).
Proof.
  induction s as [|c r IH]; [constructor|]. cbn [text_lines]. destruct (c =? 10) eqn:E.
  - constructor; [reflexivity|exact IH].
  - destruct (text_lines r) as [|h t]; [constructor; [|constructor]|].
    + unfold no_nl. cbn [forallb]. rewrite E. reflexivity.
    + inversion IH; subst. constructor; [|assumption]. unfold no_nl in *. cbn [forallb]. rewrite E. assumption.
Qed.

(* iterating over a text file yields its lines *)
Lemma file_lines_text b : map strip_nl (file_lines b) = text_lines b.
Proof.
  induction b as [|c r IH]; [reflexivity|]. cbn [file_lines text_lines].
  destruct (Z.eqb_spec c 10) as [->|N].
  - cbn [map]. rewrite IH. reflexivity.
  - pose proof (file_lines_nonempty r) as Hne.
    destruct (file_lines r) as [|h t] eqn:E.
    + apply file_lines_nil_iff in E. subst r. cbn [map strip_nl text_lines].
      destruct (Z.eqb_spec c 10); [congruence|reflexivity].
    + cbn [map] in *. rewrite <- IH. inversion Hne; subst. rewrite strip_nl_cons by assumption. reflexivity.
Qed.

Lemma file_lines_line_like b : Forall line_like (file_lines b).
Proof.
  pose proof (text_lines_no_nl b) as H. rewrite <- file_lines_text in H.
  unfold line_like. apply Forall_forall. intros l Hl. rewrite Forall_forall in H. apply H.
  apply in_map. exact Hl.
Qed.

(* ------------------------------------------------------------------ B3. tabs *)
Lemma starts_with_app_nl p : forall s, ~ In 10 p -> starts_with p (s ++ [10]) = starts_with p s.
Proof.
  induction p as [|x p IH]; intros s H; [reflexivity|].
  destruct s as [|y s]; cbn [app starts_with].
  - destruct (Z.eqb_spec x 10) as [->|]; [exfalso; apply H; left; reflexivity|reflexivity].
  - rewrite IH; [reflexivity|]. intros Hi. apply H. right. exact Hi.
Qed.

Lemma tab_line_iff c :
  negb (starts_with tab_sep (strip_nl c)) || zlist_eqb (strip_nl c) tab_sep = true ->
  is_tab_line c = zlist_eqb (strip_nl c) tab_sep.
Proof.
  intros H. unfold is_tab_line. change tab_marker with tab_sep.
  assert (Hs : starts_with tab_sep c = starts_with tab_sep (strip_nl c)).
  { destruct (strip_nl_inv c) as [E|E]; [rewrite <- E; reflexivity|].
    rewrite E at 1. apply starts_with_app_nl. cbn. intuition discriminate. }
  rewrite Hs. destruct (zlist_eqb (strip_nl c) tab_sep) eqn:Ez.
  - apply zlist_eqb_eq in Ez. rewrite Ez. reflexivity.
  - rewrite orb_false_r in H. apply negb_true_iff in H. exact H.
Qed.

Lemma split_tabs_nonnil ls : split_tabs ls <> [].
Proof.
  destruct ls as [|l r]; [discriminate|]. cbn [split_tabs].
  destruct (zlist_eqb l tab_sep); [discriminate|]. destruct (split_tabs r); discriminate.
Qed.

Lemma split_tabs_map chunks :
  tabs_defined (map strip_nl chunks) = true ->
  map (map strip_nl) (split_at_tabs chunks) = split_tabs (map strip_nl chunks).
Proof.
  induction chunks as [|c r IH]; intros H; [reflexivity|].
  cbn [map tabs_defined forallb] in H. apply andb_true_iff in H as [Hc Hr]. specialize (IH Hr).
  cbn [split_at_tabs map split_tabs]. rewrite (tab_line_iff c Hc).
  destruct (zlist_eqb (strip_nl c) tab_sep).
  - cbn [map]. rewrite IH. reflexivity.
  - pose proof (split_at_tabs_nonnil r) as Hn.
    destruct (split_at_tabs r) as [|h t]; [congruence|]. cbn [map] in *. rewrite <- IH. reflexivity.
Qed.

Lemma lines_for_tab_tabs chunks n :
  0 <= n -> tabs_defined (map strip_nl chunks) = true ->
  map strip_nl (lines_for_tab chunks (Some n)) = nth (Z.to_nat n) (split_tabs (map strip_nl chunks)) [].
Proof.
  intros Hn Ht. destruct (lines_for_tab_spec chunks) as (_ & H & _). rewrite (H n Hn).
  rewrite <- (split_tabs_map chunks Ht).
  change (@nil bytes) with (map strip_nl []) at 2. rewrite map_nth. reflexivity.
Qed.

Lemma lines_for_tab_go_incl ls tab : forall cur x, In x (lines_for_tab_go cur ls tab) -> In x ls.
Proof.
  induction ls as [|l r IH]; intros cur x H; [exact H|]. cbn [lines_for_tab_go] in H.
  destruct (is_tab_line l); destruct tab as [t|].
  - right. eapply IH; exact H.
  - destruct H as [<-|H]; [left; reflexivity|right; eapply IH; exact H].
  - destruct (t =? cur); [destruct H as [<-|H]; [left; reflexivity|]|]; right; eapply IH; exact H.
  - destruct H as [<-|H]; [left; reflexivity|right; eapply IH; exact H].
Qed.

Lemma lines_for_tab_line_like chunks tab : Forall line_like chunks -> Forall line_like (lines_for_tab chunks tab).
Proof.
  intros H. apply Forall_forall. intros x Hx. rewrite Forall_forall in H. apply H.
  unfold lines_for_tab in Hx. eapply lines_for_tab_go_incl. exact Hx.
Qed.

(* ------------------------------------------------------------------ B4. the refinement *)
Lemma decimal_nonneg ds : forallb is_dig ds = true -> 0 <= decimal ds.
Proof. intros H. unfold decimal. apply int_of_digits_nonneg; [exact H|lia]. Qed.

Lemma classify_tab_nonneg l name k n : classify l = Include name k (Some n) -> 0 <= n.
Proof.
  unfold classify.
  destruct (drop_prefix directive (skip_ws l)) as [r|]; [|discriminate].
  destruct r as [|c r']; [discriminate|]. destruct (is_ws c); cbn [negb]; [|discriminate].
  destruct (take_word (skip_ws (c :: r'))) as [w rest].
  destruct (forallb is_ws rest); cbn [negb]; [|discriminate].
  destruct (split_selector w) as [nm tb] eqn:Es.
  destruct (name_kind nm) as [k0|]; [|discriminate].
  destruct (name_local nm); cbn [negb]; [|discriminate].
  intros H. assert (tb = Some n).
  { destruct k0 as [|p|p]; [destruct tb; [discriminate|]| |]; injection H as _ _ ->; reflexivity. }
  subst tb. destruct (split_selector_spec w nm (Some n) Es) as [(E & _)|(ds & _ & Hd & _ & E)]; [discriminate|].
  injection E as ->. apply decimal_nonneg. exact Hd.
Qed.

Lemma sp_seq_ok a b ls : sp_seq a b = SpOk ls -> exists x y, a = SpOk x /\ b = SpOk y /\ ls = x ++ y.
Proof. destruct a as [x| |], b as [y| |]; try discriminate. intros [= <-]. exists x, y. repeat split. Qed.

Lemma sp_seq_missing a b : sp_seq a b = SpMissing ->
  a = SpMissing \/ (exists x, a = SpOk x /\ b = SpMissing).
Proof. destruct a as [x| |], b as [y| |]; try discriminate; intros _; [right; exists x; split; reflexivity|left; reflexivity|left; reflexivity]. Qed.

Lemma lines_eqb_refl a : HoldsC20.lines_eqb a a = true.
Proof.
  induction a as [|x a IH]; [reflexivity|]. cbn [HoldsC20.lines_eqb]. rewrite IH, andb_true_r.
  apply zlist_eqb_eq. reflexivity.
Qed.

Section Refine.
Variable decode : bytes -> result bytes.
Variable resolve : bytes -> result bytes.
Variable target : bytes -> bytes -> option (list bytes).
Variable content : bytes -> Z -> option bytes.

(* the chunks the cart reader hands over are the lines of the cart's code text *)
Definition cart_view_ok (chunks : list bytes) (code : bytes) : Prop :=
  Forall line_like chunks /\ map strip_nl chunks = text_lines code.

(* the model's file system and the Spec's directory content describe the same files; the name in the line
   (P8SCII bytes, base ++ extension) is first decoded to a file name *)
Definition view_ok : Prop := forall base k,
  name_kind (base ++ ext_of k) = Some k -> name_local (base ++ ext_of k) = true ->
  match content (base ++ ext_of k) k with
  | None => (exists e, decode base = Err e) \/ (exists nm e, decode base = Ok nm /\ resolve (nm ++ ext_of k) = Err e)
  | Some txt => exists nm p, decode base = Ok nm /\ resolve (nm ++ ext_of k) = Ok p /\
      (k = 0 -> target p (ext_of 0) = Some (file_lines txt)) /\
      (k <> 0 -> exists chunks, target p (ext_of k) = Some chunks /\ cart_view_ok chunks txt)
  end.

Hypothesis Hview : view_ok.

Notation expand_m := (expand_line 1 true decode resolve target).

Lemma map_yielded ls : Forall line_like ls ->
  Forall terminated (map (yielded 1) ls) /\ map strip_nl (map (yielded 1) ls) = map strip_nl ls.
Proof.
  induction 1 as [|l r Hl _ [IH1 IH2]]; [split; [constructor|reflexivity]|].
  destruct (yielded_terminated l Hl) as [H1 H2]. cbn [map]. split; [constructor; assumption|].
  rewrite H2, IH2. reflexivity.
Qed.

(* one line of the including cart, as the reader hands it over: with its "\n", or - the last line of a
   file that does not end in a newline - without *)
Lemma expand_refines_gen body nl :
  is_term nl -> no_nl body ->
  match expand content body with
  | SpOk ls => exists c, expand_m (body ++ nl) = Ok c /\
                 ((Forall terminated c /\ map strip_nl c = ls) \/ (nl = [] /\ c = [body] /\ ls = [body]))
  | SpMissing => exists e, expand_m (body ++ nl) = Err e
  | SpUndefined => True
  end.
Proof.
  intros Hnl Hb. unfold expand. destruct (classify body) as [|name k tab|] eqn:Ec; [| |exact I].
  - (* plain *)
    exists [body ++ nl]. split; [apply plain_line_expands; apply classify_plain_agrees; [exact Hnl|exact Ec]|].
    destruct Hnl as [-> | ->].
    + right. rewrite app_nil_r. repeat split.
    + left. split; [constructor; [exists body; split; [reflexivity|exact Hb]|constructor]|].
      cbn [map]. rewrite (strip_nl_term body Hb). reflexivity.
  - (* include *)
    destruct (classify_include_agrees body name k tab nl Hnl Ec) as (base & Hm & Hname & Hk & Hl & Hk0).
    unfold expand_line. rewrite Hm. unfold include_lines. cbn [negb].
    rewrite Hname in Hk, Hl. pose proof (Hview base k Hk Hl) as Hv. rewrite <- Hname in Hv. unfold target_lines.
    destruct (content name k) as [txt|].
    2:{ destruct Hv as [(e & ->)|(nm & e & -> & Hr)]; [exists e; reflexivity|]. cbn [bind]. rewrite Hr. exists e. reflexivity. }
    destruct Hv as (nm & p & -> & Hr & Hlua & Hcart). cbn [bind]. rewrite Hr. cbn [bind].
    destruct (Z.eq_dec k 0) as [->|Hk1].
    + (* text file *)
      rewrite (Hlua eq_refl), (Hk0 eq_refl). cbn [ext_of Z.eqb is_cart_ext].
      change (is_cart_ext ext_lua) with false. cbv iota.
      destruct (map_yielded (file_lines txt) (file_lines_line_like txt)) as [H1 H2].
      eexists. split; [reflexivity|]. left. split; [exact H1|]. rewrite H2. apply file_lines_text.
    + (* cart *)
      destruct (Hcart Hk1) as (chunks & -> & Hll & Hmap).
      assert (Hce : is_cart_ext (ext_of k) = true).
      { destruct (name_kind_some _ k Hk) as (_ & _ & _ & [->|[->| ->]]); [congruence|reflexivity|reflexivity]. }
      rewrite Hce. destruct tab as [n|].
      * destruct (tabs_defined (text_lines txt)) eqn:Et; [|exact I].
        destruct (map_yielded _ (lines_for_tab_line_like chunks (Some n) Hll)) as [H1 H2].
        eexists. split; [reflexivity|]. left. split; [exact H1|]. rewrite H2, <- Hmap.
        apply lines_for_tab_tabs; [exact (classify_tab_nonneg body name k n Ec)|rewrite Hmap; exact Et].
      * destruct (lines_for_tab_spec chunks) as (Hall & _). rewrite Hall.
        destruct (map_yielded chunks Hll) as [H1 H2].
        eexists. split; [reflexivity|]. left. split; [exact H1|]. rewrite H2. exact Hmap.
Qed.

Lemma expand_refines body :
  no_nl body ->
  match expand content body with
  | SpOk ls => exists c, expand_m (body ++ [10]) = Ok c /\ Forall terminated c /\ map strip_nl c = ls
  | SpMissing => exists e, expand_m (body ++ [10]) = Err e
  | SpUndefined => True
  end.
Proof.
  intros Hb. pose proof (expand_refines_gen body [10] (or_intror eq_refl) Hb) as H.
  destruct (expand content body) as [ls| |]; [|exact H|exact I].
  destruct H as (c & Hc & [H|(E & _)]); [exists c; split; [exact Hc|exact H]|discriminate].
Qed.

(* the whole cart: host chunks are the terminated lines the .p8 reader produces *)
Lemma splice_refines bodies :
  Forall no_nl bodies ->
  let hs := map (fun b => b ++ [10]) bodies in
  match ref_splice content bodies with
  | SpOk ls => exists out, process_includes 1 true decode resolve target hs = Ok out /\ Forall terminated out /\ map strip_nl out = ls
  | SpMissing => exists e, process_includes 1 true decode resolve target hs = Err e
  | SpUndefined => True
  end.
Proof.
  intros Hb. cbv zeta. induction Hb as [|b r Hb1 _ IH]; [exists []; repeat split; constructor|].
  cbn [ref_splice map]. rewrite process_includes_collect. cbn [map collect]. rewrite <- process_includes_collect.
  pose proof (expand_refines b Hb1) as He.
  destruct (sp_seq (expand content b) (ref_splice content r)) as [ls| |] eqn:Es; [| |exact I].
  - apply sp_seq_ok in Es as (x & y & Ex & Ey & ->). rewrite Ex in He. rewrite Ey in IH.
    destruct He as (c & -> & Hc1 & Hc2). destruct IH as (out & -> & Ho1 & Ho2). cbn [bind].
    exists (c ++ out). split; [reflexivity|]. split; [apply Forall_app; split; assumption|].
    rewrite map_app, Hc2, Ho2. reflexivity.
  - apply sp_seq_missing in Es as [Ex|(x & Ex & Ey)].
    + rewrite Ex in He. destruct He as (e & ->). exists e. reflexivity.
    + rewrite Ex in He. rewrite Ey in IH. destruct He as (c & -> & _). destruct IH as (e & ->).
      exists e. reflexivity.
Qed.

Definition model_outcome (r : result (list bytes)) : option bytes :=
  match r with Ok out => Some (concat out) | Err _ => None end.

(* C20_in_place / refinement, on texts: whenever the description defines the result, the model produces it *)
Lemma model_meets_spec bodies :
  Forall no_nl bodies ->
  let hs := map (fun b => b ++ [10]) bodies in
  let impl := model_outcome (process_includes 1 true decode resolve target hs) in
  text_lines (concat hs) = bodies /\
  match ref_splice content bodies with
  | SpOk ls => exists t, impl = Some t /\ text_lines t = ls
  | SpMissing => impl = None
  | SpUndefined => True
  end.
Proof.
  intros Hb. cbv zeta. split.
  - assert (Ht : Forall terminated (map (fun b => b ++ [10]) bodies)).
    { apply Forall_forall. intros l Hl. apply in_map_iff in Hl as (b & <- & Hin). exists b. split; [reflexivity|].
      rewrite Forall_forall in Hb. apply Hb. exact Hin. }
    pose proof (text_lines_terminated _ [] Ht) as H. rewrite !app_nil_r in H. rewrite H, map_map.
    clear Ht H. induction Hb as [|b r Hb1 _ IH]; [reflexivity|]. cbn [map]. rewrite (strip_nl_term b Hb1), IH. reflexivity.
  - pose proof (splice_refines bodies Hb) as H. cbv zeta in H.
    destruct (ref_splice content bodies) as [ls| |]; [| |exact I].
    + destruct H as (out & -> & Ho1 & Ho2). exists (concat out). split; [reflexivity|].
      pose proof (text_lines_terminated out [] Ho1) as Ht. rewrite !app_nil_r in Ht. rewrite Ht. exact Ho2.
    + destruct H as (e & ->). reflexivity.
Qed.
(* the same when the cart's last line has no final newline (a .p8 file that ends inside its code section) *)
Lemma text_lines_last body : no_nl body -> body <> [] -> text_lines body = [body].
Proof.
  induction body as [|c b IH]; intros H Hne; [congruence|].
  unfold no_nl in H. cbn [forallb] in H. apply andb_true_iff in H as [Hc Hb]. apply negb_true_iff in Hc.
  cbn [text_lines]. rewrite Hc. destruct b as [|d b']; [reflexivity|].
  rewrite (IH Hb) by discriminate. reflexivity.
Qed.

Lemma splice_refines_last init last :
  Forall no_nl init -> no_nl last -> last <> [] ->
  let hs := map (fun b => b ++ [10]) init ++ [last] in
  match ref_splice content (init ++ [last]) with
  | SpOk ls => exists out, process_includes 1 true decode resolve target hs = Ok out /\ text_lines (concat out) = ls
  | SpMissing => exists e, process_includes 1 true decode resolve target hs = Err e
  | SpUndefined => True
  end.
Proof.
  intros Hi Hl Hne. cbv zeta. induction Hi as [|b r Hb1 _ IH].
  - cbn [app map ref_splice]. rewrite process_includes_collect. cbn [map collect].
    pose proof (expand_refines_gen last [] (or_introl eq_refl) Hl) as He. rewrite app_nil_r in He.
    destruct (expand content last) as [ls| |]; cbn [sp_seq]; [| |exact I].
    + rewrite (app_nil_r ls). destruct He as (c & -> & [(Ht & Hm)|(_ & -> & ->)]); cbn [bind]; rewrite app_nil_r.
      * exists c. split; [reflexivity|]. pose proof (text_lines_terminated c [] Ht) as H. rewrite !app_nil_r in H.
        rewrite H. exact Hm.
      * exists [last]. split; [reflexivity|]. cbn [concat]. rewrite app_nil_r. apply text_lines_last; assumption.
    + destruct He as (e & ->). exists e. reflexivity.
  - cbn [app ref_splice map]. rewrite process_includes_collect. cbn [map collect]. rewrite <- process_includes_collect.
    pose proof (expand_refines b Hb1) as He.
    destruct (sp_seq (expand content b) (ref_splice content (r ++ [last]))) as [ls| |] eqn:Es; [| |exact I].
    + apply sp_seq_ok in Es as (x & y & Ex & Ey & ->). rewrite Ex in He. rewrite Ey in IH.
      destruct He as (c & -> & Hc1 & Hc2). destruct IH as (out & -> & Ho). cbn [bind].
      exists (c ++ out). split; [reflexivity|]. rewrite concat_app, (text_lines_terminated c _ Hc1), Hc2, Ho. reflexivity.
    + apply sp_seq_missing in Es as [Ex|(x & Ex & Ey)].
      * rewrite Ex in He. destruct He as (e & ->). exists e. reflexivity.
      * rewrite Ex in He. rewrite Ey in IH. destruct He as (c & -> & _). destruct IH as (e & ->).
        exists e. reflexivity.
Qed.

Lemma model_meets_spec_last init last :
  Forall no_nl init -> no_nl last -> last <> [] ->
  let hs := map (fun b => b ++ [10]) init ++ [last] in
  let impl := model_outcome (process_includes 1 true decode resolve target hs) in
  text_lines (concat hs) = init ++ [last] /\
  match ref_splice content (init ++ [last]) with
  | SpOk ls => exists t, impl = Some t /\ text_lines t = ls
  | SpMissing => impl = None
  | SpUndefined => True
  end.
Proof.
  intros Hi Hl Hne. cbv zeta. split.
  - assert (Ht : Forall terminated (map (fun b => b ++ [10]) init)).
    { apply Forall_forall. intros l Hin. apply in_map_iff in Hin as (b & <- & Hb). exists b. split; [reflexivity|].
      rewrite Forall_forall in Hi. apply Hi. exact Hb. }
    rewrite concat_app. cbn [concat]. rewrite app_nil_r, (text_lines_terminated _ last Ht), map_map, (text_lines_last last Hl Hne).
    f_equal. clear Ht. induction Hi as [|b r Hb1 _ IH]; [reflexivity|]. cbn [map]. rewrite (strip_nl_term b Hb1), IH. reflexivity.
  - pose proof (splice_refines_last init last Hi Hl Hne) as H. cbv zeta in H.
    destruct (ref_splice content (init ++ [last])) as [ls| |]; [| |exact I].
    + destruct H as (out & -> & Ho). exists (concat out). split; [reflexivity|exact Ho].
    + destruct H as (e & ->). reflexivity.
Qed.
End Refine.

(* ... hence the instance predicate holds of the model's own result *)
Lemma model_holds_C20 decode resolve target files bodies :
  view_ok decode resolve target (HoldsC20.lookup_content files) ->
  Forall no_nl bodies ->
  let hs := map (fun b => b ++ [10]) bodies in
  HoldsC20.holds_C20 (concat hs) files (model_outcome (process_includes 1 true decode resolve target hs)) = true.
Proof.
  intros Hv Hb. cbv zeta.
  destruct (model_meets_spec decode resolve target (HoldsC20.lookup_content files) Hv bodies Hb) as [Ht Hs].
  cbv zeta in Ht, Hs. unfold HoldsC20.holds_C20, HoldsC20.judge_C20. rewrite Ht.
  destruct (ref_splice (HoldsC20.lookup_content files) bodies) as [ls| |]; [| |reflexivity].
  - destruct Hs as (t & -> & <-). rewrite lines_eqb_refl. reflexivity.
  - rewrite Hs. reflexivity.
Qed.

(* ------------------------------------------------------------------ statements for Properties/C20.v *)
From PV Require Import Model.FilesInst Proofs.IncludeProofs Generated.T_files_p8.

Definition has_name (filename : option bytes) : bool := match filename with Some _ => true | None => false end.

Definition resolve_now (cwd home : bytes) (fs : fsview) (filename : option bytes) : bytes -> result bytes :=
  match filename with
  | Some f => resolve_include_now cwd home (fs_isfile fs) f
  | None => fun _ => Err AssertionError
  end.

(* what one line of the including cart turns into (today's code: the name is decoded as P8SCII, tabs are
   selected on text lines, included lines get their newline) *)
Definition expand_now (cwd home : bytes) (fs : fsview) (filename : option bytes) : bytes -> result (list bytes) :=
  expand_line include_newline_kind (has_name filename) decode_name_now (resolve_now cwd home fs filename)
    (fs_target include_cart_lines_kind fs).

Lemma splice_now cwd home fs filename lines out :
  process_includes_now cwd home fs filename lines = Ok out ->
  exists chunks, Forall2 (fun l c => expand_now cwd home fs filename l = Ok c) lines chunks /\ out = concat chunks.
Proof. apply splice_ok. Qed.

Lemma splice_complete_now cwd home fs filename lines chunks :
  Forall2 (fun l c => expand_now cwd home fs filename l = Ok c) lines chunks ->
  process_includes_now cwd home fs filename lines = Ok (concat chunks).
Proof. apply splice_complete. Qed.

(* the shapes of an expansion: a line that is not an include line is kept as it is; an include line becomes
   the (selected) lines of its target, which are not examined again *)
Lemma expand_now_cases cwd home fs filename l :
  match match_include_line l with
  | None => expand_now cwd home fs filename l = Ok [l]
  | Some (path, ext, tab) =>
    match filename with
    | None => expand_now cwd home fs filename l = Err AssertionError
    | Some f =>
      match decode_name_now path with
      | Err e => expand_now cwd home fs filename l = Err e
      | Ok nm =>
        match resolve_include_now cwd home (fs_isfile fs) f (nm ++ ext) with
        | Err e => expand_now cwd home fs filename l = Err e
        | Ok p =>
          match fs_target include_cart_lines_kind fs p ext with
          | None => expand_now cwd home fs filename l = Err OtherError
          | Some ls => expand_now cwd home fs filename l =
                       Ok (map (yielded 1) (if is_cart_ext ext then lines_for_tab ls tab else ls))
          end
        end
      end
    end
  end.
Proof.
  unfold expand_now, expand_line. destruct (match_include_line l) as [[[path ext] tab]|]; [|reflexivity].
  unfold include_lines. destruct filename as [f|]; [|reflexivity]. cbn [has_name negb resolve_now].
  destruct (decode_name_now path) as [nm|e]; [|reflexivity]. cbn [bind].
  destruct (resolve_include_now cwd home (fs_isfile fs) f (nm ++ ext)) as [p|e]; [|reflexivity].
  cbn [bind]. destruct (fs_target include_cart_lines_kind fs p ext); reflexivity.
Qed.

Lemma error_now cwd home fs filename lines l e :
  In l lines -> expand_now cwd home fs filename l = Err e ->
  exists e', process_includes_now cwd home fs filename lines = Err e'.
Proof. apply splice_error. Qed.

(* C20_missing: the first include line whose target is not a file fails the load *)
Lemma missing_now cwd home fs f pre l post chunks path ext tab nm :
  Forall2 (fun l c => expand_now cwd home fs (Some f) l = Ok c) pre chunks ->
  match_include_line l = Some (path, ext, tab) ->
  decode_name_now path = Ok nm ->
  fs_isfile fs (include_full_path cwd f (nm ++ ext)) = false ->
  process_includes_now cwd home fs (Some f) (pre ++ l :: post) = Err IncludeNotFound \/
  process_includes_now cwd home fs (Some f) (pre ++ l :: post) = Err IncludeOutside.
Proof.
  intros Hp Hm Hd Hf.
  destruct (include_missing pico8_cart_paths root_detection_kind include_containment_kind cwd home (fs_isfile fs) f (nm ++ ext) Hf) as [H|H];
    [left|right]; (apply (splice_first_error _ _ _ _ _ pre l post chunks); [exact Hp|]);
    unfold expand_line; rewrite Hm; unfold include_lines; cbn [has_name negb resolve_now]; rewrite Hd; cbn [bind];
    unfold resolve_include_now; rewrite H; reflexivity.
Qed.

(* no file name: the assert fires at the first include line *)
Lemma nofile_now cwd home fs pre l post chunks path ext tab :
  Forall2 (fun l c => expand_now cwd home fs None l = Ok c) pre chunks ->
  match_include_line l = Some (path, ext, tab) ->
  process_includes_now cwd home fs None (pre ++ l :: post) = Err AssertionError.
Proof.
  intros Hp Hm. apply (splice_first_error _ _ _ _ _ pre l post chunks); [exact Hp|].
  unfold expand_line. rewrite Hm. reflexivity.
Qed.

(* the name is decoded byte by byte; an ASCII name is its own file name *)
Lemma decode_now_total b : exists nm, decode_name_now b = Ok nm.
Proof. eexists. reflexivity. Qed.

Lemma recogniser_agrees l nl : is_term nl ->
  match classify l with
  | Plain => match_include_line (l ++ nl) = None
  | Include name k tab =>
    exists base, match_include_line (l ++ nl) = Some (base, ext_of k, tab) /\ name = base ++ ext_of k
  | Undefined => True
  end.
Proof.
  intros Hnl. destruct (classify l) as [|name k tab|] eqn:E; [apply classify_plain_agrees; assumption| |exact I].
  destruct (classify_include_agrees l name k tab nl Hnl E) as (base & H1 & H2 & _). exists base. split; assumption.
Qed.

(* the file-system view and the directory content describe the same files: the name in the line (base ++
   extension, P8SCII) decodes to a file name; a named text file is read as its bytes, a named cart's reader
   returns the cart's code (in chunks of any shape) *)
Definition fs_agrees (cwd home : bytes) (fs : fsview) (f : bytes)
           (content : bytes -> Z -> option bytes) : Prop :=
  forall base k, name_kind (base ++ ext_of k) = Some k -> name_local (base ++ ext_of k) = true ->
  match content (base ++ ext_of k) k with
  | None => (exists e, decode_name_now base = Err e) \/
            (exists nm e, decode_name_now base = Ok nm /\ resolve_include_now cwd home (fs_isfile fs) f (nm ++ ext_of k) = Err e)
  | Some txt => exists nm p, decode_name_now base = Ok nm /\
      resolve_include_now cwd home (fs_isfile fs) f (nm ++ ext_of k) = Ok p /\
      (k = 0 -> fs_read fs p = Some txt) /\
      (k <> 0 -> exists chunks, fs_cart fs p = Some chunks /\ concat chunks = txt)
  end.

Lemma fs_agrees_view_ok cwd home fs f content :
  fs_agrees cwd home fs f content ->
  view_ok decode_name_now (resolve_now cwd home fs (Some f)) (fs_target include_cart_lines_kind fs) content.
Proof.
  intros H base k Hk Hl. specialize (H base k Hk Hl). destruct (content (base ++ ext_of k) k) as [txt|]; [|exact H].
  destruct H as (nm & p & Hd & Hr & Hlua & Hcart). exists nm, p. split; [exact Hd|]. split; [exact Hr|]. split.
  - intros ->. unfold fs_target. change (is_cart_ext (ext_of 0)) with false. cbv iota.
    rewrite (Hlua eq_refl). reflexivity.
  - intros Hk1. destruct (Hcart Hk1) as (chunks & Hc & <-). exists (file_lines (concat chunks)). split.
    + unfold fs_target.
      assert (Hce : is_cart_ext (ext_of k) = true).
      { destruct (name_kind_some _ k Hk) as (_ & _ & _ & [->|[->| ->]]); [congruence|reflexivity|reflexivity]. }
      rewrite Hce, Hc. reflexivity.
    + split; [apply file_lines_line_like|apply file_lines_text].
Qed.

Lemma refines_now cwd home fs f content bodies :
  fs_agrees cwd home fs f content ->
  Forall no_nl bodies ->
  let hs := map (fun b => b ++ [10]) bodies in
  let impl := model_outcome (process_includes_now cwd home fs (Some f) hs) in
  text_lines (concat hs) = bodies /\
  match ref_splice content bodies with
  | SpOk ls => exists t, impl = Some t /\ text_lines t = ls
  | SpMissing => impl = None
  | SpUndefined => True
  end.
Proof.
  intros Hv Hb.
  exact (model_meets_spec decode_name_now (resolve_now cwd home fs (Some f)) (fs_target include_cart_lines_kind fs) content
           (fs_agrees_view_ok _ _ _ _ _ Hv) bodies Hb).
Qed.

Lemma refines_last_now cwd home fs f content init last :
  fs_agrees cwd home fs f content ->
  Forall no_nl init -> no_nl last -> last <> [] ->
  let hs := map (fun b => b ++ [10]) init ++ [last] in
  let impl := model_outcome (process_includes_now cwd home fs (Some f) hs) in
  text_lines (concat hs) = init ++ [last] /\
  match ref_splice content (init ++ [last]) with
  | SpOk ls => exists t, impl = Some t /\ text_lines t = ls
  | SpMissing => impl = None
  | SpUndefined => True
  end.
Proof.
  intros Hv Hi Hl Hne.
  exact (model_meets_spec_last decode_name_now (resolve_now cwd home fs (Some f)) (fs_target include_cart_lines_kind fs) content
           (fs_agrees_view_ok _ _ _ _ _ Hv) init last Hi Hl Hne).
Qed.

Lemma holds_now cwd home fs f files bodies :
  fs_agrees cwd home fs f (lookup_content files) ->
  Forall no_nl bodies ->
  let hs := map (fun b => b ++ [10]) bodies in
  holds_C20 (concat hs) files (model_outcome (process_includes_now cwd home fs (Some f) hs)) = true.
Proof.
  intros Hv Hb.
  exact (model_holds_C20 decode_name_now (resolve_now cwd home fs (Some f)) (fs_target include_cart_lines_kind fs) files bodies
           (fs_agrees_view_ok _ _ _ _ _ Hv) Hb).
Qed.

(* ---- the code before the newline fix (include_newline_kind = 0) is refuted; today's model is right ---- *)
Definition g_fs : fsview :=
  mk_fsview (fun p => zlist_eqb p [47; 99; 47; 108; 46; 108; 117; 97])                       (* /c/l.lua *)
            (fun p => if zlist_eqb p [47; 99; 47; 108; 46; 108; 117; 97] then Some [97; 61; 98] else None)  (* a=b *)
            (fun _ => None).
Definition g_host : list bytes :=    (* x=1 / #include l.lua / c=d *)
  [[120; 61; 49]; [35; 105; 110; 99; 108; 117; 100; 101; 32; 108; 46; 108; 117; 97]; [99; 61; 100]].
Definition g_files : list (bytes * Z * bytes) := [([108; 46; 108; 117; 97], 0, [97; 61; 98])].
Definition g_run (nl_kind : Z) : result (list bytes) :=
  process_includes nl_kind true decode_name_now
    (resolve_include_now [47] [47; 104] (fs_isfile g_fs) [47; 99; 47; 104; 46; 112; 56])
    (fs_target include_cart_lines_kind g_fs) (map (fun b => b ++ [10]) g_host).

Lemma glue_variant_refuted :
  holds_C20 (concat (map (fun b => b ++ [10]) g_host)) g_files (model_outcome (g_run 0)) = false /\
  model_outcome (g_run 0) = Some [120; 61; 49; 10; 97; 61; 98; 99; 61; 100; 10] /\            (* x=1 / a=bc=d *)
  holds_C20 (concat (map (fun b => b ++ [10]) g_host)) g_files (model_outcome (g_run include_newline_kind)) = true /\
  model_outcome (g_run include_newline_kind) = Some [120; 61; 49; 10; 97; 61; 98; 10; 99; 61; 100; 10].
Proof. vm_compute. repeat split; reflexivity. Qed.

(* ---- selecting the tab on the reader's chunks (include_cart_lines_kind = 0, the code before the second
        fix) is refuted: a "-->8" line inside a multi-line string was not a tab boundary ---- *)
Definition m_code : bytes :=      (* s=[[ / -->8 / ]] / t=2 / -->8 / u=3 *)
  [115; 61; 91; 91; 10; 45; 45; 62; 56; 10; 93; 93; 10; 116; 61; 50; 10; 45; 45; 62; 56; 10; 117; 61; 51; 10].
Definition m_chunks : list bytes :=   (* as the lexer's echo hands them over: the long string is one chunk *)
  [[115; 61; 91; 91; 10; 45; 45; 62; 56; 10; 93; 93; 10]; [116; 61; 50; 10]; [45; 45; 62; 56; 10]; [117; 61; 51; 10]].
Definition m_fs : fsview :=
  mk_fsview (fun p => zlist_eqb p [47; 99; 47; 109; 46; 112; 56])                       (* /c/m.p8 *)
            (fun _ => None)
            (fun p => if zlist_eqb p [47; 99; 47; 109; 46; 112; 56] then Some m_chunks else None).
Definition m_host : list bytes :=   (* #include m.p8:1 *)
  [[35; 105; 110; 99; 108; 117; 100; 101; 32; 109; 46; 112; 56; 58; 49]].
Definition m_files : list (bytes * Z * bytes) := [([109; 46; 112; 56], 1, m_code)].
Definition m_run (cart_kind : Z) : result (list bytes) :=
  process_includes include_newline_kind true decode_name_now
    (resolve_include_now [47] [47; 104] (fs_isfile m_fs) [47; 99; 47; 104; 46; 112; 56])
    (fs_target cart_kind m_fs) (map (fun b => b ++ [10]) m_host).

Lemma tab_variant_refuted :
  concat m_chunks = m_code /\
  holds_C20 (concat (map (fun b => b ++ [10]) m_host)) m_files (model_outcome (m_run 0)) = false /\
  model_outcome (m_run 0) = Some [117; 61; 51; 10] /\                                            (* u=3 *)
  holds_C20 (concat (map (fun b => b ++ [10]) m_host)) m_files (model_outcome (m_run include_cart_lines_kind)) = true /\
  model_outcome (m_run include_cart_lines_kind) = Some [93; 93; 10; 116; 61; 50; 10].            (* ]] / t=2 *)
Proof. vm_compute. repeat split; reflexivity. Qed.

(* ---- decoding the name as UTF-8 (include_name_decode_kind = 0, the code before the third fix) is refuted:
        `#include <0x86>.lua` (the glyph byte of a file named U+25CF .lua) raised UnicodeDecodeError ---- *)
Definition u_name : bytes := [134; 46; 108; 117; 97].                                  (* \x86.lua as it stands in the code line *)
Definition u_path : bytes := [47; 99; 47; 226; 151; 143; 46; 108; 117; 97].          (* /c/<U+25CF>.lua in UTF-8 *)
Definition u_fs : fsview :=
  mk_fsview (fun p => zlist_eqb p u_path) (fun p => if zlist_eqb p u_path then Some [118; 61; 49; 10] else None) (fun _ => None).
Definition u_host : list bytes := [[35; 105; 110; 99; 108; 117; 100; 101; 32] ++ u_name].   (* #include \x86.lua *)
Definition u_files : list (bytes * Z * bytes) := [(u_name, 0, [118; 61; 49; 10])].
Definition u_run (decode_kind : Z) : result (list bytes) :=
  process_includes include_newline_kind true (decode_name decode_kind)
    (resolve_include_now [47] [47; 104] (fs_isfile u_fs) [47; 99; 47; 104; 46; 112; 56])
    (fs_target include_cart_lines_kind u_fs) (map (fun b => b ++ [10]) u_host).

Lemma decode_variant_refuted :
  u_run 0 = Err UnicodeError /\
  holds_C20 (concat (map (fun b => b ++ [10]) u_host)) u_files (model_outcome (u_run 0)) = false /\
  holds_C20 (concat (map (fun b => b ++ [10]) u_host)) u_files (model_outcome (u_run include_name_decode_kind)) = true /\
  model_outcome (u_run include_name_decode_kind) = Some [118; 61; 49; 10].
Proof. vm_compute. repeat split; reflexivity. Qed.
