(* Runs of white-space / comment tokens of the coarse reader (Spec/FmtShape.v) with the same edge-normal form have texts that
   the formatter theorem relates:

     run_norm    enr e a r1 = enr e a r2 -> tnr a e (txt r1) (txt r2)
     run_hd      after a code token: both texts begin with the same byte, or each is empty / begins with a blank or a line end
     run_nil     between two code tokens: one run is empty iff the other is *)
From PV Require Import Base.Prelude Spec.LuaLex Proofs.LuaLexFacts Model.FmtSpaces Proofs.FmtLinesProofs Proofs.FmtShapeBridgeLines Proofs.FmtShapeBridge.
From PV Require Spec.FmtShape.
From Coq Require Import Lia ZifyBool.

(* ====================================================================== texts *)
Lemma txt_cons k c r : txt ((k, c) :: r) = c ++ txt r.
Proof. reflexivity. Qed.

Lemma cw_blank bl : forallb F.is_blank bl = true -> cw bl = repeat 32 (length bl).
Proof.
  induction bl as [|c bl IH]; intros H; [reflexivity|]. cbn [forallb] in H. apply andb_true_iff in H. destruct H as [Hc Hb].
  cbn [cw length repeat]. rewrite (IH Hb). unfold F.is_blank, F.cSP, F.cTAB in Hc.
  destruct (c =? 13) eqn:E13; [lia|]. destruct (c =? 9) eqn:E9; [reflexivity|]. f_equal. lia.
Qed.

Lemma blank_no_cr bl : forallb F.is_blank bl = true -> forallb (fun c => negb (c =? 13)) bl = true.
Proof. apply forallb_impl. intros x. unfold F.is_blank, F.cSP, F.cTAB. lia. Qed.

Lemma not_eol_no_cr c : forallb F.not_eol c = true -> forallb (fun c => negb (c =? 13)) c = true.
Proof. apply forallb_impl. intros x. unfold F.not_eol, F.cNL, F.cCR. lia. Qed.

(* ---------- the text of a run: every carriage return is followed by a line feed ---------- *)
Lemma wftok_crlf t : wftok t -> crlf_only (snd t) = true /\ no_final_cr (snd t).
Proof.
  destruct t as [k c]. unfold wftok. cbn [fst snd]. destruct k; try contradiction.
  - intros [_ H]. apply no_cr_crlf, blank_no_cr, H.
  - intros [-> | ->]; (split; [reflexivity|]).
    + apply (no_final_cr_last [] 10). lia.
    + apply (no_final_cr_last [13] 10). lia.
  - intros [_ H]. apply no_cr_crlf, not_eol_no_cr, H.
  - intros [[b E] H]. split; [exact H|]. rewrite E.
    change (45 :: 45 :: 91 :: 91 :: b ++ [93]) with ((45 :: 45 :: 91 :: 91 :: b) ++ [93]). apply no_final_cr_last. lia.
Qed.

Lemma wfrun_crlf e r : wfrun e r -> crlf_only (txt r) = true.
Proof.
  induction r as [|[k c] r IH]; intros W; [reflexivity|]. cbn [wfrun] in W. destruct W as (Wt & _ & Wr).
  rewrite txt_cons. destruct (wftok_crlf _ Wt) as [H1 H2]. cbn [snd] in H1, H2. apply crlf_only_app; auto.
Qed.

(* ====================================================================== rstrip_blank *)
Lemma rstrip_blank_split c : forallb F.not_eol c = true ->
  exists sp, c = F.rstrip_blank c ++ sp /\ forallb F.is_blank sp = true.
Proof.
  induction c as [|x r IH]; intros H; [exists []; split; reflexivity|].
  cbn [forallb] in H. apply andb_true_iff in H. destruct H as [Hx Hr]. destruct (IH Hr) as (sp & E & Hs).
  cbn [F.rstrip_blank]. destruct (F.rstrip_blank r) as [|y r'] eqn:Er.
  - cbn [app] in E. subst r. destruct (F.is_blank x) eqn:Eb.
    + cbn [orb]. exists (x :: sp). split; [reflexivity|]. cbn [forallb]. rewrite Eb. exact Hs.
    + assert (E13 : (x =? F.cCR) = false) by (unfold F.not_eol in Hx; lia). rewrite E13. cbn [orb].
      exists sp. split; [reflexivity | exact Hs].
  - exists sp. split; [|exact Hs]. cbn [app]. f_equal. exact E.
Qed.

Lemma rstrip_blank_hd x l : F.is_blank x = false -> x <> 13 -> exists t, F.rstrip_blank (x :: l) = x :: t.
Proof.
  intros Hb Hx. cbn [F.rstrip_blank]. destruct (F.rstrip_blank l) as [|y r'].
  - rewrite Hb. assert (E : (x =? F.cCR) = false) by (unfold F.cCR; lia). rewrite E. cbn [orb]. eexists. reflexivity.
  - eexists. reflexivity.
Qed.

(* ====================================================================== what follows a token in a run *)
Definition folq (q : list Z) : Prop := q = [] \/ (exists q', q = 10 :: q') \/ starts2 45 q = true \/ starts2 47 q = true.

Lemma cw_starts2 x c y : (x =? 13) = false -> (x =? 9) = false -> starts2 x c = true -> starts2 x (cw (c ++ y)) = true.
Proof.
  intros E13 E9 H. destruct c as [|u [|v t]]; [discriminate H | discriminate H|]. cbn [starts2] in H.
  apply andb_true_iff in H. destruct H as [Hu Hv]. apply Z.eqb_eq in Hu, Hv. subst u v.
  cbn [app cw]. rewrite E13, E9. cbn [starts2]. rewrite Z.eqb_refl. reflexivity.
Qed.

Lemma cw_nl c : c = [10] \/ c = [13; 10] -> cw c = [10].
Proof. intros [-> | ->]; reflexivity. Qed.

(* a line end token *)
Lemma next_nl e n r : wfrun e (n :: r) -> is_nlt n = true -> exists q, cw (txt (n :: r)) = 10 :: q.
Proof.
  destruct n as [k c]. intros (Wt & _ & _) Hn. unfold is_nlt in Hn. unfold wftok in Wt. cbn [fst snd] in *.
  destruct k; try discriminate Hn. rewrite txt_cons, cw_app, (cw_nl c Wt). eexists. reflexivity.
Qed.

(* what is not a blank token *)
Lemma next_bol e r : wfrun e r -> match r with n :: _ => is_blankt n = false | [] => True end -> folq (cw (txt r)).
Proof.
  destruct r as [|[k c] r]; intros W Hn; [left; reflexivity|]. cbn [wfrun] in W. destruct W as (Wt & _ & _).
  unfold is_blankt in Hn. unfold wftok in Wt. cbn [fst snd] in *. rewrite txt_cons.
  destruct k; try discriminate Hn; try contradiction.
  - right; left. rewrite cw_app, (cw_nl c Wt). eexists. reflexivity.
  - destruct Wt as [[H | H] _].
    + right; right; left. apply cw_starts2; [reflexivity | reflexivity | exact H].
    + right; right; right. apply cw_starts2; [reflexivity | reflexivity | exact H].
  - destruct Wt as [[b ->] _]. right; right; left. reflexivity.
Qed.

(* ====================================================================== the text of a run and of its edge-normal form *)
Lemma enr_Sc a e r : forall P b, wfrun e r -> (b = true -> (P = [] /\ a = true) \/ exists P', P = P' ++ [10]) ->
  Sc a e (P ++ cw (txt r)) = Sc a e (P ++ cw (txt (enr e b r))).
Proof.
  induction r as [|[k c] r' IH]; intros P b W HP; [reflexivity|].
  assert (W0 := W). cbn [wfrun] in W. destruct W as (Wt & Wn & Wr). unfold wftok in Wt. cbn [fst snd] in Wt, Wn.
  rewrite txt_cons, cw_app. destruct k; try contradiction.
  - (* blank *)
    destruct Wt as [_ Hb]. rewrite (cw_blank c Hb). cbn [enr fst].
    destruct b.
    + cbn [orb]. rewrite Sc_blank_bol; [apply IH; assumption | apply HP; reflexivity | apply (next_bol e); assumption].
    + cbn [orb]. destruct (match r' with [] => e | n :: _ => is_nlt n end) eqn:Ee.
      * transitivity (Sc a e (P ++ cw (txt r'))); [|apply IH; assumption].
        destruct r' as [|n r''].
        -- subst e. change (cw (txt [])) with (@nil Z). rewrite !app_nil_r. apply Sc_blank_end.
        -- destruct (next_nl e n r'' Wr Ee) as (q & ->). apply Sc_blank_eol.
      * rewrite txt_cons, cw_app, (cw_blank c Hb), !app_assoc. apply IH; [assumption | discriminate].
  - (* line end *)
    cbn [enr fst]. rewrite txt_cons, cw_app, (cw_nl c Wt). change (cw [F.cNL]) with [10]. rewrite !app_assoc.
    apply IH; [assumption|]. intros _. right. exists P. reflexivity.
  - (* end-of-line comment *)
    cbn [enr fst snd]. destruct Wt as [_ Hc]. destruct (rstrip_blank_split c Hc) as (sp & E & Hs).
    rewrite txt_cons, (cw_app (F.rstrip_blank c)).
    assert (Ecw : cw c = cw (F.rstrip_blank c) ++ repeat 32 (length sp)) by (rewrite <- (cw_blank sp Hs), <- cw_app, <- E; reflexivity).
    rewrite Ecw, <- (app_assoc (cw (F.rstrip_blank c))), !(app_assoc P).
    transitivity (Sc a e ((P ++ cw (F.rstrip_blank c)) ++ cw (txt r')));  [|apply IH; [assumption | discriminate]].
    destruct r' as [|n r''].
    + subst e. change (cw (txt [])) with (@nil Z). rewrite !app_nil_r. apply Sc_blank_end.
    + destruct (next_nl e n r'' Wr Wn) as (q & ->). apply Sc_blank_eol.
  - (* block comment *)
    cbn [enr fst]. rewrite txt_cons, cw_app, !app_assoc. apply IH; [assumption | discriminate].
Qed.

Theorem run_norm a e r1 r2 : wfrun e r1 -> wfrun e r2 -> enr e a r1 = enr e a r2 -> tnr a e (txt r1) (txt r2).
Proof.
  intros W1 W2 E. unfold tnr. rewrite !canon_ws_cw by (eapply wfrun_crlf; eassumption).
  assert (H : forall r, wfrun e r -> Sc a e (cw (txt r)) = Sc a e (cw (txt (enr e a r)))).
  { intros r W. apply (enr_Sc a e r [] a W). intros ->. left. split; reflexivity. }
  rewrite (H r1 W1), (H r2 W2), E. reflexivity.
Qed.

(* ====================================================================== the first byte of a run that follows a code token *)
(* the first byte of the first token, when that token is a comment *)
Definition hdc (l : list ftok) : option Z :=
  match l with
  | (F.KLineComment, x :: _) :: _ => Some x
  | (F.KBlockComment, x :: _) :: _ => Some x
  | _ => None
  end.

Lemma ws_blank c y : c <> [] -> forallb F.is_blank c = true -> ws_or_nil (c ++ y).
Proof.
  destruct c as [|x c]; [congruence|]. intros _ H. cbn [forallb] in H. apply andb_true_iff in H. destruct H as [H _].
  right. exists x, (c ++ y). split; [reflexivity|]. change (LuaLex.is_blank x) with (F.is_blank x). rewrite H. reflexivity.
Qed.

Lemma ws_nl c y : c = [10] \/ c = [13; 10] -> ws_or_nil (c ++ y).
Proof. intros [-> | ->]; right; eexists _, _; (split; [reflexivity|]); reflexivity. Qed.

Lemma starts2_hd x c : starts2 x c = true -> exists c', c = x :: c'.
Proof.
  destruct c as [|u [|v t]]; try discriminate. cbn [starts2]. intros H. apply andb_true_iff in H. destruct H as [Hu _].
  apply Z.eqb_eq in Hu. subst u. eexists. reflexivity.
Qed.

Lemma enr_hd e r : wfrun e r ->
  (exists x rest, txt r = x :: rest /\ hdc (enr e false r) = Some x) \/ (ws_or_nil (txt r) /\ hdc (enr e false r) = None).
Proof.
  destruct r as [|[k c] r']; intros W; [right; split; [left|]; reflexivity|].
  cbn [wfrun] in W. destruct W as (Wt & Wn & Wr). unfold wftok in Wt. cbn [fst snd] in Wt, Wn. rewrite txt_cons.
  destruct k; try contradiction.
  - right. destruct Wt as [H1 H2]. split; [apply ws_blank; assumption|]. cbn [enr fst orb].
    destruct (match r' with [] => e | n :: _ => is_nlt n end) eqn:Ee; [|reflexivity].
    destruct r' as [|[k' c'] r'']; [reflexivity|]. unfold is_nlt in Ee. cbn [fst] in Ee. destruct k'; try discriminate Ee. reflexivity.
  - right. split; [apply ws_nl; assumption | reflexivity].
  - left. destruct Wt as [Hs _]. cbn [enr fst snd].
    assert (H : exists x c', c = x :: c' /\ F.is_blank x = false /\ x <> 13).
    { destruct Hs as [H | H]; destruct (starts2_hd _ _ H) as (c' & ->); eexists _, _; (split; [reflexivity|]); split; (reflexivity || lia). }
    destruct H as (x & c' & -> & Hb & Hx). destruct (rstrip_blank_hd x c' Hb Hx) as (t & ->).
    exists x, (c' ++ txt r'). split; reflexivity.
  - left. destruct Wt as [[b ->] _]. eexists _, _. split; reflexivity.
Qed.

Lemma run_hd e r1 r2 : wfrun e r1 -> wfrun e r2 -> enr e false r1 = enr e false r2 -> hdok (txt r1) (txt r2).
Proof.
  intros W1 W2 E. destruct (enr_hd e r1 W1) as [(x1 & t1 & E1 & H1) | [S1 H1]]; destruct (enr_hd e r2 W2) as [(x2 & t2 & E2 & H2) | [S2 H2]];
    rewrite E in H1; rewrite H1 in H2; try discriminate H2.
  - injection H2 as <-. left. exists x1, t1, t2. split; assumption.
  - right. split; assumption.
Qed.

(* ====================================================================== between two code tokens *)
Lemma enr_nonnil r : wfrun false r -> r <> [] -> enr false false r <> [].
Proof.
  destruct r as [|[k c] r']; intros W Hr; [congruence|]. clear Hr.
  cbn [wfrun] in W. destruct W as (Wt & Wn & Wr). unfold wftok in Wt. cbn [fst snd] in Wt, Wn.
  destruct k; try contradiction; cbn [enr fst orb]; try discriminate.
  destruct (match r' with [] => false | n :: _ => is_nlt n end) eqn:Ee; [|discriminate].
  destruct r' as [|[k' c'] r'']; [discriminate Ee|]. unfold is_nlt in Ee. cbn [fst] in Ee. destruct k'; try discriminate Ee.
  cbn [enr fst]. discriminate.
Qed.

Lemma run_nil r1 r2 : wfrun false r1 -> wfrun false r2 -> enr false false r1 = enr false false r2 -> (r1 = [] <-> r2 = []).
Proof.
  intros W1 W2 E. split; intros ->; cbn [enr] in E.
  - destruct r2 as [|t r]; [reflexivity|]. exfalso. apply (enr_nonnil (t :: r) W2); [discriminate | symmetry; exact E].
  - destruct r1 as [|t r]; [reflexivity|]. exfalso. apply (enr_nonnil (t :: r) W1); [discriminate | exact E].
Qed.
