(* Cutting a run of whole tokens out of a text of the reference dialect (Spec/LuaLex.v) and putting ONE space in its
   place - what build.py's game-loop stripping does to a package's token list (tokens[start:end] = [TokSpace(b' ')])
   before the text is lexed again.  If the run starts with a word (a name or keyword: `function`), every token outside
   the run is read exactly as before: the token in front of the run is read the same in front of a space as in front
   of a word byte (step_ctx_sp), blanks on either side merge with the new space into one white-space token.
   Reference grammar only; built on LuaLexFacts.v / SpecLexChunk.v. *)
From PV Require Import Base.Prelude Spec.LuaLex Instances.HoldsC02 Instances.HoldsC01 Proofs.LuaLexFacts Proofs.SpecLexChunk.
From Coq Require Import ZifyBool.

Lemma symbols_safe_sp : forallb (fun x => sym_safe x 32) spec_symbols = true.
Proof. vm_compute. reflexivity. Qed.

Lemma name_start_not_eol w : is_name_start w = true -> is_eol w = false.
Proof. unfold is_name_start, is_alpha, is_eol. lia. Qed.

Lemma name_start_not_blank w : is_name_start w = true -> is_blank w = false.
Proof. unfold is_name_start, is_alpha, is_blank. lia. Qed.

(* a token (not white space) that is followed by a word byte is read the same way in front of a space *)
Theorem step_ctx_sp s t w r0 R : is_name_start w = true ->
  spec_step s = Some (t, w :: r0) -> s_kind t <> SSpace -> spec_step (s_raw t ++ 32 :: R) = Some (t, 32 :: R).
Proof.
  intros Hw H Hk. pose proof (spec_step_shape _ _ _ H) as Sh.
  destruct (spec_step_split _ _ _ H) as (Hsplit & Hne).
  remember (w :: r0) as rest0 eqn:Erest. destruct Sh.
  - exfalso. apply Hk. reflexivity.
  - reflexivity.
  - reflexivity.
  - (* block comment *)
    destruct (long_open_spec _ _ _ _ H0) as (k & Hk0 & ->). assert (k = O) by lia. subst k. cbn [repeat app].
    destruct (long_body_ctx _ _ _ _ _ H1) as (_ & Hr4 & Hctx). subst r4.
    cbn [s_raw mk]. cbn [app]. rewrite dash_eq. cbn [Z.eqb Pos.eqb]. rewrite long_open_eq. cbn [Z.eqb Pos.eqb].
    rewrite <- !app_assoc. rewrite Hctx. reflexivity.
  - (* -- line comment: cannot be followed by a word byte *)
    exfalso. fold not_eol in H1. pose proof (span_stop _ _ _ _ H1) as Hst. subst rest. cbn in Hst.
    unfold not_eol in Hst. rewrite (name_start_not_eol w Hw) in Hst. discriminate.
  - exfalso. fold not_eol in H0. pose proof (span_stop _ _ _ _ H0) as Hst. subst rest. cbn in Hst.
    unfold not_eol in Hst. rewrite (name_start_not_eol w Hw) in Hst. discriminate.
  - (* long string *)
    cbn [s_raw]. eapply long_string_ctx; eassumption.
  - (* quoted string *)
    pose proof (unescape_tail q (length r) r v raw rest (le_n _) H1 (32 :: R)) as Hu.
    cbn [s_raw app]. destruct H0 as [-> | ->]; unfold spec_step; cbn -[unescape_until app]; rewrite Hu; reflexivity.
  - (* number *)
    destruct (spec_number_ctx _ _ _ H1) as (run & Hraw & Hrun & Hs & Hctx). subst rest.
    rewrite Hraw. apply Hctx; [|exact H0]. cbn [num_stops]. split; reflexivity.
  - (* name / keyword: cannot be followed by a word byte *)
    exfalso. pose proof (span_stop _ _ _ _ H1) as Hst. subst rest. cbn in Hst.
    rewrite (name_start_char w Hw) in Hst. discriminate.
  - (* label *)
    pose proof (span_all _ _ _ _ H0) as Hall.
    cbn [s_raw mk app]. rewrite <- app_assoc. cbn [app].
    apply (spec_step_label (n0 :: a) (32 :: R)). cbn [is_name]. rewrite H1. cbn [forallb] in Hall.
    apply andb_true_iff in Hall. apply Hall.
  - reflexivity.
  - (* symbol *)
    destruct (spec_symbol_inv _ _ _ H0) as (x & Hin & -> & _). cbn [s_raw mk].
    apply spec_step_symbol; [exact Hin|]. pose proof symbols_safe_sp as Hs. rewrite forallb_forall in Hs. apply Hs, Hin.
Qed.

Lemma exists_last_or_nil {A} (l : list A) : l = [] \/ exists l' a, l = l' ++ [a].
Proof. destruct l as [|x l]; [left; reflexivity|]. right. destruct (@exists_last _ (x :: l)) as (l' & a & E); [discriminate|]. exists l', a. exact E. Qed.

Lemma skind_eq_dec (a b : skind) : {a = b} + {a <> b}.
Proof. decide equality. Qed.

(* ---------- runs of steps ---------- *)
Definition raws (ts : list stok) : list Z := concat (map s_raw ts).

(* [steps s ts s'] : reading the tokens ts off the text s leaves s' *)
Inductive steps : list Z -> list stok -> list Z -> Prop :=
| steps_nil s : steps s [] s
| steps_cons s t rest ts s' : spec_step s = Some (t, rest) -> steps rest ts s' -> steps s (t :: ts) s'.

Lemma steps_chain s ts : steps s ts [] <-> chain s ts.
Proof.
  split.
  - remember [] as e eqn:E. induction 1; [subst; constructor | econstructor; [eassumption | auto]].
  - induction 1; [constructor | econstructor; eassumption].
Qed.

Lemma steps_app s ta s1 tb s2 : steps s ta s1 -> steps s1 tb s2 -> steps s (ta ++ tb) s2.
Proof. induction 1; intros H2; [exact H2 | cbn [app]; econstructor; [eassumption | auto]]. Qed.

Lemma steps_app_inv ta : forall s tb s2, steps s (ta ++ tb) s2 -> exists s1, steps s ta s1 /\ steps s1 tb s2.
Proof.
  induction ta as [|t ta IH]; intros s tb s2 H; [exists s; split; [constructor | exact H]|].
  cbn [app] in H. inversion H as [|? ? ? ? ? Hs Hr]; subst. destruct (IH _ _ _ Hr) as (s1 & A & B).
  exists s1. split; [econstructor; eassumption | exact B].
Qed.

Lemma steps_text s ts s' : steps s ts s' -> s = raws ts ++ s'.
Proof.
  induction 1; [reflexivity|]. destruct (spec_step_split _ _ _ H) as (E & _). unfold raws in *. cbn [map concat].
  rewrite <- app_assoc, <- IHsteps. exact E.
Qed.

Lemma steps_raw_ne s ts s' : steps s ts s' -> ts <> [] -> raws ts <> [].
Proof.
  intros H Hne. destruct H; [congruence|]. destruct (spec_step_split _ _ _ H) as (_ & N). unfold raws. cbn [map concat].
  intros E. apply app_eq_nil in E. destruct E. contradiction.
Qed.

(* a run of tokens that stops in front of the byte c is read the same way in front of any text starting with c *)
Lemma steps_ctx ts : forall s c r0 R, steps s ts (c :: r0) -> steps (raws ts ++ c :: R) ts (c :: R).
Proof.
  induction ts as [|t ts IH]; intros s c r0 R H; [constructor|]. inversion H as [|? ? rest ? ? Hs Hr]; subst.
  unfold raws. cbn [map concat]. rewrite <- app_assoc. fold (raws ts).
  pose proof (steps_text _ _ _ Hr) as Er.
  econstructor; [|eapply IH; exact Hr].
  destruct ts as [|t2 ts2].
  - inversion Hr; subst. cbn [raws map concat app]. eapply step_ctx. exact Hs.
  - pose proof (steps_raw_ne _ _ _ Hr ltac:(discriminate)) as Hn.
    destruct (raws (t2 :: ts2)) as [|d rr] eqn:Erw; [congruence|]. cbn [app] in *. subst rest. eapply step_ctx. exact Hs.
Qed.

(* ---------- blanks in front of a text ---------- *)
Definition nontriv (ts : list stok) : list stok := filter (fun t => negb (is_trivia t)) ts.

Lemma nontriv_app a b : nontriv (a ++ b) = nontriv a ++ nontriv b.
Proof. apply filter_app. Qed.

Lemma chain_blank_prefix S tS bl : chain S tS -> bl <> [] -> forallb is_blank bl = true ->
  exists mid, chain (bl ++ S) mid /\ nontriv mid = nontriv tS.
Proof.
  intros Hc Hne Hbl. destruct S as [|c r].
  - apply chain_nil_inv in Hc. subst tS. exists [mk SSpace bl bl]. split; [|reflexivity].
    econstructor; [apply (spec_step_space bl [] Hne Hbl I) | constructor].
  - destruct (is_blank c) eqn:Ec.
    + inversion Hc as [|s t rest ts Hs Hc']; subst. pose proof (spec_step_shape _ _ _ Hs) as Sh.
      assert (Hsp : exists a, t = mk SSpace a a /\ a <> [] /\ forallb is_blank a = true /\ stops is_blank rest /\ c :: r = a ++ rest).
      { unfold spec_step in Hs. rewrite Ec in Hs. destruct (span is_blank (c :: r)) as [a b] eqn:Esp. injection Hs as <- <-.
        exists a. split; [reflexivity|]. split; [eapply span_head; eassumption|]. split; [eapply span_all; eassumption|].
        split; [eapply span_stop; eassumption | eapply span_split; eassumption]. }
      destruct Hsp as (a & -> & Ha & Hall & Hst & Esplit). rewrite Esplit, app_assoc.
      exists (mk SSpace (bl ++ a) (bl ++ a) :: ts). split; [|reflexivity].
      econstructor; [|exact Hc']. apply spec_step_space; [destruct bl; [congruence | discriminate] | rewrite forallb_app, Hbl, Hall; reflexivity | exact Hst].
    + exists (mk SSpace bl bl :: tS). split; [|reflexivity].
      econstructor; [|exact Hc]. apply spec_step_space; [exact Hne | exact Hbl | exact Ec].
Qed.

Lemma space_tok_shape s t rest : spec_step s = Some (t, rest) -> s_kind t = SSpace ->
  exists a, t = mk SSpace a a /\ forallb is_blank a = true.
Proof.
  intros H K. pose proof (spec_step_shape _ _ _ H) as Sh. destruct Sh; try discriminate K.
  - exists a. split; [reflexivity | eapply span_all; eassumption].
  - exfalso. unfold spec_number in H1. destruct (num_split _) as [run rs]. destruct (spec_numeral run) as [[n d]|]; [|discriminate].
    injection H1 as <- _. discriminate K.
  - exfalso. cbn [s_kind mk] in K. destruct (mem_bytes a spec_keywords); discriminate K.
  - exfalso. destruct (spec_symbol_inv _ _ _ H0) as (x & _ & -> & _). discriminate K.
Qed.

(* ---------- THE cut: a run of whole tokens that starts with a word byte is replaced by one space ---------- *)
(* tp: the tokens in front of the run, w :: X: the run's text followed by the rest of the source, S: the text after
   the run with its tokens tS.  The new text reads as: the tokens in front (all of them, or all but a final white-space
   token, which merges), then white space, then the non-trivia tokens of tS unchanged. *)
Theorem chain_cut tp w X S tS : is_name_start w = true ->
  steps (raws tp ++ w :: X) tp (w :: X) -> chain S tS ->
  exists tpk mid2, chain (raws tp ++ 32 :: S) (tpk ++ mid2) /\
    ((tpk = tp /\ forall tp0 sp, tp = tp0 ++ [sp] -> s_kind sp <> SSpace) \/ exists sp, tp = tpk ++ [sp] /\ s_kind sp = SSpace) /\
    nontriv mid2 = nontriv tS /\ nontriv (tpk ++ mid2) = nontriv (tp ++ tS).
Proof.
  intros Hw Hp HS.
  destruct (exists_last_or_nil tp) as [-> | (tp0 & tl & ->)].
  - (* nothing in front *)
    destruct (chain_blank_prefix S tS [32] HS ltac:(discriminate) eq_refl) as (mid & Hm & Hn).
    exists [], mid. cbn [raws map concat app]. split; [exact Hm|].
    split; [left; split; [reflexivity | intros tp0 sp E; destruct tp0; discriminate E]|]. split; [exact Hn | exact Hn].
  - destruct (steps_app_inv _ _ _ _ Hp) as (s1 & H0 & H1). inversion H1 as [|? ? ? ? ? Hs Hnil]; subst. inversion Hnil; subst.
    assert (Eraw : raws (tp0 ++ [tl]) = raws tp0 ++ s_raw tl).
    { unfold raws. rewrite map_app, concat_app. cbn [map concat]. rewrite app_nil_r. reflexivity. }
    destruct (spec_step_split _ _ _ Hs) as (Es1 & Hne).
    (* the tokens before the last one: same first byte follows *)
    assert (H0' : forall Y, steps (raws tp0 ++ s_raw tl ++ Y) tp0 (s_raw tl ++ Y)).
    { intros Y. destruct (s_raw tl) as [|d rr] eqn:Er; [congruence|]. rewrite Es1 in H0. cbn [app] in *. eapply steps_ctx. exact H0. }
    destruct (skind_eq_dec (s_kind tl) SSpace) as [Ksp|Knsp].
    + (* the last token in front is white space: it merges *)
      destruct (space_tok_shape _ _ _ Hs Ksp) as (a & -> & Hall). cbn [s_raw mk] in *.
      assert (Hbl : forallb is_blank (a ++ [32]) = true) by (rewrite forallb_app, Hall; reflexivity).
      destruct (chain_blank_prefix S tS (a ++ [32]) HS ltac:(destruct a; discriminate) Hbl) as (mid & Hm & Hn).
      exists tp0, mid. rewrite Eraw. cbn [s_raw mk]. rewrite <- app_assoc.
      split.
      * apply steps_chain. eapply steps_app; [apply (H0' (32 :: S))|]. apply steps_chain.
        replace (a ++ 32 :: S) with ((a ++ [32]) ++ S) by (rewrite <- app_assoc; reflexivity). exact Hm.
      * split; [right; eexists; split; reflexivity|]. split; [exact Hn|].
        rewrite !nontriv_app, Hn. cbn. rewrite app_nil_r. reflexivity.
    + destruct (chain_blank_prefix S tS [32] HS ltac:(discriminate) eq_refl) as (mid & Hm & Hn).
      exists (tp0 ++ [tl]), mid. rewrite Eraw, <- app_assoc. split.
      * apply steps_chain. eapply steps_app; [eapply steps_app; [apply (H0' (32 :: S))|]|].
        -- econstructor; [eapply step_ctx_sp; eassumption | constructor].
        -- apply steps_chain. exact Hm.
      * split; [left; split; [reflexivity | intros tp1 sp E; apply app_inj_tail in E; destruct E as [_ <-]; exact Knsp]|].
        split; [exact Hn|]. rewrite !nontriv_app, Hn. reflexivity.
Qed.
Print Assumptions chain_cut.
