(* Source pins of pico8/game/game.py: the cart object: raw memory writes, empty carts (Model/CartMem.v).
   WRITTEN BY gen/mkpins.py (developer step) from the sources the hand-written model was compared with;
   each lemma fails when the function it names has been edited since (digest of ast.unparse, docstrings
   dropped; regenerated on every run into Generated/T_pins_game.v). *)
From Coq Require Import ZArith List.
Import ListNotations.
Open Scope Z_scope.
From PV Require Import Generated.T_pins_game.

Lemma pin__Game____init___ok : pin__Game____init__ = [126; 144; 104; 138; 95; 191; 114; 208].
Proof. reflexivity. Qed.
Lemma pin__Game__make_empty_game_ok : pin__Game__make_empty_game = [165; 224; 219; 184; 233; 102; 3; 133].
Proof. reflexivity. Qed.
Lemma pin__Game__get_compressed_size_ok : pin__Game__get_compressed_size = [111; 121; 147; 74; 227; 190; 63; 19].
Proof. reflexivity. Qed.
Lemma pin__Game__write_cart_data_ok : pin__Game__write_cart_data = [216; 152; 163; 127; 240; 167; 169; 180].
Proof. reflexivity. Qed.

(* no function was added to or removed from the pinned classes *)
Lemma pin_names__game_ok : pin_names__game =
  [[112; 105; 110; 95; 95; 71; 97; 109; 101; 95; 95; 95; 95; 105; 110; 105; 116; 95; 95]; [112; 105; 110; 95; 95; 71; 97; 109; 101; 95; 95; 109; 97; 107; 101; 95; 101; 109; 112; 116; 121; 95; 103; 97; 109; 101]; [112; 105; 110; 95; 95; 71; 97; 109; 101; 95; 95; 103; 101; 116; 95; 99; 111; 109; 112; 114; 101; 115; 115; 101; 100; 95; 115; 105; 122; 101]; [112; 105; 110; 95; 95; 71; 97; 109; 101; 95; 95; 119; 114; 105; 116; 101; 95; 99; 97; 114; 116; 95; 100; 97; 116; 97]].
Proof. reflexivity. Qed.
