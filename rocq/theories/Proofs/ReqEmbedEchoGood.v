(* The echo of a text of the dialect, given as lines ending in LF, is again a list of lines ending in LF
   (all but the last) made of bytes: so the line lists build.py assembles from echoes and its constants
   satisfy the premises of the lexer stack's chunking / echo theorems (used by Proofs/ReqEmbedSpecTokens.v). *)
From PV Require Import Base.Prelude Spec.LuaLex Instances.HoldsC01 Instances.HoldsC06 Generated.T_lexer
  Model.Lexer Model.EchoWriter Proofs.LexerProofs Proofs.LexerChunk Proofs.LexerView Proofs.EchoProofs
  Proofs.LuaLexFacts Model.ReqEmbed Model.ReqEmbedInst Proofs.ReqEmbedProofs Proofs.ReqEmbedInstProofs.
Close Scope pm_scope.

(* LuaEchoWriter on (class, code) pairs *)
Fixpoint echo_pairs (ps : list (tok_kind * bytes)) (cur : bytes) (pending : bool) : list bytes :=
  match ps with
  | [] => if pending then [cur] else []
  | (k, c) :: r =>
    let cur' := cur ++ c in
    match k with
    | KNewline => cur' :: echo_pairs r [] false
    | _ => echo_pairs r cur' true
    end
  end.

Lemma echo_toks_pairs ts : forall cur p,
  echo_toks ts cur p = echo_pairs (map (fun t => (t_kind t, tok_code t)) ts) cur p.
Proof.
  induction ts as [|t r IH]; intros cur p; [reflexivity|]. cbn [echo_toks map echo_pairs].
  destruct (t_kind t); rewrite IH; reflexivity.
Qed.

Lemma removelast_cons_lf (x : bytes) l : ends_lf x -> Forall ends_lf (removelast l) -> Forall ends_lf (removelast (x :: l)).
Proof. intros Hx Hl. destruct l; [constructor|]. change (removelast (x :: l :: l0)) with (x :: removelast (l :: l0)). constructor; assumption. Qed.

Lemma echo_pairs_lf ps : Forall (fun p => fst p = KNewline -> ends_lf (snd p)) ps ->
  forall cur pending, Forall ends_lf (removelast (echo_pairs ps cur pending)).
Proof.
  induction 1 as [|[k c] r Hk _ IH]; intros cur pending; cbn [echo_pairs].
  - destruct pending; constructor.
  - destruct k; try apply IH. apply removelast_cons_lf; [|apply IH].
    destruct (Hk eq_refl) as (a & E). cbn [snd] in E. exists (cur ++ a). rewrite E, app_assoc. reflexivity.
Qed.

Lemma echo_pairs_concat ps : forall cur pending, (pending = false -> cur = []) ->
  concat (echo_pairs ps cur pending) = cur ++ concat (map snd ps).
Proof.
  induction ps as [|[k c] r IH]; intros cur pending Hp; cbn [echo_pairs map concat snd].
  - destruct pending; [cbn; rewrite !app_nil_r; reflexivity | rewrite (Hp eq_refl); reflexivity].
  - destruct k; try (rewrite IH by discriminate; rewrite <- app_assoc; reflexivity).
    cbn [concat]. rewrite IH by reflexivity. cbn [app]. rewrite <- app_assoc. reflexivity.
Qed.

(* ---------- the reference tokens of a text of bytes ---------- *)
Lemma newline_shape s t rest : spec_step s = Some (t, rest) -> s_kind t = SNewline -> s_raw t = [10] \/ s_raw t = [13; 10].
Proof.
  intros H K. pose proof (spec_step_shape _ _ _ H) as Sh. destruct Sh; try discriminate K; auto.
  - unfold spec_number in H1. destruct (num_split _) as [run rs]. destruct (spec_numeral run) as [[n d]|]; [|discriminate].
    injection H1 as <- _. discriminate K.
  - destruct (mem_bytes a spec_keywords); discriminate K.
  - destruct (spec_symbol_inv _ _ _ H0) as (x & _ & -> & _). discriminate K.
Qed.

Lemma Forall_app_l' {A} (P : A -> Prop) a b : Forall P (a ++ b) -> Forall P a.
Proof. intros H. apply Forall_app in H. apply H. Qed.
Lemma Forall_app_r'' {A} (P : A -> Prop) a b : Forall P (a ++ b) -> Forall P b.
Proof. intros H. apply Forall_app in H. apply H. Qed.

Lemma chain_raw_bytes src ss : chain src ss -> Forall byte src -> Forall (fun s => Forall byte (s_raw s)) ss.
Proof.
  induction 1 as [|s t rest ts Hs _ IH]; intros HB; [constructor|].
  destruct (spec_step_split _ _ _ Hs) as (Hsplit & _). rewrite Hsplit in HB.
  constructor; [eapply Forall_app_l', HB | apply IH; eapply Forall_app_r'', HB].
Qed.

Lemma chain_newlines src ss : chain src ss ->
  Forall (fun s => s_kind s = SNewline -> s_raw s = [10] \/ s_raw s = [13; 10]) ss.
Proof. induction 1 as [|s t rest ts Hs _ IH]; constructor; [eapply newline_shape, Hs | exact IH]. Qed.

(* every entry of the regenerated reverse-escape table is made of bytes *)
Lemma rev_escapes_bytes : forallb (fun kv => all_bytes (snd kv)) string_reverse_escapes = true.
Proof. vm_compute. reflexivity. Qed.

Lemma lookup_bytes_In m : forall k v, lookup_bytes m k = Some v -> exists k', In (k', v) m.
Proof.
  induction m as [|[k0 v0] r IH]; intros k v H; [discriminate|]. cbn [lookup_bytes] in H.
  destruct (zlist_eqb k0 k); [injection H as <-; exists k0; left; reflexivity|].
  destruct (IH _ _ H) as (k' & Hk). exists k'. right. exact Hk.
Qed.

Lemma escape_bytes_bytes q : Forall byte q -> forall v, Forall byte v -> Forall byte (escape_bytes q v).
Proof.
  intros Hq v. induction v as [|c r IH]; intros Hv; [constructor|]. inversion Hv as [|? ? Hc Hr]; subst.
  cbn [escape_bytes]. destruct (lookup_bytes string_reverse_escapes [c]) as [e|] eqn:El.
  - assert (He : Forall byte e).
    { destruct (lookup_bytes_In _ _ _ El) as (k' & Hin). pose proof rev_escapes_bytes as Hall.
      rewrite forallb_forall in Hall. specialize (Hall _ Hin). cbn [snd] in Hall. apply all_bytes_Forall, Hall. }
    constructor; [unfold byte; lia|]. apply Forall_app. split; [|apply IH, Hr].
    destruct (all_digits e && _); [|exact He]. unfold rjust3. apply Forall_app. split; [|exact He].
    apply Forall_forall. intros x Hx. apply repeat_spec in Hx. subst x. unfold byte. lia.
  - destruct (zlist_eqb [c] q).
    + constructor; [unfold byte; lia|]. constructor; [exact Hc | apply IH, Hr].
    + constructor; [exact Hc | apply IH, Hr].
Qed.

Lemma spec_code_bytes s : Forall byte (s_raw s) -> qs_ok s -> Forall byte (spec_code s).
Proof.
  intros Hraw Hq. unfold spec_code. destruct (s_kind s) eqn:K; try exact Hraw.
  destruct (s_long s <? 0) eqn:L; [|exact Hraw].
  assert (Q : is_quoted s = true) by (unfold is_quoted; rewrite K; exact L).
  destruct (Hq Q) as (q & Hq34 & Hf & Hb). rewrite Hf. unfold reencode.
  assert (Bq : Forall byte [q]) by (constructor; [destruct Hq34; subst; unfold byte; lia | constructor]).
  apply Forall_app. split; [exact Bq|]. apply Forall_app. split; [apply escape_bytes_bytes; assumption | exact Bq].
Qed.

Lemma kind_of_newline k : kind_of k = KNewline -> k = SNewline.
Proof. destruct k; cbn; intros H; try discriminate; reflexivity. Qed.

(* ---------- the lexer model's tokens of a good line list of the dialect ---------- *)
Definition good_lines (ls : list bytes) : Prop := Forall ends_lf (removelast ls) /\ Forall byte (concat ls).

Theorem dialect_echo_good ls ts :
  good_lines ls -> spec_lex (concat ls) <> None -> model_lex ls = Ok ts ->
  good_lines (echo_toks ts [] false).
Proof.
  intros [Hlf HB] Hs Hm. destruct (spec_lex (concat ls)) as [ss|] eqn:Es; [|congruence].
  rewrite (model_lex_chunking ls Hlf) in Hm.
  destruct (lex_agrees_code (concat ls) ss HB Es) as (ts' & Hm' & Hcodes & _). rewrite Hm in Hm'. injection Hm' as <-.
  assert (Hc : chain (concat ls) (map unpos ss)).
  { apply (spec_toks_chain (concat ls)). unfold spec_toks. rewrite Es. reflexivity. }
  pose proof (chain_newlines _ _ Hc) as Hnl. pose proof (chain_raw_bytes _ _ Hc HB) as Hrb.
  pose proof (spec_lex_qs _ _ HB Es) as Hqs.
  rewrite Forall_map in Hnl, Hrb. cbn [unpos s_kind s_raw] in Hnl, Hrb.
  rewrite echo_toks_pairs, Hcodes. split.
  - apply echo_pairs_lf. rewrite Forall_map. cbn [fst snd].
    eapply Forall_impl; [|exact Hnl]. intros s Hs' Hk. apply kind_of_newline in Hk. unfold spec_code. rewrite Hk.
    destruct (Hs' Hk) as [-> | ->]; [exists [] | exists [13]]; reflexivity.
  - rewrite echo_pairs_concat by reflexivity. cbn [app]. rewrite map_map. cbn [snd].
    apply Forall_concat. rewrite Forall_map.
    clear -Hrb Hqs. induction ss as [|s ss IH]; [constructor|].
    inversion Hrb; subst. inversion Hqs; subst. constructor; [apply spec_code_bytes; assumption | apply IH; assumption].
Qed.
