From PV Require Import Base.Prelude Base.ListX Base.Utf8 Model.P8scii.

Section Proofs.
Variable charset : list (Z * list Z).
Variable u2p_items : list (list Z * Z).
Variable width_items : list (Z * Z).
Notation spelling := (spelling charset).
Notation p2u := (p2u charset).
Notation u2p_fuel := (u2p_fuel u2p_items width_items).
Notation u2p := (u2p u2p_items width_items).
Notation entry_ok := (entry_ok charset u2p_items width_items).
Notation table_ok := (table_ok charset u2p_items width_items).

Lemma entry_ok_spec i :
  entry_ok i = true ->
  exists c sp', spelling i = c :: sp' /\
    lookup_z width_items c = Some (zlen (c :: sp')) /\
    lookup_str u2p_items (c :: sp') = Some i.
Proof.
  unfold P8scii.entry_ok. destruct (spelling i) as [|c sp'] eqn:E; [discriminate|].
  destruct (lookup_z width_items c) as [w|] eqn:Ew; [|discriminate].
  destruct (lookup_str u2p_items (c :: sp')) as [b|] eqn:Eb; [|rewrite andb_false_r; discriminate].
  rewrite andb_true_iff, !Z.eqb_eq. intros [-> ->]. exists c, sp'. auto.
Qed.

Lemma u2p_fuel_p2u bs : forall fuel,
  table_ok = true -> Forall byte bs -> (length (p2u bs) <= fuel)%nat ->
  u2p_fuel fuel (p2u bs) = Ok bs.
Proof.
  induction bs as [|b bs IH]; intros fuel Hok Hb Hf.
  - destruct fuel; reflexivity.
  - inversion Hb as [|b' bs' Hb1 Hb2]; subst.
    pose proof Hok as Hok'. unfold P8scii.table_ok in Hok'. apply andb_true_iff in Hok' as [_ Hall].
    pose proof (sweep_byte _ Hall b Hb1) as Hent.
    destruct (entry_ok_spec b Hent) as (c & sp' & Esp & Ew & Es).
    cbn [P8scii.p2u flat_map] in *. fold (p2u bs) in *. rewrite Esp in *.
    rewrite app_length in Hf. cbn [length] in Hf.
    destruct fuel as [|fuel]; [lia|].
    cbn [app P8scii.u2p_fuel]. rewrite Ew.
    assert (Hn : Z.to_nat (zlen (c :: sp')) = length (c :: sp')) by (unfold zlen; lia).
    rewrite Hn.
    change (c :: sp' ++ p2u bs) with ((c :: sp') ++ p2u bs).
    rewrite firstn_app, Nat.sub_diag, firstn_O, app_nil_r, firstn_all.
    rewrite Es.
    rewrite skipn_app, Nat.sub_diag, skipn_O, skipn_all. cbn [app].
    rewrite (IH fuel Hok Hb2) by lia. reflexivity.
Qed.

Lemma u2p_p2u bs : table_ok = true -> Forall byte bs -> u2p (p2u bs) = Ok bs.
Proof. intros Hok Hb. unfold P8scii.u2p. apply u2p_fuel_p2u; auto. Qed.

(* every spelling is a non-empty list of valid Unicode scalars -> the text is UTF-8 encodable *)
Definition scalars_ok : bool :=
  forallb (fun i => forallb valid_scalarb (spelling i)) (upto 256).

Lemma p2u_valid bs : scalars_ok = true -> Forall byte bs -> Forall valid_scalar (p2u bs).
Proof.
  intros Hs Hb. induction Hb as [|b bs Hb1 Hb2 IH]; [constructor|].
  cbn [P8scii.p2u flat_map]. apply Forall_app. split; [|exact IH].
  pose proof (sweep_byte _ Hs b Hb1) as H. cbv beta in H.
  rewrite forallb_forall in H. apply Forall_forall. exact H.
Qed.

Lemma prefix_free_spec :
  prefix_free charset = true ->
  forall i j, byte i -> byte j -> i <> j -> ~ exists r, spelling j = spelling i ++ r.
Proof.
  intros H i j Hi Hj Hne Hex.
  unfold P8scii.prefix_free in H.
  pose proof (sweep_byte _ H i Hi) as H1. cbv beta in H1.
  pose proof (sweep_byte _ H1 j Hj) as H2. cbv beta in H2.
  apply orb_true_iff in H2 as [H2|H2]; [apply Z.eqb_eq in H2; contradiction|].
  apply negb_true_iff in H2. unfold is_prefix in H2.
  apply starts_with_app in Hex. congruence.
Qed.

End Proofs.
