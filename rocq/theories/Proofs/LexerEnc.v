(* C06, string part: the spelling the model of TokString.code writes for a quoted string
   ([escape_bytes] / [reencode] of Model/Lexer.v, driven by the REGENERATED table
   [string_reverse_escapes]) is decoded by the REFERENCE grammar ([unescape_until] / [spec_unescape]
   of Spec/LuaLex.v) back to exactly the same bytes, for every byte string and both quotes.

   Facts about the table enter only through [esc_shape_all], a closed boolean sweep over the 256
   bytes evaluated on the table as regenerated. *)
From PV Require Import Base.Prelude Generated.T_lexer Model.Lexer Spec.LuaLex Proofs.LexerProofs.
From Coq Require Import ZifyBool.

(* ---------- the reference decoder, one escape at a time *)
Definition starts_digit (s : list Z) : bool := match s with c :: _ => is_digit c | [] => false end.

Lemma uu_raw q c s :
  (c =? q) = false -> is_eol c = false -> (c =? 92) = false ->
  unescape_until q (c :: s) = ucons [c] c (unescape_until q s).
Proof.
  intros H1 H2 H3. cbn [unescape_until]. rewrite H1, H2, H3. reflexivity.
Qed.

Lemma uu_simple q e v s :
  (92 =? q) = false -> is_digit e = false -> (e =? 120) = false -> (e =? 10) = false ->
  (e =? 13) = false -> simple_escape e = Some v ->
  unescape_until q (92 :: e :: s) = ucons [92; e] v (unescape_until q s).
Proof.
  intros Hq H1 H2 H3 H4 H5. cbn [unescape_until]. rewrite Hq.
  change (is_eol 92) with false. change (92 =? 92) with true. cbv beta iota.
  rewrite H1, H2, H3, H4, H5. reflexivity.
Qed.

Lemma uu_dec3 q a b c v s :
  (92 =? q) = false -> is_digit a = true -> is_digit b = true -> is_digit c = true ->
  v = (a - 48) * 100 + (b - 48) * 10 + (c - 48) -> v <= 255 ->
  unescape_until q (92 :: a :: b :: c :: s) = ucons [92; a; b; c] v (unescape_until q s).
Proof.
  intros Hq Ha Hb Hc Hv Hle. cbn [unescape_until]. rewrite Hq, Ha, Hb, Hc.
  change (is_eol 92) with false. change (92 =? 92) with true. cbv beta iota.
  rewrite <- Hv. apply Z.leb_le in Hle. rewrite Hle. reflexivity.
Qed.

Lemma uu_dec2 q a b v s :
  (92 =? q) = false -> is_digit a = true -> is_digit b = true -> starts_digit s = false ->
  v = (a - 48) * 10 + (b - 48) ->
  unescape_until q (92 :: a :: b :: s) = ucons [92; a; b] v (unescape_until q s).
Proof.
  intros Hq Ha Hb Hs Hv. cbn [unescape_until]. rewrite Hq, Ha, Hb.
  change (is_eol 92) with false. change (92 =? 92) with true. cbv beta iota.
  rewrite <- Hv. destruct s as [|x s']; [reflexivity|].
  cbn [starts_digit] in Hs. cbv beta iota. rewrite Hs. reflexivity.
Qed.

Lemma uu_dec1 q a v s :
  (92 =? q) = false -> is_digit a = true -> starts_digit s = false ->
  v = a - 48 ->
  unescape_until q (92 :: a :: s) = ucons [92; a] v (unescape_until q s).
Proof.
  intros Hq Ha Hs Hv. cbn [unescape_until]. rewrite Hq, Ha.
  change (is_eol 92) with false. change (92 =? 92) with true. cbv beta iota.
  rewrite <- Hv. destruct s as [|x s']; [reflexivity|].
  cbn [starts_digit] in Hs. cbv beta iota. rewrite Hs. reflexivity.
Qed.

(* ---------- the encoder, one byte at a time *)
Definition next_digit (r : list Z) : bool := match r with d :: _ => m_digit d | [] => false end.

(* what [escape_bytes [q]] writes for the byte [c] when [nd] tells whether the next data byte is a digit *)
Definition enc1 (q c : Z) (nd : bool) : list Z :=
  match lookup_bytes string_reverse_escapes [c] with
  | Some e => 92 :: (if all_digits e && nd then rjust3 e else e)
  | None => if zlist_eqb [c] [q] then [92; c] else [c]
  end.

Lemma escape_bytes_cons q c r :
  escape_bytes [q] (c :: r) = enc1 q c (next_digit r) ++ escape_bytes [q] r.
Proof.
  unfold enc1, next_digit. cbn [escape_bytes].
  destruct (lookup_bytes string_reverse_escapes [c]); [reflexivity|].
  destruct (zlist_eqb [c] [q]); reflexivity.
Qed.

(* ---------- the table, by computation *)
(* per byte c: a numbered escape has one to three digits whose decimal value is c; any other escape
   is one byte that the reference grammar reads as a simple escape for c; a byte without an entry is
   neither the backslash nor a line break *)
Definition esc_shape_ok (c : Z) : bool :=
  match lookup_bytes string_reverse_escapes [c] with
  | Some e =>
    if all_digits e then
      match e with
      | [d1] => d1 - 48 =? c
      | [d1; d2] => (d1 - 48) * 10 + (d2 - 48) =? c
      | [d1; d2; d3] => (d1 - 48) * 100 + (d2 - 48) * 10 + (d3 - 48) =? c
      | _ => false
      end
    else
      match e with
      | [x] =>
        negb (is_digit x) && negb (x =? 120) && negb (x =? 10) && negb (x =? 13) &&
        match simple_escape x with Some v => v =? c | None => false end
      | _ => false
      end
  | None => negb (c =? 92) && negb (c =? 10) && negb (c =? 13)
  end.

Lemma esc_shape_all : forallb esc_shape_ok (upto 256) = true.
Proof. vm_compute. reflexivity. Qed.

Lemma all_digits_cons d e : all_digits (d :: e) = true -> is_digit d = true /\ forallb m_digit e = true.
Proof.
  unfold all_digits. cbn [is_nil negb forallb andb]. intros H. apply andb_true_iff in H. exact H.
Qed.

(* one encoded byte is read back as that byte *)
Lemma enc1_decodes q c nd s :
  (q = 34 \/ q = 39) -> byte c ->
  (nd = false -> starts_digit s = false) ->
  unescape_until q (enc1 q c nd ++ s) = ucons (enc1 q c nd) c (unescape_until q s).
Proof.
  intros Hq Hc Hnd.
  assert (Hbq : (92 =? q) = false) by (destruct Hq; subst; reflexivity).
  pose proof (sweep_byte _ esc_shape_all c Hc) as Hs.
  unfold byte in Hc. unfold esc_shape_ok in Hs. unfold enc1.
  destruct (lookup_bytes string_reverse_escapes [c]) as [e|].
  - destruct (all_digits e) eqn:Hd.
    + (* numbered escape *)
      destruct e as [|d1 [|d2 [|d3 [|d4 e]]]]; try discriminate Hs.
      * apply all_digits_cons in Hd. destruct Hd as [H1 _].
        destruct nd; cbn [andb].
        -- change (rjust3 [d1]) with [48; 48; d1]. cbn [app].
           apply uu_dec3; try reflexivity; try assumption; lia.
        -- cbn [app]. apply uu_dec1; try assumption; [auto | lia].
      * apply all_digits_cons in Hd. destruct Hd as [H1 Hd].
        cbn [forallb] in Hd. apply andb_true_iff in Hd. destruct Hd as [H2 _].
        change (m_digit d2) with (is_digit d2) in H2.
        destruct nd; cbn [andb].
        -- change (rjust3 [d1; d2]) with [48; d1; d2]. cbn [app].
           apply uu_dec3; try reflexivity; try assumption; lia.
        -- cbn [app]. apply uu_dec2; try assumption; [auto | lia].
      * apply all_digits_cons in Hd. destruct Hd as [H1 Hd].
        cbn [forallb] in Hd. apply andb_true_iff in Hd. destruct Hd as [H2 Hd].
        apply andb_true_iff in Hd. destruct Hd as [H3 _].
        change (m_digit d2) with (is_digit d2) in H2. change (m_digit d3) with (is_digit d3) in H3.
        assert (Hr : (if true && nd then rjust3 [d1; d2; d3] else [d1; d2; d3]) = [d1; d2; d3])
          by (destruct nd; reflexivity).
        rewrite Hr. cbn [app]. apply uu_dec3; try assumption; lia.
    + (* named escape *)
      destruct e as [|x [|y e]]; try discriminate Hs.
      cbn [andb app].
      destruct (simple_escape x) as [v|] eqn:Hse;
        [|rewrite andb_false_r in Hs; discriminate Hs].
      repeat (apply andb_true_iff in Hs; let H := fresh "Hx" in destruct Hs as [Hs H]).
      apply Z.eqb_eq in Hx. subst v.
      apply uu_simple; try assumption; lia.
  - destruct (zlist_eqb [c] [q]) eqn:Hz.
    + apply zlist_eqb_eq in Hz. injection Hz as Hz. subst c. cbn [app].
      destruct Hq; subst q; apply uu_simple; reflexivity.
    + cbn [zlist_eqb] in Hz. rewrite andb_true_r in Hz. cbn [app].
      apply uu_raw; [assumption | unfold is_eol; lia | lia].
Qed.

(* the encoded text starts with a digit only when the data does (digits are written raw) *)
Lemma escape_starts_digit q r tail :
  starts_digit tail = false ->
  starts_digit (escape_bytes [q] r ++ tail) = true -> next_digit r = true.
Proof.
  intros Ht H. destruct r as [|c r].
  - cbn [escape_bytes app] in H. congruence.
  - rewrite escape_bytes_cons in H. unfold enc1 in H. cbn [next_digit].
    destruct (lookup_bytes string_reverse_escapes [c]).
    + cbn [app starts_digit] in H. change (is_digit 92) with false in H. discriminate H.
    + destruct (zlist_eqb [c] [q]); cbn [app starts_digit] in H.
      * change (is_digit 92) with false in H. discriminate H.
      * exact H.
Qed.

(* ---------- main theorems *)
(* general form: what follows the encoded text is arbitrary, except that it does not start with a
   digit (in the application it is the closing quote) *)
Theorem escape_bytes_decodes : forall q v tail,
  (q = 34 \/ q = 39) -> Forall byte v ->
  (match tail with c :: _ => is_digit c = false | [] => True end) ->
  forall v' raw' rest', unescape_until q tail = Some (v', raw', rest') ->
  unescape_until q (escape_bytes [q] v ++ tail) = Some (v ++ v', escape_bytes [q] v ++ raw', rest').
Proof.
  intros q v tail Hq Hv Ht v' raw' rest' Htail.
  assert (Ht' : starts_digit tail = false) by (destruct tail; [reflexivity | exact Ht]).
  clear Ht. induction Hv as [|c r Hc Hr IH].
  - exact Htail.
  - rewrite escape_bytes_cons, <- !app_assoc.
    rewrite enc1_decodes; try assumption.
    + rewrite IH. reflexivity.
    + intros Hn. destruct (starts_digit (escape_bytes [q] r ++ tail)) eqn:Hsd; [|reflexivity].
      apply (escape_starts_digit q r tail Ht') in Hsd. congruence.
Qed.

(* the whole literal as the reference lexer's string branch sees it *)
Theorem reencode_lexes : forall q v rest, (q = 34 \/ q = 39) -> Forall byte v ->
  unescape_until q (escape_bytes [q] v ++ q :: rest) = Some (v, escape_bytes [q] v ++ [q], rest).
Proof.
  intros q v rest Hq Hv.
  rewrite (escape_bytes_decodes q v (q :: rest) Hq Hv) with (v' := []) (raw' := [q]) (rest' := rest).
  - rewrite app_nil_r. reflexivity.
  - destruct Hq; subst q; reflexivity.
  - cbn [unescape_until]. rewrite Z.eqb_refl. reflexivity.
Qed.

Theorem reencode_denotes : forall q v, (q = 34 \/ q = 39) -> Forall byte v ->
  spec_unescape q (escape_bytes [q] v) = Some v.
Proof.
  intros q v Hq Hv. unfold spec_unescape. rewrite (reencode_lexes q v [] Hq Hv). reflexivity.
Qed.

(* the same, phrased on [reencode]: opening quote, body, closing quote *)
Corollary reencode_spec_string : forall q v rest, (q = 34 \/ q = 39) -> Forall byte v ->
  exists raw, reencode [q] v ++ rest = q :: raw ++ rest /\ unescape_until q (raw ++ rest) = Some (v, raw, rest).
Proof.
  intros q v rest Hq Hv. exists (escape_bytes [q] v ++ [q]). split.
  - unfold reencode. cbn [app]. rewrite <- app_assoc. reflexivity.
  - rewrite <- app_assoc. cbn [app]. apply reencode_lexes; assumption.
Qed.

(* corner cases, evaluated: a numbered escape before a digit, before a non-digit, at the end; the
   quote; line breaks; a high byte *)
Example reencode_corners :
  forallb (fun v => match spec_unescape 34 (escape_bytes [34] v), spec_unescape 39 (escape_bytes [39] v) with
                    | Some a, Some b => zlist_eqb a v && zlist_eqb b v
                    | _, _ => false
                    end)
          [[0; 49]; [14; 53]; [0]; [92; 110]; [34]; [39]; [10]; [13; 10]; [255]; [15; 57; 0; 48; 14]] = true.
Proof. vm_compute. reflexivity. Qed.

Print Assumptions escape_bytes_decodes.
Print Assumptions reencode_denotes.
Print Assumptions reencode_lexes.
Print Assumptions reencode_spec_string.
