(* The cursor calculus of Proofs/WriterCursor.v with the writer's nesting counter: emitsD B E E' m c c' says that from
   a cursor near c and with _indent = E the action m succeeds, ends exactly at cursor c' with _indent = E', and that
   every non-empty white-space run it emits ends at a significant token i and - if the run holds a newline token, i.e.
   if token i can begin a line - was passed the indent D i (goodD), D being the expected indent of token i
   (instantiated with the reference depth in Proofs/AstWriterDepth.v).  Runs without a newline token lie inside a line;
   their indent is not constrained (inside a one-line `if (c) .. else ..` the writer's counter is one above the
   reference depth). *)
From PV Require Import Base.Prelude Spec.LuaTokens Spec.LuaGrammar Model.Tokens Model.WriterChunks Model.AstWriter
  Model.WriterDomain Proofs.ParserProofs Proofs.WriterCursor.
From Coq Require Import ZifyBool.
Ltac Zify.zify_post_hook ::= Z.to_euclidean_division_equations.

Section CD.
Variable ts : list token.
Variable D : Z -> Z.

Local Notation sig := (ParserProofs.sig ts).
Local Notation sigb := (ParserProofs.sigb ts).
Local Notation len := (zlen ts).
Local Notation nearB := (nearB ts).
Local Notation okpos := (okpos ts).

Definition goodD (c : chunk) : Prop :=
  match c with
  | Trivia s ind _ run => run = [] \/ (sigb (s + zlen run) = true /\ (existsb is_newline run = true -> ind = D (s + zlen run)))
  | Code _ _ => True
  end.

Definition emitsD (B E E' : Z) (m : WM) (c c' : Z) : Prop :=
  forall st, nearB c B (w_pos st) -> w_ind st = E ->
  exists st' cs, m st = Ok st' /\ w_pos st' = c' /\ c <= c' /\ w_ind st' = E' /\ w_out st' = rev cs ++ w_out st /\ Forall goodD cs.

Lemma emitsD_mono B B' E E' m c c' : emitsD B E E' m c c' -> B' <= B -> emitsD B' E E' m c c'.
Proof. intros H Hle st Hn He. apply H; [eapply nearB_mono; eassumption | exact He]. Qed.

Lemma emitsD_ext B E E' m m' c c' : (forall st, m st = m' st) -> emitsD B E E' m' c c' -> emitsD B E E' m c c'.
Proof. intros He H st Hn Hi. rewrite He. apply H; assumption. Qed.

Lemma emitsD_skip B E c : B <= c -> emitsD B E E skip c c.
Proof.
  intros Hle st Hn He. exists st, []. pose proof (nearB_tight ts _ _ _ Hn Hle) as Hp.
  split; [reflexivity|]. split; [exact Hp|]. split; [lia|]. split; [exact He|]. split; [reflexivity | constructor].
Qed.

Lemma emitsDX_skip E c : emitsD c E E skip c c.
Proof. apply emitsD_skip. lia. Qed.

Lemma emitsDX_indent d E c : emitsD c E (E + d) (indent_by d) c c.
Proof.
  intros st Hn He. eexists _, []. pose proof (nearB_tight ts _ _ _ Hn (Z.le_refl c)) as Hp.
  split; [reflexivity|]. cbn [w_pos w_ind w_out]. split; [exact Hp|]. split; [lia|]. split; [lia|]. split; [reflexivity | constructor].
Qed.

Lemma emitsD_seq B E E1 E2 m1 m2 c c1 c2 :
  emitsD B E E1 m1 c c1 -> emitsD c1 E1 E2 m2 c1 c2 -> emitsD B E E2 (m1 >> m2) c c2.
Proof.
  intros H1 H2 st Hn He. destruct (H1 st Hn He) as (st1 & cs1 & X1 & P1 & Q1 & I1 & O1 & G1).
  assert (Hn1 : nearB c1 c1 (w_pos st1)) by (rewrite P1; apply nearB_exact; destruct Hn; lia).
  destruct (H2 st1 Hn1 I1) as (st2 & cs2 & X2 & P2 & Q2 & I2 & O2 & G2).
  exists st2, (cs1 ++ cs2). unfold seq. rewrite X1. split; [exact X2|]. split; [exact P2|]. split; [lia|]. split; [exact I2|].
  split; [rewrite O2, O1, rev_app_distr, app_assoc; reflexivity | apply Forall_app; split; assumption].
Qed.

Definition movesD (B B' E E' : Z) (m : WM) (c : Z) : Prop :=
  forall st, nearB c B (w_pos st) -> w_ind st = E ->
  exists st' cs, m st = Ok st' /\ nearB c B' (w_pos st') /\ w_ind st' = E' /\ w_out st' = rev cs ++ w_out st /\ Forall goodD cs.

Lemma emitsD_after B B' E E1 E2 m1 m2 c c' : movesD B B' E E1 m1 c -> emitsD B' E1 E2 m2 c c' -> emitsD B E E2 (m1 >> m2) c c'.
Proof.
  intros H1 H2 st Hn He. destruct (H1 st Hn He) as (st1 & cs1 & X1 & N1 & I1 & O1 & G1).
  destruct (H2 st1 N1 I1) as (st2 & cs2 & X2 & P2 & Q2 & I2 & O2 & G2).
  exists st2, (cs1 ++ cs2). unfold seq. rewrite X1. split; [exact X2|]. split; [exact P2|]. split; [exact Q2|]. split; [exact I2|].
  split; [rewrite O2, O1, rev_app_distr, app_assoc; reflexivity | apply Forall_app; split; assumption].
Qed.

Lemma movesD_indent B E d c : movesD B B E (E + d) (indent_by d) c.
Proof.
  intros st Hn He. eexists _, []. split; [reflexivity|]. cbn [w_pos w_ind w_out].
  split; [exact Hn|]. split; [lia|]. split; [reflexivity | constructor].
Qed.

(* the chunk a white-space call emits is the one of the plain calculus: reuse its cursor facts *)
Lemma spaces_to_chunk b st : exists run, spaces_to ts b st = Ok (mkW (w_pos st + zlen run) (w_ind st) (Trivia (w_pos st) (w_ind st) (w_pos st + zlen run =? ntok ts) run :: w_out st)).
Proof. unfold spaces_to. eexists. reflexivity. Qed.

(* white space with an end position as bound; if the next significant token lies before the bound the indent must be its D *)
Lemma movesD_spaces_to B E b c : okpos b -> (forall j, [j] = sig c (j + 1) -> j < b -> E = D j) ->
  movesD B (Z.max B b) E E (spaces_to ts b) c.
Proof.
  intros Hb HD st Hn He.
  destruct (moves_spaces_to ts B b Hb c st Hn) as (st1 & cs1 & X1 & N1 & O1 & C1 & G1).
  unfold spaces_to in *. set (p := w_pos st) in *. set (run := trivia_run (skipn (Z.to_nat p) ts) (Z.to_nat (b - p))) in *.
  injection X1 as <-. cbn [w_pos w_ind w_out] in *.
  eexists _, [_]. split; [reflexivity|]. cbn [w_pos w_ind w_out]. split; [exact N1|]. split; [exact He|]. split; [reflexivity|].
  constructor; [|constructor]. cbn [goodD]. destruct (Z.eq_dec (zlen run) 0) as [Hz|Hz].
  { left. destruct run; [reflexivity | rewrite zlen_cons in Hz; pose proof (zlen_nonneg run); lia]. }
  right. pose proof (zlen_nonneg run) as Hr0.
  assert (Hp0 : 0 <= p) by (pose proof (nearB_le ts _ _ _ Hn); destruct Hn; lia).
  destruct (Z_le_gt_dec len p) as [Hlen|Hlen].
  { exfalso. unfold run in Hz. rewrite skipn_all2 in Hz by (unfold zlen in Hlen; lia). rewrite trivia_run_nil_l, zlen_nil in Hz. lia. }
  destruct (trivia_run_stop ts (skipn (Z.to_nat p) ts) p (Z.to_nat (b - p))) as (A & Bd & Cd & Dd);
    [lia | intros k; apply skipn_nth_ts | rewrite zlen_skipn by (unfold zlen in Hlen; lia); lia |].
  fold run in A, Bd, Cd, Dd.
  destruct Hn as [H0 [Hpc|[Hps HpB]]].
  - destruct N1 as [_ [N1|[N1 N2]]]; [lia|]. rewrite Hpc in *. split; [apply (first_sig_inv ts _ _ N1)|]. intros _.
    rewrite He. apply HD; [exact N1|].
    destruct (Z_lt_ge_dec (c + zlen run) b) as [Hlt|Hge]; [exact Hlt|]. exfalso.
    destruct Hb as [Hb1 [Hb2|Hb2]]; [lia|]. rewrite (A (b - 1)) in Hb2 by lia. discriminate.
  - exfalso. destruct (first_sig_inv ts _ _ Hps) as (_ & A2 & _). rewrite (A p) in A2 by lia. discriminate.
Qed.

Lemma movesD_spaces B E tag s e sh fs c : okpos e -> (forall j, [j] = sig c (j + 1) -> j < e -> E = D j) ->
  movesD B (Z.max B e) E E (spaces ts (Node tag s e sh fs)) c.
Proof. intros H HD. unfold spaces, bound_of. apply movesD_spaces_to; assumption. Qed.

Lemma spaces_hitD b c B E i st : [i] = sig c (i + 1) -> i < b -> E = D i -> nearB c B (w_pos st) -> w_ind st = E ->
  exists st' cs, spaces_to ts b st = Ok st' /\ w_pos st' = i /\ w_ind st' = E /\ w_out st' = rev cs ++ w_out st /\ Forall goodD cs.
Proof.
  intros Hi Hb HD Hn He. destruct (spaces_hit ts b c B i st Hi Hb Hn) as (st1 & cs1 & X1 & P1 & I1 & O1 & C1 & G1).
  destruct (spaces_to_chunk b st) as (run & Hrun). rewrite Hrun in X1. injection X1 as <-. cbn [w_pos w_ind w_out] in *.
  eexists _, [_]. split; [exact Hrun|]. cbn [w_pos w_ind w_out]. split; [exact P1|]. split; [exact He|]. split; [reflexivity|].
  constructor; [|constructor]. cbn [goodD]. destruct run as [|t0 r0] eqn:Er; [left; reflexivity | right]. rewrite <- Er in *.
  rewrite P1. split; [apply (first_sig_inv ts _ _ Hi) | intros _; rewrite He; exact HD].
Qed.

Lemma emitsD_spaces_cur B E E' b k c c' i t :
  [i] = sig c (i + 1) -> i < b -> E = D i -> AstWriter.tok_at ts i = Some t ->
  emitsD i E E' (k t) i c' -> emitsD B E E' (spaces_to ts b >> with_cur ts k) c c'.
Proof.
  intros Hi Hb HD Ht Hk st Hn He. destruct (spaces_hitD b c B E i st Hi Hb HD Hn He) as (st1 & cs1 & X1 & P1 & I1 & O1 & G1).
  assert (Hn1 : nearB i i (w_pos st1)).
  { rewrite P1. apply nearB_exact. destruct Hn as [H0 _]. apply first_sig_inv in Hi. lia. }
  destruct (Hk st1 Hn1 I1) as (st2 & cs2 & X2 & P2 & Q2 & I2 & O2 & G2).
  exists st2, (cs1 ++ cs2). unfold seq. rewrite X1. rewrite (with_cur_at ts k st1 t) by (rewrite P1; exact Ht).
  split; [exact X2|]. split; [exact P2|]. split; [apply first_sig_inv in Hi; lia|]. split; [exact I2|].
  split; [rewrite O2, O1, rev_app_distr, app_assoc; reflexivity | apply Forall_app; split; assumption].
Qed.

Lemma emitsDX_advance E i text : 0 <= i -> emitsD i E E (advance_emit text) i (i + 1).
Proof.
  intros H0 st Hn He. pose proof (nearB_tight ts _ _ _ Hn (Z.le_refl i)) as Hp.
  eexists _, [Code (w_pos st) text]. split; [reflexivity|]. cbn [w_pos w_ind w_out]. rewrite Hp.
  split; [reflexivity|]. split; [lia|]. split; [exact He|]. split; [reflexivity | repeat constructor].
Qed.

Lemma emitsD_get_text B E tag s e sh fs kw c i t :
  [i] = sig c (i + 1) -> i < e -> E = D i -> AstWriter.tok_at ts i = Some t -> is_kw_or_sym kw t = true ->
  emitsD B E E (get_text ts (Node tag s e sh fs) kw) c (i + 1).
Proof.
  intros Hi He HD Ht Hk. unfold get_text, spaces, bound_of.
  eapply emitsD_spaces_cur; [exact Hi | exact He | exact HD | exact Ht|]. rewrite Hk.
  apply emitsDX_advance. apply first_sig_inv in Hi. destruct Hi as (Hi & Hs & _). apply sigb_range in Hs. lia.
Qed.

Lemma emitsD_spaces_advance B E b c i text :
  [i] = sig c (i + 1) -> i < b -> E = D i -> emitsD B E E (spaces_to ts b >> advance_emit text) c (i + 1).
Proof.
  intros Hi Hb HD st Hn He.
  destruct (spaces_hitD b c B E i st Hi Hb HD Hn He) as (st1 & cs1 & X1 & P1 & I1 & O1 & G1).
  eexists _, (cs1 ++ [Code i text]). unfold seq. rewrite X1. unfold advance_emit. split; [reflexivity|].
  cbn [w_pos w_ind w_out]. rewrite P1. split; [reflexivity|]. split; [apply first_sig_inv in Hi; lia|]. split; [exact I1|].
  split; [rewrite O1, rev_app_distr; reflexivity | apply Forall_app; split; [exact G1 | repeat constructor]].
Qed.

Lemma emitsD_get_name B E tag s e sh fs c i t :
  [i] = sig c (i + 1) -> i < e -> E = D i -> kclass_eqb (tk t) CName = true ->
  emitsD B E E (get_name ts (Node tag s e sh fs) t) c (i + 1).
Proof.
  intros Hi He HD Hk. unfold get_name, spaces, bound_of. rewrite Hk. apply emitsD_spaces_advance; assumption.
Qed.

End CD.
