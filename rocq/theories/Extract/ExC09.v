From PV Require Import Base.Prelude Spec.LuaTokens Model.Tokens Model.WriterChunks Model.FmtSpaces Model.FmtSpacesInst Model.AstWriter.
Require Extraction.
Require Import ExtrOcamlBasic.
Extraction "../ocaml/build/ExC09.ml" io_types mkTok writer_chunks writer_text echo_spaces fmt_spaces view.
