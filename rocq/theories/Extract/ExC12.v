From PV Require Import Base.Prelude Model.Paths Model.Include Model.Require Model.FilesInst Model.RequireWalk.
Require Extraction.
Require Import ExtrOcamlBasic.
Extraction "../ocaml/build/ExC12.ml" io_types normpath join dirname abspath expanduser full_path
  starts_with split_on replace_char
  inc_root_now resolve_include_now resolve_include_prefix inc_root_prefix include_full_path
  require_filter_now require_filter_old effective_lua_path_now require_candidates_now evaluate_require include_accesses_now.
