From PV Require Import Base.Prelude Base.Utf8 Generated.T_p8scii Model.P8scii Model.P8sciiInst.
Require Extraction.
Require Import ExtrOcamlBasic.
Extraction "../ocaml/build/ExC15.ml" io_types p8_p2u p8_u2p utf8_encode utf8_decode.
