From PV Require Import Base.Prelude Spec.PlainMem Instances.HoldsC17.
Require Extraction.
Require Import ExtrOcamlBasic.
Extraction "../ocaml/build/MonC17.ml" io_types holds_C17 holds_C17_seq spec_step in_contract.
