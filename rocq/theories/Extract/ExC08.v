From PV Require Import Base.Prelude Generated.T_parser Model.Tokens Model.Parser Model.ParserInst.
Require Extraction.
Require Import ExtrOcamlBasic.
Extraction "../ocaml/build/ExC08.ml" io_types mkTok lua_parse.
