From PV Require Import Base.Prelude Generated.T_luanames Generated.T_lexer Model.NameFactory.
Require Extraction.
Require Import ExtrOcamlBasic.
Extraction "../ocaml/build/ExC02.ml" io_types name_for_id id_of_name read_names_file mk_config luamin_config build_minify_config run_factory_st
  nfi_recurse nfi_digit_idx preserved_names.
