(* monitor side: depends on Base/ and Instances/ only, never on Generated/ or Model/ *)
From PV Require Import Base.Prelude Instances.HoldsC02.
Require Extraction.
Require Import ExtrOcamlBasic.
Extraction "../ocaml/build/MonC02.ml" io_types holds_C02 holds_length holds_consistent holds_injective holds_kept holds_fresh.
