(* monitor side: depends on Base/, Spec/ and Instances/ only, never on Generated/ or Model/ *)
From PV Require Import Base.Prelude Spec.LuaLex Instances.HoldsC06.
Require Extraction.
Require Import ExtrOcamlBasic.
Extraction "../ocaml/build/MonC06.ml" io_types spec_lex diff_C06 holds_C06 holds_C06_error holds_C06_relex spec_unescape skind_code.
