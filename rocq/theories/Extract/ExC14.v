From PV Require Import Base.Prelude Model.FilesInst Model.ReqEmbed Model.ReqEmbedInst.
Require Extraction.
Require Import ExtrOcamlBasic.
Extraction "../ocaml/build/ExC14.ml" io_types effective_lua_path_now run_build run_walk.
