From PV Require Import Base.Prelude Model.ReqEmbed Model.ReqEmbedInst.
Require Extraction.
Require Import ExtrOcamlBasic.
Extraction "../ocaml/build/ExC14.ml" io_types run_build run_walk.
