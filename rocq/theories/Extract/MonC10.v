(* monitor side: depends on Spec/ and Instances/ only, never on Generated/ or Model/ *)
From PV Require Import Base.Prelude Spec.FmtShape Instances.HoldsC10.
Require Extraction.
Require Import ExtrOcamlBasic.
Extraction "../ocaml/build/MonC10.ml" io_types holds_C10 C10_verdict holds_C10_shape C10_shape_verdict lex tkind_code link_mismatches.
