From PV Require Import Base.Prelude Model.FmtSpaces.
Require Extraction.
Require Import ExtrOcamlBasic.
Extraction "../ocaml/build/ExC10.ml" io_types mk_fcfg fmt_run min_run.
