From PV Require Import Base.Prelude Base.Utf8 Instances.HoldsC15.
Require Extraction.
Require Import ExtrOcamlBasic.
Extraction "../ocaml/build/MonC15.ml" io_types holds_C15 holds_C15_prefix_free.
