(* monitor side: depends on Spec/ and Instances/ only, never on Generated/ or Model/ *)
From PV Require Import Base.Prelude Spec.PxcFormat Spec.P8PngSpec Instances.HoldsC04.
Require Extraction.
Require Import ExtrOcamlBasic.
Extraction "../ocaml/build/MonC04.ml" io_types holds_C04_image holds_C04_readback holds_C04_refused holds_C04_refused_witness holds_C04_pixels
  rom_of_rows area_text.
