(* monitor side of C01 / C19: depends on Base/, Spec/ and Instances/ only, never on Generated/ or Model/ *)
From PV Require Import Base.Prelude Spec.LuaLex Instances.HoldsC02 Instances.HoldsC01.
Require Extraction.
Require Import ExtrOcamlBasic.
Extraction "../ocaml/build/MonC01.ml" io_types holds_C01 holds_C01_obs diag_C01 where_C01 holds_C19 holds_C19_obs diag_C19
  spec_toks sig_toks skind_code.
