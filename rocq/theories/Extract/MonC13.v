(* monitor side: Spec/ and Instances/ only *)
From PV Require Import Base.Prelude Spec.BuildSpec Instances.HoldsC13.
Require Extraction.
Require Import ExtrOcamlBasic.
Extraction "../ocaml/build/MonC13.ml" io_types zlist_eqb holds_C13 build_spec mkSecs mkCart mkWorld mkArgs mkObs.
