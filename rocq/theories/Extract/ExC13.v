From PV Require Import Base.Prelude Spec.BuildSpec Model.Build Model.BuildInst.
Require Extraction.
Require Import ExtrOcamlBasic.
Extraction "../ocaml/build/ExC13.ml" io_types zlist_eqb do_build_now stored_label_now namespace_now mkSecs mkCart mkWorld mkArgs.
