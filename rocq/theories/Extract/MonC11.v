(* monitor side: Spec/ and Instances/ only *)
From PV Require Import Base.Prelude Spec.FsSem Instances.HoldsC11.
Require Extraction.
Require Import ExtrOcamlBasic.
Extraction "../ocaml/build/MonC11.ml" io_types holds_C11 holds_C11_quiet safe encoder_done.
