From PV Require Import Base.Prelude Spec.P8Format Instances.HoldsC16.
Require Extraction.
Require Import ExtrOcamlBasic.
Extraction "../ocaml/build/MonC16.ml" io_types holds_C16_write holds_C16_read holds_C16_file
  holds_C16_unpack holds_C16_pack spec_lines.
