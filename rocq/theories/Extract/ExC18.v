From PV Require Import Base.Prelude Model.Memmap.
Require Extraction.
Require Import ExtrOcamlBasic.
Extraction "../ocaml/build/ExC18.ml" io_types write_cart_data.
