From PV Require Import Base.Prelude Model.Paths Model.Include Model.FilesInst.
Require Extraction.
Require Import ExtrOcamlBasic.
Extraction "../ocaml/build/ExC20.ml" io_types match_include_line lines_for_tab file_lines yielded
  mk_fsview process_includes_now.
