(* monitor side: depends on Spec/ and Instances/ only, never on Generated/ or Model/ *)
From PV Require Import Base.Prelude Spec.PxcFormat Instances.HoldsC05.
Require Extraction.
Require Import ExtrOcamlBasic.
Extraction "../ocaml/build/MonC05.ml" io_types holds_C05_stream holds_C05_area holds_C05_readback holds_C05_agree
  pxc_decode pxc_decode_all decode_area carried.
