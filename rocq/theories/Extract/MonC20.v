(* monitor side: Spec/ and Instances/ only *)
From PV Require Import Base.Prelude Spec.SpliceSpec Instances.HoldsC20.
Require Extraction.
Require Import ExtrOcamlBasic.
Extraction "../ocaml/build/MonC20.ml" io_types holds_C20 judge_C20 text_lines classify split_tabs.
