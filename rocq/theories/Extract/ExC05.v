From PV Require Import Base.Prelude Model.Compress Model.P8Png.
Require Extraction.
Require Import ExtrOcamlBasic.
Extraction "../ocaml/build/ExC05.ml" io_types find_repeatable_block compress_code decompress_code
  get_bytes_from_code get_code_from_bytes.
