(* model side of C01 / C19: lexer model + LuaMinifyTokenWriter model *)
From PV Require Import Base.Prelude Generated.T_lexer Generated.T_minifier Model.NameFactory Model.Lexer Model.TokWriters.
Require Extraction.
Require Import ExtrOcamlBasic.
Extraction "../ocaml/build/ExC01.ml" io_types mk_config model_lex minify minify_gen fuses tok_code fusing_chars closers_src luamin_cart_text p8_lua_text.
