From PV Require Import Base.Prelude Generated.T_lexer Model.Lexer Model.EchoWriter.
Require Extraction.
Require Import ExtrOcamlBasic.
Extraction "../ocaml/build/ExC06.ml" io_types model_lex echo echo_source tok_code reencode.
