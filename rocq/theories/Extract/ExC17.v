From PV Require Import Base.Prelude Spec.PlainMem Model.Accessors.
Require Extraction.
Require Import ExtrOcamlBasic.
Extraction "../ocaml/build/ExC17.ml" io_types step_model run_model mk.
