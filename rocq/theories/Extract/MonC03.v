From PV Require Import Base.Prelude Spec.P8FileSpec Instances.HoldsC03.
Require Extraction.
Require Import ExtrOcamlBasic.
Extraction "../ocaml/build/MonC03.ml" io_types holds_C03 holds_C03_short header_like code_in_format.
