From PV Require Import Base.Prelude Generated.T_lexer Model.Lexer.
Require Extraction.
Require Import ExtrOcamlBasic.
Extraction "../ocaml/build/ExC07.ml" io_types model_lex tok_code tok_value tok_str_value token_count run_matcher first_match symbols token_matchers.
