(* monitor side: depends on Spec/ and Instances/ only, never on Generated/ or Model/ *)
From PV Require Import Base.Prelude Spec.FlatMem Instances.HoldsC18.
Require Extraction.
Require Import ExtrOcamlBasic.
Extraction "../ocaml/build/MonC18.ml" io_types holds_C18.
