(* monitor side: depends on Base/, Spec/ and Instances/ only, never on Generated/ or Model/ *)
From PV Require Import Base.Prelude Spec.LuaLex Instances.HoldsC07.
Require Extraction.
Require Import ExtrOcamlBasic.
Extraction "../ocaml/build/MonC07.ml" io_types spec_lex diff_C07 holds_C07 holds_C07_error holds_C07_chunking spec_token_count spec_token_count_e skind_code.
