From PV Require Import Base.Prelude Model.P8File.
Require Extraction.
Require Import ExtrOcamlBasic.
Extraction "../ocaml/build/ExC03.ml" io_types read_p8_chunks write_p8_of_chunks match_section match_version split_lines.
