From PV Require Import Base.Prelude Model.HexSection Model.Gfx Model.Gff Model.MapSec Model.Sfx Model.Music.
From PV Require Import Generated.K_gfx Generated.K_gff Generated.K_map Generated.K_sfx Generated.K_music.
Require Extraction.
Require Import ExtrOcamlBasic.
Extraction "../ocaml/build/ExSections.ml" io_types
  base_to_lines base_from_lines gfx_to_lines gfx_from_lines gff_to_lines map_to_lines
  sfx_to_lines sfx_from_lines music_to_lines music_from_lines
  get_sprite set_sprite gff_get_flags gff_set_flags gff_clear_flags gff_reset_flags
  map_get_cell map_set_cell map_get_rect_tiles map_set_rect_tiles
  sfx_get_note sfx_set_note sfx_get_properties sfx_set_properties
  music_get_channel music_set_channel music_get_properties music_set_properties.
