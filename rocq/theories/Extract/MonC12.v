(* monitor side: Spec/ and Instances/ only *)
From PV Require Import Base.Prelude Spec.PathSpec Instances.HoldsC12.
Require Extraction.
Require Import ExtrOcamlBasic.
Extraction "../ocaml/build/MonC12.ml" io_types holds_C12_include holds_C12_require locate include_root underb.
