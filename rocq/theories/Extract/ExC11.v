From PV Require Import Base.Prelude Spec.BuildSpec Spec.FsSem Model.FsProto Model.FsProtoInst.
Require Extraction.
Require Import ExtrOcamlBasic.
Extraction "../ocaml/build/ExC11.ml" io_types to_file_trace_now process_one_trace_now build_trace_now process_many_trace_now mkCartIn out_fname formatter_now.
