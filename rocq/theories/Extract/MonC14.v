(* monitor side: depends on Spec/ and Instances/ only, never on Generated/ or Model/ *)
From PV Require Import Base.Prelude Spec.LuaLex Spec.PathSpec Spec.RequireSpec Instances.HoldsC14.
Require Extraction.
Require Import ExtrOcamlBasic.
Extraction "../ocaml/build/MonC14.ml" io_types load_path verdict_C14 holds_C14.
