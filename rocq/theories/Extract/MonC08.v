(* monitor side: depends on Spec/ and Instances/ only, never on Generated/ or Model/ *)
From PV Require Import Base.Prelude Spec.LuaTokens Spec.LuaGrammar Instances.HoldsC08.
Require Extraction.
Require Import ExtrOcamlBasic.
Extraction "../ocaml/build/MonC08.ml" io_types mkTok ref_ok_C08 holds_C08_any holds_C08
  derives line_scoped consumed denotes root_ok ranges_ok increasing leaves shortif_on_line.
