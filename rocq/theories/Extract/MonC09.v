(* monitor side: depends on Spec/ and Instances/ only, never on Generated/ or Model/ *)
From PV Require Import Base.Prelude Spec.LuaTokens Spec.LuaGrammar Spec.SameCode Instances.HoldsC09.
Require Extraction.
Require Import ExtrOcamlBasic.
Extraction "../ocaml/build/MonC09.ml" io_types mkTok holds_C09 consumed same_code lines_kept.
