From PV Require Import Base.Prelude Model.Compress Model.PngStego Model.P8Png.
Require Extraction.
Require Import ExtrOcamlBasic.
Extraction "../ocaml/build/ExC04.ml" io_types write_png_pixels read_png_pixels get_bytes_from_code
  get_code_from_bytes join_mem split_mem rows_of_picodata_fast picodata_of_rows_fast.
