(* Common prelude: result monad with the exception enum used by every model,
   byte predicates, byte-string literals. Stdlib only. *)
From Coq Require Export ZArith List Bool Lia.
From Coq.Strings Require Import Byte.
Export ListNotations.
Open Scope Z_scope.

(* ---------- exceptions as values ---------- *)
Inductive err : Set :=
| AssertionError | IndexError | ValueError | TypeError | KeyError
| UnicodeError | LexerError | ParserError | AttributeError
| InvalidP8Header | InvalidP8Section | IncludeOutside | IncludeNotFound
| BuildError | OtherError | OutOfFuel.

Inductive result (A : Type) : Type :=
| Ok (a : A)
| Err (e : err).
Arguments Ok {A} a.
Arguments Err {A} e.

Definition bind {A B} (r : result A) (f : A -> result B) : result B :=
  match r with Ok a => f a | Err e => Err e end.
Notation "x <- r ;; k" := (bind r (fun x => k))
  (at level 61, r at next level, right associativity).
Notation "' p <- r ;; k" := (bind r (fun p => k))
  (at level 61, p pattern, r at next level, right associativity).

Definition assert_ (b : bool) : result unit :=
  if b then Ok tt else Err AssertionError.

Definition is_ok {A} (r : result A) : bool :=
  match r with Ok _ => true | Err _ => false end.

(* ---------- bytes ---------- *)
Definition byte (b : Z) : Prop := 0 <= b < 256.
Definition byteb (b : Z) : bool := (0 <=? b) && (b <? 256).
Definition bytes := list Z.
Definition all_bytes (l : list Z) : bool := forallb byteb l.

Lemma byteb_spec b : byteb b = true <-> byte b.
Proof. unfold byteb, byte. rewrite andb_true_iff, Z.leb_le, Z.ltb_lt. tauto. Qed.

Lemma all_bytes_Forall l : all_bytes l = true <-> Forall byte l.
Proof.
  unfold all_bytes. rewrite forallb_forall, Forall_forall.
  split; intros H x Hx; apply byteb_spec; auto.
Qed.

Definition zlen {A} (l : list A) : Z := Z.of_nat (length l).

Lemma zlen_nonneg {A} (l : list A) : 0 <= zlen l.
Proof. unfold zlen. lia. Qed.

Lemma zlen_app {A} (a b : list A) : zlen (a ++ b) = zlen a + zlen b.
Proof. unfold zlen. rewrite app_length. lia. Qed.

Lemma zlen_nil {A} : zlen (@nil A) = 0.
Proof. reflexivity. Qed.

Lemma zlen_cons {A} (x : A) l : zlen (x :: l) = 1 + zlen l.
Proof. unfold zlen. cbn [length]. lia. Qed.

(* the integers 0 .. n-1 *)
Fixpoint upto_nat (n : nat) : list Z :=
  match n with O => [] | S k => upto_nat k ++ [Z.of_nat k] end.
Definition upto (n : Z) : list Z := map Z.of_nat (seq 0 (Z.to_nat n)).

Lemma in_upto n x : In x (upto n) <-> 0 <= x < n.
Proof.
  unfold upto. rewrite in_map_iff. split.
  - intros (k & <- & Hk). apply in_seq in Hk. lia.
  - intros H. exists (Z.to_nat x). split; [lia|]. apply in_seq. lia.
Qed.

(* lifting a finite sweep: the only way vm_compute results enter a theorem *)
Lemma sweep_upto (P : Z -> bool) n :
  forallb P (upto n) = true -> forall x, 0 <= x < n -> P x = true.
Proof. intros H x Hx. rewrite forallb_forall in H. apply H, in_upto, Hx. Qed.

(* linear-time enumeration for large sweeps (upto is quadratic under vm_compute: Z.of_nat k costs k) *)
Fixpoint upto_from (k : nat) (z : Z) : list Z :=
  match k with O => [] | S k' => z :: upto_from k' (z + 1) end.
Definition upto_fast (n : Z) : list Z := upto_from (Z.to_nat n) 0.
Lemma upto_from_seq k : forall s, upto_from k (Z.of_nat s) = map Z.of_nat (seq s k).
Proof.
  induction k as [|k IH]; intros s; cbn [upto_from seq map]; [reflexivity|].
  f_equal. replace (Z.of_nat s + 1) with (Z.of_nat (S s)) by lia. apply IH.
Qed.
Lemma upto_fast_eq n : upto_fast n = upto n.
Proof. unfold upto_fast, upto. apply (upto_from_seq _ 0%nat). Qed.
Lemma sweep_upto_fast (P : Z -> bool) n :
  forallb P (upto_fast n) = true -> forall x, 0 <= x < n -> P x = true.
Proof. rewrite upto_fast_eq. apply sweep_upto. Qed.

Lemma sweep_byte (P : Z -> bool) :
  forallb P (upto 256) = true -> forall x, byte x -> P x = true.
Proof. intros H x Hx. apply (sweep_upto P 256 H x Hx). Qed.

(* ---------- byte-string literals:  "abc"%bs : list Z ---------- *)
Inductive bstr := BS (l : list Z).
Definition z_of_byte (b : Byte.byte) : Z := Z.of_N (Byte.to_N b).
Definition byte_of_z (z : Z) : option Byte.byte := Byte.of_N (Z.to_N z).
Definition bs_of_bytes (l : list Byte.byte) : bstr := BS (map z_of_byte l).
Fixpoint opt_all {A} (l : list (option A)) : option (list A) :=
  match l with
  | [] => Some []
  | None :: _ => None
  | Some a :: r => match opt_all r with Some r' => Some (a :: r') | None => None end
  end.
Definition bytes_of_bs (b : bstr) : option (list Byte.byte) :=
  match b with BS l => opt_all (map byte_of_z l) end.
Declare Scope bs_scope.
Delimit Scope bs_scope with bs.
String Notation bstr bs_of_bytes bytes_of_bs : bs_scope.
Definition unBS (b : bstr) : list Z := match b with BS l => l end.
Coercion unBS : bstr >-> list.

(* list equality on Z lists, boolean *)
Fixpoint zlist_eqb (a b : list Z) : bool :=
  match a, b with
  | [], [] => true
  | x :: a', y :: b' => (x =? y) && zlist_eqb a' b'
  | _, _ => false
  end.

Lemma zlist_eqb_eq a b : zlist_eqb a b = true <-> a = b.
Proof.
  revert b; induction a as [|x a IH]; intros [|y b]; cbn; split; try congruence; try reflexivity.
  - rewrite andb_true_iff, Z.eqb_eq, IH. intros [-> ->]; reflexivity.
  - intros [= -> ->]. rewrite Z.eqb_refl. cbn. apply IH. reflexivity.
Qed.

Fixpoint starts_with (p s : list Z) : bool :=
  match p, s with
  | [], _ => true
  | x :: p', y :: s' => (x =? y) && starts_with p' s'
  | _ :: _, [] => false
  end.

Lemma starts_with_app p s : starts_with p s = true <-> exists r, s = p ++ r.
Proof.
  revert s; induction p as [|x p IH]; intros s; cbn.
  - split; [intros _; exists s; reflexivity | reflexivity].
  - destruct s as [|y s]; [split; [discriminate | intros (r & H); discriminate]|].
    rewrite andb_true_iff, Z.eqb_eq, IH. split.
    + intros (-> & r & ->). exists r. reflexivity.
    + intros (r & [= -> ->]). split; [reflexivity | exists r; reflexivity].
Qed.

(* forces extraction of every type ocaml/io.ml mentions *)
Definition io_types : list err * nat * Z :=
  ([AssertionError; IndexError; ValueError; TypeError; KeyError; UnicodeError; LexerError; ParserError;
    AttributeError; InvalidP8Header; InvalidP8Section; IncludeOutside; IncludeNotFound; BuildError;
    OtherError; OutOfFuel], 1%nat, -1).
